import RichModel.Drv.Proto
import RichModel.Drv.Ratio
import RichModel.Model.Table
import RichModel.Gen.CellWidths
import RichModel.Gen.TableBoxes
import RichModel.Model.Frames
import RichModel.Model.TableRows
/-
Driver handlers for property C07 (tables): the width arithmetic (Drv/Ratio) and the table model.

`table.bundle <TAB> pool <TAB> variant <TAB> variant …`
  pool    = oracles separated by `;`; an oracle = one entry per width 0..W separated by `|`;
            an entry = `min max#k#line/line/…` (k = number of lines; a line = space separated code points)
            or `!` (real rich raised at that width).
  variant = `flags;avail;opts;rows;columns` (see `decVariant`); cells refer to oracles by index.
  answer  = one answer per variant joined by `@`; a variant answers
            `W<widths>L<lines>` | `err:AssertionError` | `unmodelled` (an oracle was asked outside its table).
-/
namespace RichModel.Drv.C07
open RichModel RichModel.Proto RichModel.Drv.Ratio

def cw : Char → Nat := charWidthT Gen.cellWidths

/-- One tabulated width of a cell: `none` in a field = real rich RAISED there (a cell whose renderable raises). -/
structure OEntry where
  meas : Option Measurement
  lines : Option (List (List Char))

abbrev Oracle := Array OEntry

/-- entry = `<min max | !>#<k | !>#line/line/…` -/
def decEntry (s : String) : OEntry :=
  match s.splitOn "#" with
  | [m, k, body] =>
    let meas := match m.splitOn " " with
      | [mn, mx] => some ⟨decInt mn, decInt mx⟩
      | _ => none
    let lines := if k == "!" then none else some (if k == "0" then [] else (body.splitOn "/").map decStr)
    { meas := meas, lines := lines }
  | _ => { meas := none, lines := none }

def decOracle (s : String) : Oracle := ((s.splitOn "|").map decEntry).toArray

def decPool (s : String) : Array Oracle := if s.isEmpty then #[] else ((s.splitOn ";").map decOracle).toArray

/-- consultation status: 0 = answered, 1 = outside the tabulated range, 2 = real rich raised there -/
def Oracle.measStatus (o : Oracle) (w : Nat) : Nat := match o[w]? with | some e => if e.meas.isSome then 0 else 2 | none => 1
def Oracle.renderStatus (o : Oracle) (w : Nat) : Nat := match o[w]? with | some e => if e.lines.isSome then 0 else 2 | none => 1

def Oracle.toCell (o : Oracle) : Cell :=
  { measure := fun w => match o[w]? with | some e => e.meas.getD ⟨0, 0⟩ | _ => ⟨0, 0⟩,
    renderLines := fun w => match o[w]? with | some e => e.lines.getD [] | _ => [] }

def Oracle.toLines (o : Oracle) : Nat → List (List Char) := fun w => match o[w]? with | some e => e.lines.getD [] | _ => []

def worst (l : List Nat) : Nat := l.foldl max 0

/-- a box given by content: `raw:` then 8 lines separated by `/`, each 4 code points separated by `.` -/
def decRawBox (body : String) : Option Box :=
  Box.ofLines? ((body.splitOn "/").map (fun l => (l.splitOn ".").filterMap (fun t => t.toNat?.map Char.ofNat)))

/-- `self.box.substitute(options, safe=…)` (modelled by C08 in Model/Frames on indices into rich/box.py's constants, which
`Gen.tableBoxes` lists in the same order — `Props/C07.table_boxes_agree`); a box given by content is in no substitution
table and is not ascii. -/
def lookupBox (name : String) (legacy asciiOnly safe : Bool) : Option (Option Box) :=
  if name == "-" then some none
  else if name.startsWith "raw:" then
    if asciiOnly then (Gen.tableBoxes[Gen.asciiBox]?.bind (fun e => Box.ofLines? e.2.2)).map some
    else (decRawBox (name.drop 4).toString).map some
  else match Gen.tableBoxes.findIdx? (·.1 == name) with
    | some i =>
      let j := Frames.substituteBox { consoleWidth := 0, asciiOnly := asciiOnly, legacyWindows := legacy } safe i
      (Gen.tableBoxes[j]?.bind (fun e => Box.ofLines? e.2.2)).map some
    | none => none

/-- A decoded variant: the model table plus, per column, the oracles `getCells` will consult (same order). -/
structure Variant where
  fl : Flags
  avail : Int
  t : Table
  colOracles : List (List Oracle)
  titleO : Option Oracle
  captionO : Option Oracle
  wf : Bool     -- every column has at most `rows` cells (so `self.rows[index - show_header]` cannot raise)

def getOracle (pool : Array Oracle) (s : String) : Option Oracle := if s == "-" then none else pool[decNat s]?

def decColumn (pool : Array Oracle) (s : String) : Option (Column × List Oracle) :=
  match s.splitOn " " with
  | w :: mn :: mx :: ra :: nw :: hdr :: ftr :: _n :: cells =>
    let cellOs := cells.filterMap (getOracle pool)
    if cellOs.length != cells.length then none
    else
      let h := getOracle pool hdr
      let f := getOracle pool ftr
      some ({ header := (h.getD #[]).toCell, footer := (f.getD #[]).toCell, cells := cellOs.map Oracle.toCell,
              width := decOptInt w, minWidth := decOptInt mn, maxWidth := decOptInt mx, ratio := decOptInt ra,
              noWrap := decBool nw },
            h.toList ++ cellOs ++ f.toList)
  | _ => none

def decVariant (pool : Array Oracle) (s : String) : Option Variant :=
  match s.splitOn ";" with
  | [fls, avail, opts, rows, cols] =>
    match fls.splitOn " ", opts.splitOn " " with
    | [lr, mc, fr, nc, fneg, stw, fcz], [bx, sh, sf, se, sl, leading, pt, pr, pb, pl, pe, cp, ex, w, mw, ti, ca, safe, legacy, asciiOnly] =>
      match lookupBox bx (decBool legacy) (decBool asciiOnly) (decBool safe) with
      | none => none
      | some box =>
        let colsD := if cols.isEmpty then [] else (cols.splitOn ",").map (decColumn pool)
        if colsD.any Option.isNone then none
        else
          let colsL := colsD.filterMap id
          let titleO := getOracle pool ti
          let captionO := getOracle pool ca
          let rowsL := decBools rows
          let showHeader := decBool sh
          let showFooter := decBool sf
          -- a header / footer oracle must be present exactly when it is shown
          let t : Table :=
            { columns := colsL.map (·.1), rowEndSection := rowsL, box := box,
              showHeader := showHeader, showFooter := showFooter, showEdge := decBool se, showLines := decBool sl,
              leading := decInt leading, padding := (decInt pt, decInt pr, decInt pb, decInt pl),
              padEdge := decBool pe, collapsePadding := decBool cp, expandFlag := decBool ex,
              width := decOptInt w, minWidth := decOptInt mw,
              title := titleO.map Oracle.toLines, caption := captionO.map Oracle.toLines }
          let okShape := colsL.all (fun co =>
            co.2.length == co.1.cells.length + (if showHeader then 1 else 0) + (if showFooter then 1 else 0))
          if !okShape then none
          else
            let flags : Flags := { leadingRepeat := decBool lr, minWidthCapsExpand := decBool mc, fixedRawMaximum := decBool fr, noColumnsAsserts := decBool nc, flexNegative := decBool fneg, staleTableWidth := decBool stw, flexClampZero := decBool fcz }
            some { fl := flags, avail := decInt avail, t := t,
                      colOracles := colsL.map (·.2), titleO, captionO,
                      wf := colsL.all (fun co => co.1.cells.length ≤ rowsL.length) }
    | _, _ => none
  | _ => none

/-- The cells `_calculate_column_widths` MEASURES at `inner = max_width - extra`: status of the worst consultation. -/
def Variant.measureStatus (v : Variant) (inner : Int) : Nat :=
  let t := v.t
  let first := if inner < 1 then 0 else
    worst ((t.columns.zip v.colOracles).map (fun co => if co.1.width.isSome then 0 else worst (co.2.map (·.measStatus inner.toNat))))
  let re := match t.firstWidths v.fl inner with
    | some ws => if ws.sum > inner then
        worst (((t.shrinkPre ws inner).1.zip (t.columns.zip v.colOracles)).map
          (fun wco => if wco.1 < 1 || wco.2.1.width.isSome then 0 else worst (wco.2.2.map (·.measStatus wco.1.toNat))))
      else 0
    | none => 0
  max first re

/-- The cells `_render` RENDERS at the final widths, and the title / caption at the table width. -/
def Variant.renderStatus (v : Variant) (r : Rendered) : Nat :=
  let t := v.t
  -- `zip(*columns)`: only the first `n` cells of every column are rendered
  let n := (zipRows (t.columns.map t.getCells)).length
  let cells := worst ((r.widths.zip v.colOracles).map (fun wo => worst ((wo.2.take n).map (·.renderStatus wo.1.toNat))))
  let tw := (r.widths.sum + t.extraWidth).toNat
  let ann := max (match v.titleO with | some o => o.renderStatus tw | none => 0)
                 (match v.captionO with | some o => o.renderStatus tw | none => 0)
  max cells ann

def encRendered (r : Rendered) : String := "W" ++ encInts r.widths ++ "L" ++ encStrList r.lines

/-- `Table.__rich_measure__(console, avail)` as `|M<min> <max>`; `|M?` when a cell would be measured outside its table,
`|Merr:AssertionError` when `ratio_distribute` asserts. -/
def Variant.measureAns (v : Variant) : String :=
  let t := v.t
  let maxWidth := t.width.getD v.avail
  if maxWidth < 0 then "|M0 0"
  else
    let inner := maxWidth - t.extraWidth
    let st1 := v.measureStatus inner
    if st1 == 2 then "|Merr:CellRaises" else
    match t.calcWidths v.fl inner with
    | none => if st1 == 1 then "|M?" else "|Merr:AssertionError"
    | some ws =>
      let mw := ws.sum
      let st2 := if mw < 1 then 0 else
        worst ((t.columns.zip v.colOracles).map (fun co => if co.1.width.isSome then 0 else worst (co.2.map (·.measStatus mw.toNat))))
      let st := max st1 st2
      if st == 2 then "|Merr:CellRaises"
      else if st == 1 then "|M?"
      else match t.richMeasure v.fl v.avail with
        | some m => "|M" ++ encMeas m
        | none => "|Merr:AssertionError"

def runVariant (pool : Array Oracle) (s : String) : String :=
  match decVariant pool s with
  | none => "unmodelled"
  | some v =>
    if !v.wf then "unmodelled"
    else
      let inner := v.t.width.getD v.avail - v.t.extraWidth
      let st1 := v.measureStatus inner
      (if st1 == 2 then "err:CellRaises" else
        match v.t.render v.fl cw v.avail with
        | none => if st1 == 1 then "unmodelled" else "err:AssertionError"
        | some r =>
          let st := max st1 (v.renderStatus r)
          if st == 2 then "err:CellRaises" else if st == 1 then "unmodelled" else encRendered r) ++ v.measureAns

def encPad : Option (Int × Int × Int × Int) → String
  | none => "-"
  | some (a, b, c, d) => s!"{a} {b} {c} {d}"

/-! ### `add_row` / styles (`Model/TableRows.lean`) -/

open TableRows in
/-- a call = `<end_section 0|1>:<args>`; an argument: `0` = None, `-1` = not renderable, `k > 0` = renderable number `k` -/
def decCall (s : String) : List (Arg Int) × RowMeta :=
  match s.splitOn ":" with
  | [es, args] =>
    ((if args.isEmpty then [] else (args.splitOn " ").map (fun a =>
        let v := decInt a
        if v == 0 then Arg.none else if v < 0 then Arg.bad else Arg.ok v)), { endSection := decBool es })
  | _ => ([], {})

open TableRows in
def encBuilder (r : Builder Int × Bool) : String :=
  (if r.2 then "ok" else "err:NotRenderableError") ++ "#" ++ toString r.1.cols.length ++ "#" ++
    "/".intercalate (r.1.cols.map (fun c => " ".intercalate (c.map toString))) ++ "#" ++
    " ".intercalate (r.1.rows.map (fun m => if m.endSection then "1" else "0"))

open TableRows in
mutual
def encSrc : Src → String
  | .table => "T" | .border => "B" | .rowStyles i => s!"RS{i}" | .row s => s!"R{s}"
  | .tableHeader => "TH" | .tableFooter => "TF" | .colHeader j => s!"CH{j}" | .colFooter j => s!"CF{j}" | .colStyle j => s!"CS{j}"
  | .own i => s!"O{i}" | .bgOf l => "BG(" ++ encSrcs l ++ ")"
def encSrcs : List Src → String
  | [] => ""
  | x :: r => encSrc x ++ "." ++ encSrcs r
end

open TableRows in
def encStyle (l : List Src) : String := "+".intercalate (l.map encSrc)

def handlers : List (String × (List String → String)) := Drv.Ratio.handlers ++ [
  -- `Table.add_row` calls on a table with n0 declared columns: blank `""` = 0, back-fill `Text("")` = -2
  ("table.add_rows", fun a => match a with
    | [n0, calls] =>
      let b0 : TableRows.Builder Int := { cols := List.replicate (decNat n0) [], rows := [] }
      let cs := if calls.isEmpty then [] else (calls.splitOn ";").map decCall
      encBuilder (b0.addRows 0 (-2) cs)
    | _ => "bad-args"),
  -- the styles `_render` composes: show_header show_footer len(row_styles) rows' style ids (-1 = None) n(zipped rows) ms(entries per column) divider-is-space
  ("table.styles", fun a => match a with
    | [sh, sf, k, rst, n, ms, sp] =>
      let rows : List TableRows.RowMeta := (if rst.isEmpty then [] else (rst.splitOn " ").map (fun x =>
        let v := decInt x
        ({ style := if v < 0 then none else some v.toNat } : TableRows.RowMeta)))
      let sh := decBool sh
      let sf := decBool sf
      let k := decNat k
      let n := decNat n
      let ms := if ms.isEmpty then [] else (ms.splitOn " ").map decNat
      ";".intercalate ((List.range n).map (fun index =>
        encStyle (TableRows.fillStyle sh sf k rows n index) ++ "|" ++ encStyle (TableRows.dividerStyle (decBool sp) sh sf k rows n index) ++ "|" ++
          ",".intercalate (ms.zipIdx.map (fun mj => encStyle (TableRows.cellStyle sh sf k rows n index mj.2 mj.1)))))
        ++ "|" ++ encStyle TableRows.borderStyle
    | _ => "bad-args"),
  ("table.bundle", fun a => match a with
    | pool :: variants =>
      let p := decPool pool
      "@".intercalate (variants.map (runVariant p))
    | _ => "bad-args"),
  -- `add_padding` of `_get_cells`: padding(4) padEdge collapse firstCol lastCol firstRow lastRow
  ("table.cell_padding", fun a => match a with
    | [pt, pr, pb, pl, pe, cp, fc, lc, fr, lr] =>
      let t : Table := { columns := [], padding := (decInt pt, decInt pr, decInt pb, decInt pl),
                         padEdge := decBool pe, collapsePadding := decBool cp }
      encPad (t.cellPadding (decBool fc) (decBool lc) (decBool fr) (decBool lr))
    | _ => "bad-args"),
  -- `_get_padding_width(column_index)`
  ("table.padding_width", fun a => match a with
    | [pt, pr, pb, pl, cp, idx] =>
      let t : Table := { columns := [], padding := (decInt pt, decInt pr, decInt pb, decInt pl), collapsePadding := decBool cp }
      toString (t.paddingWidth (decNat idx))
    | _ => "bad-args"),
  -- Box.get_top / get_row / get_bottom: name, which (top|bottom|head|row|mid|foot), edge, widths
  ("box.row", fun a => match a with
    | [name, which, edge, ws] =>
      match lookupBox name false false true with
      | some (some b) =>
        let widths := (decInts ws).map Int.toNat
        let e := decBool edge
        if which == "top" then encStr (b.getTop widths).text
        else if which == "bottom" then encStr (b.getBottom widths).text
        else if which == "head" then encStr (b.getRow .headSep .head e widths).text
        else if which == "row" then encStr (b.getRow .rowSep .row e widths).text
        else if which == "mid" then encStr (b.getRow .midSep .mid e widths).text
        else if which == "foot" then encStr (b.getRow .footSep .foot e widths).text
        else "err:ValueError"
      | _ => "unmodelled"
    | _ => "bad-args")
]

end RichModel.Drv.C07
