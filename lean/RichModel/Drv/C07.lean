import RichModel.Drv.Proto
import RichModel.Drv.Ratio
import RichModel.Model.Table
import RichModel.Gen.CellWidths
import RichModel.Gen.TableBoxes
/-
Driver handlers for property C07 (tables): the width arithmetic (Drv/Ratio) and the table model.

`table.bundle <TAB> pool <TAB> variant <TAB> variant …`
  pool    = oracles separated by `;`; an oracle = one entry per width 0..W separated by `|`;
            an entry = `min max#k#line/line/…` (k = number of lines; a line = space separated code points)
            or `!` (real rich raised at that width).
  variant = `flags;avail;opts;rows;columns` (see `decVariant`); cells refer to oracles by index.
  answer  = one answer per variant joined by `@`; a variant answers
            `W<widths>L<lines>` | `err:AssertionError` | `unmodelled` (an oracle was asked outside its table).
-/
namespace RichModel.Drv.C07
open RichModel RichModel.Proto RichModel.Drv.Ratio

def cw : Char → Nat := charWidthT Gen.cellWidths

structure OEntry where
  meas : Measurement
  lines : List (List Char)

abbrev Oracle := Array (Option OEntry)

def decEntry (s : String) : Option OEntry :=
  match s.splitOn "#" with
  | [m, k, body] =>
    match m.splitOn " " with
    | [mn, mx] =>
      let lines := if k == "0" then [] else (body.splitOn "/").map decStr
      some { meas := ⟨decInt mn, decInt mx⟩, lines := lines }
    | _ => none
  | _ => none

def decOracle (s : String) : Oracle := ((s.splitOn "|").map decEntry).toArray

def decPool (s : String) : Array Oracle := if s.isEmpty then #[] else ((s.splitOn ";").map decOracle).toArray

def Oracle.has (o : Oracle) (w : Nat) : Bool := match o[w]? with | some (some _) => true | _ => false

def Oracle.toCell (o : Oracle) : Cell :=
  { measure := fun w => match o[w]? with | some (some e) => e.meas | _ => ⟨0, 0⟩,
    renderLines := fun w => match o[w]? with | some (some e) => e.lines | _ => [] }

def Oracle.toLines (o : Oracle) : Nat → List (List Char) := fun w => match o[w]? with | some (some e) => e.lines | _ => []

/-- a box given by content: `raw:` then 8 lines separated by `/`, each 4 code points separated by `.` -/
def decRawBox (body : String) : Option Box :=
  Box.ofLines? ((body.splitOn "/").map (fun l => (l.splitOn ".").filterMap (fun t => t.toNat?.map Char.ofNat)))

def lookupBox (name : String) : Option (Option Box) :=
  if name == "-" then some none
  else if name.startsWith "raw:" then (decRawBox (name.drop 4).toString).map some
  else match Gen.tableBoxes.find? (·.1 == name) with
    | some e => (Box.ofLines? e.2.2).map some
    | none => none

/-- A decoded variant: the model table plus, per column, the oracles `getCells` will consult (same order). -/
structure Variant where
  fl : Flags
  avail : Int
  t : Table
  colOracles : List (List Oracle)
  titleO : Option Oracle
  captionO : Option Oracle
  wf : Bool     -- every column has at most `rows` cells (so `self.rows[index - show_header]` cannot raise)

def getOracle (pool : Array Oracle) (s : String) : Option Oracle := if s == "-" then none else pool[decNat s]?

def decColumn (pool : Array Oracle) (s : String) : Option (Column × List Oracle) :=
  match s.splitOn " " with
  | w :: mn :: mx :: ra :: nw :: hdr :: ftr :: _n :: cells =>
    let cellOs := cells.filterMap (getOracle pool)
    if cellOs.length != cells.length then none
    else
      let h := getOracle pool hdr
      let f := getOracle pool ftr
      some ({ header := (h.getD #[]).toCell, footer := (f.getD #[]).toCell, cells := cellOs.map Oracle.toCell,
              width := decOptInt w, minWidth := decOptInt mn, maxWidth := decOptInt mx, ratio := decOptInt ra,
              noWrap := decBool nw },
            h.toList ++ cellOs ++ f.toList)
  | _ => none

def decVariant (pool : Array Oracle) (s : String) : Option Variant :=
  match s.splitOn ";" with
  | [fls, avail, opts, rows, cols] =>
    match fls.splitOn " ", opts.splitOn " " with
    | [lr, mc, fr, nc, fneg, stw, fcz], [bx, sh, sf, se, sl, leading, pt, pr, pb, pl, pe, cp, ex, w, mw, ti, ca] =>
      match lookupBox bx with
      | none => none
      | some box =>
        let colsD := if cols.isEmpty then [] else (cols.splitOn ",").map (decColumn pool)
        if colsD.any Option.isNone then none
        else
          let colsL := colsD.filterMap id
          let titleO := getOracle pool ti
          let captionO := getOracle pool ca
          let rowsL := decBools rows
          let showHeader := decBool sh
          let showFooter := decBool sf
          -- a header / footer oracle must be present exactly when it is shown
          let t : Table :=
            { columns := colsL.map (·.1), rowEndSection := rowsL, box := box,
              showHeader := showHeader, showFooter := showFooter, showEdge := decBool se, showLines := decBool sl,
              leading := decInt leading, padding := (decInt pt, decInt pr, decInt pb, decInt pl),
              padEdge := decBool pe, collapsePadding := decBool cp, expandFlag := decBool ex,
              width := decOptInt w, minWidth := decOptInt mw,
              title := titleO.map Oracle.toLines, caption := captionO.map Oracle.toLines }
          let okShape := colsL.all (fun co =>
            co.2.length == co.1.cells.length + (if showHeader then 1 else 0) + (if showFooter then 1 else 0))
          if !okShape then none
          else
            let flags : Flags := { leadingRepeat := decBool lr, minWidthCapsExpand := decBool mc, fixedRawMaximum := decBool fr, noColumnsAsserts := decBool nc, flexNegative := decBool fneg, staleTableWidth := decBool stw, flexClampZero := decBool fcz }
            some { fl := flags, avail := decInt avail, t := t,
                      colOracles := colsL.map (·.2), titleO, captionO,
                      wf := colsL.all (fun co => co.1.cells.length ≤ rowsL.length) }
    | _, _ => none
  | _ => none

/-- All oracle consultations of `Table.render` are inside the tabulated range. -/
def Variant.inRange (v : Variant) (r : Rendered) : Bool :=
  let t := v.t
  let maxWidth := t.width.getD v.avail - t.extraWidth
  let firstOk := maxWidth < 1 ||
    ((t.columns.zip v.colOracles).all (fun co => co.1.width.isSome || co.2.all (·.has maxWidth.toNat)))
  let reOk := match t.firstWidths v.fl maxWidth with
    | some ws => if ws.sum > maxWidth then
        -- fixed-width columns are not consulted on re-measure either, but asking is harmless
        ((t.shrinkPre ws maxWidth).1.zip (t.columns.zip v.colOracles)).all
          (fun wco => wco.1 < 1 || wco.2.1.width.isSome || wco.2.2.all (·.has wco.1.toNat))
      else true
    | none => true
  let renderOk := (r.widths.zip v.colOracles).all (fun wo => wo.2.all (·.has wo.1.toNat))
  let tw := (r.widths.sum + t.extraWidth).toNat
  let annOk := (match v.titleO with | some o => o.has tw | none => true) &&
               (match v.captionO with | some o => o.has tw | none => true)
  firstOk && reOk && renderOk && annOk

def encRendered (r : Rendered) : String := "W" ++ encInts r.widths ++ "L" ++ encStrList r.lines

/-- `Table.__rich_measure__(console, avail)` as `|M<min> <max>`; `|M?` when a cell would be measured outside its table,
`|Merr:AssertionError` when `ratio_distribute` asserts. -/
def Variant.measureAns (v : Variant) : String :=
  let t := v.t
  let maxWidth := t.width.getD v.avail
  if maxWidth < 0 then "|M0 0"
  else
    let inner := maxWidth - t.extraWidth
    match t.calcWidths v.fl inner with
    | none => "|Merr:AssertionError"
    | some ws =>
      let mw := ws.sum
      -- consultations: the ones of calcWidths (first pass at `inner`, re-measure) and the final measure at `mw`
      let firstOk := inner < 1 ||
        ((t.columns.zip v.colOracles).all (fun co => co.1.width.isSome || co.2.all (·.has inner.toNat)))
      let reOk := match t.firstWidths v.fl inner with
        | some ws0 => if ws0.sum > inner then
            ((t.shrinkPre ws0 inner).1.zip (t.columns.zip v.colOracles)).all
              (fun wco => wco.1 < 1 || wco.2.1.width.isSome || wco.2.2.all (·.has wco.1.toNat))
          else true
        | none => true
      let lastOk := mw < 1 ||
        ((t.columns.zip v.colOracles).all (fun co => co.1.width.isSome || co.2.all (·.has mw.toNat)))
      if firstOk && reOk && lastOk then
        match t.richMeasure v.fl v.avail with
        | some m => "|M" ++ encMeas m
        | none => "|Merr:AssertionError"
      else "|M?"

def runVariant (pool : Array Oracle) (s : String) : String :=
  match decVariant pool s with
  | none => "unmodelled"
  | some v =>
    if !v.wf then "unmodelled"
    else (match v.t.render v.fl cw v.avail with
      | none => "err:AssertionError"
      | some r => if v.inRange r then encRendered r else "unmodelled") ++ v.measureAns

def encPad : Option (Int × Int × Int × Int) → String
  | none => "-"
  | some (a, b, c, d) => s!"{a} {b} {c} {d}"

def handlers : List (String × (List String → String)) := Drv.Ratio.handlers ++ [
  ("table.bundle", fun a => match a with
    | pool :: variants =>
      let p := decPool pool
      "@".intercalate (variants.map (runVariant p))
    | _ => "bad-args"),
  -- `add_padding` of `_get_cells`: padding(4) padEdge collapse firstCol lastCol firstRow lastRow
  ("table.cell_padding", fun a => match a with
    | [pt, pr, pb, pl, pe, cp, fc, lc, fr, lr] =>
      let t : Table := { columns := [], padding := (decInt pt, decInt pr, decInt pb, decInt pl),
                         padEdge := decBool pe, collapsePadding := decBool cp }
      encPad (t.cellPadding (decBool fc) (decBool lc) (decBool fr) (decBool lr))
    | _ => "bad-args"),
  -- `_get_padding_width(column_index)`
  ("table.padding_width", fun a => match a with
    | [pt, pr, pb, pl, cp, idx] =>
      let t : Table := { columns := [], padding := (decInt pt, decInt pr, decInt pb, decInt pl), collapsePadding := decBool cp }
      toString (t.paddingWidth (decNat idx))
    | _ => "bad-args"),
  -- Box.get_top / get_row / get_bottom: name, which (top|bottom|head|row|mid|foot), edge, widths
  ("box.row", fun a => match a with
    | [name, which, edge, ws] =>
      match lookupBox name with
      | some (some b) =>
        let widths := (decInts ws).map Int.toNat
        let e := decBool edge
        if which == "top" then encStr (b.getTop widths).text
        else if which == "bottom" then encStr (b.getBottom widths).text
        else if which == "head" then encStr (b.getRow .headSep .head e widths).text
        else if which == "row" then encStr (b.getRow .rowSep .row e widths).text
        else if which == "mid" then encStr (b.getRow .midSep .mid e widths).text
        else if which == "foot" then encStr (b.getRow .footSep .foot e widths).text
        else "err:ValueError"
      | _ => "unmodelled"
    | _ => "bad-args")
]

end RichModel.Drv.C07
