import RichModel.Model.Text
import RichModel.Model.TextStr
import RichModel.Model.TextFrag
import RichModel.Model.TextTabs
import RichModel.Gen.CellWidths
import RichModel.Drv.Proto
/-
Driver handlers for the Text model (property C05; reusable by C02 and the layout properties).

Wire format (one field of a request / one answer line):
  text   := plain ; length ; style ; spans ; justify ; overflow ; nowrap ; end ; tabsize
  plain, end : space-separated code points            style : Nat (id; 0 is the null style "")
  spans  := span/span/...   span := start,stop,style  (empty string = no spans)
  justify: N d l c r f    overflow: N f c e i    nowrap: N 0 1    tabsize: N | Nat
  list of texts := count#text|text|...
  render := seg/seg/...   seg := codepoints~id id id   (`-` instead of the ids for the style-less end segment)
  answer for one text  := ok:text@render | err:Name
  answer for a list    := ok:count#text@render|...
-/
namespace RichModel.Drv.C05
open RichModel RichModel.Proto

abbrev T := Text Nat

def cw : Char → Nat := charWidthT Gen.cellWidths

def decInt? (s : String) : Option Int := s.toInt?
def decNat? (s : String) : Option Nat := s.toNat?

def decStr? (s : String) : Option (List Char) :=
  if s.isEmpty then some [] else (s.splitOn " ").mapM (fun t => t.toNat?.map Char.ofNat)

def decOptInt? (s : String) : Option (Option Int) := if s == "N" then some none else (decInt? s).map some
def decOptNat? (s : String) : Option (Option Nat) := if s == "N" then some none else (decNat? s).map some

def decSpan? (s : String) : Option (Span Nat) :=
  match s.splitOn "," with
  | [a, b, c] => do pure ⟨← decInt? a, ← decInt? b, ← decNat? c⟩
  | _ => none

def decSpans? (s : String) : Option (List (Span Nat)) :=
  if s.isEmpty then some [] else (s.splitOn "/").mapM decSpan?

def encSpans (l : List (Span Nat)) : String :=
  "/".intercalate (l.map (fun sp => s!"{sp.start},{sp.stop},{sp.style}"))

def decJustify? : String → Option (Option Justify)
  | "N" => some none | "d" => some (some .default) | "l" => some (some .left) | "c" => some (some .center)
  | "r" => some (some .right) | "f" => some (some .full) | _ => none
def encJustify : Option Justify → String
  | none => "N" | some .default => "d" | some .left => "l" | some .center => "c" | some .right => "r" | some .full => "f"
def decOverflow? : String → Option (Option Overflow)
  | "N" => some none | "f" => some (some .fold) | "c" => some (some .crop) | "e" => some (some .ellipsis)
  | "i" => some (some .ignore) | _ => none
def encOverflow : Option Overflow → String
  | none => "N" | some .fold => "f" | some .crop => "c" | some .ellipsis => "e" | some .ignore => "i"
def decOptBool? : String → Option (Option Bool)
  | "N" => some none | "0" => some (some false) | "1" => some (some true) | _ => none
def encOptBool : Option Bool → String
  | none => "N" | some false => "0" | some true => "1"
def encOptNatN : Option Nat → String
  | none => "N" | some n => toString n

def decText? (s : String) : Option T :=
  match s.splitOn ";" with
  | [pl, len, st, sps, j, o, nw, e, ts] => do
    pure { plain := ← decStr? pl, length := ← decInt? len, style := ← decNat? st, spans := ← decSpans? sps,
           justify := ← decJustify? j, overflow := ← decOverflow? o, noWrap := ← decOptBool? nw,
           endStr := ← decStr? e, tabSize := ← decOptNat? ts }
  | _ => none

def encText (t : T) : String :=
  ";".intercalate [encStr t.plain, toString t.length, toString t.style, encSpans t.spans,
    encJustify t.justify, encOverflow t.overflow, encOptBool t.noWrap, encStr t.endStr, encOptNatN t.tabSize]

def decTexts? (s : String) : Option (List T) :=
  match s.splitOn "#" with
  | [n, body] => if n == "0" then some [] else (body.splitOn "|").mapM decText?
  | _ => none

def encErr : PyErr → String
  | .indexError => "err:IndexError" | .typeError => "err:TypeError" | .valueError => "err:ValueError"
  | .assertionError => "err:AssertionError" | .zeroDivisionError => "err:ZeroDivisionError"
  | .keyError => "err:KeyError" | .runtimeError => "err:RuntimeError"

def encRender (r : Except PyErr (List (Text.RSeg Nat))) : String :=
  match r with
  | .error e => encErr e
  | .ok segs => "/".intercalate (segs.map (fun s =>
      encStr s.text ++ "~" ++ (match s.styles with
        | none => "-"
        | some ids => " ".intercalate (ids.map toString))))

/-- a text together with what `render` gives for it -/
def encTR (t : T) : String := encText t ++ "@" ++ encRender (t.render)

def ansText (r : Except PyErr T) : String :=
  match r with
  | .ok t => "ok:" ++ encTR t
  | .error e => encErr e

def ansTexts (r : Except PyErr (List T)) : String :=
  match r with
  | .ok l => "ok:" ++ toString l.length ++ "#" ++ "|".intercalate (l.map encTR)
  | .error e => encErr e

def decVariant? (s : String) : Option Variant :=
  match s.toList with
  | [a, b, c, d, e, f] => some ⟨a == '1', b == '1', c == '1', d == '1', e == '1', f == '1'⟩
  | _ => none

/-- negative `_length` (only reachable through the `right_crop` defect) is outside the modelled domain -/
def okState (t : T) : Bool := t.length ≥ 0

def decChar? (s : String) : Option Char := (decNat? s).map Char.ofNat

def decOptStyle? (s : String) : Option (Option Nat) := decOptNat? s

def decTokens? (s : String) : Option (List (List Char × Option Nat)) :=
  match s.splitOn ":" with
  | [n, body] =>
    if n == "0" then some [] else (body.splitOn ",").mapM (fun tok =>
      match tok.splitOn "~" with
      | [c, st] => do pure (← decStr? c, ← decOptStyle? st)
      | _ => none)
  | _ => none

def decPart? (s : String) : Option (Text.Part Nat) :=
  match s.toList with
  | 'S' :: rest => (decStr? (String.ofList rest)).map Text.Part.str
  | 'T' :: rest => (decText? (String.ofList rest)).map Text.Part.txt
  | 'P' :: rest =>
    match (String.ofList rest).splitOn "~" with
    | [c, st] => do pure (Text.Part.pair (← decStr? c) (← decOptStyle? st))
    | _ => none
  | _ => none

def decParts? (s : String) : Option (List (Text.Part Nat)) :=
  match s.splitOn "#" with
  | [n, body] => if n == "0" then some [] else (body.splitOn "|").mapM decPart?
  | _ => none

def decNats? (s : String) : Option (List Nat) :=
  if s.isEmpty then some [] else (s.splitOn " ").mapM decNat?

def decAlign? : String → Option AlignMethod
  | "l" => some .left | "c" => some .center | "r" => some .right | _ => none

/-- `n:str,str,…` (explicit count so that `[]` and `[""]` differ) -/
def decStrs? (s : String) : Option (List (List Char)) :=
  match s.splitOn ":" with
  | [n, body] => if n == "0" then some [] else (body.splitOn ",").mapM decStr?
  | _ => none

def encStrs (l : List (List Char)) : String := toString l.length ++ ":" ++ ",".intercalate (l.map encStr)

def noCtlStr (s : List Char) : Bool := s.all (fun c => !isStripCode c)

/-- an operand text given by its fragments (built in Python by `Text(f0)` then `append(f)`): control-free, and no
empty fragment after the first (`append("")` pushes nothing) -/
def decOperand? (s : String) : Option (Text.FText Nat) := do
  let frs ← decStrs? s
  match frs with
  | [] => none
  | _ :: rest =>
    if frs.all noCtlStr && rest.all (fun f => !f.isEmpty) then some (Text.FText.ofFrags Variant.repaired frs 0) else none

def decFOp? (s : String) : Option (Text.FText.FOp Nat) :=
  match s.toList with
  | ['G'] => some .getPlain
  | ['Y'] => some .copy
  | 'S' :: rest => (decStr? (String.ofList rest)).map .setPlain
  | 'C' :: rest => (decInt? (String.ofList rest)).map .rightCrop
  | 'A' :: rest =>
    match (String.ofList rest).splitOn "~" with
    | [c, st] => do pure (.appendStr (← decStr? c) (← decOptStyle? st))
    | _ => none
  | 'X' :: rest => (decOperand? (String.ofList rest)).map .appendText
  | 'T' :: rest => (decOperand? (String.ofList rest)).map .appendT
  | 'K' :: rest => (decTokens? (String.ofList rest)).map .appendTokens
  | 'J' :: rest =>      -- `J` then the operands separated by `!` (`J` alone: no operand)
    if rest.isEmpty then some (.join [])
    else (((String.ofList rest).splitOn "!").mapM decOperand?).map .join
  | _ => none

def orUnmodelled (o : Option String) : String := o.getD "unmodelled"

/-- every handler: first argument the variant flags, second the text operated on -/
def h1 (f : Variant → T → List String → Option String) : List String → String
  | v :: t :: rest => orUnmodelled do
    let v ← decVariant? v
    let t ← decText? t
    if !okState t then none else f v t rest
  | _ => "bad-args"

def handlers : List (String × (List String → String)) := [
  ("text_new", h1 fun v t _ =>
    some (ansText (.ok (Text.new v t.plain t.style t.spans t.justify t.overflow t.noWrap t.endStr t.tabSize)))),
  ("text_copy", h1 fun v t _ => some (ansText (.ok (t.copy v)))),
  ("text_blank_copy", h1 fun v t _ => some (ansText (.ok (t.blankCopy v)))),
  ("text_stylize", h1 fun v t a => match a with
    | [st, s, e] => do pure (ansText (.ok (t.stylize v (← decNat? st) (← decInt? s) (← decOptInt? e))))
    | _ => none),
  ("text_add_spans", h1 fun _ t a => match a with
    | [sps] => do pure (ansText (.ok (t.addSpans (← decSpans? sps))))
    | _ => none),
  ("text_copy_styles", h1 fun _ t a => match a with
    | [u] => do pure (ansText (.ok (t.copyStyles (← decText? u))))
    | _ => none),
  ("text_append_str", h1 fun _ t a => match a with
    | [s, st] => do pure (ansText (.ok (t.appendStr (← decStr? s) (← decOptStyle? st))))
    | _ => none),
  ("text_append_t", h1 fun _ t a => match a with
    | [u, st] => do
      let u ← decText? u
      if !okState u then none else pure (ansText (t.appendTStyled u (← decOptStyle? st)))
    | _ => none),
  ("text_append_text", h1 fun _ t a => match a with
    | [u] => do
      let u ← decText? u
      if !okState u then none else pure (ansText (.ok (t.appendText u)))
    | _ => none),
  ("text_append_tokens", h1 fun _ t a => match a with
    | [toks] => do pure (ansText (.ok (t.appendTokens (← decTokens? toks))))
    | _ => none),
  ("text_assemble", h1 fun v t a => match a with     -- `t` carries the style / meta keyword arguments
    | [parts] => do
      let ps ← decParts? parts
      if ps.any (fun p => match p with | .txt u => !okState u | _ => false) then none
      else pure (ansText (.ok (Text.assemble v ps t.style t.justify t.overflow t.noWrap t.endStr t.tabSize)))
    | _ => none),
  ("text_join", h1 fun v t a => match a with
    | [ls] => do
      let ls ← decTexts? ls
      if ls.any (fun u => !okState u) then none else pure (ansText (.ok (t.join v ls)))
    | _ => none),
  ("text_divide", h1 fun v t a => match a with
    | [offs] => do pure (ansTexts (t.divide v (← decNats? offs)))
    | _ => none),
  ("text_split", h1 fun v t a => match a with
    | [sep, incl, blank, endsw] => do pure (ansTexts (Text.splitW (decBool endsw) v t (← decStr? sep) (decBool incl) (decBool blank)))
    | _ => none),
  ("text_get_item", h1 fun v t a => match a with
    | [i] => do pure (ansText (t.getItem v 0 (← decInt? i)))
    | _ => none),
  ("text_get_slice", h1 fun v t a => match a with
    | [s, e] => do pure (ansText (t.getSlice v (← decOptInt? s) (← decOptInt? e)))
    | [s, e, st] => do pure (ansText (t.getSliceStep v (← decOptInt? s) (← decOptInt? e) (← decOptInt? st)))
    | _ => none),
  ("text_pad", h1 fun _ t a => match a with
    | [n, c] => do pure (ansText (.ok (t.pad (← decInt? n) (← decChar? c))))
    | _ => none),
  ("text_pad_left", h1 fun _ t a => match a with
    | [n, c] => do pure (ansText (.ok (t.padLeft (← decInt? n) (← decChar? c))))
    | _ => none),
  ("text_pad_right", h1 fun _ t a => match a with
    | [n, c] => do pure (ansText (.ok (t.padRight (← decInt? n) (← decChar? c))))
    | _ => none),
  ("text_right_crop", h1 fun v t a => match a with
    | [n] => do
      let r := t.rightCrop v (← decInt? n)
      pure (if r.length < 0 then "ok:" ++ encText r ++ "@neg" else ansText (.ok r))
    | _ => none),
  ("text_set_length", h1 fun v t a => match a with
    | [n] => do
      let r := t.setLength v (← decInt? n)
      pure (if r.length < 0 then "ok:" ++ encText r ++ "@neg" else ansText (.ok r))
    | _ => none),
  ("text_rstrip", h1 fun _ t _ => some (ansText (.ok t.rstrip))),
  ("text_rstrip_end", h1 fun v t a => match a with
    | [n, chars] => do pure (ansText (.ok (Text.rstripEndW (decBool chars) cw v t (← decInt? n))))
    | _ => none),
  ("text_set_plain", h1 fun _ t a => match a with
    | [s] => do pure (ansText (.ok (t.setPlain (← decStr? s))))
    | _ => none),
  ("text_truncate", h1 fun _ t a => match a with
    | [w, ov, pad] => do pure (ansText (.ok (t.truncate cw (← decInt? w) (← decOverflow? ov) (decBool pad))))
    | _ => none),
  ("text_align", h1 fun v t a => match a with
    | [m, w, c] => do pure (ansText (.ok (t.align v cw (← decAlign? m) (← decInt? w) (← decChar? c))))
    | _ => none),
  ("text_expand_tabs", h1 fun v t a => match a with
    | [ts] => do pure (ansText (t.expandTabs v (Text.effTab Text.tabAssertAsFound t (← decOptNat? ts))))
    | _ => none),
  ("text_remove_suffix", h1 fun v t a => match a with
    | [s] => do pure (ansText (.ok (t.removeSuffix v (← decStr? s))))
    | _ => none),
  ("text_fit", h1 fun v t a => match a with
    | [w] => do pure (ansTexts (t.fit v (← decInt? w)))
    | _ => none),
  ("text_add_str", h1 fun v t a => match a with
    | [s] => do pure (ansText (.ok (t.addStr v (← decStr? s))))
    | _ => none),
  ("text_add_t", h1 fun v t a => match a with
    | [u] => do
      let u ← decText? u
      if !okState u then none else pure (ansText (.ok (t.addText v u)))
    | _ => none),
  ("text_detect_indentation", h1 fun _ t _ => some (toString t.detectIndentation)),
  ("text_indent_guides", h1 fun v t a => match a with
    | [size, ch, st] => do
      -- fix 7535af5: the `expand_tabs()` inside falls back to 8 when the text has no tab size (Model/TextTabs); the result is a fresh Text
      let t' : Text Nat := { t with tabSize := Text.effTab Text.tabAssertAsFound t t.tabSize }
      pure (ansText (t'.withIndentGuides v 0 (← decOptNat? size) (← decStr? ch) (← decNat? st)))
    | _ => none),
  ("text_render", h1 fun _ t a => match a with
    | [e] => do pure (encRender (t.render (← decStr? e)))
    | _ => none),
  -- string-level functions the round-4 theorems are stated with (no text, no variant)
  ("text_str_split", fun a => match a with
    | [sep, incl, blank, s] => orUnmodelled do
      let sep ← decStr? sep
      let s ← decStr? s
      if sep.isEmpty then none
      else
        let ps := Text.strSplit sep (decBool incl) (decBool blank) s s
        -- the same function applied to the positions: which character of the string lands where
        let ix := Text.strSplit sep (decBool incl) (decBool blank) s (List.range s.length)
        pure (toString ps.length ++ "#" ++ "|".intercalate (ps.map encStr) ++ "@" ++
              "|".intercalate (ix.map (fun l => " ".intercalate (l.map toString))))
    | _ => "bad-args"),
  ("text_rstrip_end_amount", fun a => match a with
    | [s, size] => orUnmodelled do pure (toString (Text.rstripEndAmount cw (← decStr? s) (← decInt? size)))
    | _ => "bad-args"),
  -- the `_text` fragment list after every operation of a history on `Text(init)` (repaired code only)
  ("text_frag_run", fun a => match a with
    | [init, ops] => orUnmodelled do
      let init ← decStr? init
      let ops ← if ops.isEmpty then some [] else (ops.splitOn "|").mapM decFOp?
      pure (";".intercalate ((Text.FText.trace (Text.FText.new Variant.repaired init 0) ops).map encStrs))
    | _ => "bad-args"),
  ("text_even_indents", fun a => match a with
    | [s] => orUnmodelled do pure (" ".intercalate ((Text.evenIndents (← decStr? s)).map toString))
    | _ => "bad-args")
]

end RichModel.Drv.C05
