import RichModel.Model.Term
import RichModel.Model.TermStyle
import RichModel.Model.Live
import RichModel.Model.LiveCrop
import RichModel.Gen.CellWidths
import RichModel.Drv.Proto
/- Driver handlers for property C10 (terminal replay, live / progress / status state machine).

Request formats (fields separated by TAB, see harness/props/c10.py):
* `term_replay  H  ops`                         -> `rows;row;col;visible`   (ops may contain `G` = SGR, `O` = OSC 8)
* `term_plain  ops`                             -> ops of `plainOps`
* `live_run   cfg  init  faults  ops`           -> per operation `err;termops` joined by `|`, then `#` final control state
* `live_with  cfg  init  faults  ops  raiseAt`  -> `termops#raised#` final control state
* `live_spec  cfg  init  ops`                   -> `wf;printed;lastFrame`
* `live_nofit cfg  init  ops`                   -> `wfNoFit;wf`
* `live_specm cfg  init  ops`                   -> `wfM;rows` (finished ++ liveFrameOf, trailing spaces / blank rows trimmed)
cfg  = `kind,transient,W,H,redirOut,redirErr,bareBypass,startGuard,overflow,resetShape,blankFix,flushFix,terminal,dumb,disable,faultBase,guardBase,disableFix,spin`
       (numbers; `spin` = code points of what the Status spinner shows at the 0th, 1st, … render)
init = initial renderable as a line list `n:l1,l2,…`
faults = `-` | comma separated call indices, the last one optionally `k+` (every index ≥ k)
ops  = operations joined by `|` : `S` `X` `B` `R` `P<lines>` `U<refresh>;<lines>` `A<visible>;<desc>`
       `V<id>;<n>` `H<id>;<visible>;<refresh>` `D<id>` `W<err>;<lines>;<tail>`
       `A<visible>;<desc>;<total>` `E<id>;<total>;<advance>;<completed>;<=desc>;<visible>;<refresh>` `Z<width>`
-/
namespace RichModel.Drv.C10
open RichModel RichModel.Proto RichModel.Live

/-- `get_character_cell_size` over the table translated from rich/_cell_widths.py on this run. -/
def cw : Char → Nat := charWidthT Gen.cellWidths

/-- characters of a row of cells (filler cells of double-width characters dropped) -/
def unfill (l : List Char) : List Char := l.filter (· != '\x00')

def encOp : TermOp → String
  | .text s => "T" ++ encStr (unfill s)
  | .lf => "L"
  | .cr => "C"
  | .cuu n => "U" ++ toString n
  | .el2 => "E"
  | .showCursor => "S"
  | .hideCursor => "H"
  | .sgr _ => "G"
  | .osc8 _ => "O"

def encOps (l : List TermOp) : String := ",".intercalate (l.map encOp)

def decTermOp (s : String) : Option TermOp :=
  match s.toList with
  | 'T' :: r => some (.text (cells cw (decStr (String.ofList r))))
  | ['L'] => some .lf
  | ['C'] => some .cr
  | 'U' :: r => (String.ofList r).toNat?.map .cuu
  | ['E'] => some .el2
  | ['S'] => some .showCursor
  | ['H'] => some .hideCursor
  | ['G'] => some (.sgr [])        -- a rendition sequence (parameters are opaque to the screen)
  | ['O'] => some (.osc8 [])       -- a hyperlink sequence
  | _ => none

def decTermOps (s : String) : Option (List TermOp) :=
  if s.isEmpty then some [] else (s.splitOn ",").mapM decTermOp

def encScreen (s : Screen) : String :=
  encStrList (s.rows.map unfill) ++ ";" ++ toString s.row ++ ";" ++ toString s.col ++ ";" ++ encBool s.visible

def decKind : String → Option Kind
  | "0" => some .live | "1" => some .progress | "2" => some .status | _ => none

def decOverflow : String → Option Overflow
  | "0" => some .crop | "1" => some .ellipsis | "2" => some .visible | _ => none

def decCfg (s : String) : Option (Cfg × Overflow) :=
  match s.splitOn "," with
  | [k, tr, w, h, ro, re, bb, sg, ov, rs, bf, ff, tm, db, ds, fb, gb, df, sp] => do
    let kind ← decKind k
    let ov ← decOverflow ov
    let w ← w.toNat?
    let h ← h.toNat?
    let spins := decStr sp
    some ({ kind := kind, transient := decBool tr, width := w, height := h, redirectStdout := decBool ro,
            redirectStderr := decBool re, bareBypass := decBool bb, startGuard := decBool sg,
            resetShape := decBool rs, blankFix := decBool bf, flushFix := decBool ff,
            terminal := decBool tm, dumb := decBool db, disable := decBool ds,
            faultBase := decBool fb, guardBase := decBool gb, disableFix := decBool df,
            spin := fun i => spins.getD i '⠋', cw := cw }, ov)
  | _ => none

def decFaults (s : String) : Option (Nat → Bool) :=
  if s == "-" then some (fun _ => false) else
    let parts := s.splitOn ","
    let exact := parts.filterMap (fun p => p.toNat?)
    let from_ := parts.filterMap (fun p => if p.endsWith "+" then (p.dropEnd 1).toString.toNat? else none)
    if exact.length + from_.length != parts.length then none
    else some (fun i => exact.contains i || from_.any (· ≤ i))

def decOp1 (s : String) : Option Op :=
  match s.toList with
  | ['S'] => some .start
  | ['X'] => some .stop
  | ['B'] => some .printBare
  | ['R'] => some .refresh
  | 'P' :: r => some (.print (decStrList (String.ofList r)))
  | 'U' :: r =>
    match (String.ofList r).splitOn ";" with
    | [rf, f] => some (.update (decStrList f) (decBool rf))
    | _ => none
  | 'A' :: r =>
    match (String.ofList r).splitOn ";" with
    | [v, d, t] => do some (.addTask (decStr d) (decBool v) (← t.toNat?))
    | _ => none
  | 'V' :: r =>     -- Progress.advance(id, n)
    match (String.ofList r).splitOn ";" with
    | [i, n] => do some (.updateTask (← i.toNat?) { advance := some (← n.toNat?) } false)
    | _ => none
  | 'H' :: r =>     -- Progress.update(id, visible=v, refresh=rf)
    match (String.ofList r).splitOn ";" with
    | [i, v, rf] => do some (.updateTask (← i.toNat?) { visible := some (decBool v) } (decBool rf))
    | _ => none
  | 'E' :: r =>     -- Progress.update / reset / one step of track: id;total;advance;completed;desc;visible;refresh (`-` = not given)
    match (String.ofList r).splitOn ";" with
    | [i, t, a, c, d, v, rf] => do
      some (.updateTask (← i.toNat?)
        { total := decOptNat t, advance := decOptNat a, completed := decOptNat c,
          desc := if d == "-" then none else some (decStr (d.drop 1).toString),
          visible := if v == "-" then none else some (decBool v) } (decBool rf))
    | _ => none
  | 'Z' :: r => (String.ofList r).toNat?.map .resize
  | 'D' :: r => (String.ofList r).toNat?.map .removeTask
  | 'W' :: r =>
    match (String.ofList r).splitOn ";" with
    | [e, ls, t] => some (.write (decBool e) (decStrList ls) (decStr t))
    | _ => none
  | _ => none

def decOpsL (s : String) : Option (List Op) :=
  if s.isEmpty then some [] else (s.splitOn "|").mapM decOp1

def encErr : Option Err → String
  | none => "ok" | some .fault => "err:Fault" | some .keyError => "err:KeyError"

def encShape : Option (Nat × Nat) → String
  | none => "-" | some (w, h) => toString w ++ "x" ++ toString h

def encCtl (st : St) : String :=
  ",".intercalate [encBool st.started, toString st.hooks, toString st.stdoutDepth, toString st.stderrDepth,
    encBool st.restoreStdout.isSome, encBool st.restoreStderr.isSome, encShape st.shape, toString st.taskIndex,
    (match st.overflow with | .crop => "0" | .ellipsis => "1" | .visible => "2"),
    "o" ++ encStr st.bufOut, "e" ++ encStr st.bufErr]

/-- the model covers terminals of height ≥ 1; `ellipsis` needs width ≥ 3; progress rows must fit the width -/
def inDomain (cfg : Cfg) (ov : Overflow) (ops : List Op) : Bool :=
  1 ≤ cfg.height && (ov != .ellipsis || 3 ≤ cfg.width) && ops.all (Op.applies cfg.kind)

/-- initial renderable: a Status wraps its initial status in the spinner grid -/
def initOf (cfg : Cfg) (ov : Overflow) (init : String) : St :=
  let r0 := decStrList init
  initSt ov (if cfg.kind == .status then statusFrame cw r0 else r0)

def initFrame (cfg : Cfg) (init : String) : Frame :=
  let r0 := decStrList init
  if cfg.kind == .status then statusFrame cw r0 else r0

def runPerOp (cfg : Cfg) (fails : Nat → Bool) : St → List Op → List String × St
  | st, [] => ([], st)
  | st, op :: rest =>
    let r := step cfg fails st op
    let (l, st') := runPerOp cfg fails r.st rest
    ((encErr r.err ++ ";" ++ encOps r.out) :: l, st')

/-- canonical form of a frame for the kinds that pad (Progress, Status): no trailing spaces, no trailing blank rows -/
def rstrip (l : Line) : Line := (l.reverse.dropWhile (· == ' ')).reverse
def trimFrame (f : Frame) : Frame := ((f.map rstrip).reverse.dropWhile (·.isEmpty)).reverse

def handlers : List (String × (List String → String)) := [
  ("term_replay", fun a => match a with
    | [h, ops] =>
      match decTermOps ops with
      | some l => if decNat h == 0 then "unmodelled" else encScreen (Screen.replay (decNat h) Screen.init l)
      | none => "unmodelled"
    | _ => "bad-args"),
  ("term_plain", fun a => match a with   -- style-free normal form of a stream (styles dropped, text runs merged)
    | [ops] =>
      match decTermOps ops with
      | some l => encOps (plainOps l)
      | none => "unmodelled"
    | _ => "bad-args"),
  ("live_run", fun a => match a with
    | [cfg, init, faults, ops] =>
      match decCfg cfg, decFaults faults, decOpsL ops with
      | some (cfg, ov), some fails, some ops =>
        if !inDomain cfg ov ops  then "unmodelled" else
        let (l, st) := runPerOp cfg fails (initOf cfg ov init) ops
        "|".intercalate l ++ "#" ++ encCtl st
      | _, _, _ => "unmodelled"
    | _ => "bad-args"),
  ("live_with", fun a => match a with
    | [cfg, init, faults, ops, raiseAt] =>
      match decCfg cfg, decFaults faults, decOpsL ops with
      | some (cfg, ov), some fails, some ops =>
        if !inDomain cfg ov ops then "unmodelled" else
        let (st, out, raised) := runWith cfg fails (initOf cfg ov init) ops (decOptNat raiseAt)
        encOps out ++ "#" ++ encBool raised ++ "#" ++ encCtl st
      | _, _, _ => "unmodelled"
    | _ => "bad-args"),
  ("live_pre_with", fun a => match a with
    | [cfg, init, faults, pre, ops, raiseAt] =>
      match decCfg cfg, decFaults faults, decOpsL pre, decOpsL ops with
      | some (cfg, ov), some fails, some pre, some ops =>
        if !inDomain cfg ov (pre ++ ops) then "unmodelled" else
        let (st0, out0, _) := run cfg fails (initOf cfg ov init) pre
        let (st, out, raised) := runWith cfg fails st0 ops (decOptNat raiseAt)
        encOps (out0 ++ out) ++ "#" ++ encBool raised ++ "#" ++ encCtl st
      | _, _, _, _ => "unmodelled"
    | _ => "bad-args"),
  ("live_spec", fun a => match a with
    | [cfg, init, ops] =>
      match decCfg cfg, decOpsL ops with
      | some (cfg, ov), some ops =>
        if !inDomain cfg ov ops then "unmodelled" else
        let r0 := initFrame cfg init
        -- printed / lastFrame are only meaningful (and only compared) for well-formed histories
        if !wf cfg ov r0 ops then "0;0:;0:" else
        "1;" ++ encStrList (printed cfg ov r0 ops) ++ ";" ++
          encStrList (if cfg.kind == .live then lastFrame cfg ov r0 ops else trimFrame (lastFrame cfg ov r0 ops))
      | _, _ => "unmodelled"
    | _ => "bad-args"),
  ("live_nofit", fun a => match a with   -- `wfNoFit;wf` (the two agree for crop / ellipsis: `wfOps_of_crop`)
    | [cfg, init, ops] =>
      match decCfg cfg, decOpsL ops with
      | some (cfg, ov), some ops =>
        if !inDomain cfg ov ops then "unmodelled" else
        let r0 := initFrame cfg init
        encBool (wfNoFit cfg ov r0 ops) ++ ";" ++ encBool (wf cfg ov r0 ops)
      | _, _ => "unmodelled"
    | _ => "bad-args"),
  ("live_specm", fun a => match a with   -- any number of sessions: `wfM;finished ++ liveFrameOf` (canonical rows)
    | [cfg, init, ops] =>
      match decCfg cfg, decOpsL ops with
      | some (cfg, ov), some ops =>
        if !inDomain cfg ov ops then "unmodelled" else
        let r0 := initFrame cfg init
        if !wfM cfg ov r0 ops then "0;0:" else
        "1;" ++ encStrList (trimFrame (finished cfg ov r0 ops ++ liveFrameOf cfg ov r0 ops))
      | _, _ => "unmodelled"
    | _ => "bad-args")
]

end RichModel.Drv.C10
