import RichModel.Drv.C01
/- Driver handlers for property C09: the composition layer is shared with C01 (`Drv/C01.lean`). -/
namespace RichModel.Drv.C09
open RichModel RichModel.Proto

def handlers : List (String × (List String → String)) := RichModel.Drv.C01.handlers

end RichModel.Drv.C09
