import RichModel.Model.Frames
import RichModel.Model.FramesBarsStyled
import RichModel.Drv.Proto
/-
Driver handlers for the styled Bar / ProgressBar model (deepening of C08; Model/FramesBarsStyled.lean).

  frames_pbar_styled <ascii_only> <legacy_windows> <no_color> <color_system 0..4> <total num> <total den>
                     <completed num> <completed den> <width|-> <pulse> <max_width>
  frames_bar_styled  <size num> <size den> <begin num> <begin den> <end num> <end den> <width|-> <max_width>

Answer: `ok:` then the segments `<style id>;<text code points>` joined by `|` (empty segments are kept — the code yields
them for a negative width), style ids as `BarSty.code` (0 complete, 1 finished, 2 back, 3 pulse, 4 own, 5 line = None).
`unmodelled` for the pulse path (time-dependent), a zero denominator, or `size = 0` (ZeroDivisionError path of Bar is
judged by the text handlers).  The handlers are appended to `RichModel.Drv.C08.handlers`.
-/
namespace RichModel.Drv.C08Bars
open RichModel RichModel.Proto RichModel.Frames

def decOptInt' (s : String) : Option Int := if s == "-" then none else s.toInt?

def encSSegs (l : List SSeg) : String :=
  "ok:" ++ "|".intercalate (l.map (fun p => toString p.2.code ++ ";" ++ encStr p.1))

def barsHandlers : List (String × (List String → String)) := [
  ("frames_pbar_styled", fun a => match a with
    | [ao, lw, nc, cs, tn, td, cn, cd, wd, pu, mw] =>
      let env : Env := { consoleWidth := 80, asciiOnly := decBool ao, legacyWindows := decBool lw, noColor := decBool nc,
                         colorSystem := decNat cs }
      let o : ProgressOpts := { total := ⟨decInt tn, decNat td⟩, completed := ⟨decInt cn, decNat cd⟩, width := decOptInt' wd,
                                pulse := decBool pu }
      if o.pulse || o.total.den == 0 || o.completed.den == 0 then "unmodelled"
      else encSSegs (progressStyled env o (decInt mw))
    | _ => "bad-args"),
  ("frames_bar_styled", fun a => match a with
    | [sn, sd, bn, bd, en, ed, wd, mw] =>
      let o : BarOpts := { size := ⟨decInt sn, decNat sd⟩, beginV := ⟨decInt bn, decNat bd⟩, endV := ⟨decInt en, decNat ed⟩,
                           width := decOptInt' wd }
      if o.size.den == 0 || o.beginV.den == 0 || o.endV.den == 0 then "unmodelled"
      else
        let o' := barInit o
        -- `int(width * 8 * self.begin / self.size)` raises ZeroDivisionError for size = 0 on the begin < end path
        if o'.size.isZero && !(o'.endV.le o'.beginV) then "unmodelled"
        else encSSegs (barStyled o' (decInt mw))
    | _ => "bad-args")
]

end RichModel.Drv.C08Bars
