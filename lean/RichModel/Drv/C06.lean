import RichModel.Model.Style
import RichModel.Model.StyleCtor
import RichModel.Drv.Proto
/-
Driver handlers for property C06 (Style algebra / text round trip / hashing).

Wire formats
* flags   : seven characters 0/1 in the field order of `StyleVariant`
            (rgbValueError addHash fromColorHash withoutColorHash updateLinkHash updateLinkDef emptyLink)
* string  : space separated decimal code points ("" = empty)
* optstr  : `-` (None) or `=` followed by a string
* color   : `-` (None) or `name/type/number/triplet`, number `-`|n, triplet `-`|r.g.b   (a `Color(...)` value given field by field)
            or a constructor call evaluated by the model: `@A`n = Color.from_ansi(n), `@T`r.g.b = Color.from_triplet(ColorTriplet(r,g,b)),
            `@R`r4.g4.b4 = Color.from_rgb(r4/4, g4/4, b4/4), `@D` = Color.default()
* style   : `color|bgcolor|attributes|set_attributes|link`
* state   : style `|n`null `|d`optstr(_style_definition) `|s`str() `|a`13×(-,0,1) `|h`(stored hash key = key of fields) `|w`(Style.wf) `|t`(transparent_background)
* route   : prefix term, tokens separated by `;`
    N | I;colorarg;colorarg;kw13;optstr | F;color;color | P;string | A;r;r | O;r | C;r | U;optstr;r
    | W;r | T;r | H;n;r…r | B;r | K;n;(-|r)…  (Style.pick_first) | M;n;r;r…r (sum(rs, start))
    colorarg = `-` | `S:`string | `C:`color
Any string containing GREEK CAPITAL SIGMA (context-dependent `lower()`) makes the whole request `unmodelled`.
* tables_lawful lo hi -> `ok` | first code point in [lo,hi) at which `StrTables.real` breaks `Lawful`
* str_table cp       -> isspace(0/1) decimal(-|v) lower(code points) of one code point
* str_table_counts   -> number of white-space / decimal / lower-mapped code points in the tables
-/
namespace RichModel.Drv.C06
open RichModel RichModel.Proto RichModel.AsciiStr

def decFlags (s : String) : Option StyleVariant :=
  match s.toList.map (· == '1') with
  | [a, b, c, d, e, f, g] => some ⟨a, b, c, d, e, f, g⟩
  | _ => none

/-- A string of the request; `none` if it leaves the modelled domain (all code points; only a string whose
lower-casing is context dependent — GREEK CAPITAL SIGMA — is `unmodelled`). -/
def decS (s : String) : Option (List Char) :=
  let cs := decStr s
  if StrTables.lowerUnmodelled cs then none else some cs

/-- The character tables the model is compared with: those of the running Python. -/
def T : StrTables := StrTables.real

def decOptS (s : String) : Option (Option (List Char)) :=
  if s == "-" then some none
  else if s.startsWith "=" then (decS (s.drop 1).toString).map some
  else none

def encOptS : Option (List Char) → String
  | none => "-"
  | some l => "=" ++ encStr l

def decType : String → Option ColorType
  | "0" => some .default | "1" => some .standard | "2" => some .eightBit
  | "3" => some .truecolor | "4" => some .windows | _ => none

def decNat3 (s : String) : Option (Nat × Nat × Nat) :=
  match s.splitOn "." with
  | [r, g, b] => do
    let r ← r.toNat?
    let g ← g.toNat?
    let b ← b.toNat?
    pure (r, g, b)
  | _ => none

def decColor (s : String) : Option (Option Color) :=
  if s == "-" then some none
  else if s == "@D" then some (some Color.mkDefault)
  else if s.startsWith "@A" then (s.drop 2).toString.toNat?.map fun n => some (Color.fromAnsi n)
  else if s.startsWith "@T" then (decNat3 (s.drop 2).toString).map fun (r, g, b) => some (Color.fromTriplet ⟨r, g, b⟩)
  else if s.startsWith "@R" then (decNat3 (s.drop 2).toString).map fun (r, g, b) => some (Color.fromRgbQuarters r g b)
  else match s.splitOn "/" with
  | [n, t, num, trip] => do
    let name ← decS n
    let ty ← decType t
    let number ← if num == "-" then some none else num.toNat?.map some
    let triplet ← if trip == "-" then some none else
      match trip.splitOn "." with
      | [r, g, b] => do
        let r ← r.toNat?
        let g ← g.toNat?
        let b ← b.toNat?
        pure (some (⟨r, g, b⟩ : Triplet))
      | _ => none
    pure (some { name := name, type := ty, number := number, triplet := triplet })
  | _ => none

def encColor : Option Color → String
  | none => "-"
  | some c =>
    encStr c.name ++ "/" ++ toString c.type.toNat ++ "/" ++ encOptNat c.number ++ "/" ++
      (match c.triplet with
       | none => "-"
       | some t => toString t.red ++ "." ++ toString t.green ++ "." ++ toString t.blue)

def decColorArg (s : String) : Option (Option Style.ColorArg) :=
  if s == "-" then some none
  else if s.startsWith "S:" then (decS (s.drop 2).toString).map (fun x => some (.str x))
  else if s.startsWith "C:" then
    match decColor (s.drop 2).toString with
    | some (some c) => some (some (.color c))
    | _ => none
  else none

def decKw (s : String) : Style.Kwargs :=
  s.toList.map fun c => if c == '1' then some true else if c == '0' then some false else none

def encTri : Option Bool → String
  | none => "-" | some true => "1" | some false => "0"

def encStyle (s : Style) : String :=
  encColor s.color ++ "|" ++ encColor s.bgcolor ++ "|" ++ toString s.attributes ++ "|" ++
    toString s.setAttributes ++ "|" ++ encOptS s.link

def encState (v : StyleVariant) (s : Style) : String :=
  encStyle s ++ "|n" ++ encBool s.isNull ++ "|d" ++ encOptS s.styleDef ++ "|s" ++ encStr s.str ++
    "|a" ++ String.join ((List.range 13).map fun i => encTri (s.attr i)) ++
    "|h" ++ encBool (decide (s.hashKey = s.fieldsKey)) ++ "|w" ++ encBool (Style.wfT T v s) ++
    "|t" ++ encBool s.transparentBackground

def encErr : StyleErr → String
  | .colorParse => "err:ColorParseError"
  | .styleSyntax => "err:StyleSyntaxError"
  | .valueError => "err:Other:ValueError"
  | .stopIteration => "err:Other:StopIteration"

/-- Route terms (driver-local; the proofs use the `Reachable` predicate of Lemmas/Style). -/
inductive Route where
  | null
  | init (c b : Option Style.ColorArg) (kw : Style.Kwargs) (link : Option (List Char))
  | fromColor (c b : Option Color)
  | parse (s : List Char)
  | add (a b : Route)
  | addNone (a : Route)
  | copy (a : Route)
  | updateLink (link : Option (List Char)) (a : Route)
  | withoutColor (a : Route)
  | touch (a : Route)
  | chain (rs : List Route)
  | background (a : Route)
  | pickFirst (rs : List (Option Route))
  | sumFrom (start : Route) (rs : List Route)

mutual
/-- Decode one route from the token stream; `none` = malformed or outside the modelled domain. -/
partial def decRoute : List String → Option (Route × List String)
  | "N" :: r => some (.null, r)
  | "I" :: c :: b :: kw :: l :: r => do
    let c ← decColorArg c
    let b ← decColorArg b
    let l ← decOptS l
    pure (.init c b (decKw kw) l, r)
  | "F" :: c :: b :: r => do
    let c ← decColor c
    let b ← decColor b
    pure (.fromColor c b, r)
  | "P" :: s :: r => do
    let s ← decS s
    pure (.parse s, r)
  | "A" :: r => do
    let (a, r) ← decRoute r
    let (b, r) ← decRoute r
    pure (.add a b, r)
  | "O" :: r => do let (a, r) ← decRoute r; pure (.addNone a, r)
  | "C" :: r => do let (a, r) ← decRoute r; pure (.copy a, r)
  | "U" :: l :: r => do
    let l ← decOptS l
    let (a, r) ← decRoute r
    pure (.updateLink l a, r)
  | "W" :: r => do let (a, r) ← decRoute r; pure (.withoutColor a, r)
  | "T" :: r => do let (a, r) ← decRoute r; pure (.touch a, r)
  | "B" :: r => do let (a, r) ← decRoute r; pure (.background a, r)
  | "H" :: n :: r => do
    let n ← n.toNat?
    let (rs, r) ← decRoutes n r
    pure (.chain rs, r)
  | "K" :: n :: r => do
    let n ← n.toNat?
    let (rs, r) ← decOptRoutes n r
    pure (.pickFirst rs, r)
  | "M" :: n :: r => do
    let n ← n.toNat?
    let (a, r) ← decRoute r
    let (rs, r) ← decRoutes n r
    pure (.sumFrom a rs, r)
  | _ => none
partial def decOptRoutes : Nat → List String → Option (List (Option Route) × List String)
  | 0, r => some ([], r)
  | n + 1, "-" :: r => do
    let (as, r) ← decOptRoutes n r
    pure (none :: as, r)
  | n + 1, r => do
    let (a, r) ← decRoute r
    let (as, r) ← decOptRoutes n r
    pure (some a :: as, r)
partial def decRoutes : Nat → List String → Option (List Route × List String)
  | 0, r => some ([], r)
  | n + 1, r => do
    let (a, r) ← decRoute r
    let (as, r) ← decRoutes n r
    pure (a :: as, r)
end

mutual
/-- Evaluate a route with the model's constructors, left to right (first exception wins). -/
partial def evalRoute (v : StyleVariant) : Route → Except StyleErr Style
  | .null => .ok Style.null
  | .init c b kw l => Style.initT T v c b kw l
  | .fromColor c b => .ok (Style.fromColor v c b)
  | .parse s => Style.parseT T v s
  | .add a b => do
    let a ← evalRoute v a
    let b ← evalRoute v b
    pure (Style.add v a b)
  | .addNone a => do let a ← evalRoute v a; pure (Style.addOpt v a none)
  | .copy a => do let a ← evalRoute v a; pure a.copy
  | .updateLink l a => do let a ← evalRoute v a; pure (Style.updateLink v a l)
  | .withoutColor a => do let a ← evalRoute v a; pure (Style.withoutColor v a)
  | .touch a => do let a ← evalRoute v a; pure a.strTouch
  | .background a => do
    -- `background_style`: `Style(bgcolor=self.bgcolor)` (style.py:382-384)
    let a ← evalRoute v a
    Style.backgroundStyleT T v a
  | .pickFirst rs => do
    -- the arguments are evaluated first (left to right), then `pick_first` runs
    let ss ← evalOptRoutes v rs
    Style.pickFirst ss
  | .sumFrom a rs => do
    let a ← evalRoute v a
    let ss ← evalRoutes v rs
    pure (Style.sumFrom v a ss)
  | .chain rs => do
    let ss ← evalRoutes v rs
    Style.chain v ss
partial def evalOptRoutes (v : StyleVariant) : List (Option Route) → Except StyleErr (List (Option Style))
  | [] => .ok []
  | none :: rs => do
    let ss ← evalOptRoutes v rs
    pure (none :: ss)
  | some r :: rs => do
    let s ← evalRoute v r
    let ss ← evalOptRoutes v rs
    pure (some s :: ss)
partial def evalRoutes (v : StyleVariant) : List Route → Except StyleErr (List Style)
  | [] => .ok []
  | r :: rs => do
    let s ← evalRoute v r
    let ss ← evalRoutes v rs
    pure (s :: ss)
end

def decFullRoute (s : String) : Option Route :=
  match decRoute (s.splitOn ";") with
  | some (r, []) => some r
  | _ => none

def answer (f : Option String) : String := f.getD "unmodelled"

/-- first code point in [lo, hi) (surrogates skipped) where `p` fails -/
def firstBad (p : Char → Bool) (lo hi : Nat) : Option Nat := Id.run do
  let mut bad := none
  for cp in [lo:hi] do
    if bad.isNone && !(0xD800 ≤ cp && cp ≤ 0xDFFF) then
      if !p (Char.ofNat cp) then bad := some cp
  return bad

def runLen (rs : List (Nat × Nat × Nat)) : Nat := (rs.map fun r => r.2.1 - r.1 + 1).sum

def handlers : List (String × (List String → String)) := [
  ("tables_lawful", fun a => match a with
    | [lo, hi] =>
      match firstBad T.lawfulAt (decNat lo) (decNat hi) with
      | none => if T.maxDigits == 0 || 3 ≤ T.maxDigits then "ok" else "bad:maxDigits"
      | some cp => "bad:" ++ toString cp
    | _ => "bad-args"),
  ("str_table", fun a => match a with
    | [cp] =>
      let c := Char.ofNat (decNat cp)
      encBool (T.isSpace c) ++ " " ++ encOptNat (T.decimal c) ++ " " ++ encStr (T.lowerChar c)
    | _ => "bad-args"),
  ("str_table_counts", fun _ =>
    toString Gen.strWhitespace.length ++ " " ++ toString (runLen Gen.strDecimalRuns) ++ " " ++
      toString (runLen Gen.strLowerRuns + Gen.strLowerSpecial.length) ++ " " ++ toString T.maxDigits),
  -- a colour constructor call (`@…` form of `color`) -> the Color it returns, field by field, and
  -- whether `Color.parse` of its name gives back the very same colour (Style.wfColorT)
  ("color_ctor", fun a => match a with
    | [fl, c] => answer do
      let v ← decFlags fl
      let c ← decColor c
      let c ← c
      pure (encColor (some c) ++ " wf=" ++ encBool (Style.wfColorT T v c) ++ " hex=" ++
        (match c.triplet with | some t => encStr (Color.tripletHex t) ++ " rgb=" ++ encStr (Color.tripletRgb t) | none => "-"))
    | _ => "bad-args"),
  ("color_parse", fun a => match a with
    | [fl, s] => answer do
      let v ← decFlags fl
      let s ← decS s
      pure (match Color.parseT T v s with
        | .ok c => "ok:" ++ encColor (some c)
        | .error e => encErr e)
    | _ => "bad-args"),
  ("style_parse", fun a => match a with
    | [fl, s] => answer do
      let v ← decFlags fl
      let s ← decS s
      pure (match Style.parseT T v s with
        | .ok st => "ok:" ++ encStyle st ++ "|n" ++ encBool st.isNull
        | .error e => encErr e)
    | _ => "bad-args"),
  ("normalize", fun a => match a with
    | [fl, s] => answer do
      let v ← decFlags fl
      let s ← decS s
      pure (match Style.normalizeT T v s with
        | .ok t => "ok:" ++ encStr t
        | .error e => encErr e)
    | _ => "bad-args"),
  ("route", fun a => match a with
    | [fl, r] => answer do
      let v ← decFlags fl
      let r ← decFullRoute r
      pure (match evalRoute v r with
        | .ok st => "ok:" ++ encState v st
        | .error e => encErr e)
    | _ => "bad-args"),
  -- two routes: are the results `==`, and are their stored hash keys equal
  ("route_pair", fun a => match a with
    | [fl, r1, r2] => answer do
      let v ← decFlags fl
      let r1 ← decFullRoute r1
      let r2 ← decFullRoute r2
      pure (match evalRoute v r1, evalRoute v r2 with
        | .ok x, .ok y => "eq=" ++ encBool (Style.eq x y) ++ " hasheq=" ++ encBool (decide (x.hashKey = y.hashKey))
        | .error e, _ => encErr e
        | _, .error e => encErr e)
    | _ => "bad-args")
]

end RichModel.Drv.C06
