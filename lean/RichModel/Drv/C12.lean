import RichModel.Model.Progress
import RichModel.Model.ProgressFmt
import RichModel.Drv.Proto
/- Driver handlers for property C12 (progress accounting).

Requests
  pg_hist   cfg  clock  ops            sequential history, answer per operation
  pg_sched  cfg  clock  setup  progs  events     replay of a thread schedule (event log from the real run)
  pg_track  cfg  clock  setup  mode  taskId  total  n  seen    Progress.track / _TrackThread
  pf_pick   size n base          filesize.pick_unit_and_suffix  -> "unit idx" | err:UnboundLocalError
  pf_tostr  size n base          filesize._to_str with suffixes s0..s(n-1)
  pf_decimal size                filesize.decimal
  pf_download binary completed total     DownloadColumn text
  pf_fixed  p a b                format(a / b, ',.<p>f')      (a, b Python ints)
  pf_trunc  a b                  int(a / b)
  pf_td     n                    str(timedelta(seconds=n))  | err:OverflowError
  pf_bar    width total completed        ProgressBar characters (colour console, no pulse)
  pf_col    cfg A total completed fin start stop samples elapsed    what the columns show for a task

cfg    = "period maxLen tps clockOutside refreshReads"
clock  = readings, space separated (call k returns reading k; the last one repeats)
ops    = op;op;...   each  "<code> args... <obs>"  with obs ∈ n (result only) | d (dump) | e (dump + elapsed)
         | q (no answer at all for this operation)
-/
namespace RichModel.Drv.C12
open RichModel RichModel.Proto RichModel.Progress

def decOI (s : String) : Option Int := if s == "_" then none else s.toInt?
def decOB (s : String) : Option Bool := if s == "_" then none else some (s == "1")
def encOI : Option Int → String
  | none => "_"
  | some v => toString v

def decCfg (s : String) : Cfg :=
  match s.splitOn " " with
  | [p, m, t, c, r] =>
    { period := decInt p, maxLen := decNat m, tps := decInt t, clockOutside := decBool c, refreshReads := decNat r }
  | _ => { period := 0, maxLen := 0, tps := 1, clockOutside := true, refreshReads := 0 }

def decON (s : String) : Option Nat := if s == "_" then none else s.toNat?

/-- user fields `k:v,k:v` (`-` = none) -/
def decFields (s : String) : List (Nat × Int) :=
  if s == "-" then [] else
  (s.splitOn ",").filterMap (fun kv => match kv.splitOn ":" with
    | [k, v] => match k.toNat?, v.toInt? with
      | some k, some v => some (k, v)
      | _, _ => none
    | _ => none)

def encFields (l : List (Nat × Int)) : String :=
  " ".intercalate (l.map (fun kv => toString kv.1 ++ ":" ++ toString kv.2))

def decClock (s : String) : Clock :=
  let arr : Array Int := ((s.splitOn " ").filterMap String.toInt?).toArray
  fun k => if h : k < arr.size then arr[k] else arr.back?.getD 0

def decOp (toks : List String) : Option Op :=
  match toks with
  | ["A", st, tot, comp, vis, d, f] =>
    some (.addTask ⟨decBool st, decInt tot, decInt comp, decBool vis, decNat d, decFields f⟩)
  | ["F"] => some .refresh
  | ["B"] => some .start
  | ["E"] => some .stop
  | ["S", id] => some (.startTask (decNat id))
  | ["P", id] => some (.stopTask (decNat id))
  | ["D", id] => some (.removeTask (decNat id))
  | ["U", id, tot, comp, adv, vis, rf, d, f] =>
    some (.update (decNat id) ⟨decOI tot, decOI comp, decOI adv, decOB vis, decBool rf, decON d, decFields f⟩)
  | ["R", id, st, tot, comp, vis, d, f] =>
    some (.reset (decNat id) ⟨decBool st, decOI tot, decInt comp, decOB vis, decON d, decFields f⟩)
  | ["V", id, amt] => some (.advance (decNat id) (decInt amt))
  | _ => none

/-- op with its observation flag (last token) -/
def decOpObs (s : String) : Option (Op × String) :=
  let toks := s.splitOn " "
  match toks.getLast? with
  | none => none
  | some obs => (decOp toks.dropLast).map (fun o => (o, obs))

def decOps (s : String) : Option (List (Op × String)) :=
  if s.isEmpty then some [] else (s.splitOn ";").mapM decOpObs

/-- reduced fraction with positive denominator -/
def encFrac (n d : Int) : String :=
  let g : Int := (Int.gcd n d : Nat)
  if g == 0 then "0/1"
  else
    let n' := n / g
    let d' := d / g
    if d' < 0 then toString (-n') ++ "/" ++ toString (-d') else toString n' ++ "/" ++ toString d'

def encSamples (l : List Sample) : String :=
  " ".intercalate (l.map (fun s => toString s.ts ++ ":" ++ toString s.amt))

def encTask (cfg : Cfg) (t : Task) : String :=
  let p := t.percentage
  ",".intercalate [toString t.id, toString t.total, toString t.completed, encOI t.finishedTime,
    encBool t.visible, encOI t.startTime, encOI t.stopTime, encSamples t.samples,
    encFrac p.1 p.2,
    (match t.speed with | none => "_" | some (n, d) => encFrac n d),
    encOI (t.timeRemaining cfg),
    encBool t.started ++ encBool t.finished, toString t.remaining, toString t.description, encFields t.fields]

def encDump (cfg : Cfg) (st : State) : String :=
  "|".intercalate (st.tasks.map (encTask cfg))

/-- dump with `task.elapsed` for every task, in order (each running task reads the clock) -/
def encDumpElapsed (cfg : Cfg) (clock : Clock) (st : State) : String × State :=
  let r := st.tasks.foldl (fun (acc : List String × Nat) t =>
    let e := t.elapsedC clock acc.2
    (acc.1 ++ [encTask cfg t ++ "," ++ encOI e.1], e.2)) ([], st.clk)
  ("|".intercalate r.1, { st with clk := r.2 })

def encErr : Option Err → String
  | none => "ok"
  | some .keyError => "KeyError"

def runHist (cfg : Cfg) (clock : Clock) : List (Op × String) → State → List String → List String × State
  | [], st, acc => (acc.reverse, st)
  | (op, obs) :: rest, st, acc =>
    let r := step cfg clock op st
    -- `Progress.finished`: all tasks finished (true for no tasks)
    let head := encErr r.err ++ "@" ++ toString r.st.clk ++ "@" ++ encBool (r.st.tasks.all (fun t => t.finished))
      ++ encBool r.st.started
    if obs == "q" then runHist cfg clock rest r.st acc   -- quiet: nothing observed after this operation
    else if obs == "d" then runHist cfg clock rest r.st ((head ++ "#" ++ encDump cfg r.st) :: acc)
    else if obs == "e" then
      let d := encDumpElapsed cfg clock r.st
      runHist cfg clock rest d.2 ((head ++ "#" ++ d.1) :: acc)
    else runHist cfg clock rest r.st (head :: acc)

def decEvents (s : String) : Option (List (Bool × Nat)) :=
  if s.isEmpty then some [] else
  (s.splitOn " ").mapM (fun t =>
    if t.startsWith "r" then (t.drop 1).toNat?.map (fun i => (true, i))
    else if t.startsWith "c" then (t.drop 1).toNat?.map (fun i => (false, i))
    else none)

/-- replay an event log: each event must be the kind of step the model says the thread takes next -/
def replay (cfg : Cfg) (clock : Clock) : List (Bool × Nat) → Nat → Conf → List String → Except String (Conf × List String)
  | [], _, c, acc => .ok (c, acc.reverse)
  | (isRead, i) :: rest, idx, c, acc =>
    match stepThread cfg clock i c with
    | none => .error ("rejected@" ++ toString idx ++ ":thread-finished")
    | some (c', .read _) =>
      if isRead then replay cfg clock rest (idx + 1) c' acc
      else .error ("rejected@" ++ toString idx ++ ":model-expects-read")
    | some (c', .commit _ _ _ err) =>
      if isRead then .error ("rejected@" ++ toString idx ++ ":model-expects-commit")
      else replay cfg clock rest (idx + 1) c' (encErr err :: acc)

open RichModel.ProgressFmt in
def encExc : Except FmtErr (List Char) → String
  | .ok s => "ok:" ++ encStr s
  | .error .overflow => "err:OverflowError"

def decSamples (s : String) : List Sample :=
  if s.isEmpty then [] else
  (s.splitOn " ").filterMap (fun x => match x.splitOn ":" with
    | [a, b] => match a.toInt?, b.toInt? with
      | some a, some b => some ⟨a, b⟩
      | _, _ => none
    | _ => none)

open RichModel.ProgressFmt in
def fmtHandlers : List (String × (List String → String)) := [
  ("pf_pick", fun a => match a with
    | [size, n, base] =>
      match pickUnit (decInt size) (decNat n) (decInt base) with
      | none => "err:UnboundLocalError"
      | some (u, i) => toString u ++ " " ++ toString i
    | _ => "bad-args"),
  ("pf_tostr", fun a => match a with
    | [size, n, base] =>
      let sfx := (List.range (decNat n)).map (fun j => 's' :: natStr j)
      match renderSizeStr sfx (toStrSel (decInt size) (decNat n) (decInt base)) with
      | none => "err:UnboundLocalError"
      | some s => "ok:" ++ encStr s
    | _ => "bad-args"),
  ("pf_decimal", fun a => match a with
    | [size] => encStr (decimal (decInt size))
    | _ => "bad-args"),
  ("pf_download", fun a => match a with
    | [b, c, t] => encStr (downloadText (decBool b) (decInt c) (decInt t))
    | _ => "bad-args"),
  ("pf_fixed", fun a => match a with
    | [p, x, y] => if decInt y == 0 then "unmodelled" else encStr (divFixed (decNat p) (decInt x) (decInt y))
    | _ => "bad-args"),
  ("pf_trunc", fun a => match a with
    | [x, y] => if decInt y == 0 then "unmodelled" else toString (truncDiv (decInt x) (decInt y))
    | _ => "bad-args"),
  ("pf_td", fun a => match a with
    | [n] => encExc (tdStr (decInt n))
    | _ => "bad-args"),
  ("pf_bar", fun a => match a with
    | [w, t, c] => encStr (barText (decNat w) (decInt t) (decInt c))
    | _ => "bad-args"),
  ("pf_col", fun a => match a with
    | [cfg, A, tot, comp, fin, st, sp, samples, el] =>
      let cfg := decCfg cfg
      let t : Task := ⟨0, 0, decInt tot, decInt comp, decOI fin, true, [], decOI st, decOI sp, decSamples samples⟩
      let ba := barArgs t
      "|".intercalate [encStr (pctText t), toString ba.1 ++ " " ++ toString ba.2.1 ++ " " ++ encBool ba.2.2,
        encExc (timeRemainingText cfg t), encExc (timeElapsedText cfg (decOI el)),
        encStr (transferSpeedText cfg (decInt A) t)]
    | _ => "bad-args")
]

def handlers : List (String × (List String → String)) := fmtHandlers ++ [
  ("pg_hist", fun a => match a with
    | [cfg, clock, ops] =>
      match decOps ops with
      | none => "bad-ops"
      | some ops =>
        let cfg := decCfg cfg
        let r := runHist cfg (decClock clock) ops State.empty []
        ";".intercalate r.1
    | _ => "bad-args"),
  ("pg_sched", fun a => match a with
    | [cfg, clock, setup, progs, events] =>
      let cfg := decCfg cfg
      let clock := decClock clock
      match decOps setup, (if progs.isEmpty then some [] else (progs.splitOn "|").mapM decOps), decEvents events with
      | some setup, some progs, some events =>
        let st0 := run cfg clock (setup.map (·.1)) State.empty
        let c0 : Conf := ⟨st0, progs.map (fun p => ⟨p.map (·.1), none⟩)⟩
        match replay cfg clock events 0 c0 [] with
        | .error e => e
        | .ok (c, errs) =>
          let left := (c.threads.map (fun th => th.prog.length)).sum
          " ".intercalate errs ++ "@" ++ toString c.st.clk ++ "@" ++ toString left ++ "#" ++ encDump cfg c.st
      | _, _, _ => "bad-ops"
    | _ => "bad-args"),
  ("pg_pct", fun a => match a with
    | [tot, comp] =>
      let t : Task := ⟨0, 0, decInt tot, decInt comp, none, true, [], none, none, []⟩
      encFrac t.percentage.1 t.percentage.2
    | _ => "bad-args"),
  ("pg_track", fun a => match a with
    | [cfg, clock, setup, mode, taskId, total, n, seen] =>
      let cfg := decCfg cfg
      let clock := decClock clock
      match decOps setup with
      | none => "bad-ops"
      | some setup =>
        let st0 := run cfg clock (setup.map (·.1)) State.empty
        let xs := List.range (decNat n)
        let tid : Option Nat := if taskId == "_" then none else taskId.toNat?
        let seenL : List Int := if seen.isEmpty then [] else (seen.splitOn " ").filterMap String.toInt?
        let r := if mode == "seq" then trackSeq tid (decInt total) xs st0
                 else trackThread tid (decInt total) xs seenL st0
        let h := runHist cfg clock (r.2.map (fun o => (o, if mode == "seq" then "d" else "n"))) st0 []
        if mode == "seq" then toString r.1.length ++ "!" ++ ";".intercalate h.1 ++ "!" ++ encDump cfg h.2
        else "FINAL:" ++ toString r.1.length ++ "@" ++ toString h.2.clk ++ "!" ++ encDump cfg h.2
    | _ => "bad-args")
]

end RichModel.Drv.C12
