import Std.Data.HashMap
/-
Line-protocol loop shared by the per-property drivers: one request per line
`fn<TAB>arg<TAB>...`, one answer per line.  Unknown function -> `unmodelled`.
-/
namespace RichModel.Drv

abbrev Handler := List String → String

partial def loop (table : Std.HashMap String Handler) (hin hout : IO.FS.Stream) : IO Unit := do
  let line ← hin.getLine
  if line.isEmpty then return ()
  let line := if line.back == '\n' then (line.dropEnd 1).toString else line
  match line.splitOn "\t" with
  | fn :: args =>
    match table.get? fn with
    | some f => hout.putStrLn (f args)
    | none => hout.putStrLn "unmodelled"
  | [] => hout.putStrLn "unmodelled"
  loop table hin hout

def runLoop (handlers : List (String × Handler)) : IO Unit := do
  let table : Std.HashMap String Handler := handlers.foldl (fun m (k, f) => m.insert k f) {}
  let hin ← IO.getStdin
  let hout ← IO.getStdout
  loop table hin hout
  hout.flush

end RichModel.Drv
