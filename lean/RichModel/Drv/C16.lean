import RichModel.Model.Pretty
import RichModel.Model.PrettyConsole
import RichModel.Gen.CellWidths
import RichModel.Drv.Proto
/- Driver handlers for the pretty-printer model (property C16).

Encodings (strings are space-separated decimal code points, so `; | # / , : ~` are free):
* node   : prefix-order records `key;value;open;close;empty;last;tuple;isContainer;nchildren` joined by `|`
* line   : `isRoot;text;suffix;whitespace;expanded#<node or ->`; a list of lines is joined by `/`
* leaf   : `a~<repr>` | `s~<isBytes>~<chars>` | `x~<message>`
* heap   : objects joined by `|`: `L;<leaf>;<isinstance tuple>` | `S;<kind>;<aux>;<ref,ref,…>` | `M;<kind>;<aux>;<leaf:ref,…>`
* reprs  : the runtime `repr()` of the str/bytes values the model may need: `<isBytes>~<chars>~<repr>` joined by `|`
-/
namespace RichModel.Drv.C16
open RichModel RichModel.Proto RichModel.Pretty

def cw : Char → Nat := charWidthT Gen.cellWidths

/-! nodes -/

def encNodeRec (n : Node) : String :=
  ";".intercalate [encStr n.keyRepr, encStr n.valueRepr, encStr n.openBrace, encStr n.closeBrace,
    encStr n.empty, encBool n.last, encBool n.isTuple, encBool n.isContainer, toString n.children.length]

partial def encNodeList (n : Node) : List String :=
  encNodeRec n :: (n.children.map encNodeList).flatten

def encNode (n : Node) : String := "|".intercalate (encNodeList n)

mutual
partial def parseNode : List String → Option (Node × List String)
  | [] => none
  | r :: rest =>
    match r.splitOn ";" with
    | [k, v, o, c, e, l, t, ic, n] =>
      match parseNodes (decNat n) rest with
      | some (kids, rest') =>
        some (.mk (decStr k) (decStr v) (decStr o) (decStr c) (decStr e) (decBool l) (decBool t) (decBool ic) kids, rest')
      | none => none
    | _ => none
partial def parseNodes : Nat → List String → Option (List Node × List String)
  | 0, rest => some ([], rest)
  | n + 1, rest =>
    match parseNode rest with
    | some (k, rest') =>
      match parseNodes n rest' with
      | some (ks, rest'') => some (k :: ks, rest'')
      | none => none
    | none => none
end

def decNode (s : String) : Option Node :=
  match parseNode (s.splitOn "|") with
  | some (n, []) => some n
  | _ => none

/-! lines -/

def encLine (l : Line) : String :=
  ";".intercalate [encBool l.isRoot, encStr l.text, encStr l.suffix, encStr l.whitespace, encBool l.expanded]
    ++ "#" ++ (match l.node with | some n => encNode n | none => "-")

def encLines (ls : List Line) : String := "/".intercalate (ls.map encLine)

def decLine (s : String) : Option Line :=
  match s.splitOn "#" with
  | [f, nd] =>
    match f.splitOn ";" with
    | [r, t, sf, ws, ex] =>
      let base : Line := { isRoot := decBool r, text := decStr t, suffix := decStr sf, whitespace := decStr ws, expanded := decBool ex }
      if nd == "-" then some base
      else match decNode nd with
        | some n => some { base with node := some n }
        | none => none
    | _ => none
  | _ => none

/-! heaps -/

def decLeaf (s : String) : Option Leaf :=
  match s.splitOn "~" with
  | ["a", r] => some (.atom (decStr r))
  | ["x", m] => some (.broken (decStr m))
  | ["s", b, cs] => some (.str (decBool b) (decStr cs))
  | _ => none

def decSeqKind : String → Option SeqKind
  | "array" => some .array | "deque" => some .deque | "frozenset" => some .frozenset
  | "list" => some .list | "set" => some .set | "tuple" => some .tuple | _ => none

def decMapKind : String → Option MapKind
  | "environ" => some .environ | "defaultdict" => some .defaultdict
  | "counter" => some .counter | "dict" => some .dict | _ => none

def splitList (s : String) (sep : String) : List String := if s.isEmpty then [] else s.splitOn sep

def decObj (s : String) : Option HObj :=
  match s.splitOn ";" with
  | ["L", l, t] => (decLeaf l).map (.leaf · (decBool t))
  | ["S", k, aux, items] =>
    match decSeqKind k with
    | some k => some (.seq k (decStr aux) ((splitList items ",").map decNat))
    | none => none
  | ["M", k, aux, items] =>
    match decMapKind k with
    | some k =>
      (optList ((splitList items ",").map fun it =>
        match it.splitOn ":" with
        | [l, r] => (decLeaf l).map (·, decNat r)
        | _ => none)).map (.map k (decStr aux))
    | none => none
  | _ => none

def decHeap (s : String) : Option Heap := optList ((splitList s "|").map decObj)

abbrev ReprTable := List (Bool × Str × Str)

def decReprs (s : String) : Option ReprTable :=
  optList ((splitList s "|").map fun e =>
    match e.splitOn "~" with
    | [b, cs, r] => some (decBool b, decStr cs, decStr r)
    | _ => none)

def lookup (t : ReprTable) (b : Bool) (cs : Str) : Option Str :=
  (t.find? fun e => e.1 == b && e.2.1 == cs).map (·.2.2)

def pyReprOf (t : ReprTable) (b : Bool) (cs : Str) : Str := (lookup t b cs).getD ['?', '?']

/-- the `repr()` values `to_repr` will ask for on this leaf. -/
def leafNeeds (ms : Option Int) : Leaf → List (Bool × Str)
  | .str b cs => match ms with
    | some m => if (cs.length : Int) > m then [(b, sliceTo cs m)] else [(b, cs)]
    | none => [(b, cs)]
  | _ => []

def heapNeeds (ms : Option Int) (h : Heap) : List (Bool × Str) :=
  (h.map fun o => match o with
    | .leaf l _ => leafNeeds ms l
    | .seq .. => []
    | .map _ _ items => (items.map fun kr => leafNeeds ms kr.1).flatten).flatten

def covered (t : ReprTable) (ms : Option Int) (h : Heap) : Bool :=
  (heapNeeds ms h).all fun (b, cs) => (lookup t b cs).isSome

def okRefs (h : Heap) : Bool :=
  h.all fun o => match o with
    | .leaf _ _ => true
    | .seq _ _ items => items.all (· < h.length)
    | .map _ _ items => items.all (·.2 < h.length)

def decOptInt (s : String) : Option Int := if s == "-" then none else s.toInt?
def isInt (s : String) : Bool := s.toInt?.isSome
def isOptInt (s : String) : Bool := s == "-" || isInt s

/-- a lone surrogate cannot be a Lean `Char`: such requests are outside the modelled domain. -/
def hasSurrogate (s : String) : Bool :=
  (s.splitOn " ").any fun t => (t.splitOn "~").any fun u => (u.splitOn ";").any fun x => (x.splitOn ",").any fun y =>
    (y.splitOn ":").any fun z => (z.splitOn "|").any fun q => match q.toNat? with
      | some n => 0xD800 ≤ n && n ≤ 0xDFFF
      | none => false

def decOptStr (s : String) : Option Str := if s == "N" then none else some (decStr (s.drop 1).toString)
def decOptBool (s : String) : Option Bool := if s == "N" then none else some (decBool s)
def encOptStr : Option Str → String
  | none => "N"
  | some t => "S" ++ encStr t

/-- decode the heap request; `k` gets pyRepr, the heap and the root. -/
def withHeap (heap root ml ms reprs : String) (k : (Bool → Str → Str) → Heap → Nat → String) : String :=
  if hasSurrogate heap || hasSurrogate reprs then "unmodelled" else
  match decHeap heap, decReprs reprs with
  | some h, some t =>
    if !(isOptInt ml) || !(isOptInt ms) then "bad-args"
    else if !(covered t (decOptInt ms) h) || !(okRefs h) || decNat root ≥ h.length then "unmodelled"
    else k (pyReprOf t) h (decNat root)
  | _, _ => "bad-args"

def mkVariant (ds al mn : String) : Variant := ⟨decBool ds, decBool al, decBool mn⟩

/-- for the repaired `expand` the root's `last` flag is unobservable (`root_last_unobservable`): it is
masked in the traverse comparison (`maskRoot`). -/
def encNodeMasked (maskRoot : Bool) (n : Node) : String :=
  if maskRoot then encNode (n.setLast true) else encNode n

def handlers : List (String × (List String → String)) := [
  ("pretty.tokens", fun a => match a with
    | [n] => match decNode n with
      | some n => encStrList n.tokens
      | none => "bad-args"
    | _ => "bad-args"),
  ("pretty.str", fun a => match a with
    | [n] => match decNode n with
      | some n => encStr n.str
      | none => "bad-args"
    | _ => "bad-args"),
  ("pretty.check_length", fun a => match a with
    | [n, start, mx] => match decNode n with
      | some n => if s!"{start}".toNat?.isSome && isInt mx then encBool (n.checkLength cw (decNat start) (decInt mx)) else "unmodelled"
      | none => "bad-args"
    | _ => "bad-args"),
  ("pretty.line", fun a => match a with     -- expandable ; check_length(max) ; str
    | [l, mx] => match decLine l with
      | some l =>
        if !isInt mx then "bad-args" else
        encBool l.expandable ++ ";" ++
          (match l.node with | some n => encBool (l.checkLength cw n (decInt mx)) | none => "err:AssertionError")
          ++ ";" ++ encStr l.str
      | none => "bad-args"
    | _ => "bad-args"),
  ("pretty.expand", fun a => match a with
    | [ds, l, ind] => match decLine l with
      | some l =>
        if !isInt ind then "bad-args" else
        match l.node with
        | some n => if n.isContainer && !n.children.isEmpty then encLines (l.expand (mkVariant ds "1" "1") n (decInt ind)) else "err:AssertionError"
        | none => "err:AssertionError"
      | none => "bad-args"
    | _ => "bad-args"),
  ("pretty.render", fun a => match a with
    | [ds, n, w, ind, ea] => match decNode n with
      | some n =>
        if !isInt w || !isInt ind then "bad-args"
        else encStr (render cw (mkVariant ds "1" "1") n (decInt w) (decInt ind) (decBool ea))
      | none => "bad-args"
    | _ => "bad-args"),
  ("pretty.traverse", fun a => match a with
    | [ds, al, heap, root, ml, ms, reprs] =>
      withHeap heap root ml ms reprs fun py h r =>
        match traverseAny py (mkVariant ds al "1") (decOptInt ml) (decOptInt ms) h r with
        | .ok (some n) => encNodeMasked (!(decBool ds)) n
        | .ok none => "none"
        | .error _ => "err:ValueError"
    | _ => "bad-args"),
  ("pretty.pretty_repr", fun a => match a with
    | [ds, al, heap, root, ml, ms, reprs, w, ind, ea] =>
      if !isInt w || !isInt ind then "bad-args" else
      withHeap heap root ml ms reprs fun py h r =>
        match prettyReprAny cw py (mkVariant ds al "1") (decOptInt ml) (decOptInt ms) h r (decInt w) (decInt ind) (decBool ea) with
        | .ok (some s) => encStr s
        | .ok none => "none"
        | .error _ => "err:ValueError"
    | _ => "bad-args"),
  ("pretty.measure", fun a => match a with   -- Pretty.__rich_measure__(console, max_width)
    | [ds, al, mn, heap, root, ml, ms, reprs, w, ind, ea] =>
      if !isInt w || !isInt ind then "bad-args" else
      withHeap heap root ml ms reprs fun py h r =>
        let v := mkVariant ds al mn
        match traverseAny py v (decOptInt ml) (decOptInt ms) h r with
        | .ok (some n) =>
          (match prettyMeasure cw v n (decInt w) (decInt ind) (decBool ea) with
            | .ok m => toString m
            | .error _ => "err:ValueError")
        | .ok none => "none"
        | .error _ => "err:ValueError"
    | _ => "bad-args"),
  ("pretty.console_full", fun a => match a with   -- everything Pretty.__rich_console__ yields, guides included
    | [ds, al, heap, root, ml, ms, reprs, ind, pj, po, pnw, guides, ea, margin, insertLine, cw_, cj, co, cnw, ascii] =>
      if !isInt cw_ || !isInt ind || !isInt margin then "bad-args" else
      withHeap heap root ml ms reprs fun py h r =>
        let v := mkVariant ds al "1"
        match traverseAny py v (decOptInt ml) (decOptInt ms) h r with
        | .ok (some n) =>
          let p : PrettyOpts := ⟨decInt ind, decOptStr pj, decOptStr po, decOptBool pnw, decBool guides, decBool ea, decInt margin, decBool insertLine⟩
          let o : ConsoleOpts := ⟨decInt cw_, decOptStr cj, decOptStr co, decOptBool cnw, decBool ascii⟩
          let s := stripControl (render cw v n (o.maxWidth - p.margin) p.indentSize p.expandAll)
          -- Text.expand_tabs is not modelled: a tab under indent guides is outside the modelled domain
          if p.indentGuides && !o.asciiOnly && s.contains '\t' then "unmodelled" else
          match prettyConsoleFull cw v n p o with
          | .ok out =>
            ";".intercalate ([toString out.parts.length] ++ out.parts.map encStr ++
              [encOptStr out.justify, encOptStr out.overflow, encBool out.noWrap])
          | .error .zeroDivision => "err:ZeroDivisionError"
          | .error .valueError => "err:ValueError"
        | .ok none => "none"
        | .error _ => "err:ValueError"
    | _ => "bad-args"),
  ("pretty.measure_m", fun a => match a with   -- Pretty(margin=).__rich_measure__(console, max_width); im = flag ignoreMargin
    | [ds, al, mn, im, heap, root, ml, ms, reprs, w, ind, ea, margin] =>
      if !isInt w || !isInt ind || !isInt margin then "bad-args" else
      withHeap heap root ml ms reprs fun py h r =>
        let v := mkVariant ds al mn
        match traverseAny py v (decOptInt ml) (decOptInt ms) h r with
        | .ok (some n) =>
          (match prettyMeasureM (decBool im) cw v n (decInt w) (decInt ind) (decBool ea) (decInt margin) with
            | .ok m => toString m
            | .error _ => "err:ValueError")
        | .ok none => "none"
        | .error _ => "err:ValueError"
    | _ => "bad-args"),
  ("pretty.console", fun a => match a with   -- Pretty.__rich_console__(console, options)
    | [ds, al, heap, root, ml, ms, reprs, ind, pj, po, pnw, guides, ea, margin, insertLine, cw_, cj, co, cnw, ascii] =>
      if !isInt cw_ || !isInt ind || !isInt margin then "bad-args" else
      withHeap heap root ml ms reprs fun py h r =>
        let v := mkVariant ds al "1"
        match traverseAny py v (decOptInt ml) (decOptInt ms) h r with
        | .ok (some n) =>
          let p : PrettyOpts := ⟨decInt ind, decOptStr pj, decOptStr po, decOptBool pnw, decBool guides, decBool ea, decInt margin, decBool insertLine⟩
          let o : ConsoleOpts := ⟨decInt cw_, decOptStr cj, decOptStr co, decOptBool cnw, decBool ascii⟩
          let out := prettyConsole cw v n p o
          ";".intercalate [encBool out.blankFirst, encStr out.text, encOptStr out.justify, encOptStr out.overflow,
            encBool out.noWrap, (match out.guides with | some k => toString k | none => "N")]
        | .ok none => "none"
        | .error _ => "err:ValueError"
    | _ => "bad-args")
]

end RichModel.Drv.C16
