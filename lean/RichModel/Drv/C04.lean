import RichModel.Model.Markup
import RichModel.Model.MarkupHL
import RichModel.Drv.Proto
/- Driver handlers for property C04 (markup tokenizer, escape, _parse, render, _emoji_replace). -/
namespace RichModel.Drv.C04
open RichModel RichModel.Proto RichModel.Markup

/-- `n:key>val,key>val` with code-point strings -/
def decTable (s : String) : List (List Char × List Char) :=
  match s.splitOn ":" with
  | [n, body] =>
    if n == "0" then [] else (body.splitOn ",").filterMap (fun kv =>
      match kv.splitOn ">" with
      | [k, v] => some (decStr k, decStr v)
      | _ => none)
  | _ => []

def lookupT (t : List (List Char × List Char)) (k : List Char) : Option (List Char) :=
  (t.find? (fun p => p.1 == k)).map (·.2)

/-- `Style.normalize` as recorded from the real call; a name the real code never normalized
answers a string starting with NUL, which no implementation answer contains. -/
def normT (t : List (List Char × List Char)) (k : List Char) : List Char :=
  match lookupT t k with
  | some v => v
  | none => Char.ofNat 0 :: k

def decOptBool (s : String) : Option Bool := if s == "-" then none else some (s == "1")

def encSpan (sp : Span) : String :=
  toString sp.start ++ "," ++ toString sp.stop ++ "," ++ encStr sp.style

def encRendered (r : Except MErr Rendered) : String :=
  match r with
  | .ok (plain, spans) => "ok|" ++ encStr plain ++ "|" ++ toString spans.length ++ "|" ++ ";".intercalate (spans.map encSpan)
  | .error e => "err:MarkupError:" ++ encStr e.message.toList

def encPEv : PEv → String
  | .text pos s => "T," ++ toString pos ++ "," ++ encStr s
  | .tag pos t => "G," ++ toString pos ++ "," ++ encStr t.name ++ "," ++
      (match t.params with | none => "-" | some p => "=" ++ encStr p)

/-- `start.stop.style/…` -/
def decSpans (s : String) : List Span :=
  if s.isEmpty then [] else (s.splitOn "/").filterMap (fun t =>
    match t.splitOn "." with
    | [a, b, st] => some { start := decNat a, stop := decNat b, style := decStr st }
    | _ => none)

/-- `n:plain>spans,plain>spans` — what the real highlighter answered for each plain text it was given -/
def decHlTable (s : String) : List (List Char × List Span) :=
  match s.splitOn ":" with
  | [n, body] =>
    if n == "0" then [] else (body.splitOn ",").filterMap (fun kv =>
      match kv.splitOn ">" with
      | [k, v] => some (decStr k, decSpans v)
      | _ => none)
  | _ => []

/-- the recorded highlighter; a plain text the real one was never given answers a NUL-styled span
(no implementation answer contains one), so a disagreement about WHAT is highlighted cannot hide -/
def hlT (t : List (List Char × List Span)) : Highlighter := fun p =>
  match t.find? (fun q => q.1 == p) with
  | some (_, sp) => sp
  | none => [{ start := 0, stop := 0, style := [Char.ofNat 0] }]

def handlers : List (String × (List String → String)) := [
  ("mk_isspace", fun a => match a with
    | [cp] => encBool (pyIsSpace (Char.ofNat (decNat cp)))
    | _ => "bad-args"),
  ("mk_escape", fun a => match a with
    | [s] => encStr (escape (decStr s))
    | _ => "bad-args"),
  ("mk_parse", fun a => match a with
    | [s] => let l := parse (decStr s); toString l.length ++ "#" ++ ";".intercalate (l.map encPEv)
    | _ => "bad-args"),
  ("mk_emoji", fun a => match a with
    | [s, tbl] => encStr (emojiReplace pyIsSpace (lookupT (decTable tbl)) (decStr s))
    | _ => "bad-args"),
  ("mk_render", fun a => match a with
    | [s, emoji, sortFlag, normTbl, emojiTbl] =>
      let cfg : Cfg := {
        norm := normT (decTable normTbl),
        emoji := if decBool emoji then some (lookupT (decTable emojiTbl)) else none,
        isSpace := pyIsSpace,
        sortSpans := decBool sortFlag }
      encRendered (render cfg (decStr s))
    | _ => "bad-args"),
  -- Console(emoji=ce, markup=cm, highlight=False).render_str(text, emoji=e, markup=m)
  ("mk_render_str", fun a => match a with
    | [s, ce, cm, e, m, normTbl, emojiTbl] =>
      let cfg : Cfg := { norm := normT (decTable normTbl), emoji := some (lookupT (decTable emojiTbl)),
                         isSpace := pyIsSpace, sortSpans := false }
      encRendered (renderStr cfg { emoji := decBool ce, markup := decBool cm } (decOptBool e) (decOptBool m) (decStr s))
    | _ => "bad-args"),
  -- … ._collect_renderables(strs, sep, end, emoji=e, markup=m, highlight=False)[0]
  ("mk_print", fun a => match a with
    | [strs, sep, ce, cm, e, m, normTbl, emojiTbl] =>
      let cfg : Cfg := { norm := normT (decTable normTbl), emoji := some (lookupT (decTable emojiTbl)),
                         isSpace := pyIsSpace, sortSpans := false }
      encRendered (printStrs cfg { emoji := decBool ce, markup := decBool cm } (decOptBool e) (decOptBool m)
        (decStr sep) (decStrList strs))
    | _ => "bad-args"),
  -- Console(emoji=ce, markup=cm, highlight=ch, highlighter=H).render_str(text, emoji=e, markup=m, highlight=h[, highlighter=A])
  ("mk_render_str_h", fun a => match a with
    | [s, ce, cm, ch, e, m, h, useArg, normTbl, emojiTbl, conHl, argHl] =>
      let cfg : Cfg := { norm := normT (decTable normTbl), emoji := some (lookupT (decTable emojiTbl)),
                         isSpace := pyIsSpace, sortSpans := false }
      let con : ConsoleH := { emoji := decBool ce, markup := decBool cm, highlight := decBool ch, highlighter := hlT (decHlTable conHl) }
      encRendered (renderStrH cfg con (decOptBool e) (decOptBool m) (decOptBool h)
        (if decBool useArg then some (hlT (decHlTable argHl)) else none) (decStr s))
    | _ => "bad-args"),
  -- … ._collect_renderables(strs, sep, end, emoji=e, markup=m, highlight=h)[0]
  ("mk_print_h", fun a => match a with
    | [strs, sep, ce, cm, ch, e, m, h, normTbl, emojiTbl, conHl] =>
      let cfg : Cfg := { norm := normT (decTable normTbl), emoji := some (lookupT (decTable emojiTbl)),
                         isSpace := pyIsSpace, sortSpans := false }
      let con : ConsoleH := { emoji := decBool ce, markup := decBool cm, highlight := decBool ch, highlighter := hlT (decHlTable conHl) }
      encRendered (printStrsH cfg con (decOptBool e) (decOptBool m) (decOptBool h) (decStr sep) (decStrList strs))
    | _ => "bad-args")
]

end RichModel.Drv.C04
