import RichModel.Drv.Proto
/- Driver handlers for property C04 (stub: filled in when the model is built). -/
namespace RichModel.Drv.C04
open RichModel RichModel.Proto

def handlers : List (String × (List String → String)) := []

end RichModel.Drv.C04
