import RichModel.Drv.Proto
import RichModel.Model.Totality
import RichModel.Model.TotalityPrint
import RichModel.Model.TotalityTitle
import RichModel.Gen.CellWidths
/-
Driver handlers for property C14 (the exception layer of the string entry points).

Wire format (fields separated by TAB; strings are space-separated decimal code points):
  c14_lower  s                 -> lower(s)                          | unmodelled (final-sigma context)
  c14_strip  s                 -> s.strip()
  c14_split  s                 -> n:w1,w2,…
  c14_int    s                 -> the value | -        (int() of a string of \d and \s characters)
  c14_color  vErr s            -> ok:<type>:<number|->:<r.g.b|->:<name> | err:<Class>
  c14_style  vErr s            -> ok:<str(style)>:<null 0/1>           | err:<Class>
  c14_norm   vErr s            -> ok:<normal form>                     | err:<Class>
  c14_markup vErr s            -> ok:<plain>|<start>.<stop>.<style>;…  | err:<Class>     (emoji=False)
  c14_get_style vErr name def  -> ok | err:MissingStyle | err:Other    (def: `-` none, `o` a Style object, `s<str>` a str)
  c14_expand_tabs tabAssert s textTab argTab -> ok:<plain> | err:Other:<Class>   (`Text(s, tab_size=textTab).expand_tabs(argTab)`; `-` = None)
  c14_rule_title  tabAssert s textTab        -> ok:<plain> | err:Other:<Class>   (the title of `Rule(Text(s, tab_size=textTab))` after rule.py:76-79)
  c14_panel_title tabAssert s textTab        -> ok:<plain> | err:Other:<Class>   (`Panel(…, title=Text(s, tab_size=textTab))._title.plain`)
  c14_guides_prep tabAssert s textTab        -> ok | err:Other:<Class>           (`Text(s, tab_size=textTab).with_indent_guides()` raises or not)
`tabAssert` = 1: the code as found (`assert tab_size is not None`, C14-T1), 0: pending_fixes/C14-expand-tabs-tab-size-none-assertion.diff.
`vErr` = 1: rich 9.10.0 as found, where `int()`'s ValueError escapes `Color.parse` (F9); 0: the repaired code (fix c34676b, what /repo contains
now and what the harness sends).
-/
namespace RichModel.Drv.C14
open RichModel RichModel.Proto RichModel.Totality

def P : PyStr := Py.real

def encErr (e : Exc) : String := "err:" ++ e.name

def encOptN : Option Nat → String
  | none => "-"
  | some n => toString n

def encColor (c : Color) : String :=
  "ok:" ++ toString c.type.toNat ++ ":" ++ encOptN c.number ++ ":" ++
    (match c.triplet with
     | none => "-"
     | some t => toString t.red ++ "." ++ toString t.green ++ "." ++ toString t.blue) ++ ":" ++ encStr c.name

def encSpan (s : Markup.Span) : String :=
  toString s.start ++ "." ++ toString s.stop ++ "." ++ encStr s.style

def decNS (s : String) : Option (Theme.NS Style) :=
  if s == "-" then none
  else if s == "o" then some (.style Style.null)
  else some (.str (decStr (s.drop 1).toString))

/-- the console of the print correspondence: rich's width table, every code variant repaired -/
def printCfg (w : Nat) : Layout.Cfg :=
  { cw := charWidthT Gen.cellWidths, env := { consoleWidth := w },
    v := { zeroWidthChild := false, ruleRightRepeat := false, rstripCountsChars := false, columnsZeroCount := false },
    wv := Wrap.WVariant.repaired, fl := Flags.allRepaired }

def decOverflow (s : String) : Option (Option RichModel.Overflow) :=
  if s == "-" then some none
  else if s == "fold" then some (some .fold)
  else if s == "crop" then some (some .crop)
  else if s == "ellipsis" then some (some .ellipsis)
  else if s == "ignore" then some (some .ignore)
  else none

def encPyErr : PyErr → String
  | .indexError => "IndexError" | .typeError => "TypeError" | .valueError => "ValueError"
  | .assertionError => "AssertionError" | .zeroDivisionError => "ZeroDivisionError" | .keyError => "KeyError"
  | .runtimeError => "RuntimeError"

def encTextRes (plain : Bool) : Except PyErr (Text Nat) → String
  | .ok t => if plain then "ok:" ++ encStr t.plain else "ok"
  | .error e => "err:Other:" ++ encPyErr e

def mkTitle (s ts : String) : Text Nat :=
  Text.new Variant.repaired (decStr s) (0 : Nat) [] none none none ['\n'] (decOptNat ts)

def handlers : List (String × (List String → String)) := [
  ("c14_expand_tabs", fun a => match a with
    | [f, s, ts, arg] => encTextRes true (expandTabsV (decBool f) Variant.repaired (mkTitle s ts) (decOptNat arg))
    | _ => "bad-args"),
  ("c14_rule_title", fun a => match a with
    | [f, s, ts] => encTextRes true (ruleTitlePrep (decBool f) Variant.repaired (mkTitle s ts))
    | _ => "bad-args"),
  ("c14_panel_title", fun a => match a with
    | [f, s, ts] => encTextRes true (panelTitle (decBool f) Variant.repaired (mkTitle s ts))
    | _ => "bad-args"),
  ("c14_guides_prep", fun a => match a with
    | [f, s, ts] => encTextRes false (guidesPrep (decBool f) Variant.repaired (mkTitle s ts))
    | _ => "bad-args"),
  ("c14_text_measure", fun a => match a with   -- Text(s).__rich_measure__: ok:<min>,<max> | err:Other:<Class>
    | [s] =>
      match textRichMeasureNL pyIsSpace pyIsSpace (charWidthT Gen.cellWidths) (Text.new Variant.repaired (decStr s) (0 : Nat)).plain with
      | .ok m => "ok:" ++ toString m.minimum ++ "," ++ toString m.maximum
      | .error e => "err:Other:" ++ encPyErr e
    | _ => "bad-args"),
  ("c14_print_plain", fun a => match a with
    | [w, ov, nw, crop, sep, e, s] =>
      match decOverflow ov with
      | none => "bad-args"
      | some ov =>
        let po : PrintOpts := { overflow := ov, noWrap := if nw == "-" then some false else some (decBool nw),
                                crop := decBool crop, sep := decStr sep, endStr := decStr e }
        match printPlainE (printCfg (decNat w)) po (decStr s) (decNat w) with
        | .ok lines => "ok:" ++ encStr (lines.flatMap (fun l => l.flatMap (fun g => if g.control then [] else g.text)))
        | .error e => "err:Other:" ++ encPyErr e
    | _ => "bad-args"),
  ("c14_lower", fun a => match a with
    | [s] => let x := decStr s
      if Py.lowerUnmodelled x then "unmodelled" else encStr (P.lower x)
    | _ => "bad-args"),
  ("c14_strip", fun a => match a with
    | [s] => encStr (strip P (decStr s))
    | _ => "bad-args"),
  ("c14_split", fun a => match a with
    | [s] => encStrList (split P (decStr s))
    | _ => "bad-args"),
  ("c14_int", fun a => match a with
    | [s] => encOptN (pyInt P (decStr s))
    | _ => "bad-args"),
  ("c14_color", fun a => match a with
    | [v, s] => let x := decStr s
      if Py.lowerUnmodelled x then "unmodelled"
      else match UColor.parse P (decBool v) x with
        | .ok c => encColor c
        | .error e => encErr e
    | _ => "bad-args"),
  ("c14_style", fun a => match a with
    | [v, s] => let x := decStr s
      if Py.lowerUnmodelled x then "unmodelled"
      else match UStyle.parse P (decBool v) x with
        | .ok st => "ok:" ++ encStr (Style.str st) ++ ":" ++ encBool st.isNull
        | .error e => encErr e
    | _ => "bad-args"),
  ("c14_norm", fun a => match a with
    | [v, s] => let x := decStr s
      if Py.lowerUnmodelled x then "unmodelled"
      else match UStyle.normalize P (decBool v) x with
        | .ok r => "ok:" ++ encStr r
        | .error e => encErr e
    | _ => "bad-args"),
  ("c14_markup", fun a => match a with
    | [v, s] => let x := decStr s
      if Py.lowerUnmodelled x then "unmodelled"
      else match markupRender P (decBool v) none x with
        | .ok (plain, spans) => "ok:" ++ encStr plain ++ "|" ++ ";".intercalate (spans.map encSpan)
        | .error e => encErr e
    | _ => "bad-args"),
  ("c14_get_style", fun a => match a with
    | [v, name, d] => let x := decStr name
      if Py.lowerUnmodelled x then "unmodelled"
      else match getStyle P (decBool v) defaultStack (.str x) (decNS d) with
        | .ok _ => "ok"
        | .error .missingStyle => "err:MissingStyle"
        | .error .other => "err:Other"
    | _ => "bad-args")
]

end RichModel.Drv.C14
