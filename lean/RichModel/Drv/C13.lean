import RichModel.Model.Cells
import RichModel.Model.Segment
import RichModel.Gen.CellWidths
import RichModel.Drv.Proto
/- Driver handlers for the cells / segment models (property C13 and everything built on it). -/
namespace RichModel.Drv.C13
open RichModel RichModel.Proto

def cw : Char → Nat := charWidthT Gen.cellWidths

abbrev Seg := Segment Nat

def decSeg (s : String) : Seg :=
  match s.splitOn ";" with
  | [t, st, c] => { text := decStr t, style := decOptNat st, control := decBool c }
  | _ => { text := [], style := none, control := false }

def encSeg (s : Seg) : String :=
  encStr s.text ++ ";" ++ encOptNat s.style ++ ";" ++ encBool s.control

def decLine (s : String) : List Seg := if s.isEmpty then [] else (s.splitOn "|").map decSeg
def encLine (l : List Seg) : String := "|".intercalate (l.map encSeg)

def decLines (s : String) : List (List Seg) :=
  match s.splitOn "#" with
  | [n, body] => if n == "0" then [] else (body.splitOn "/").map decLine
  | _ => []
def encLines (ls : List (List Seg)) : String :=
  toString ls.length ++ "#" ++ "/".intercalate (ls.map encLine)

/-- cache histories: `cap` then the measured strings; answers the list of results. -/
def cacheHistory (cap : Nat) (calls : List (List Char)) : List Nat :=
  cellLenHistory cw { cap := cap, items := [] } calls

def handlers : List (String × (List String → String)) := [
  ("cw", fun a => match a with
    | [cp] => toString (charWidthT Gen.cellWidths (Char.ofNat (decNat cp)))
    | _ => "bad-args"),
  ("cwraw", fun a => match a with   -- _get_codepoint_cell_size on a raw code point (incl. surrogates)
    | [cp] => toString (codepointWidth Gen.cellWidths (decNat cp))
    | _ => "bad-args"),
  ("cell_len", fun a => match a with
    | [s] => toString (cellLen cw (decStr s))
    | _ => "bad-args"),
  ("cache_hist", fun a => match a with
    | [cap, calls] => " ".intercalate ((cacheHistory (decNat cap) (decStrList calls)).map toString)
    | _ => "bad-args"),
  ("set_cell_size", fun a => match a with
    | [s, n] => encStr (setCellSize cw (decStr s) (decNat n))
    | _ => "bad-args"),
  ("chop_cells", fun a => match a with
    | [s, m, p] => encStrList (chopCells cw (decStr s) (decNat m) (decNat p))
    | _ => "bad-args"),
  ("split_lines", fun a => match a with
    | [l] => encLines (splitLines (decLine l))
    | _ => "bad-args"),
  ("adjust", fun a => match a with
    | [l, n, st, pad] => encLine (adjustLineLength cw (decLine l) (decNat n) (decOptNat st) (decBool pad))
    | _ => "bad-args"),
  ("split_crop", fun a => match a with
    | [l, n, st, pad, nl, rebind] =>
      encLines (splitAndCropLines cw (decLine l) (decNat n) (decOptNat st) (decBool pad) (decBool nl) (decBool rebind))
    | _ => "bad-args"),
  ("set_shape", fun a => match a with
    | [ls, w, h, st] => encLines (setShape cw (decLines ls) (decNat w) (decOptNat h) (decOptNat st))
    | _ => "bad-args"),
  -- styles are ids; add a b = 100*a + b (order-sensitive, collision-free for ids < 100); truthy = id ≠ 0;
  -- noLink / noColor = id + 1000 / id + 2000
  ("apply_style", fun a => match a with
    | [l, st, ps] => encLine (applyStyle (fun x y => 100 * x + y) (· != 0) (decLine l) (decOptNat st) (decOptNat ps))
    | _ => "bad-args"),
  ("filter_control", fun a => match a with
    | [l, b] => encLine (filterControl (decLine l) (decBool b))
    | _ => "bad-args"),
  ("strip_styles", fun a => match a with
    | [l] => encLine (stripStyles (decLine l))
    | _ => "bad-args"),
  ("strip_links", fun a => match a with
    | [l] => encLine (stripLinks (· != 0) (· + 1000) (decLine l))
    | _ => "bad-args"),
  ("remove_color", fun a => match a with
    | [l] => encLine (removeColor (· != 0) (· + 2000) (decLine l))
    | _ => "bad-args"),
  ("get_shape", fun a => match a with
    | [ls] => let r := getShape cw (decLines ls); toString r.1 ++ " " ++ toString r.2
    | _ => "bad-args"),
  ("simplify", fun a => match a with
    | [l, mergeCtl] => encLine (simplify (decLine l) (decBool mergeCtl))
    | _ => "bad-args")
]

end RichModel.Drv.C13
