import RichModel.Model.Cells
import RichModel.Model.Segment
import RichModel.Model.SegmentExtra
import RichModel.Model.Lru
import RichModel.Gen.CellWidths
import RichModel.Drv.Proto
/- Driver handlers for the cells / segment models (property C13 and everything built on it). -/
namespace RichModel.Drv.C13
open RichModel RichModel.Proto

def cw : Char → Nat := charWidthT Gen.cellWidths

abbrev Seg := Segment Nat

def decSeg (s : String) : Seg :=
  match s.splitOn ";" with
  | [t, st, c] => { text := decStr t, style := decOptNat st, control := decBool c }
  | _ => { text := [], style := none, control := false }

def encSeg (s : Seg) : String :=
  encStr s.text ++ ";" ++ encOptNat s.style ++ ";" ++ encBool s.control

def decLine (s : String) : List Seg := if s.isEmpty then [] else (s.splitOn "|").map decSeg
def encLine (l : List Seg) : String := "|".intercalate (l.map encSeg)

def decLines (s : String) : List (List Seg) :=
  match s.splitOn "#" with
  | [n, body] => if n == "0" then [] else (body.splitOn "/").map decLine
  | _ => []
def encLines (ls : List (List Seg)) : String :=
  toString ls.length ++ "#" ++ "/".intercalate (ls.map encLine)

/-- cache histories: `cap` then the measured strings; answers the list of results. -/
def cacheHistory (cap : Nat) (calls : List (List Char)) : List Nat :=
  cellLenHistory cw { cap := cap, items := [] } calls

/-! LRUCache op sequences.  ops: tokens separated by `,`: `s:k:v` (`c[k] = v`), `g:k` (`c[k]`), `q:k` (`c.get(k)`),
`c:k` (`k in c`), `l` (`len(c)`); keys / values are naturals.  Answer: outputs separated by `,` (`u` None, `v:n`,
`E` KeyError, `b:0|1`, `n:k`), then `|`, then the final `items()` as `k:v` separated by `,`. -/
def decOp (t : String) : Option (LruOp Nat Nat) :=
  match t.splitOn ":" with
  | ["s", k, v] => some (.setitem (decNat k) (decNat v))
  | ["g", k] => some (.getitem (decNat k))
  | ["q", k] => some (.get (decNat k))
  | ["c", k] => some (.contains (decNat k))
  | ["l"] => some .len
  | _ => none

def decOps (s : String) : Option (List (LruOp Nat Nat)) :=
  if s.isEmpty then some [] else (s.splitOn ",").mapM decOp

def encOut : LruOut Nat → String
  | .unit => "u"
  | .val v => "v:" ++ toString v
  | .keyError => "E"
  | .bool b => "b:" ++ encBool b
  | .nat n => "n:" ++ toString n

def encItems (l : List (Nat × Nat)) : String := ",".intercalate (l.map fun p => toString p.1 ++ ":" ++ toString p.2)

def encRun (outs : List (LruOut Nat)) (items : List (Nat × Nat)) : String :=
  ",".intercalate (outs.map encOut) ++ "|" ++ encItems items

def handlers : List (String × (List String → String)) := [
  ("cw", fun a => match a with
    | [cp] => toString (charWidthT Gen.cellWidths (Char.ofNat (decNat cp)))
    | _ => "bad-args"),
  ("cwraw", fun a => match a with   -- _get_codepoint_cell_size on a raw code point (incl. surrogates)
    | [cp] => toString (codepointWidth Gen.cellWidths (decNat cp))
    | _ => "bad-args"),
  ("cell_len", fun a => match a with
    | [s] => toString (cellLen cw (decStr s))
    | _ => "bad-args"),
  ("cache_hist", fun a => match a with
    | [cap, calls] => " ".intercalate ((cacheHistory (decNat cap) (decStrList calls)).map toString)
    | _ => "bad-args"),
  ("set_cell_size", fun a => match a with
    | [s, n] => encStr (setCellSize cw (decStr s) (decNat n))
    | _ => "bad-args"),
  ("chop_cells", fun a => match a with
    | [s, m, p] => encStrList (chopCells cw (decStr s) (decNat m) (decNat p))
    | _ => "bad-args"),
  ("split_lines", fun a => match a with
    | [l] => encLines (splitLines (decLine l))
    | _ => "bad-args"),
  ("adjust", fun a => match a with
    | [l, n, st, pad] => encLine (adjustLineLength cw (decLine l) (decNat n) (decOptNat st) (decBool pad))
    | _ => "bad-args"),
  ("split_crop", fun a => match a with
    | [l, n, st, pad, nl, rebind] =>
      encLines (splitAndCropLines cw (decLine l) (decNat n) (decOptNat st) (decBool pad) (decBool nl) (decBool rebind))
    | _ => "bad-args"),
  ("set_shape", fun a => match a with
    | [ls, w, h, st] => encLines (setShape cw (decLines ls) (decNat w) (decOptNat h) (decOptNat st))
    | _ => "bad-args"),
  -- styles are ids; add a b = 100*a + b (order-sensitive, collision-free for ids < 100); truthy = id ≠ 0;
  -- noLink / noColor = id + 1000 / id + 2000
  ("apply_style", fun a => match a with
    | [l, st, ps] => encLine (applyStyle (fun x y => 100 * x + y) (· != 0) (decLine l) (decOptNat st) (decOptNat ps))
    | _ => "bad-args"),
  ("filter_control", fun a => match a with
    | [l, b] => encLine (filterControl (decLine l) (decBool b))
    | _ => "bad-args"),
  ("strip_styles", fun a => match a with
    | [l] => encLine (stripStyles (decLine l))
    | _ => "bad-args"),
  ("strip_links", fun a => match a with
    | [l] => encLine (stripLinks (· != 0) (· + 1000) (decLine l))
    | _ => "bad-args"),
  ("remove_color", fun a => match a with
    | [l] => encLine (removeColor (· != 0) (· + 2000) (decLine l))
    | _ => "bad-args"),
  ("get_shape", fun a => match a with
    | [ls] => let r := getShape cw (decLines ls); toString r.1 ++ " " ++ toString r.2
    | _ => "bad-args"),
  ("simplify", fun a => match a with
    | [l, mergeCtl] => encLine (simplify (decLine l) (decBool mergeCtl))
    | _ => "bad-args"),
  -- deepening round 4
  ("cache_state", fun a => match a with   -- the cache content (keys oldest first, then values) after a `cell_len` history
    | [cap, calls] =>
      let c := (decStrList calls).foldl (fun c s => (cellLenC cw c s).2) { cap := decNat cap, items := [] }
      encStrList (c.items.map (·.1)) ++ "#" ++ " ".intercalate (c.items.map fun p => toString p.2)
    | _ => "bad-args"),
  ("lru_ops", fun a => match a with       -- the LRUCache state machine itself
    | [cap, ops] => match decOps ops with
      | some l => let r := Lru.run { cap := (decInt cap).toNat, items := ([] : List (Nat × Nat)) } l
                  encRun r.1 r.2.items
      | none => "unmodelled"
    | _ => "bad-args"),
  ("lru_abs", fun a => match a with       -- the never-evicting plain map, observed through its `cap` most recent keys
    | [cap, ops] => match decOps ops with
      | some l =>
        if (decInt cap).toNat = 0 then "unmodelled"   -- the refinement theorem is for capacity >= 1
        else let r := amRun (decInt cap).toNat ([] : List (Nat × Nat)) l
             encRun r.1 (viewL (decInt cap).toNat r.2)
      | none => "unmodelled"
    | _ => "bad-args"),
  ("set_cell_size_i", fun a => match a with
    | [s, n] => encStr (setCellSizeI cw (decStr s) (decInt n))
    | _ => "bad-args"),
  ("make_control", fun a => match a with
    | [l] => encLine (makeControl (decLine l))
    | _ => "bad-args"),
  ("seg_control", fun a => match a with
    | [t, st] => encSeg (Segment.mkControl (decStr t) (decOptNat st))
    | _ => "bad-args"),
  ("seg_line", fun a => match a with
    | [b] => encSeg (Segment.newLine (decBool b))
    | _ => "bad-args"),
  ("seg_bool_len", fun a => match a with   -- `bool(segment)` and `segment.cell_length`
    | [sg] => let x := decSeg sg; encBool x.truthy ++ " " ++ toString (x.cellLength cw)
    | _ => "bad-args"),
  ("line_length", fun a => match a with    -- `Segment.get_line_length`
    | [l] => toString (lineLength cw (decLine l))
    | _ => "bad-args")
]

end RichModel.Drv.C13
