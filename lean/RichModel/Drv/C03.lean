import RichModel.Model.AnsiPrint
import RichModel.Model.Cells
import RichModel.Gen.CellWidths
import RichModel.Drv.Proto
/-
Driver handlers for property C03 (the ANSI stream means what the styled segments say).

Every request is a *history* over shared `Style` objects (the `_ansi` cache is state):

  <fn> TAB flags TAB ops

* flags  : three characters 0/1: `ansiCacheUnkeyed styledControlKept stdViaPalette`
* string : space separated decimal code points ("" = empty);  optstr: `-` | `=`string
* color  : `-` | `name/type/number/triplet`  (number `-`|n, triplet `-`|r.g.b) — C06's format
* style  : `color|bgcolor|attributes|set_attributes|link|null`
* ops    : joined by `~`
    N@style                 a new Style object with an empty cache
    C@i                     heap[i].copy()
    U@i@optstr              heap[i].update_link(link)
    R@cfg@n#seg;seg…        console._render_buffer(segs);  cfg = four characters `cs no_color is_terminal legacy_windows`,
                            cs: 0 None 1 standard 2 256 3 truecolor 4 windows;  seg = `text,style,control`, style `-`|index
    S@i@cs@lw@text          heap[i].render(text, color_system=cs, legacy_windows=lw)
    P@cfg@width@csoft@style@crop@soft@n#seg;…   console.print(<renderables rendering to segs>, style=heap[style], crop=…, soft_wrap=…)
                            on a console of that width and `soft_wrap` (`Model/AnsiPrint.lean`): style `-`|index, soft `-`|0|1
* answers: one item per writing op, joined by `~`; an exception ends the history with `err:<PyClass>`.
    c03_chars     the characters written, link ids masked as `id=*`
    c03_toks      the tokens (normalised): `T`string | `G`p.p.p | `L`params`/`uri, joined by `;`
    c03_cells     the independent interpreter run on those tokens: runs `string|mask|fg|bg|link` joined by `;`,
                  plus `!` and the final terminal state `mask|fg|bg|link`
    c03_expected  what the specification `expectedCells` says the terminal must show, same run format
    c03_pbuf      for a `P` op: the segments `print` appended to `_buffer`, `text,control,style` joined by `;` with the
                  style as a *value* (`-` | the style format above); `-` for the other writing ops
  A dangling index makes the whole request `unmodelled`.
* c03_tokenize TAB string  the terminal's tokenizer (`AnsiTerm.tokenize`) on an arbitrary character string
* c03_interp TAB tokens   the interpreter alone on an arbitrary token list (same token / run formats)
-/
namespace RichModel.Drv.C03
open RichModel RichModel.Proto RichModel.AnsiTerm RichModel.AnsiRender

def decOptS (s : String) : Option (Option (List Char)) :=
  if s == "-" then some none
  else if s.startsWith "=" then some (some (decStr (s.drop 1).toString))
  else none

def decType : String → Option ColorType
  | "0" => some .default | "1" => some .standard | "2" => some .eightBit
  | "3" => some .truecolor | "4" => some .windows | _ => none

def decColor (s : String) : Option (Option Color) :=
  if s == "-" then some none
  else match s.splitOn "/" with
  | [n, t, num, trip] => do
    let ty ← decType t
    let number ← if num == "-" then some none else num.toNat?.map some
    let triplet ← if trip == "-" then some none else
      match trip.splitOn "." with
      | [r, g, b] => do
        let r ← r.toNat?
        let g ← g.toNat?
        let b ← b.toNat?
        pure (some (⟨r, g, b⟩ : Triplet))
      | _ => none
    pure (some { name := decStr n, type := ty, number := number, triplet := triplet })
  | _ => none

def decStyle (s : String) : Option Style :=
  match s.splitOn "|" with
  | [c, b, a, sa, l, n] => do
    let c ← decColor c
    let b ← decColor b
    let a ← a.toNat?
    let sa ← sa.toNat?
    let l ← decOptS l
    pure { color := c, bgcolor := b, attributes := a, setAttributes := sa, link := l,
           hash := ⟨c, b, some a, some sa, l⟩, isNull := decBool n, styleDef := none }
  | _ => none

def decSystem : String → Option (Option ColorSystem)
  | "0" => some none | "1" => some (some .standard) | "2" => some (some .eightBit)
  | "3" => some (some .truecolor) | "4" => some (some .windows) | _ => none

def decConfig (s : String) : Option Config :=
  match s.toList with
  | [cs, nc, t, lw] => do
    let cs ← decSystem cs.toString
    pure { colorSystem := cs, noColor := nc == '1', isTerminal := t == '1', legacyWindows := lw == '1' }
  | _ => none

def decSeg (s : String) : Option Seg :=
  match s.splitOn "," with
  | [t, st, c] => do
    let st ← if st == "-" then some none else st.toNat?.map some
    pure { text := decStr t, style := st, control := decBool c }
  | _ => none

def decSegs (s : String) : Option (List Seg) :=
  match s.splitOn "#" with
  | [n, body] => if n == "0" then some [] else (body.splitOn ";").mapM decSeg
  | _ => none

def decOp (s : String) : Option Op :=
  match s.splitOn "@" with
  | ["N", st] => (decStyle st).map .newStyle
  | ["C", i] => i.toNat?.map .copy
  | ["U", i, l] => do
    let i ← i.toNat?
    let l ← decOptS l
    pure (.updateLink i l)
  | ["R", cfg, segs] => do
    let cfg ← decConfig cfg
    let segs ← decSegs segs
    pure (.render cfg segs)
  | ["S", i, cs, lw, t] => do
    let i ← i.toNat?
    let cs ← decSystem cs
    pure (.styleRender i (decStr t) cs (decBool lw))
  | _ => none

def decOptBool (s : String) : Option (Option Bool) :=
  match s with
  | "-" => some none
  | "0" => some (some false)
  | "1" => some (some true)
  | _ => none

def decPOp (s : String) : Option POp :=
  match s.splitOn "@" with
  | ["P", cfg, width, csoft, style, crop, soft, segs] => do
    let cfg ← decConfig cfg
    let width ← width.toNat?
    let style ← if style == "-" then some none else style.toNat?.map some
    let soft ← decOptBool soft
    let segs ← decSegs segs
    pure (.print cfg { width := width, softWrap := decBool csoft } { segs := segs, style := style, crop := decBool crop, softWrap := soft })
  | _ => (decOp s).map .op

def decOps (s : String) : Option (List POp) :=
  if s.isEmpty then some [] else (s.splitOn "~").mapM decPOp

/-- `cell_len`'s per-character width: rich's own table (translated on every run). -/
def cw : Char → Nat := charWidthT Gen.cellWidths

structure Flags where
  v : RVariant
  cc : Cfg

def decFlags (s : String) : Option Flags :=
  match s.toList.map (· == '1') with
  | [a, b, c] => some ⟨⟨a, b⟩, { stdViaPalette := c, satExc := satExcDouble }⟩
  | _ => none

/-! ### encoders -/

def encErr : RenderErr → String
  | .py .assertionError => "err:AssertionError"
  | .py .indexError => "err:IndexError"
  | .py .valueError => "err:ValueError"
  | .badRef => "unmodelled"

def encTok : Tok → String
  | .text s => "T" ++ encStr s
  | .sgr ps => "G" ++ ".".intercalate (ps.map toString)
  | .osc8 p u => "L" ++ encStr p ++ "/" ++ encStr u

def encToks (ts : List Tok) : String := ";".intercalate ((normalise ts).map encTok)

def decTok (s : String) : Option Tok :=
  if s.startsWith "T" then some (.text (decStr (s.drop 1).toString))
  else if s.startsWith "G" then
    let body := (s.drop 1).toString
    if body.isEmpty then some (.sgr []) else ((body.splitOn ".").mapM String.toNat?).map .sgr
  else if s.startsWith "L" then
    match ((s.drop 1).toString).splitOn "/" with
    | [p, u] => some (.osc8 (decStr p) (decStr u))
    | _ => none
  else none

def decToks (s : String) : Option (List Tok) :=
  if s.isEmpty then some [] else (s.splitOn ";").mapM decTok

def encTermColor : TermColor → String
  | .default => "d"
  | .indexed n => "i" ++ toString n
  | .rgb r g b => "r" ++ toString r ++ "_" ++ toString g ++ "_" ++ toString b

def b2n (b : Bool) (k : Nat) : Nat := if b then 2 ^ k else 0

def rendMask (r : Rendition) : Nat :=
  b2n r.bold 0 + b2n r.dim 1 + b2n r.italic 2 + b2n r.underline 3 + b2n r.blink 4 + b2n r.blink2 5 +
  b2n r.reverse 6 + b2n r.conceal 7 + b2n r.strike 8 + b2n r.underline2 9 + b2n r.frame 10 +
  b2n r.encircle 11 + b2n r.overline 12

def encLook (r : Rendition) (l : Option (List Char)) : String :=
  toString (rendMask r) ++ "|" ++ encTermColor r.fg ++ "|" ++ encTermColor r.bg ++ "|" ++
    (match l with | none => "-" | some u => "=" ++ encStr u)

/-- Group consecutive cells with the same look. -/
def runs : List Cell → List (List Char × Rendition × Option (List Char))
  | [] => []
  | c :: rest =>
    match runs rest with
    | (s, r, l) :: more =>
      if r = c.rend ∧ l = c.link then (c.char :: s, r, l) :: more
      else ([c.char], c.rend, c.link) :: (s, r, l) :: more
    | [] => [([c.char], c.rend, c.link)]

def encCells (cs : List Cell) : String :=
  ";".intercalate ((runs cs).map fun (s, r, l) => encStr s ++ "|" ++ encLook r l)

def encInterp (ts : List Tok) : String :=
  let r := interpFrom {} ts
  encCells r.2 ++ "!" ++ encLook r.1.rend r.1.link

def encOptS : Option (List Char) → String
  | none => "-"
  | some l => "=" ++ encStr l

def encType : ColorType → String
  | .default => "0" | .standard => "1" | .eightBit => "2" | .truecolor => "3" | .windows => "4"

def encColor : Option Color → String
  | none => "-"
  | some c => encStr c.name ++ "/" ++ encType c.type ++ "/" ++ (match c.number with | none => "-" | some n => toString n) ++ "/" ++
      (match c.triplet with | none => "-" | some t => toString t.red ++ "." ++ toString t.green ++ "." ++ toString t.blue)

/-- attributes are reported masked by `set_attributes`, as the harness reads them off the public properties -/
def encStyleV (s : Style) : String :=
  "|".intercalate [encColor s.color, encColor s.bgcolor, toString (s.attributes &&& s.setAttributes), toString s.setAttributes,
    encOptS s.link, if s.isNull then "1" else "0"]

def encBufSeg (heap : Heap) (seg : Seg) : String :=
  encStr seg.text ++ "," ++ (if seg.control then "1" else "0") ++ "," ++
    (match segStyle heap seg with | none => "-" | some st => encStyleV st)

def encBuf (heap : Heap) (segs : List Seg) : String :=
  toString segs.length ++ "#" ++ ";".intercalate (segs.map (encBufSeg heap))

/-! ### the history runner with a per-op view -/

/-- Like `runOps`, but hands every writing op its tokens together with the heap *before* the op
(needed by `expectedCells`) and the op itself. -/
def runView (f : Flags) : Heap → List POp → List (Except RenderErr (Heap × POp × List Tok))
  | _, [] => []
  | heap, op :: rest =>
    match stepPOp f.v f.cc richPalettes cw heap op with
    | .error e => [.error e]
    | .ok (heap', none) => runView f heap' rest
    | .ok (heap', some toks) => .ok (heap, op, toks) :: runView f heap' rest

def expectedOf (f : Flags) (heap : Heap) : POp → List Cell
  | .op (.render cfg segs) => expectedCells f.cc richPalettes cfg heap segs
  | .op (.styleRender i text cs lw) =>
    let e := expected f.cc richPalettes ⟨cs, false, true, lw⟩ ((heap[i]?).map (·.style))
    text.map fun c => ⟨c, e.1, e.2⟩
  | .print cfg env p =>
    match printBuffer cw env heap p with
    | .ok (buffer, heap1) => expectedCells f.cc richPalettes cfg heap1 buffer
    | .error _ => []
  | _ => []

def bufOf (heap : Heap) : POp → String
  | .print _ env p =>
    match printBuffer cw env heap p with
    | .ok (buffer, heap1) => "ok " ++ encBuf heap1 buffer
    | .error _ => "unmodelled"
  | _ => "-"

def history (view : Flags → Heap → POp → List Tok → String) : List String → String
  | [flags, ops] =>
    match decFlags flags, decOps ops with
    | some f, some ops =>
      let rs := runView f [] ops
      if rs.any (fun r => match r with | .error .badRef => true | _ => false) then "unmodelled"
      else "~".intercalate (rs.map fun r =>
        match r with
        | .ok (heap, op, toks) => view f heap op toks
        | .error e => encErr e)
    | _, _ => "unmodelled"
  | _ => "bad-args"

def handlers : List (String × (List String → String)) := [
  ("c03_chars", history fun _ _ _ toks => "ok " ++ encStr (serialise toks)),
  ("c03_toks", history fun _ _ _ toks => "ok " ++ encToks toks),
  ("c03_cells", history fun _ _ _ toks => "ok " ++ encInterp toks),
  ("c03_expected", history fun f heap op _ => "ok " ++ encCells (expectedOf f heap op)),
  ("c03_pbuf", history fun _ heap op _ => bufOf heap op),
  ("c03_tokenize", fun a => match a with
    | [cs] => encToks (tokenize (decStr cs))
    | _ => "bad-args"),
  ("c03_interp", fun a => match a with
    | [ts] => match decToks ts with
      | some ts => encInterp ts
      | none => "unmodelled"
    | _ => "bad-args")
]

end RichModel.Drv.C03
