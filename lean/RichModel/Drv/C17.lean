import RichModel.Model.Cells
import RichModel.Model.Syntax
import RichModel.Model.SyntaxWrap
import RichModel.Model.SyntaxTrace
import RichModel.Gen.CellWidths
import RichModel.Drv.Proto
/- Driver handlers for property C17 (Syntax / Traceback line fidelity). -/
namespace RichModel.Drv.C17
open RichModel RichModel.Proto RichModel.Syntax

def cw : Char → Nat := charWidthT Gen.cellWidths

def decRange (s : String) : Option (Int × Int) :=
  if s == "-" then none
  else match s.splitOn "," with
    | [a, b] => some (decInt a, decInt b)
    | _ => none

def decNatList (s : String) : List Nat :=
  if s.isEmpty then [] else (s.splitOn " ").map decNat

def encErr : Err → String
  | .runtimeStopIteration => "err:RuntimeError"
  | .zeroDivision => "err:ZeroDivisionError"

def encLinesRes : Except Err (List Line) → String
  | .error e => encErr e
  | .ok ls => "ok:" ++ encStrList ls

def decOptStr (s : String) : Option (List Char) := if s == "-" then none else some (decStr (s.drop 1).toString)

/-- option block of `syn_render`: 14 fields (`dedented` = "-" or "=" followed by the code points). -/
def decOpts : List String → Option Opts
  | [ln, start, range, hl, cwid, ts, ww, ig, mw, nw, lw, asc, pad, ded] =>
    some { lineNumbers := decBool ln, startLine := decNat start, lineRange := decRange range,
           highlightLines := decNatList hl, codeWidth := decOptNat cwid, tabSize := decNat ts,
           wordWrap := decBool ww, indentGuides := decBool ig, maxWidth := decNat mw,
           optNoWrap := decBool nw, legacyWindows := decBool lw, asciiOnly := decBool asc, pad := decBool pad,
           dedented := decOptStr ded }
  | _ => none

/-- the eight variant flags of the Text/Wrap models (C05/C02), as their harness sends them -/
def decWV (s : String) : Option Wrap.WVariant :=
  match s.toList with
  | [a, b, c, d, e, f, g, h] => some ⟨⟨a == '1', b == '1', c == '1', d == '1', e == '1', f == '1'⟩, g == '1', h == '1'⟩
  | _ => none


/-- frames as `file,lineno;file,lineno` ("" = none) -/
def decFrames (s : String) : List Frame :=
  if s.isEmpty then [] else (s.splitOn ";").filterMap (fun t => match t.splitOn "," with
    | [f, l] => some { file := decNat f, lineno := decNat l }
    | _ => none)

def encFrames (fs : List Frame) : String := ";".intercalate (fs.map (fun f => s!"{f.file},{f.lineno}"))

/-- an exception tree in prefix form, blank-separated: `-` = None, else
`N name truthy hasTb suppress isSyn frames <cause> <context>` -/
def parseExc : Nat → List String → Option (Option Exc × List String)
  | 0, _ => none
  | _ + 1, [] => none
  | fuel + 1, tok :: rest =>
    if tok == "-" then some (none, rest)
    else match rest with
      | name :: t :: h :: sp :: sy :: frs :: rest =>
        match parseExc fuel rest with
        | some (c, rest) =>
          match parseExc fuel rest with
          | some (x, rest) =>
            some (some (.mk (decNat name) (decFrames (if frs == "." then "" else frs)) (decBool t) (decBool h) (decBool sp) (decBool sy) c x), rest)
          | none => none
        | none => none
      | _ => none

def decExc (s : String) : Option Exc :=
  let toks := s.splitOn " "
  match parseExc (toks.length + 1) toks with
  | some (some e, []) => some e
  | _ => none

def encStack (st : Stack) : String := s!"{st.name}:{encBool st.isCause}:{encBool st.isSyn}:{encFrames st.frames}"

def encItem : Item → String
  | .panel fs => "P " ++ encFrames fs
  | .synPanel => "S"
  | .excLine n syn => s!"E {n} {encBool syn}"
  | .link d => "L " ++ encBool d

def encFrameItem : FrameItem → String
  | .blank => "B"
  | .header f l => s!"H {f} {l}"
  | .syntax code l k => s!"X {l} {encBool k} {encStr code}"
  | .error => "E"

def handlers : List (String × (List String → String)) := [
  -- the whole of console.render(Syntax(...), options): rows of characters
  ("syn_render", fun a => match a with
    | code :: found :: toks :: skipRaises :: rangePop :: wflags :: rest =>
      match decOpts rest, decWV wflags with
      | some o, some wv =>
        let toks := decStrList toks
        let lex : List Char → List Line := fun _ => toks
        let code := decStr code
        match renderW wv cw (decBool skipRaises) (decBool rangePop) o (decBool found) lex code with
        | none => "unmodelled"
        | some r => encLinesRes r
      | _, _ => "bad-args"
    | _ => "bad-args"),
  -- the lexer contract: tokens.flatten = pygPre stripnl (expandTabs ts code)
  ("syn_contract", fun a => match a with
    | [code, ts, stripnl, toks] =>
      encBool ((decStrList toks).flatten == pygPre (decBool stripnl) (expandTabs (decNat ts) (decStr code)))
    | _ => "bad-args"),
  ("syn_highlight", fun a => match a with
    | [code, found, toks, range, skipRaises] =>
      match highlight (decBool skipRaises) (decBool found) (decStrList toks) (decStr code) (decRange range) with
      | .error e => encErr e
      | .ok t => "ok:" ++ encStr t
    | _ => "bad-args"),
  -- Syntax.highlight with styles: tokens are `text` list + parallel style ids; answer = chars, then per-char ids (0 = no token style)
  ("syn_highlight_styles", fun a => match a with
    | [code, found, toks, ids, range, skipRaises] =>
      let ts := (decStrList toks).zip (decNatList ids)
      match highlightStyled (decBool skipRaises) (decBool found) ts (decStr code) (decRange range) with
      | .error e => encErr e
      | .ok st => "ok:" ++ encStr (st.map (·.1)) ++ "|" ++ " ".intercalate (st.map (fun p => toString (match p.2 with | some i => i + 1 | none => 0)))
    | _ => "bad-args"),
  ("syn_expandtabs", fun a => match a with
    | [s, ts] => encStr (expandTabs (decNat ts) (decStr s))
    | _ => "bad-args"),
  ("syn_pygpre", fun a => match a with
    | [s, stripnl] => encStr (pygPre (decBool stripnl) (decStr s))
    | _ => "bad-args"),
  ("syn_natstr", fun a => match a with
    | [n] => encStr (natStr (decNat n))
    | _ => "bad-args"),
  ("syn_ncw", fun a => match a with
    | [code, ln, start] =>
      let o : Opts := { lineNumbers := decBool ln, startLine := decNat start, lineRange := none, highlightLines := [],
                        codeWidth := none, tabSize := 4, wordWrap := false, indentGuides := false, maxWidth := 80,
                        optNoWrap := false, legacyWindows := false, asciiOnly := false, pad := false }
      toString (numbersColumnWidth o (decStr code))
    | _ => "bad-args"),
  ("syn_measure", fun a => match a with
    | [code, ln, start, cwid, mw] =>
      let o : Opts := { lineNumbers := decBool ln, startLine := decNat start, lineRange := none, highlightLines := [],
                        codeWidth := decOptNat cwid, tabSize := 4, wordWrap := false, indentGuides := false, maxWidth := decNat mw,
                        optNoWrap := false, legacyWindows := false, asciiOnly := false, pad := false }
      let m := measureV true o (decStr code) (decNat mw)
      toString m.1 ++ "," ++ toString m.2
    | [code, ln, start, cwid, mw, short] =>   -- with the variant flag (1 = as found: one short with numbers + code_width)
      let o : Opts := { lineNumbers := decBool ln, startLine := decNat start, lineRange := none, highlightLines := [],
                        codeWidth := decOptNat cwid, tabSize := 4, wordWrap := false, indentGuides := false, maxWidth := decNat mw,
                        optNoWrap := false, legacyWindows := false, asciiOnly := false, pad := false }
      let m := measureV (decBool short) o (decStr code) (decNat mw)
      toString m.1 ++ "," ++ toString m.2
    | _ => "bad-args"),
  ("syn_textsplit", fun a => match a with
    | [s, allowBlank] => encStrList (textSplit (decStr s) (decBool allowBlank))
    | _ => "bad-args"),
  ("syn_remove_suffix", fun a => match a with
    | [s] => encStr (removeSuffixNL (decStr s))
    | _ => "bad-args"),
  ("syn_guides", fun a => match a with
    | [ts, lines, rangePop] => encLinesRes (indentGuides (decBool rangePop) (decNat ts) (decStrList lines))
    | _ => "bad-args"),
  ("syn_slice", fun a => match a with
    | [lines, lo, hi] => encStrList (pySlice (decStrList lines) (decNat lo) (decInt hi))
    | _ => "bad-args"),
  ("syn_fit", fun a => match a with
    | [l, w, pad, noCrop] =>
      let l := decStr l
      if !lineInDomain cw (decNat w) false l then "unmodelled"
      else encStr (fitLine cw (decNat w) (decBool pad) (decBool noCrop) l)
    | _ => "bad-args"),
  -- Traceback.extract: the stacks (newest first) of an exception tree
  ("tb_extract", fun a => match a with
    | [exc] => match decExc exc with
      | some e => "|".intercalate ((extract false e).map encStack)
      | none => "bad-args"
    | _ => "bad-args"),
  -- Traceback.__rich_console__ after extract: the renderables in order
  ("tb_items", fun a => match a with
    | [exc] => match decExc exc with
      | some e => "|".intercalate ((renderException e).map encItem)
      | none => "bad-args"
    | _ => "bad-args"),
  -- Traceback.__rich_console__ on given stacks (name:isCause:isSyn:frames|…)
  ("tb_render_stacks", fun a => match a with
    | [stacks] =>
      let sts : List Stack := if stacks.isEmpty then [] else (stacks.splitOn "|").filterMap (fun t => match t.splitOn ":" with
        | [n, c, sy, fr] => some { name := decNat n, isCause := decBool c, isSyn := decBool sy, frames := decFrames fr }
        | _ => none)
      "|".intercalate ((renderTrace sts).map encItem)
    | _ => "bad-args"),
  -- Traceback._render_stack: per file (special, known, readable, content), the frames -> what is yielded
  ("tb_stack", fun a => match a with
    | [g, specials, knowns, readables, contents, frames] =>
      let sp := decNatList specials
      let kn := decNatList knowns
      let rd := decNatList readables
      let cs := decStrList contents
      let fs : FileId → Option (List Char) := fun i => if rd.getD i 0 == 1 then some (cs.getD i []) else none
      "|".intercalate ((renderStack (decBool g) (fun i => sp.getD i 0 == 1) (fun i => kn.getD i 0 == 1) fs (decFrames frames)).map encFrameItem)
    | _ => "bad-args"),
  ("tb_syntax_error", fun a => match a with
    | [text, offset] => encStrList (syntaxErrorRows (decStr text) (decInt offset))
    | _ => "bad-args"),
  -- Traceback._render_stack: the code each frame's Syntax is built from, given the files' contents NOW
  ("tb_codes", fun a => match a with
    | [contents, frames] =>
      let cs := decStrList contents
      let fs : FileId → List Char := fun i => cs.getD i []
      encStrList (stackCodesFrom fs [] (decNatList frames)).1
    | _ => "bad-args"),
  -- Traceback._render_stack: the options of the Syntax built for a frame
  ("tb_opts", fun a => match a with
    | [lineno, extra, ww, ig] =>
      let o := tracebackOpts (decNat lineno) (decNat extra) (decBool ww) (decBool ig) 100 false false false false
      let r := match o.lineRange with
        | some (s, e) => toString s ++ "," ++ toString e
        | none => "-"
      s!"{encBool o.lineNumbers};{o.startLine};{r};{" ".intercalate (o.highlightLines.map toString)};{encOptNat o.codeWidth};{o.tabSize};{encBool o.wordWrap};{encBool o.indentGuides}"
    | _ => "bad-args")
]

end RichModel.Drv.C17
