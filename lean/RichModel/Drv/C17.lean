import RichModel.Model.Cells
import RichModel.Model.Syntax
import RichModel.Model.SyntaxWrap
import RichModel.Gen.CellWidths
import RichModel.Drv.Proto
/- Driver handlers for property C17 (Syntax / Traceback line fidelity). -/
namespace RichModel.Drv.C17
open RichModel RichModel.Proto RichModel.Syntax

def cw : Char → Nat := charWidthT Gen.cellWidths

def decRange (s : String) : Option (Int × Int) :=
  if s == "-" then none
  else match s.splitOn "," with
    | [a, b] => some (decInt a, decInt b)
    | _ => none

def decNatList (s : String) : List Nat :=
  if s.isEmpty then [] else (s.splitOn " ").map decNat

def encErr : Err → String
  | .runtimeStopIteration => "err:RuntimeError"
  | .zeroDivision => "err:ZeroDivisionError"

def encLinesRes : Except Err (List Line) → String
  | .error e => encErr e
  | .ok ls => "ok:" ++ encStrList ls

def decOptStr (s : String) : Option (List Char) := if s == "-" then none else some (decStr (s.drop 1).toString)

/-- option block of `syn_render`: 14 fields (`dedented` = "-" or "=" followed by the code points). -/
def decOpts : List String → Option Opts
  | [ln, start, range, hl, cwid, ts, ww, ig, mw, nw, lw, asc, pad, ded] =>
    some { lineNumbers := decBool ln, startLine := decNat start, lineRange := decRange range,
           highlightLines := decNatList hl, codeWidth := decOptNat cwid, tabSize := decNat ts,
           wordWrap := decBool ww, indentGuides := decBool ig, maxWidth := decNat mw,
           optNoWrap := decBool nw, legacyWindows := decBool lw, asciiOnly := decBool asc, pad := decBool pad,
           dedented := decOptStr ded }
  | _ => none

/-- the eight variant flags of the Text/Wrap models (C05/C02), as their harness sends them -/
def decWV (s : String) : Option Wrap.WVariant :=
  match s.toList with
  | [a, b, c, d, e, f, g, h] => some ⟨⟨a == '1', b == '1', c == '1', d == '1', e == '1', f == '1'⟩, g == '1', h == '1'⟩
  | _ => none

def handlers : List (String × (List String → String)) := [
  -- the whole of console.render(Syntax(...), options): rows of characters
  ("syn_render", fun a => match a with
    | code :: found :: toks :: skipRaises :: rangePop :: wflags :: rest =>
      match decOpts rest, decWV wflags with
      | some o, some wv =>
        let toks := decStrList toks
        let lex : List Char → List Line := fun _ => toks
        let code := decStr code
        match renderW wv cw (decBool skipRaises) (decBool rangePop) o (decBool found) lex code with
        | none => "unmodelled"
        | some r => encLinesRes r
      | _, _ => "bad-args"
    | _ => "bad-args"),
  -- the lexer contract: tokens.flatten = pygPre stripnl (expandTabs ts code)
  ("syn_contract", fun a => match a with
    | [code, ts, stripnl, toks] =>
      encBool ((decStrList toks).flatten == pygPre (decBool stripnl) (expandTabs (decNat ts) (decStr code)))
    | _ => "bad-args"),
  ("syn_highlight", fun a => match a with
    | [code, found, toks, range, skipRaises] =>
      match highlight (decBool skipRaises) (decBool found) (decStrList toks) (decStr code) (decRange range) with
      | .error e => encErr e
      | .ok t => "ok:" ++ encStr t
    | _ => "bad-args"),
  -- Syntax.highlight with styles: tokens are `text` list + parallel style ids; answer = chars, then per-char ids (0 = no token style)
  ("syn_highlight_styles", fun a => match a with
    | [code, found, toks, ids, range, skipRaises] =>
      let ts := (decStrList toks).zip (decNatList ids)
      match highlightStyled (decBool skipRaises) (decBool found) ts (decStr code) (decRange range) with
      | .error e => encErr e
      | .ok st => "ok:" ++ encStr (st.map (·.1)) ++ "|" ++ " ".intercalate (st.map (fun p => toString (match p.2 with | some i => i + 1 | none => 0)))
    | _ => "bad-args"),
  ("syn_expandtabs", fun a => match a with
    | [s, ts] => encStr (expandTabs (decNat ts) (decStr s))
    | _ => "bad-args"),
  ("syn_pygpre", fun a => match a with
    | [s, stripnl] => encStr (pygPre (decBool stripnl) (decStr s))
    | _ => "bad-args"),
  ("syn_natstr", fun a => match a with
    | [n] => encStr (natStr (decNat n))
    | _ => "bad-args"),
  ("syn_ncw", fun a => match a with
    | [code, ln, start] =>
      let o : Opts := { lineNumbers := decBool ln, startLine := decNat start, lineRange := none, highlightLines := [],
                        codeWidth := none, tabSize := 4, wordWrap := false, indentGuides := false, maxWidth := 80,
                        optNoWrap := false, legacyWindows := false, asciiOnly := false, pad := false }
      toString (numbersColumnWidth o (decStr code))
    | _ => "bad-args"),
  ("syn_measure", fun a => match a with
    | [code, ln, start, cwid, mw] =>
      let o : Opts := { lineNumbers := decBool ln, startLine := decNat start, lineRange := none, highlightLines := [],
                        codeWidth := decOptNat cwid, tabSize := 4, wordWrap := false, indentGuides := false, maxWidth := decNat mw,
                        optNoWrap := false, legacyWindows := false, asciiOnly := false, pad := false }
      let m := measureV true o (decStr code) (decNat mw)
      toString m.1 ++ "," ++ toString m.2
    | [code, ln, start, cwid, mw, short] =>   -- with the variant flag (1 = as found: one short with numbers + code_width)
      let o : Opts := { lineNumbers := decBool ln, startLine := decNat start, lineRange := none, highlightLines := [],
                        codeWidth := decOptNat cwid, tabSize := 4, wordWrap := false, indentGuides := false, maxWidth := decNat mw,
                        optNoWrap := false, legacyWindows := false, asciiOnly := false, pad := false }
      let m := measureV (decBool short) o (decStr code) (decNat mw)
      toString m.1 ++ "," ++ toString m.2
    | _ => "bad-args"),
  ("syn_textsplit", fun a => match a with
    | [s, allowBlank] => encStrList (textSplit (decStr s) (decBool allowBlank))
    | _ => "bad-args"),
  ("syn_remove_suffix", fun a => match a with
    | [s] => encStr (removeSuffixNL (decStr s))
    | _ => "bad-args"),
  ("syn_guides", fun a => match a with
    | [ts, lines, rangePop] => encLinesRes (indentGuides (decBool rangePop) (decNat ts) (decStrList lines))
    | _ => "bad-args"),
  ("syn_slice", fun a => match a with
    | [lines, lo, hi] => encStrList (pySlice (decStrList lines) (decNat lo) (decInt hi))
    | _ => "bad-args"),
  ("syn_fit", fun a => match a with
    | [l, w, pad, noCrop] =>
      let l := decStr l
      if !lineInDomain cw (decNat w) false l then "unmodelled"
      else encStr (fitLine cw (decNat w) (decBool pad) (decBool noCrop) l)
    | _ => "bad-args"),
  ("tb_syntax_error", fun a => match a with
    | [text, offset] => encStrList (syntaxErrorRows (decStr text) (decInt offset))
    | _ => "bad-args"),
  -- Traceback._render_stack: the code each frame's Syntax is built from, given the files' contents NOW
  ("tb_codes", fun a => match a with
    | [contents, frames] =>
      let cs := decStrList contents
      let fs : FileId → List Char := fun i => cs.getD i []
      encStrList (stackCodesFrom fs [] (decNatList frames)).1
    | _ => "bad-args"),
  -- Traceback._render_stack: the options of the Syntax built for a frame
  ("tb_opts", fun a => match a with
    | [lineno, extra, ww, ig] =>
      let o := tracebackOpts (decNat lineno) (decNat extra) (decBool ww) (decBool ig) 100 false false false false
      let r := match o.lineRange with
        | some (s, e) => toString s ++ "," ++ toString e
        | none => "-"
      s!"{encBool o.lineNumbers};{o.startLine};{r};{" ".intercalate (o.highlightLines.map toString)};{encOptNat o.codeWidth};{o.tabSize};{encBool o.wordWrap};{encBool o.indentGuides}"
    | _ => "bad-args")
]

end RichModel.Drv.C17
