import RichModel.Model.Layout
import RichModel.Gen.CellWidths
import RichModel.Drv.Proto
import RichModel.Drv.C02
/-
Driver handlers for properties C01 and C09 (the composition layer, `Model/Layout.lean`).

Requests
  layout_render   <flags> <env> <opts> <width> <tree>   ->  ok:<code points of the concatenated segment text>  | unmodelled
  layout_measure  <flags> <env> <width> <tree>          ->  m:<min>,<max>                                      | unmodelled
  layout_smin     <tree>                                ->  <n>                                                | unmodelled
  layout_text_spec [<splitlines 0|1>] <flags> <text> <width>  ->  <min>,<max>,<wrapped 0|1|E>   (Text.__rich_measure__ and "rendered at w, is any paragraph divided?")

  flags = frames variant bitmask (as Drv/C08) , the Text/Wrap flags (as Drv/C02 `decWVariant?`) , the table flags (three to seven, by position)   e.g. `0,00000000,0000000` (all repaired: what the harness sends for /repo)
  env   = consoleWidth,ascii,legacy,safe,nocolor,colorsystem
  opts  = justify overflow nowrap (one character each, as Drv/C02: N d l c r f / N f c e i / N 0 1) joined by `,`
  tree  = prefix tokens joined by `|` (see `parseR`); a text token is the wire format of Drv/C02 (`decText?`)

Static domain (anything else answers `unmodelled`): every text is consistent (`Text.Inv`), rule titles are one-line simple
texts, box names exist, tables have the same number of cells in every column, a `cast` does not directly wrap another `cast`.
Dynamic domain: every request is evaluated under two different poisons (see Model/Layout.lean) and answers `unmodelled` when the
results differ.
-/
namespace RichModel.Drv.C01
open RichModel RichModel.Proto RichModel.Frames RichModel.Layout

def cw : Char → Nat := charWidthT Gen.cellWidths

def decOptNat' (s : String) : Option Nat := if s == "-" then none else s.toNat?
def decOptInt (s : String) : Option Int := if s == "-" then none else s.toInt?
def decOptBool (s : String) : Option Bool := if s == "-" then none else some (s == "1")
def decAlign (s : String) : AlignM := if s == "l" then .left else if s == "r" then .right else .center
def decOptAlign (s : String) : Option AlignM := if s == "-" then none else some (decAlign s)

def decJ (s : String) : Justify :=
  match s with | "l" => .left | "c" => .center | "r" => .right | "f" => .full | _ => .default
def decO (s : String) : RichModel.Overflow :=
  match s with | "c" => .crop | "e" => .ellipsis | "i" => .ignore | _ => .fold

def decOptText (s : String) : Option (Option T) := if s == "-" then some none else (C02.decText? s).map some

def decEnv (s : String) : Env :=
  match s.splitOn "," with
  | [w, a, l, sb, nc, cs] =>
    { consoleWidth := decNat w, asciiOnly := decBool a, legacyWindows := decBool l, safeBox := decBool sb,
      noColor := decBool nc, colorSystem := decNat cs }
  | _ => { consoleWidth := 80 }

def decOpts (s : String) : Option Opts :=
  match s.splitOn "," with
  | [j, o, n] => do pure { justify := ← C02.decJustify? j, overflow := ← C02.decOverflow? o, noWrap := ← C02.decOptBool? n }
  | _ => none

/-- bits 32 / 64 of the frames bitmask (as harness/props/c08.py): `titleAtConsoleWidth`, `ruleNoTitleEnd` -/
def decFrameBits (s : String) : Bool × Bool :=
  let n := decNat ((s.splitOn ",").headD "0")
  (n / 32 % 2 == 1, n / 64 % 2 == 1)

def decFlags (s : String) : Option (Frames.Variant × Wrap.WVariant × Flags) :=
  match (s.splitOn ",").take 3 with
  | [a, b, c] => do
    let n := decNat a
    let v : Frames.Variant := { zeroWidthChild := n % 2 == 1, ruleRightRepeat := n / 2 % 2 == 1,
                                rstripCountsChars := n / 4 % 2 == 1, columnsZeroCount := n / 8 % 2 == 1 }
    let wv ← C02.decWVariant? b
    -- table flags by position (leadingRepeat, minWidthCapsExpand, fixedRawMaximum, noColumnsAsserts, flexNegative, staleTableWidth,
    -- flexClampZero);
    -- a flag the request does not mention keeps the model's default (`true` = rich 9.10.0 as found); the harness sends all six
    let bit (i : Nat) (dflt : Bool) : Bool := match c.toList[i]? with | some ch => ch == '1' | none => dflt
    let d : Flags := {}
    if c.toList.length < 3 then none else
    pure (v, wv, { leadingRepeat := bit 0 d.leadingRepeat, minWidthCapsExpand := bit 1 d.minWidthCapsExpand,
                   fixedRawMaximum := bit 2 d.fixedRawMaximum, noColumnsAsserts := bit 3 d.noColumnsAsserts,
                   flexNegative := bit 4 d.flexNegative, staleTableWidth := bit 5 d.staleTableWidth,
                   flexClampZero := bit 6 d.flexClampZero })
  | _ => none

def takeNats : Nat → List String → Option (List Nat × List String)
  | 0, ts => some ([], ts)
  | n+1, t :: ts => (takeNats n ts).map (fun (l, r) => (decNat t :: l, r))
  | _+1, [] => none

def takeBools : Nat → List String → Option (List Bool × List String)
  | 0, ts => some ([], ts)
  | n+1, t :: ts => (takeBools n ts).map (fun (l, r) => (decBool t :: l, r))
  | _+1, [] => none

def boxIndex (name : String) : Option (Option Nat) :=
  if name == "-" then some none else (Gen.tableBoxes.findIdx? (·.1 == name)).map some

mutual
partial def parseR : List String → Option (R × List String)
  | "T" :: t :: ts => do
    let t ← C02.decText? t
    pure (.text t, ts)
  | "S" :: t :: ts => do
    let t ← C02.decText? t
    pure (.str t, ts)
  | "PAD" :: a :: b :: c :: d :: ex :: ts => do
    let (e, ts) ← parseR ts
    pure (.padding ⟨decNat a, decNat b, decNat c, decNat d⟩ (decBool ex) e, ts)
  | "PANEL" :: box :: title :: ta :: sb :: ex :: wd :: n :: ts => do
    let (dims, ts) ← takeNats (decNat n) ts
    let (e, ts) ← parseR ts
    pure (.panel { box := decNat box, title := decStr title, titleAlign := decAlign ta, safeBox := decOptBool sb,
                   expand := decBool ex, width := decOptInt wd, padding := dims } e, ts)
  | "ALIGN" :: a :: p :: wd :: ts => do
    let (e, ts) ← parseR ts
    pure (.align { align := decAlign a, pad := decBool p, width := decOptInt wd } e, ts)
  | "CON" :: wd :: ts => do
    let (e, ts) ← parseR ts
    pure (.constrain (decOptNat' wd) e, ts)
  | "STY" :: ts => do
    let (e, ts) ← parseR ts
    pure (.styled e, ts)
  | "CAST" :: ts => do
    let (e, ts) ← parseR ts
    pure (.cast e, ts)
  | "OPQ" :: ts => do
    let (e, ts) ← parseR ts
    pure (.opaque e, ts)
  | "GRP" :: fit :: n :: ts => do
    let (items, ts) ← parseRs (decNat n) ts
    pure (.group (decBool fit) items, ts)
  | "RULE" :: title :: chars :: e :: a :: ts =>
    some (.rule { title := decStr title, characters := decStr chars, endS := decStr e, align := decAlign a }, ts)
  | "BAR" :: sn :: sd :: bn :: bd :: en :: ed :: wd :: ts =>
    some (.bar { size := ⟨decInt sn, decNat sd⟩, beginV := ⟨decInt bn, decNat bd⟩, endV := ⟨decInt en, decNat ed⟩,
                 width := decOptInt wd }, ts)
  | "PBAR" :: tn :: td :: cn :: cd :: wd :: pu :: tmn :: tmd :: ts =>
    some (.progressBar { total := ⟨decInt tn, decNat td⟩, completed := ⟨decInt cn, decNat cd⟩, width := decOptInt wd,
                         pulse := decBool pu, time := ⟨decInt tmn, decNat tmd⟩ }, ts)
  | "TABLE" :: box :: sb :: sh :: sf :: se :: sl :: lead :: pt :: pr :: pb :: pl :: pe :: cp :: ex :: wd :: mw :: title :: cap :: tj :: cj
      :: nsec :: ts => do
    let box ← boxIndex box
    let (secs, ts) ← takeBools (decNat nsec) ts
    let title ← decOptText title
    let cap ← decOptText cap
    match ts with
    | ncols :: ts =>
      let (cols, ts) ← parseCols (decNat ncols) ts
      pure (.table { box := box, safeBox := decOptBool sb, showHeader := decBool sh, showFooter := decBool sf, showEdge := decBool se, showLines := decBool sl,
                     leading := decNat lead, padding := ⟨decNat pt, decNat pr, decNat pb, decNat pl⟩, padEdge := decBool pe,
                     collapsePadding := decBool cp, expand := decBool ex, width := decOptNat' wd, minWidth := decOptNat' mw,
                     title := title, caption := cap, titleJustify := decJ tj, captionJustify := decJ cj, rowEndSection := secs } cols, ts)
    | [] => none
  | "COLS" :: np :: ts => do
    let (dims, ts) ← takeNats (decNat np) ts
    match ts with
    | wd :: eq :: cf :: rtl :: ex :: al :: title :: n :: ts =>
      let title ← decOptText title
      let (items, ts) ← parseRs (decNat n) ts
      pure (.columns { lay := { padding := dims, width := decOptInt wd, equal := decBool eq, columnFirst := decBool cf,
                                rightToLeft := decBool rtl },
                       expand := decBool ex, align := decOptAlign al, title := title } items, ts)
    | _ => none
  | "TREE" :: ts => do
    let (t, ts) ← parseNode ts
    pure (.tree t, ts)
  | _ => none
partial def parseRs : Nat → List String → Option (List R × List String)
  | 0, ts => some ([], ts)
  | n+1, ts => do
    let (r, ts) ← parseR ts
    let (rest, ts) ← parseRs n ts
    pure (r :: rest, ts)
partial def parseCol : List String → Option (Col × List String)
  | "COL" :: j :: o :: nw :: wd :: mn :: mx :: ra :: ts => do
    let (h, ts) ← parseR ts
    let (f, ts) ← parseR ts
    match ts with
    | n :: ts =>
      let (cells, ts) ← parseRs (decNat n) ts
      pure (.mk { justify := decJ j, overflow := decO o, noWrap := decBool nw, width := decOptNat' wd, minWidth := decOptNat' mn,
                  maxWidth := decOptNat' mx, ratio := decOptNat' ra } h f cells, ts)
    | [] => none
  | _ => none
partial def parseCols : Nat → List String → Option (List Col × List String)
  | 0, ts => some ([], ts)
  | n+1, ts => do
    let (c, ts) ← parseCol ts
    let (rest, ts) ← parseCols n ts
    pure (c :: rest, ts)
partial def parseNode : List String → Option (TNode × List String)
  | "N" :: b :: u :: ex :: k :: ts => do
    let (label, ts) ← parseR ts
    let (children, ts) ← parseNodes (decNat k) ts
    pure (.mk label ⟨decOptBool b, decOptBool u⟩ (decBool ex) children, ts)
  | _ => none
partial def parseNodes : Nat → List String → Option (List TNode × List String)
  | 0, ts => some ([], ts)
  | n+1, ts => do
    let (t, ts) ← parseNode ts
    let (rest, ts) ← parseNodes n ts
    pure (t :: rest, ts)
end

def parseTree (s : String) : Option R :=
  match parseR (s.splitOn "|") with
  | some (r, []) => some r
  | _ => none

/-! ### the static domain -/

def titleOk (t : List Char) : Bool := (t.map (fun c => if c == '\n' then ' ' else c)).all simpleChar

def optTextOk (t : Option T) : Bool := match t with | none => true | some t => invB t

mutual
partial def staticOk (rz : Bool) (env : Env) : R → Bool
  | .text t => invB t
  | .str t => invB t
  | .padding _ _ c => staticOk rz env c
  | .panel o c =>
    (match unpackPad o.padding with | .ok _ => true | .error _ => false) && decide (0 ≤ o.width.getD 0)
      && (boxAt (substituteBox env (o.safeBox.getD env.safeBox) o.box)).isSome && staticOk rz env c
  | .align o c => decide (0 ≤ o.width.getD 0) && staticOk rz env c
  | .constrain _ c => staticOk rz env c
  | .styled c => staticOk rz env c
  | .cast c => (match c with | .cast _ => false | _ => true) && staticOk rz env c
  | .opaque c => staticOk rz env c
  | .group _ items => items.all (staticOk rz env)
  | .rule o => decide (1 ≤ cellLen cw o.characters) && titleOk o.title && !(o.title.contains '\t')
  | .bar o => decide (0 < o.size.den) && decide (0 < o.beginV.den) && decide (0 < o.endV.den) && !o.size.isZero
      && decide (0 ≤ o.width.getD 0)
  | .progressBar o => decide (0 < o.total.den) && decide (0 < o.completed.den) && decide (0 < o.time.den) && decide (0 ≤ o.width.getD 0)
  | .table o cols =>
    true
      && (match o.box with | some i => (boxOf i).isSome && (boxOf (substituteBox env (o.safeBox.getD env.safeBox) i)).isSome | none => true)
      && optTextOk o.title && optTextOk o.caption
      && (match cols with
          | [] => o.rowEndSection.isEmpty
          | (.mk _ _ _ cells) :: _ => cols.all (fun c => match c with | .mk _ _ _ cs => cs.length == cells.length)
                                        && o.rowEndSection.length == cells.length)
      && cols.all (fun c => match c with | .mk _ h f cs => staticOk rz env h && staticOk rz env f && cs.all (staticOk rz env))
  | .columns o items =>
    decide (0 ≤ o.lay.width.getD 0) && optTextOk o.title
      && (match unpackPad o.lay.padding with | .ok _ => true | .error _ => false) && items.all (staticOk rz env)
  | .tree root => nodeOk rz env root
partial def nodeOk (rz : Bool) (env : Env) : TNode → Bool
  | .mk label _ _ ch => staticOk rz env label && ch.all (nodeOk rz env)
end

def poisonA : List Seg := []
def poisonB : List Seg := [seg [Char.ofNat 0xE000], nl, seg [Char.ofNat 0xE001], nl]

def mkCfg (f : Frames.Variant × Wrap.WVariant × Flags) (env : Env) (poison : List Seg) (fb : Bool × Bool := (false, false)) : Cfg :=
  { cw := cw, env := env, v := f.1, wv := f.2.1, fl := f.2.2, titleAtConsoleWidth := fb.1, ruleNoTitleEnd := fb.2, poison := poison }

def flatText (segs : List Seg) : List Char := (segs.filter (fun s => !s.control)).flatMap (·.text)

def orUnmodelled (o : Option String) : String := o.getD "unmodelled"

def handlers : List (String × (List String → String)) := [
  ("layout_render", fun a => match a with
    | [flags, env, opts, width, tree] => orUnmodelled do
      let f ← decFlags flags
      let env := decEnv env
      let o ← decOpts opts
      let r ← parseTree tree
      if !staticOk true env r then none else
      let w := decInt width
      let a := consoleRender (mkCfg f env poisonA (decFrameBits flags)) r o w
      let b := consoleRender (mkCfg f env poisonB (decFrameBits flags)) r o w
      if a != b then none else pure ("ok:" ++ encStr (flatText a))
    | _ => "unmodelled"),
  ("layout_measure", fun a => match a with
    | [flags, env, width, tree] => orUnmodelled do
      let f ← decFlags flags
      let env := decEnv env
      let r ← parseTree tree
      if !staticOk true env r then none else
      let w := decInt width
      let a := measureGet (mkCfg f env poisonA (decFrameBits flags)) r w
      let b := measureGet (mkCfg f env poisonB (decFrameBits flags)) r w
      if a != b then none else pure s!"m:{a.minimum},{a.maximum}"
    | _ => "unmodelled"),
  ("layout_smin", fun a => match a with
    | [tree] => orUnmodelled do
      let r ← parseTree tree
      pure (toString (smin cw r))
    | _ => "unmodelled"),
  ("layout_text_spec", fun a => match a with
    | [flags, text, width] => orUnmodelled do
      let f ← decFlags flags
      let t ← C02.decText? text
      if !invB t then none else
      let m := textRichMeasure cw t
      let cfg := mkCfg f { consoleWidth := 80 } []
      let w := decNat width
      let nPar := (splitOnP (· == '\n') t.plain []).length
      let wrapped := match textLines cfg t {} w with
        | .ok ls => if ls.length == nPar then "0" else "1"
        | .error _ => "E"
      pure s!"{m.minimum},{m.maximum},{wrapped}"
    -- with the code-variant flag of finding `text-measure-splitlines` in front: 1 = `splitlines()` (as found), 0 = `split("\n")` (fixed)
    | [ms, flags, text, width] => orUnmodelled do
      let f ← decFlags flags
      let t ← C02.decText? text
      if !invB t then none else
      if ms != "0" && ms != "1" then none else
      let m := textRichMeasureV (ms == "1") cw t
      let cfg := mkCfg f { consoleWidth := 80 } []
      let w := decNat width
      let nPar := (splitOnP (· == '\n') t.plain []).length
      let wrapped := match textLines cfg t {} w with
        | .ok ls => if ls.length == nPar then "0" else "1"
        | .error _ => "E"
      pure s!"{m.minimum},{m.maximum},{wrapped}"
    | _ => "unmodelled")
]

end RichModel.Drv.C01
