import RichModel.Drv.Proto
/- Driver handlers for property C18 (stub: filled in when the model is built). -/
namespace RichModel.Drv.C18
open RichModel RichModel.Proto

def handlers : List (String × (List String → String)) := []

end RichModel.Drv.C18
