import RichModel.Drv.Proto
import RichModel.Model.Color
import RichModel.Model.ColorMore
/- Driver handlers for property C18 (colour down-conversion, SGR parameters, palette search).

Colour on the wire: `name<TAB>type<TAB>number<TAB>triplet` with name = code points, type = 0..4,
number = `-` | decimal, triplet = `-` | `r,g,b`.  Anything that does not parse as naturals (negative
numbers, floats) or a triplet component above 255 (float facts not validated there) is `unmodelled`. -/
namespace RichModel.Drv.C18
open RichModel RichModel.Proto

def P : Palettes := richPalettes

def decType : String → Option ColorType
  | "0" => some .default | "1" => some .standard | "2" => some .eightBit
  | "3" => some .truecolor | "4" => some .windows | _ => none

def decSystem : String → Option ColorSystem
  | "1" => some .standard | "2" => some .eightBit | "3" => some .truecolor | "4" => some .windows | _ => none

/-- `-` → `some none`; decimal → `some (some n)`; otherwise `none` (unmodelled). -/
def decOpt (s : String) : Option (Option Nat) :=
  if s == "-" then some none else s.toNat?.map some

def decTriplet (s : String) : Option (Option Triplet) :=
  if s == "-" then some none else
  match s.splitOn "," with
  | [r, g, b] =>
    match r.toNat?, g.toNat?, b.toNat? with
    | some r, some g, some b => if r ≤ 255 ∧ g ≤ 255 ∧ b ≤ 255 then some (some ⟨r, g, b⟩) else none
    | _, _, _ => none
  | _ => none

/-- `n:t|t|…` (n = 0: empty list). -/
def decTripletList (s : String) : Option (List Triplet) :=
  match s.splitOn ":" with
  | [n, body] =>
    if n == "0" then some [] else
      (body.splitOn "|").mapM (fun x => match decTriplet x with | some (some t) => some t | _ => none)
  | _ => none

def decOptTripletList (s : String) : Option (Option (List Triplet)) :=
  if s == "-" then some none else (decTripletList s).map some

def decColor (name ty num tri : String) : Option Color := do
  let t ← decType ty
  let n ← decOpt num
  let tr ← decTriplet tri
  pure { name := decStr name, type := t, number := n, triplet := tr }

def encErr : ColorErr → String
  | .assertionError => "err:AssertionError"
  | .indexError => "err:IndexError"
  | .valueError => "err:ValueError"

def encTriplet (t : Triplet) : String := s!"{t.red},{t.green},{t.blue}"

def encColor (c : Color) : String :=
  toString c.type.toNat ++ "|" ++ encOptNat c.number ++ "|" ++
    (match c.triplet with | none => "-" | some t => encTriplet t) ++ "|" ++ encStr c.name

def encRes {α : Type} (f : α → String) : Except ColorErr α → String
  | .ok a => "ok " ++ f a
  | .error e => encErr e

def cfgOf (flag : String) : Cfg := { Cfg.today with stdViaPalette := decBool flag }

def palOf : String → Option (List Triplet)
  | "s" => some P.standard | "w" => some P.windows | "e" => some P.eightBit | "t" => some P.ansiColors | _ => none

def handlers : List (String × (List String → String)) := [
  ("color.downgrade", fun a => match a with
    | [flag, name, ty, num, tri, sys] =>
      match decColor name ty num tri, decSystem sys with
      | some c, some s => encRes encColor (downgrade (cfgOf flag) P c s)
      | _, _ => "unmodelled"
    | _ => "bad-args"),
  ("color.ansi", fun a => match a with
    | [name, ty, num, tri, fg] =>
      match decColor name ty num tri with
      | some c => encRes (fun l => ",".intercalate (l.map toString)) (getAnsiCodes c (decBool fg))
      | none => "unmodelled"
    | _ => "bad-args"),
  ("color.truecolor", fun a => match a with
    | [name, ty, num, tri, fg] =>
      match decColor name ty num tri with
      | some c => encRes encTriplet (getTruecolor P c (decBool fg))
      | none => "unmodelled"
    | _ => "bad-args"),
  -- get_truecolor with an explicit TerminalTheme(bg, fg, normal, bright); lists are `n:t|t|…`, bright `-` = None
  ("color.truecolor_theme", fun a => match a with
    | [bg, fgc, normal, bright, name, ty, num, tri, fg] =>
      match decTriplet bg, decTriplet fgc, decTripletList normal, decOptTripletList bright, decColor name ty num tri with
      | some (some b), some (some f), some nl, some br, some c =>
        encRes encTriplet (getTruecolorT P (TerminalTheme.init b f nl br) c (decBool fg))
      | _, _, _, _, _ => "unmodelled"
    | _ => "bad-args"),
  -- ColorTriplet.hex
  ("color.hex", fun a => match a with
    | [tri] => match decTriplet tri with
      | some (some t) => encStr t.hex
      | _ => "unmodelled"
    | _ => "bad-args"),
  -- parse_rgb_hex on an ASCII string (non-ASCII: int() accepts Unicode digits/spaces, not modelled)
  ("color.parse_hex", fun a => match a with
    | [s] =>
      let cs := decStr s
      if cs.all (fun c => c.toNat < 128) then
        encRes (fun (r, g, b) => s!"{r},{g},{b}") (parseRgbHex cs)
      else "unmodelled"
    | _ => "bad-args"),
  -- blend_rgb(t1, t2, k / 2^n); admitted sizes keep the double computation exact
  ("color.blend", fun a => match a with
    | [t1, t2, k, n] =>
      match decTriplet t1, decTriplet t2, k.toInt?, n.toNat? with
      | some (some x), some (some y), some k, some n =>
        if n ≤ 40 ∧ k.natAbs < 2 ^ 40 then
          let (r, g, b) := blendRgb x y k n
          s!"{r},{g},{b}"
        else "unmodelled"
      | _, _, _, _ => "unmodelled"
    | _ => "bad-args"),
  -- blend_rgb in IEEE doubles: cross_fade = `f num sh` (num / 2^sh, exactly the double), `inf`, `-inf`, `nan`.
  -- Finite values outside 2^-900 ≤ |x| ≤ 2^900 (products could be subnormal or overflow) are unmodelled.
  ("color.blendf", fun a => match a with
    | [t1, t2, kind, num, sh] =>
      match decTriplet t1, decTriplet t2, num.toInt?, sh.toNat? with
      | some (some x), some (some y), some k, some n =>
        let cf : Option PyFloat :=
          if kind == "f" then
            (if k = 0 ∨ (2 ^ n ≤ k.natAbs * 2 ^ 900 ∧ k.natAbs ≤ 2 ^ (900 + n)) then some (.finite k n) else none)
          else if kind == "inf" then some .posInf else if kind == "-inf" then some .negInf
          else if kind == "nan" then some .nan else none
        match cf with
        | some cf =>
          (match blendRgbF x y cf with
           | .ok (r, g, b) => s!"ok {r},{g},{b}"
           | .error .overflowError => "err:Other:OverflowError"
           | .error .valueError => "err:ValueError")
        | none => "unmodelled"
      | _, _, _, _ => "unmodelled"
    | _ => "bad-args"),
  -- the exact-rational blend of one channel, cross_fade = num/den
  ("color.blendq", fun a => match a with
    | [c1, c2, num, den] =>
      match c1.toNat?, c2.toNat?, num.toInt?, den.toNat? with
      | some c1, some c2, some k, some d =>
        if c1 ≤ 255 ∧ c2 ≤ 255 ∧ 0 < d then toString (blendChannelQ c1 c2 k d) else "unmodelled"
      | _, _, _, _ => "unmodelled"
    | _ => "bad-args"),
  -- parse_rgb_hex on any string of code points (no surrogates: Lean's `Char` has none)
  ("color.parse_hexu", fun a => match a with
    | [s] =>
      if (s.splitOn " ").all (fun x => match x.toNat? with | some n => !(55296 ≤ n ∧ n ≤ 57343) | none => true) then
        encRes (fun (r, g, b) => s!"{r},{g},{b}") (parseRgbHexU (decStr s))
      else "unmodelled"
    | _ => "bad-args"),
  -- int(chr(cp) + chr(o), 16) and int(chr(o) + chr(cp), 16) for the 256 code points cp = base .. base + 255
  ("color.int16_block", fun a => match a with
    | [base, o] =>
      match base.toNat?, o.toNat? with
      | some base, some o =>
        if base + 255 < 1114112 ∧ ¬ (55296 ≤ base + 255 ∧ base ≤ 57343) ∧ o < 55296 then
          let enc : Except ColorErr Int → String := fun r => match r with | .ok v => toString v | .error _ => "e"
          " ".intercalate ((List.range 256).map (fun i =>
            enc (pyIntHex2U (Char.ofNat (base + i)) (Char.ofNat o)) ++ "/" ++ enc (pyIntHex2U (Char.ofNat o) (Char.ofNat (base + i)))))
        else "unmodelled"
      | _, _ => "unmodelled"
    | _ => "bad-args"),
  -- ColorTriplet.rgb
  ("color.rgbstr", fun a => match a with
    | [tri] => match decTriplet tri with
      | some (some t) => encStr t.rgbStr
      | _ => "unmodelled"
    | _ => "bad-args"),
  -- Color.system, Color.is_system_defined, Color.is_default
  ("color.props", fun a => match a with
    | [name, ty, num, tri] =>
      match decColor name ty num tri with
      | some c => s!"ok {c.system.toNat} {encBool c.isSystemDefined} {encBool c.isDefault}"
      | none => "unmodelled"
    | _ => "bad-args"),
  -- the saturation decision in exact arithmetic and whether (max, min) is a tabulated float exception
  ("color.satrat", fun a => match a with
    | [mx, mn] =>
      match mx.toNat?, mn.toNat? with
      | some M, some m =>
        if m ≤ M ∧ M ≤ 255 then
          encBool (satLowRat ⟨M, m, m⟩) ++ " " ++ encBool (satExcDouble.contains (M, m))
        else "unmodelled"
      | _, _ => "unmodelled"
    | _ => "bad-args"),
  -- Palette.match / Palette.__getitem__ on one of the translated palettes
  ("color.match", fun a => match a with
    | [pal, tri] =>
      match palOf pal, decTriplet tri with
      | some p, some (some t) => encRes toString (paletteMatch p t)
      | _, _ => "unmodelled"
    | _ => "bad-args"),
  ("color.palget", fun a => match a with
    | [pal, n] =>
      match palOf pal, n.toNat? with
      | some p, some n => encRes encTriplet (paletteGet p n)
      | _, _ => "unmodelled"
    | _ => "bad-args"),
  -- a block of 256 truecolor colours (r, g, 0..255) downgraded to `sys`: the 256 resulting numbers
  ("color.dg_block", fun a => match a with
    | [flag, r, g, sys] =>
      match r.toNat?, g.toNat?, decSystem sys with
      | some r, some g, some s =>
        if r ≤ 255 ∧ g ≤ 255 then
          " ".intercalate ((List.range 256).map (fun b =>
            match downgrade (cfgOf flag) P { name := [], type := .truecolor, number := none, triplet := some ⟨r, g, b⟩ } s with
            | .ok c => encOptNat c.number
            | .error e => encErr e))
        else "unmodelled"
      | _, _, _ => "unmodelled"
    | _ => "bad-args"),
  -- the floating point facts: saturation decision and grey level at (max, min); cube coordinate of a channel
  ("color.satgray", fun a => match a with
    | [mx, mn] =>
      match mx.toNat?, mn.toNat? with
      | some M, some m =>
        if m ≤ M ∧ M ≤ 255 then
          let t : Triplet := ⟨M, m, m⟩
          encBool (satLow Cfg.today.satExc t) ++ " " ++ toString (grayLevel t)
        else "unmodelled"
      | _, _ => "unmodelled"
    | _ => "bad-args"),
  ("color.cube", fun a => match a with
    | [c] => match c.toNat? with
      | some c => if c ≤ 255 then toString (cubeCoord c) else "unmodelled"
      | none => "unmodelled"
    | _ => "bad-args"),
  -- the integer under the square root of get_color_distance
  ("color.dist2", fun a => match a with
    | [t1, t2] =>
      match decTriplet t1, decTriplet t2 with
      | some (some x), some (some y) => toString (colorDist2 x y)
      | _, _ => "unmodelled"
    | _ => "bad-args")
]

end RichModel.Drv.C18
