import RichModel.Model.Theme
import RichModel.Model.ThemeThreads
import RichModel.Model.ThemeCtx
import RichModel.Model.ConfigParser
import RichModel.Drv.Proto
/- Driver handlers for property C20 (theme stack, get_style, Theme.config / from_file).

Styles are ids (σ := Nat).  Every request carries a table `names` of all strings it mentions
(style names and style definitions); dicts travel as `i=s,i=s` (i = index into `names`, s = style id).
`Style.parse` is given as a table aligned with `names`: `v<id>` | `S` (StyleSyntaxError) | `X` (other
exception).  A string the table does not cover parses to the sentinel id `missId`, which never
equals an implementation answer (so it surfaces as a mismatch, never as agreement).
-/
namespace RichModel.Drv.C20
open RichModel RichModel.Proto RichModel.Theme RichModel.Cfg

def missId : Nat := 999999999

abbrev D := Dict Nat

def splitNE (s : String) (sep : String) : List String := if s.isEmpty then [] else s.splitOn sep

def decDict (names : List Name) (s : String) : D :=
  (splitNE s ",").filterMap (fun kv =>
    match kv.splitOn "=" with
    | [k, v] => some (names.getD (decNat k) ['?'], decNat v)
    | _ => none)

def decPTable (names : List Name) (s : String) : Parse Nat :=
  let tbl : List String := splitNE s " "
  fun n =>
    match names.idxOf? n with
    | none => .ok missId
    | some i =>
      match (tbl.getD i "?").toList with
      | 'v' :: ds => .ok (decNat (String.ofList ds))
      | ['S'] => .error .syntaxError
      | ['X'] => .error .other
      | _ => .ok missId

def encName (names : List Name) (n : Name) : String :=
  match names.idxOf? n with
  | some i => toString i
  | none => "L" ++ encStr n

/-- dicts are dumped sorted by name (Python `sorted(d.items())`). -/
def encDict (names : List Name) (d : D) : String :=
  ",".intercalate ((sortItems d).map (fun p => encName names p.1 ++ "=" ++ toString p.2))

def encPErr : PErr → String
  | .syntaxError => "err:StyleSyntaxError"
  | .other => "err:Other"

def decSV (names : List Name) (s : String) : SV Nat :=
  match s.toList with
  | '#' :: ds => .style (decNat (String.ofList ds))
  | '~' :: ds => .str (names.getD (decNat (String.ofList ds)) ['?'])
  | _ => .str ['?']

def decItems (names : List Name) (s : String) : Option (List (Name × SV Nat)) :=
  if s == "-" then none
  else some ((splitNE s ",").filterMap (fun kv =>
    match kv.splitOn "=" with
    | [k, v] => some (names.getD (decNat k) ['?'], decSV names v)
    | _ => none))

/-! ### histories -/

inductive Tok where
  | push (i : Bool) (d : D)
  | pop
  | raise
  | use (i : Bool) (d : D)
  | endUse

def decTok (names : List Name) (s : String) : Option Tok :=
  match s.toList with
  | 'P' :: i :: ':' :: r => some (.push (i == '1') (decDict names (String.ofList r)))
  | 'U' :: i :: ':' :: r => some (.use (i == '1') (decDict names (String.ofList r)))
  | ['O'] => some .pop
  | ['R'] => some .raise
  | ['E'] => some .endUse
  | _ => none

/-- recursive descent over the token list; `fuel` = number of tokens. Returns ops and the rest
(after the closing `E` when inside a block). -/
def parseOps : Nat → List Tok → List (Op Nat) × List Tok
  | 0, ts => ([], ts)
  | _, [] => ([], [])
  | fuel + 1, t :: ts =>
    match t with
    | .endUse => ([], ts)
    | .push i d => let (ops, r) := parseOps fuel ts; (.push ⟨d⟩ i :: ops, r)
    | .pop => let (ops, r) := parseOps fuel ts; (.pop :: ops, r)
    | .raise => let (ops, r) := parseOps fuel ts; (.raise :: ops, r)
    | .use i d =>
      let (body, r) := parseOps fuel ts
      let (ops, r') := parseOps fuel r
      (.use ⟨d⟩ i body :: ops, r')

/-! ### histories with `ThemeContext` objects named by identity -/

inductive CTok where
  | push (i : Bool) (d : D)
  | pop
  | raise
  | withC (c : Nat)
  | endWith

def decCTok (names : List Name) (s : String) : Option CTok :=
  match s.toList with
  | 'P' :: i :: ':' :: r => some (.push (i == '1') (decDict names (String.ofList r)))
  | 'C' :: ds => some (.withC (decNat (String.ofList ds)))
  | ['O'] => some .pop
  | ['R'] => some .raise
  | ['E'] => some .endWith
  | _ => none

def parseCOps : Nat → List CTok → List (COp Nat) × List CTok
  | 0, ts => ([], ts)
  | _, [] => ([], [])
  | fuel + 1, t :: ts =>
    match t with
    | .endWith => ([], ts)
    | .push i d => let (ops, r) := parseCOps fuel ts; (.push ⟨d⟩ i :: ops, r)
    | .pop => let (ops, r) := parseCOps fuel ts; (.pop :: ops, r)
    | .raise => let (ops, r) := parseCOps fuel ts; (.raise :: ops, r)
    | .withC c =>
      let (body, r) := parseCOps fuel ts
      let (ops, r') := parseCOps fuel r
      (.withC c body :: ops, r')

/-- the object store: `i:dict;i:dict;…`, object number = position -/
def decCtxEnv (names : List Name) (s : String) : CtxEnv Nat :=
  let objs : List (CtxObj Nat) := (splitNE s ";").map (fun o =>
    match o.toList with
    | i :: ':' :: r => ⟨⟨decDict names (String.ofList r)⟩, i == '1'⟩
    | _ => ⟨⟨[]⟩, true⟩)
  fun c => objs.getD c ⟨⟨[(['?'], missId)]⟩, true⟩

def decCStep (s : String) : Option CStep :=
  match s.toList with
  | 'N' :: ds => some (.enterC (decNat (String.ofList ds)))
  | 'X' :: ds => some (.exitC (decNat (String.ofList ds)))
  | ['O'] => some .pop
  | _ => none

def encGet : Except GErr (Got Nat) → String
  | .ok (.same s) => toString s
  | .ok (.fresh s) => toString s ++ "*"          -- a copy with a new link id
  | .error .missingStyle => "M"
  | .error .other => "X"

def decNS (names : List Name) (s : String) : NS Nat :=
  match s.toList with
  | 's' :: ds => .style (decNat (String.ofList ds))
  | 'n' :: ds => .str (names.getD (decNat (String.ofList ds)) ['?'])
  | _ => .str ['?']

/-- `linked`: ids of the styles that have a link -/
def decLinked (s : String) : Nat → Bool :=
  let l := (splitNE s " ").map decNat
  fun i => l.contains i

def runProbe (names : List Name) (parse : Parse Nat) (linked : Nat → Bool) (st : Stack Nat) (p : String) : String :=
  match p.splitOn ">" with
  | [a] => encGet (getStyleObj parse linked st (decNS names a) none)
  | [a, d] => encGet (getStyleObj parse linked st (decNS names a) (some (decNS names d)))
  | _ => "bad-probe"

def encSnap (names : List Name) (parse : Parse Nat) (linked : Nat → Bool) (probes : List String) (st : Stack Nat) : String :=
  "/".intercalate (st.entries.map (encDict names)) ++ "#" ++ encDict names st.bound ++ "#" ++
    " ".intercalate (probes.map (runProbe names parse linked st))

/-- scheduled step `<tid><kind>…` (tid is one digit) -/
def decSched (names : List Name) (s : String) : Option (Nat × FStep Nat) :=
  match s.toList with
  | t :: 'P' :: i :: ':' :: r => some (t.toNat - 48, .push ⟨decDict names (String.ofList r)⟩ (i == '1'))
  | t :: 'N' :: i :: ':' :: r => some (t.toNat - 48, .enter ⟨decDict names (String.ofList r)⟩ (i == '1'))
  | [t, 'O'] => some (t.toNat - 48, .pop)
  | [t, 'X'] => some (t.toNat - 48, .exit)
  | [t, 'M'] => some (t.toNat - 48, .setPushed)
  | t :: 'B' :: r =>
    match (String.ofList r).splitOn "=" with
    | [k, v] => some (t.toNat - 48, .setBase (names.getD (decNat k) ['?']) (decNat v))
    | _ => none
  | _ => none

def encErr : Option Err → String
  | none => "ok"
  | some .themeStackError => "ThemeStackError"
  | some .indexError => "IndexError"
  | some .userError => "UserError"

def encOutcome : Outcome → String
  | .normal => "normal"
  | .raised .themeStackError => "raised:ThemeStackError"
  | .raised .indexError => "raised:IndexError"
  | .raised .userError => "raised:UserError"

def encCfgErr : CfgErr → String
  | .missingSectionHeader => "err:MissingSectionHeaderError"
  | .duplicateSection => "err:DuplicateSectionError"
  | .duplicateOption => "err:DuplicateOptionError"
  | .parsing => "err:ParsingError"
  | .noSection => "err:NoSectionError"
  | .interpolationSyntax => "err:InterpolationSyntaxError"

def handlers : List (String × (List String → String)) := [
  ("theme_new", fun a => match a with
    | [names, ptable, defaults, items, inherit] =>
      let names := decStrList names
      match Theme.new (decDict names defaults) (decPTable names ptable) (decItems names items) (decBool inherit) with
      | .ok t => "ok:" ++ encDict names t.styles
      | .error e => encPErr e
    | _ => "bad-args"),
  ("theme_hist", fun a => match a with
    | [flag, names, ptable, linked, base, ops, probes] =>
      let names := decStrList names
      let parse := decPTable names ptable
      let toks := (splitNE ops ";").filterMap (decTok names)
      let (h, _) := parseOps (toks.length + 1) toks
      let st0 : Stack Nat := Stack.init ⟨decDict names base⟩
      let probes := splitNE probes ","
      let (_, out, tr) := traceOps (decBool flag) h st0
      encOutcome out ++ ";" ++ "|".intercalate ((st0 :: tr).map (encSnap names parse (decLinked linked) probes))
    | _ => "bad-args"),
  ("theme_hist_ctx", fun a => match a with
    -- histories whose `with` statements name ThemeContext objects of a store (re-entry, re-use); the run traced is
    -- `traceOps` of the erased history, which `ctx_objects_are_stateless` + `trace_is_run` tie to `runCOps`
    | [flag, names, ptable, linked, base, ctxs, ops, probes] =>
      let names := decStrList names
      let parse := decPTable names ptable
      let toks := (splitNE ops ";").filterMap (decCTok names)
      let (h, _) := parseCOps (toks.length + 1) toks
      let env := decCtxEnv names ctxs
      let st0 : Stack Nat := Stack.init ⟨decDict names base⟩
      let probes := splitNE probes ","
      let (_, out, tr) := traceOps (decBool flag) (eraseOps env h) st0
      let final := runCOps (decBool flag) env h st0
      encOutcome out ++ ";" ++ "|".intercalate ((st0 :: tr).map (encSnap names parse (decLinked linked) probes))
        ++ ";" ++ encOutcome final.2 ++ ";" ++ encSnap names parse (decLinked linked) probes final.1
    | _ => "bad-args"),
  ("theme_ctx_flat", fun a => match a with
    -- hand-called __enter__/__exit__ on objects of a store + pop_theme, each step in its own try: state after every step
    | [flag, names, ptable, linked, base, ctxs, steps, probes] =>
      let names := decStrList names
      let parse := decPTable names ptable
      let env := decCtxEnv names ctxs
      let st0 : Stack Nat := Stack.init ⟨decDict names base⟩
      let probes := splitNE probes ","
      let steps := (splitNE steps ";").filterMap decCStep
      let go := steps.foldl (fun (acc : Stack Nat × List String) s =>
        let r := applyF (decBool flag) (CStep.toF env s) acc.1
        (r.1, acc.2 ++ [encErr r.2 ++ ";" ++ encSnap names parse (decLinked linked) probes r.1])) (st0, ["ok;" ++ encSnap names parse (decLinked linked) probes st0])
      "|".intercalate go.2
    | _ => "bad-args"),
  ("theme_mt", fun a => match a with
    -- threads / outside mutation: after every scheduled step, the step's exception and every thread's view
    | [shared, flag, names, ptable, linked, base, nthreads, sched, probes] =>
      let names := decStrList names
      let parse := decPTable names ptable
      let shared := decBool shared
      let sch := (splitNE sched ";").filterMap (decSched names)
      let S0 : Nat → Stack Nat := fun _ => Stack.init ⟨decDict names base⟩
      let probes := splitNE probes ","
      let tids := List.range (decNat nthreads)
      let view := fun (S : Nat → Stack Nat) =>
        "~".intercalate (tids.map (fun t => encSnap names parse (decLinked linked) probes (S (slotOf shared t))))
      "|".intercalate (("ok;" ++ view S0) ::
        (traceMT shared (decBool flag) sch S0).map (fun r => encErr r.1 ++ ";" ++ view r.2))
    | _ => "bad-args"),
  ("theme_config", fun a => match a with
    -- σ := index into `names` of the style's `str()`
    | [names, dict] =>
      let names := decStrList names
      encStr (Theme.config (fun i => names.getD i ['?']) ⟨decDict names dict⟩)
    | _ => "bad-args"),
  ("cfg_items", fun a => match a with
    | [lower, interp, text] =>
      match cfgItems (decBool lower) (decBool interp) (decStr text) with
      | .ok items => "ok:" ++ toString items.length ++ ":" ++ ",".intercalate (items.map (fun p => encStr p.1 ++ "=" ++ encStr p.2))
      | .err e => encCfgErr e
      | .unmodelled => "unmodelled"
    | _ => "bad-args"),
  ("theme_from_file", fun a => match a with
    | [lower, interp, names, ptable, defaults, text, inherit] =>
      let names := decStrList names
      match fromFile (decDict names defaults) (decPTable names ptable) (decBool lower) (decBool interp) (decStr text) (decBool inherit) with
      | .ok t => "ok:" ++ encDict names t.styles
      | .err (.cfg e) => encCfgErr e
      | .err (.parse e) => encPErr e
      | .unmodelled => "unmodelled"
    | _ => "bad-args"),
  ("theme_read", fun a => match a with
    | [lower, interp, names, ptable, defaults, text, inherit] =>
      let names := decStrList names
      match readPath (decDict names defaults) (decPTable names ptable) (decBool lower) (decBool interp) (decStr text) (decBool inherit) with
      | .ok t => "ok:" ++ encDict names t.styles
      | .err (.cfg e) => encCfgErr e
      | .err (.parse e) => encPErr e
      | .unmodelled => "unmodelled"
    | _ => "bad-args"),
  ("cfg_isspace", fun a => match a with
    | [cp] => encBool (isSpace (Char.ofNat (decNat cp)))
    | _ => "bad-args"),
  ("cfg_safe_name", fun a => match a with
    | [lower, s] => encBool (safeName (decBool lower) (decStr s))
    | _ => "bad-args"),
  ("cfg_safe_value", fun a => match a with
    | [interp, s] => encBool (safeValue (decBool interp) (decStr s))
    | _ => "bad-args"),
  ("cfg_lower", fun a => match a with
    | [s] => match lowerName (decStr s) with
      | some n => encStr n
      | none => "unmodelled"
    | _ => "bad-args"),
  ("cfg_strip", fun a => match a with
    | [s] => encStr (strip (decStr s))
    | _ => "bad-args")
]

end RichModel.Drv.C20
