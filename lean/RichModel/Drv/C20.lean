import RichModel.Drv.Proto
/- Driver handlers for property C20 (stub: filled in when the model is built). -/
namespace RichModel.Drv.C20
open RichModel RichModel.Proto

def handlers : List (String × (List String → String)) := []

end RichModel.Drv.C20
