import RichModel.Model.Conc
import RichModel.Drv.Proto
/- Driver handlers for property C11 (threads × console × live display; Model/Conc.lean).

`conc_run  cfg  init  progs  events`   trace inclusion: replay a recorded real event trace on the model.
  cfg    = `kind,W,H,record,transient,overflow,stopTailUnlocked`   kind 0 none / 1 live / 2 progress ; overflow 0 crop / 1 ellipsis / 2 visible
  init   = line list `n:l1,l2,…` : live = lines of the initial renderable, progress = task descriptions
  progs  = thread programs joined by `/`, operations joined by `|` :
           `P<lines>`  `K<lines>#<lines>…`  `N<lines>#<lines>#<lines>`  `U<refresh>;<lines>`  `R`  `S`  `X`  `V<id>;<n>`  `E<clear><mode>` (mode t / s / h)  `W<lines>` (FileProxy.write completing these lines)
  events = `tid:code` joined by `,` — the shared accesses in the order they happened on real rich; codes
           aL rL aC rC aR rR (outermost lock operations)  hr h+ h-  ce cr cd  ps rs rr ws sr  w
  answer = `ok#<observable of every event, joined by ;>#<captures>#<export_text>#<shape>#<hooks>#<started>`
           or `reject@<index>:<what the model's thread does next>` when the trace is not a trace of the model.
Between two events of a thread the model performs that thread's thread-local (silent) actions.
-/
namespace RichModel.Drv.C11
open RichModel RichModel.Proto RichModel.Conc
open RichModel.Live (Line Frame Overflow Task tasksTable)

def encOp : TermOp → String
  | .text s => "T" ++ encStr s
  | .lf => "L"
  | .cr => "C"
  | .cuu n => "U" ++ toString n
  | .el2 => "E"
  | .showCursor => "S"
  | .hideCursor => "H"
  | .sgr _ => "G"
  | .osc8 _ => "O"

/-- adjacent text operations are one token on the implementation side -/
def mergeText : List TermOp → List TermOp
  | .text a :: .text b :: rest => mergeText (.text (a ++ b) :: rest)
  | x :: rest => x :: mergeText rest
  | [] => []
termination_by l => l.length

def encOps (l : List TermOp) : String := ",".intercalate ((mergeText l).map encOp)

def encShape : Option (Nat × Nat) → String
  | none => "-" | some (w, h) => toString w ++ "x" ++ toString h

def decKind : String → Option DKind
  | "0" => some .none | "1" => some .live | "2" => some .progress | _ => none

def decOverflow : String → Option Overflow
  | "0" => some .crop | "1" => some .ellipsis | "2" => some .visible | _ => none

def decCfg (s : String) : Option (Cfg × Overflow) :=
  match s.splitOn "," with
  | [k, w, h, rec, tr, ov, tl] => do
    let kind ← decKind k
    let ov ← decOverflow ov
    some ({ kind := kind, width := ← w.toNat?, height := ← h.toNat?, record := decBool rec, transient := decBool tr,
            stopTailUnlocked := decBool tl }, ov)
  | _ => none

def decOp1 (s : String) : Option Op :=
  match s.toList with
  | ['R'] => some .refresh
  | ['S'] => some .start
  | ['X'] => some .stop
  | 'P' :: r => some (.print (decStrList (String.ofList r)))
  | 'W' :: r => some (.proxyPrint (decStrList (String.ofList r)))
  | ['E', c, _] => some (.export (c == '1'))
  | 'N' :: r =>
    match ((String.ofList r).splitOn "#").map decStrList with
    | [a, b, c] => some (.nested a b c)
    | _ => none
  | 'K' :: r => some (.capture (if r.isEmpty then [] else ((String.ofList r).splitOn "#").map decStrList))
  | 'U' :: r =>
    match (String.ofList r).splitOn ";" with
    | [rf, f] => some (.update (decStrList f) (decBool rf))
    | _ => none
  | 'V' :: r =>
    match (String.ofList r).splitOn ";" with
    | [i, n] => do some (.advance (← i.toNat?) (← n.toNat?))
    | _ => none
  | _ => none

def decProg (s : String) : Option (List Op) :=
  if s.isEmpty then some [] else (s.splitOn "|").mapM decOp1

def decProgs (s : String) : Option (List (List Op)) := (s.splitOn "/").mapM decProg

def decEvents (s : String) : Option (List (Nat × String)) :=
  if s.isEmpty then some [] else
    (s.splitOn ",").mapM (fun e => match e.splitOn ":" with
      | [t, c] => t.toNat?.map (·, c)
      | _ => none)

def lockCode : Lock → String
  | .live => "L" | .console => "C" | .record => "R"

/-- The event code of thread-local state `l`'s next action, `none` if that action is silent. -/
def visCode (l : Local) (a : Act) : Option String :=
  match a with
  | .acq lk => if lk ∈ l.held then none else some ("a" ++ lockCode lk)
  | .rel lk => if (l.held.erase lk).contains lk then none else some ("r" ++ lockCode lk)
  | .readHooks => some "hr"
  | .hookPos => some "ps"
  | .readRenderable => some "rr"
  | .renderFrame => some "ws"
  | .resetShape => some "ws"
  | .restorePush => some "rs"
  | .recAppend => some "ce"
  | .write => if l.buffer.any nonEmpty then some "w" else none
  | .setRenderable _ => some "sr"
  | .tableRender => some "sr"
  | .exportRead => some "cr"
  | .exportEnd c => if c then some "cd" else none
  | .pushHook => some "h+"
  | .popHook => some "h-"
  | _ => none

/-- Run the silent actions of thread `t`; stop in front of its next visible action (`some code`), or when
the thread is finished / out of fuel (`none`). -/
def advance (cfg : Cfg) : Nat → State → Nat → State × Option String
  | 0, s, _ => (s, some "fuel")
  | fuel + 1, s, t =>
    let l := s.th t
    match l.cont with
    | [] =>
      if l.prog.isEmpty then (s, none)
      else match stepT cfg s t with
        | some s' => advance cfg fuel s' t
        | none => (s, some "stuck")
    | g :: _ =>
      if guardOn cfg l.depth l.hooked g.g then
        match visCode l g.a with
        | some c => (s, some c)
        | none =>
          match stepT cfg s t with
          | some s' => advance cfg fuel s' t
          | none => (s, some "blocked")
      else
        match stepT cfg s t with
        | some s' => advance cfg fuel s' t
        | none => (s, some "stuck")

def posHeight : Option Item → String
  | some { body := .pos (some (_, h)), .. } => toString (max h 1)   -- number of rows erased (`height - 1` cursor-up moves)
  | _ => "-"

/-- The observable of the visible action thread `t` just performed (`s` before, `s'` after). -/
def obsOf (cfg : Cfg) (code : String) (s s' : State) (t : Nat) : String :=
  let l' := s'.th t
  match code with
  | "hr" => encBool l'.hooked
  | "ps" => posHeight l'.buffer.getLast?
  | "rs" => (match s.sh.shape with | some (_, h) => toString h | none => "-")
  | "rr" => if cfg.kind == .live then encStrList l'.rcopy else "*"
  | "ws" => encShape s'.sh.shape
  | "sr" => if cfg.kind == .live then encStrList s'.sh.renderable else "*"
  | "w" => (match s'.sh.file.getLast? with | some w => encOps (itemsOps w.items) | none => "?")
  | _ => ""

def replayEvents (cfg : Cfg) : List (Nat × String) → Nat → State → List String → Except String (State × List String)
  | [], _, s, acc => .ok (s, acc.reverse)
  | (t, c) :: rest, i, s, acc =>
    let (s1, v) := advance cfg 100000 s t
    match v with
    | some c' =>
      if c' == c then
        match stepT cfg s1 t with
        | some s2 => replayEvents cfg rest (i + 1) s2 (obsOf cfg c s1 s2 t :: acc)
        | none => .error s!"reject@{i}:{c}:blocked"
      else .error s!"reject@{i}:{c}:model-next={c'}"
    | none => .error s!"reject@{i}:{c}:model-thread-finished"

/-- After the last event every thread must be able to finish silently. -/
def finishAll (cfg : Cfg) : Nat → State → Except String State
  | 0, s => .ok s
  | n + 1, s =>
    match finishAll cfg n s with
    | .error e => .error e
    | .ok s1 =>
      let (s2, v) := advance cfg 100000 s1 n
      match v with
      | none => .ok s2
      | some c => .error s!"reject@end:thread{n}:model-next={c}"

def exportOps (cfg : Cfg) (record : List Item) : List TermOp :=
  itemsOps (record.filter (fun x => !isControl cfg.kind x.body))

def initShared (cfg : Cfg) (ov : Overflow) (init : List Line) : Shared :=
  match cfg.kind with
  | .progress =>
    let tasks : List Task := (List.range init.length).zip init |>.map (fun (i, d) => { id := i, desc := d, completed := 0, total := 100, visible := true })
    { overflow := ov, overflow0 := ov, tasks := tasks, renderable := tasksTable cw1 tasks }
  | _ => { overflow := ov, overflow0 := ov, renderable := init }

def isExport : Op → Bool
  | .export _ => true
  | _ => false

def inDomain (cfg : Cfg) (ov : Overflow) (progs : List (List Op)) : Bool :=
  1 ≤ cfg.height && (ov != .ellipsis || 3 ≤ cfg.width) && progs.all (·.all (Op.applies cfg.kind))
    && (cfg.record || progs.all (·.all (fun op => !isExport op)))   -- `assert self.record`

/-- The export modes of a thread's program, in order: `t` export_text, `s` export_text(styles=True), `h` export_html. -/
def decModes (s : String) : List (List Char) :=
  (s.splitOn "/").map (fun p => (p.splitOn "|").filterMap (fun o => match o.toList with | ['E', _, m] => some m | _ => none))

/-- What an export call returned, in the form the harness derives from the real string: the plain text of the
non-control pieces (`t`, `h`) or of every piece (`s`). -/
def encResult (cfg : Cfg) (mode : Char) (r : List Item) : String :=
  if mode == 's' then encOps (itemsOps r) else encOps (exportOps cfg r)


def handlers : List (String × (List String → String)) := [
  ("conc_run", fun a => match a with
    | [cfg, init, progsStr, events] =>
      match decCfg cfg, decProgs progsStr, decEvents events with
      | some (cfg, ov), some progs, some events =>
        if !inDomain cfg ov progs then "unmodelled" else
        let s0 := initState (initShared cfg ov (decStrList init)) progs
        match replayEvents cfg events 0 s0 [] with
        | .error e => e
        | .ok (s1, obs) =>
          match finishAll cfg progs.length s1 with
          | .error e => e
          | .ok s =>
            let caps := "/".intercalate ((List.range progs.length).map (fun t =>
              "!".intercalate ((s.th t).captured.map (fun c => encOps (itemsOps c)))))
            let modes := decModes progsStr
            let exps := "/".intercalate ((List.range progs.length).map (fun t =>
              "!".intercalate (((s.th t).results.zip (modes.getD t [])).map (fun (r, m) => encResult cfg m r))))
            let faults := (List.range progs.length).any (fun t => (s.th t).fault)
            (if faults then "fault" else "ok") ++ "#" ++ ";".intercalate obs ++ "#" ++ caps ++ "#" ++
              (if cfg.record then encOps (exportOps cfg s.sh.record) else "-") ++ "#" ++ encShape s.sh.shape ++ "#" ++
              toString s.sh.hooks ++ "#" ++ (if cfg.kind == .none then "-" else encBool s.sh.started) ++ "#" ++ exps
      | _, _, _ => "unmodelled"
    | _ => "bad-args")
]

end RichModel.Drv.C11
