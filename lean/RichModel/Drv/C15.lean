import RichModel.Model.Console
import RichModel.Drv.Proto
/-
Driver handlers for property C15 (record / capture / export).

Request:  c15_hist <TAB> variant <TAB> config <TAB> styles <TAB> ops <TAB> what
  variant : 4 bits  recordInRender mergeCtl escapeHref captureMarks
  config  : 6 bits  record colorNone isTerminal termDumb noColor legacyWindows
  styles  : n!entry!entry…    entry = truthy~pre~post~preT~postT~withoutColorId~htmlRule~link
            (link: "-" = None, "=<str>" otherwise); style ids are 1-based positions
  ops     : op/op/…
            P:<seg|seg|…>   seg = text;styleid-or-dash;control
            L:n   C:<str>   B   K:home   S:show   <   >   T:clear:styles
            H:clear:inline:fg:bg:item,item,…   item = l<str> | c | s | f | b
  what    : all (the four below, tab separated) | file | outs | record | state
Strings are space-separated decimal code points.
-/
namespace RichModel.Drv.C15
open RichModel RichModel.Proto RichModel.Console

abbrev Seg := Segment Nat

def decSeg (s : String) : Seg :=
  match s.splitOn ";" with
  | [t, st, c] => { text := decStr t, style := decOptNat st, control := decBool c }
  | _ => { text := [], style := none, control := false }

def encSeg (s : Seg) : String :=
  encStr s.text ++ ";" ++ encOptNat s.style ++ ";" ++ encBool s.control

def decLine (s : String) : List Seg := if s.isEmpty then [] else (s.splitOn "|").map decSeg
def encLine (l : List Seg) : String := "|".intercalate (l.map encSeg)

structure StyleRow where
  truthy : Bool
  pre : List Char
  post : List Char
  preT : List Char
  postT : List Char
  withoutColor : Nat
  htmlRule : List Char
  link : Option (List Char)

def decRow (s : String) : Option StyleRow :=
  match s.splitOn "~" with
  | [t, pre, post, preT, postT, wc, rule, link] =>
    some { truthy := decBool t, pre := decStr pre, post := decStr post, preT := decStr preT, postT := decStr postT,
           withoutColor := decNat wc, htmlRule := decStr rule,
           link := if link == "-" then none else some (decStr (link.drop 1).toString) }
  | _ => none

def decStyles (s : String) : Option (Array StyleRow) :=
  match s.splitOn "!" with
  | n :: rows =>
    let rs := rows.filterMap decRow
    if rs.length == decNat n && rows.length == decNat n then some rs.toArray else none
  | [] => none

def envOf (rows : Array StyleRow) : StyleEnv Nat :=
  let get (i : Nat) : Option StyleRow := if i == 0 then none else rows[i - 1]?
  { truthy := fun i => (get i).map (·.truthy) |>.getD false
    pre := fun i => (get i).map (·.pre) |>.getD []
    post := fun i => (get i).map (·.post) |>.getD []
    preT := fun i => (get i).map (·.preT) |>.getD []
    postT := fun i => (get i).map (·.postT) |>.getD []
    withoutColor := fun i => (get i).map (·.withoutColor) |>.getD 0
    htmlRule := fun i => (get i).map (·.htmlRule) |>.getD []
    link := fun i => (get i).bind (·.link) }

def bit (s : String) (i : Nat) : Bool := (s.toList.getD i '0') == '1'

def decVariant (s : String) : Variant :=
  { recordInRender := bit s 0, mergeCtl := bit s 1, escapeHref := bit s 2, captureMarks := bit s 3 }

def decConfig (s : String) : Config :=
  { record := bit s 0, colorNone := bit s 1, isTerminal := bit s 2, termDumb := bit s 3,
    noColor := bit s 4, legacyWindows := bit s 5 }

def decItem (s : String) : Option TItem :=
  match s.toList with
  | 'l' :: rest => some (.lit (decStr (String.ofList rest)))
  | ['c'] => some .code
  | ['s'] => some .stylesheet
  | ['f'] => some .foreground
  | ['b'] => some .background
  | _ => none

def decOp (s : String) : Option (Op Nat) :=
  match s.splitOn ":" with
  | ["P", l] => some (.print (decLine l))
  | ["L", n] => some (.line (decNat n))
  | ["C", t] => some (.control (decStr t))
  | ["B"] => some .bell
  | ["K", h] => some (.clear (decBool h))
  | ["S", b] => some (.showCursor (decBool b))
  | ["<"] => some .beginCapture
  | [">"] => some .endCapture
  | ["T", c, st] => some (.exportText (decBool c) (decBool st))
  | ["H", c, inl, fg, bg, tmpl] =>
    let items := if tmpl.isEmpty then [] else tmpl.splitOn ","
    let dec := items.filterMap decItem
    if dec.length == items.length then
      some (.exportHtml (decBool c) (decBool inl) { template := dec, foreground := decStr fg, background := decStr bg })
    else none
  | _ => none

def decOps (s : String) : Option (List (Op Nat)) :=
  if s.isEmpty then some [] else
    let parts := s.splitOn "/"
    let ops := parts.filterMap decOp
    if ops.length == parts.length then some ops else none

def encOut : Out → String
  | .none => "-"
  | .captured s => "c" ++ encStr s
  | .exported s => "e" ++ encStr s
  | .assertionError => "A"

def handlers : List (String × (List String → String)) := [
  ("c15_hist", fun a => match a with
    | [v, cfg, styles, ops, what] =>
      match decStyles styles, decOps ops with
      | some rows, some ops =>
        let r := run (decVariant v) (decConfig cfg) (envOf rows) ops {}
        if what == "all" then
          "\t".intercalate [encStrList (r.1.file.map flat), ",".intercalate (r.2.map encOut), encLine r.1.record,
            toString r.1.index ++ "#" ++ encLine r.1.buffer]
        else if what == "file" then encStrList (r.1.file.map flat)
        else if what == "outs" then ",".intercalate (r.2.map encOut)
        else if what == "record" then encLine r.1.record
        else if what == "state" then toString r.1.index ++ "#" ++ encLine r.1.buffer
        else "unmodelled"
      | _, _ => "unmodelled"
    | _ => "bad-args"),
  ("c15_escape", fun a => match a with
    | [s] => encStr (escape (decStr s))
    | _ => "bad-args"),
  ("c15_escape_attr", fun a => match a with
    | [s] => encStr (escapeAttr (decStr s))
    | _ => "bad-args")
]

end RichModel.Drv.C15
