import RichModel.Drv.Proto
/- Driver handlers for property C15 (stub: filled in when the model is built). -/
namespace RichModel.Drv.C15
open RichModel RichModel.Proto

def handlers : List (String × (List String → String)) := []

end RichModel.Drv.C15
