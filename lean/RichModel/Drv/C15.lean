import RichModel.Model.Console
import RichModel.Model.ConsolePrint
import RichModel.Model.ConsoleLog
import RichModel.Model.ConsoleFormat
import RichModel.Model.ConsoleLogTime
import RichModel.Drv.C01
import RichModel.Gen.CellWidths
import RichModel.Drv.Proto
/-
Driver handlers for property C15 (record / capture / export).

Request:  c15_hist <TAB> variant <TAB> config <TAB> styles <TAB> ops <TAB> what
  variant : 4 bits  recordInRender mergeCtl escapeHref captureMarks
  config  : 6 bits  record colorNone isTerminal termDumb noColor legacyWindows
  styles  : n!entry!entry…    entry = truthy~pre~post~preT~postT~withoutColorId~htmlRule~link
            (link: "-" = None, "=<str>" otherwise); style ids are 1-based positions
  ops     : op/op/…
            P:<seg|seg|…>   seg = text;styleid-or-dash;control
            L:n   C:<str>   B   K:home   S:show   <   >   E (enter `with console:`)   X (leave it)   T:clear:styles
            H:clear:inline:fg:bg:item,item,…   item = l<str> | c | s | f | b
  what    : all (the four below, tab separated) | file | outs | record | state
Strings are space-separated decimal code points.

Request:  c15_derive <TAB> flags8 <TAB> width <TAB> nullId <TAB> kind <TAB> args…      (Model/ConsolePrint.lean)
  flags8 : the eight WVariant flags of property C02 (six Text flags, justifyNeg, rstripChars)
  kind = print : strs(strlist) sep end style(-|id) overflow(-|f|c|e|i) nowrap(-|0|1) width(-|n) crop(0|1) soft(-|0|1) consoleSoft(0|1)
  kind = print0: (no arguments)
  kind = out   : strs(strlist) sep end style(-|id)
  kind = rule  : characters styleId
Answer: the appended segments (as `seg|seg|…`), `err:<PyErr>`, or `unmodelled`.

Request:  c15_log <TAB> flags <TAB> width <TAB> time <TAB> strs <TAB> sep <TAB> end <TAB> path        (Model/ConsoleLog.lean)
  flags : the variant flags of the composition layer, in the format of Drv/C01.lean (`props.c01.FLAGS`)
  time  : "-" (show_time off) or "=<str>" (text of the time cell);  path : "-" or "=<str>" (`file:line`)
Answer: `ok:<text of the appended segments>` or `unmodelled`.

Request:  c15_format <TAB> fmt <TAB> code <TAB> stylesheet <TAB> foreground <TAB> background      (Model/ConsoleFormat.lean)
Answer: `ok:<str>`, `err:ValueError`, `err:IndexError`, `err:KeyError:<name>` or `unmodelled`.

Request:  c15_htmlfmt <TAB> variant <TAB> config <TAB> styles <TAB> record(seg|seg|…) <TAB> clear <TAB> inline <TAB> fg <TAB> bg <TAB> fmt
  `export_html(clear=, inline_styles=, code_format=fmt)` with the format string as a string, on a console whose record is given.
Answer: <result> <TAB> <record afterwards>;  result = `e<str>` | `A` | `err:…` (as above) | `unmodelled`.

Request:  c15_logtimes <TAB> showTime(0|1) <TAB> displays(strlist)      (Model/ConsoleLogTime.lean `logTimeCells`)
Answer: the time cells of consecutive `log` calls on a fresh console: cell,cell,…  with cell = `-` (no time column) or `=<str>`.
-/
namespace RichModel.Drv.C15
open RichModel RichModel.Proto RichModel.Console

abbrev Seg := Segment Nat

def decSeg (s : String) : Seg :=
  match s.splitOn ";" with
  | [t, st, c] => { text := decStr t, style := decOptNat st, control := decBool c }
  | _ => { text := [], style := none, control := false }

def encSeg (s : Seg) : String :=
  encStr s.text ++ ";" ++ encOptNat s.style ++ ";" ++ encBool s.control

def decLine (s : String) : List Seg := if s.isEmpty then [] else (s.splitOn "|").map decSeg
def encLine (l : List Seg) : String := "|".intercalate (l.map encSeg)

structure StyleRow where
  truthy : Bool
  pre : List Char
  post : List Char
  preT : List Char
  postT : List Char
  withoutColor : Nat
  htmlRule : List Char
  link : Option (List Char)

def decRow (s : String) : Option StyleRow :=
  match s.splitOn "~" with
  | [t, pre, post, preT, postT, wc, rule, link] =>
    some { truthy := decBool t, pre := decStr pre, post := decStr post, preT := decStr preT, postT := decStr postT,
           withoutColor := decNat wc, htmlRule := decStr rule,
           link := if link == "-" then none else some (decStr (link.drop 1).toString) }
  | _ => none

def decStyles (s : String) : Option (Array StyleRow) :=
  match s.splitOn "!" with
  | n :: rows =>
    let rs := rows.filterMap decRow
    if rs.length == decNat n && rows.length == decNat n then some rs.toArray else none
  | [] => none

def envOf (rows : Array StyleRow) : StyleEnv Nat :=
  let get (i : Nat) : Option StyleRow := if i == 0 then none else rows[i - 1]?
  { truthy := fun i => (get i).map (·.truthy) |>.getD false
    pre := fun i => (get i).map (·.pre) |>.getD []
    post := fun i => (get i).map (·.post) |>.getD []
    preT := fun i => (get i).map (·.preT) |>.getD []
    postT := fun i => (get i).map (·.postT) |>.getD []
    withoutColor := fun i => (get i).map (·.withoutColor) |>.getD 0
    htmlRule := fun i => (get i).map (·.htmlRule) |>.getD []
    link := fun i => (get i).bind (·.link) }

def bit (s : String) (i : Nat) : Bool := (s.toList.getD i '0') == '1'

def decVariant (s : String) : Console.Variant :=
  { recordInRender := bit s 0, mergeCtl := bit s 1, escapeHref := bit s 2, captureMarks := bit s 3 }

def decConfig (s : String) : Config :=
  { record := bit s 0, colorNone := bit s 1, isTerminal := bit s 2, termDumb := bit s 3,
    noColor := bit s 4, legacyWindows := bit s 5 }

def decItem (s : String) : Option TItem :=
  match s.toList with
  | 'l' :: rest => some (.lit (decStr (String.ofList rest)))
  | ['c'] => some .code
  | ['s'] => some .stylesheet
  | ['f'] => some .foreground
  | ['b'] => some .background
  | _ => none

def decOp (s : String) : Option (Op Nat) :=
  match s.splitOn ":" with
  | ["P", l] => some (.print (decLine l))
  | ["L", n] => some (.line (decNat n))
  | ["C", t] => some (.control (decStr t))
  | ["B"] => some .bell
  | ["K", h] => some (.clear (decBool h))
  | ["S", b] => some (.showCursor (decBool b))
  | ["<"] => some .beginCapture
  | [">"] => some .endCapture
  | ["E"] => some .enterBuffer
  | ["X"] => some .exitBuffer
  | ["T", c, st] => some (.exportText (decBool c) (decBool st))
  | ["H", c, inl, fg, bg, tmpl] =>
    let items := if tmpl.isEmpty then [] else tmpl.splitOn ","
    let dec := items.filterMap decItem
    if dec.length == items.length then
      some (.exportHtml (decBool c) (decBool inl) { template := dec, foreground := decStr fg, background := decStr bg })
    else none
  | _ => none

def decOps (s : String) : Option (List (Op Nat)) :=
  if s.isEmpty then some [] else
    let parts := s.splitOn "/"
    let ops := parts.filterMap decOp
    if ops.length == parts.length then some ops else none

def encOut : Out → String
  | .none => "-"
  | .captured s => "c" ++ encStr s
  | .exported s => "e" ++ encStr s
  | .assertionError => "A"

def cw : Char → Nat := charWidthT Gen.cellWidths

def decWV? (s : String) : Option Wrap.WVariant :=
  match s.toList with
  | [a, b, c, d, e, f, g, h] => some ⟨⟨a == '1', b == '1', c == '1', d == '1', e == '1', f == '1'⟩, g == '1', h == '1'⟩
  | _ => none

def decOverflow? (s : String) : Option (Option Overflow) :=
  match s with
  | "-" => some none
  | "f" => some (some .fold)
  | "c" => some (some .crop)
  | "e" => some (some .ellipsis)
  | "i" => some (some .ignore)
  | _ => none

def decOptBool? (s : String) : Option (Option Bool) :=
  match s with
  | "-" => some none
  | "0" => some (some false)
  | "1" => some (some true)
  | _ => none

def encDerived (r : Except PyErr (Option (List Seg))) : String :=
  match r with
  | .ok (some segs) => "ok:" ++ encLine segs
  | .ok none => "unmodelled"
  | .error e => "err:" ++ toString (repr e)

def decOptStr (s : String) : Option (List Char) :=
  if s == "-" then none else some (decStr (s.drop 1).toString)

def encFmtErr : ConsoleFormat.FmtErr → String
  | .valueError => "err:ValueError"
  | .indexError => "err:IndexError"
  | .keyError n => "err:KeyError:" ++ encStr n

def encFmtRes : ConsoleFormat.FmtRes → String
  | .ok s => "ok:" ++ encStr s
  | .error e => encFmtErr e
  | .unmodelled => "unmodelled"

def handlers : List (String × (List String → String)) := [
  ("c15_format", fun a => match a with
    | [fmt, code, ss, fg, bg] =>
      let vals : ConsoleFormat.Vals := ⟨decStr code, decStr ss, decStr fg, decStr bg⟩
      encFmtRes (ConsoleFormat.formatStr vals (decStr fmt))
    | _ => "bad-args"),
  ("c15_logtimes", fun a => match a with
    | [st, ds] =>
      ",".intercalate ((ConsoleLogTime.logTimeCells (decBool st) {} (decStrList ds)).map (fun
        | none => "-"
        | some s => "=" ++ encStr s))
    | _ => "bad-args"),
  ("c15_htmlfmt", fun a => match a with
    | [v, cfg, styles, record, clr, inl, fg, bg, fmt] =>
      match decStyles styles with
      | some rows =>
        let st : State Nat := { record := decLine record }
        let r := ConsoleFormat.stepHtmlStr (decVariant v) (decConfig cfg) (envOf rows) st (decBool clr) (decBool inl)
          (decStr fmt) (decStr fg) (decStr bg)
        match r.2 with
        | .unmodelled => "unmodelled"
        | .exported s => "e" ++ encStr s ++ "\t" ++ encLine r.1.record
        | .assertionError => "A\t" ++ encLine r.1.record
        | .raised e => encFmtErr e ++ "\t" ++ encLine r.1.record
      | none => "unmodelled"
    | _ => "bad-args"),
  ("c15_log", fun a => match a with
    | [flags, w, time, strs, sep, e, path] =>
      (do
        let f ← C01.decFlags flags
        let env : Frames.Env := { consoleWidth := decNat w }
        let run (poison : List Layout.Seg) : List Char :=
          ConsoleLog.logChars (C01.mkCfg f env poison (C01.decFrameBits flags)) (decOptStr time) (decStrList strs)
            (decStr sep) (decStr e) (decOptStr path)
        let a := run C01.poisonA
        let b := run C01.poisonB
        if a != b then none else pure ("ok:" ++ encStr a)).getD "unmodelled"
    | _ => "bad-args"),
  ("c15_derive", fun a => match a with
    | [flags, w, nullId, "print", strs, sep, e, style, ov, nw, width, crop, soft, csoft] =>
      (do
        let wv ← decWV? flags
        let ov ← decOverflow? ov
        let nw ← decOptBool? nw
        let soft ← decOptBool? soft
        let env : ConsolePrint.Env := { width := decNat w, softWrap := decBool csoft, nullId := decNat nullId, styleId := id }
        pure (encDerived (ConsolePrint.printSegs wv cw env
          { strs := decStrList strs, sep := decStr sep, endStr := decStr e, style := decOptNat style, overflow := ov,
            noWrap := nw, width := decOptNat width, crop := decBool crop, softWrap := soft }))).getD "unmodelled"
    | [_flags, w, nullId, "print0"] =>
      let env : ConsolePrint.Env := { width := decNat w, nullId := decNat nullId, styleId := id }
      encDerived (.ok (some (ConsolePrint.print0Segs cw env)))
    | [flags, w, nullId, "out", strs, sep, e, style] =>
      (do
        let wv ← decWV? flags
        let env : ConsolePrint.Env := { width := decNat w, nullId := decNat nullId, styleId := id }
        pure (encDerived (ConsolePrint.outSegs wv cw env (decStrList strs) (decStr sep) (decStr e) (decOptNat style)))).getD "unmodelled"
    | [flags, w, nullId, "rule", chars, styleId] =>
      (do
        let wv ← decWV? flags
        let env : ConsolePrint.Env := { width := decNat w, nullId := decNat nullId, styleId := fun _ => decNat styleId }
        pure (encDerived (ConsolePrint.ruleSegs wv cw env (decStr chars)))).getD "unmodelled"
    | _ => "bad-args"),
  ("c15_hist", fun a => match a with
    | [v, cfg, styles, ops, what] =>
      match decStyles styles, decOps ops with
      | some rows, some ops =>
        let r := run (decVariant v) (decConfig cfg) (envOf rows) ops {}
        if what == "all" then
          "\t".intercalate [encStrList (r.1.file.map flat), ",".intercalate (r.2.map encOut), encLine r.1.record,
            toString r.1.index ++ "#" ++ encLine r.1.buffer]
        else if what == "file" then encStrList (r.1.file.map flat)
        else if what == "outs" then ",".intercalate (r.2.map encOut)
        else if what == "record" then encLine r.1.record
        else if what == "state" then toString r.1.index ++ "#" ++ encLine r.1.buffer
        else "unmodelled"
      | _, _ => "unmodelled"
    | _ => "bad-args"),
  ("c15_escape", fun a => match a with
    | [s] => encStr (escape (decStr s))
    | _ => "bad-args"),
  ("c15_escape_attr", fun a => match a with
    | [s] => encStr (escapeAttr (decStr s))
    | _ => "bad-args")
]

end RichModel.Drv.C15
