import RichModel.Model.Wrap
import RichModel.Model.TextTabs
import RichModel.Model.Style
import RichModel.Gen.CellWidths
import RichModel.Drv.Proto
/-
Driver handlers for property C02 (word wrapping).

Styles: a style "name" of the driver is the list of atomic style ids it combines (`σ = List Nat`):
the atomic name `k` is `[k]` (0 = the null style ""), the `Style` object that `get_style_at_offset` computes
is the concatenation, `==` is list equality — exactly the `Tag` algebra of `harness/lib_wrap.py`.

Wire format
  style  := id.id.id                 (at least one id)
  span   := start,stop,style         spans := span/span/...
  text   := plain;length;style;spans;justify;overflow;nowrap;end;tabsize      (as in Drv/C05.lean)
  lines  := count#text|text|...
  answer := ok:count#text@render|text@render…  | err:Name
  render := seg/seg/…   seg := codepoints~id id id   (`-` for a style-less segment), or err:Name
-/
namespace RichModel.Drv.C02
open RichModel RichModel.Proto RichModel.Wrap

abbrev S := List Nat
abbrev T := Text S

def cw : Char → Nat := charWidthT Gen.cellWidths

def alg : StyleAlg S := { null := [0], comb := fun l => l.flatten, eqv := fun a b => a == b }

def decInt? (s : String) : Option Int := s.toInt?
def decNat? (s : String) : Option Nat := s.toNat?

def decStr? (s : String) : Option (List Char) :=
  if s.isEmpty then some [] else (s.splitOn " ").mapM (fun t => t.toNat?.map Char.ofNat)

def decOptNat? (s : String) : Option (Option Nat) := if s == "N" then some none else (decNat? s).map some

def decStyle? (s : String) : Option S := (s.splitOn ".").mapM decNat?
def encStyle (s : S) : String := ".".intercalate (s.map toString)

def decSpan? (s : String) : Option (Span S) :=
  match s.splitOn "," with
  | [a, b, c] => do pure ⟨← decInt? a, ← decInt? b, ← decStyle? c⟩
  | _ => none

def decSpans? (s : String) : Option (List (Span S)) :=
  if s.isEmpty then some [] else (s.splitOn "/").mapM decSpan?

def encSpans (l : List (Span S)) : String :=
  "/".intercalate (l.map (fun sp => s!"{sp.start},{sp.stop},{encStyle sp.style}"))

def decJustify? : String → Option (Option Justify)
  | "N" => some none | "d" => some (some .default) | "l" => some (some .left) | "c" => some (some .center)
  | "r" => some (some .right) | "f" => some (some .full) | _ => none
def encJustify : Option Justify → String
  | none => "N" | some .default => "d" | some .left => "l" | some .center => "c" | some .right => "r" | some .full => "f"
def decOverflow? : String → Option (Option Overflow)
  | "N" => some none | "f" => some (some .fold) | "c" => some (some .crop) | "e" => some (some .ellipsis)
  | "i" => some (some .ignore) | _ => none
def encOverflow : Option Overflow → String
  | none => "N" | some .fold => "f" | some .crop => "c" | some .ellipsis => "e" | some .ignore => "i"
def decOptBool? : String → Option (Option Bool)
  | "N" => some none | "0" => some (some false) | "1" => some (some true) | _ => none
def encOptBool : Option Bool → String
  | none => "N" | some false => "0" | some true => "1"
def encOptNatN : Option Nat → String
  | none => "N" | some n => toString n

def decText? (s : String) : Option T :=
  match s.splitOn ";" with
  | [pl, len, st, sps, j, o, nw, e, ts] => do
    pure { plain := ← decStr? pl, length := ← decInt? len, style := ← decStyle? st, spans := ← decSpans? sps,
           justify := ← decJustify? j, overflow := ← decOverflow? o, noWrap := ← decOptBool? nw,
           endStr := ← decStr? e, tabSize := ← decOptNat? ts }
  | _ => none

def encText (t : T) : String :=
  ";".intercalate [encStr t.plain, toString t.length, encStyle t.style, encSpans t.spans,
    encJustify t.justify, encOverflow t.overflow, encOptBool t.noWrap, encStr t.endStr, encOptNatN t.tabSize]

def decTexts? (s : String) : Option (List T) :=
  match s.splitOn "#" with
  | [n, body] => if n == "0" then some [] else (body.splitOn "|").mapM decText?
  | _ => none

def encErr : PyErr → String
  | .indexError => "err:IndexError" | .typeError => "err:TypeError" | .valueError => "err:ValueError"
  | .assertionError => "err:AssertionError" | .zeroDivisionError => "err:ZeroDivisionError"
  | .keyError => "err:KeyError" | .runtimeError => "err:RuntimeError"

def encRender (r : Except PyErr (List (Text.RSeg S))) : String :=
  match r with
  | .error e => encErr e
  | .ok segs => "/".intercalate (segs.map (fun s =>
      encStr s.text ++ "~" ++ (match s.styles with
        | none => "-"
        | some ids => " ".intercalate (ids.flatten.map toString))))

def encTR (t : T) : String := encText t ++ "@" ++ encRender (t.render)

def ansTexts (r : Except PyErr (List T)) : String :=
  match r with
  | .ok l => "ok:" ++ toString l.length ++ "#" ++ "|".intercalate (l.map encTR)
  | .error e => encErr e

/-- eight flags: the six of the Text model, then `justifyNeg`, then `rstripChars` -/
def decWVariant? (s : String) : Option WVariant :=
  match s.toList with
  | [a, b, c, d, e, f, g, h] => some ⟨⟨a == '1', b == '1', c == '1', d == '1', e == '1', f == '1'⟩, g == '1', h == '1'⟩
  | _ => none

def orUnmodelled (o : Option String) : String := o.getD "unmodelled"

def encNats (l : List Nat) : String := toString l.length ++ ":" ++ " ".intercalate (l.map toString)

/-! ### the same with rich's real `Style` algebra (C06 model): atomic styles are given by their fields -/

/-- one atomic style of the request: `fg;attrs;set;link` (`N` = none; fg = number of a standard colour) -/
def decAtom? (s : String) : Option Style :=
  match s.splitOn ";" with
  | [fg, atr, st, lk] => do
    let fg ← decOptNat? fg
    let at' ← decNat? atr
    let st ← decNat? st
    let lk ← (if lk == "N" then some none else (decStr? lk).map some)
    let color : Option Color := fg.map (fun n => { name := [], type := ColorType.standard, number := some n })
    pure { color := color, bgcolor := none, attributes := at', setAttributes := st, link := lk,
           hash := ⟨color, none, some at', some st, lk⟩,
           isNull := !(color.isSome || st != 0 || strTruthy lk), styleDef := none }
  | _ => none

def decAtoms? (s : String) : Option (List Style) :=
  if s.isEmpty then some [] else (s.splitOn "|").mapM decAtom?

def atomOf (tbl : List Style) (k : Nat) : Style := tbl.getD k Style.null

/-- `Style.combine(styles)` = `sum(iter_styles, next(iter_styles))` -/
def combineReal (tbl : List Style) : S → Style
  | [] => Style.null
  | x :: rest => rest.foldl (fun acc k => Style.add StyleVariant.fixed acc (atomOf tbl k)) (atomOf tbl x)

/-- the style `get_style_at_offset` computes: `get_style(self.style).copy()` then `+=` every covering span -/
def atOffsetReal (tbl : List Style) : S → Style
  | [] => Style.null
  | x :: rest => rest.foldl (fun acc k => Style.add StyleVariant.fixed acc (atomOf tbl k)) (atomOf tbl x).copy

def algReal (tbl : List Style) : StyleAlg S :=
  { null := [0], comb := fun l => l.flatten,
    eqv := fun a b => Style.eq (atOffsetReal tbl a) (atOffsetReal tbl b) }

/-- what `Style.__eq__` compares: `fg/attrs/set/link` -/
def encKey (st : Style) : String :=
  let fg := match st.color with | some c => (match c.number with | some n => toString n | none => "?") | none => "N"
  let lk := match Style.linkVal st.link with | some l => encStr l | none => "N"
  s!"{fg}/{st.attributes}/{st.setAttributes}/{lk}"

def encSpansReal (tbl : List Style) (l : List (Span S)) : String :=
  "/".intercalate (l.map (fun sp => s!"{sp.start},{sp.stop},{encKey (atOffsetReal tbl sp.style)}"))

def encRenderReal (tbl : List Style) (r : Except PyErr (List (Text.RSeg S))) : String :=
  match r with
  | .error e => encErr e
  | .ok segs => "/".intercalate (segs.map (fun s =>
      encStr s.text ++ "~" ++ (match s.styles with
        | none => "-"
        | some ids => encKey (combineReal tbl ids.flatten))))

def encTRReal (tbl : List Style) (t : T) : String :=
  ";".intercalate [encStr t.plain, toString t.length, encKey (atOffsetReal tbl t.style), encSpansReal tbl t.spans]
    ++ "@" ++ encRenderReal tbl (t.render)

def ansTextsReal (tbl : List Style) (r : Except PyErr (List T)) : String :=
  match r with
  | .ok l => "ok:" ++ toString l.length ++ "#" ++ "|".intercalate (l.map (encTRReal tbl))
  | .error e => encErr e

def handlers : List (String × (List String → String)) := [
  -- words(text): count:start,end,word|…
  ("wrap_words", fun a => match a with
    | [s] => orUnmodelled do
      let s ← decStr? s
      let ws := words s
      pure (toString ws.length ++ ":" ++ "|".intercalate (ws.map (fun w => s!"{w.1},{w.2.1},{encStr w.2.2}")))
    | _ => "bad-args"),
  -- divide_line(text, width, fold)
  ("wrap_divide_line", fun a => match a with
    | [s, w, f] => orUnmodelled do
      let s ← decStr? s
      let w ← decNat? w
      pure (encNats (divideLine cw s w (decBool f)))
    | _ => "bad-args"),
  -- text.get_style_at_offset(console, offset)
  ("wrap_style_at", fun a => match a with
    | [t, off] => orUnmodelled do
      let t ← decText? t
      let off ← decInt? off
      if t.length < 0 then none else pure (encStyle (styleAtOffset alg t off))
    | _ => "bad-args"),
  -- Lines(lines).justify(console, width, justify, overflow)
  ("wrap_justify", fun a => match a with
    | [v, ls, w, j, o] => orUnmodelled do
      let v ← decWVariant? v
      let ls ← decTexts? ls
      let w ← decNat? w
      let j ← (← decJustify? j)
      let o ← (← decOverflow? o)
      if ls.any (fun t => t.length < 0) then none else pure (ansTexts (justifyLines v cw alg ls w j o))
    | _ => "bad-args"),
  -- text.wrap(console, width, justify=, overflow=, tab_size=, no_wrap=)
  ("wrap_wrap", fun a => match a with
    | [v, t, w, j, o, ts, nw] => orUnmodelled do
      let v ← decWVariant? v
      let t ← decText? t
      let w ← decNat? w
      let j ← decJustify? j
      let o ← decOverflow? o
      let ts ← decOptNat? ts
      let nw ← decOptBool? nw
      if t.length < 0 then none else pure (ansTexts (wrap v cw alg t w j o (Text.effTab Text.tabAssertAsFound t ts) nw))
    | _ => "bad-args"),
  -- the same with real Style objects: first argument the table of atomic styles
  ("wrap_wrap_real", fun a => match a with
    | [tbl, v, t, w, j, o, ts, nw] => orUnmodelled do
      let tbl ← decAtoms? tbl
      let v ← decWVariant? v
      let t ← decText? t
      let w ← decNat? w
      let j ← decJustify? j
      let o ← decOverflow? o
      let ts ← decOptNat? ts
      let nw ← decOptBool? nw
      if t.length < 0 then none else pure (ansTextsReal tbl (wrap v cw (algReal tbl) t w j o (Text.effTab Text.tabAssertAsFound t ts) nw))
    | _ => "bad-args")
]

end RichModel.Drv.C02
