import RichModel.Model.Ratio
import RichModel.Drv.Proto
/- Driver handlers for the layout arithmetic (rich/_ratio.py, Table._collapse_widths, Measurement). -/
namespace RichModel.Drv.Ratio
open RichModel RichModel.Proto

/-- int lists travel as `n:a b c` -/
def decInts (s : String) : List Int :=
  match s.splitOn ":" with
  | [n, body] => if n == "0" then [] else (body.splitOn " ").map decInt
  | _ => []
def encInts (l : List Int) : String := toString l.length ++ ":" ++ " ".intercalate (l.map toString)
def decBools (s : String) : List Bool := (decInts s).map (· != 0)
def decOptInts (s : String) : Option (List Int) := if s == "-" then none else some (decInts s)
def decOptInt (s : String) : Option Int := if s == "-" then none else s.toInt?
def encMeas (m : Measurement) : String := toString m.minimum ++ " " ++ toString m.maximum

def handlers : List (String × (List String → String)) := [
  ("ratio.reduce", fun a => match a with
    | [t, r, m, v] => encInts (ratioReduce (decInt t) (decInts r) (decInts m) (decInts v))
    | _ => "bad-args"),
  ("ratio.distribute", fun a => match a with
    | [t, r, m] => match ratioDistribute (decInt t) (decInts r) (decOptInts m) with
      | some l => encInts l
      | none => "err:AssertionError"
    | _ => "bad-args"),
  ("ratio.collapse", fun a => match a with
    | [w, wr, mw] => encInts (collapseWidths (decInts w) (decBools wr) (decInt mw))
    | _ => "bad-args"),
  ("measure.normalize", fun a => match a with
    | [mn, mx] => encMeas (Measurement.normalize ⟨decInt mn, decInt mx⟩)
    | _ => "bad-args"),
  ("measure.clamp", fun a => match a with
    | [mn, mx, lo, hi] => encMeas (Measurement.clamp ⟨decInt mn, decInt mx⟩ (decOptInt lo) (decOptInt hi))
    | _ => "bad-args"),
  ("measure.getpost", fun a => match a with
    | [w, mn, mx] => encMeas (Measurement.getPost (decInt w) (if mn == "-" then none else some ⟨decInt mn, decInt mx⟩))
    | _ => "bad-args")
]

end RichModel.Drv.Ratio
