import RichModel.Lemmas.AnsiEcma
/-!
The repaired decoder reads every SGR parameter list the way ECMA-48 does (property C19, foreign ANSI).
-/
namespace RichModel
namespace Ansi
open AsciiStr Style

theorem absStyle_resetOf (cfg : Cfg) (hr : cfg.resetDropsLink = false) (st : Style) :
    absStyle (resetOf cfg st) = { on := 0, fg := none, bg := none, link := linkVal st.link } := by
  unfold resetOf
  simp only [hr, Bool.false_eq_true, if_false]
  by_cases hl : strTruthy st.link = true
  · simp [hl, absStyle, linkOnly, linkVal]
  · have : strTruthy st.link = false := by simpa using hl
    rw [if_neg hl]
    have e2 : linkVal st.link = none := by simp [linkVal, this]
    rw [e2]
    rfl

/-- **The decoder's loop over SGR parameters is the ECMA-48 interpreter** (repaired variant), from every
style that kept the constructors' invariant, for every parameter list without 26, whatever was consumed. -/
theorem applyCodes_means_ecma (cfg : Cfg) (hr : cfg.resetDropsLink = false) (ho : cfg.offSingle = false)
    (codes : List Nat) (h26 : ∀ c ∈ codes, c ≠ 26) (st : Style) (hs : Inv st) (k : Nat) :
    absStyle (applyCodes cfg st codes k).1 = ecmaFold (absStyle st) codes k ∧ Inv (applyCodes cfg st codes k).1 := by
  induction codes generalizing st k with
  | nil => exact ⟨rfl, hs⟩
  | cons c r ih =>
    have h26r : ∀ x ∈ r, x ≠ 26 := fun x hx => h26 x (by simp [hx])
    cases k with
    | succ k => simpa [applyCodes, ecmaFold] using ih h26r st hs k
    | zero =>
      by_cases h0 : c = 0
      · subst h0
        obtain ⟨r1, _, _, _⟩ := resetOf_facts cfg st
        have := ih h26r (resetOf cfg st) r1 0
        rw [absStyle_resetOf cfg hr] at this
        simpa [applyCodes, ecmaFold, absStyle] using this
      · obtain ⟨_, _, _, l38, l48⟩ := colorRows cfg.sv
        by_cases h38 : c = 38
        · subst h38
          have hv : sgrLookupV cfg 38 = none := by simp [sgrLookupV, l38]
          simp only [applyCodes, ecmaFold, hv, ecmaExt_extColor, if_true]
          simp only [show (38 : Nat) ≠ 0 by decide, if_false]
          cases he : extColor r with
          | none => exact ⟨rfl, hs⟩
          | some p =>
            obtain ⟨oc, n⟩ := p
            cases oc with
            | none => simpa using ih h26r st hs n
            | some col =>
              obtain ⟨hi, ha⟩ := absStyle_addColor cfg.sv hs col true
              simp only [if_true] at hi ha
              have := ih h26r _ hi n
              rw [ha] at this
              -- the colours the sub-parser builds always have a meaning
              have hcol : ∃ ck, absColor col = some ck := by
                cases r with
                | nil => simp [extColor] at he
                | cons ct r1 =>
                  simp only [extColor] at he
                  split at he
                  · cases r1 with
                    | nil => cases he
                    | cons n' _ => simp only [Option.some.injEq, Prod.mk.injEq] at he; rw [← he.1]; exact ⟨_, absColor_fromAnsi n'⟩
                  · split at he
                    · match r1, he with
                      | a :: b :: c' :: _, he => simp only [Option.some.injEq, Prod.mk.injEq] at he; rw [← he.1]; exact ⟨_, absColor_fromRgb a b c'⟩
                    · cases he
              obtain ⟨ck, hck⟩ := hcol
              simpa [hck] using this
        · by_cases h48 : c = 48
          · subst h48
            have hv : sgrLookupV cfg 48 = none := by simp [sgrLookupV, l48]
            simp only [applyCodes, ecmaFold, hv, ecmaExt_extColor]
            simp only [show (48 : Nat) ≠ 0 by decide, show (48 : Nat) ≠ 38 by decide, if_false, if_true]
            cases he : extColor r with
            | none => exact ⟨rfl, hs⟩
            | some p =>
              obtain ⟨oc, n⟩ := p
              cases oc with
              | none => simpa using ih h26r st hs n
              | some col =>
                obtain ⟨hi, ha⟩ := absStyle_addColor cfg.sv hs col false
                simp only [Bool.false_eq_true, if_false] at hi ha
                have := ih h26r _ hi n
                rw [ha] at this
                have hcol : ∃ ck, absColor col = some ck := by
                  cases r with
                  | nil => simp [extColor] at he
                  | cons ct r1 =>
                    simp only [extColor] at he
                    split at he
                    · cases r1 with
                      | nil => cases he
                      | cons n' _ => simp only [Option.some.injEq, Prod.mk.injEq] at he; rw [← he.1]; exact ⟨_, absColor_fromAnsi n'⟩
                    · split at he
                      · match r1, he with
                        | a :: b :: c' :: _, he => simp only [Option.some.injEq, Prod.mk.injEq] at he; rw [← he.1]; exact ⟨_, absColor_fromRgb a b c'⟩
                      · cases he
                obtain ⟨ck, hck⟩ := hcol
                simpa [hck] using this
          · -- a plain code: the table and ECMA-48 agree on it
            have hag := codeAgrees_all cfg ho hr c h0 (h26 c (by simp)) h38 h48
            unfold codeAgrees at hag
            simp only [applyCodes, ecmaFold, h0, h38, h48, if_false]
            cases hl : sgrLookupV cfg c with
            | none =>
              simp only [hl, beq_iff_eq] at hag
              simp only [hag]
              exact ih h26r st hs 0
            | some d =>
              simp only [hl] at hag
              cases hp : Style.parse cfg.sv d with
              | error e => simp [hp] at hag
              | ok b =>
                simp only [hp, Bool.and_eq_true, beq_iff_eq, Bool.not_eq_true', decide_eq_true_eq] at hag
                obtain ⟨⟨⟨⟨hlk, hnn⟩, hsub⟩, hlt⟩, heff⟩ := hag
                have hadd : Addend b := ⟨⟨hsub, hlt, by intro h; rw [hnn] at h; cases h⟩, hnn, hlk⟩
                have := ih h26r (add cfg.sv st b) (inv_add cfg.sv hs hadd.inv) 0
                rw [absStyle_add cfg.sv hs hadd] at this
                simpa [hl, hp, heff] using this

/-! ### the parameter string -/

/-- a parameter as written: omitted, or a number in decimal -/
def paramText : Option Nat → List Char
  | none => []
  | some n => natStr n

theorem codesLoop_params (cfg : Cfg) (he : cfg.emptyIgnored = false) (ps : List (Option Nat))
    (hlt : ∀ n, some n ∈ ps → n < 256) :
    codesLoop cfg (ps.map paramText) = .ok (ps.map (·.getD 0)) := by
  induction ps with
  | nil => rfl
  | cons p r ih =>
    have ihr := ih (fun n hn => hlt n (by simp [hn]))
    cases p with
    | none => simp [codesLoop, paramText, he, ihr, Except.map]
    | some n =>
      obtain ⟨h1, _, h3, h4⟩ := paramOk_unpack (natStr_paramOk (hlt n (by simp)))
      have hne : (natStr n).isEmpty = false := by
        simp only [strIsDigit, Bool.and_eq_true, Bool.not_eq_true'] at h1; exact h1.1
      simp [codesLoop, paramText, hne, h1, h3, ihr, Except.map, Nat.min_eq_right h4]

/-- **Omitted parameters are zeros** (ECMA-48 5.4.2), repaired variant: the parameter string
`p1;p2;…` with each `pi` omitted or a number ≤ 255 in decimal reads as those numbers, 0 for the omitted. -/
theorem sgrCodes_params (cfg : Cfg) (he : cfg.emptyIgnored = false) (ps : List (Option Nat)) (hne : ps ≠ [])
    (hlt : ∀ n, some n ∈ ps → n < 256) :
    sgrCodes cfg (joinWith ';' (ps.map paramText)) = .ok (ps.map (·.getD 0)) := by
  unfold sgrCodes
  rw [splitOn_joinWith ';' _ (by simpa using hne)]
  · exact codesLoop_params cfg he ps hlt
  · intro w hw c hc
    simp only [List.mem_map] at hw
    obtain ⟨p, hp, rfl⟩ := hw
    cases p with
    | none => simp [paramText] at hc
    | some n => exact ((paramOk_unpack (natStr_paramOk (hlt n hp))).2.1 c hc).1

/-- `ESC [ m`: no parameter at all is one omitted parameter, i.e. a reset. -/
theorem sgrCodes_empty (cfg : Cfg) (he : cfg.emptyIgnored = false) : sgrCodes cfg [] = .ok [0] := by
  simp [sgrCodes, splitOn, splitOnAux, codesLoop, he, Except.map]

end Ansi
end RichModel
