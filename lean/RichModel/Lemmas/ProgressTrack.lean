import RichModel.Lemmas.ProgressSeq
/-! Lemmas about the operation lists issued by `Progress.track` / `_TrackThread`. -/
namespace RichModel.Progress

theorem lastSet_cons (id : Nat) (v : Int) (op : Op) (l : List Op) :
    lastSet id v (op :: l) = lastSet id ((setValue id op).getD v) l := rfl

theorem advSince_cons (id : Nat) (a : Int) (op : Op) (l : List Op) :
    advSince id a (op :: l) = advSince id (if (setValue id op).isSome then 0 else a + advValue id op) l := rfl

theorem lastSet_advances (id : Nat) (v : Int) (l : List Op) (h : ∀ op ∈ l, ∃ a, op = .advance id a) :
    lastSet id v l = v := by
  induction l generalizing v with
  | nil => rfl
  | cons op r ih =>
    obtain ⟨a, rfl⟩ := h _ List.mem_cons_self
    rw [lastSet_cons]
    simp only [setValue, Option.getD_none]
    exact ih v (fun o ho => h o (List.mem_cons_of_mem _ ho))

theorem advSince_ones {α : Type} (id : Nat) (a : Int) (xs : List α) :
    advSince id a (xs.map (fun _ => Op.advance id 1)) = a + xs.length := by
  induction xs generalizing a with
  | nil => simp [advSince]
  | cons x r ih =>
    rw [List.map_cons, advSince_cons]
    simp only [setValue, Option.isSome_none, advValue, if_true, Bool.false_eq_true, if_false, List.length_cons]
    rw [ih (a + 1)]; simp only [Int.natCast_add, Int.natCast_one]; omega

theorem trackWakes_advances (id : Nat) (last : Int) (seen : List Int) :
    ∀ op ∈ trackWakes id last seen, ∃ a, op = .advance id a := by
  induction seen generalizing last with
  | nil => intro op h; cases h
  | cons c cs ih =>
    intro op h
    simp only [trackWakes] at h
    split at h
    · rcases List.mem_cons.mp h with rfl | h
      · exact ⟨_, rfl⟩
      · exact ih c op h
    · exact ih c op h

/-- the helper thread's advances telescope: after the wake-ups `seen` it has advanced by
(last value seen − start value) -/
theorem advSince_trackWakes (id : Nat) (a last : Int) (seen : List Int) :
    advSince id a (trackWakes id last seen) = a + (seen.getLast?.getD last - last) := by
  induction seen generalizing a last with
  | nil => simp [trackWakes, advSince]
  | cons c cs ih =>
    simp only [trackWakes]
    have hl : (c :: cs).getLast?.getD last = cs.getLast?.getD c := by
      cases cs with
      | nil => simp
      | cons d ds =>
        rw [List.getLast?_cons_cons]
        cases h : (d :: ds).getLast? with
        | none => simp at h
        | some z => rfl
    rw [hl]
    split
    · rw [advSince_cons]
      simp only [setValue, Option.isSome_none, advValue, if_true, Bool.false_eq_true, if_false]
      rw [ih (a + (c - last)) c]; omega
    · next heq =>
      have : last = c := by
        by_cases h : last = c
        · exact h
        · exact absurd h heq
      subst this
      exact ih a last

theorem lastSet_snoc_update (id : Nat) (v n : Int) (l : List Op) (r : Bool) :
    lastSet id v (l ++ [Op.update id ⟨none, some n, none, none, r, none, []⟩]) = n := by
  simp [lastSet, List.foldl_append, setValue]

theorem advSince_snoc_update (id : Nat) (a n : Int) (l : List Op) (r : Bool) :
    advSince id a (l ++ [Op.update id ⟨none, some n, none, none, r, none, []⟩]) = 0 := by
  simp [advSince, List.foldl_append, setValue]

/-- `add_task` puts a new task under the id `_task_index` -/
theorem step_addTask_lookup (cfg : Cfg) (clock : Clock) (st : State) (hwf : WF st) (a : AddArgs) :
    ∃ t, lookup (step cfg clock (.addTask a) st).st.tasks st.nextId = some t ∧
      t.completed = a.completed ∧ t.total = a.total ∧ t.samples = [] ∧ t.finishedTime = none := by
  rw [step_eq_body_none]
  simp only [body]
  rw [lookup_append_new (by intro x hx; exact hwf x hx)]
  simp

end RichModel.Progress
