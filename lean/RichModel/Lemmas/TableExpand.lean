import RichModel.Lemmas.TableGeneral
/-!
Exact expansion for ARBITRARY sane columns (fixed `width`, `min_width`, `max_width`, `no_wrap`): an expanding table is
exactly as wide as asked at or above the structural minimum PROVIDED the re-measure after the collapse does not push the
columns over the offer again — which can only happen through a `min_width` floor that the collapse (it knows nothing of
`min_width`) went below.
-/
namespace RichModel

/-- The `min_width + padding` floors, one per column. -/
def Table.floors (t : Table) : List Int := t.indexed.map (fun ci => t.colFloor ci.2 ci.1)

theorem floors_length (t : Table) : t.floors.length = t.columns.length := by simp [Table.floors, indexed_length]

/-- Re-measuring sane columns at widths `≥ 1` that are at or above every column's `min_width` floor never widens the table. -/
theorem remeasure_le_of_floor (t : Table) (h : t.Sane) (ws : List Int) (hlen : ws.length = t.columns.length)
    (h1 : ∀ w ∈ ws, 1 ≤ w) (hf : ∀ p ∈ ws.zip t.floors, p.2 ≤ p.1) : (t.remeasure ws).sum ≤ ws.sum := by
  unfold Table.remeasure
  unfold Table.floors at hf
  have hind : ∀ ci ∈ t.indexed, ci.1 ∈ t.columns := fun ci hci => mem_indexed t ci hci
  have hl : ws.length = t.indexed.length := by rw [indexed_length]; exact hlen
  clear hlen
  generalize t.indexed = ind at hind hl hf
  induction ws generalizing ind with
  | nil => cases ind with
    | nil => simp
    | cons _ _ => simp at hl
  | cons w ws ih =>
    cases ind with
    | nil => simp at hl
    | cons ci ind =>
      have hw1 := h1 w (by simp)
      have hfl := hf (w, t.colFloor ci.2 ci.1) (by simp)
      simp only at hfl
      have hb := measureColumn_le_floor t h ci.2 ci.1 (hind ci (by simp)) w hw1
      have hnn := measureColumn_nonneg t h ci.2 ci.1 (hind ci (by simp)) w
      have ho := orOne_bounds (t.measureColumn ci.2 ci.1 w).maximum w hnn
      have ho2 := ho.2 hw1 (by omega)
      have := ih (fun x hx => h1 x (List.mem_cons_of_mem _ hx)) ind (fun c hc => hind c (List.mem_cons_of_mem _ hc))
        (by simpa using hl) (fun p hp => hf p (by simp only [List.map_cons, List.zip_cons_cons, List.mem_cons]; exact Or.inr hp))
      simp only [List.zip_cons_cons, List.map_cons, List.sum_cons] at this ⊢
      omega

theorem ge_one_of_zip_le : ∀ (a b : List Int), (∀ p ∈ a.zip b, p.1 ≤ p.2) → a.length = b.length → (∀ w ∈ a, 1 ≤ w) → ∀ w ∈ b, 1 ≤ w := by
  intro a b hz hlen ha w hw
  obtain ⟨i, hi, rfl⟩ := List.getElem_of_mem hw
  have hia : i < a.length := by omega
  have := hz (a[i], b[i]) (by rw [List.mem_iff_getElem]; exact ⟨i, by simp; omega, by simp⟩)
  have := ha a[i] (List.getElem_mem _)
  simp only at *; omega

/-- The core: with `table_width` refreshed after the re-measure, an expanding sane table at or above its structural minimum
whose re-measured widths do not exceed the offer again is EXACTLY as wide as asked. -/
theorem calcWidths_expand_exact_general (fl : Flags) (hst : fl.staleTableWidth = false) (t : Table) (maxWidth : Int)
    (hexp : t.expand = true) (hfl : fl.minWidthCapsExpand = false ∨ t.minWidth = none)
    (hsane : t.Sane) (hne : t.columns ≠ [])
    (ws0 : List Int) (h0 : t.firstWidths fl maxWidth = some ws0) (hl : ws0.length = t.columns.length) (hp : ∀ w ∈ ws0, 1 ≤ w)
    (hbudget : nonWrapSum (ws0.zip t.wrapable) + wrapCount (ws0.zip t.wrapable) ≤ maxWidth)
    (hrem : maxWidth < ws0.sum → (t.remeasure (collapseWidths ws0 t.wrapable maxWidth)).sum ≤ maxWidth) :
    ∃ ws, t.calcWidths fl maxWidth = some ws ∧ ws.sum = maxWidth ∧ ws.length = t.columns.length ∧ ∀ w ∈ ws, 1 ≤ w := by
  have hne0 : ws0 ≠ [] := by
    intro h; rw [h] at hl; simp at hl
    exact hne (List.eq_nil_of_length_eq_zero hl.symm)
  rw [calcWidths_ne fl t maxWidth hne, h0]
  by_cases hover : ws0.sum > maxWidth
  · simp only [hover, if_true]
    obtain ⟨hpre, hrs, hrl, hr1⟩ := shrinkPre_budget t maxWidth ws0 hl hp (by omega) hbudget
    unfold Table.shrinkWidths
    simp only [hpre, hst, Bool.false_eq_true, if_false]
    obtain ⟨hml, hm1, _⟩ := remeasure_general t hsane _ hrl hr1
    have hms := hrem (by omega)
    have hmne : t.remeasure (collapseWidths ws0 t.wrapable maxWidth) ≠ [] := by
      intro h; rw [h] at hml; simp at hml
      exact hne (List.eq_nil_of_length_eq_zero hml.symm)
    obtain ⟨r, h1, h2, h3, h4⟩ := padWidths_spec fl t _ (t.remeasure (collapseWidths ws0 t.wrapable maxWidth)).sum maxWidth hmne hm1
    refine ⟨r, h1, ?_, by omega, ge_one_of_zip_le _ _ h4 h2.symm hm1⟩
    rw [h3, padTarget_expand fl t maxWidth hexp hfl]
    split
    · omega
    · rename_i hc
      unfold Table.padCond at hc
      simp only [hexp, Bool.and_true, Bool.or_eq_true, decide_eq_true_eq, not_or] at hc
      omega
  · simp only [hover, if_false]
    obtain ⟨r, h1, h2, h3, h4⟩ := padWidths_spec fl t ws0 ws0.sum maxWidth hne0 hp
    refine ⟨r, h1, ?_, by omega, ge_one_of_zip_le _ _ h4 h2.symm hp⟩
    rw [h3, padTarget_expand fl t maxWidth hexp hfl]
    split
    · omega
    · rename_i hc
      unfold Table.padCond at hc
      simp only [hexp, Bool.and_true, Bool.or_eq_true, decide_eq_true_eq, not_or] at hc
      omega

/-- No column has a `min_width` that is read (fixed-width columns ignore theirs): every floor is 0. -/
theorem floors_zero (t : Table) (hnomin : ∀ c ∈ t.columns, c.minWidth = none ∨ c.width.isSome = true) : ∀ f ∈ t.floors, f = 0 := by
  intro f hf
  simp only [Table.floors, List.mem_map] at hf
  obtain ⟨ci, hci, rfl⟩ := hf
  unfold Table.colFloor
  rcases hnomin ci.1 (mem_indexed t ci hci) with h | h
  · simp [h]
  · simp [h]

end RichModel
