import RichModel.Model.Frames
import RichModel.Lemmas.Cells
import RichModel.Lemmas.Segment
/-!
Helper lemmas for `Model/Frames`: what `Segment.split_lines` makes of a frame's output
(line-terminated chunks), newline-freeness of shaped lines, cell arithmetic of the pieces.
-/
namespace RichModel.Frames
open RichModel
variable {σ : Type}

/-! ### cell arithmetic of frame-made pieces -/

@[simp] theorem lineLength_seg (cw : Char → Nat) (t : List Char) :
    lineLength cw ([seg t] : List (Segment σ)) = cellLen cw t := by
  simp [lineLength, seg, Segment.cellLength]

theorem cellLen_rep (cw : Char → Nat) (n : Int) (c : Char) (h : cw c = 1) : cellLen cw (rep n c) = n.toNat := by
  simp [rep, cellLen_replicate, h]

@[simp] theorem rep_length (n : Int) (c : Char) : (rep n c).length = n.toNat := by simp [rep]

theorem cellLen_cons (cw : Char → Nat) (c : Char) (s : List Char) : cellLen cw (c :: s) = cw c + cellLen cw s := by
  simp [cellLen]

@[simp] theorem cellLen_nil (cw : Char → Nat) : cellLen cw [] = 0 := rfl

theorem cellLen_eq_length (cw : Char → Nat) (s : List Char) (h : ∀ c ∈ s, cw c = 1) : cellLen cw s = s.length := by
  induction s with
  | nil => rfl
  | cons c s ih =>
    rw [cellLen_cons, h c (by simp), ih (fun d hd => h d (by simp [hd]))]
    simp; omega

/-! ### newline-free lines and `split_lines` -/

/-- no segment of the line would be split by `split_lines` -/
def NlFree (l : List (Segment σ)) : Prop := ∀ s ∈ l, (s.text.contains '\n' && !s.control) = false

theorem NlFree.nil : NlFree ([] : List (Segment σ)) := by intro s hs; simp at hs

theorem NlFree.append {a b : List (Segment σ)} (ha : NlFree a) (hb : NlFree b) : NlFree (a ++ b) := by
  intro s hs
  rcases List.mem_append.mp hs with h | h
  · exact ha s h
  · exact hb s h

theorem NlFree.of_append_left {a b : List (Segment σ)} (h : NlFree (a ++ b)) : NlFree a :=
  fun s hs => h s (List.mem_append.mpr (Or.inl hs))

theorem NlFree.of_append_right {a b : List (Segment σ)} (h : NlFree (a ++ b)) : NlFree b :=
  fun s hs => h s (List.mem_append.mpr (Or.inr hs))

theorem NlFree.cons {s : Segment σ} {l : List (Segment σ)} (hs : (s.text.contains '\n' && !s.control) = false)
    (hl : NlFree l) : NlFree (s :: l) := by
  intro x hx
  rcases List.mem_cons.mp hx with h | h
  · subst h; exact hs
  · exact hl x h

theorem contains_nl_false_iff (t : List Char) : t.contains '\n' = false ↔ ∀ c ∈ t, c ≠ '\n' := by
  simp only [List.contains_eq_mem, decide_eq_false_iff_not]
  constructor
  · intro h c hc heq; subst heq; exact h hc
  · intro h hm; exact h _ hm rfl

theorem nlFree_seg (t : List Char) (h : ∀ c ∈ t, c ≠ '\n') : NlFree ([seg t] : List (Segment σ)) := by
  intro s hs
  simp only [List.mem_singleton] at hs
  subst hs
  have : (t.contains '\n') = false := (contains_nl_false_iff t).mpr h
  simp only [seg, this, Bool.false_and]

theorem nlFree_seg_rep (n : Int) (c : Char) (h : c ≠ '\n') : NlFree ([seg (rep n c)] : List (Segment σ)) := by
  apply nlFree_seg
  intro d hd
  simp only [rep, List.mem_replicate] at hd
  rw [hd.2]; exact h

/-- feeding a newline-free line to the `split_lines` loop only extends the current line -/
theorem foldl_step_nlFree : ∀ (l cur : List (Segment σ)) (acc : List (List (Segment σ))), NlFree l →
    l.foldl splitLinesStep (cur, acc) = (cur ++ l, acc)
  | [], cur, acc, _ => by simp
  | s :: rest, cur, acc, h => by
    have hs := h s (by simp)
    have hrest : NlFree rest := fun x hx => h x (by simp [hx])
    simp only [List.foldl_cons]
    have : splitLinesStep (cur, acc) s = (cur ++ [s], acc) := by
      unfold splitLinesStep
      rw [if_neg (by rw [hs]; decide)]
    rw [this, foldl_step_nlFree rest _ _ hrest]
    simp

theorem nlPieces_prefix : ∀ (t rest cur : List Char), (∀ c ∈ t, c ≠ '\n') →
    nlPieces (t ++ '\n' :: rest) cur = (cur.reverse ++ t, true) :: nlPieces rest []
  | [], rest, cur, _ => by simp [nlPieces]
  | c :: t, rest, cur, h => by
    have hc : (c == '\n') = false := by simpa using h c (by simp)
    simp only [List.cons_append, nlPieces, hc, Bool.false_eq_true, if_false]
    rw [nlPieces_prefix t rest (c :: cur) (fun d hd => h d (by simp [hd]))]
    simp

/-- `Segment.line()` ends the current line -/
theorem step_nl (cur : List (Segment σ)) (acc : List (List (Segment σ))) :
    splitLinesStep (cur, acc) (nl : Segment σ) = ([], cur :: acc) := by
  simp [splitLinesStep, nl, seg, nlPieces]

/-- a frame-made segment `t + "\n"` (the blank line of `Padding`) ends the current line after `t` -/
theorem step_text_nl (t : List Char) (h : ∀ c ∈ t, c ≠ '\n') (cur : List (Segment σ)) (acc : List (List (Segment σ))) :
    splitLinesStep (cur, acc) (seg (t ++ ['\n']) : Segment σ) =
      ([], (if t.isEmpty then cur else cur ++ [seg t]) :: acc) := by
  unfold splitLinesStep
  have hc : ((seg (t ++ ['\n']) : Segment σ).text.contains '\n' && !(seg (t ++ ['\n']) : Segment σ).control) = true := by
    simp [seg]
  rw [if_pos hc]
  have hp : nlPieces (seg (t ++ ['\n']) : Segment σ).text [] = [(t, true)] := by
    have := nlPieces_prefix t [] [] h
    simpa [seg, nlPieces] using this
  rw [hp]
  simp [seg]

/-- `chunk` fed to `split_lines` at a line start yields exactly the one line `line` and is back at a line start -/
def Terminated (chunk : List (Segment σ)) (line : List (Segment σ)) : Prop :=
  ∀ acc, chunk.foldl splitLinesStep ([], acc) = ([], line :: acc)

theorem terminated_line (l : List (Segment σ)) (h : NlFree l) : Terminated (l ++ [nl]) l := by
  intro acc
  rw [List.foldl_append, foldl_step_nlFree l [] acc h]
  simp [step_nl]

theorem terminated_text_nl (t : List Char) (h : ∀ c ∈ t, c ≠ '\n') :
    Terminated ([seg (t ++ ['\n'])] : List (Segment σ)) (if t.isEmpty then [] else [seg t]) := by
  intro acc
  simp only [List.foldl_cons, List.foldl_nil]
  rw [step_text_nl t h]
  split <;> simp

theorem foldl_chunks : ∀ (cs : List (List (Segment σ) × List (Segment σ))) (acc : List (List (Segment σ))),
    (∀ p ∈ cs, Terminated p.1 p.2) →
    (cs.flatMap (·.1)).foldl splitLinesStep ([], acc) = ([], (cs.map (·.2)).reverse ++ acc)
  | [], acc, _ => by simp
  | p :: cs, acc, h => by
    simp only [List.flatMap_cons, List.foldl_append]
    rw [h p (by simp) acc, foldl_chunks cs _ (fun q hq => h q (by simp [hq]))]
    simp

/-- `split_lines` of a concatenation of line-terminated chunks is the list of their lines -/
theorem splitLines_chunks (cs : List (List (Segment σ) × List (Segment σ))) (h : ∀ p ∈ cs, Terminated p.1 p.2) :
    splitLines (cs.flatMap (·.1)) = cs.map (·.2) := by
  unfold splitLines
  rw [foldl_chunks cs [] h]
  simp

/-- the common case: every line followed by `Segment.line()` -/
theorem splitLines_lines (ls : List (List (Segment σ))) (h : ∀ l ∈ ls, NlFree l) :
    splitLines (ls.flatMap (fun l => l ++ [nl])) = ls := by
  have := splitLines_chunks (ls.map (fun l => (l ++ [nl], l))) (by
    intro p hp
    simp only [List.mem_map] at hp
    obtain ⟨l, hl, rfl⟩ := hp
    exact terminated_line l (h l hl))
  simpa [List.flatMap_map, List.map_map, Function.comp_def] using this

/-! ### shaping keeps lines newline-free -/

theorem setCellSize_no_nl (cw : Char → Nat) (hsp : cw ' ' = 1) (h2 : ∀ c, cw c ≤ 2) (t : List Char) (n : Nat)
    (h : ∀ c ∈ t, c ≠ '\n') : ∀ c ∈ setCellSize cw t n, c ≠ '\n' := by
  obtain ⟨k, m, hk⟩ := (setCellSize_exact cw hsp h2 t n).2
  rw [hk]
  intro c hc
  rcases List.mem_append.mp hc with hc | hc
  · exact h c (List.mem_of_mem_take hc)
  · simp only [List.mem_replicate] at hc
    rw [hc.2]; decide

theorem cropLoop_nlFree (cw : Char → Nat) (hsp : cw ' ' = 1) (h2 : ∀ c, cw c ≤ 2) (length : Nat) :
    ∀ (line : List (Segment σ)) (acc : Nat), NlFree line → NlFree (cropLoop cw length line acc)
  | [], _, _ => by simp [cropLoop]; exact NlFree.nil
  | s :: rest, acc, h => by
    have hs := h s (by simp)
    have hrest : NlFree rest := fun x hx => h x (by simp [hx])
    unfold cropLoop
    simp only
    split
    · exact NlFree.cons hs (cropLoop_nlFree cw hsp h2 length rest _ hrest)
    · rename_i hc
      simp only [Bool.or_eq_true, decide_eq_true_eq, not_or, Bool.not_eq_true] at hc
      have hnc : s.control = false := hc.2
      have hno : s.text.contains '\n' = false := by simpa [hnc] using hs
      apply NlFree.cons _ NlFree.nil
      simp only [Bool.not_false, Bool.and_true]
      rw [contains_nl_false_iff]
      exact setCellSize_no_nl cw hsp h2 s.text _ ((contains_nl_false_iff _).mp hno)

theorem adjust_nlFree (cw : Char → Nat) (hsp : cw ' ' = 1) (h2 : ∀ c, cw c ≤ 2) (line : List (Segment σ))
    (n : Nat) (st : Option σ) (pad : Bool) (h : NlFree line) : NlFree (adjustLineLength cw line n st pad) := by
  unfold adjustLineLength
  simp only
  split
  · split
    · apply NlFree.append h
      intro s hs
      simp only [List.mem_singleton] at hs
      subst hs
      simp only [Bool.not_false, Bool.and_true]
      rw [contains_nl_false_iff]
      intro c hc
      simp only [List.mem_replicate] at hc
      rw [hc.2]; decide
    · exact h
  · split
    · exact cropLoop_nlFree cw hsp h2 n line 0 h
    · exact h

/-- every line `split_lines` produces is newline-free -/
theorem splitLines_nlFree (segs : List (Segment σ)) : ∀ l ∈ splitLines segs, NlFree l := by
  have inner : ∀ (sty : Option σ) (ps : List (List Char × Bool)) (st : List (Segment σ) × List (List (Segment σ))),
      (∀ p ∈ ps, ∀ c ∈ p.1, c ≠ '\n') → NlFree st.1 → (∀ l ∈ st.2, NlFree l) →
      let r := ps.foldl (fun (st : List (Segment σ) × List (List (Segment σ))) p =>
        let line := if p.1.isEmpty then st.1 else st.1 ++ [{ text := p.1, style := sty, control := false }]
        if p.2 then ([], line :: st.2) else (line, st.2)) st
      NlFree r.1 ∧ ∀ l ∈ r.2, NlFree l := by
    intro sty ps
    induction ps with
    | nil => intro st _ h1 h2; exact ⟨h1, h2⟩
    | cons p ps ih =>
      intro st hp h1 h2
      simp only [List.foldl_cons]
      have hline : NlFree (if p.1.isEmpty then st.1 else st.1 ++ [{ text := p.1, style := sty, control := false }]) := by
        split
        · exact h1
        · apply NlFree.append h1
          intro s hs
          simp only [List.mem_singleton] at hs
          subst hs
          simp only [Bool.not_false, Bool.and_true]
          rw [contains_nl_false_iff]
          exact hp p (by simp)
      apply ih
      · intro q hq; exact hp q (by simp [hq])
      · split
        · exact NlFree.nil
        · exact hline
      · split
        · intro l hl
          rcases List.mem_cons.mp hl with h | h
          · subst h; exact hline
          · exact h2 l h
        · exact h2
  have pieces : ∀ (text cur : List Char), (∀ c ∈ cur, c ≠ '\n') → ∀ p ∈ nlPieces text cur, ∀ c ∈ p.1, c ≠ '\n' := by
    intro text
    induction text with
    | nil =>
      intro cur hcur p hp c hc
      unfold nlPieces at hp
      split at hp
      · simp at hp
      · simp only [List.mem_singleton] at hp
        subst hp
        exact hcur c (by simpa using hc)
    | cons d text ih =>
      intro cur hcur p hp c hc
      unfold nlPieces at hp
      split at hp
      · rcases List.mem_cons.mp hp with h | h
        · subst h; exact hcur c (by simpa using hc)
        · exact ih [] (by simp) p h c hc
      · rename_i hd
        apply ih (d :: cur) _ p hp c hc
        intro e he
        rcases List.mem_cons.mp he with h | h
        · subst h; simpa using hd
        · exact hcur e h
  have key : ∀ (l : List (Segment σ)) (st : List (Segment σ) × List (List (Segment σ))),
      NlFree st.1 → (∀ x ∈ st.2, NlFree x) →
      NlFree (l.foldl splitLinesStep st).1 ∧ ∀ x ∈ (l.foldl splitLinesStep st).2, NlFree x := by
    intro l
    induction l with
    | nil => intro st h1 h2; exact ⟨h1, h2⟩
    | cons s rest ih =>
      intro st h1 h2
      simp only [List.foldl_cons]
      have hstep : NlFree (splitLinesStep st s).1 ∧ ∀ x ∈ (splitLinesStep st s).2, NlFree x := by
        unfold splitLinesStep
        split
        · exact inner s.style _ st (pieces s.text [] (by simp)) h1 h2
        · rename_i hc
          refine ⟨NlFree.append h1 ?_, h2⟩
          intro x hx
          simp only [List.mem_singleton] at hx
          subst hx
          simpa using hc
      exact ih _ hstep.1 hstep.2
  intro l hl
  unfold splitLines at hl
  have := key segs ([], []) NlFree.nil (by simp)
  simp only at hl
  split at hl
  · exact this.2 l (by simpa using hl)
  · simp only [List.mem_reverse, List.mem_cons] at hl
    rcases hl with h | h
    · subst h; exact this.1
    · exact this.2 l h

/-- lines of `Console.render_lines` are newline-free -/
theorem renderLines_nlFree (cw : Char → Nat) (hsp : cw ' ' = 1) (h2 : ∀ c, cw c ≤ 2)
    (rendered : List (Segment σ)) (w : Int) (pad : Bool) : ∀ l ∈ renderLines cw rendered w pad, NlFree l := by
  intro l hl
  unfold renderLines at hl
  rw [splitAndCrop_eq_tagged] at hl
  simp only [Bool.and_false, Bool.false_eq_true, if_false, List.append_nil, List.mem_map] at hl
  obtain ⟨p, hp, rfl⟩ := hl
  apply adjust_nlFree cw hsp h2
  apply splitLines_nlFree rendered
  rw [splitLines_eq_tagged]
  exact List.mem_map_of_mem hp

/-- …and, when padding, exactly `w` cells wide -/
theorem renderLines_exact (cw : Char → Nat) (hsp : cw ' ' = 1) (h2 : ∀ c, cw c ≤ 2)
    (rendered : List (Segment σ)) (w : Int) : ∀ l ∈ renderLines cw rendered w true, lineLength cw l = w.toNat := by
  intro l hl
  unfold renderLines at hl
  rw [splitAndCrop_eq_tagged] at hl
  simp only [Bool.and_false, Bool.false_eq_true, if_false, List.append_nil, List.mem_map] at hl
  obtain ⟨p, _, rfl⟩ := hl
  exact adjust_exact cw hsp h2 p.1 w.toNat none true (Or.inl rfl)

/-- without padding a rendered line is at most `w` cells wide -/
theorem renderLines_le (cw : Char → Nat) (hsp : cw ' ' = 1) (h2 : ∀ c, cw c ≤ 2)
    (rendered : List (Segment σ)) (w : Int) (pad : Bool) : ∀ l ∈ renderLines cw rendered w pad, lineLength cw l ≤ w.toNat := by
  intro l hl
  unfold renderLines at hl
  rw [splitAndCrop_eq_tagged] at hl
  simp only [Bool.and_false, Bool.false_eq_true, if_false, List.append_nil, List.mem_map] at hl
  obtain ⟨p, _, rfl⟩ := hl
  by_cases hle : w.toNat ≤ lineLength cw p.1
  · exact Nat.le_of_eq (adjust_exact cw hsp h2 p.1 w.toNat none pad (Or.inr hle))
  · cases pad with
    | true => exact Nat.le_of_eq (adjust_exact cw hsp h2 p.1 w.toNat none true (Or.inl rfl))
    | false =>
      have : adjustLineLength cw p.1 w.toNat none false = p.1 := by
        unfold adjustLineLength
        simp only
        have hlt : lineLength cw p.1 < w.toNat := by omega
        simp [hlt]
      rw [this]; omega

end RichModel.Frames
