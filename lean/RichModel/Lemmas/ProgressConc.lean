import RichModel.Lemmas.ProgressSeq
/-!
Threads: the counters of the progress model do not depend on the clock, so every interleaving is
a sequential execution in lock-acquisition order (`abs_runSched`); with the clock read under the
lock the *whole* state is (`fixed_sched_sequential`).
-/
namespace RichModel.Progress

/-- the counters of a task: everything that is not a timestamp -/
structure ATask where
  id : Nat
  total : Int
  completed : Int
  visible : Bool
  description : Nat
  fields : List (Nat × Int)
deriving DecidableEq, Repr

structure AState where
  tasks : List ATask
  nextId : Nat
  started : Bool
deriving DecidableEq, Repr

def absTask (t : Task) : ATask := ⟨t.id, t.total, t.completed, t.visible, t.description, t.fields⟩
def absState (st : State) : AState := ⟨st.tasks.map absTask, st.nextId, st.started⟩

/-- clock-free specification of what an operation does to the counters of the task it addresses -/
def aEffect (op : Op) (a : ATask) : ATask :=
  match op with
  | .update _ u =>
    { a with total := u.total.getD a.total,
             completed := u.completed.getD (a.completed + u.advance.getD 0),
             visible := u.visible.getD a.visible,
             description := u.description.getD a.description,
             fields := dictUpdate a.fields u.fields }
  | .reset _ r =>
    { a with total := r.total.getD a.total, completed := r.completed, visible := r.visible.getD a.visible,
             description := r.description.getD a.description,
             fields := if r.fields.isEmpty then a.fields else r.fields }
  | .advance _ amt => { a with completed := a.completed + amt }
  | _ => a

def aLookup (l : List ATask) (id : Nat) : Option ATask := l.find? (fun t => t.id == id)

/-- clock-free sequential specification of the counters -/
def aBody (op : Op) (a : AState) : AState :=
  match op with
  | .addTask x =>
    ⟨a.tasks ++ [⟨a.nextId, x.total, x.completed, x.visible, x.description, x.fields⟩], a.nextId + 1, a.started⟩
  | .refresh => a
  | .start => { a with started := true }
  | .stop => { a with started := false }
  | .removeTask id =>
    match aLookup a.tasks id with
    | none => a
    | some _ => ⟨a.tasks.filter (fun t => t.id != id), a.nextId, a.started⟩
  | op =>
    match op.target with
    | none => a
    | some id =>
      match aLookup a.tasks id with
      | none => a
      | some x => ⟨a.tasks.map (fun t => if t.id = id then aEffect op x else t), a.nextId, a.started⟩

def aRun (ops : List Op) (a : AState) : AState := ops.foldl (fun a op => aBody op a) a

theorem applyUpd_visible (u : UpdArgs) (t : Task) : (t.applyUpd u).visible = u.visible.getD t.visible := by
  unfold Task.applyUpd; cases u.total <;> cases u.advance <;> cases u.completed <;> cases u.description <;> cases u.visible <;> simp
theorem applyUpd_description (u : UpdArgs) (t : Task) : (t.applyUpd u).description = u.description.getD t.description := by
  unfold Task.applyUpd; cases u.total <;> cases u.advance <;> cases u.completed <;> cases u.description <;> cases u.visible <;> simp
theorem applyUpd_fields (u : UpdArgs) (t : Task) : (t.applyUpd u).fields = dictUpdate t.fields u.fields := by
  unfold Task.applyUpd; cases u.total <;> cases u.advance <;> cases u.completed <;> cases u.description <;> cases u.visible <;> simp
@[simp] theorem finishCheck_description (clock : Clock) (t : Task) (k : Nat) :
    (t.finishCheck clock k).1.description = t.description := by
  unfold Task.finishCheck; split <;> rfl
@[simp] theorem finishCheck_fields (clock : Clock) (t : Task) (k : Nat) :
    (t.finishCheck clock k).1.fields = t.fields := by
  unfold Task.finishCheck; split <;> rfl

theorem absTask_taskEffect (cfg : Cfg) (clock : Clock) (op : Op) (pre : Option Int) (o : Nat) (t : Task) (k : Nat) :
    absTask (taskEffect cfg clock op pre o t k).1 = aEffect op (absTask t) := by
  cases op with
  | addTask => rfl
  | removeTask => rfl
  | startTask i => simp only [taskEffect]; split <;> rfl
  | stopTask i => rfl
  | reset i r => rfl
  | refresh => rfl
  | start => rfl
  | stop => rfl
  | update i u =>
    simp only [taskEffect, Task.updateBody, absTask, aEffect, finishCheck_id, finishCheck_total,
      finishCheck_completed, finishCheck_visible, finishCheck_description, finishCheck_fields, applyUpd_id,
      applyUpd_total, applyUpd_completed, applyUpd_visible, applyUpd_description, applyUpd_fields]
  | advance i a =>
    simp only [taskEffect, Task.advanceBody, absTask, aEffect, finishCheck_id, finishCheck_total,
      finishCheck_completed, finishCheck_visible, finishCheck_description, finishCheck_fields]

theorem aLookup_map (l : List Task) (id : Nat) : aLookup (l.map absTask) id = (lookup l id).map absTask := by
  unfold aLookup lookup
  rw [List.find?_map]; rfl

theorem map_setTask (l : List Task) (id : Nat) (r : Task) :
    (setTask id r l).map absTask = (l.map absTask).map (fun t => if t.id = id then absTask r else t) := by
  unfold setTask
  rw [List.map_map, List.map_map]
  apply List.map_congr_left
  intro t _
  simp only [Function.comp]
  split <;> simp_all [absTask]

theorem map_filter (l : List Task) (id : Nat) :
    (l.filter (fun t => t.id != id)).map absTask = (l.map absTask).filter (fun t => t.id != id) := by
  rw [List.filter_map]; rfl

/-- **Simulation.** The counters after a locked body are the clock-free specification applied to the
counters before — whatever the clock, the reading carried in, and the code variant. -/
theorem abs_body (cfg : Cfg) (clock : Clock) (op : Op) (pre : Option Int) (st : State) :
    absState (body cfg clock op pre st).st = aBody op (absState st) := by
  by_cases hrm : ∃ i, op = .removeTask i
  · obtain ⟨i, rfl⟩ := hrm
    simp only [body, aBody, absState, aLookup_map]
    cases lookup st.tasks i with
    | none => rfl
    | some x => simp only [Option.map_some]; rw [map_filter]
  · have hr : ∀ i, op ≠ .removeTask i := fun i hi => hrm ⟨i, hi⟩
    cases htg : op.target with
    | none =>
      cases op with
      | addTask x => simp [body, aBody, absState, absTask]
      | refresh => rfl
      | start => simp only [body, aBody, absState]; split <;> simp_all
      | stop => simp only [body, aBody, absState]; split <;> simp_all
      | removeTask i => exact absurd rfl (hr i)
      | startTask i => simp [Op.target] at htg
      | stopTask i => simp [Op.target] at htg
      | update i u => simp [Op.target] at htg
      | reset i => simp [Op.target] at htg
      | advance i a => simp [Op.target] at htg
    | some j =>
      rw [body_target cfg clock op pre st j htg hr]
      have hspec : aBody op (absState st) =
          match aLookup (absState st).tasks j with
          | none => absState st
          | some x => ⟨(absState st).tasks.map (fun t => if t.id = j then aEffect op x else t), (absState st).nextId, (absState st).started⟩ := by
        cases op with
        | addTask => simp [Op.target] at htg
        | removeTask i => exact absurd rfl (hr i)
        | startTask i => simp only [Op.target, Option.some.injEq] at htg; subst htg; rfl
        | stopTask i => simp only [Op.target, Option.some.injEq] at htg; subst htg; rfl
        | update i u => simp only [Op.target, Option.some.injEq] at htg; subst htg; rfl
        | reset i => simp only [Op.target, Option.some.injEq] at htg; subst htg; rfl
        | advance i a => simp only [Op.target, Option.some.injEq] at htg; subst htg; rfl
        | refresh => simp [Op.target] at htg
        | start => simp [Op.target] at htg
        | stop => simp [Op.target] at htg
      rw [hspec]
      simp only [absState, aLookup_map]
      cases lookup st.tasks j with
      | none => rfl
      | some x =>
        simp only [Option.map_some]
        rw [map_setTask, absTask_taskEffect]

theorem abs_preRead (cfg : Cfg) (clock : Clock) (op : Op) (st : State) :
    absState (preRead cfg clock op st).2 = absState st := by
  unfold preRead; split <;> rfl

theorem abs_step (cfg : Cfg) (clock : Clock) (op : Op) (st : State) :
    absState (step cfg clock op st).st = aBody op (absState st) := by
  unfold step; rw [abs_body, abs_preRead]

theorem abs_run (cfg : Cfg) (clock : Clock) (ops : List Op) (st : State) :
    absState (run cfg clock ops st) = aRun ops (absState st) := by
  induction ops generalizing st with
  | nil => rfl
  | cons op ops ih => simp only [run, aRun, List.foldl_cons]; rw [ih, abs_step]; rfl

/-- the counters proper: the task table and the next id (not the display flag) -/
def AState.core (a : AState) : List ATask × Nat := (a.tasks, a.nextId)

theorem aBody_core_congr (op : Op) (a b : AState) (h : a.core = b.core) : (aBody op a).core = (aBody op b).core := by
  obtain ⟨at_, an, as_⟩ := a
  obtain ⟨bt, bn, bs⟩ := b
  simp only [AState.core, Prod.mk.injEq] at h
  obtain ⟨rfl, rfl⟩ := h
  cases op with
  | addTask x => rfl
  | refresh => rfl
  | start => rfl
  | stop => rfl
  | removeTask i => simp only [aBody]; cases aLookup at_ i <;> rfl
  | startTask i => simp only [aBody, Op.target]; cases aLookup at_ i <;> rfl
  | stopTask i => simp only [aBody, Op.target]; cases aLookup at_ i <;> rfl
  | update i u => simp only [aBody, Op.target]; cases aLookup at_ i <;> rfl
  | reset i r => simp only [aBody, Op.target]; cases aLookup at_ i <;> rfl
  | advance i x => simp only [aBody, Op.target]; cases aLookup at_ i <;> rfl

theorem aBody_display_core (op : Op) (a : AState) (h : op.isDisplay = true) : (aBody op a).core = a.core := by
  cases op <;> first | rfl | simp [Op.isDisplay] at h

/-- **The live display never touches the accounting**: dropping every `refresh` / `start` / `stop`
from a history (those of any number of `_RefreshThread` wake-ups included) leaves all counters as
they are. -/
theorem aRun_drop_display (ops : List Op) : ∀ a b : AState, a.core = b.core →
    (aRun ops a).core = (aRun (ops.filter (fun o => !o.isDisplay)) b).core := by
  induction ops with
  | nil => intro a b h; exact h
  | cons op ops ih =>
    intro a b h
    cases hd : op.isDisplay with
    | true =>
      simp only [List.filter_cons, hd, Bool.not_true, Bool.false_eq_true, if_false, aRun, List.foldl_cons]
      exact ih _ _ (by rw [aBody_display_core op a hd]; exact h)
    | false =>
      simp only [List.filter_cons, hd, Bool.not_false, if_true, aRun, List.foldl_cons]
      exact ih _ _ (aBody_core_congr op a b h)

/-- what one thread step is -/
theorem stepThread_spec (cfg : Cfg) (clock : Clock) (i : Nat) (c c' : Conf) (e : Event)
    (h : stepThread cfg clock i c = some (c', e)) :
    (e = .read i ∧ absState c'.st = absState c.st) ∨
    (∃ op pre err, e = .commit i op pre err ∧ c'.st = (body cfg clock op pre c.st).st) := by
  unfold stepThread at h
  cases hth : c.threads[i]? with
  | none => simp [hth] at h
  | some th =>
    simp only [hth] at h
    cases hp : th.prog with
    | nil => simp [hp] at h
    | cons op rest =>
      simp only [hp] at h
      split at h
      · simp only [Option.some.injEq, Prod.mk.injEq] at h
        obtain ⟨rfl, rfl⟩ := h
        exact Or.inl ⟨rfl, rfl⟩
      · simp only [Option.some.injEq, Prod.mk.injEq] at h
        obtain ⟨rfl, rfl⟩ := h
        exact Or.inr ⟨op, th.pending, _, rfl, rfl⟩

theorem abs_runSched (cfg : Cfg) (clock : Clock) (sched : List Nat) :
    ∀ c : Conf, absState (runSched cfg clock sched c).1.st =
      aRun ((commits (runSched cfg clock sched c).2).map Prod.fst) (absState c.st) := by
  induction sched with
  | nil => intro c; rfl
  | cons i is ih =>
    intro c
    simp only [runSched]
    cases hs : stepThread cfg clock i c with
    | none => simp only; exact ih c
    | some p =>
      obtain ⟨c', e⟩ := p
      simp only
      rcases stepThread_spec cfg clock i c c' e hs with ⟨rfl, ha⟩ | ⟨op, pre, err, rfl, hc⟩
      · rw [ih c', ha]; rfl
      · rw [ih c']
        simp only [commits, List.map_cons, aRun, List.foldl_cons]
        rw [hc, abs_body]

/-- with the clock read under the lock every thread step is one whole sequential operation -/
theorem stepThread_fixed (cfg : Cfg) (clock : Clock) (hfix : cfg.clockOutside = false) (i : Nat) (c c' : Conf)
    (e : Event) (hp : ∀ th ∈ c.threads, th.pending = none) (h : stepThread cfg clock i c = some (c', e)) :
    (∃ op err, e = .commit i op none err ∧ c'.st = (step cfg clock op c.st).st) ∧
    (∀ th ∈ c'.threads, th.pending = none) := by
  unfold stepThread at h
  cases hth : c.threads[i]? with
  | none => simp [hth] at h
  | some th =>
    simp only [hth] at h
    have hpn := hp th (List.mem_of_getElem? hth)
    cases hpr : th.prog with
    | nil => simp [hpr] at h
    | cons op rest =>
      simp only [hpr] at h
      have hro : op.readsOutside cfg = false := by cases op <;> simp [Op.readsOutside, hfix]
      simp only [hro, Bool.false_and] at h
      simp only [Bool.false_eq_true, if_false, Option.some.injEq, Prod.mk.injEq] at h
      obtain ⟨rfl, rfl⟩ := h
      refine ⟨⟨op, _, by rw [hpn], by rw [hpn, step_eq_body_none]⟩, ?_⟩
      intro th' hm
      simp only [setThread] at hm
      rcases List.mem_or_eq_of_mem_set hm with hm | rfl
      · exact hp th' hm
      · rfl

/-- **Repaired variant.** Every schedule leaves exactly the state of the sequential history of the
operations in lock-acquisition order, on the same clock. -/
theorem fixed_sched_sequential (cfg : Cfg) (clock : Clock) (hfix : cfg.clockOutside = false) (sched : List Nat) :
    ∀ c : Conf, (∀ th ∈ c.threads, th.pending = none) →
      (runSched cfg clock sched c).1.st =
        run cfg clock ((commits (runSched cfg clock sched c).2).map Prod.fst) c.st := by
  induction sched with
  | nil => intro c _; rfl
  | cons i is ih =>
    intro c hp
    simp only [runSched]
    cases hs : stepThread cfg clock i c with
    | none => simp only; exact ih c hp
    | some p =>
      obtain ⟨c', e⟩ := p
      simp only
      obtain ⟨⟨op, err, rfl, hc⟩, hp'⟩ := stepThread_fixed cfg clock hfix i c c' e hp hs
      rw [ih c' hp']
      simp only [commits, List.map_cons, run]
      rw [hc]

end RichModel.Progress
