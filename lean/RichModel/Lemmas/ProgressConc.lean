import RichModel.Lemmas.ProgressSeq
/-!
Threads: the counters of the progress model do not depend on the clock, so every interleaving is
a sequential execution in lock-acquisition order (`abs_runSched`); with the clock read under the
lock the *whole* state is (`fixed_sched_sequential`).
-/
namespace RichModel.Progress

/-- the counters of a task: everything that is not a timestamp -/
structure ATask where
  id : Nat
  total : Int
  completed : Int
  visible : Bool
deriving DecidableEq, Repr

structure AState where
  tasks : List ATask
  nextId : Nat
deriving DecidableEq, Repr

def absTask (t : Task) : ATask := ⟨t.id, t.total, t.completed, t.visible⟩
def absState (st : State) : AState := ⟨st.tasks.map absTask, st.nextId⟩

/-- clock-free specification of what an operation does to the counters of the task it addresses -/
def aEffect (op : Op) (a : ATask) : ATask :=
  match op with
  | .update _ u =>
    { a with total := u.total.getD a.total,
             completed := u.completed.getD (a.completed + u.advance.getD 0),
             visible := u.visible.getD a.visible }
  | .reset _ _ tot c v => { a with total := tot.getD a.total, completed := c, visible := v.getD a.visible }
  | .advance _ amt => { a with completed := a.completed + amt }
  | _ => a

def aLookup (l : List ATask) (id : Nat) : Option ATask := l.find? (fun t => t.id == id)

/-- clock-free sequential specification of the counters -/
def aBody (op : Op) (a : AState) : AState :=
  match op with
  | .addTask _ total completed visible => ⟨a.tasks ++ [⟨a.nextId, total, completed, visible⟩], a.nextId + 1⟩
  | .removeTask id =>
    match aLookup a.tasks id with
    | none => a
    | some _ => ⟨a.tasks.filter (fun t => t.id != id), a.nextId⟩
  | op =>
    match op.target with
    | none => a
    | some id =>
      match aLookup a.tasks id with
      | none => a
      | some x => ⟨a.tasks.map (fun t => if t.id = id then aEffect op x else t), a.nextId⟩

def aRun (ops : List Op) (a : AState) : AState := ops.foldl (fun a op => aBody op a) a

theorem applyUpd_visible (u : UpdArgs) (t : Task) : (t.applyUpd u).visible = u.visible.getD t.visible := by
  unfold Task.applyUpd; cases u.total <;> cases u.advance <;> cases u.completed <;> cases u.visible <;> simp

theorem absTask_taskEffect (cfg : Cfg) (clock : Clock) (op : Op) (pre : Option Int) (t : Task) (k : Nat) :
    absTask (taskEffect cfg clock op pre t k).1 = aEffect op (absTask t) := by
  cases op with
  | addTask => rfl
  | removeTask => rfl
  | startTask i => simp only [taskEffect]; split <;> rfl
  | stopTask i => rfl
  | reset i s tot c v => rfl
  | update i u =>
    simp only [taskEffect, Task.updateBody, absTask, aEffect, finishCheck_id, finishCheck_total,
      finishCheck_completed, finishCheck_visible, applyUpd_id, applyUpd_total, applyUpd_completed,
      applyUpd_visible]
  | advance i a =>
    simp only [taskEffect, Task.advanceBody, absTask, aEffect, finishCheck_id, finishCheck_total,
      finishCheck_completed, finishCheck_visible]

theorem aLookup_map (l : List Task) (id : Nat) : aLookup (l.map absTask) id = (lookup l id).map absTask := by
  unfold aLookup lookup
  rw [List.find?_map]; rfl

theorem map_setTask (l : List Task) (id : Nat) (r : Task) :
    (setTask id r l).map absTask = (l.map absTask).map (fun t => if t.id = id then absTask r else t) := by
  unfold setTask
  rw [List.map_map, List.map_map]
  apply List.map_congr_left
  intro t _
  simp only [Function.comp]
  split <;> simp_all [absTask]

theorem map_filter (l : List Task) (id : Nat) :
    (l.filter (fun t => t.id != id)).map absTask = (l.map absTask).filter (fun t => t.id != id) := by
  rw [List.filter_map]; rfl

/-- **Simulation.** The counters after a locked body are the clock-free specification applied to the
counters before — whatever the clock, the reading carried in, and the code variant. -/
theorem abs_body (cfg : Cfg) (clock : Clock) (op : Op) (pre : Option Int) (st : State) :
    absState (body cfg clock op pre st).st = aBody op (absState st) := by
  by_cases hrm : ∃ i, op = .removeTask i
  · obtain ⟨i, rfl⟩ := hrm
    simp only [body, aBody, absState, aLookup_map]
    cases lookup st.tasks i with
    | none => rfl
    | some x => simp only [Option.map_some]; rw [map_filter]
  · have hr : ∀ i, op ≠ .removeTask i := fun i hi => hrm ⟨i, hi⟩
    cases htg : op.target with
    | none =>
      cases op with
      | addTask s tot c v => simp [body, aBody, absState, absTask]
      | removeTask i => exact absurd rfl (hr i)
      | startTask i => simp [Op.target] at htg
      | stopTask i => simp [Op.target] at htg
      | update i u => simp [Op.target] at htg
      | reset i => simp [Op.target] at htg
      | advance i a => simp [Op.target] at htg
    | some j =>
      rw [body_target cfg clock op pre st j htg hr]
      have hspec : aBody op (absState st) =
          match aLookup (absState st).tasks j with
          | none => absState st
          | some x => ⟨(absState st).tasks.map (fun t => if t.id = j then aEffect op x else t), (absState st).nextId⟩ := by
        cases op with
        | addTask => simp [Op.target] at htg
        | removeTask i => exact absurd rfl (hr i)
        | startTask i => simp only [Op.target, Option.some.injEq] at htg; subst htg; rfl
        | stopTask i => simp only [Op.target, Option.some.injEq] at htg; subst htg; rfl
        | update i u => simp only [Op.target, Option.some.injEq] at htg; subst htg; rfl
        | reset i => simp only [Op.target, Option.some.injEq] at htg; subst htg; rfl
        | advance i a => simp only [Op.target, Option.some.injEq] at htg; subst htg; rfl
      rw [hspec]
      simp only [absState, aLookup_map]
      cases lookup st.tasks j with
      | none => rfl
      | some x =>
        simp only [Option.map_some]
        rw [map_setTask, absTask_taskEffect]

theorem abs_preRead (cfg : Cfg) (clock : Clock) (op : Op) (st : State) :
    absState (preRead cfg clock op st).2 = absState st := by
  unfold preRead; split <;> rfl

theorem abs_step (cfg : Cfg) (clock : Clock) (op : Op) (st : State) :
    absState (step cfg clock op st).st = aBody op (absState st) := by
  unfold step; rw [abs_body, abs_preRead]

theorem abs_run (cfg : Cfg) (clock : Clock) (ops : List Op) (st : State) :
    absState (run cfg clock ops st) = aRun ops (absState st) := by
  induction ops generalizing st with
  | nil => rfl
  | cons op ops ih => simp only [run, aRun, List.foldl_cons]; rw [ih, abs_step]; rfl

/-- what one thread step is -/
theorem stepThread_spec (cfg : Cfg) (clock : Clock) (i : Nat) (c c' : Conf) (e : Event)
    (h : stepThread cfg clock i c = some (c', e)) :
    (e = .read i ∧ absState c'.st = absState c.st) ∨
    (∃ op pre err, e = .commit i op pre err ∧ c'.st = (body cfg clock op pre c.st).st) := by
  unfold stepThread at h
  cases hth : c.threads[i]? with
  | none => simp [hth] at h
  | some th =>
    simp only [hth] at h
    cases hp : th.prog with
    | nil => simp [hp] at h
    | cons op rest =>
      simp only [hp] at h
      split at h
      · simp only [Option.some.injEq, Prod.mk.injEq] at h
        obtain ⟨rfl, rfl⟩ := h
        exact Or.inl ⟨rfl, rfl⟩
      · simp only [Option.some.injEq, Prod.mk.injEq] at h
        obtain ⟨rfl, rfl⟩ := h
        exact Or.inr ⟨op, th.pending, _, rfl, rfl⟩

theorem abs_runSched (cfg : Cfg) (clock : Clock) (sched : List Nat) :
    ∀ c : Conf, absState (runSched cfg clock sched c).1.st =
      aRun ((commits (runSched cfg clock sched c).2).map Prod.fst) (absState c.st) := by
  induction sched with
  | nil => intro c; rfl
  | cons i is ih =>
    intro c
    simp only [runSched]
    cases hs : stepThread cfg clock i c with
    | none => simp only; exact ih c
    | some p =>
      obtain ⟨c', e⟩ := p
      simp only
      rcases stepThread_spec cfg clock i c c' e hs with ⟨rfl, ha⟩ | ⟨op, pre, err, rfl, hc⟩
      · rw [ih c', ha]; rfl
      · rw [ih c']
        simp only [commits, List.map_cons, aRun, List.foldl_cons]
        rw [hc, abs_body]

/-- with the clock read under the lock every thread step is one whole sequential operation -/
theorem stepThread_fixed (cfg : Cfg) (clock : Clock) (hfix : cfg.clockOutside = false) (i : Nat) (c c' : Conf)
    (e : Event) (hp : ∀ th ∈ c.threads, th.pending = none) (h : stepThread cfg clock i c = some (c', e)) :
    (∃ op err, e = .commit i op none err ∧ c'.st = (step cfg clock op c.st).st) ∧
    (∀ th ∈ c'.threads, th.pending = none) := by
  unfold stepThread at h
  cases hth : c.threads[i]? with
  | none => simp [hth] at h
  | some th =>
    simp only [hth] at h
    have hpn := hp th (List.mem_of_getElem? hth)
    cases hpr : th.prog with
    | nil => simp [hpr] at h
    | cons op rest =>
      simp only [hpr] at h
      have hro : op.readsOutside cfg = false := by cases op <;> simp [Op.readsOutside, hfix]
      simp only [hro, Bool.false_and] at h
      simp only [Bool.false_eq_true, if_false, Option.some.injEq, Prod.mk.injEq] at h
      obtain ⟨rfl, rfl⟩ := h
      refine ⟨⟨op, _, by rw [hpn], by rw [hpn, step_eq_body_none]⟩, ?_⟩
      intro th' hm
      simp only [setThread] at hm
      rcases List.mem_or_eq_of_mem_set hm with hm | rfl
      · exact hp th' hm
      · rfl

/-- **Repaired variant.** Every schedule leaves exactly the state of the sequential history of the
operations in lock-acquisition order, on the same clock. -/
theorem fixed_sched_sequential (cfg : Cfg) (clock : Clock) (hfix : cfg.clockOutside = false) (sched : List Nat) :
    ∀ c : Conf, (∀ th ∈ c.threads, th.pending = none) →
      (runSched cfg clock sched c).1.st =
        run cfg clock ((commits (runSched cfg clock sched c).2).map Prod.fst) c.st := by
  induction sched with
  | nil => intro c _; rfl
  | cons i is ih =>
    intro c hp
    simp only [runSched]
    cases hs : stepThread cfg clock i c with
    | none => simp only; exact ih c hp
    | some p =>
      obtain ⟨c', e⟩ := p
      simp only
      obtain ⟨⟨op, err, rfl, hc⟩, hp'⟩ := stepThread_fixed cfg clock hfix i c c' e hp hs
      rw [ih c' hp']
      simp only [commits, List.map_cons, run]
      rw [hc]

end RichModel.Progress
