import RichModel.Lemmas.AnsiCodes
/-!
Lemmas for property C03, part 2: one `Style.render`, one `_render_buffer`, with the `_ansi` cache as
state.  Core Lean only.

The invariant carried through histories is `HeapOK`: every object has a well-formed style and a cache
that — *for the colour system it is tagged with* — holds what `_make_ansi_codes` would compute afresh.
The repaired code (`ansiCacheUnkeyed = false`) only ever uses a cache entry for its own colour system,
so the invariant is enough; rich 9.10.0 as found (before fix c9ec5a8) does not, which is where `old_…` in Props/C03 comes from.
-/
namespace RichModel.AnsiRender
open RichModel RichModel.AnsiTerm

/-! ## invariants -/

/-- The cache of an object is sound for the colour system it is tagged with. -/
def CacheOK (cc : Cfg) (P : Palettes) (o : StyleObj) : Prop :=
  ∀ cs codes, o.ansi = some (cs, codes) → computeCodes cc P o.style cs = .ok codes

def ObjOK (cc : Cfg) (P : Palettes) (o : StyleObj) : Prop := StyleWF o.style ∧ CacheOK cc P o

def HeapOK (cc : Cfg) (P : Palettes) (heap : Heap) : Prop := ∀ o ∈ heap, ObjOK cc P o

/-- Every style reference of the segments names an object of the heap. -/
def RefsOK (heap : Heap) (segs : List Seg) : Prop := ∀ seg ∈ segs, ∀ i, seg.style = some i → i < heap.length

theorem objOK_fresh (cc : Cfg) (P : Palettes) (s : Style) (h : StyleWF s) : ObjOK cc P { style := s, ansi := none } :=
  ⟨h, by intro cs codes hc; cases hc⟩

theorem colorSystem_eq_of_beq {a b : ColorSystem} (h : (a == b) = true) : a = b := by
  revert h; cases a <;> cases b <;> decide

/-! ## `_make_ansi_codes` with the cache -/

theorem makeAnsiCodes_ok (v : RVariant) (hv : v.ansiCacheUnkeyed = false) (cc : Cfg) (P : Palettes)
    (hP : P.ok = true) (o : StyleObj) (ho : ObjOK cc P o) (cs : ColorSystem) :
    ∃ codes o', makeAnsiCodes v cc P o cs = .ok (codes, o') ∧ computeCodes cc P o.style cs = .ok codes ∧
      o'.style = o.style ∧ ObjOK cc P o' := by
  obtain ⟨codes, hcodes, _⟩ := computeCodes_means cc P hP o.style ho.1 cs
  have fresh : ObjOK cc P { o with ansi := some (cs, codes) } := by
    refine ⟨ho.1, ?_⟩
    intro cs' codes' hc
    simp only [Option.some.injEq, Prod.mk.injEq] at hc
    obtain ⟨rfl, rfl⟩ := hc
    exact hcodes
  unfold makeAnsiCodes cacheLookup
  cases ha : o.ansi with
  | none =>
    refine ⟨codes, { o with ansi := some (cs, codes) }, ?_, hcodes, rfl, fresh⟩
    simp [hcodes, bind, Except.bind]
  | some p =>
    obtain ⟨cs', cd⟩ := p
    simp only [hv, Bool.false_or]
    by_cases hb : (cs' == cs) = true
    · have := colorSystem_eq_of_beq hb
      subst this
      refine ⟨cd, o, ?_, ho.2 cs' cd ha, rfl, ho⟩
      simp [hb]
    · refine ⟨codes, { o with ansi := some (cs, codes) }, ?_, hcodes, rfl, fresh⟩
      simp [hb, hcodes, bind, Except.bind]

/-! ## `Style.render` -/

theorem expected_null (cc : Cfg) (P : Palettes) (cfg : Config) (s : Style) (hs : StyleWF s) (hn : s.isNull = true) :
    expected cc P cfg (some s) = ({}, none) := by
  obtain ⟨h1, h2, h3, h4⟩ := hs.null hn
  unfold expected
  cases cfg.colorSystem with
  | none => rfl
  | some cs =>
    simp only [h1, h2, h3, h4, expectedColor, ite_self, rendOfMask_zero, Bool.false_and]
    rfl

/-- The core of a rendered run, replayed from a state with the default rendition. -/
theorem interp_core (codes : List Nat) (text : List Char) (l : Option (List Char)) :
    interpFrom ⟨{}, l⟩ (if codes.isEmpty then [.text text] else [.sgr codes, .text text, .sgr [0]]) =
      (⟨{}, l⟩, text.map fun c => ⟨c, sgrParams {} codes, l⟩) := by
  cases codes with
  | nil => simp [interpFrom, stepTok, sgrParams_nil]
  | cons p ps =>
    simp only [List.isEmpty_cons, Bool.false_eq_true, if_false, interpFrom, stepTok, List.nil_append,
      List.append_nil, applySgr_reset]
    simp [applySgr]

/-- **One `Style.render` means the style.**  With a sound cache (repaired code) the call never raises,
leaves the style unchanged and the cache sound, and its output — replayed from the default state —
prints every character of the text with the aspects, colours and link of `expected`, and leaves the
terminal in the default state again. -/
theorem styleRender_means (v : RVariant) (hv : v.ansiCacheUnkeyed = false) (cc : Cfg) (P : Palettes)
    (hP : P.ok = true) (cfg : Config) (o : StyleObj) (ho : ObjOK cc P o) (text : List Char)
    (hnc : cfg.noColor = true → cfg.colorSystem ≠ none → o.style.color = none ∧ o.style.bgcolor = none) :
    ∃ toks o', styleRender v cc P o text cfg.colorSystem cfg.legacyWindows = .ok (toks, o') ∧
      o'.style = o.style ∧ ObjOK cc P o' ∧
      interpFrom {} toks =
        ({}, text.map fun c => ⟨c, (expected cc P cfg (some o.style)).1, (expected cc P cfg (some o.style)).2⟩) := by
  cases hcs : cfg.colorSystem with
  | none =>
    refine ⟨[.text text], o, rfl, rfl, ho, ?_⟩
    simp [expected, hcs, interpFrom, stepTok]
  | some cs =>
    by_cases ht : text.isEmpty = true
    · refine ⟨[.text text], o, by simp [styleRender, ht], rfl, ho, ?_⟩
      have : text = [] := by simpa using ht
      subst this
      simp [interpFrom, stepTok]
    · obtain ⟨codes, o', hmk, hcodes, hst, hok⟩ := makeAnsiCodes_ok v hv cc P hP o ho cs
      obtain ⟨codes', hcodes', hmean⟩ := computeCodes_means cc P hP o.style ho.1 cs
      rw [hcodes] at hcodes'
      cases hcodes'
      -- the rendition `expected` names
      have hrend : (expected cc P cfg (some o.style)).1 = sgrParams {} codes := by
        rw [hmean]
        simp only [expected, hcs]
        by_cases hn : cfg.noColor = true
        · obtain ⟨h1, h2⟩ := hnc hn (by rw [hcs]; simp)
          simp [hn, h1, h2, expectedColor]
        · simp [hn]
      have hlink : (expected cc P cfg (some o.style)).2 =
          if strTruthy o.style.link && !cfg.legacyWindows then o.style.link else none := by
        simp only [expected, hcs]
      simp only [hrend, hlink]
      by_cases hl : (strTruthy o.style.link && !cfg.legacyWindows) = true
      · -- a truthy link is `some` non-empty string
        have hne : ∃ x xs, o.style.link = some (x :: xs) := by
          have : strTruthy o.style.link = true := by
            simp only [Bool.and_eq_true] at hl; exact hl.1
          unfold strTruthy at this
          split at this
          · exact ⟨_, _, by assumption⟩
          · cases this
        obtain ⟨x, xs, hx⟩ := hne
        refine ⟨[.osc8 linkIdMask (x :: xs)] ++
            (if codes.isEmpty then [.text text] else [.sgr codes, .text text, .sgr [0]]) ++ [.osc8 [] []],
          o', ?_, hst, hok, ?_⟩
        · have hlw : cfg.legacyWindows = false := by
            simp only [Bool.and_eq_true, Bool.not_eq_true'] at hl; exact hl.2
          simp [styleRender, ht, hmk, bind, Except.bind, hx, strTruthy, hlw]
        · simp only [hl, if_true]
          rw [List.append_assoc, interpFrom_append, interpFrom_append]
          simp only [hx, interpFrom, stepTok, List.isEmpty_cons, Bool.false_eq_true, if_false,
            List.nil_append, List.append_nil]
          rw [interp_core]
          simp
      · refine ⟨(if codes.isEmpty then [.text text] else [.sgr codes, .text text, .sgr [0]]), o', ?_, hst, hok, ?_⟩
        · simp only [styleRender, ht, hmk, bind, Except.bind, hl]
          rfl
        · simp only [hl, Bool.false_eq_true, if_false]
          exact interp_core codes text none

/-! ## what `_render_buffer` must show -/

theorem segStyle_eq (heap : Heap) (seg : Seg) :
    segStyle heap seg = match seg.style with | none => none | some i => (heap.map (·.style))[i]? := by
  unfold segStyle
  cases seg.style <;> simp

theorem segStyle_congr {heap heap' : Heap} (h : heap'.map (·.style) = heap.map (·.style)) (seg : Seg) :
    segStyle heap' seg = segStyle heap seg := by
  rw [segStyle_eq, segStyle_eq, h]

theorem expectedCells_congr (cc : Cfg) (P : Palettes) (cfg : Config) {heap heap' : Heap}
    (h : heap'.map (·.style) = heap.map (·.style)) (segs : List Seg) :
    expectedCells cc P cfg heap' segs = expectedCells cc P cfg heap segs := by
  unfold expectedCells
  congr 1
  funext seg
  rw [segStyle_congr h]

theorem expectedCells_nil (cc : Cfg) (P : Palettes) (cfg : Config) (heap : Heap) :
    expectedCells cc P cfg heap [] = [] := rfl

theorem expectedCells_cons_visible (cc : Cfg) (P : Palettes) (cfg : Config) (heap : Heap) (seg : Seg)
    (rest : List Seg) (h : segVisible cfg seg = true) :
    expectedCells cc P cfg heap (seg :: rest) =
      (seg.text.map fun c => ⟨c, (expected cc P cfg (segStyle heap seg)).1, (expected cc P cfg (segStyle heap seg)).2⟩) ++
        expectedCells cc P cfg heap rest := by
  simp [expectedCells, h]

theorem expectedCells_cons_hidden (cc : Cfg) (P : Palettes) (cfg : Config) (heap : Heap) (seg : Seg)
    (rest : List Seg) (h : segVisible cfg seg = false) :
    expectedCells cc P cfg heap (seg :: rest) = expectedCells cc P cfg heap rest := by
  simp [expectedCells, h]

theorem expected_none (cc : Cfg) (P : Palettes) (cfg : Config) : expected cc P cfg none = ({}, none) := by
  unfold expected; cases cfg.colorSystem <;> rfl

/-! ## the loop of `_render_buffer` -/

/-- What the loop needs of the heap it runs over. -/
structure LoopInv (cc : Cfg) (P : Palettes) (cfg : Config) (heap : Heap) : Prop where
  ok : HeapOK cc P heap
  /-- under NO_COLOR (with colour enabled) the loop only ever sees colourless objects -/
  nc : cfg.noColor = true → cfg.colorSystem ≠ none → ∀ o ∈ heap, o.style.color = none ∧ o.style.bgcolor = none

theorem map_style_set (heap : Heap) (i : Nat) (o o' : StyleObj) (hi : heap[i]? = some o) (hs : o'.style = o.style) :
    (heap.set i o').map (·.style) = heap.map (·.style) := by
  apply List.ext_getElem?
  intro j
  simp only [List.map_set, List.getElem?_set, List.getElem?_map, List.length_map]
  by_cases hij : i = j
  · subst hij
    rcases List.getElem?_eq_some_iff.mp hi with ⟨hlt, he⟩
    simp [hlt, hs, he]
  · simp [hij]

theorem LoopInv.set {cc : Cfg} {P : Palettes} {cfg : Config} {heap : Heap} (h : LoopInv cc P cfg heap)
    (i : Nat) (o o' : StyleObj) (hi : heap[i]? = some o) (hs : o'.style = o.style) (ho : ObjOK cc P o') :
    LoopInv cc P cfg (heap.set i o') := by
  have hmem : o ∈ heap := List.mem_iff_getElem?.mpr ⟨i, hi⟩
  constructor
  · intro x hx
    rcases List.mem_or_eq_of_mem_set hx with hx | rfl
    · exact h.ok x hx
    · exact ho
  · intro h1 h2 x hx
    rcases List.mem_or_eq_of_mem_set hx with hx | rfl
    · exact h.nc h1 h2 x hx
    · rw [hs]; exact h.nc h1 h2 o hmem

theorem refsOK_tail {heap : Heap} {seg : Seg} {rest : List Seg} (h : RefsOK heap (seg :: rest)) : RefsOK heap rest :=
  fun s hs => h s (by simp [hs])

theorem refsOK_set {heap : Heap} {segs : List Seg} (h : RefsOK heap segs) (i : Nat) (o : StyleObj) :
    RefsOK (heap.set i o) segs := by
  intro s hs j hj
  rw [List.length_set]
  exact h s hs j hj

/-- **The loop means the segments.**  Repaired code, sound heap: the loop never raises, changes caches
only, keeps the invariant, and its output replayed from the default state shows exactly
`expectedCells` and ends in the default state. -/
theorem renderLoop_means (v : RVariant) (hv : v.ansiCacheUnkeyed = false) (hv2 : v.styledControlKept = false)
    (cc : Cfg) (P : Palettes) (hP : P.ok = true) (cfg : Config) (segs : List Seg) :
    ∀ heap : Heap, LoopInv cc P cfg heap → RefsOK heap segs →
      ∃ toks heap', renderLoop v cc P cfg heap segs = .ok (toks, heap') ∧ LoopInv cc P cfg heap' ∧
        heap'.map (·.style) = heap.map (·.style) ∧
        interpFrom {} toks = ({}, expectedCells cc P cfg heap segs) := by
  induction segs with
  | nil =>
    intro heap hinv _
    exact ⟨[], heap, rfl, hinv, rfl, rfl⟩
  | cons seg rest ih =>
    intro heap hinv hrefs
    have hrest := refsOK_tail hrefs
    unfold renderLoop
    simp only [hv2, Bool.not_false, Bool.true_and]
    by_cases hskip : (!cfg.isTerminal && seg.control) = true
    · -- a control segment on a non-terminal: skipped, and not expected
      obtain ⟨toks, heap', h1, h2, h3, h4⟩ := ih heap hinv hrest
      refine ⟨toks, heap', by simp [hskip, h1], h2, h3, ?_⟩
      rw [h4, expectedCells_cons_hidden]
      simp only [Bool.and_eq_true, Bool.not_eq_true'] at hskip
      simp [segVisible, hskip.1, hskip.2]
    · have hvis : segVisible cfg seg = true := by
        simp only [Bool.and_eq_true, Bool.not_eq_true', not_and, Bool.not_eq_true] at hskip
        unfold segVisible
        cases hT : cfg.isTerminal <;> simp_all
      simp only [hskip, Bool.false_eq_true, if_false]
      -- the plain branch, shared by `style is None` and a falsy style
      have plainCase : ∀ (hexp : expected cc P cfg (segStyle heap seg) = ({}, none)),
          ∃ toks heap', (do
              let (toks, heap') ← renderLoop v cc P cfg heap rest
              Except.ok ([Tok.text seg.text] ++ toks, heap') : Except RenderErr (List Tok × Heap)) = .ok (toks, heap') ∧
            LoopInv cc P cfg heap' ∧ heap'.map (·.style) = heap.map (·.style) ∧
            interpFrom {} toks = ({}, expectedCells cc P cfg heap (seg :: rest)) := by
        intro hexp
        obtain ⟨toks, heap', h1, h2, h3, h4⟩ := ih heap hinv hrest
        refine ⟨[.text seg.text] ++ toks, heap', by simp [h1, bind, Except.bind], h2, h3, ?_⟩
        rw [interpFrom_append, interpFrom_text, h4, expectedCells_cons_visible _ _ _ _ _ _ hvis, hexp]
      cases hst : seg.style with
      | none =>
        simp only
        exact plainCase (by simp [segStyle, hst, expected_none])
      | some i =>
        have hi : i < heap.length := hrefs seg (by simp) i hst
        obtain ⟨o, ho⟩ : ∃ o, heap[i]? = some o := ⟨heap[i], by simp [hi]⟩
        have hmem : o ∈ heap := List.mem_iff_getElem?.mpr ⟨i, ho⟩
        have hseg : segStyle heap seg = some o.style := by simp [segStyle, hst, ho]
        simp only [ho]
        by_cases hb : o.style.toBool = true
        · -- `if style:` — rendered through `Style.render`
          obtain ⟨t1, o', hr, hs', hok', hi1⟩ :=
            styleRender_means v hv cc P hP cfg o (hinv.ok o hmem) seg.text (fun a b => hinv.nc a b o hmem)
          have hinv' := hinv.set i o o' ho hs' hok'
          have hmap := map_style_set heap i o o' ho hs'
          obtain ⟨t2, heap', h1, h2, h3, h4⟩ := ih (heap.set i o') hinv' (refsOK_set hrest i o')
          refine ⟨t1 ++ t2, heap', ?_, h2, h3.trans hmap, ?_⟩
          · simp [hb, hr, liftPy, h1, bind, Except.bind]
          · rw [interpFrom_append, hi1, h4, expectedCells_congr cc P cfg hmap,
              expectedCells_cons_visible _ _ _ _ _ _ hvis, hseg]
        · -- a falsy (null) style: plain text
          have hnull : o.style.isNull = true := by
            simp only [Style.toBool, Bool.not_eq_true', Bool.not_eq_false] at hb; exact hb
          simp only [hb, Bool.false_eq_true, if_false]
          exact plainCase (by rw [hseg]; exact expected_null cc P cfg o.style (hinv.ok o hmem).1 hnull)

end RichModel.AnsiRender
