import RichModel.Lemmas.LayoutBase
import RichModel.Lemmas.LayoutDeps
/-!
The framing renderables (Padding, Panel, Align, Bar, ProgressBar, Tree) in the vocabulary of C01: no line of their
output is wider than the available width, and the output ends its last line.  Corollaries of the C08 library.
-/
namespace RichModel.Layout
open RichModel RichModel.Frames
/-- rich's cell-width function (table generated from rich/_cell_widths.py) -/
abbrev cwR : Char → Nat := cwD

/-! ## Closed streams -/

theorem fr_flat_append (a b : List Seg) : flat (a ++ b) = flat a ++ flat b := by
  simp [flat]

theorem fr_flat_nil : flat ([] : List Seg) = [] := rfl

theorem fr_closed_nil : Closed ([] : List Seg) := Or.inl rfl

/-- a concatenation of closed streams is closed -/
theorem fr_closed_append {a b : List Seg} (ha : Closed a) (hb : Closed b) : Closed (a ++ b) := by
  unfold Closed at *
  rw [fr_flat_append]
  rcases hb with hb | hb
  · rw [hb, List.append_nil]; exact ha
  · right
    rw [List.getLast?_append, hb]
    rfl

/-- whatever is followed by `Segment.line()` is closed -/
theorem fr_closed_snoc_nl (a : List Seg) : Closed (a ++ [nl]) := by
  right
  rw [fr_flat_append, List.getLast?_append]
  rfl

/-- a frame-made text segment ending in a line feed -/
theorem fr_closed_seg_nl (t : List Char) : Closed ([seg (t ++ ['\n'])] : List Seg) := by
  right
  simp [flat, seg]

theorem fr_closed_flatMap {α : Type} (xs : List α) (F : α → List Seg) (h : ∀ x ∈ xs, Closed (F x)) :
    Closed (xs.flatMap F) := by
  induction xs with
  | nil => exact fr_closed_nil
  | cons x xs ih =>
    rw [List.flatMap_cons]
    exact fr_closed_append (h x (by simp)) (ih (fun y hy => h y (by simp [hy])))

theorem fr_closed_replicate (n : Nat) (x : Seg) (h : Closed [x]) : Closed (List.replicate n x) := by
  induction n with
  | zero => exact fr_closed_nil
  | succ n ih =>
    rw [List.replicate_succ, show x :: List.replicate n x = [x] ++ List.replicate n x from rfl]
    exact fr_closed_append h ih

/-- lines each followed by `Segment.line()` -/
theorem fr_closed_lines (ls : List (List Seg)) (F : List Seg → List Seg) :
    Closed (ls.flatMap (fun l => F l ++ [nl])) :=
  fr_closed_flatMap ls _ (fun l _ => fr_closed_snoc_nl (F l))

/-! ## Padding -/

theorem fr_fitWidth_nonneg (v : Frames.Variant) (m : Int) (h : 0 ≤ m) : 0 ≤ fitWidth v m := by
  unfold fitWidth; split <;> omega

/-- Padding: always fits when the padding itself has room -/
theorem padding_lines_le (v : Frames.Variant) (p : PadDims) (expand : Bool) (c : Ch) (w : Int)
    (hw : (p.left : Int) + p.right + 1 ≤ w) (hm0 : ∀ k : Int, 0 ≤ (c.measureAt k).maximum) :
    ∀ l ∈ splitLines (paddingConsole cwR v p expand c w), lineLength cwR l ≤ w.toNat := by
  intro l hl
  rw [paddingConsole_lines cwR cwD_space cwD_le_two] at hl
  have hle : paddingWidth v p expand c w ≤ w := by unfold paddingWidth; split <;> omega
  have hfit : (p.left : Int) + p.right ≤ paddingWidth v p expand c w := by
    have := fr_fitWidth_nonneg v _ (hm0 w)
    unfold paddingWidth; split <;> omega
  rw [paddingLines_width cwR cwD_space cwD_le_two v p expand c w hfit l hl]
  omega

theorem padding_closed (v : Frames.Variant) (p : PadDims) (expand : Bool) (c : Ch) (w : Int) :
    Closed (paddingConsole cwR v p expand c w) := by
  unfold paddingConsole
  simp only
  refine fr_closed_append (fr_closed_append ?_ ?_) ?_
  · exact fr_closed_replicate _ _ (fr_closed_seg_nl _)
  · exact fr_closed_flatMap _ _ (fun l _ => fr_closed_snoc_nl _)
  · exact fr_closed_replicate _ _ (fr_closed_seg_nl _)

/-! ## Panel -/

theorem fr_panel_unfold (env : Env) (v : Frames.Variant) (o : PanelOpts) (c : Ch) (w : Int) (out : List Seg)
    (h : panelConsole cwR env v o c w = .ok (some out)) :
    ∃ p box, unpackPad o.padding = .ok p ∧ boxAt (substituteBox env (o.safeBox.getD env.safeBox) o.box) = some box := by
  unfold panelConsole at h
  cases hp : unpackPad o.padding with
  | error e => simp [hp] at h
  | ok p =>
    cases hb : boxAt (substituteBox env (o.safeBox.getD env.safeBox) o.box) with
    | none => simp [hp, hb] at h
    | some box => exact ⟨p, box, rfl, rfl⟩

theorem panel_closed (env : Env) (v : Frames.Variant) (o : PanelOpts) (c : Ch) (w : Int) (out : List Seg)
    (h : panelConsole cwR env v o c w = .ok (some out)) : Closed out := by
  obtain ⟨p, box, hp, hb⟩ := fr_panel_unfold env v o c w out h
  unfold panelConsole at h
  simp only [hp, hb] at h
  split at h
  · cases h
  · rename_i top _
    have hout : out = _ := (Option.some.inj (Except.ok.inj h)).symm
    rw [hout]
    rw [show ∀ (X : List Seg) (s : Seg), X ++ [s, nl] = (X ++ [s]) ++ [nl] by intro X s; simp]
    exact fr_closed_snoc_nl _

theorem fr_cellLen_take_le (cw : Char → Nat) (s : List Char) (k : Nat) : cellLen cw (s.take k) ≤ cellLen cw s := by
  have h : cellLen cw s = cellLen cw (s.take k) + cellLen cw (s.drop k) := by
    rw [← cellLen_append, List.take_append_drop]
  omega

/-- `Text.align` to a negative width empties the text -/
theorem fr_textAlign_neg (cw : Char → Nat) (plain : List Char) (a : AlignM) (width : Int) (ch : Char) (hw : width < 0) :
    textAlign cw plain a width ch = [] := by
  unfold textAlign textTruncate
  simp only [show (Frames.Overflow.fold == Frames.Overflow.ignore) = false from rfl, show (Frames.Overflow.fold == Frames.Overflow.ellipsis) = false from rfl,
    Bool.false_eq_true, if_false]
  have hgt : (cellLen cw plain : Int) > width := by omega
  have hs : setCellSizeI cw plain width = [] := by unfold setCellSizeI; rw [if_pos hw]
  simp only [hgt, if_true, hs, cellLen_nil]
  have hr : ∀ n : Int, n ≤ 0 → rep n ch = [] := by
    intro n hn
    unfold rep
    rw [show n.toNat = 0 by omega]; rfl
  split
  · cases a <;> simp only
    · rw [hr _ (by omega)]; rfl
    · rw [hr _ (by omega), hr _ (by omega)]; rfl
    · rw [hr _ (by omega)]; rfl
  · rfl

/-- `Text.align` yields `width` cells, nothing for a negative width -/
theorem fr_textAlign_cellLen (plain : List Char) (a : AlignM) (width : Int) (ch : Char) (hch : cwR ch = 1) :
    cellLen cwR (textAlign cwR plain a width ch) = width.toNat := by
  by_cases hw : 0 ≤ width
  · exact textAlign_cellLen cwR cwD_space cwD_le_two plain a width ch hch hw
  · rw [fr_textAlign_neg cwR plain a width ch (by omega)]
    simp only [cellLen_nil]; omega

/-- the rendered title is no wider than its text (`rstrip_end` only removes trailing blanks) -/
theorem fr_textConsoleSimple_le (v : Frames.Variant) (plain : List Char) (w : Int) (ts : List Seg)
    (h : textConsoleSimple cwR v plain [] w = some ts) : lineLength cwR ts ≤ cellLen cwR plain := by
  unfold textConsoleSimple at h
  split at h
  · simp only [List.isEmpty_nil, if_true, List.append_nil, Option.some.injEq] at h
    subst h
    obtain ⟨k, hk⟩ := rstripEnd_prefix cwR v plain w
    split
    · simp [lineLength]
    · rw [lineLength_seg, hk]
      exact fr_cellLen_take_le cwR plain k
  · simp at h

theorem fr_getPost_max_le (maxWidth : Int) (measured : Option Measurement) :
    (Measurement.getPost maxWidth measured).maximum ≤ max maxWidth 0 := by
  unfold Measurement.getPost
  split
  · simp only; omega
  · cases measured with
    | none => simp only; omega
    | some m =>
      simp only
      split
      · simp only; omega
      · unfold Measurement.normalize Measurement.withMaximum; simp only; omega

/-- the (padded) inner child of a panel has a sound measurement when the child has -/
theorem fr_panelInner_sound (v : Frames.Variant) (p : PadDims) (c : Ch)
    (hm : ∀ k : Int, (c.measureAt k).maximum ≤ max k 0) :
    ∀ k : Int, ((panelInner cwR v p c).measureAt k).maximum ≤ max k 0 := by
  intro k
  unfold panelInner
  split
  · unfold Child.measureAt
    split
    · simp only; omega
    · simp only [paddingChild, asChild]
      have := fr_getPost_max_le ((k.toNat : Nat) : Int) (some (paddingRichMeasure p c ((k.toNat : Nat) : Int)))
      omega
  · exact hm k

theorem panel_lines_le (env : Env) (v : Frames.Variant) (o : PanelOpts) (c : Ch) (w : Int) (out : List Seg)
    (h : panelConsole cwR env v o c w = .ok (some out)) (hw : 3 ≤ w) (hwt : o.title ≠ [] → 4 ≤ w)
    (hm : ∀ k : Int, (c.measureAt k).maximum ≤ max k 0) :
    ∀ l ∈ splitLines out, lineLength cwR l ≤ w.toNat := by
  obtain ⟨p, box, hp, hb⟩ := fr_panel_unfold env v o c w out h
  obtain ⟨hnn, hnar⟩ := Dep.boxAt_ok _ box hb
  obtain ⟨top, htop, hlines⟩ := panelConsole_lines cwR cwD_space cwD_le_two env v o c w p box out hp hb hnn h
  obtain ⟨n1, n2, n3, n4, n5, n6, n7, n8⟩ := hnar
  have hcw : panelChildWidth cwR v o (panelInner cwR v p c) w + 2 ≤ w :=
    Dep.panel_width_le v o (panelInner cwR v p c) w hw (fr_panelInner_sound v p c hm)
  generalize panelChildWidth cwR v o (panelInner cwR v p c) w = cwid at htop hlines hcw
  intro l hl
  rw [hlines] at hl
  simp only [List.mem_append, List.mem_singleton, List.mem_map] at hl
  rcases hl with (rfl | ⟨l0, hl0, rfl⟩) | rfl
  · unfold panelTopLine at htop
    cases hT : panelTitle o.title with
    | none =>
      simp only [hT, Option.some.injEq] at htop
      subst htop
      rw [show boxTop box cwid = [box.topLeft] ++ rep cwid box.top ++ [box.topRight] from rfl,
        lineLength_boxRow cwR _ _ _ n1 n2 n3]
      omega
    | some t =>
      simp only [hT] at htop
      have htne : o.title ≠ [] := by
        intro he; simp [panelTitle, he] at hT
      have h4 := hwt htne
      cases hts : textConsoleSimple (σ := Nat) cwR v (textAlign cwR t o.titleAlign (cwid - 2) box.top) [] (env.consoleWidth : Int) with
      | none => simp [hts] at htop
      | some ts =>
        simp only [hts, Option.some.injEq] at htop
        subst htop
        have hle := fr_textConsoleSimple_le v _ _ ts hts
        rw [fr_textAlign_cellLen t _ _ _ n2] at hle
        rw [lineLength_append, lineLength_append]
        simp only [lineLength_seg, cellLen_cons, cellLen_nil, n1, n2, n3]
        omega
  · rw [lineLength_append, lineLength_append, renderLines_exact cwR cwD_space cwD_le_two _ _ l0 hl0]
    simp only [lineLength_seg, cellLen_cons, cellLen_nil, n4, n5]
    omega
  · rw [show boxBottom box cwid = [box.bottomLeft] ++ rep cwid box.bottom ++ [box.bottomRight] from rfl,
      lineLength_boxRow cwR _ _ _ n6 n7 n8]
    omega

/-! ## Align -/

theorem fr_alignPadCells_le (o : AlignOpts) (e : Int) : alignPadCells o e ≤ max e 0 := by
  unfold alignPadCells
  split
  · omega
  · cases o.align <;> cases o.pad <;> simp only [Bool.false_eq_true, if_false, if_true] <;> omega

theorem align_lines_le (env : Env) (v : Frames.Variant) (o : AlignOpts) (c : Ch) (w : Int) (hw : 0 ≤ w)
    (hchild : ∀ l ∈ splitLines (c.renderAt (alignInnerWidth env v o c w)), lineLength cwR l ≤ w.toNat) :
    ∀ l ∈ splitLines (alignConsole cwR env v o c w), lineLength cwR l ≤ w.toNat := by
  have hr := Dep.align_rect env v o c w
  dsimp only at hr
  obtain ⟨h1, _, h3, _, _⟩ := hr
  intro l hl
  rw [h1] at hl
  have hlen : (lineLength cwR l : Int) = shapeWidth cwR (alignChildLines env v o c w)
      + alignPadCells o (w - shapeWidth cwR (alignChildLines env v o c w)) := h3 l hl
  have hsw : shapeWidth cwR (alignChildLines env v o c w) ≤ w.toNat := shapeWidth_le cwR _ _ hchild
  have hpc := fr_alignPadCells_le o (w - (shapeWidth cwR (alignChildLines env v o c w) : Int))
  omega

theorem align_closed (env : Env) (v : Frames.Variant) (o : AlignOpts) (c : Ch) (w : Int) : Closed (alignConsole cwR env v o c w) := by
  rw [alignConsole_unfold]
  simp only
  split
  · exact fr_closed_flatMap _ _ (fun l _ => fr_closed_snoc_nl _)
  · cases o.align <;> simp only <;> exact fr_closed_flatMap _ _ (fun l _ => fr_closed_snoc_nl _)

/-! ## Bar and ProgressBar -/

theorem fr_barWidth_bounds (width : Option Int) (w : Int) (hw : 1 ≤ w) (hwd : 0 ≤ width.getD 0) :
    0 ≤ barWidth width w ∧ barWidth width w ≤ w := by
  unfold barWidth
  cases width with
  | none => simp only; omega
  | some bw =>
    simp only [Option.getD_some] at hwd
    simp only
    split <;> omega

theorem bar_lines_le (o : BarOpts) (w : Int) (hw : 1 ≤ w) (hsd : 0 < o.size.den) (hbd : 0 < o.beginV.den) (hed : 0 < o.endV.den)
    (hwd : 0 ≤ o.width.getD 0) :
    ∀ l ∈ splitLines (barConsole (barInit o) w : List Seg), lineLength cwR l ≤ w.toNat := by
  obtain ⟨hb0, hes, hbd'⟩ := Dep.bar_init_ok o hbd
  have hed' : 0 < (barInit o).endV.den := by
    unfold barInit; simp only; split <;> assumption
  obtain ⟨hw0, hwle⟩ := fr_barWidth_bounds o.width w hw hwd
  obtain ⟨text, h1, h2, h3⟩ := barConsole_exact (σ := Nat) (barInit o) w hsd hbd' hed' hb0 hes hw0
  rw [h1]
  have hnl : NlFree ([seg text] : List Seg) := by
    apply nlFree_seg
    intro ch hch heq
    have := h3 ch hch
    rw [heq] at this
    revert this; decide
  have hs : ([seg text, nl] : List Seg) = [[seg text]].flatMap (fun l => l ++ [nl]) := by simp
  rw [hs, splitLines_lines _ (by intro l hl; simp only [List.mem_singleton] at hl; rw [hl]; exact hnl)]
  intro l hl
  simp only [List.mem_singleton] at hl
  rw [hl, lineLength_seg,
    cellLen_eq_length cwR text (fun ch hch => Dep.bar_chars_narrow ch (List.mem_append.mpr (Or.inl (h3 ch hch)))), h2]
  show (barWidth o.width w).toNat ≤ w.toNat
  omega

theorem bar_closed (o : BarOpts) (w : Int) : Closed (barConsole (barInit o) w : List Seg) := by
  unfold barConsole
  simp only
  split
  · exact fr_closed_snoc_nl [_]
  · exact fr_closed_snoc_nl [_]

/-- `split_lines` of a stream without line feed: at most the stream itself -/
theorem fr_splitLines_nlFree (l : List Seg) (h : NlFree l) : ∀ x ∈ splitLines l, x = l := by
  intro x hx
  unfold splitLines at hx
  rw [foldl_step_nlFree l [] [] h] at hx
  simp only [List.nil_append] at hx
  split at hx
  · simp at hx
  · simpa using hx

theorem progress_lines_le (env : Env) (o : ProgressOpts) (w : Int) (hw : 1 ≤ w) (htd : 0 < o.total.den) (hcd : 0 < o.completed.den)
    (hwd : 0 ≤ o.width.getD 0) :
    ∀ l ∈ splitLines (progressConsole env o w : List Seg), lineLength cwR l ≤ w.toNat := by
  obtain ⟨hw0, hwle⟩ := fr_barWidth_bounds o.width w hw hwd
  have hnl : NlFree (progressConsole env o w : List Seg) := by
    intro s hs
    have := Dep.progress_bar_has_no_newline (σ := Nat) env o w s hs
    have hc : s.text.contains '\n' = false := by simpa using this
    rw [hc]; rfl
  intro l hl
  rw [fr_splitLines_nlFree _ hnl l hl]
  cases hp : o.pulse with
  | false =>
    have : lineLength cwR (progressConsole env o w : List Seg) ≤ (barWidth o.width w).toNat :=
      (Dep.progress_bar_le_and_exact (σ := Nat) env o w hp hw0 htd hcd).1
    omega
  | true =>
    have : lineLength cwR (progressConsole env o w : List Seg) = (barWidth o.width w).toNat :=
      Dep.progress_pulse_exact_width (σ := Nat) env o w hp hw0
    omega

/-! ## Tree -/

theorem tree_lines_le (env : Env) (root : TreeN Nat) (w : Int) :
    ∀ l ∈ splitLines (treeConsole cwR env root w), lineLength cwR l ≤ w.toNat := by
  intro l hl
  exact Nat.le_of_eq (Dep.tree_rect env root w l hl)

theorem tree_closed (env : Env) (root : TreeN Nat) (w : Int) : Closed (treeConsole cwR env root w) := by
  rw [treeConsole_eq_spec]
  obtain ⟨ls, _, hout⟩ := specNode_linesOut cwR cwD_space cwD_le_two Dep.guides_ok env w root [] none true root.gs (by simp)
  unfold specTree
  rw [hout]
  exact fr_closed_lines ls (fun l => l)

end RichModel.Layout
