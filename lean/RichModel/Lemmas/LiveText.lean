import RichModel.Model.Live
import RichModel.Model.Text
/-!
The truncation of an over-wide Progress row in `Model/Live.lean` (`truncRow`, stated with `Model/Cells`
only) *is* `Text.truncate(width, overflow="ellipsis")` of the Text model of C05 (`Model/Text.lean`).
-/
namespace RichModel.Live
open RichModel

/-- `set_cell_size` with an `int` total that is not negative is `set_cell_size` with that natural number. -/
theorem setCellSizeI_natCast (cw : Char → Nat) (t : List Char) (n : Nat) :
    Text.setCellSizeI cw t (n : Int) = setCellSize cw t n := by
  unfold Text.setCellSizeI setCellSize
  by_cases h1 : cellLen cw t = n
  · simp [h1]
  · have h1' : ((cellLen cw t : Nat) : Int) ≠ (n : Int) := by omega
    by_cases h2 : cellLen cw t < n
    · have : ((cellLen cw t : Nat) : Int) < (n : Int) := by omega
      simp only [beq_iff_eq, h1', h1, if_false, this, h2, if_true]
      congr 2; omega
    · have : ¬ ((cellLen cw t : Nat) : Int) < (n : Int) := by omega
      simp only [beq_iff_eq, h1', h1, if_false, this, h2]

/-- A Text with the plain `row` and nothing else. -/
def rowText (row : Line) : Text Unit := { plain := row, length := row.length, spans := [], style := () }

theorem setPlain_plain (t : Text Unit) (p : List Char) : (t.setPlain p).plain = p := by
  unfold Text.setPlain
  by_cases h : (p != t.plain) = true
  · simp only [h, if_true]
    split
    · rfl
    · rfl
  · simp only [h]
    simp at h; exact h.symm

/-- `truncRow` is `Text.truncate(width, overflow="ellipsis")` of the Text model, for a column of at least
one cell. -/
theorem truncRow_eq_truncate (cw : Char → Nat) (w : Nat) (hw : 1 ≤ w) (row : Line) :
    truncRow cw w row = ((rowText row).truncate cw (w : Int) (some .ellipsis)).plain := by
  unfold truncRow Text.truncate rowText
  have e : ((w : Int) - 1) = ((w - 1 : Nat) : Int) := by omega
  by_cases h : cellLen cw row > w
  · have h' : ((cellLen cw row : Nat) : Int) > (w : Int) := by omega
    simp only [h, h', if_true]
    have : (RichModel.Overflow.ellipsis != RichModel.Overflow.ignore) = true := by decide
    have he : (RichModel.Overflow.ellipsis == RichModel.Overflow.ellipsis) = true := by decide
    simp only [Option.orElse, Option.getD, this, if_true, he, e, setCellSizeI_natCast, Bool.false_and, Bool.false_eq_true, if_false]
    rw [setPlain_plain]
  · have h' : ¬ ((cellLen cw row : Nat) : Int) > (w : Int) := by omega
    have : (RichModel.Overflow.ellipsis != RichModel.Overflow.ignore) = true := by decide
    simp only [h, h', Option.orElse, Option.getD, this, if_true, if_false, Bool.false_and, Bool.false_eq_true]

/-! ### what the redirected streams print (the part of C19's `proxy_lines` / `proxy_two_streams` needed here)

`Op.write e lines tail` is one `write()` on stream `e` whose text is already cut at its newlines.  The
lines handed to the console over any sequence of writes are exactly the complete lines of the flattened
character stream, and what stays in the proxy is the unterminated rest — however the text was chunked
into writes, and separately for the two streams (each has its own buffer in `St`). -/

/-- One write: the lines printed and the new buffer (`FileProxy.write`). -/
def pw (buf : Line) (w : List Line × Line) : List Line × Line :=
  match w.1 with
  | [] => ([], buf ++ w.2)
  | l :: rest => ((buf ++ l) :: rest, w.2)

def pws (buf : Line) : List (List Line × Line) → List Line × Line
  | [] => ([], buf)
  | w :: ws => ((pw buf w).1 ++ (pws (pw buf w).2 ws).1, (pws (pw buf w).2 ws).2)

/-- The characters of one write. -/
def flatW (w : List Line × Line) : List Char := (w.1.map (· ++ ['\n'])).flatten ++ w.2

/-- A character stream cut at its newlines, starting with `cur` already pending. -/
def cutNL : Line → List Char → List Line × Line
  | cur, [] => ([], cur)
  | cur, c :: cs => if c = '\n' then (cur :: (cutNL [] cs).1, (cutNL [] cs).2) else cutNL (cur ++ [c]) cs

theorem cutNL_noNL (cur t : Line) (rest : List Char) (h : '\n' ∉ t) :
    cutNL cur (t ++ rest) = cutNL (cur ++ t) rest := by
  induction t generalizing cur with
  | nil => simp
  | cons c t ih =>
    have hc : c ≠ '\n' := fun e => h (by simp [e])
    have ht : '\n' ∉ t := fun e => h (by simp [e])
    simp only [List.cons_append, cutNL, hc, if_false]
    rw [ih _ ht]; simp

theorem cutNL_lines (cur : Line) (ls : List Line) (rest : List Char) (h : ∀ l ∈ ls, '\n' ∉ l) :
    cutNL cur ((ls.map (· ++ ['\n'])).flatten ++ rest) =
      match ls with
      | [] => cutNL cur rest
      | l :: ls' => ((cur ++ l) :: ls' ++ (cutNL [] rest).1, (cutNL [] rest).2) := by
  induction ls generalizing cur with
  | nil => simp
  | cons l ls ih =>
    have hl : '\n' ∉ l := h l (by simp)
    have hls : ∀ l' ∈ ls, '\n' ∉ l' := fun l' hl' => h l' (by simp [hl'])
    simp only [List.map_cons, List.flatten_cons, List.append_assoc]
    rw [cutNL_noNL _ _ _ hl]
    simp only [List.singleton_append, cutNL, if_true]
    rw [ih [] hls]
    cases ls with
    | nil => simp
    | cons l2 ls2 => simp

/-- The lines a sequence of writes prints are the complete lines of the flattened stream; the rest stays
pending — independent of how the text was split into writes. -/
theorem pws_eq_cut (buf : Line) (ws : List (List Line × Line))
    (h : ∀ w ∈ ws, (∀ l ∈ w.1, '\n' ∉ l) ∧ '\n' ∉ w.2) :
    pws buf ws = cutNL buf (ws.map flatW).flatten := by
  induction ws generalizing buf with
  | nil => simp [pws, cutNL]
  | cons w ws ih =>
    have hw := h w (by simp)
    have hws : ∀ w' ∈ ws, (∀ l ∈ w'.1, '\n' ∉ l) ∧ '\n' ∉ w'.2 := fun w' hw' => h w' (by simp [hw'])
    simp only [pws, List.map_cons, List.flatten_cons, flatW, List.append_assoc]
    rw [cutNL_lines _ _ _ hw.1]
    obtain ⟨ls, t⟩ := w
    cases ls with
    | nil =>
      simp only [pw]
      rw [cutNL_noNL _ _ _ hw.2, ih _ hws]
      simp
    | cons l ls' =>
      simp only [pw]
      rw [cutNL_noNL _ _ _ hw.2, ih _ hws]
      simp

/-- `Op.write` on a redirected stream prints exactly `pw` of the pending text and keeps its second
component pending (and touches neither the other stream's buffer nor anything when not redirected). -/
theorem doWrite_pw (cfg : Cfg) (fails : Nat → Bool) (st : St) (e : Bool) (lines : List Line) (tail : Line)
    (hp : proxied st e = true) :
    doWrite cfg fails st e lines tail =
      (match (pw (getBuf st e) (lines, tail)).1 with
       | [] => { st := setBuf st e (pw (getBuf st e) (lines, tail)).2 }
       | ls => doPrint cfg fails (setBuf st e (pw (getBuf st e) (lines, tail)).2) ls) := by
  cases lines <;> simp [doWrite, hp, pw]

end RichModel.Live
