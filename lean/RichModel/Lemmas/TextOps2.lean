import RichModel.Lemmas.TextOps
/-!
Padding, cropping, `set_length`, `text[i]`: invariant and reference semantics (repaired variant).
-/
namespace RichModel
namespace Text
variable {σ : Type}

theorem setPlain_spans_grow (t : Text σ) (s : List Char) (h : Inv t) (hlen : t.plain.length ≤ s.length) :
    (t.setPlain s).spans = t.spans := by
  rw [setPlain_eq]
  split
  · split
    · rename_i hgt; have := h.1; omega
    · rfl
  · rfl

/-! ### pad_right -/

theorem padRight_eq (t : Text σ) (n : Int) (ch : Char) :
    t.padRight n ch = if (n != 0) = true then t.setPlain (t.plain ++ List.replicate n.toNat ch) else t := rfl

theorem inv_padRight (t : Text σ) (n : Int) (ch : Char) (h : Inv t) (hch : isStripCode ch = false) :
    Inv (t.padRight n ch) := by
  rw [padRight_eq]; split
  · exact inv_setPlain _ _ h (NoCtl.append h.2.1 (NoCtl.replicate _ _ hch))
  · exact h

/-- `pad_right(n, ch)`: the text, then `n` characters in the bare base style -/
theorem view_padRight (t : Text σ) (n : Nat) (ch : Char) (h : Inv t) :
    (t.padRight (n : Int) ch).view = t.view ++ List.replicate n (ch, [t.style]) := by
  rw [padRight_eq]; split
  · rw [view_setPlain _ _ h, annot_append, view_eq_annot]
    congr 1
    simp only [Int.toNat_natCast, Nat.zero_add]
    exact annot_replicate _ _ _ _ _ (fun i h1 _ => effStyle_beyond t h i h1)
  · rename_i hz
    simp only [bne_iff_ne, ne_eq, Decidable.not_not] at hz
    have : n = 0 := by omega
    subst this; simp

/-! ### pad_left -/

theorem padLeft_eq (t : Text σ) (n : Int) (ch : Char) :
    t.padLeft n ch =
      if (n != 0) = true then
        { t.setPlain (List.replicate n.toNat ch ++ t.plain) with
          spans := (t.setPlain (List.replicate n.toNat ch ++ t.plain)).spans.map (fun sp => sp.move n) }
      else t := rfl

theorem inv_padLeft (t : Text σ) (n : Nat) (ch : Char) (h : Inv t) (hch : isStripCode ch = false) :
    Inv (t.padLeft (n : Int) ch) := by
  rw [padLeft_eq]; split
  · have h1 := inv_setPlain t (List.replicate (n : Int).toNat ch ++ t.plain) h (NoCtl.append (NoCtl.replicate _ _ hch) h.2.1)
    refine ⟨h1.1, h1.2.1, ?_⟩
    simp only []
    rw [setPlain_spans_grow _ _ h (by simp), setPlain_length _ _ h]
    have := SpansIn.move (n : Int) (by omega) h.2.2
    refine this.mono ?_
    have := h.1
    simp only [List.length_append, List.length_replicate, Int.toNat_natCast]; omega
  · exact h

/-- `pad_left(n, ch)`: `n` characters in the bare base style, then the text with every style still on
its character -/
theorem view_padLeft (t : Text σ) (n : Nat) (ch : Char) (h : Inv t) :
    (t.padLeft (n : Int) ch).view = List.replicate n (ch, [t.style]) ++ t.view := by
  rw [padLeft_eq]; split
  · rw [view_eq_annot]
    simp only [setPlain_plain, Int.toNat_natCast, annot_append]
    have hsp : (t.setPlain (List.replicate n ch ++ t.plain)).spans = t.spans :=
      setPlain_spans_grow _ _ h (by simp)
    congr 1
    · apply annot_replicate
      intro i _ hi
      simp only [effStyle, setPlain_style, hsp]
      rw [spanIds_move_lt t.spans n i (by omega) (fun sp hs => (h.2.2 sp hs).1)]
    · rw [view_eq_annot]
      have key : ∀ (F : Nat → List σ), annot t.plain F (0 + n) = annot t.plain (fun i => F (i + n)) 0 :=
        fun F => annot_shift t.plain F 0 n
      simp only [List.length_replicate]
      rw [key]
      apply annot_congr
      intro i _ _
      simp only [effStyle, setPlain_style, hsp]
      rw [spanIds_move]
  · rename_i hz
    simp only [bne_iff_ne, ne_eq, Decidable.not_not] at hz
    have : n = 0 := by omega
    subst this; simp

/-! ### right_crop / set_length (repaired) -/

theorem rightCrop_eq (t : Text σ) (a : Int) :
    t.rightCrop Variant.repaired a =
      { t with
        spans := trimSpansTo t.spans (max 0 ((t.plain.length : Int) - a))
        plain := Py.sliceTo t.plain (max 0 ((t.plain.length : Int) - a))
        length := max 0 ((t.plain.length : Int) - a) } := rfl

theorem rightCrop_nat (t : Text σ) (a : Nat) :
    t.rightCrop Variant.repaired (a : Int) =
      { t with
        spans := trimSpansTo t.spans ((t.plain.length - a : Nat) : Int)
        plain := t.plain.take (t.plain.length - a)
        length := ((t.plain.length - a : Nat) : Int) } := by
  rw [rightCrop_eq]
  have : max 0 ((t.plain.length : Int) - (a : Int)) = ((t.plain.length - a : Nat) : Int) := by omega
  rw [this, sliceTo_nat]

theorem inv_rightCrop (t : Text σ) (a : Nat) (h : Inv t) : Inv (t.rightCrop Variant.repaired (a : Int)) := by
  rw [rightCrop_nat]
  refine ⟨?_, NoCtl.take _ h.2.1, SpansIn.trim _ (by omega) h.2.2⟩
  simp only [List.length_take]; omega

/-- `right_crop(a)` keeps the first `len - a` characters, each with the style it had (`a = 0` keeps
everything, `a ≥ len` leaves the empty text) -/
theorem view_rightCrop (t : Text σ) (a : Nat) :
    (t.rightCrop Variant.repaired (a : Int)).view = t.view.take (t.plain.length - a) := by
  rw [rightCrop_nat, view_eq_annot, view_eq_annot, ← annot_take]
  apply annot_congr
  intro i _ hi
  simp only [effStyle, spanIds_trim]
  rw [if_pos]
  simp only [List.length_take] at hi; omega

theorem inv_setLength (t : Text σ) (n : Nat) (h : Inv t) : Inv (t.setLength Variant.repaired (n : Int)) := by
  unfold setLength
  simp only []
  split
  · split
    · exact inv_padRight _ _ _ h noCtl_space
    · have : t.length - (n : Int) = ((t.plain.length - n : Nat) : Int) := by have := h.1; omega
      rw [this]; exact inv_rightCrop _ _ h
  · exact h

/-- `set_length(n)`: the first `n` characters with their styles, padded with base-styled spaces up to `n` -/
theorem view_setLength (t : Text σ) (n : Nat) (h : Inv t) :
    (t.setLength Variant.repaired (n : Int)).view =
      t.view.take n ++ List.replicate (n - t.plain.length) (' ', [t.style]) := by
  have hl := h.1
  have hvl : t.view.length = t.plain.length := by rw [view_eq_annot, annot_length]
  unfold setLength
  simp only []
  split
  · split
    · have : (n : Int) - t.length = ((n - t.plain.length : Nat) : Int) := by omega
      rw [this, view_padRight _ _ _ h, List.take_of_length_le (by omega)]
    · have : t.length - (n : Int) = ((t.plain.length - n : Nat) : Int) := by omega
      rw [this, view_rightCrop]
      have h2 : n - t.plain.length = 0 := by omega
      have h3 : t.plain.length - (t.plain.length - n) = n := by omega
      rw [h2, h3]; simp
  · rename_i hz
    simp only [bne_iff_ne, ne_eq, Decidable.not_not] at hz
    have h2 : n - t.plain.length = 0 := by omega
    rw [h2, List.take_of_length_le (by omega)]; simp

/-! ### `text[i]` (repaired) -/

theorem spanIds_getItem (spans : List (Span σ)) (idx : Nat) :
    spanIds ((spans.filter (fun sp => decide (sp.stop > (idx : Int)) && decide ((idx : Int) ≥ sp.start))).map
      (fun sp => (⟨0, 1, sp.style⟩ : Span σ))) 0 = spanIds spans idx := by
  induction spans with
  | nil => rfl
  | cons sp rest ih =>
    simp only [List.filter_cons]
    by_cases hc : sp.start ≤ (idx : Int) ∧ (idx : Int) < sp.stop
    · have h1 : (decide (sp.stop > (idx : Int)) && decide ((idx : Int) ≥ sp.start)) = true := by
        simp only [Bool.and_eq_true, decide_eq_true_eq]; omega
      have h2 : sp.covers idx = true := (covers_iff sp idx).2 hc
      rw [if_pos h1, List.map_cons, spanIds_cons, spanIds_cons, if_pos h2, if_pos (by simp [Span.covers]), ih]
    · have h1 : ¬ (decide (sp.stop > (idx : Int)) && decide ((idx : Int) ≥ sp.start)) = true := by
        simp only [Bool.and_eq_true, decide_eq_true_eq]; omega
      have h2 : ¬ sp.covers idx = true := fun x => hc ((covers_iff sp idx).1 x)
      rw [if_neg h1, spanIds_cons, if_neg h2, ih]

/-- `text[i]` for `0 ≤ i < len`: that one character with the effective style it had -/
theorem view_getItem (null : σ) (t : Text σ) (i : Nat) (hi : i < t.plain.length) (h : Inv t) :
    ∃ u, t.getItem Variant.repaired null (i : Int) = .ok u ∧ Inv u ∧ u.view = [(t.plain.getD i ' ', t.effStyle i)] := by
  have hc : isStripCode (t.plain.getD i ' ') = false := by
    have : t.plain.getD i ' ' = t.plain[i] := by simp [List.getD, hi]
    rw [this]; exact h.2.1 _ (List.getElem_mem hi)
  unfold getItem
  simp only [Variant.repaired, Bool.false_eq_true, if_false]
  rw [if_neg (by simp; omega), if_neg (by omega)]
  simp only [Int.toNat_natCast]
  refine ⟨_, rfl, ?_, ?_⟩
  · apply inv_new
    have hs : stripControl [t.plain.getD i ' '] = [t.plain.getD i ' '] :=
      stripControl_id _ (by intro c hcm; simp only [List.mem_singleton] at hcm; rw [hcm]; exact hc)
    rw [hs]
    intro sp hsp
    obtain ⟨s0, _, rfl⟩ := List.mem_map.1 hsp
    simp
  · rw [view_new]
    have hs : stripControl [t.plain.getD i ' '] = [t.plain.getD i ' '] :=
      stripControl_id _ (by intro c hcm; simp only [List.mem_singleton] at hcm; rw [hcm]; exact hc)
    rw [hs]
    simp only [annot, effStyle]
    rw [spanIds_getItem]

end Text
end RichModel
