import RichModel.Lemmas.AnsiSpec
/-!
Lemmas for property C03, part 6:

* the tokens `_render_buffer` writes are well-formed for the wire (`WFTok`) when no segment text contains
  ESC and no link contains ESC / BEL — so the *characters* written, read back by the terminal's
  tokenizer, mean what the tokens mean;
* `not_terminal_no_control` in full (token for token, every configuration);
* the `Except` branches: an exception out of `_render_buffer` is the exception of computing the codes
  of one of the styles in the heap, which needs an ill-formed `Color`; never under NO_COLOR or with
  colour disabled.

Core Lean only.
-/
namespace RichModel.AnsiRender
open RichModel RichModel.AnsiTerm

/-! ## well-formed for the wire -/

/-- A hyperlink that can be framed by OSC 8: no ESC, no BEL. -/
def LinkClean (s : Style) : Prop := ∀ l, s.link = some l → ∀ c ∈ l, c ≠ ESC ∧ c ≠ BEL

/-- No ESC in any segment text, no ESC / BEL in any link of the heap. -/
def NoEscIn (heap : Heap) (segs : List Seg) : Prop :=
  (∀ seg ∈ segs, ESC ∉ seg.text) ∧ ∀ o ∈ heap, LinkClean o.style

theorem linkIdMask_clean : ∀ c ∈ linkIdMask, c ≠ ';' ∧ c ≠ ESC ∧ c ≠ BEL := by decide

theorem freshToks_wf (cc : Cfg) (P : Palettes) (s : Style) (text : List Char) (cs : Option ColorSystem) (lw : Bool)
    (ht : ESC ∉ text) (hl : LinkClean s) : ∀ t ∈ freshToks cc P s text cs lw, WFTok t := by
  have htext : WFTok (.text text) := ht
  cases cs with
  | none => intro t h; simp only [freshToks, styleRender, List.mem_singleton] at h; subst h; exact htext
  | some cs =>
    by_cases hte : text.isEmpty = true
    · intro t h
      simp only [freshToks, styleRender, hte, if_true, List.mem_singleton] at h
      subst h; exact htext
    · simp only [freshToks, styleRender, hte, Bool.false_eq_true, if_false, makeAnsiCodes, cacheLookup]
      cases hcc : computeCodes cc P s cs with
      | error e => intro t h; simp [bind, Except.bind] at h
      | ok codes =>
        simp only [bind, Except.bind]
        have hcore : ∀ t ∈ (if codes.isEmpty = true then [Tok.text text] else [Tok.sgr codes, Tok.text text, Tok.sgr [0]]), WFTok t := by
          intro t h
          split at h
          · simp only [List.mem_singleton] at h; subst h; exact htext
          · simp only [List.mem_cons, List.not_mem_nil, or_false] at h
            rcases h with rfl | rfl | rfl
            · trivial
            · exact htext
            · trivial
        intro t h
        split at h
        · simp only [List.append_assoc, List.mem_append, List.mem_singleton] at h
          rcases h with rfl | h | rfl
          · refine ⟨linkIdMask_clean, ?_⟩
            cases hlk : s.link with
            | none => intro c hc; simp at hc
            | some l => simpa using hl l hlk
          · exact hcore t h
          · exact ⟨(by intro c hc; cases hc), (by intro c hc; cases hc)⟩
        · exact hcore t h

theorem linkClean_withoutColor (s : Style) (h : LinkClean s) : LinkClean (Style.withoutColor StyleVariant.fixed s) := by
  unfold Style.withoutColor
  split
  · intro l hl; simp [Style.null] at hl
  · exact h

theorem linkClean_copy (s : Style) (h : LinkClean s) : LinkClean (Style.copy s) := by
  unfold Style.copy
  split
  · intro l hl; simp [Style.null] at hl
  · exact h

theorem segStyle_mem {heap : Heap} {seg : Seg} {s : Style} (h : segStyle heap seg = some s) : ∃ o ∈ heap, o.style = s := by
  unfold segStyle at h
  cases hst : seg.style with
  | none => rw [hst] at h; cases h
  | some i =>
    rw [hst] at h
    simp only [Option.map_eq_some_iff] at h
    obtain ⟨o, ho, rfl⟩ := h
    exact ⟨o, List.mem_iff_getElem?.mpr ⟨i, ho⟩, rfl⟩

theorem specToks_wf (cc : Cfg) (P : Palettes) (cfg : Config) (heap : Heap) (segs : List Seg) (h : NoEscIn heap segs) :
    ∀ t ∈ specToks cc P cfg heap segs, WFTok t := by
  intro t ht
  simp only [specToks, loopToks, List.mem_flatMap, List.mem_filter] at ht
  obtain ⟨seg, ⟨hseg, _⟩, htk⟩ := ht
  have htext := h.1 seg hseg
  unfold segToks at htk
  cases hss : segStyle heap seg with
  | none => rw [hss] at htk; simp only [List.mem_singleton] at htk; subst htk; exact htext
  | some s =>
    rw [hss] at htk
    simp only at htk
    obtain ⟨o, ho, rfl⟩ := segStyle_mem hss
    have hl := h.2 o ho
    split at htk
    · simp only [List.mem_singleton] at htk; subst htk; exact htext
    · split at htk
      · exact freshToks_wf cc P _ _ _ _ htext (linkClean_withoutColor _ hl) t htk
      · exact freshToks_wf cc P _ _ _ _ htext hl t htk

/-- **The characters mean the segments.**  Repaired code, sound heap, no ESC in texts and links: the
characters `_render_buffer` returns, read by the terminal's tokenizer and replayed from the default
state, show exactly `expectedCells` and leave the terminal in the default state. -/
theorem renderBufferChars_means (v : RVariant) (hv : v.ansiCacheUnkeyed = false) (hv2 : v.styledControlKept = false)
    (cc : Cfg) (P : Palettes) (hP : P.ok = true) (cfg : Config) (heap : Heap) (segs : List Seg)
    (hok : HeapOK cc P heap) (hrefs : RefsOK heap segs) (hclean : NoEscIn heap segs) :
    ∃ chars heap', renderBufferChars v cc P cfg heap segs = .ok (chars, heap') ∧ HeapOK cc P heap' ∧
      heap'.map (·.style) = heap.map (·.style) ∧
      interpFrom {} (tokenize chars) = ({}, expectedCells cc P cfg heap segs) := by
  obtain ⟨heap', g1, g2, g3, _⟩ := renderBuffer_toks v hv hv2 cc P hP cfg heap segs hok hrefs
  obtain ⟨toks, heap'', h1, _, _, h4⟩ := renderBuffer_means v hv hv2 cc P hP cfg heap segs hok hrefs
  rw [g1] at h1
  simp only [Except.ok.injEq, Prod.mk.injEq] at h1
  obtain ⟨rfl, rfl⟩ := h1
  refine ⟨serialise (specToks cc P cfg heap segs), heap', by simp [renderBufferChars, g1], g2, g3, ?_⟩
  rw [interpFrom_tokenize_serialise _ (specToks_wf cc P cfg heap segs hclean), h4]

/-! ## histories at the level of characters -/

/-- No ESC in any text of the history, no ESC / BEL in any link. -/
def OpsClean : List Op → Prop
  | [] => True
  | .newStyle s :: rest => LinkClean s ∧ OpsClean rest
  | .copy _ :: rest => OpsClean rest
  | .updateLink _ link :: rest => (∀ l, link = some l → ∀ c ∈ l, c ≠ ESC ∧ c ≠ BEL) ∧ OpsClean rest
  | .render _ segs :: rest => (∀ seg ∈ segs, ESC ∉ seg.text) ∧ OpsClean rest
  | .styleRender _ text _ _ :: rest => ESC ∉ text ∧ OpsClean rest

theorem freshHeap_clean (styles : List Style) (h : ∀ s ∈ styles, LinkClean s) : ∀ o ∈ freshHeap styles, LinkClean o.style := by
  intro o ho
  simp only [freshHeap, List.mem_map] at ho
  obtain ⟨s, hs, rfl⟩ := ho
  exact h s hs

theorem specOpsToks_wf (cc : Cfg) (P : Palettes) (ops : List Op) :
    ∀ styles : List Style, (∀ s ∈ styles, LinkClean s) → OpsClean ops →
      ∀ o ∈ specOpsToks cc P styles ops, ∀ t ∈ o, WFTok t := by
  induction ops with
  | nil => intro styles _ _ o ho; cases ho
  | cons op rest ih =>
    intro styles hs hc
    have happ : ∀ s, LinkClean s → ∀ x ∈ styles ++ [s], LinkClean x := by
      intro s hsl x hx
      rcases List.mem_append.mp hx with hx | hx
      · exact hs x hx
      · simp only [List.mem_singleton] at hx; subst hx; exact hsl
    cases op with
    | newStyle s => exact ih _ (happ s hc.1) hc.2
    | copy i =>
      simp only [specOpsToks]
      cases hi : styles[i]? with
      | none => intro o ho; cases ho
      | some s =>
        have hsm : s ∈ styles := List.mem_iff_getElem?.mpr ⟨i, hi⟩
        exact ih _ (happ _ (linkClean_copy s (hs s hsm))) hc
    | updateLink i link =>
      simp only [specOpsToks]
      cases hi : styles[i]? with
      | none => intro o ho; cases ho
      | some s => exact ih _ (happ _ (by intro l hl; exact hc.1 l (Style.updateLink_link_some hl))) hc.2
    | render cfg segs =>
      intro o ho
      simp only [specOpsToks, List.mem_cons] at ho
      rcases ho with rfl | ho
      · exact specToks_wf cc P cfg _ segs ⟨hc.1, freshHeap_clean styles hs⟩
      · exact ih styles hs hc.2 o ho
    | styleRender i text cs lw =>
      intro o ho
      simp only [specOpsToks, List.mem_cons] at ho
      rcases ho with rfl | ho
      · cases hi : styles[i]? with
        | none => intro t ht; cases ht
        | some s => exact freshToks_wf cc P s text cs lw hc.1 (hs s (List.mem_iff_getElem?.mpr ⟨i, hi⟩))
      · exact ih styles hs hc.2 o ho

theorem map_ok_injective {ε α : Type} (a b : List α) (h : a.map (Except.ok : α → Except ε α) = b.map Except.ok) : a = b := by
  induction a generalizing b with
  | nil => cases b <;> simp_all
  | cons x xs ih =>
    cases b with
    | nil => simp at h
    | cons y ys =>
      simp only [List.map_cons, List.cons.injEq, Except.ok.injEq] at h
      rw [h.1, ih ys h.2]

/-- **Histories at the level of characters** (repaired code): every writing step's characters, read by
the terminal's tokenizer, mean what the cache-free specification says; each write leaves the terminal
in its default state. -/
theorem runOpsChars_means (v : RVariant) (hv : v.ansiCacheUnkeyed = false) (hv2 : v.styledControlKept = false)
    (cc : Cfg) (P : Palettes) (hP : P.ok = true) (ops : List Op) (heap : Heap) (hok : HeapOK cc P heap)
    (hops : OpsOK heap.length ops) (hheap : ∀ o ∈ heap, LinkClean o.style) (hclean : OpsClean ops) :
    ∃ outs : List (List Char), runOpsChars v cc P heap ops = outs.map Except.ok ∧
      outs.map (fun s => interp (tokenize s)) = specOps cc P (heap.map (·.style)) ops ∧
      ∀ s ∈ outs, finalState (tokenize s) = {} := by
  have htoks := runOps_toks v hv hv2 cc P hP ops heap hok hops
  obtain ⟨outs, h1, h2, h3⟩ := runOps_means v hv hv2 cc P hP ops heap hok hops
  have he : outs = specOpsToks cc P (heap.map (·.style)) ops := map_ok_injective _ _ (h1.symm.trans htoks)
  have hwf : ∀ o ∈ outs, ∀ t ∈ o, WFTok t := by
    rw [he]
    apply specOpsToks_wf cc P ops _ _ hclean
    intro s hs
    simp only [List.mem_map] at hs
    obtain ⟨o, ho, rfl⟩ := hs
    exact hheap o ho
  refine ⟨outs.map serialise, ?_, ?_, ?_⟩
  · simp [runOpsChars, h1, List.map_map, Function.comp_def]
  · rw [← h2, List.map_map]
    apply List.map_congr_left
    intro o ho
    simp only [Function.comp_apply, interp, interpFrom_tokenize_serialise o (hwf o ho)]
  · intro s hs
    simp only [List.mem_map] at hs
    obtain ⟨o, ho, rfl⟩ := hs
    simp only [finalState, interpFrom_tokenize_serialise o (hwf o ho)]
    exact h3 o ho

/-! ## not a terminal, in full -/

theorem refsOK_filter {heap : Heap} {segs : List Seg} (h : RefsOK heap segs) (p : Seg → Bool) : RefsOK heap (segs.filter p) :=
  fun s hs => h s (List.mem_filter.mp hs).1

theorem specToks_not_terminal (cc : Cfg) (P : Palettes) (cfg : Config) (ht : cfg.isTerminal = false) (heap : Heap)
    (segs : List Seg) : specToks cc P cfg heap (segs.filter fun s => !s.control) = specToks cc P cfg heap segs := by
  simp only [specToks, loopToks, List.filter_filter]
  congr 2
  funext s
  simp [segVisible, ht]

/-- **On a non-terminal, control segments are as if they had not been in the buffer**: dropping them
from the input changes neither the tokens written nor the caches — every configuration, NO_COLOR
included (repaired code, sound heap). -/
theorem renderBuffer_not_terminal (v : RVariant) (hv : v.ansiCacheUnkeyed = false) (hv2 : v.styledControlKept = false)
    (cc : Cfg) (P : Palettes) (hP : P.ok = true) (cfg : Config) (ht : cfg.isTerminal = false) (heap : Heap)
    (segs : List Seg) (hok : HeapOK cc P heap) (hrefs : RefsOK heap segs) :
    renderBuffer v cc P cfg heap segs = renderBuffer v cc P cfg heap (segs.filter fun s => !s.control) := by
  by_cases hnc : (cfg.noColor && cfg.colorSystem.isSome) = true
  · obtain ⟨h1, g1, _, _, e1⟩ := renderBuffer_toks v hv hv2 cc P hP cfg heap segs hok hrefs
    obtain ⟨h2, g2, _, _, e2⟩ := renderBuffer_toks v hv hv2 cc P hP cfg heap _ hok (refsOK_filter hrefs _)
    rw [g1, g2, e1 hnc, e2 hnc, specToks_not_terminal cc P cfg ht]
  · unfold renderBuffer
    simp only [hnc, Bool.false_eq_true, if_false]
    exact renderLoop_not_terminal v hv2 cc P cfg ht segs heap

/-! ## the `Except` branches -/

theorem styleRender_style (v : RVariant) (cc : Cfg) (P : Palettes) (o : StyleObj) (text : List Char)
    (cs : Option ColorSystem) (lw : Bool) (t : List Tok) (o' : StyleObj)
    (h : styleRender v cc P o text cs lw = .ok (t, o')) : o'.style = o.style := by
  cases cs with
  | none => simp only [styleRender, Except.ok.injEq, Prod.mk.injEq] at h; rw [← h.2]
  | some cs =>
    by_cases ht : text.isEmpty = true
    · simp only [styleRender, ht, if_true, Except.ok.injEq, Prod.mk.injEq] at h; rw [← h.2]
    · simp only [styleRender, ht, Bool.false_eq_true, if_false, makeAnsiCodes] at h
      cases hl : cacheLookup v o cs with
      | some cd => simp only [hl, bind, Except.bind, Except.ok.injEq, Prod.mk.injEq] at h; rw [← h.2]
      | none =>
        cases hcc : computeCodes cc P o.style cs with
        | error e => simp [hl, hcc, bind, Except.bind] at h
        | ok codes => simp only [hl, hcc, bind, Except.bind, Except.ok.injEq, Prod.mk.injEq] at h; rw [← h.2]

/-- `Style.render` raises exactly what computing the codes of the style raises. -/
theorem styleRender_error (v : RVariant) (cc : Cfg) (P : Palettes) (o : StyleObj) (text : List Char)
    (cs : Option ColorSystem) (lw : Bool) (e : ColorErr) (h : styleRender v cc P o text cs lw = .error e) :
    ∃ c, cs = some c ∧ computeCodes cc P o.style c = .error e := by
  cases cs with
  | none => simp [styleRender] at h
  | some cs =>
    refine ⟨cs, rfl, ?_⟩
    by_cases ht : text.isEmpty = true
    · simp [styleRender, ht] at h
    · simp only [styleRender, ht, Bool.false_eq_true, if_false, makeAnsiCodes] at h
      cases hl : cacheLookup v o cs with
      | some cd => simp [hl, bind, Except.bind] at h
      | none =>
        cases hcc : computeCodes cc P o.style cs with
        | error e' => simp only [hl, hcc, bind, Except.bind, Except.error.injEq] at h; rw [h]
        | ok codes => simp [hl, hcc, bind, Except.bind] at h

/-- Computing the codes raises only for an ill-formed `Color` object. -/
theorem computeCodes_error (cc : Cfg) (P : Palettes) (hP : P.ok = true) (s : Style) (cs : ColorSystem) (e : ColorErr)
    (h : computeCodes cc P s cs = .error e) : ∃ c, (s.color = some c ∨ s.bgcolor = some c) ∧ ¬ c.WF := by
  apply Classical.byContradiction
  intro hno
  have hall : ∀ c, (s.color = some c ∨ s.bgcolor = some c) → c.WF := by
    intro c hc
    apply Classical.byContradiction
    intro hw
    exact hno ⟨c, hc, hw⟩
  obtain ⟨fgc, hfg, _⟩ := colorCodes_fg cc P hP s.color (fun x hx => hall x (Or.inl hx)) cs
  obtain ⟨bgc, hbg, _⟩ := colorCodes_bg cc P hP s.bgcolor (fun x hx => hall x (Or.inr hx)) cs
  simp [computeCodes, hfg, hbg, bind, Except.bind] at h

/-- An exception out of the loop is the exception of computing the codes of a style of the heap. -/
theorem renderLoop_error (v : RVariant) (cc : Cfg) (P : Palettes) (cfg : Config) (segs : List Seg) :
    ∀ (heap : Heap) (e : ColorErr), renderLoop v cc P cfg heap segs = .error (.py e) →
      ∃ s ∈ heap.map (·.style), ∃ cs, cfg.colorSystem = some cs ∧ computeCodes cc P s cs = .error e := by
  induction segs with
  | nil => intro heap e h; simp [renderLoop] at h
  | cons seg rest ih =>
    intro heap e h
    have plainCase : ∀ (pl : List Tok) (h : (do
          let (toks, heap') ← renderLoop v cc P cfg heap rest
          Except.ok (pl ++ toks, heap') : Except RenderErr (List Tok × Heap)) = .error (.py e)),
        ∃ s ∈ heap.map (·.style), ∃ cs, cfg.colorSystem = some cs ∧ computeCodes cc P s cs = .error e := by
      intro pl h
      cases hr : renderLoop v cc P cfg heap rest with
      | error e' =>
        simp only [hr, bind, Except.bind, Except.error.injEq] at h
        subst h
        exact ih heap e hr
      | ok p => simp [hr, bind, Except.bind] at h
    unfold renderLoop at h
    simp only at h
    split at h
    · exact ih heap e h
    · cases hst : seg.style with
      | none => rw [hst] at h; exact plainCase _ h
      | some i =>
        rw [hst] at h
        simp only at h
        cases ho : heap[i]? with
        | none => rw [ho] at h; cases h
        | some o =>
          rw [ho] at h
          simp only at h
          have hmem : o ∈ heap := List.mem_iff_getElem?.mpr ⟨i, ho⟩
          split at h
          · cases hsr : styleRender v cc P o seg.text cfg.colorSystem cfg.legacyWindows with
            | error e' =>
              simp only [hsr, liftPy, bind, Except.bind, Except.error.injEq, RenderErr.py.injEq] at h
              subst h
              obtain ⟨c, hc, hcc⟩ := styleRender_error v cc P o seg.text _ _ e' hsr
              exact ⟨o.style, List.mem_map.mpr ⟨o, hmem, rfl⟩, c, hc, hcc⟩
            | ok p =>
              obtain ⟨t1, o'⟩ := p
              have hs' := styleRender_style v cc P o seg.text _ _ t1 o' hsr
              have hmap := map_style_set heap i o o' ho hs'
              cases hr : renderLoop v cc P cfg (heap.set i o') rest with
              | error e' =>
                simp only [hsr, liftPy, hr, bind, Except.bind, Except.error.injEq] at h
                subst h
                obtain ⟨s, hs, rest'⟩ := ih _ e hr
                exact ⟨s, hmap ▸ hs, rest'⟩
              | ok q => simp [hsr, liftPy, hr, bind, Except.bind] at h
          · exact plainCase _ h

/-- Every object `remove_color` makes is colourless with an empty cache; it raises only for a dangling reference. -/
theorem removeColorLoop_colourless (heap : Heap) (ss : List Seg) :
    ∀ (keys : List Style) (t0 : Heap),
      (∀ o ∈ t0, ColourlessObj o) →
      (∀ (ss' : List Seg) (t1 : Heap), removeColorLoop heap ss keys t0 = .ok (ss', t1) → ∀ o ∈ t1, ColourlessObj o) ∧
      (∀ e, removeColorLoop heap ss keys t0 ≠ .error (.py e)) := by
  induction ss with
  | nil =>
    intro keys t0 h0
    refine ⟨?_, by intro e h; simp [removeColorLoop] at h⟩
    intro ss' t1 he
    simp only [removeColorLoop, Except.ok.injEq, Prod.mk.injEq] at he
    obtain ⟨_, rfl⟩ := he
    exact h0
  | cons s rest ih =>
    intro keys t0 h0
    have cont : ∀ (keys1 : List Style) (t01 : Heap) (st : Option Nat), (∀ o ∈ t01, ColourlessObj o) →
        (∀ (ss' : List Seg) (t1 : Heap), (do
            let (segs', tmp') ← removeColorLoop heap rest keys1 t01
            Except.ok ({ s with style := st } :: segs', tmp') : Except RenderErr (List Seg × Heap)) = .ok (ss', t1) →
          ∀ o ∈ t1, ColourlessObj o) ∧
        (∀ e, (do
            let (segs', tmp') ← removeColorLoop heap rest keys1 t01
            Except.ok ({ s with style := st } :: segs', tmp') : Except RenderErr (List Seg × Heap)) ≠ .error (.py e)) := by
      intro keys1 t01 st h01
      obtain ⟨i1, i2⟩ := ih keys1 t01 h01
      constructor
      · intro ss' t1 hh
        cases hrr : removeColorLoop heap rest keys1 t01 with
        | error e => simp [hrr, bind, Except.bind] at hh
        | ok w =>
          obtain ⟨w1, w2⟩ := w
          simp only [hrr, bind, Except.bind, Except.ok.injEq, Prod.mk.injEq] at hh
          obtain ⟨_, rfl⟩ := hh
          exact i1 w1 w2 hrr
      · intro e hh
        cases hrr : removeColorLoop heap rest keys1 t01 with
        | error e' =>
          simp only [hrr, bind, Except.bind, Except.error.injEq] at hh
          exact i2 e (hh ▸ hrr)
        | ok w => simp [hrr, bind, Except.bind] at hh
    unfold removeColorLoop
    cases hst : s.style with
    | none => exact cont keys t0 none h0
    | some i =>
      simp only
      cases ho : heap[i]? with
      | none => exact ⟨(by intro _ _ h; cases h), (by intro e h; cases h)⟩
      | some o =>
        simp only
        split
        · cases hf : keys.findIdx? (fun k => Style.eq k o.style) with
          | some k => exact cont keys t0 (some k) h0
          | none =>
            refine cont (keys ++ [o.style]) _ (some keys.length) ?_
            intro x hx
            rcases List.mem_append.mp hx with hx | hx
            · exact h0 x hx
            · simp only [List.mem_singleton] at hx
              subst hx
              refine ⟨?_, ?_, by intro cs' codes hc; cases hc⟩ <;>
                (unfold Style.withoutColor; split <;> rfl)
        · exact cont keys t0 none h0

theorem computeCodes_colourless (cc : Cfg) (P : Palettes) (s : Style) (cs : ColorSystem)
    (h1 : s.color = none) (h2 : s.bgcolor = none) : ∃ codes, computeCodes cc P s cs = .ok codes :=
  ⟨attrCodes (s.attributes &&& s.setAttributes), by simp [computeCodes, colorCodes, h1, h2, bind, Except.bind]⟩

/-- **When `_render_buffer` raises.**  For both code variants: a Python exception out of
`_render_buffer` happens only with colour enabled and NO_COLOR off, and it is the exception raised by
computing the codes of one of the styles in the heap for the console's colour system. -/
theorem renderBuffer_error (v : RVariant) (cc : Cfg) (P : Palettes) (cfg : Config) (heap : Heap) (segs : List Seg)
    (e : ColorErr) (h : renderBuffer v cc P cfg heap segs = .error (.py e)) :
    cfg.noColor = false ∧ ∃ s ∈ heap.map (·.style), ∃ cs, cfg.colorSystem = some cs ∧ computeCodes cc P s cs = .error e := by
  unfold renderBuffer at h
  by_cases hc : (cfg.noColor && cfg.colorSystem.isSome) = true
  · exfalso
    simp only [hc, if_true] at h
    cases hr : removeColorLoop heap segs [] [] with
    | error e' =>
      simp only [hr, bind, Except.bind, Except.error.injEq] at h
      exact (removeColorLoop_colourless heap segs [] [] (by intro o ho; cases ho)).2 e (h ▸ hr)
    | ok p =>
      obtain ⟨segs', tmp⟩ := p
      have hcl := (removeColorLoop_colourless heap segs [] [] (by intro o ho; cases ho)).1 segs' tmp hr
      cases hl : renderLoop v cc P cfg tmp segs' with
      | error e' =>
        simp only [hr, hl, bind, Except.bind, Except.error.injEq] at h
        subst h
        obtain ⟨s, hs, cs, _, hcc⟩ := renderLoop_error v cc P cfg segs' tmp e hl
        simp only [List.mem_map] at hs
        obtain ⟨o, ho, rfl⟩ := hs
        obtain ⟨codes, hk⟩ := computeCodes_colourless cc P o.style cs (hcl o ho).1 (hcl o ho).2.1
        rw [hk] at hcc
        cases hcc
      | ok q => simp [hr, hl, bind, Except.bind] at h
  · simp only [hc, Bool.false_eq_true, if_false] at h
    obtain ⟨s, hs, cs, hcs, hcc⟩ := renderLoop_error v cc P cfg segs heap e h
    refine ⟨?_, s, hs, cs, hcs, hcc⟩
    cases hn : cfg.noColor with
    | false => rfl
    | true => exfalso; apply hc; simp [hn, hcs]

end RichModel.AnsiRender
