import RichModel.Lemmas.ProgressSeq
/-!
Invariants of sequential histories on a monotone clock: the sample deque is sorted by timestamp,
its amounts are non-negative, and a started, unfinished task with samples is below its total.
-/
namespace RichModel.Progress

def Mono (clock : Clock) : Prop := ∀ i j, i ≤ j → clock i ≤ clock j

/-- samples sorted by timestamp, non-negative, and not later than any clock reading from `K` on -/
def SOK (clock : Clock) (K : Nat) (l : List Sample) : Prop :=
  List.Pairwise (fun a b => a.ts ≤ b.ts) l ∧ (∀ s ∈ l, 0 ≤ s.amt) ∧ (∀ s ∈ l, ∀ j, K ≤ j → s.ts ≤ clock j)

theorem SOK_nil (clock : Clock) (K : Nat) : SOK clock K [] :=
  ⟨List.Pairwise.nil, fun s hs => (by cases hs), fun s hs => (by cases hs)⟩

theorem SOK_mono {clock : Clock} {K K' : Nat} {l : List Sample} (h : SOK clock K l) (hk : K ≤ K') : SOK clock K' l :=
  ⟨h.1, h.2.1, fun s hs j hj => h.2.2 s hs j (Nat.le_trans hk hj)⟩

theorem SOK_sublist {clock : Clock} {K : Nat} {l l' : List Sample} (h : SOK clock K l) (hs : l'.Sublist l) :
    SOK clock K l' :=
  ⟨List.Pairwise.sublist hs h.1, fun s m => h.2.1 s (hs.subset m), fun s m => h.2.2 s (hs.subset m)⟩

theorem SOK_append {clock : Clock} (hm : Mono clock) {K K' k : Nat} {l : List Sample} {amt : Int}
    (h : SOK clock K l) (hk : K ≤ k) (hk' : k + 1 ≤ K') (ha : 0 ≤ amt) :
    SOK clock K' (l ++ [⟨clock k, amt⟩]) := by
  refine ⟨?_, ?_, ?_⟩
  · rw [List.pairwise_append]
    refine ⟨h.1, List.pairwise_singleton _ _, ?_⟩
    intro a ha' b hb
    simp only [List.mem_singleton] at hb; subst hb
    exact h.2.2 a ha' k hk
  · intro s hs
    simp only [List.mem_append, List.mem_singleton] at hs
    rcases hs with hs | rfl
    · exact h.2.1 s hs
    · exact ha
  · intro s hs j hj
    simp only [List.mem_append, List.mem_singleton] at hs
    rcases hs with hs | rfl
    · exact h.2.2 s hs j (by omega)
    · exact hm k j (by omega)

/-- "the task is running whenever it advances": the running invariant -/
def Run (t : Task) : Prop :=
  (t.startTime = none → t.samples = []) ∧
  (t.startTime.isSome → t.finishedTime.isSome ∨ t.completed < t.total ∨ t.samples = [])

/-- advances of the `advance` operation are non-negative -/
def Op.nonneg : Op → Prop
  | .advance _ a => 0 ≤ a
  | _ => True

/-- the id of the task an operation advances or updates -/
def Op.progresses : Op → Option Nat
  | .advance i _ => some i
  | .update i _ => some i
  | _ => none

theorem finishCheck_run (clock : Clock) (t : Task) (k : Nat) (hs : t.startTime.isSome) :
    Run (t.finishCheck clock k).1 := by
  refine ⟨?_, ?_⟩
  · intro h; rw [finishCheck_startTime] at h; rw [h] at hs; cases hs
  · intro _
    cases hf : (t.finishCheck clock k).1.finishedTime with
    | some v => left; rfl
    | none =>
      right; left
      have := finishCheck_none clock t k hf
      rcases this.2 with h | h
      · simpa using h
      · rw [h] at hs; cases hs

theorem taskEffect_inv (cfg : Cfg) (clock : Clock) (hm : Mono clock) (op : Op) (o : Nat) (t : Task) (k : Nat)
    (hnn : op.nonneg) (h : SOK clock k t.samples) :
    SOK clock (taskEffect cfg clock op none o t k).2 (taskEffect cfg clock op none o t k).1.samples := by
  cases op with
  | addTask => exact h
  | removeTask => exact h
  | startTask i =>
    simp only [taskEffect]; split
    · exact SOK_mono h (Nat.le_succ _)
    · exact h
  | stopTask i => exact SOK_mono h (Nat.le_succ _)
  | reset i r => simp only [taskEffect, Task.resetBody]; exact SOK_nil _ _
  | refresh => exact h
  | start => exact h
  | stop => exact h
  | update i u =>
    simp only [taskEffect, Task.updateBody, finishCheck_samples]
    generalize hk0 : (if u.refresh = true then refreshK cfg o (t.applyUpd u) k else k) = k0
    have hk : k ≤ k0 := by
      rw [← hk0]; split
      · unfold refreshK; omega
      · omega
    have hge := fun x => finishCheck_clk_ge clock x (k0 + 1)
    have hbase : SOK clock k0 (prune cfg (clock k0) (t.applyUpd u).samples) := by
      apply SOK_sublist _ (prune_sublist _ _ _)
      rw [applyUpd_samples]; split
      · exact SOK_nil _ _
      · exact SOK_mono h hk
    split
    · next hpos => exact SOK_append hm hbase (Nat.le_refl _) (hge _) (by omega)
    · exact SOK_mono hbase (Nat.le_trans (Nat.le_succ _) (hge _))
  | advance i a =>
    simp only [taskEffect, Task.advanceBody, finishCheck_samples, nowOf]
    have hge := fun x => finishCheck_clk_ge clock x (k + 1)
    exact SOK_append hm (SOK_sublist h (prune_sublist _ _ _)) (Nat.le_refl _) (hge _) (by simp only [Op.nonneg] at hnn; omega)

theorem taskEffect_run (cfg : Cfg) (clock : Clock) (op : Op) (o : Nat) (t : Task) (k : Nat)
    (hst : ∀ i, op.progresses = some i → t.startTime.isSome) (h : Run t) :
    Run (taskEffect cfg clock op none o t k).1 := by
  cases op with
  | addTask => exact h
  | removeTask => exact h
  | startTask i =>
    simp only [taskEffect]
    cases hs : t.startTime with
    | none => simp only; exact ⟨by simp, fun _ => Or.inr (Or.inr (h.1 hs))⟩
    | some v => simp only; exact h
  | stopTask i =>
    simp only [taskEffect]
    cases hs : t.startTime with
    | none =>
      refine ⟨by simp, fun _ => Or.inr (Or.inr (h.1 hs))⟩
    | some v =>
      refine ⟨by simp, fun _ => ?_⟩
      exact h.2 (by simp [hs])
  | reset i r =>
    simp only [taskEffect, Task.resetBody]
    exact ⟨fun _ => rfl, fun _ => Or.inr (Or.inr rfl)⟩
  | refresh => exact h
  | start => exact h
  | stop => exact h
  | update i u =>
    simp only [taskEffect, Task.updateBody]
    apply finishCheck_run
    simp only [applyUpd_startTime]
    exact hst i rfl
  | advance i a =>
    simp only [taskEffect, Task.advanceBody]
    apply finishCheck_run
    exact hst i rfl

/-- state invariant: every task has sorted non-negative samples and satisfies `Run` -/
def Inv (clock : Clock) (st : State) : Prop := ∀ t ∈ st.tasks, SOK clock st.clk t.samples ∧ Run t

theorem Inv_empty (clock : Clock) : Inv clock State.empty := by intro t ht; cases ht

theorem body_inv (cfg : Cfg) (clock : Clock) (hm : Mono clock) (op : Op) (st : State)
    (hnn : op.nonneg)
    (hst : ∀ i t, op.progresses = some i → lookup st.tasks i = some t → t.startTime.isSome)
    (h : Inv clock st) : Inv clock (body cfg clock op none st).st := by
  have hclk := body_clk_ge cfg clock op st
  by_cases hrm : ∃ i, op = .removeTask i
  · obtain ⟨i, rfl⟩ := hrm
    simp only [body]
    cases hl : lookup st.tasks i with
    | none => exact h
    | some x =>
      intro t ht
      simp only at ht
      exact h t (List.mem_filter.mp ht).1
  · have hr : ∀ i, op ≠ .removeTask i := fun i hi => hrm ⟨i, hi⟩
    cases htg : op.target with
    | none =>
      cases op with
      | addTask a =>
        intro t ht
        simp only [body, List.mem_append, List.mem_singleton] at ht hclk ⊢
        rcases ht with ht | rfl
        · exact ⟨SOK_mono (h t ht).1 hclk, (h t ht).2⟩
        · exact ⟨SOK_nil _ _, fun _ => rfl, fun _ => Or.inr (Or.inr rfl)⟩
      | refresh => intro t ht; exact ⟨SOK_mono (h t ht).1 hclk, (h t ht).2⟩
      | start =>
        intro t ht
        have ht' : t ∈ st.tasks := by simp only [body] at ht; split at ht <;> exact ht
        exact ⟨SOK_mono (h t ht').1 hclk, (h t ht').2⟩
      | stop =>
        intro t ht
        have ht' : t ∈ st.tasks := by simp only [body] at ht; split at ht <;> exact ht
        exact ⟨SOK_mono (h t ht').1 hclk, (h t ht').2⟩
      | removeTask i => exact absurd rfl (hr i)
      | startTask i => simp [Op.target] at htg
      | stopTask i => simp [Op.target] at htg
      | update i u => simp [Op.target] at htg
      | reset i => simp [Op.target] at htg
      | advance i a => simp [Op.target] at htg
    | some j =>
      rw [body_target cfg clock op none st j htg hr] at hclk ⊢
      cases hl : lookup st.tasks j with
      | none =>
        rw [hl] at hclk
        intro t ht
        exact ⟨SOK_mono (h t ht).1 hclk, (h t ht).2⟩
      | some x =>
        rw [hl] at hclk
        intro t ht
        simp only at ht hclk ⊢
        rcases mem_setTask ht with rfl | ⟨hmem, _⟩
        · have hx := h x (lookup_some hl).1
          refine ⟨taskEffect_inv cfg clock hm op _ x st.clk hnn hx.1, taskEffect_run cfg clock op _ x st.clk ?_ hx.2⟩
          intro i hi
          have : i = j := by
            cases op <;> simp_all [Op.progresses, Op.target]
          subst this
          exact hst i x hi hl
        · exact ⟨SOK_mono (h t hmem).1 hclk, (h t hmem).2⟩

/-- a history in which `advance` amounts are non-negative -/
def NonnegAdvances (ops : List Op) : Prop := ∀ op ∈ ops, op.nonneg

/-- a history in which every advance/update finds its task started (checked along the run) -/
def StartedWhenAdvanced (cfg : Cfg) (clock : Clock) : List Op → State → Prop
  | [], _ => True
  | op :: ops, st =>
    (∀ i t, op.progresses = some i → lookup st.tasks i = some t → t.startTime.isSome) ∧
    StartedWhenAdvanced cfg clock ops (step cfg clock op st).st

/-- executable check of `StartedWhenAdvanced` -/
def startedWhenAdvancedB (cfg : Cfg) (clock : Clock) : List Op → State → Bool
  | [], _ => true
  | op :: ops, st =>
    (match op.progresses with
     | none => true
     | some i =>
       match lookup st.tasks i with
       | none => true
       | some t => t.startTime.isSome) &&
    startedWhenAdvancedB cfg clock ops (step cfg clock op st).st

theorem startedWhenAdvanced_of_check (cfg : Cfg) (clock : Clock) (ops : List Op) (st : State)
    (h : startedWhenAdvancedB cfg clock ops st = true) : StartedWhenAdvanced cfg clock ops st := by
  induction ops generalizing st with
  | nil => trivial
  | cons op ops ih =>
    simp only [startedWhenAdvancedB, Bool.and_eq_true] at h
    refine ⟨?_, ih _ h.2⟩
    intro i t hi hl
    have h1 := h.1
    simp only [hi, hl] at h1
    exact h1

/-- samples part of the invariant alone (no hypothesis on when tasks are advanced) -/
def InvS (clock : Clock) (st : State) : Prop := ∀ t ∈ st.tasks, SOK clock st.clk t.samples

theorem body_invS (cfg : Cfg) (clock : Clock) (hm : Mono clock) (op : Op) (st : State)
    (hnn : op.nonneg) (h : InvS clock st) : InvS clock (body cfg clock op none st).st := by
  have hclk := body_clk_ge cfg clock op st
  by_cases hrm : ∃ i, op = .removeTask i
  · obtain ⟨i, rfl⟩ := hrm
    simp only [body]
    cases hl : lookup st.tasks i with
    | none => exact h
    | some x =>
      intro t ht
      simp only at ht
      exact h t (List.mem_filter.mp ht).1
  · have hr : ∀ i, op ≠ .removeTask i := fun i hi => hrm ⟨i, hi⟩
    cases htg : op.target with
    | none =>
      cases op with
      | addTask a =>
        intro t ht
        simp only [body, List.mem_append, List.mem_singleton] at ht hclk ⊢
        rcases ht with ht | rfl
        · exact SOK_mono (h t ht) hclk
        · exact SOK_nil _ _
      | refresh => intro t ht; exact SOK_mono (h t ht) hclk
      | start =>
        intro t ht
        have ht' : t ∈ st.tasks := by simp only [body] at ht; split at ht <;> exact ht
        exact SOK_mono (h t ht') hclk
      | stop =>
        intro t ht
        have ht' : t ∈ st.tasks := by simp only [body] at ht; split at ht <;> exact ht
        exact SOK_mono (h t ht') hclk
      | removeTask i => exact absurd rfl (hr i)
      | startTask i => simp [Op.target] at htg
      | stopTask i => simp [Op.target] at htg
      | update i u => simp [Op.target] at htg
      | reset i => simp [Op.target] at htg
      | advance i a => simp [Op.target] at htg
    | some j =>
      rw [body_target cfg clock op none st j htg hr] at hclk ⊢
      cases hl : lookup st.tasks j with
      | none =>
        rw [hl] at hclk
        intro t ht
        exact SOK_mono (h t ht) hclk
      | some x =>
        rw [hl] at hclk
        intro t ht
        simp only at ht hclk ⊢
        rcases mem_setTask ht with rfl | ⟨hmem, _⟩
        · exact taskEffect_inv cfg clock hm op _ x st.clk hnn (h x (lookup_some hl).1)
        · exact SOK_mono (h t hmem) hclk

theorem run_invS (cfg : Cfg) (clock : Clock) (hm : Mono clock) (ops : List Op) :
    ∀ st, NonnegAdvances ops → InvS clock st → InvS clock (run cfg clock ops st) := by
  induction ops with
  | nil => intro st _ h; exact h
  | cons op ops ih =>
    intro st hnn h
    simp only [run]
    apply ih _ (fun o ho => hnn o (List.mem_cons_of_mem _ ho))
    rw [step_eq_body_none]
    exact body_invS cfg clock hm op st (hnn op List.mem_cons_self) h

theorem run_inv (cfg : Cfg) (clock : Clock) (hm : Mono clock) (ops : List Op) :
    ∀ st, NonnegAdvances ops → StartedWhenAdvanced cfg clock ops st → Inv clock st →
      Inv clock (run cfg clock ops st) := by
  induction ops with
  | nil => intro st _ _ h; exact h
  | cons op ops ih =>
    intro st hnn hsw h
    simp only [run]
    apply ih _ (fun o ho => hnn o (List.mem_cons_of_mem _ ho)) hsw.2
    rw [step_eq_body_none]
    exact body_inv cfg clock hm op st (hnn op List.mem_cons_self) hsw.1 h

/-! ## from the invariants to the derived values -/

theorem sumAmt_nonneg {l : List Sample} (h : ∀ s ∈ l, 0 ≤ s.amt) : 0 ≤ sumAmt l := by
  induction l with
  | nil => simp [sumAmt]
  | cons s r ih =>
    simp only [sumAmt]
    have h1 := h s List.mem_cons_self
    have h2 := ih (fun x hx => h x (List.mem_cons_of_mem _ hx))
    omega

/-- sorted non-negative samples give a non-negative speed with a positive time span -/
theorem speed_of_SOK {clock : Clock} {K : Nat} {t : Task} (h : SOK clock K t.samples) :
    ∀ n d, t.speed = some (n, d) → 0 ≤ n ∧ 0 < d ∧ t.samples ≠ [] ∧ t.startTime.isSome := by
  intro n d hs
  unfold Task.speed at hs
  cases hst : t.startTime with
  | none => simp [hst] at hs
  | some s =>
    cases hsm : t.samples with
    | nil => simp [hst, hsm] at hs
    | cons s0 rest =>
      simp only [hst, hsm] at hs
      rw [hsm] at h
      have hle : s0.ts ≤ (rest.getLast?.getD s0).ts := by
        cases hl : rest.getLast? with
        | none => simp
        | some l =>
          simp only [Option.getD_some]
          have hmem := List.mem_of_getLast? hl
          exact (List.pairwise_cons.mp h.1).1 l hmem
      split at hs
      · cases hs
      · next hne =>
        simp only [Option.some.injEq, Prod.mk.injEq] at hs
        obtain ⟨rfl, rfl⟩ := hs
        refine ⟨sumAmt_nonneg (fun x hx => h.2.1 x (List.mem_cons_of_mem _ hx)), by omega, by simp, by simp⟩

theorem ceilDiv_nonneg {a b : Int} (ha : 0 ≤ a) (hb : 0 < b) : 0 ≤ ceilDiv a b := by
  unfold ceilDiv
  have := @Int.ediv_nonpos_of_nonpos_of_neg (-a) b (by omega) hb
  omega

theorem timeRemaining_nonneg {clock : Clock} {K : Nat} (cfg : Cfg) (htps : 0 < cfg.tps) {t : Task}
    (h : SOK clock K t.samples) (hr : Run t) : ∀ r, t.timeRemaining cfg = some r → 0 ≤ r := by
  intro r hr'
  unfold Task.timeRemaining at hr'
  split at hr'
  · cases hr'; exact Int.le_refl _
  · next hfin =>
    cases hsp : t.speed with
    | none => simp [hsp] at hr'
    | some p =>
      obtain ⟨n, d⟩ := p
      simp only [hsp] at hr'
      have hs := speed_of_SOK h n d hsp
      split at hr'
      · cases hr'
      · next hn0 =>
        have hlt : t.completed < t.total := by
          rcases hr.2 hs.2.2.2 with h1 | h1 | h1
          · exact absurd h1 hfin
          · exact h1
          · exact absurd h1 hs.2.2.1
        have hnum : 0 ≤ t.remaining * d :=
          Int.mul_nonneg (by unfold Task.remaining; omega) (by omega)
        have hden : 0 < n * cfg.tps := Int.mul_pos (by omega) htps
        simp only [Option.some.injEq] at hr'
        rw [if_pos hden] at hr'
        rw [← hr']
        exact ceilDiv_nonneg hnum hden

end RichModel.Progress
