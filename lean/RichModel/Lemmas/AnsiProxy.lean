import RichModel.Model.Ansi
/-!
Lemmas about the `FileProxy` model (property C19): the proxy against its specification over the
flattened character stream.  Core Lean only.
-/
namespace RichModel
namespace Ansi

/-! ## The specification -/

/-- One symbol of the flattened history: a character written, or a flush. -/
inductive Sym where
  | ch (c : Char)
  | fl
deriving Repr, DecidableEq

/-- The history with the boundaries between `write` calls erased. -/
def flat : List Op → List Sym
  | [] => []
  | .write s :: h => s.map .ch ++ flat h
  | .flush _ :: h => .fl :: flat h

/-- The units that must be printed, and what is still pending: a newline always closes a unit (even
an empty one), a flush closes a unit only if something is pending.  `cur` is the pending text. -/
def unitsAux : List Sym → List Char → List (List Char) × List Char
  | [], cur => ([], cur)
  | .ch c :: r, cur =>
    if c = '\n' then (cur :: (unitsAux r []).1, (unitsAux r []).2) else unitsAux r (cur ++ [c])
  | .fl :: r, cur =>
    if cur.isEmpty then unitsAux r [] else (cur :: (unitsAux r []).1, (unitsAux r []).2)

theorem flat_append (a b : List Op) : flat (a ++ b) = flat a ++ flat b := by
  induction a with
  | nil => rfl
  | cons op r ih => cases op <;> simp [flat, ih]

def units (h : List Op) : List (List Char) := (unitsAux (flat h) []).1
def pending (h : List Op) : List Char := (unitsAux (flat h) []).2

theorem unitsAux_append (a b : List Sym) (cur : List Char) :
    unitsAux (a ++ b) cur =
      ((unitsAux a cur).1 ++ (unitsAux b (unitsAux a cur).2).1, (unitsAux b (unitsAux a cur).2).2) := by
  induction a generalizing cur with
  | nil => simp [unitsAux]
  | cons x r ih =>
    cases x with
    | ch c =>
      by_cases hc : c = '\n'
      · simp [unitsAux, hc, ih]
      · simp [unitsAux, hc, ih]
    | fl =>
      by_cases he : cur.isEmpty
      · simp [unitsAux, he, ih]
      · simp [unitsAux, he, ih]

/-! ## What the console was asked to print -/

/-- The decoded line texts handed to the console by one call, in order. -/
def Call.texts : Call → List (List Run)
  | .printText parts => parts
  | .printOne runs => [runs]
  | .printStr _ => []

def Event.texts : Event → List (List Run)
  | .call c => c.texts
  | .raised _ => []

/-- Every line text printed during a history, in order. -/
def printedTexts (evs : List Event) : List (List Run) := evs.flatMap Event.texts

/-- The call prints a `Text` that came out of the decoder, with markup, emoji and highlighting off
(both `printText` and `printOne` stand for `console.print(text, markup=False, emoji=False, highlight=False)`). -/
def Call.verbatim : Call → Bool
  | .printText _ => true
  | .printOne _ => true
  | .printStr _ => false

def Event.verbatim : Event → Bool
  | .call c => c.verbatim
  | .raised _ => false

/-! ## `writeLoop` against the specification -/

theorem writeLoop_spec (text cur : List Char) (buf lines : List (List Char)) :
    (writeLoop text cur buf lines).1 = lines ++ (unitsAux (text.map .ch) (buf.flatten ++ cur)).1 ∧
    (writeLoop text cur buf lines).2.flatten = (unitsAux (text.map .ch) (buf.flatten ++ cur)).2 ∧
    ((∀ c ∈ buf, c ≠ []) → ∀ c ∈ (writeLoop text cur buf lines).2, c ≠ []) := by
  induction text generalizing cur buf lines with
  | nil =>
    refine ⟨by simp [writeLoop, unitsAux], ?_, ?_⟩
    · simp only [writeLoop, List.map_nil, unitsAux]
      split
      · rename_i h; simp [List.isEmpty_iff.mp h]
      · simp
    · intro hb c hc
      simp only [writeLoop] at hc
      split at hc
      · exact hb c hc
      · rename_i h
        rcases List.mem_append.mp hc with h1 | h1
        · exact hb c h1
        · simp at h1; subst h1; intro h2; simp [h2] at h
  | cons x r ih =>
    by_cases hx : x = '\n'
    · subst hx
      obtain ⟨h1, h2, h3⟩ := ih [] [] (lines ++ [buf.flatten ++ cur])
      refine ⟨?_, ?_, ?_⟩
      · simp [writeLoop, unitsAux, h1]
      · simpa [writeLoop, unitsAux] using h2
      · intro _; simpa [writeLoop] using h3 (by simp)
    · obtain ⟨h1, h2, h3⟩ := ih (cur ++ [x]) buf lines
      refine ⟨?_, ?_, ?_⟩
      · simp [writeLoop, unitsAux, hx, h1]
      · simpa [writeLoop, unitsAux, hx] using h2
      · intro hb; simpa [writeLoop, hx] using h3 hb

/-! ## `decodeMany` -/

theorem decodeMany_append (cfg : Cfg) (st : Style) (a b : List (List Char)) {st1 ta}
    (ha : decodeMany cfg st a = (st1, .ok ta)) :
    decodeMany cfg st (a ++ b) =
      ((decodeMany cfg st1 b).1, (decodeMany cfg st1 b).2.map (ta ++ ·)) := by
  induction a generalizing st ta with
  | nil =>
    simp only [decodeMany, Prod.mk.injEq, Except.ok.injEq] at ha
    obtain ⟨rfl, rfl⟩ := ha
    cases hb : decodeMany cfg st b with
    | mk s res => cases res <;> simp [Except.map, hb]
  | cons l r ih =>
    simp only [decodeMany, List.cons_append] at ha ⊢
    cases hl : decodeLine cfg st l with
    | mk s2 res =>
      cases res with
      | error e => simp [hl] at ha
      | ok runs =>
        simp only [hl] at ha ⊢
        cases hr : decodeMany cfg s2 r with
        | mk s3 res2 =>
          cases res2 with
          | error e => simp [hr, Except.map] at ha
          | ok t2 =>
            simp only [hr, Except.map, Prod.mk.injEq, Except.ok.injEq] at ha
            obtain ⟨rfl, rfl⟩ := ha
            rw [ih s2 hr]
            cases hb : decodeMany cfg s3 b with
            | mk s res => cases res <;> simp [Except.map]

/-- The decoder never raises (what `decodeLine_total` establishes for the repaired variant). -/
def Total (cfg : Cfg) : Prop := ∀ st l, ∃ st' runs, decodeLine cfg st l = (st', .ok runs)

theorem decodeMany_total {cfg : Cfg} (ht : Total cfg) (st : Style) (ls : List (List Char)) :
    ∃ st' ts, decodeMany cfg st ls = (st', .ok ts) ∧ ts.length = ls.length := by
  induction ls generalizing st with
  | nil => exact ⟨st, [], rfl, rfl⟩
  | cons l r ih =>
    obtain ⟨s1, runs, h1⟩ := ht st l
    obtain ⟨s2, ts, h2, h3⟩ := ih s1
    exact ⟨s2, runs :: ts, by simp [decodeMany, h1, h2, Except.map], by simp [h3]⟩

/-! ## The proxy against the specification -/

/-- `buffer` holds only non-empty chunks, so "the list is empty" is "nothing is pending". -/
def Proxy.NE (p : Proxy) : Prop := ∀ c ∈ p.buffer, c ≠ []

theorem flatten_eq_nil_of_NE {b : List (List Char)} (h : ∀ c ∈ b, c ≠ []) : b.flatten = [] ↔ b = [] := by
  constructor
  · intro hf
    cases b with
    | nil => rfl
    | cons x r =>
      have := h x (by simp)
      simp only [List.flatten_cons, List.append_eq_nil_iff] at hf
      exact absurd hf.1 this
  · intro hb; subst hb; rfl

/-- One history on a proxy in an arbitrary state: the texts printed are the decoded units of the
flattened history (pending text first), exactly once each and in order; nothing is raised; the state
afterwards is the pending text and the decoder state after those units. -/
theorem run_spec {cfg : Cfg} (hraw : cfg.flushRaw = false) (ht : Total cfg) (h : List Op) (p : Proxy) (hp : p.NE) :
    ∃ st' ts,
      decodeMany cfg p.style (unitsAux (flat h) p.buffer.flatten).1 = (st', .ok ts) ∧
      printedTexts (run cfg p h).2 = ts ∧
      (∀ e ∈ (run cfg p h).2, e.verbatim = true) ∧
      (run cfg p h).1.buffer.flatten = (unitsAux (flat h) p.buffer.flatten).2 ∧
      (run cfg p h).1.style = st' ∧ (run cfg p h).1.NE := by
  induction h generalizing p with
  | nil =>
    exact ⟨p.style, [], by simp [flat, unitsAux, decodeMany], by simp [run, printedTexts],
      by simp [run], by simp [run, flat, unitsAux], by simp [run], by simpa [run] using hp⟩
  | cons op h ih =>
    cases op with
    | write s =>
      obtain ⟨w1, w2, w3⟩ := writeLoop_spec s [] p.buffer []
      simp only [List.nil_append, List.append_nil] at w1 w2
      -- the step
      have hstep : ∃ p1 ev1 st1 t1,
          p1.NE ∧ Proxy.write cfg p s = (p1, ev1) ∧
          decodeMany cfg p.style (unitsAux (s.map .ch) p.buffer.flatten).1 = (st1, .ok t1) ∧
          printedTexts ev1 = t1 ∧ (∀ e ∈ ev1, e.verbatim = true) ∧
          p1.buffer.flatten = (unitsAux (s.map .ch) p.buffer.flatten).2 ∧ p1.style = st1 := by
        obtain ⟨st1, t1, hd, hlen⟩ := decodeMany_total ht p.style (writeLoop s [] p.buffer []).1
        by_cases he : (writeLoop s [] p.buffer []).1.isEmpty
        · have hnil : (writeLoop s [] p.buffer []).1 = [] := List.isEmpty_iff.mp he
          rw [hnil] at hd w1
          simp only [decodeMany, Prod.mk.injEq, Except.ok.injEq] at hd
          obtain ⟨rfl, rfl⟩ := hd
          refine ⟨{ p with buffer := (writeLoop s [] p.buffer []).2 }, [], p.style, [], w3 hp, ?_, ?_, rfl, by simp, w2, rfl⟩
          · simp [Proxy.write, he]
          · rw [← w1]; simp [decodeMany]
        · refine ⟨⟨(writeLoop s [] p.buffer []).2, st1⟩, [.call (.printText t1)], st1, t1, w3 hp, ?_, ?_, ?_, ?_, w2, rfl⟩
          · simp [Proxy.write, he, hd]
          · rw [← w1]; exact hd
          · simp [printedTexts, Event.texts, Call.texts]
          · simp [Event.verbatim, Call.verbatim]
      obtain ⟨p1, ev1, st1, t1, hne1, hw, hd1, hpt, hv1, hb1, hs1⟩ := hstep
      obtain ⟨st2, t2, hd2, hpt2, hv2, hb2, hs2, hne2⟩ := ih p1 hne1
      refine ⟨st2, t1 ++ t2, ?_, ?_, ?_, ?_, ?_, ?_⟩
      · simp only [flat]
        rw [unitsAux_append]
        simp only
        rw [decodeMany_append cfg p.style _ _ hd1, ← hb1, ← hs1, hd2]
        simp [Except.map]
      · simp only [run, Proxy.step, hw, printedTexts, List.flatMap_append] at hpt hpt2 ⊢
        rw [hpt, hpt2]
      · intro e he
        simp only [run, Proxy.step, hw, List.mem_append] at he
        rcases he with he | he
        · exact hv1 e he
        · exact hv2 e he
      · simp only [run, Proxy.step, hw, flat]
        rw [unitsAux_append, hb2, hb1]
      · simp only [run, Proxy.step, hw]; exact hs2
      · simp only [run, Proxy.step, hw]; exact hne2
    | flush b =>
      by_cases he : p.buffer.isEmpty
      · -- nothing pending: no effect
        have hnil : p.buffer = [] := List.isEmpty_iff.mp he
        obtain ⟨st2, t2, hd2, hpt2, hv2, hb2, hs2, hne2⟩ := ih p hp
        have hstep : Proxy.flush cfg p b = (p, []) := by simp [Proxy.flush, he]
        refine ⟨st2, t2, ?_, ?_, ?_, ?_, ?_, ?_⟩
        · simpa [flat, unitsAux, hnil] using hd2
        · simpa [run, Proxy.step, hstep] using hpt2
        · simpa [run, Proxy.step, hstep] using hv2
        · simpa [run, Proxy.step, hstep, flat, unitsAux, hnil] using hb2
        · simpa [run, Proxy.step, hstep] using hs2
        · simpa [run, Proxy.step, hstep] using hne2
      · have hne : p.buffer.flatten ≠ [] := by
          intro hf
          exact he (by simp [(flatten_eq_nil_of_NE hp).mp hf])
        have hne' : p.buffer.flatten.isEmpty = false := by
          cases hq : p.buffer.flatten with
          | nil => exact absurd hq hne
          | cons _ _ => rfl
        obtain ⟨st1, runs, hd⟩ := ht p.style p.buffer.flatten
        have hstep : Proxy.flush cfg p b = (⟨[], st1⟩, [.call (.printOne runs)]) := by
          simp [Proxy.flush, he, hraw, hd]
        obtain ⟨st2, t2, hd2, hpt2, hv2, hb2, hs2, hne2⟩ := ih ⟨[], st1⟩ (by simp [Proxy.NE])
        simp only [List.flatten_nil] at hd2 hb2
        refine ⟨st2, runs :: t2, ?_, ?_, ?_, ?_, ?_, ?_⟩
        · simp [flat, unitsAux, hne', decodeMany, hd, hd2, Except.map]
        · simp only [run, Proxy.step, hstep, printedTexts, List.flatMap_append] at hpt2 ⊢
          simp [Event.texts, Call.texts, hpt2]
        · intro e hmem
          simp only [run, Proxy.step, hstep, List.mem_append] at hmem
          rcases hmem with hmem | hmem
          · simp at hmem; subst hmem; rfl
          · exact hv2 e hmem
        · simpa [run, Proxy.step, hstep, flat, unitsAux, hne'] using hb2
        · simpa [run, Proxy.step, hstep] using hs2
        · simpa [run, Proxy.step, hstep] using hne2

/-! ## Two proxies on one console -/

/-- the calls made on stream `b`, in order -/
def proj (b : Bool) (h : List (Bool × Op)) : List Op := h.filterMap fun x => if x.1 = b then some x.2 else none

/-- what the console was asked by stream `b`, in order -/
def eventsOf (b : Bool) (evs : List (Bool × Event)) : List Event :=
  evs.filterMap fun x => if x.1 = b then some x.2 else none

theorem eventsOf_append (b : Bool) (x y : List (Bool × Event)) : eventsOf b (x ++ y) = eventsOf b x ++ eventsOf b y := by
  simp [eventsOf, List.filterMap_append]

theorem eventsOf_map_same (b : Bool) (l : List Event) : eventsOf b (l.map fun e => (b, e)) = l := by
  induction l with
  | nil => rfl
  | cons e r ih => simp [eventsOf] at ih ⊢; exact ih

theorem eventsOf_map_other {b c : Bool} (h : c ≠ b) (l : List Event) : eventsOf b (l.map fun e => (c, e)) = [] := by
  induction l with
  | nil => rfl
  | cons e r ih => simp [eventsOf, h] at ih ⊢

theorem get_set_same (ps : Proxies) (b : Bool) (p : Proxy) : (ps.set b p).get b = p := by
  cases b <;> simp [Proxies.get, Proxies.set]

theorem get_set_other (ps : Proxies) {b c : Bool} (h : c ≠ b) (p : Proxy) : (ps.set c p).get b = ps.get b := by
  cases b <;> cases c <;> simp_all [Proxies.get, Proxies.set]

/-- The two streams do not interfere: what stream `b` asks of the console during an interleaved history, and the
state its proxy ends in, are what a proxy alone would do on the calls made on stream `b`. -/
theorem run2_proj (cfg : Cfg) (b : Bool) (h : List (Bool × Op)) (ps : Proxies) :
    eventsOf b (run2 cfg ps h).2 = (run cfg (ps.get b) (proj b h)).2 ∧
    (run2 cfg ps h).1.get b = (run cfg (ps.get b) (proj b h)).1 := by
  induction h generalizing ps with
  | nil => exact ⟨rfl, rfl⟩
  | cons x r ih =>
    obtain ⟨c, op⟩ := x
    by_cases hc : c = b
    · subst hc
      obtain ⟨h1, h2⟩ := ih (ps.set c ((ps.get c).step cfg op).1)
      rw [get_set_same] at h1 h2
      constructor
      · simp only [run2, proj, List.filterMap_cons, if_true, run, eventsOf_append, eventsOf_map_same]
        rw [h1]; rfl
      · simp only [run2, proj, List.filterMap_cons, if_true, run]
        rw [h2]; rfl
    · obtain ⟨h1, h2⟩ := ih (ps.set c ((ps.get c).step cfg op).1)
      rw [get_set_other ps hc] at h1 h2
      constructor
      · simp only [run2, proj, List.filterMap_cons, hc, if_false, eventsOf_append, eventsOf_map_other hc, List.nil_append]
        exact h1
      · simp only [run2, proj, List.filterMap_cons, hc, if_false]
        exact h2

/-! ## The specification when nothing is flushed: the complete lines of the concatenated text -/

/-- The complete (newline-terminated) lines of a text, and the unterminated rest. -/
def completeLines : List Char → List Char → List (List Char) × List Char
  | [], cur => ([], cur)
  | c :: r, cur =>
    if c = '\n' then (cur :: (completeLines r []).1, (completeLines r []).2) else completeLines r (cur ++ [c])

theorem unitsAux_map_ch (s : List Char) (cur : List Char) :
    unitsAux (s.map .ch) cur = completeLines s cur := by
  induction s generalizing cur with
  | nil => rfl
  | cons c r ih =>
    by_cases hc : c = '\n'
    · simp [unitsAux, completeLines, hc, ih]
    · simp [unitsAux, completeLines, hc, ih]

/-- A history of writes only. -/
def writesOnly : List (List Char) → List Op := List.map .write

theorem flat_writesOnly (ws : List (List Char)) : flat (writesOnly ws) = ws.flatten.map .ch := by
  induction ws with
  | nil => rfl
  | cons w r ih => simp [writesOnly, flat, ← ih]

end Ansi
end RichModel
