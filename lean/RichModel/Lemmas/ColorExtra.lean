import RichModel.Lemmas.Color
/-!
Lemmas for the second half of the colour model (property C18): `get_truecolor` / `TerminalTheme`,
what a downgraded colour is displayed as, `ColorTriplet.hex` / `parse_rgb_hex`, `blend_rgb`.
Core Lean only.
-/
namespace RichModel

/-! ## `get_truecolor`, `TerminalTheme` -/

/-- What `get_truecolor` is specified to return: the triplet itself; `EIGHT_BIT_PALETTE[n]`;
`theme.ansi_colors[n]`; `WINDOWS_PALETTE[n]`; the theme's foreground / background. -/
def truecolorSpec (P : Palettes) (theme : TerminalTheme) (c : Color) (fg : Bool) : Option Triplet :=
  match c.type with
  | .truecolor => c.triplet
  | .eightBit => c.number.bind (P.eightBit[·]?)
  | .standard => c.number.bind (theme.ansiColors[·]?)
  | .windows => c.number.bind (P.windows[·]?)
  | .default => some (if fg then theme.foregroundColor else theme.backgroundColor)

theorem getTruecolorT_spec (P : Palettes) (hP : P.ok = true) (theme : TerminalTheme)
    (hT : 16 ≤ theme.ansiColors.length) (c : Color) (fg : Bool) (h : c.WF) :
    ∃ t, getTruecolorT P theme c fg = .ok t ∧ truecolorSpec P theme c fg = some t := by
  obtain ⟨name, type, number, triplet⟩ := c
  simp only [Palettes.ok, Bool.and_eq_true, beq_iff_eq] at hP
  obtain ⟨⟨⟨⟨⟨h16, hw16⟩, h256⟩, hsa⟩, hwa⟩, hea⟩ := hP
  cases type <;> simp only [Color.WF] at h
  · obtain ⟨rfl, rfl⟩ := h
    exact ⟨_, rfl, rfl⟩
  · obtain ⟨⟨n, rfl, hn⟩, rfl⟩ := h
    obtain ⟨t, ht, ht'⟩ := paletteGet_ok theme.ansiColors n (by omega)
    exact ⟨t, by simp [getTruecolorT, assertSome, bind, Except.bind, ht], by simp [truecolorSpec, ht']⟩
  · obtain ⟨⟨n, rfl, hn⟩, rfl⟩ := h
    obtain ⟨t, ht, ht'⟩ := paletteGet_ok P.eightBit n (by omega)
    exact ⟨t, by simp [getTruecolorT, assertSome, bind, Except.bind, ht], by simp [truecolorSpec, ht']⟩
  · obtain ⟨rfl, t, rfl, ht⟩ := h
    exact ⟨t, rfl, rfl⟩
  · obtain ⟨⟨n, rfl, hn⟩, rfl⟩ := h
    obtain ⟨t, ht, ht'⟩ := paletteGet_ok P.windows n (by omega)
    exact ⟨t, by simp [getTruecolorT, assertSome, bind, Except.bind, ht], by simp [truecolorSpec, ht']⟩

/-- the value is determined by the specification alone (no hypothesis on the colour): if the call
succeeds it returns what the specification says. -/
theorem getTruecolorT_sound (P : Palettes) (theme : TerminalTheme) (c : Color) (fg : Bool) (t : Triplet)
    (h : getTruecolorT P theme c fg = .ok t) (hd : c.type = .default → c.number = none) :
    truecolorSpec P theme c fg = some t := by
  obtain ⟨name, type, number, triplet⟩ := c
  cases type <;> cases number <;> cases triplet <;>
    simp [getTruecolorT, assertSome, bind, Except.bind, paletteGet, truecolorSpec] at h hd ⊢ <;>
    (try (split at h <;> simp_all))
  all_goals simp_all

theorem themeInit_ansiColors (bg fg : Triplet) (normal : List Triplet) (bright : Option (List Triplet)) :
    (TerminalTheme.init bg fg normal bright).ansiColors =
      normal ++ (match bright with | some (b :: bs) => b :: bs | _ => normal) ∧
    (TerminalTheme.init bg fg normal bright).backgroundColor = bg ∧
    (TerminalTheme.init bg fg normal bright).foregroundColor = fg := by
  refine ⟨?_, rfl, rfl⟩
  unfold TerminalTheme.init
  cases bright with
  | none => rfl
  | some b => cases b <;> rfl

theorem themeInit_length (bg fg : Triplet) (normal : List Triplet) (bright : Option (List Triplet))
    (hn : normal.length = 8) (hb : ∀ b, bright = some b → b.length = 8 ∨ b = []) :
    (TerminalTheme.init bg fg normal bright).ansiColors.length = 16 := by
  rw [(themeInit_ansiColors bg fg normal bright).1]
  cases bright with
  | none => simp [hn]
  | some b =>
    cases b with
    | nil => simp [hn]
    | cons x xs =>
      rcases hb _ rfl with h | h
      · simp only [List.length_append, hn, h]
      · cases h



/-- The palette a 16-colour result is *displayed* with by `get_truecolor`: `WINDOWS_PALETTE` for
WINDOWS colours, the theme's `ansi_colors` for STANDARD ones. -/
def displayPalette (P : Palettes) (theme : TerminalTheme) (sys : ColorSystem) : List Triplet :=
  if sys = .windows then P.windows else theme.ansiColors

theorem downgrade16_then_truecolor (cfg : Cfg) (P : Palettes) (theme : TerminalTheme) (c r : Color)
    (sys : ColorSystem) (t : Triplet) (fg : Bool)
    (hsys : sys = .standard ∨ sys = .windows)
    (hsrc : sourceTriplet P c = some t)
    (hbig : c.type = .eightBit → ∀ n, c.number = some n → 16 ≤ n)
    (h : downgrade cfg P c sys = .ok r) :
    ∃ k, IsNearest (if sys = .windows then P.windows else P.standard) t k ∧
      getTruecolorT P theme r fg = paletteGet (displayPalette P theme sys) k := by
  obtain ⟨k, hk, hty, hnear⟩ := downgrade_nearest cfg P c r sys t hsys hsrc hbig h
  refine ⟨k, hnear, ?_⟩
  obtain ⟨rn, rt, rnum, rtr⟩ := r
  simp only at hk hty
  subst hk hty
  rcases hsys with rfl | rfl <;>
    simp [getTruecolorT, ColorSystem.type16, displayPalette, assertSome, bind, Except.bind]

theorem downgrade256_then_truecolor (cfg : Cfg) (P : Palettes) (hP : P.ok = true) (theme : TerminalTheme)
    (name : List Char) (t : Triplet) (ht : t.WF) (fg : Bool) :
    ∃ r p, downgrade cfg P { name := name, type := .truecolor, number := none, triplet := some t } .eightBit = .ok r ∧
      P.eightBit[toEightBitNumber cfg.satExc t]? = some p ∧
      getTruecolorT P theme r fg = .ok p := by
  simp only [Palettes.ok, Bool.and_eq_true, beq_iff_eq] at hP
  obtain ⟨⟨⟨⟨⟨h16, hw16⟩, h256⟩, hsa⟩, hwa⟩, hea⟩ := hP
  have hr := toEightBitNumber_range cfg.satExc t ht
  obtain ⟨p, hp, hp'⟩ := paletteGet_ok P.eightBit (toEightBitNumber cfg.satExc t) (by omega)
  refine ⟨{ name := name, type := .eightBit, number := some (toEightBitNumber cfg.satExc t), triplet := none }, p, ?_, hp', ?_⟩
  · simp [downgrade, Color.system, ColorType.toNat, ColorSystem.toNat, assertSome, bind, Except.bind]
  · simp [getTruecolorT, assertSome, bind, Except.bind, hp]


/-! ## `ColorTriplet.hex`, `parse_rgb_hex`, `blend_rgb` -/

set_option maxRecDepth 20000 in
theorem hex2_roundtrip : ∀ c : Fin 256,
    ∃ a b, hexByte c.val = [a, b] ∧ pyIntHex2 a b = .ok (c.val : Int) := by
  intro c
  refine ⟨(hexByte c.val).getD 0 ' ', (hexByte c.val).getD 1 ' ', ?_, ?_⟩ <;> revert c <;> decide

theorem parseRgbHex_hex (t : Triplet) (h : t.WF) :
    t.hex.length = 7 ∧ parseRgbHex (t.hex.drop 1) = .ok ((t.red : Int), (t.green : Int), (t.blue : Int)) := by
  obtain ⟨h1, h2, h3⟩ := h
  obtain ⟨a, b, hab, hr⟩ := hex2_roundtrip ⟨t.red, by omega⟩
  obtain ⟨c, d, hcd, hg⟩ := hex2_roundtrip ⟨t.green, by omega⟩
  obtain ⟨e, f, hef, hb⟩ := hex2_roundtrip ⟨t.blue, by omega⟩
  simp only at hab hcd hef hr hg hb
  simp [Triplet.hex, hab, hcd, hef, parseRgbHex, hr, hg, hb, bind, Except.bind]

theorem parseRgbHex_len (s : List Char) (h : s.length ≠ 6) : parseRgbHex s = .error .assertionError := by
  unfold parseRgbHex
  split
  · simp at h
  · rfl

theorem blendChannel_range (c1 c2 : Nat) (k : Int) (n : Nat) (h0 : 0 ≤ k) (h1 : k ≤ ((2 ^ n : Nat) : Int)) :
    ((min c1 c2 : Nat) : Int) ≤ blendChannel c1 c2 k n ∧ blendChannel c1 c2 k n ≤ ((max c1 c2 : Nat) : Int) := by
  unfold blendChannel
  have hD : (0 : Int) < ((2 ^ n : Nat) : Int) := by exact_mod_cast Nat.two_pow_pos n
  generalize ((2 ^ n : Nat) : Int) = D at *
  rcases Nat.le_total c1 c2 with hle | hle
  · have hd : (0 : Int) ≤ (c2 : Int) - c1 := by omega
    have hlo : (c1 : Int) * D ≤ c1 * D + ((c2 : Int) - c1) * k := by
      have := Int.mul_nonneg hd h0; omega
    have hhi : (c1 : Int) * D + ((c2 : Int) - c1) * k ≤ c2 * D := by
      have := Int.mul_le_mul_of_nonneg_left h1 hd
      have e : (c2 : Int) * D = c1 * D + (c2 - c1) * D := by rw [Int.sub_mul]; omega
      omega
    have hnn : (0 : Int) ≤ c1 * D + ((c2 : Int) - c1) * k := by
      have := Int.mul_nonneg (Int.natCast_nonneg c1) (Int.le_of_lt hD); omega
    rw [Int.tdiv_eq_ediv_of_nonneg hnn]
    rw [Nat.min_eq_left hle, Nat.max_eq_right hle]
    constructor
    · exact (Int.le_ediv_iff_mul_le hD).2 hlo
    · exact Int.ediv_le_of_le_mul hD hhi
  · have hd : (0 : Int) ≤ (c1 : Int) - c2 := by omega
    have e1 : ((c2 : Int) - c1) * k = -(((c1 : Int) - c2) * k) := by rw [← Int.neg_mul]; congr 1; omega
    have hhi : (c1 : Int) * D + ((c2 : Int) - c1) * k ≤ c1 * D := by
      have := Int.mul_nonneg hd h0; omega
    have hlo : (c2 : Int) * D ≤ c1 * D + ((c2 : Int) - c1) * k := by
      have := Int.mul_le_mul_of_nonneg_left h1 hd
      have e : (c1 : Int) * D = c2 * D + (c1 - c2) * D := by rw [Int.sub_mul]; omega
      omega
    have hnn : (0 : Int) ≤ c1 * D + ((c2 : Int) - c1) * k := by
      have := Int.mul_nonneg (Int.natCast_nonneg c2) (Int.le_of_lt hD); omega
    rw [Int.tdiv_eq_ediv_of_nonneg hnn]
    rw [Nat.min_eq_right hle, Nat.max_eq_left hle]
    constructor
    · exact (Int.le_ediv_iff_mul_le hD).2 hlo
    · exact Int.ediv_le_of_le_mul hD hhi

theorem blendChannel_zero (c1 c2 n : Nat) : blendChannel c1 c2 0 n = c1 := by
  unfold blendChannel
  have hD : (0 : Int) < ((2 ^ n : Nat) : Int) := by exact_mod_cast Nat.two_pow_pos n
  simp only [Int.mul_zero, Int.add_zero]
  rw [Int.tdiv_eq_ediv_of_nonneg (Int.mul_nonneg (Int.natCast_nonneg c1) (Int.le_of_lt hD))]
  exact Int.mul_ediv_cancel _ (Int.ne_of_gt hD)

theorem blendChannel_one (c1 c2 n : Nat) : blendChannel c1 c2 ((2 ^ n : Nat) : Int) n = c2 := by
  unfold blendChannel
  have hD : (0 : Int) < ((2 ^ n : Nat) : Int) := by exact_mod_cast Nat.two_pow_pos n
  generalize ((2 ^ n : Nat) : Int) = D at *
  have e : (c1 : Int) * D + ((c2 : Int) - c1) * D = c2 * D := by rw [Int.sub_mul]; omega
  rw [e, Int.tdiv_eq_ediv_of_nonneg (Int.mul_nonneg (Int.natCast_nonneg c2) (Int.le_of_lt hD))]
  exact Int.mul_ediv_cancel _ (Int.ne_of_gt hD)


end RichModel
