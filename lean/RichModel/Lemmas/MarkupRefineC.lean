import RichModel.Lemmas.MarkupChunks
namespace RichModel.Markup

theorem Inv_text {st : St} {abs : List AEnt} {ann : Ann} (h : Inv st abs ann) (s : List Char) :
    Inv { st with text := st.text ++ s } abs (ann ++ s.map (fun c => (c, (st.stack.map toO).reverse.map (·.style)))) := by
  induction s generalizing st ann with
  | nil => simpa using h
  | cons c cs ih =>
    have h1 := Inv_chr h c
    have h2 := ih h1
    simpa using h2

/-- **refinement, chunk level** (any emoji setting): the loop over `_parse`'s chunks computes the
chunk-level reference semantics. -/
theorem runC_refines (cfg : Cfg) (cs : List CEv) : ∀ (st : St) (abs : List AEnt) (ann : Ann), Inv st abs ann →
    match semC cfg (st.stack.map toO) cs with
    | some rest => ∃ st' abs', runC cfg st cs = some st' ∧ Inv st' abs' (ann ++ rest)
    | none => runC cfg st cs = none := by
  induction cs with
  | nil => intro st abs ann h; simp only [semC, runC]; exact ⟨st, abs, rfl, by simpa using h⟩
  | cons ev cs ih =>
    intro st abs ann h
    cases ev with
    | txt s =>
      simp only [semC, runC, stepC]
      have h' := Inv_text h (chunkText cfg s)
      have := ih _ abs _ h'
      simp only at this
      cases hs : semC cfg (st.stack.map toO) cs with
      | none => rw [hs] at this; exact this
      | some rest =>
        rw [hs] at this
        obtain ⟨st', abs', h1, h2⟩ := this
        exact ⟨st', abs', h1, by simpa using h2⟩
    | tag t =>
      simp only [semC, runC]
      rw [stepC_tag_classify, stepEv_classify]
      cases hk : classify cfg t with
      | opening o =>
        simp only
        have ho : o = toO { idx := st.slots.length, start := st.text.length, tag := { name := cfg.norm t.name, params := t.params } } := by
          simp only [classify] at hk
          by_cases h1 : t.name.head? = some '/'
          · simp only [h1, if_true] at hk
            by_cases h2 : pyStrip cfg.isSpace t.name.tail ≠ []
            · rw [if_pos h2] at hk; cases hk
            · rw [if_neg h2] at hk; cases hk
          · simp only [h1, if_false] at hk
            cases hk; rfl
        have h' := Inv_open h { name := cfg.norm t.name, params := t.params }
        have := ih _ _ _ h'
        simp only [List.map_cons, ← ho] at this
        exact this
      | closeName n =>
        simp only
        rw [closeRecent_map]
        cases hp : popByName n st.stack with
        | none => simp
        | some p =>
          obtain ⟨e, stk'⟩ := p
          obtain ⟨pre, post, h1, h2⟩ := popByName_spec hp
          subst h2
          have h' := Inv_close h e pre post h1
          have := ih _ _ _ h'
          simpa [St.close] using this
      | closeTop =>
        simp only
        cases hs : st.stack with
        | nil => simp
        | cons e stk' =>
          have h' := Inv_close h e [] stk' (by simpa using hs)
          have := ih _ _ _ h'
          simpa [St.close] using this

/-- **tags_style_exactly, full strength**: any markup string, emoji on or off, any emoji table. -/
theorem render_refinesC (cfg : Cfg) (hS : cfg.sortSpans = false) (m : List Char) :
    match semC cfg [] (chunks m) with
    | some ann => ∃ spans, render cfg m = .ok (ann.map Prod.fst, spans) ∧
        ∀ p (h : p < ann.length), effStyles spans p = (ann[p]).2
    | none => ∃ e, render cfg m = .error e := by
  have hr := render_eq_runC cfg m
  have hs := runC_refines cfg (chunks m) St.init [] [] Inv_init
  simp only [St.init, List.map_nil] at hs
  cases hsem : semC cfg [] (chunks m) with
  | none =>
    rw [hsem] at hs
    have : runC cfg St.init (chunks m) = none := hs
    rw [this] at hr
    exact toOption_eq_none hr
  | some ann =>
    rw [hsem] at hs
    simp only [List.nil_append] at hs
    obtain ⟨st', abs', h1, h2⟩ := hs
    have : runC cfg St.init (chunks m) = some st' := h1
    rw [this] at hr
    have hok := toOption_eq_some hr
    obtain ⟨hsl, htx⟩ := foldl_drain st'.text.length st'.stack abs' { st' with stack := [] } h2.stack h2.idx h2.slots
    refine ⟨(slotsOf (closeAll st'.text.length abs')).filterMap id, ?_, ?_⟩
    · rw [hok]
      simp only [finish, hS, drain_eq, Bool.false_eq_true, if_false]
      rw [hsl, htx, h2.text]
    · intro p hp
      rw [slots_closeAll, effStyles_spanOf _ _ _ (by rw [← h2.len]; exact hp)]
      exact (h2.ann p hp).symm

/-- failure does not depend on the span order either -/
theorem render_error_iff_semC (cfg : Cfg) (m : List Char) :
    (∃ e, render cfg m = .error e) ↔ semC cfg [] (chunks m) = none := by
  have hr := render_eq_runC cfg m
  have hs := runC_refines cfg (chunks m) St.init [] [] Inv_init
  simp only [St.init, List.map_nil] at hs
  cases hsem : semC cfg [] (chunks m) with
  | none =>
    rw [hsem] at hs
    have : runC cfg St.init (chunks m) = none := hs
    rw [this] at hr
    simp only [iff_true]
    exact toOption_eq_none hr
  | some ann =>
    rw [hsem] at hs
    obtain ⟨st', abs', h1, _⟩ := hs
    have : runC cfg St.init (chunks m) = some st' := h1
    rw [this] at hr
    have hok := toOption_eq_some hr
    simp only [reduceCtorEq, iff_false]
    rintro ⟨e, he⟩
    rw [he] at hok; cases hok

/-! ### chunks and events -/

theorem sem_chars_none (cfg : Cfg) (op : List OTag) (s : List Char) (r : List Ev) :
    sem cfg op (s.map Ev.chr ++ r) = none ↔ sem cfg op r = none := by
  induction s with
  | nil => simp
  | cons c cs ih =>
    simp only [List.map_cons, List.cons_append, sem]
    by_cases hc : isStripped c = true
    · simp [hc, ih]
    · simp only [hc, Bool.false_eq_true, if_false]
      cases h : sem cfg op (cs.map Ev.chr ++ r) with
      | none => rw [h] at ih; simp [ih.mp rfl]
      | some a =>
        rw [h] at ih
        simp only [reduceCtorEq, false_iff] at ih ⊢
        exact ih

/-- whether the semantics fails depends on the tags only: chunk level = event level -/
theorem semC_none_iff (cfg : Cfg) (cs : List CEv) : ∀ op,
    semC cfg op cs = none ↔ sem cfg op (cs.flatMap CEv.evs) = none := by
  induction cs with
  | nil => intro op; simp [semC, sem]
  | cons c cs ih =>
    intro op
    cases c with
    | txt s =>
      simp only [semC, List.flatMap_cons, CEv.evs]
      rw [sem_chars_none, ← ih op]
      cases semC cfg op cs <;> simp
    | tag t =>
      simp only [semC, List.flatMap_cons, CEv.evs, List.cons_append, List.nil_append, sem]
      cases classify cfg t with
      | opening o => exact ih _
      | closeName n =>
        simp only
        cases closeRecent n op with
        | none => simp
        | some op' => exact ih _
      | closeTop =>
        simp only
        cases op with
        | nil => simp
        | cons o op' => exact ih _

theorem tagChunks_evs (k : Nat) (b : List Char) : (tagChunks k b).flatMap CEv.evs = (Lx.tag k b).evs := by
  unfold tagChunks Lx.evs
  by_cases hk : k = 0
  · subst hk; simp [CEv.evs, bsl]
  · simp only [hk, if_false]
    by_cases hb : k / 2 = 0 <;> by_cases ho : k % 2 = 1 <;> simp [hb, ho, CEv.evs, bsl]

theorem flushC_evs (acc : List Char) : (flushC acc).flatMap CEv.evs = acc.map Ev.chr := by
  by_cases ha : acc = [] <;> simp [flushC, ha, CEv.evs]

/-- forgetting the chunk boundaries gives back the events -/
theorem chunkGo_evs (l : List Lx) : ∀ acc, (chunkGo acc l).flatMap CEv.evs = acc.map Ev.chr ++ l.flatMap Lx.evs := by
  induction l with
  | nil => intro acc; simp [chunkGo_nil, flushC_evs]
  | cons x xs ih =>
    intro acc
    cases x with
    | ch c => rw [chunkGo_ch, ih]; simp [Lx.evs]
    | tag k b =>
      rw [chunkGo_tag, List.flatMap_append, List.flatMap_append, flushC_evs, tagChunks_evs, ih]
      simp

theorem chunks_evs (m : List Char) : (chunks m).flatMap CEv.evs = events m := by
  simpa [chunks, events] using chunkGo_evs (lex m) []

/-- **error_iff_nothing_to_close, full strength**: any emoji setting, either span order. -/
theorem render_error_iff (cfg : Cfg) (m : List Char) :
    (∃ e, render cfg m = .error e) ↔ NothingToClose cfg [] (events m) := by
  rw [render_error_iff_semC, semC_none_iff, chunks_evs, sem_none_iff]

end RichModel.Markup
