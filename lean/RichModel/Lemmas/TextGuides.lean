import RichModel.Lemmas.TextHistory3
import RichModel.Lemmas.TextJoin
/-!
`with_indent_guides` at full strength: the result's styled string is a list function (`guideLines`) of the lines of
the tab-expanded styled string, joined with unstyled newlines.
-/
namespace RichModel
namespace Text
variable {σ : Type}

/-- the new indentation of a line with `indent` leading spaces: one guide per `size` columns, then the remainder -/
def newIndent (size : Nat) (indentLine : List Char) (indent : Nat) : List Char :=
  (List.replicate (indent / size) indentLine).flatten ++ List.replicate (indent % size) ' '

/-- a non-blank line once the guides are drawn: the characters are `ni` followed by the line from position `|ni|` on;
every position keeps the styles it had (a position past the old end: the base style `b`), and the first `|ni|`
positions get `style` on top -/
def restyle (b : σ) (ni : List Char) (style : σ) (lv : List (Char × List σ)) : List (Char × List σ) :=
  annot (ni ++ (lv.map (·.1)).drop ni.length)
    (fun i => ((lv[i]?).map (·.2)).getD [b] ++ (if i < ni.length then [style] else [])) 0

/-- `with_indent_guides` on the list of styled lines: a blank line (only U+0020 spaces) is held back and comes out as
the indentation of the NEXT non-blank line in the bare guide style; trailing blank lines come out empty -/
def guideLines (b : σ) (size : Nat) (indentLine : List Char) (style : σ) :
    List (List (Char × List σ)) → Nat → List (List (Char × List σ))
  | [], blank => List.replicate blank []
  | l :: rest, blank =>
    if ((l.map (·.1)).drop (leadingSpaces (l.map (·.1)))).isEmpty then guideLines b size indentLine style rest (blank + 1)
    else
      List.replicate blank ((newIndent size indentLine (leadingSpaces (l.map (·.1)))).map (fun c => (c, [style])))
        ++ [restyle b (newIndent size indentLine (leadingSpaces (l.map (·.1)))) style l]
        ++ guideLines b size indentLine style rest 0

/-- the same on texts (what the loop of `with_indent_guides` builds, trailing blanks included) -/
def guideTexts (size : Nat) (indentLine : List Char) (style : σ) : List (Text σ) → Nat → List (Text σ)
  | [], blank => List.replicate blank (new Variant.repaired [] style)
  | line :: rest, blank =>
    if (line.plain.drop (leadingSpaces line.plain)).isEmpty then guideTexts size indentLine style rest (blank + 1)
    else
      List.replicate blank (new Variant.repaired (newIndent size indentLine (leadingSpaces line.plain)) style)
        ++ [(line.setPlain (newIndent size indentLine (leadingSpaces line.plain) ++
              line.plain.drop (newIndent size indentLine (leadingSpaces line.plain)).length)).stylize Variant.repaired style 0
              (some ((newIndent size indentLine (leadingSpaces line.plain)).length : Int))]
        ++ guideTexts size indentLine style rest 0

theorem indentFold_eq (size : Nat) (hsize : 0 < size) (indentLine : List Char) (style : σ) :
    ∀ (lines : List (Text σ)) (nl : List (Text σ)) (b : Nat),
      ∃ nl' b', lines.foldl (indentStep Variant.repaired size indentLine style) (.ok (nl, b)) = .ok (nl', b') ∧
        nl' ++ List.replicate b' (new Variant.repaired [] style) = nl ++ guideTexts size indentLine style lines b
  | [], nl, b => ⟨nl, b, rfl, rfl⟩
  | line :: rest, nl, b => by
    simp only [List.foldl_cons]
    by_cases hb : (line.plain.drop (leadingSpaces line.plain)).isEmpty = true
    · have hstep : indentStep Variant.repaired size indentLine style (.ok (nl, b)) line = .ok (nl, b + 1) := by
        simp only [indentStep, hb, if_true]
      obtain ⟨nl', b', h1, h2⟩ := indentFold_eq size hsize indentLine style rest nl (b + 1)
      refine ⟨nl', b', by rw [hstep]; exact h1, ?_⟩
      rw [h2]
      simp only [guideTexts, hb, if_true]
    · have hs0 : (size == 0) = false := by simp; omega
      have hstep : indentStep Variant.repaired size indentLine style (.ok (nl, b)) line =
          .ok (nl ++ List.replicate b (new Variant.repaired (newIndent size indentLine (leadingSpaces line.plain)) style)
            ++ [(line.setPlain (newIndent size indentLine (leadingSpaces line.plain) ++
              line.plain.drop (newIndent size indentLine (leadingSpaces line.plain)).length)).stylize Variant.repaired style 0
              (some ((newIndent size indentLine (leadingSpaces line.plain)).length : Int))], 0) := by
        simp only [indentStep, hb, Bool.false_eq_true, if_false, hs0, newIndent]
      obtain ⟨nl', b', h1, h2⟩ := indentFold_eq size hsize indentLine style rest _ 0
      refine ⟨nl', b', by rw [hstep]; exact h1, ?_⟩
      rw [h2]
      simp only [guideTexts, hb, Bool.false_eq_true, if_false, List.append_assoc]

theorem view_getElem?_snd (t : Text σ) (i : Nat) :
    ((t.view[i]?).map (·.2)) = if i < t.plain.length then some (t.effStyle i) else none := by
  unfold view
  rw [List.getElem?_map, List.getElem?_zipIdx]
  by_cases hi : i < t.plain.length
  · rw [if_pos hi, List.getElem?_eq_getElem hi]; simp
  · rw [if_neg hi, List.getElem?_eq_none (by omega)]; rfl

theorem view_new_plainstyle (s : List Char) (style : σ) (hs : NoCtl s) :
    (new Variant.repaired s style).view = s.map (fun c => (c, [style])) := by
  rw [view_new, stripControl_id s hs]
  apply annot_const
  intro i _ _
  rfl

theorem noCtl_newIndent (size : Nat) (indentLine : List Char) (indent : Nat) (h : NoCtl indentLine) :
    NoCtl (newIndent size indentLine indent) :=
  NoCtl.append (noCtl_flatten_replicate _ _ h) (NoCtl.replicate _ _ noCtl_space)

/-- one non-blank line: the text the loop builds shows `restyle` of the line's styled string -/
theorem view_guideLine (line : Text σ) (ni : List Char) (style : σ) (h : Inv line) (hni : NoCtl ni) :
    ((line.setPlain (ni ++ line.plain.drop ni.length)).stylize Variant.repaired style 0 (some (ni.length : Int))).view
      = restyle line.style ni style line.view := by
  have hs : NoCtl (ni ++ line.plain.drop ni.length) := NoCtl.append hni (NoCtl.drop _ h.2.1)
  have h1 := inv_setPlain line _ h hs
  rw [view_stylize _ _ _ _ h1, setPlain_plain]
  unfold restyle
  rw [view_map_fst]
  apply annot_congr
  intro i _ hi
  have e1 : (line.setPlain (ni ++ line.plain.drop ni.length)).effStyle i = ((line.view[i]?).map (·.2)).getD [line.style] := by
    simp only [effStyle, setPlain_style]
    rw [spanIds_setPlain line _ h i (by omega), view_getElem?_snd]
    by_cases hlt : i < line.plain.length
    · rw [if_pos hlt]; rfl
    · rw [if_neg hlt]
      have := effStyle_beyond line h i (by omega)
      simp only [effStyle] at this
      rw [this]; rfl
  rw [e1]
  congr 1
  have e2 : stylizeStart Variant.repaired (line.setPlain (ni ++ line.plain.drop ni.length)).length 0 = 0 := by
    simp [stylizeStart]
  have e3 : stylizeStop (line.setPlain (ni ++ line.plain.drop ni.length)).length (some (ni.length : Int)) = (ni.length : Int) := by
    simp only [stylizeStop, Option.getD_some]
    rw [if_neg (by omega)]
  rw [e2, e3]
  by_cases hlt : i < ni.length
  · rw [if_pos hlt, if_pos ⟨by omega, by omega⟩]
  · rw [if_neg hlt, if_neg (by omega)]

theorem guideTexts_view (b : σ) (size : Nat) (indentLine : List Char) (style : σ) (hil : NoCtl indentLine) :
    ∀ (lines : List (Text σ)) (blank : Nat), (∀ l ∈ lines, Inv l ∧ l.style = b) →
      (guideTexts size indentLine style lines blank).map view = guideLines b size indentLine style (lines.map view) blank
  | [], blank, _ => by
    simp only [guideTexts, guideLines, List.map_nil, List.map_replicate]
    rw [view_new_plainstyle [] style (by intro c hc; simp at hc)]
    rfl
  | line :: rest, blank, hl => by
    obtain ⟨hinv, hst⟩ := hl line (by simp)
    have hrest : ∀ l ∈ rest, Inv l ∧ l.style = b := fun l hm => hl l (by simp [hm])
    simp only [guideTexts, guideLines, List.map_cons, view_map_fst]
    by_cases hb : (line.plain.drop (leadingSpaces line.plain)).isEmpty = true
    · simp only [hb, if_true]
      exact guideTexts_view b size indentLine style hil rest (blank + 1) hrest
    · simp only [hb, Bool.false_eq_true, if_false, List.map_append, List.map_replicate, List.map_cons, List.map_nil]
      rw [guideTexts_view b size indentLine style hil rest 0 hrest,
        view_new_plainstyle _ style (noCtl_newIndent size indentLine _ hil),
        view_guideLine line _ style hinv (noCtl_newIndent size indentLine _ hil), hst]

theorem joinSeq_flatMap {β : Type} (sep : Text σ) (hsep : sep.plain.isEmpty = false) (f : Text σ → List β) :
    ∀ (lines : List (Text σ)), (joinSeq sep lines).flatMap f = List.intercalate (f sep) (lines.map f)
  | [] => by simp [joinSeq, List.intercalate]
  | [x] => by simp [joinSeq, List.intercalate]
  | x :: y :: rest => by
    have ih := joinSeq_flatMap sep hsep f (y :: rest)
    have e : joinSeq sep (x :: y :: rest) = x :: sep :: joinSeq sep (y :: rest) := by simp [joinSeq, hsep]
    rw [e, List.flatMap_cons, List.flatMap_cons, ih]
    show _ = List.intercalate (f sep) (f x :: (y :: rest).map f)
    rw [intercalate_cons_of_ne_nil (f sep) (f x) ((y :: rest).map f) (by simp), List.append_assoc]

theorem expandTabs_ok_style [BEq σ] (t q : Text σ) (tabSize : Option Nat) (h : Inv t)
    (hs : t.expandTabs Variant.repaired tabSize = .ok q) : q.style = t.style := by
  by_cases hc : t.plain.contains '\t' = true
  · cases hts : tabSize.orElse (fun _ => t.tabSize) with
    | none =>
      unfold expandTabs at hs
      simp only [hc, Bool.not_true, Bool.false_eq_true, if_false, hts] at hs
      cases hs
    | some ts =>
      cases ts with
      | zero =>
        unfold expandTabs at hs
        simp only [hc, Bool.not_true, Bool.false_eq_true, if_false, hts] at hs
        cases hs
      | succ n =>
        obtain ⟨q', hq', _, hst, _⟩ := expandTabs_view t h tabSize (n + 1) (Nat.succ_pos _) hts
        rw [hq'] at hs
        cases hs
        exact hst
  · unfold expandTabs at hs
    have : t.plain.contains '\t' = false := by simpa using hc
    simp only [this, Bool.not_false, if_true] at hs
    cases hs
    rfl

/-- **`with_indent_guides` at full strength.**  With `text` the tab-expanded copy (`expand_tabs_view`), a guide string
without strip-control characters and an indent size ≥ 1 (the argument, else `detect_indentation()`, which is ≥ 1): the
call succeeds, the result is consistent, and its styled string is `guideLines` of the lines of `text` (string-level
split at newlines, a blank last line dropped), every character under the join's null style, joined by newlines that
carry the null style only. -/
theorem withIndentGuides_view [BEq σ] (null : σ) (t text : Text σ) (indentSize : Option Nat) (character : List Char)
    (style : σ) (h : Inv t) (hch : NoCtl character) (hsize : 0 < indentSize.getD t.detectIndentation)
    (hexp : t.expandTabs Variant.repaired none = .ok text) :
    ∃ r, t.withIndentGuides Variant.repaired null indentSize character style = .ok r ∧ Inv r ∧
      r.view = List.intercalate [('\n', [null, null])]
        ((guideLines t.style (indentSize.getD t.detectIndentation)
            (character ++ List.replicate (indentSize.getD t.detectIndentation - 1) ' ') style
            (strSplit ['\n'] false false text.plain text.view) 0).map
          (fun l => l.map (fun p => (p.1, null :: p.2)))) := by
  have htext := inv_expandTabs_ok t text none h hexp
  have hstyle := expandTabs_ok_style t text none h hexp
  obtain ⟨parts, h1, h2, _, h4⟩ := split_str_view text ['\n'] false false htext (by simp)
  rw [view_map_fst] at h2
  have hsplit : text.split Variant.repaired = .ok parts := by
    have : text.split Variant.repaired = Text.splitW true Variant.repaired text ['\n'] false false := rfl
    rw [this, splitW_released_eq text ['\n'] false false htext (unbordered_single '\n'), h1]
  have hil : NoCtl (character ++ List.replicate (indentSize.getD t.detectIndentation - 1) ' ') :=
    NoCtl.append hch (NoCtl.replicate _ _ noCtl_space)
  obtain ⟨nl', b', hf, hg⟩ := indentFold_eq (indentSize.getD t.detectIndentation) hsize
    (character ++ List.replicate (indentSize.getD t.detectIndentation - 1) ' ') style parts [] 0
  have hrun : t.withIndentGuides Variant.repaired null indentSize character style =
      .ok ((new Variant.repaired ['\n'] null).join Variant.repaired
        (guideTexts (indentSize.getD t.detectIndentation)
          (character ++ List.replicate (indentSize.getD t.detectIndentation - 1) ' ') style parts 0)) := by
    unfold withIndentGuides
    rw [copy_eq_self t h, hexp]
    simp only [bind, Except.bind, hsplit, hf, pure, Except.pure, hg, List.nil_append]
  have hinv := inv_withIndentGuides null t _ indentSize character style h hch hrun
  refine ⟨_, hrun, hinv, ?_⟩
  have hall : ∀ x ∈ guideTexts (indentSize.getD t.detectIndentation)
      (character ++ List.replicate (indentSize.getD t.detectIndentation - 1) ' ') style parts 0, Inv x := by
    have hfold := indentFold_accOk (indentSize.getD t.detectIndentation)
      (character ++ List.replicate (indentSize.getD t.detectIndentation - 1) ' ') style hil parts (.ok ([], 0))
      (by intro nl b hh; cases hh; intro x hx; simp at hx) (fun l hl => (h4 l hl).1)
    intro x hx
    rw [← List.nil_append (guideTexts _ _ _ _ _), ← hg] at hx
    simp only [List.mem_append, List.mem_replicate] at hx
    rcases hx with hx | ⟨_, rfl⟩
    · exact hfold nl' b' hf x hx
    · exact inv_new _ _ _ _ _ _ _ _ (by intro sp h; simp at h)
  have hsepinv : Inv (new Variant.repaired ['\n'] null) := inv_new _ _ _ _ _ _ _ _ (by intro sp h; simp at h)
  rw [view_join _ _ hsepinv hall, joinSeq_flatMap _ (by rfl)]
  have hsv : (new Variant.repaired ['\n'] null).view.map (fun p => (p.1, (new Variant.repaired ['\n'] null).style :: p.2))
      = [('\n', [null, null])] := by
    rw [view_new_plainstyle ['\n'] null (by intro c hc; simp at hc; subst hc; decide)]
    rfl
  rw [hsv]
  congr 1
  have hmm : (guideTexts (indentSize.getD t.detectIndentation)
        (character ++ List.replicate (indentSize.getD t.detectIndentation - 1) ' ') style parts 0).map
        (fun x => x.view.map (fun p => (p.1, (new Variant.repaired ['\n'] null).style :: p.2)))
      = ((guideTexts (indentSize.getD t.detectIndentation)
        (character ++ List.replicate (indentSize.getD t.detectIndentation - 1) ' ') style parts 0).map view).map
        (fun l => l.map (fun p => (p.1, null :: p.2))) := by
    rw [List.map_map]; rfl
  rw [hmm, guideTexts_view t.style _ _ style hil parts 0 (fun l hl => ⟨(h4 l hl).1, by rw [(h4 l hl).2, hstyle]⟩), h2]

end Text
end RichModel
