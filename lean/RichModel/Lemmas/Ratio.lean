import RichModel.Model.Ratio
/-! Lemmas about `roundHalfEven`, `ceilDiv`, `ratio_reduce`, `ratio_distribute`, `_collapse_widths`. -/
namespace RichModel

theorem ediv_le_of_le_mul (a b k : Int) (hb : 0 < b) (h : a ≤ k * b) : a / b ≤ k := by
  have : a / b < k + 1 := by
    rw [Int.ediv_lt_iff_lt_mul hb, Int.add_mul]; omega
  omega

theorem ediv_nonneg' (a b : Int) (hb : 0 < b) (ha : 0 ≤ a) : 0 ≤ a / b := by
  have := (Int.le_ediv_iff_mul_le hb (a := 0) (b := a)).mpr (by omega)
  exact this

theorem rhe_nonneg (a b : Int) (hb : 0 < b) (ha : 0 ≤ a) : 0 ≤ roundHalfEven a b := by
  have := ediv_nonneg' a b hb ha
  unfold roundHalfEven
  simp only
  split
  · exact this
  · split
    · omega
    · split <;> omega

theorem rhe_le (a b k : Int) (hb : 0 < b) (h : a ≤ k * b) : roundHalfEven a b ≤ k := by
  have hq := ediv_le_of_le_mul a b k hb h
  have hdecomp := Int.mul_ediv_add_emod a b
  have hr0 := Int.emod_nonneg a (b := b) (by omega)
  unfold roundHalfEven
  simp only
  split
  · exact hq
  · -- 2r ≥ b > 0, so r > 0, hence a/b < k
    have hr : 0 < a % b := by omega
    have : a / b < k := by
      rcases Int.lt_or_eq_of_le hq with h1 | h1
      · exact h1
      · exfalso
        rw [h1] at hdecomp
        have : b * k = k * b := Int.mul_comm _ _
        omega
    split
    · omega
    · split <;> omega

theorem rhe_mul (x b : Int) (hb : 0 < b) : roundHalfEven (b * x) b = x := by
  unfold roundHalfEven
  have h1 : b * x / b = x := Int.mul_ediv_cancel_left x (by omega)
  have h2 : b * x % b = 0 := Int.mul_emod_right b x
  simp only [h1, h2]
  have h3 : (2 : Int) * 0 < b := by omega
  rw [if_pos h3]

theorem ceil_mul (x b : Int) (hb : 0 < b) : ceilDiv (b * x) b = x := by
  unfold ceilDiv
  have : -(b * x) = b * (-x) := by rw [Int.mul_neg]
  rw [this, Int.mul_ediv_cancel_left _ (by omega : b ≠ 0)]; omega

theorem ceil_nonneg (a b : Int) (hb : 0 < b) (ha : 0 ≤ a) : 0 ≤ ceilDiv a b := by
  unfold ceilDiv
  have : (-a) / b ≤ 0 := ediv_le_of_le_mul (-a) b 0 hb (by omega)
  omega

theorem ceil_le (a b k : Int) (hb : 0 < b) (h : a ≤ k * b) : ceilDiv a b ≤ k := by
  unfold ceilDiv
  have : -k ≤ (-a) / b := (Int.le_ediv_iff_mul_le hb).mpr (by rw [Int.neg_mul]; omega)
  omega

/-- the exact quotient never exceeds its ceiling -/
theorem le_ceil_mul (a b : Int) (hb : 0 < b) : a ≤ ceilDiv a b * b := by
  unfold ceilDiv
  have h := Int.mul_ediv_add_emod (-a) b
  have hr := Int.emod_nonneg (-a) (b := b) (by omega)
  have : -(-a / b) * b = -(b * (-a / b)) := by rw [Int.neg_mul, Int.mul_comm]
  omega

theorem share_le (ratio rem tr : Int) (h0 : 0 ≤ ratio) (h1 : ratio ≤ tr) (hr : 0 ≤ rem) :
    ratio * rem ≤ rem * tr := by
  rw [Int.mul_comm rem tr]
  exact Int.mul_le_mul_of_nonneg_right h1 hr

/-! ### ratio_reduce -/

def rrRatios (items : List (Int × Int × Int)) : List Int := items.map (·.1)
def rrValues (items : List (Int × Int × Int)) : List Int := items.map (·.2.2)

/-- Invariants of the `ratio_reduce` loop: never takes more than asked in total, never takes a
negative amount, never takes more than a slot's maximum. -/
theorem ratioReduceLoop_bounds : ∀ (items : List (Int × Int × Int)) (rem tr : Int),
    (∀ it ∈ items, 0 ≤ it.1 ∧ 0 ≤ it.2.1) → tr = (rrRatios items).sum → 0 ≤ rem →
    (ratioReduceLoop items rem tr).length = items.length ∧
    (rrValues items).sum - rem ≤ (ratioReduceLoop items rem tr).sum ∧
    (ratioReduceLoop items rem tr).sum ≤ (rrValues items).sum ∧
    (∀ p ∈ items.zip (ratioReduceLoop items rem tr), p.1.2.2 - p.1.2.1 ≤ p.2 ∧ p.2 ≤ p.1.2.2)
  | [], rem, tr, _, _, hr => by simp [ratioReduceLoop, rrValues]; omega
  | (ratio, maximum, value) :: rest, rem, tr, hpos, htr, hr => by
      have h0 := hpos (ratio, maximum, value) (by simp)
      simp only at h0
      have hrest : ∀ it ∈ rest, 0 ≤ it.1 ∧ 0 ≤ it.2.1 := fun it hit => hpos it (List.mem_cons_of_mem _ hit)
      have hsum_nonneg : 0 ≤ (rrRatios rest).sum := by
        clear htr hpos
        induction rest with
        | nil => simp [rrRatios]
        | cons a r ih =>
          simp only [rrRatios, List.map_cons, List.sum_cons]
          have := hrest a (by simp)
          have := ih (fun it hit => hrest it (List.mem_cons_of_mem _ hit))
          simp only [rrRatios] at this
          omega
      simp only [rrRatios, List.map_cons, List.sum_cons] at htr
      unfold ratioReduceLoop
      by_cases hc : (ratio != 0 && decide (tr > 0)) = true
      · simp only [hc, if_true]
        simp only [Bool.and_eq_true, bne_iff_ne, ne_eq, decide_eq_true_eq] at hc
        have htr0 : 0 < tr := hc.2
        have hshare_lo := rhe_nonneg (ratio * rem) tr htr0 (Int.mul_nonneg h0.1 hr)
        have hshare_hi := rhe_le (ratio * rem) tr rem htr0
          (share_le ratio rem tr h0.1 (by simp only [rrRatios] at hsum_nonneg; omega) hr)
        generalize hd : min maximum (roundHalfEven (ratio * rem) tr) = d
        have hd0 : 0 ≤ d := by omega
        have hd1 : d ≤ rem := by omega
        have hd2 : d ≤ maximum := by omega
        obtain ⟨l, lo, hi, pt⟩ := ratioReduceLoop_bounds rest (rem - d) (tr - ratio) hrest
          (by simp only [rrRatios]; omega) (by omega)
        refine ⟨by simp [l], ?_, ?_, ?_⟩
        · simp only [rrValues, List.map_cons, List.sum_cons] at lo ⊢; omega
        · simp only [rrValues, List.map_cons, List.sum_cons] at hi ⊢; omega
        · intro p hp
          simp only [List.zip_cons_cons, List.mem_cons] at hp
          rcases hp with hp | hp
          · subst hp; simp only; omega
          · exact pt p hp
      · simp only [hc, Bool.false_eq_true, if_false]
        obtain ⟨l, lo, hi, pt⟩ := ratioReduceLoop_bounds rest rem tr hrest (by
          simp only [Bool.and_eq_true, bne_iff_ne, ne_eq, decide_eq_true_eq, not_and, Decidable.not_not] at hc
          simp only [rrRatios] at hsum_nonneg ⊢
          by_cases hz : ratio = 0
          · omega
          · have := hc hz; omega) hr
        refine ⟨by simp [l], ?_, ?_, ?_⟩
        · simp only [rrValues, List.map_cons, List.sum_cons] at lo ⊢; omega
        · simp only [rrValues, List.map_cons, List.sum_cons] at hi ⊢; omega
        · intro p hp
          simp only [List.zip_cons_cons, List.mem_cons] at hp
          rcases hp with hp | hp
          · subst hp; simp only; omega
          · exact pt p hp

theorem sum_ratios_nonneg : ∀ (items : List (Int × Int × Int)), (∀ it ∈ items, 0 ≤ it.1 ∧ 0 ≤ it.2.1) →
    0 ≤ (rrRatios items).sum
  | [], _ => by simp [rrRatios]
  | a :: r, h => by
      simp only [rrRatios, List.map_cons, List.sum_cons]
      have := (h a (by simp)).1
      have := sum_ratios_nonneg r (fun it hit => h it (List.mem_cons_of_mem _ hit))
      simp only [rrRatios] at this
      omega

/-- Slots with ratio 0 are returned unchanged. -/
theorem ratioReduceLoop_zero_ratio : ∀ (items : List (Int × Int × Int)) (rem tr : Int),
    ∀ p ∈ items.zip (ratioReduceLoop items rem tr), p.1.1 = 0 → p.2 = p.1.2.2
  | [], _, _ => by simp [ratioReduceLoop]
  | (ratio, maximum, value) :: rest, rem, tr => by
      unfold ratioReduceLoop
      split
      · rename_i hc
        intro p hp hz
        simp only [List.zip_cons_cons, List.mem_cons] at hp
        rcases hp with hp | hp
        · subst hp
          simp only [Bool.and_eq_true, bne_iff_ne, ne_eq] at hc
          exact absurd hz hc.1
        · exact ratioReduceLoop_zero_ratio rest _ _ p hp hz
      · intro p hp hz
        simp only [List.zip_cons_cons, List.mem_cons] at hp
        rcases hp with hp | hp
        · subst hp; rfl
        · exact ratioReduceLoop_zero_ratio rest _ _ p hp hz

/-- Progress: when something is asked for (`rem ≥ 1`), some slot has a positive ratio and every such slot
may give at least one cell, at least one cell is taken in total. -/
theorem ratioReduceLoop_progress : ∀ (items : List (Int × Int × Int)) (rem tr : Int),
    (∀ it ∈ items, 0 ≤ it.1 ∧ 0 ≤ it.2.1) → (∀ it ∈ items, 0 < it.1 → 1 ≤ it.2.1) →
    tr = (rrRatios items).sum → 0 < tr → 1 ≤ rem →
    (ratioReduceLoop items rem tr).sum ≤ (rrValues items).sum - 1
  | [], rem, tr, _, _, htr, htr0, _ => by simp [rrRatios] at htr; omega
  | (ratio, maximum, value) :: rest, rem, tr, hpos, hmax, htr, htr0, hr => by
      have h0 := hpos (ratio, maximum, value) (by simp)
      simp only at h0
      have hrest : ∀ it ∈ rest, 0 ≤ it.1 ∧ 0 ≤ it.2.1 := fun it hit => hpos it (List.mem_cons_of_mem _ hit)
      have hmaxrest : ∀ it ∈ rest, 0 < it.1 → 1 ≤ it.2.1 := fun it hit => hmax it (List.mem_cons_of_mem _ hit)
      have hsn := sum_ratios_nonneg rest hrest
      simp only [rrRatios, List.map_cons, List.sum_cons] at htr
      simp only [rrRatios] at hsn
      unfold ratioReduceLoop
      by_cases hc : (ratio != 0 && decide (tr > 0)) = true
      · simp only [hc, if_true]
        simp only [Bool.and_eq_true, bne_iff_ne, ne_eq, decide_eq_true_eq] at hc
        have hrpos : 0 < ratio := by omega
        have hm1 := hmax (ratio, maximum, value) (by simp) hrpos
        simp only at hm1
        have hshare_lo := rhe_nonneg (ratio * rem) tr htr0 (Int.mul_nonneg h0.1 (by omega))
        have hshare_hi := rhe_le (ratio * rem) tr rem htr0 (share_le ratio rem tr h0.1 (by omega) (by omega))
        by_cases hd : 1 ≤ min maximum (roundHalfEven (ratio * rem) tr)
        · obtain ⟨_, _, hi, _⟩ := ratioReduceLoop_bounds rest
            (rem - min maximum (roundHalfEven (ratio * rem) tr)) (tr - ratio) hrest
            (by simp only [rrRatios]; omega) (by omega)
          simp only [rrValues, List.map_cons, List.sum_cons] at hi ⊢
          omega
        · have hz : roundHalfEven (ratio * rem) tr = 0 := by omega
          have hmin : min maximum (roundHalfEven (ratio * rem) tr) = 0 := by omega
          have htr' : 0 < tr - ratio := by
            rcases Int.lt_or_eq_of_le (show 0 ≤ tr - ratio by omega) with h | h
            · exact h
            · exfalso
              have : tr = ratio := by omega
              rw [this, rhe_mul rem ratio hrpos] at hz
              omega
          rw [hmin]
          have ih := ratioReduceLoop_progress rest (rem - 0) (tr - ratio) hrest hmaxrest
            (by simp only [rrRatios]; omega) htr' (by omega)
          simp only [rrValues, List.map_cons, List.sum_cons] at ih ⊢
          omega
      · simp only [hc, Bool.false_eq_true, if_false]
        have hz : ratio = 0 := by
          simp only [Bool.and_eq_true, bne_iff_ne, ne_eq, decide_eq_true_eq, not_and] at hc
          by_cases hz : ratio = 0
          · exact hz
          · exact absurd htr0 (hc hz)
        have ih := ratioReduceLoop_progress rest rem tr hrest hmaxrest
          (by simp only [rrRatios]; omega) htr0 hr
        simp only [rrValues, List.map_cons, List.sum_cons] at ih ⊢
        omega

/-- When no maximum binds, exactly `rem` is taken (this is the docstring's "guaranteed to sum to total"). -/
theorem ratioReduceLoop_exact : ∀ (items : List (Int × Int × Int)) (rem tr : Int),
    (∀ it ∈ items, 0 ≤ it.1 ∧ rem ≤ it.2.1) → tr = (rrRatios items).sum → 0 < tr → 0 ≤ rem →
    (ratioReduceLoop items rem tr).sum = (rrValues items).sum - rem
  | [], rem, tr, _, htr, htr0, _ => by simp [rrRatios] at htr; omega
  | (ratio, maximum, value) :: rest, rem, tr, hpos, htr, htr0, hr => by
      have h0 := hpos (ratio, maximum, value) (by simp)
      simp only at h0
      have hrest0 : ∀ it ∈ rest, 0 ≤ it.1 ∧ 0 ≤ it.2.1 := fun it hit => by
        have := hpos it (List.mem_cons_of_mem _ hit); omega
      have hsn := sum_ratios_nonneg rest hrest0
      simp only [rrRatios, List.map_cons, List.sum_cons] at htr
      simp only [rrRatios] at hsn
      unfold ratioReduceLoop
      by_cases hc : (ratio != 0 && decide (tr > 0)) = true
      · simp only [hc, if_true]
        simp only [Bool.and_eq_true, bne_iff_ne, ne_eq, decide_eq_true_eq] at hc
        have hrpos : 0 < ratio := by omega
        have hshare_lo := rhe_nonneg (ratio * rem) tr htr0 (Int.mul_nonneg h0.1 hr)
        have hshare_hi := rhe_le (ratio * rem) tr rem htr0 (share_le ratio rem tr h0.1 (by omega) hr)
        have hmin : min maximum (roundHalfEven (ratio * rem) tr) = roundHalfEven (ratio * rem) tr := by omega
        rw [hmin]
        have hd_last : tr = ratio → roundHalfEven (ratio * rem) tr = rem := by
          intro h; rw [h]; exact rhe_mul rem ratio hrpos
        generalize roundHalfEven (ratio * rem) tr = d at *
        by_cases htr' : 0 < tr - ratio
        · have ih := ratioReduceLoop_exact rest (rem - d) (tr - ratio)
            (fun it hit => by have := hpos it (List.mem_cons_of_mem _ hit); omega)
            (by simp only [rrRatios]; omega) htr' (by omega)
          simp only [rrValues, List.map_cons, List.sum_cons] at ih ⊢
          omega
        · -- last slot with a positive ratio: it takes everything that is left
          have hlast : tr = ratio := by omega
          have hd : d = rem := hd_last hlast
          obtain ⟨_, lo, hi, _⟩ := ratioReduceLoop_bounds rest (rem - d) (tr - ratio) hrest0
            (by simp only [rrRatios]; omega) (by omega)
          simp only [rrValues, List.map_cons, List.sum_cons] at lo hi ⊢
          omega
      · simp only [hc, Bool.false_eq_true, if_false]
        have hz : ratio = 0 := by
          simp only [Bool.and_eq_true, bne_iff_ne, ne_eq, decide_eq_true_eq, not_and] at hc
          by_cases hz : ratio = 0
          · exact hz
          · exact absurd htr0 (hc hz)
        have ih := ratioReduceLoop_exact rest rem tr
          (fun it hit => hpos it (List.mem_cons_of_mem _ hit)) (by simp only [rrRatios]; omega) htr0 hr
        simp only [rrValues, List.map_cons, List.sum_cons] at ih ⊢
        omega

/-! ### ratio_distribute -/

theorem rdLoop_length : ∀ (items : List (Int × Int)) (rem tr : Int),
    (ratioDistributeLoop items rem tr).length = items.length
  | [], _, _ => rfl
  | _ :: rest, _, _ => by simp [ratioDistributeLoop, rdLoop_length rest]

/-- once the ratios are used up, the first remaining slot takes what is left and the others nothing -/
theorem rdLoop_zero : ∀ (items : List (Int × Int)) (rem : Int), (∀ it ∈ items, it.1 = 0) →
    (ratioDistributeLoop items rem 0).sum = (if items.isEmpty then 0 else rem) ∧
    (0 ≤ rem → ∀ d ∈ ratioDistributeLoop items rem 0, 0 ≤ d)
  | [], _, _ => by simp [ratioDistributeLoop]
  | (ratio, minimum) :: rest, rem, h => by
      have hr : ratio = 0 := h (ratio, minimum) (by simp)
      subst hr
      have ih := rdLoop_zero rest (rem - rem) (fun it hit => h it (List.mem_cons_of_mem _ hit))
      unfold ratioDistributeLoop
      simp only [show ¬ ((0:Int) > 0) by omega, if_false, List.sum_cons, List.isEmpty_cons,
        Bool.false_eq_true, Int.sub_zero]
      refine ⟨?_, ?_⟩
      · rw [ih.1]; split <;> omega
      · intro hrem d hd
        rcases List.mem_cons.mp hd with hd | hd
        · omega
        · exact ih.2 (by omega) d hd

theorem sum_fst_nonneg : ∀ (items : List (Int × Int)), (∀ it ∈ items, 0 ≤ it.1) → 0 ≤ (items.map (·.1)).sum
  | [], _ => by simp
  | a :: r, h => by
      simp only [List.map_cons, List.sum_cons]
      have := h a (by simp)
      have := sum_fst_nonneg r (fun it hit => h it (List.mem_cons_of_mem _ hit))
      omega

theorem all_zero_of_sum_zero : ∀ (items : List (Int × Int)), (∀ it ∈ items, 0 ≤ it.1) →
    (items.map (·.1)).sum = 0 → ∀ it ∈ items, it.1 = 0
  | [], _, _ => by simp
  | a :: r, h, hs => by
      simp only [List.map_cons, List.sum_cons] at hs
      have h1 := h a (by simp)
      have h2 := sum_fst_nonneg r (fun it hit => h it (List.mem_cons_of_mem _ hit))
      intro it hit
      rcases List.mem_cons.mp hit with hit | hit
      · subst hit; omega
      · exact all_zero_of_sum_zero r (fun it hit => h it (List.mem_cons_of_mem _ hit)) (by omega) it hit

/-- `ratio_distribute` hands out at least `total` (exactly `total` unless a minimum binds at the end),
and every slot gets at least its minimum while ratios remain. -/
theorem rdLoop_sum_ge : ∀ (items : List (Int × Int)) (rem tr : Int),
    (∀ it ∈ items, 0 ≤ it.1) → tr = (items.map (·.1)).sum → 0 < tr →
    rem ≤ (ratioDistributeLoop items rem tr).sum
  | [], rem, tr, _, htr, htr0 => by simp at htr; omega
  | (ratio, minimum) :: rest, rem, tr, hpos, htr, htr0 => by
      have h0 : 0 ≤ ratio := hpos (ratio, minimum) (by simp)
      have hrest : ∀ it ∈ rest, 0 ≤ it.1 := fun it hit => hpos it (List.mem_cons_of_mem _ hit)
      have hsn := sum_fst_nonneg rest hrest
      simp only [List.map_cons, List.sum_cons] at htr
      unfold ratioDistributeLoop
      simp only [htr0, if_true, List.sum_cons]
      generalize hd : max minimum (ceilDiv (ratio * rem) tr) = d
      by_cases htr' : 0 < tr - ratio
      · have := rdLoop_sum_ge rest (rem - d) (tr - ratio) hrest (by omega) htr'
        omega
      · have hlast : tr = ratio := by omega
        have hz : tr - ratio = 0 := by omega
        have hdrem : rem ≤ d := by
          have : ceilDiv (ratio * rem) tr = rem := by rw [hlast]; exact ceil_mul rem ratio (by omega)
          omega
        rw [hz]
        have := (rdLoop_zero rest (rem - d) (all_zero_of_sum_zero rest hrest (by omega))).1
        rw [this]; split <;> omega

/-- Without minimums `ratio_distribute` sums to exactly `total` and gives no slot a negative share. -/
theorem rdLoop_exact : ∀ (items : List (Int × Int)) (rem tr : Int),
    (∀ it ∈ items, 0 ≤ it.1 ∧ it.2 = 0) → tr = (items.map (·.1)).sum → 0 < tr → 0 ≤ rem →
    (ratioDistributeLoop items rem tr).sum = rem ∧ ∀ d ∈ ratioDistributeLoop items rem tr, 0 ≤ d
  | [], rem, tr, _, htr, htr0, _ => by simp at htr; omega
  | (ratio, minimum) :: rest, rem, tr, hpos, htr, htr0, hrem => by
      have h0 := hpos (ratio, minimum) (by simp)
      simp only at h0
      obtain ⟨h0, hmin⟩ := h0
      subst hmin
      have hrest : ∀ it ∈ rest, 0 ≤ it.1 := fun it hit => (hpos it (List.mem_cons_of_mem _ hit)).1
      have hsn := sum_fst_nonneg rest hrest
      simp only [List.map_cons, List.sum_cons] at htr
      have hc0 := ceil_nonneg (ratio * rem) tr htr0 (Int.mul_nonneg h0 hrem)
      have hc1 := ceil_le (ratio * rem) tr rem htr0 (share_le ratio rem tr h0 (by omega) hrem)
      have hlastc : tr = ratio → ceilDiv (ratio * rem) tr = rem := by
        intro h; rw [h]; exact ceil_mul rem ratio (by omega)
      unfold ratioDistributeLoop
      simp only [htr0, if_true, List.sum_cons]
      have hmax : max 0 (ceilDiv (ratio * rem) tr) = ceilDiv (ratio * rem) tr := by omega
      rw [hmax]
      generalize ceilDiv (ratio * rem) tr = d at *
      by_cases htr' : 0 < tr - ratio
      · have ih := rdLoop_exact rest (rem - d) (tr - ratio)
          (fun it hit => hpos it (List.mem_cons_of_mem _ hit)) (by omega) htr' (by omega)
        refine ⟨by omega, ?_⟩
        intro x hx
        rcases List.mem_cons.mp hx with hx | hx
        · omega
        · exact ih.2 x hx
      · have hlast : tr = ratio := by omega
        have hd := hlastc hlast
        have hz : tr - ratio = 0 := by omega
        rw [hz]
        have hzz := rdLoop_zero rest (rem - d) (all_zero_of_sum_zero rest hrest (by omega))
        refine ⟨?_, ?_⟩
        · rw [hzz.1]; split <;> omega
        · intro x hx
          rcases List.mem_cons.mp hx with hx | hx
          · omega
          · exact hzz.2 (by omega) x hx

theorem zip_replicate_fst (l : List Int) : ((l.zip (List.replicate l.length (0:Int))).map (·.1)) = l := by
  induction l with
  | nil => rfl
  | cons a r ih => simp [List.replicate_succ, ih]

/-- `ratio_distribute(total, ratios)` (no minimums): the parts sum to `total`, one part per ratio,
none negative — for every list of non-negative ratios with a positive sum and every `total ≥ 0`. -/
theorem ratioDistribute_none (total : Int) (ratios : List Int) (hpos : ∀ r ∈ ratios, 0 ≤ r)
    (hsum : 0 < ratios.sum) (ht : 0 ≤ total) :
    ∃ l, ratioDistribute total ratios none = some l ∧ l.sum = total ∧ l.length = ratios.length ∧ ∀ d ∈ l, 0 ≤ d := by
  unfold ratioDistribute
  simp only [hsum, if_true]
  refine ⟨_, rfl, ?_, ?_, ?_⟩
  · refine (rdLoop_exact _ total ratios.sum ?_ (by rw [zip_replicate_fst]) hsum ht).1
    intro it hit
    have := List.of_mem_zip hit
    exact ⟨hpos _ this.1, (List.mem_replicate.mp this.2).2⟩
  · rw [rdLoop_length]; simp
  · refine (rdLoop_exact _ total ratios.sum ?_ (by rw [zip_replicate_fst]) hsum ht).2
    intro it hit
    have := List.of_mem_zip hit
    exact ⟨hpos _ this.1, (List.mem_replicate.mp this.2).2⟩

/-! ### Table._collapse_widths -/

theorem foldl_max_ge (xs : List Int) : ∀ (a : Int), a ≤ xs.foldl max a ∧ ∀ x ∈ xs, x ≤ xs.foldl max a := by
  induction xs with
  | nil => intro a; simp
  | cons y ys ih =>
    intro a
    simp only [List.foldl_cons]
    have := ih (max a y)
    refine ⟨by omega, ?_⟩
    intro x hx
    rcases List.mem_cons.mp hx with hx | hx
    · subst hx; omega
    · exact this.2 x hx

theorem foldl_max_mem (xs : List Int) : ∀ (a : Int), xs.foldl max a = a ∨ xs.foldl max a ∈ xs := by
  induction xs with
  | nil => intro a; simp
  | cons y ys ih =>
    intro a
    simp only [List.foldl_cons]
    rcases ih (max a y) with h | h
    · rw [h]
      by_cases hay : a ≤ y
      · right; simp [Int.max_eq_right hay]
      · left; exact Int.max_eq_left (by omega)
    · right; exact List.mem_cons_of_mem _ h

theorem listMax_ge (l : List Int) : ∀ x ∈ l, x ≤ listMax l := by
  cases l with
  | nil => simp
  | cons a r =>
    intro x hx
    show x ≤ List.foldl max a r
    have := foldl_max_ge r a
    rcases List.mem_cons.mp hx with hx | hx
    · subst hx; exact this.1
    · exact this.2 x hx

theorem listMax_mem (l : List Int) (h : l ≠ []) : listMax l ∈ l := by
  cases l with
  | nil => exact absurd rfl h
  | cons a r =>
    show List.foldl max a r ∈ a :: r
    rcases foldl_max_mem r a with h | h
    · rw [h]; simp
    · exact List.mem_cons_of_mem _ h

theorem mask_replicate (l : List Int) (m : Int) (hm : m ≠ 0) :
    ((l.zip (List.replicate l.length m)).map (fun p => if p.2 != 0 then p.1 else 0)) = l := by
  induction l with
  | nil => rfl
  | cons a r ih =>
    simp only [List.length_cons, List.replicate_succ, List.zip_cons_cons, List.map_cons, ih]
    simp [hm]

theorem zip_map_triple {α : Type} (zs : List α) (f g : α → Int) (m : Int) :
    (zs.map f).zip ((List.replicate zs.length m).zip (zs.map g)) = zs.map (fun z => (f z, m, g z)) := by
  induction zs with
  | nil => rfl
  | cons a r ih => simp [List.replicate_succ, ih]

theorem exists_zip_of_mem {α β : Type} : ∀ (l1 : List α) (l2 : List β), l1.length = l2.length →
    ∀ r ∈ l2, ∃ a, (a, r) ∈ l1.zip l2
  | [], [], _, r, hr => by simp at hr
  | [], _ :: _, h, _, _ => by simp at h
  | _ :: _, [], h, _, _ => by simp at h
  | a :: l1, b :: l2, h, r, hr => by
      rcases List.mem_cons.mp hr with hr | hr
      · subst hr; exact ⟨a, by simp⟩
      · obtain ⟨a', ha'⟩ := exists_zip_of_mem l1 l2 (by simpa using h) r hr
        exact ⟨a', by simp [ha']⟩

theorem sum_nonneg_of_all : ∀ (l : List Int), (∀ x ∈ l, 0 ≤ x) → 0 ≤ l.sum
  | [], _ => by simp
  | a :: r, h => by
      simp only [List.sum_cons]
      have := h a (by simp)
      have := sum_nonneg_of_all r (fun x hx => h x (List.mem_cons_of_mem _ hx))
      omega

theorem all_zero_of_sum_zero' : ∀ (l : List Int), (∀ x ∈ l, 0 ≤ x) → l.sum = 0 → ∀ x ∈ l, x = 0
  | [], _, _ => by simp
  | a :: r, h, hs => by
      simp only [List.sum_cons] at hs
      have h1 := h a (by simp)
      have h2 := sum_nonneg_of_all r (fun x hx => h x (List.mem_cons_of_mem _ hx))
      intro x hx
      rcases List.mem_cons.mp hx with hx | hx
      · subst hx; omega
      · exact all_zero_of_sum_zero' r (fun x hx => h x (List.mem_cons_of_mem _ hx)) (by omega) x hx

theorem map_fst_zip {α β : Type} : ∀ (l1 : List α) (l2 : List β), l1.length = l2.length → (l1.zip l2).map (·.1) = l1
  | [], _, _ => by simp
  | _ :: _, [], h => by simp at h
  | a :: l1, b :: l2, h => by simp [map_fst_zip l1 l2 (by simpa using h)]

/-- every wrappable column is zero -/
def wrapZero (widths : List Int) (wrapable : List Bool) : Prop :=
  ∀ p ∈ widths.zip wrapable, p.2 = true → p.1 = 0

/-- What one iteration of the collapse loop guarantees. -/
theorem collapseStep_some (widths : List Int) (wrapable : List Bool) (maxWidth : Int)
    (hlen : widths.length = wrapable.length) (hnn : ∀ w ∈ widths, 0 ≤ w) (w' : List Int)
    (h : collapseStep widths wrapable maxWidth = some w') :
    w'.length = widths.length ∧ (∀ w ∈ w', 0 ≤ w) ∧ maxWidth ≤ w'.sum ∧ w'.sum ≤ widths.sum - 1 := by
  unfold collapseStep at h
  simp only at h
  split at h
  · rename_i hcond
    simp only [Bool.and_eq_true, bne_iff_ne, ne_eq, decide_eq_true_eq] at hcond
    split at h
    · exact absurd h (by simp)
    · rename_i hbrk
      simp only [Bool.or_eq_true, Bool.not_eq_true', beq_iff_eq, not_or, Bool.not_eq_false] at hbrk
      obtain ⟨hany, hdiff⟩ := hbrk
      injection h with h
      -- names
      generalize hz : widths.zip wrapable = zs at *
      generalize hmc : listMax ((zs.filter (·.2)).map (·.1)) = maxColumn at *
      generalize hsm : listMax (zs.map (fun p => if p.2 && p.1 != maxColumn then p.1 else 0)) = secondMax at *
      have hzlen : zs.length = widths.length := by rw [← hz]; simp [hlen]
      have hzw : zs.map (·.1) = widths := by rw [← hz]; exact map_fst_zip _ _ hlen
      have hznn : ∀ z ∈ zs, 0 ≤ z.1 := by
        intro z hzm; rw [← hz] at hzm; exact hnn _ (List.of_mem_zip hzm).1
      -- secondMax ≥ 0 and ≤ any... ; maxColumn ≥ secondMax
      have hsm0 : 0 ≤ secondMax := by
        rw [← hsm]
        cases hzs : zs with
        | nil => simp [listMax]
        | cons a r =>
          have hm := listMax_mem ((a :: r).map (fun p => if p.2 && p.1 != maxColumn then p.1 else 0)) (by simp)
          simp only [List.mem_map] at hm
          obtain ⟨q, hq, hqe⟩ := hm
          rw [← hqe]
          split
          · exact hznn q (by rw [hzs]; exact hq)
          · omega
      have hmcge : ∀ z ∈ zs, z.2 = true → z.1 ≤ maxColumn := by
        intro z hzm hb
        rw [← hmc]
        apply listMax_ge
        simp only [List.mem_map, List.mem_filter]
        exact ⟨z, ⟨hzm, hb⟩, rfl⟩
      have hsmle : secondMax ≤ maxColumn := by
        rw [← hsm]
        cases hzs : zs with
        | nil =>
          simp only [List.any_eq_true, List.mem_map] at hany
          obtain ⟨x, ⟨q, hq, _⟩, _⟩ := hany
          rw [hzs] at hq; simp at hq
        | cons a r =>
          have hm := listMax_mem ((a :: r).map (fun p => if p.2 && p.1 != maxColumn then p.1 else 0)) (by simp)
          simp only [List.mem_map] at hm
          obtain ⟨q, hq, hqe⟩ := hm
          rw [← hqe]
          split
          · rename_i hc
            simp only [Bool.and_eq_true] at hc
            exact hmcge q (by rw [hzs]; exact hq) hc.1
          · -- 0 ≤ maxColumn: some wrappable column equals maxColumn and widths are ≥ 0
            simp only [List.any_eq_true, List.mem_map] at hany
            obtain ⟨x, ⟨q', hq', hq'e⟩, hx⟩ := hany
            have : (q'.1 == maxColumn && q'.2) = true := by
              by_cases hh : (q'.1 == maxColumn && q'.2) = true
              · exact hh
              · simp [hh] at hq'e; subst hq'e; simp at hx
            simp only [Bool.and_eq_true, beq_iff_eq] at this
            have := hznn q' hq'
            omega
      generalize hm : min (widths.sum - maxWidth) (maxColumn - secondMax) = m at *
      have hm1 : 1 ≤ m := by omega
      have hmle : m ≤ maxColumn - secondMax := by omega
      -- unfold ratio_reduce
      unfold ratioReduce at h
      have hrl : (zs.map (fun p => if p.1 == maxColumn && p.2 then (1:Int) else 0)).length = widths.length := by
        simp [hzlen]
      rw [← hrl] at h
      simp only at h
      rw [mask_replicate _ m (by omega)] at h
      -- total ratio > 0
      have hrnn : ∀ r ∈ zs.map (fun p => if p.1 == maxColumn && p.2 then (1:Int) else 0), 0 ≤ r := by
        intro r hr; simp only [List.mem_map] at hr; obtain ⟨q, _, rfl⟩ := hr; split <;> omega
      have htr0 : 0 < (zs.map (fun p => if p.1 == maxColumn && p.2 then (1:Int) else 0)).sum := by
        have h0 := sum_nonneg_of_all _ hrnn
        rcases Int.lt_or_eq_of_le h0 with hlt | heq
        · exact hlt
        · exfalso
          have hz0 := all_zero_of_sum_zero' _ hrnn heq.symm
          simp only [List.any_eq_true] at hany
          obtain ⟨x, hx, hxne⟩ := hany
          have := hz0 x hx
          simp [this] at hxne
      have hne : ((zs.map (fun p => if p.1 == maxColumn && p.2 then (1:Int) else 0)).sum == 0) = false := by
        rw [beq_eq_false_iff_ne]; omega
      simp only [hne, Bool.false_eq_true, if_false] at h
      rw [show (List.map (fun p => if p.1 == maxColumn && p.2 then (1:Int) else 0) zs).length = zs.length by simp] at h
      rw [← hzw] at h
      rw [zip_map_triple zs (fun p => if p.1 == maxColumn && p.2 then (1:Int) else 0) (·.1) m] at h
      generalize hitems : zs.map (fun z => ((if z.1 == maxColumn && z.2 then (1:Int) else 0), m, z.1)) = items at *
      have hitpos : ∀ it ∈ items, 0 ≤ it.1 ∧ 0 ≤ it.2.1 := by
        intro it hit; rw [← hitems] at hit; simp only [List.mem_map] at hit
        obtain ⟨q, _, rfl⟩ := hit
        simp only; refine ⟨by split <;> omega, by omega⟩
      have hitmax : ∀ it ∈ items, 0 < it.1 → 1 ≤ it.2.1 := by
        intro it hit _; rw [← hitems] at hit; simp only [List.mem_map] at hit
        obtain ⟨q, _, rfl⟩ := hit
        simp only; omega
      have hrr : rrRatios items = zs.map (fun p => if p.1 == maxColumn && p.2 then (1:Int) else 0) := by
        rw [← hitems]; simp [rrRatios]
      have hrv : rrValues items = widths := by
        rw [← hitems, ← hzw]; simp [rrValues]
      have hex : 0 ≤ widths.sum - maxWidth := by omega
      rw [hzw] at h
      obtain ⟨blen, blo, bhi, bpt⟩ := ratioReduceLoop_bounds items (widths.sum - maxWidth) _ hitpos (by rw [hrr]) hex
      have bprog := ratioReduceLoop_progress items (widths.sum - maxWidth) _ hitpos hitmax (by rw [hrr]) htr0 (by omega)
      rw [hrv] at blo bhi bprog
      rw [h] at blen blo bhi bpt bprog
      have hitlen : items.length = widths.length := by rw [← hitems]; simp [hzlen]
      refine ⟨by omega, ?_, by omega, bprog⟩
      intro r hr
      obtain ⟨it, hit⟩ := exists_zip_of_mem items w' blen.symm r hr
      have hb := bpt (it, r) hit
      have hz := ratioReduceLoop_zero_ratio items (widths.sum - maxWidth) _ (it, r) (by rw [h]; exact hit)
      simp only at hb hz
      have hitm := (List.of_mem_zip hit).1
      rw [← hitems] at hitm
      simp only [List.mem_map] at hitm
      obtain ⟨q, hq, rfl⟩ := hitm
      simp only at hb hz
      by_cases hc : (q.1 == maxColumn && q.2) = true
      · simp only [Bool.and_eq_true, beq_iff_eq] at hc
        have := hc.1
        omega
      · have := hz (by simp [hc])
        have := hznn q hq
        omega
  · exact absurd h (by simp)

/-- When the loop stops, the widths fit, or there is nothing left to take from wrappable columns. -/
theorem collapseStep_none (widths : List Int) (wrapable : List Bool) (maxWidth : Int)
    (hlen : widths.length = wrapable.length) (hnn : ∀ w ∈ widths, 0 ≤ w) (hany : wrapable.any id = true)
    (h : collapseStep widths wrapable maxWidth = none) :
    widths.sum ≤ maxWidth ∨ wrapZero widths wrapable := by
  unfold collapseStep at h
  simp only at h
  split at h
  · rename_i hcond
    simp only [Bool.and_eq_true, bne_iff_ne, ne_eq, decide_eq_true_eq] at hcond
    right
    generalize hz : widths.zip wrapable = zs at *
    generalize hmc : listMax ((zs.filter (·.2)).map (·.1)) = maxColumn at *
    have hznn : ∀ z ∈ zs, 0 ≤ z.1 := by
      intro z hzm; rw [← hz] at hzm; exact hnn _ (List.of_mem_zip hzm).1
    have hmcge : ∀ z ∈ zs, z.2 = true → z.1 ≤ maxColumn := by
      intro z hzm hb
      rw [← hmc]
      apply listMax_ge
      simp only [List.mem_map, List.mem_filter]
      exact ⟨z, ⟨hzm, hb⟩, rfl⟩
    -- some wrappable column exists in zs
    have hexw : ∃ z ∈ zs, z.2 = true := by
      simp only [List.any_eq_true, id] at hany
      obtain ⟨b, hb, hbt⟩ := hany
      obtain ⟨a, ha⟩ := exists_zip_of_mem widths wrapable hlen b hb
      rw [hz] at ha
      exact ⟨(a, b), ha, hbt⟩
    have hmcmem : ∃ z ∈ zs, z.2 = true ∧ z.1 = maxColumn := by
      obtain ⟨z, hzm, hzt⟩ := hexw
      have hne : ((zs.filter (·.2)).map (·.1)) ≠ [] := by
        intro hnil
        have : z.1 ∈ ((zs.filter (·.2)).map (·.1)) := by
          simp only [List.mem_map, List.mem_filter]; exact ⟨z, ⟨hzm, hzt⟩, rfl⟩
        rw [hnil] at this; simp at this
      have := listMax_mem _ hne
      rw [hmc] at this
      simp only [List.mem_map, List.mem_filter] at this
      obtain ⟨q, ⟨hq, hqt⟩, hqe⟩ := this
      exact ⟨q, hq, hqt, hqe⟩
    split at h
    · rename_i hbrk
      simp only [Bool.or_eq_true, Bool.not_eq_true', beq_iff_eq] at hbrk
      rcases hbrk with hb | hb
      · exfalso
        obtain ⟨q, hq, hqt, hqe⟩ := hmcmem
        have : ((zs.map (fun p => if p.1 == maxColumn && p.2 then (1:Int) else 0)).any (· != 0)) = true := by
          simp only [List.any_eq_true, List.mem_map]
          exact ⟨1, ⟨q, hq, by simp [hqe, hqt]⟩, by decide⟩
        rw [this] at hb; exact absurd hb (by simp)
      · -- maxColumn = secondMax forces maxColumn = 0
        have hmc0 : maxColumn = 0 := by
          cases hzs : zs with
          | nil => obtain ⟨q, hq, _⟩ := hmcmem; rw [hzs] at hq; simp at hq
          | cons a r =>
            have hm := listMax_mem ((a :: r).map (fun p => if p.2 && p.1 != maxColumn then p.1 else 0)) (by simp)
            rw [hzs] at hb
            have hsm : listMax ((a :: r).map (fun p => if p.2 && p.1 != maxColumn then p.1 else 0)) = maxColumn := by omega
            rw [hsm] at hm
            simp only [List.mem_map] at hm
            obtain ⟨q, _, hqe⟩ := hm
            split at hqe
            · rename_i hc
              simp only [Bool.and_eq_true, bne_iff_ne, ne_eq] at hc
              exact absurd hqe hc.2
            · omega
        intro p hp hpt
        rw [hz] at hp
        have h1 := hmcge p hp hpt
        have h2 := hznn p hp
        omega
    · exact absurd h (by simp)
  · rename_i hcond
    simp only [Bool.and_eq_true, bne_iff_ne, ne_eq, decide_eq_true_eq, not_and, Int.not_lt] at hcond
    by_cases h0 : widths.sum = 0
    · right
      have hz := all_zero_of_sum_zero' widths hnn h0
      intro p hp _
      exact hz p.1 (List.of_mem_zip hp).1
    · left; have := hcond h0; omega

/-- `_collapse_widths` terminates within the fuel the model gives it, keeps one width per column, never
produces a negative width, never shrinks below `max_width`, and ends with the widths fitting `max_width`
unless every wrappable column is already 0. -/
theorem collapseLoop_post (wrapable : List Bool) (maxWidth : Int) (hany : wrapable.any id = true) :
    ∀ (fuel : Nat) (widths : List Int), widths.length = wrapable.length → (∀ w ∈ widths, 0 ≤ w) →
      widths.sum.toNat < fuel →
      let r := collapseLoop fuel widths wrapable maxWidth
      r.length = widths.length ∧ (∀ w ∈ r, 0 ≤ w) ∧ r.sum ≤ widths.sum ∧
      (r.sum ≤ maxWidth ∨ wrapZero r wrapable) ∧ (maxWidth ≤ widths.sum → maxWidth ≤ r.sum)
  | 0, _, _, _, h => by omega
  | fuel+1, widths, hlen, hnn, hfuel => by
      unfold collapseLoop
      cases hs : collapseStep widths wrapable maxWidth with
      | none =>
        simp only
        exact ⟨by first | rfl | trivial, hnn, Int.le_refl _, collapseStep_none widths wrapable maxWidth hlen hnn hany hs, fun h => h⟩
      | some w' =>
        simp only
        obtain ⟨l1, l2, l3, l4⟩ := collapseStep_some widths wrapable maxWidth hlen hnn w' hs
        have hsum0 := sum_nonneg_of_all w' l2
        have ih := collapseLoop_post wrapable maxWidth hany fuel w' (by omega) l2 (by omega)
        simp only at ih
        obtain ⟨i1, i2, i3, i4, i5⟩ := ih
        exact ⟨by omega, i2, by omega, i4, fun _ => i5 l3⟩

theorem collapseWidths_post (widths : List Int) (wrapable : List Bool) (maxWidth : Int)
    (hlen : widths.length = wrapable.length) (hnn : ∀ w ∈ widths, 0 ≤ w) :
    let r := collapseWidths widths wrapable maxWidth
    r.length = widths.length ∧ (∀ w ∈ r, 0 ≤ w) ∧ r.sum ≤ widths.sum ∧
    (wrapable.any id = true → (r.sum ≤ maxWidth ∨ wrapZero r wrapable)) ∧
    (maxWidth ≤ widths.sum → maxWidth ≤ r.sum) := by
  unfold collapseWidths
  split
  · rename_i hany
    have := collapseLoop_post wrapable maxWidth hany (widths.sum.toNat + 1) widths hlen hnn (by omega)
    simp only at this ⊢
    obtain ⟨a, b, c, d, e⟩ := this
    exact ⟨a, b, c, fun _ => d, e⟩
  · rename_i hany
    simp only
    exact ⟨by first | rfl | trivial, hnn, Int.le_refl _, fun h => absurd h hany, fun h => h⟩

theorem exists_zip_of_mem_left {α β : Type} : ∀ (l1 : List α) (l2 : List β), l1.length = l2.length →
    ∀ x ∈ l1, ∃ b, (x, b) ∈ l1.zip l2
  | [], _, _, x, hx => by simp at hx
  | _ :: _, [], h, _, _ => by simp at h
  | a :: l1, b :: l2, h, x, hx => by
      rcases List.mem_cons.mp hx with hx | hx
      · subst hx; exact ⟨b, by simp⟩
      · obtain ⟨b', hb'⟩ := exists_zip_of_mem_left l1 l2 (by simpa using h) x hx
        exact ⟨b', by simp [hb']⟩

theorem sum_zero_of_all_zero : ∀ (l : List Int), (∀ x ∈ l, x = 0) → l.sum = 0
  | [], _ => rfl
  | a :: r, h => by
      simp only [List.sum_cons]
      have := h a (by simp)
      have := sum_zero_of_all_zero r (fun x hx => h x (List.mem_cons_of_mem _ hx))
      omega

/-- If *every* column may wrap, the collapsed widths fit any non-negative budget. -/
theorem collapseWidths_all_wrappable (widths : List Int) (wrapable : List Bool) (maxWidth : Int)
    (hlen : widths.length = wrapable.length) (hnn : ∀ w ∈ widths, 0 ≤ w) (hall : ∀ b ∈ wrapable, b = true)
    (hne : widths ≠ []) (hmw : 0 ≤ maxWidth) :
    (collapseWidths widths wrapable maxWidth).sum ≤ maxWidth := by
  have hany : wrapable.any id = true := by
    cases wrapable with
    | nil => cases widths with
      | nil => exact absurd rfl hne
      | cons _ _ => simp at hlen
    | cons b r => simp [hall b (by simp)]
  obtain ⟨l, _, _, h4, _⟩ := collapseWidths_post widths wrapable maxWidth hlen hnn
  rcases h4 hany with h | h
  · exact h
  · have hl : (collapseWidths widths wrapable maxWidth).length = wrapable.length := by omega
    have hz : ∀ x ∈ collapseWidths widths wrapable maxWidth, x = 0 := by
      intro x hx
      obtain ⟨b, hb⟩ := exists_zip_of_mem_left _ wrapable hl x hx
      exact h (x, b) hb (hall b (List.of_mem_zip hb).2)
    have := sum_zero_of_all_zero _ hz
    omega

/-! ### Measurement -/

theorem Measurement.normalize_ok (m : Measurement) :
    0 ≤ m.normalize.minimum ∧ m.normalize.minimum ≤ m.normalize.maximum := by
  unfold Measurement.normalize; simp only; omega

theorem Measurement.normalize_idem (m : Measurement) : m.normalize.normalize = m.normalize := by
  unfold Measurement.normalize; simp only
  congr 1 <;> omega

/-- Whatever `__rich_measure__` returns (or if it is missing), `Measurement.get` answers
`0 ≤ minimum ≤ maximum ≤ max_width` (and `(0,0)` below one cell). -/
theorem Measurement.getPost_ok (maxWidth : Int) (measured : Option Measurement) :
    0 ≤ (Measurement.getPost maxWidth measured).minimum ∧
    (Measurement.getPost maxWidth measured).minimum ≤ (Measurement.getPost maxWidth measured).maximum ∧
    (Measurement.getPost maxWidth measured).maximum ≤ max maxWidth 0 := by
  unfold Measurement.getPost
  split
  · simp only; omega
  · cases measured with
    | none => simp only; omega
    | some m =>
      simp only
      split
      · simp only; omega
      · unfold Measurement.normalize Measurement.withMaximum; simp only; omega

end RichModel
