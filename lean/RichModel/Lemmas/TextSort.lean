import RichModel.Model.Text
/-!
The three insertion sorts of the Text model (`sortNat`, `sortEvs`, `Py.sortByKey`) are instances of
one generic stable insertion sort; permutation and sortedness are proved once.
-/
namespace RichModel
namespace Text

def insertBy {α : Type} (r : α → α → Bool) (e : α) : List α → List α
  | [] => [e]
  | x :: xs => if r e x then e :: x :: xs else x :: insertBy r e xs

def sortBy {α : Type} (r : α → α → Bool) (l : List α) : List α := l.foldr (insertBy r) []

theorem insertBy_perm {α : Type} (r : α → α → Bool) (e : α) (l : List α) : (insertBy r e l).Perm (e :: l) := by
  induction l with
  | nil => exact List.Perm.refl _
  | cons x xs ih =>
    simp only [insertBy]
    split
    · exact List.Perm.refl _
    · exact (List.Perm.cons x ih).trans (List.Perm.swap e x xs)

theorem sortBy_perm {α : Type} (r : α → α → Bool) (l : List α) : (sortBy r l).Perm l := by
  induction l with
  | nil => exact List.Perm.refl _
  | cons x xs ih =>
    simp only [sortBy, List.foldr_cons]
    exact (insertBy_perm r x _).trans (List.Perm.cons x ih)

theorem insertBy_sorted {α : Type} (r : α → α → Bool)
    (total : ∀ a b, r a b = false → r b a = true) (trans : ∀ a b c, r a b = true → r b c = true → r a c = true)
    (e : α) (l : List α) (h : l.Pairwise (fun a b => r a b = true)) :
    (insertBy r e l).Pairwise (fun a b => r a b = true) := by
  induction l with
  | nil => simp [insertBy]
  | cons x xs ih =>
    simp only [insertBy]
    rw [List.pairwise_cons] at h
    split
    · rename_i hex
      refine List.pairwise_cons.2 ⟨?_, List.pairwise_cons.2 h⟩
      intro y hy
      rcases List.mem_cons.1 hy with rfl | hy
      · exact hex
      · exact trans _ _ _ hex (h.1 y hy)
    · rename_i hex
      refine List.pairwise_cons.2 ⟨?_, ih h.2⟩
      intro y hy
      have := (insertBy_perm r e xs).mem_iff.1 hy
      rcases List.mem_cons.1 this with rfl | hy'
      · exact total _ _ (by simpa using hex)
      · exact h.1 y hy'

theorem sortBy_sorted {α : Type} (r : α → α → Bool)
    (total : ∀ a b, r a b = false → r b a = true) (trans : ∀ a b c, r a b = true → r b c = true → r a c = true)
    (l : List α) : (sortBy r l).Pairwise (fun a b => r a b = true) := by
  induction l with
  | nil => simp [sortBy]
  | cons x xs ih =>
    simp only [sortBy, List.foldr_cons]
    exact insertBy_sorted r total trans x _ ih

/-! ### instances -/

theorem insertNat_eq (n : Nat) (l : List Nat) : insertNat n l = insertBy (fun a b => decide (a ≤ b)) n l := by
  induction l with
  | nil => rfl
  | cons x xs ih => simp only [insertNat, insertBy, ih, decide_eq_true_eq]

theorem sortNat_eq (l : List Nat) : sortNat l = sortBy (fun a b => decide (a ≤ b)) l := by
  induction l with
  | nil => rfl
  | cons x xs ih =>
    simp only [sortNat, sortBy, List.foldr_cons] at ih ⊢
    rw [ih, insertNat_eq]

theorem sortNat_perm (l : List Nat) : (sortNat l).Perm l := by rw [sortNat_eq]; exact sortBy_perm _ l

theorem sortNat_sorted (l : List Nat) : (sortNat l).Pairwise (· ≤ ·) := by
  rw [sortNat_eq]
  have := sortBy_sorted (fun (a b : Nat) => decide (a ≤ b))
    (by intro a b h; simp at h ⊢; omega) (by intro a b c h1 h2; simp at h1 h2 ⊢; omega) l
  exact this.imp (by intro a b h; simpa using h)

/-- sorting is determined by the members when there are no duplicates -/
theorem sortNat_congr (l₁ l₂ : List Nat) (h : l₁.Perm l₂) : sortNat l₁ = sortNat l₂ :=
  List.Perm.eq_of_pairwise (le := (· ≤ ·)) (fun a b _ _ h1 h2 => Nat.le_antisymm h1 h2)
    (sortNat_sorted l₁) (sortNat_sorted l₂) ((sortNat_perm l₁).trans (h.trans (sortNat_perm l₂).symm))

theorem sortNat_of_sorted (l : List Nat) (h : l.Pairwise (· ≤ ·)) : sortNat l = l :=
  List.Perm.eq_of_pairwise (le := (· ≤ ·)) (fun a b _ _ h1 h2 => Nat.le_antisymm h1 h2)
    (sortNat_sorted l) h (sortNat_perm l)

theorem Ev.le_iff (a b : Ev) :
    a.le b = true ↔ a.off < b.off ∨ (a.off = b.off ∧ (a.leaving = false ∨ b.leaving = true)) := by
  simp [Ev.le]

theorem insertEv_eq (e : Ev) (l : List Ev) : insertEv e l = insertBy Ev.le e l := by
  induction l with
  | nil => rfl
  | cons x xs ih => simp only [insertEv, insertBy, ih]

theorem sortEvs_eq (l : List Ev) : sortEvs l = sortBy Ev.le l := by
  induction l with
  | nil => rfl
  | cons x xs ih =>
    simp only [sortEvs, sortBy, List.foldr_cons] at ih ⊢
    rw [ih, insertEv_eq]

theorem sortEvs_perm (l : List Ev) : (sortEvs l).Perm l := by rw [sortEvs_eq]; exact sortBy_perm _ l

theorem sortEvs_sorted (l : List Ev) : (sortEvs l).Pairwise (fun a b => a.le b = true) := by
  rw [sortEvs_eq]
  apply sortBy_sorted
  · intro a b h
    have h' : ¬ (a.le b = true) := by simp [h]
    rw [Ev.le_iff] at h' ⊢
    cases ha : a.leaving <;> cases hb : b.leaving <;> simp [ha, hb] at h' ⊢ <;> omega
  · intro a b c h1 h2
    rw [Ev.le_iff] at h1 h2 ⊢
    cases ha : a.leaving <;> cases hb : b.leaving <;> cases hc : c.leaving <;> simp [ha, hb, hc] at h1 h2 ⊢ <;> omega

theorem insertByKey_eq {α : Type} (key : α → Int) (e : α) (l : List α) :
    Py.insertByKey key e l = insertBy (fun a b => decide (key a ≤ key b)) e l := by
  induction l with
  | nil => rfl
  | cons x xs ih => simp only [Py.insertByKey, insertBy, ih, decide_eq_true_eq]

theorem sortByKey_eq {α : Type} (key : α → Int) (l : List α) :
    Py.sortByKey key l = sortBy (fun a b => decide (key a ≤ key b)) l := by
  induction l with
  | nil => rfl
  | cons x xs ih =>
    simp only [Py.sortByKey, sortBy, List.foldr_cons] at ih ⊢
    rw [ih, insertByKey_eq]

theorem sortByKey_perm {α : Type} (key : α → Int) (l : List α) : (Py.sortByKey key l).Perm l := by
  rw [sortByKey_eq]; exact sortBy_perm _ l

theorem sortByKey_sorted {α : Type} (key : α → Int) (l : List α) :
    (Py.sortByKey key l).Pairwise (fun a b => key a ≤ key b) := by
  rw [sortByKey_eq]
  have := sortBy_sorted (fun (a b : α) => decide (key a ≤ key b))
    (by intro a b h; simp at h ⊢; omega) (by intro a b c h1 h2; simp at h1 h2 ⊢; omega) l
  exact this.imp (by intro a b h; simpa using h)

end Text
end RichModel
