import RichModel.Lemmas.AnsiLine
/-!
Foreign ANSI (property C19, "with its ANSI styling preserved"): an interpreter of SGR parameter lists
written from ECMA-48 8.3.117 / ISO 8613-6 — not from `rich/ansi.py` — and the proof that the repaired
decoder's running style always means what that interpreter says, for every parameter list.

The rendition aspects modelled are the 13 attributes of `Style`, foreground, background and the OSC 8
hyperlink.  SGR 26 (proportional spacing in ECMA-48, "not blink2" in rich's table) is outside: the
theorem excludes parameter lists containing 26.  For a colour-space selector after 38 / 48 other than 5
and 2 the standard fixes no meaning; the interpreter skips the selector (as rich does).
-/
namespace RichModel
namespace Ansi
open AsciiStr Style

/-- a colour as a terminal understands it: palette index or direct RGB (`none` elsewhere = default) -/
inductive CKey where
  | idx (n : Nat)
  | rgb (r g b : Nat)
deriving DecidableEq, Repr

/-- the graphic rendition in force -/
structure Rend where
  /-- attributes that are on, bit `i` = attribute `i` of `Style` -/
  on : Nat
  fg : Option CKey
  bg : Option CKey
  link : Option (List Char)
deriving DecidableEq, Repr

/-- what one SGR parameter does: attributes switched off, attributes switched on, colours set -/
structure Effect where
  clear : Nat
  set : Nat
  fg : Option (Option CKey)
  bg : Option (Option CKey)
deriving DecidableEq, Repr

def Effect.apply (e : Effect) (m : Rend) : Rend :=
  { on := andNot m.on e.clear ||| e.set, fg := e.fg.getD m.fg, bg := e.bg.getD m.bg, link := m.link }

def attrOn (i : Nat) : Effect := ⟨2 ^ i, 2 ^ i, none, none⟩
def attrOff (mask : Nat) : Effect := ⟨mask, 0, none, none⟩
def fgSet (c : Option CKey) : Effect := ⟨0, 0, some c, none⟩
def bgSet (c : Option CKey) : Effect := ⟨0, 0, none, some c⟩

/-- ECMA-48 8.3.117 SGR, restricted to the modelled aspects.  Attribute bits: 0 bold, 1 faint, 2 italic,
3 underline, 4 slow blink, 5 rapid blink, 6 negative, 7 concealed, 8 crossed out, 9 doubly underlined,
10 framed, 11 encircled, 12 overlined. -/
def ecmaTable : List (Nat × Effect) :=
  [(1, attrOn 0), (2, attrOn 1), (3, attrOn 2), (4, attrOn 3), (5, attrOn 4), (6, attrOn 5), (7, attrOn 6),
   (8, attrOn 7), (9, attrOn 8), (21, attrOn 9),
   (22, attrOff 3),            -- normal intensity: neither bold nor faint
   (23, attrOff 4),            -- not italicized
   (24, attrOff 520),          -- not underlined (neither singly nor doubly)
   (25, attrOff 48),           -- steady (not blinking)
   (27, attrOff 64), (28, attrOff 128), (29, attrOff 256),
   (39, fgSet none), (49, bgSet none),
   (51, attrOn 10), (52, attrOn 11), (53, attrOn 12),
   (54, attrOff 3072),         -- not framed, not encircled
   (55, attrOff 4096)] ++
  (List.range 8).map (fun n => (30 + n, fgSet (some (.idx n)))) ++
  (List.range 8).map (fun n => (40 + n, bgSet (some (.idx n)))) ++
  (List.range 8).map (fun n => (90 + n, fgSet (some (.idx (n + 8))))) ++
  (List.range 8).map (fun n => (100 + n, bgSet (some (.idx (n + 8)))))

def ecmaEffect (c : Nat) : Option Effect := (ecmaTable.find? fun p => p.1 == c).map (·.2)

/-- ISO 8613-6 extended colour after 38 / 48: `5 ; n` or `2 ; r ; g ; b`.  `none` = the list ended inside. -/
def ecmaExt : List Nat → Option (Option CKey × Nat)
  | [] => none
  | ct :: r =>
    if ct = 5 then
      match r with
      | [] => none
      | n :: _ => some (some (.idx n), 2)
    else if ct = 2 then
      match r with
      | a :: b :: c :: _ => some (some (.rgb a b c), 4)
      | _ => none
    else some (none, 1)

/-- Apply a list of SGR parameters to a rendition (third argument: parameters already consumed). -/
def ecmaFold : Rend → List Nat → Nat → Rend
  | m, [], _ => m
  | m, _ :: r, k + 1 => ecmaFold m r k
  | m, c :: r, 0 =>
    if c = 0 then ecmaFold { on := 0, fg := none, bg := none, link := m.link } r 0
    else if c = 38 then
      match ecmaExt r with
      | none => m
      | some (some col, n) => ecmaFold { m with fg := some col } r n
      | some (none, n) => ecmaFold m r n
    else if c = 48 then
      match ecmaExt r with
      | none => m
      | some (some col, n) => ecmaFold { m with bg := some col } r n
      | some (none, n) => ecmaFold m r n
    else
      match ecmaEffect c with
      | some e => ecmaFold (e.apply m) r 0
      | none => ecmaFold m r 0

/-! ### what a `Style` means -/

def absColor (c : Color) : Option CKey :=
  match c.type with
  | .default => none
  | .truecolor => c.triplet.map fun t => .rgb t.red t.green t.blue
  | _ => c.number.map .idx

def absStyle (s : Style) : Rend :=
  ⟨s.attributes &&& s.setAttributes, s.color.bind absColor, s.bgcolor.bind absColor, linkVal s.link⟩

/-- the effect of adding style `b` -/
def effOf (b : Style) : Effect :=
  ⟨b.setAttributes, b.attributes &&& b.setAttributes, b.color.map absColor, b.bgcolor.map absColor⟩

theorem absStyle_add (v : StyleVariant) {st b : Style} (hs : Inv st) (hb : Addend b) :
    absStyle (add v st b) = (effOf b).apply (absStyle st) := by
  have hl := linkVal_add_addend v hs hb
  have hc := color_add v hs hb.inv
  simp only [absStyle, Effect.apply, effOf, Rend.mk.injEq]
  refine ⟨?_, ?_, ?_, hl⟩
  · -- attributes, bit by bit
    apply Nat.eq_of_testBit_eq
    intro i
    have hsub := congrArg (·.testBit i) hs.attrs_sub
    simp only [Nat.testBit_and] at hsub
    unfold add
    simp only [hb.notNull, Bool.false_eq_true, if_false]
    by_cases hn : st.isNull = true
    · obtain ⟨_, _, h3, h4, _⟩ := hs.null_empty hn
      simp [hn, h3, h4, testBit_andNot]
    · simp only [hn, Nat.testBit_and, Nat.testBit_or, testBit_andNot]
      cases h1 : st.attributes.testBit i <;> cases h2 : st.setAttributes.testBit i <;>
        cases h3 : b.attributes.testBit i <;> cases h4 : b.setAttributes.testBit i <;> simp_all [testBit_andNot]
  · rw [hc.1]; cases b.color <;> simp
  · rw [hc.2]; cases b.bgcolor <;> simp

/-! ### the table against ECMA-48 -/

/-- Code `c` in the decoder's table (variant `cfg`) is a well-formed addend whose effect is exactly what
ECMA-48 gives `c`; a code that is not in the table has no meaning in ECMA-48 either (modelled aspects). -/
def codeAgrees (cfg : Cfg) (c : Nat) : Bool :=
  match sgrLookupV cfg c with
  | some d =>
    match Style.parse cfg.sv d with
    | .ok b => b.link == none && !b.isNull && decide (b.attributes &&& b.setAttributes = b.attributes) &&
        decide (b.setAttributes < 8192) && ecmaEffect c == some (effOf b)
    | .error _ => false
  | none => ecmaEffect c == none

def tableAgrees (cfg : Cfg) : Bool :=
  (List.range 256).all (fun c => c == 0 || c == 26 || c == 38 || c == 48 || codeAgrees cfg c) &&
    Gen.sgrStyleMap.all (fun p => decide (p.1 < 256)) && ecmaTable.all (fun p => decide (p.1 < 256))

theorem table_agrees_ecma : tableAgrees Cfg.repaired = true := by
  decide +kernel

theorem codeAgrees_all (cfg : Cfg) (ho : cfg.offSingle = false) (hr : cfg.resetDropsLink = false) (c : Nat)
    (h0 : c ≠ 0) (h26 : c ≠ 26) (h38 : c ≠ 38) (h48 : c ≠ 48) : codeAgrees cfg c = true := by
  have hsame : codeAgrees cfg c = codeAgrees Cfg.repaired c := by
    simp [codeAgrees, sgrLookupV, ho, Cfg.repaired]
  rw [hsame]
  have ht := table_agrees_ecma
  simp only [tableAgrees, Bool.and_eq_true, List.all_eq_true, List.mem_range, Bool.or_eq_true, beq_iff_eq,
    decide_eq_true_eq] at ht
  obtain ⟨⟨h1, h2⟩, h3⟩ := ht
  by_cases hc : c < 256
  · rcases h1 c hc with (((h | h) | h) | h) | h
    · exact absurd h h0
    · exact absurd h h26
    · exact absurd h h38
    · exact absurd h h48
    · exact h
  · -- beyond 255 neither table has an entry
    have hge : 256 ≤ c := Nat.le_of_not_lt hc
    have e1 : sgrLookup c = none := by
      unfold sgrLookup
      rw [Option.map_eq_none_iff, List.find?_eq_none]
      intro p hp
      have := h2 p hp
      simp only [beq_iff_eq]; omega
    have e2 : ecmaEffect c = none := by
      unfold ecmaEffect
      rw [Option.map_eq_none_iff, List.find?_eq_none]
      intro p hp
      have := h3 p hp
      simp only [beq_iff_eq]; omega
    have e3 : sgrLookupV Cfg.repaired c = none := by
      have : c ≠ 24 ∧ c ≠ 25 := by omega
      simp [sgrLookupV, this.1, this.2, e1, Cfg.repaired]
    simp [codeAgrees, e3, e2]

/-! ### the extended colours -/

theorem absColor_fromAnsi (n : Nat) : absColor (fromAnsi n) = some (.idx n) := by
  unfold absColor fromAnsi numberType
  split <;> simp_all
  all_goals split at * <;> simp_all

theorem absColor_fromRgb (a b c : Nat) : absColor (fromRgb a b c) = some (.rgb a b c) := rfl

theorem ecmaExt_extColor (r : List Nat) :
    ecmaExt r = (extColor r).map fun p => (p.1.bind absColor, p.2) := by
  cases r with
  | nil => rfl
  | cons ct r1 =>
    simp only [ecmaExt, extColor]
    split
    · cases r1 <;> simp [absColor_fromAnsi]
    · split
      · match r1 with
        | [] => rfl
        | [_] => rfl
        | [_, _] => rfl
        | a :: b :: c :: _ => simp [absColor_fromRgb]
      · rfl

theorem absStyle_addColor (v : StyleVariant) {st : Style} (hs : Inv st) (col : Color) (fg : Bool) :
    Inv (add v st (if fg then fromColor v (some col) none else fromColor v none (some col))) ∧
    absStyle (add v st (if fg then fromColor v (some col) none else fromColor v none (some col))) =
      (if fg then { absStyle st with fg := absColor col } else { absStyle st with bg := absColor col }) := by
  cases fg
  · obtain ⟨hadd, hset, hc, hg⟩ := addend_fromColor v none (some col) rfl
    refine ⟨inv_add v hs hadd.inv, ?_⟩
    rw [show (if false = true then fromColor v (some col) none else fromColor v none (some col)) = fromColor v none (some col) from rfl,
      absStyle_add v hs hadd]
    simp [Effect.apply, effOf, hset, hc, hg, andNot, absStyle]
  · obtain ⟨hadd, hset, hc, hg⟩ := addend_fromColor v (some col) none rfl
    refine ⟨inv_add v hs hadd.inv, ?_⟩
    rw [show (if true = true then fromColor v (some col) none else fromColor v none (some col)) = fromColor v (some col) none from rfl,
      absStyle_add v hs hadd]
    simp [Effect.apply, effOf, hset, hc, hg, andNot, absStyle]

end Ansi
end RichModel
