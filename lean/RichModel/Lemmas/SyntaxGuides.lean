import RichModel.Lemmas.SyntaxRows
/-
Helper lemmas for property C17, part 5: indent guides (`Text.with_indent_guides` between a join and a split)
only overdraw leading spaces, keep every non-blank line in place and lose at most blank lines at the end.
-/
namespace RichModel.Syntax

/-- a line made of spaces only (what `with_indent_guides` treats as blank) -/
def Blank (l : Line) : Prop := l.drop (leadSpaces l) = []

def OnlyGuide (g : Line) : Prop := ∀ c ∈ g, c = ' ' ∨ c = guideChar

/-- `g` shows `l` under indent guides: a blank line becomes spaces/guides only; any other line keeps its length
and everything after its leading spaces, and inside the leading spaces only guide characters may appear. -/
def GuideOf (l g : Line) : Prop :=
  (Blank l ∧ OnlyGuide g) ∨
  (¬ Blank l ∧ g.length = l.length ∧ g.drop (leadSpaces l) = l.drop (leadSpaces l) ∧ OnlyGuide (g.take (leadSpaces l)))

/-- The relation between the lines handed to `indentGuides` and the lines it returns (repaired variant):
as many lines, each showing the line at the same position. -/
structure GuideRel (lines out : List Line) : Prop where
  length_eq : out.length = lines.length
  shown : ∀ i (ho : i < out.length) (hl : i < lines.length), GuideOf lines[i] out[i]

theorem leadSpaces_le (l : Line) : leadSpaces l ≤ l.length := by
  unfold leadSpaces; exact (List.takeWhile_prefix _).length_le

theorem newIndent_length (ts n : Nat) (hts : 1 ≤ ts) : (newIndent ts n).length = n := by
  unfold newIndent
  have h1 : ∀ (k : Nat), ((List.replicate k (guideChar :: List.replicate (ts - 1) ' ')).flatten).length = k * ts := by
    intro k
    induction k with
    | zero => simp
    | succ k ih =>
      rw [List.replicate_succ, List.flatten_cons, List.length_append, ih]
      simp only [List.length_cons, List.length_replicate]
      rw [Nat.succ_mul]; omega
  rw [List.length_append, h1, List.length_replicate]
  exact Nat.div_add_mod' n ts

theorem newIndent_onlyGuide (ts n : Nat) : OnlyGuide (newIndent ts n) := by
  intro c hc
  unfold newIndent at hc
  rcases List.mem_append.mp hc with h | h
  · obtain ⟨blk, hb, hcb⟩ := List.mem_flatten.mp h
    have := List.eq_of_mem_replicate hb
    subst this
    rcases List.mem_cons.mp hcb with h1 | h1
    · exact Or.inr h1
    · exact Or.inl (List.eq_of_mem_replicate h1)
  · exact Or.inl (List.eq_of_mem_replicate h)

theorem newIndent_noNL (ts n : Nat) : '\n' ∉ newIndent ts n := by
  intro h
  rcases newIndent_onlyGuide ts n _ h with h1 | h1
  · exact absurd h1 (by decide)
  · exact absurd h1 (by decide)

theorem onlyGuide_nil : OnlyGuide [] := by intro c hc; cases hc

theorem overdraw (ni l : Line) (n : Nat) (hn : ni.length = n) :
    (ni ++ l.drop n).drop n = l.drop n ∧ (ni ++ l.drop n).take n = ni := by
  subst hn
  exact ⟨List.drop_left, List.take_left⟩

/-- the loop of `with_indent_guides` with `b` pending blank lines -/
theorem guideLoop_spec (ts : Nat) (hts : 1 ≤ ts) : ∀ (Y : List Line) (b : Nat), (∀ l ∈ Y, '\n' ∉ l) →
    ∃ Z, guideLoop ts b Y = .ok Z ∧ Z.length = b + Y.length ∧ (∀ z ∈ Z, '\n' ∉ z) ∧
      (∀ i, i < b → ∃ z, Z[i]? = some z ∧ OnlyGuide z) ∧
      (∀ i y, Y[i]? = some y → ∃ z, Z[b + i]? = some z ∧ GuideOf y z) ∧
      (Y.getLast? = some [] → Z.getLast? = some [])
  | [], b, _ => by
    refine ⟨List.replicate b [], by simp [guideLoop], by simp, ?_, ?_, ?_, by simp⟩
    · intro z hz; rw [List.eq_of_mem_replicate hz]; simp
    · intro i hi; exact ⟨[], by simp [hi], onlyGuide_nil⟩
    · intro i y hy; simp at hy
  | l :: rest, b, hno => by
    have hrest : ∀ l' ∈ rest, '\n' ∉ l' := fun l' h => hno l' (by simp [h])
    have hl : '\n' ∉ l := hno l (by simp)
    by_cases hb : (l.drop (leadSpaces l)).isEmpty = true
    · have hblank : Blank l := by simpa [Blank] using hb
      obtain ⟨Z, hZ, hlen, hnl, hfirst, hrel, hlast⟩ := guideLoop_spec ts hts rest (b + 1) hrest
      refine ⟨Z, by rw [guideLoop]; simp only [hb, if_true]; exact hZ, by simp [hlen]; omega, hnl, ?_, ?_, ?_⟩
      · intro i hi; exact hfirst i (by omega)
      · intro i y hy
        cases i with
        | zero =>
          have : y = l := by simpa using hy.symm
          subst this
          obtain ⟨z, hz, hg⟩ := hfirst b (by omega)
          exact ⟨z, by simpa using hz, Or.inl ⟨hblank, hg⟩⟩
        | succ j =>
          have hy' : rest[j]? = some y := by simpa using hy
          obtain ⟨z, hz, hg⟩ := hrel j y hy'
          refine ⟨z, ?_, hg⟩
          have e : b + (j + 1) = b + 1 + j := by omega
          rw [e]; exact hz
      · intro h
        cases rest with
        | nil =>
          simp [guideLoop] at hZ
          rw [← hZ]; simp [List.replicate_succ']
        | cons r rs =>
          have : (r :: rs).getLast? = some [] := by simpa using h
          exact hlast this
    · have hb' : (l.drop (leadSpaces l)).isEmpty = false := by simpa using hb
      have hnb : ¬ Blank l := by
        intro h; rw [Blank] at h; rw [h] at hb'; simp at hb'
      have hts0 : (ts == 0) = false := by simp; omega
      obtain ⟨R, hR, hlen, hnl, _, hrel, hlast⟩ := guideLoop_spec ts hts rest 0 hrest
      have hni := newIndent_length ts (leadSpaces l) hts
      generalize hnidef : newIndent ts (leadSpaces l) = ni at hni
      have hniG : OnlyGuide ni := by rw [← hnidef]; exact newIndent_onlyGuide _ _
      have hniN : '\n' ∉ ni := by rw [← hnidef]; exact newIndent_noNL _ _
      have hZ : guideLoop ts b (l :: rest) = .ok (List.replicate b ni ++ (ni ++ l.drop ni.length) :: R) := by
        rw [guideLoop]; simp only [hb', hts0, Bool.false_eq_true, if_false, hR, hnidef]
      refine ⟨_, hZ, by simp [hlen], ?_, ?_, ?_, ?_⟩
      · intro z hz
        rcases List.mem_append.mp hz with h | h
        · rw [List.eq_of_mem_replicate h]; exact hniN
        · rcases List.mem_cons.mp h with h1 | h1
          · subst h1
            intro hm
            rcases List.mem_append.mp hm with h2 | h2
            · exact hniN h2
            · exact hl (List.mem_of_mem_drop h2)
          · exact hnl z h1
      · intro i hi
        refine ⟨ni, ?_, hniG⟩
        rw [List.getElem?_append_left (by simpa using hi)]
        simp [hi]
      · intro i y hy
        cases i with
        | zero =>
          have : y = l := by simpa using hy.symm
          subst this
          refine ⟨ni ++ y.drop ni.length, ?_, Or.inr ⟨hnb, ?_, ?_, ?_⟩⟩
          · rw [List.getElem?_append_right (by simp)]; simp
          · have := leadSpaces_le y
            simp only [List.length_append, List.length_drop, hni]; omega
          · rw [hni]; exact (overdraw ni y _ hni).1
          · rw [hni, (overdraw ni y _ hni).2]; exact hniG
        | succ j =>
          have hy' : rest[j]? = some y := by simpa using hy
          obtain ⟨z, hz, hg⟩ := hrel j y hy'
          refine ⟨z, ?_, hg⟩
          rw [List.getElem?_append_right (by simp)]
          have : b + (j + 1) - (List.replicate b ni).length = j + 1 := by simp
          rw [this]
          simpa using hz
      · intro h
        cases rest with
        | nil =>
          simp at h
          subst h
          simp [leadSpaces] at hb'
        | cons r rs =>
          have h' : (r :: rs).getLast? = some [] := by simpa using h
          have := hlast h'
          cases R with
          | nil => simp at hlen
          | cons r0 R0 =>
            rw [List.getLast?_append, List.getLast?_cons_cons, this]; rfl

theorem unlinesT_eq_joinNL : ∀ (X : List Line), X ≠ [] → unlinesT X = joinNL X ++ ['\n']
  | [], h => absurd rfl h
  | [l], _ => by simp [joinNL]
  | l :: l2 :: ls, _ => by
    have ih := unlinesT_eq_joinNL (l2 :: ls) (by simp)
    rw [unlinesT_cons, ih]; simp [joinNL]

/-- `Text("\n").join(X).split("\n")`: `[""]` for no lines, otherwise `X` without an empty last line. -/
theorem textSplit_joinNL (X : List Line) (hX : ∀ l ∈ X, '\n' ∉ l) :
    textSplit (joinNL X) false = if X = [] then [[]] else popBlank X := by
  by_cases h : X = []
  · subst h; simp [joinNL, textSplit]
  · simp only [h, if_false]
    have := textSplit_removeSuffix_unlinesT X h hX
    rwa [unlinesT_eq_joinNL X h, removeSuffixNL_append_nl] at this

theorem popBlank_noNL {X : List Line} (hX : ∀ l ∈ X, '\n' ∉ l) : ∀ l ∈ popBlank X, '\n' ∉ l := by
  intro l hl
  unfold popBlank at hl
  split at hl
  · exact hX l (List.dropLast_subset X hl)
  · exact hX l hl

theorem popBlank_prefix (X : List Line) : popBlank X <+: X := by
  unfold popBlank; split
  · exact List.dropLast_prefix X
  · exact List.prefix_refl X

theorem blank_nil : Blank [] := by simp [Blank]

/-- `Text("\n").join(Z).split("\n", allow_blank=True)` gives `Z` back -/
theorem textSplit_allow_joinNL (Z : List Line) (hne : Z ≠ []) (hZ : ∀ l ∈ Z, '\n' ∉ l) :
    textSplit (joinNL Z) true = Z := by
  have := textSplit_allow_unlinesT Z hne hZ
  rwa [unlinesT_eq_joinNL Z hne, removeSuffixNL_append_nl] at this

/-- `(Text("\n").join(X) + "\n")` split without `allow_blank` (inside `with_indent_guides`) gives `X` back -/
theorem textSplit_joinNL_nl (X : List Line) (hne : X ≠ []) (hX : ∀ l ∈ X, '\n' ∉ l) :
    textSplit (joinNL X ++ ['\n']) false = X := by
  rw [← unlinesT_eq_joinNL X hne]
  unfold textSplit
  have h1 := splitNL_unlinesT_append X [] hX (by simp)
  rw [List.append_nil] at h1
  have h2 : endsNL (unlinesT X) = true := by
    rw [unlinesT_eq_joinNL X hne, endsNL_append_singleton]; rfl
  simp [h1, h2]

/-- `Syntax.__rich_console__`'s indent-guide step (repaired variant), for `tab_size ≥ 1`: never an error, as many
lines out as in, each at its place; only leading spaces are overdrawn.  An empty selection stays empty. -/
theorem indentGuides_spec (ts : Nat) (hts : 1 ≤ ts) (lines : List Line) (hno : ∀ l ∈ lines, '\n' ∉ l) :
    ∃ out, indentGuides false ts lines = .ok out ∧ GuideRel lines out := by
  unfold indentGuides
  simp only [Bool.false_eq_true, if_false]
  by_cases h0 : lines = []
  · subst h0
    exact ⟨[], by simp, ⟨rfl, fun i ho _ => by simp at ho⟩⟩
  · have hemp : lines.isEmpty = false := by
      cases lines with
      | nil => exact absurd rfl h0
      | cons _ _ => rfl
    simp only [hemp, Bool.false_eq_true, if_false]
    rw [textSplit_joinNL_nl lines h0 hno]
    obtain ⟨Z, hZ, hlen, hnl, _, hrel, _⟩ := guideLoop_spec ts hts lines 0 hno
    have hlen' : Z.length = lines.length := by simpa using hlen
    have hZne : Z ≠ [] := by
      intro e; subst e
      exact h0 (List.length_eq_zero_iff.mp (by simpa using hlen'.symm))
    rw [hZ]
    simp only [textSplit_allow_joinNL Z hZne hnl]
    refine ⟨Z, rfl, hlen', ?_⟩
    intro i ho hl
    obtain ⟨z, hz', hg⟩ := hrel i _ (List.getElem?_eq_getElem hl)
    rw [Nat.zero_add, List.getElem?_eq_getElem ho] at hz'
    rw [Option.some.inj hz']; exact hg

end RichModel.Syntax
