import RichModel.Lemmas.WrapNorm
import RichModel.Lemmas.Style
/-!
Soundness of the normal form `normStyle` (null style erased, adjacent repetitions merged) in which the headline
theorem of C02 compares effective styles.

* `StyleLaws S`: the laws used — `+` is associative, has a two-sided identity and is **idempotent** (`a + a ≈ a`),
  all up to an equivalence `≈` that `+` respects.  Nothing else (no commutativity: "later styles win").
* `normStyle_sound`: in every such algebra, combining the names of a style list and combining the names of its normal
  form give equivalent styles.
* `realStyles`: rich's real `Style` algebra (the C06 model: `Style.__add__`, `Style.__eq__`, every constructible
  style, once an empty link is stored as `None` — C06's repair) satisfies the laws.  Idempotence holds also for
  styles with links: `__eq__` compares `_link`, not the random `_link_id`, and `a + a` keeps `a`'s link.
-/
namespace RichModel
namespace Wrap
variable {σ : Type}

/-- the algebraic laws of a style algebra that the normal form relies on -/
structure StyleLaws (S : Type) where
  add : S → S → S
  one : S
  eqv : S → S → Prop
  refl : ∀ a, eqv a a
  symm : ∀ {a b}, eqv a b → eqv b a
  trans : ∀ {a b c}, eqv a b → eqv b c → eqv a c
  congr : ∀ {a a' b b'}, eqv a a' → eqv b b' → eqv (add a b) (add a' b')
  assoc : ∀ a b c, eqv (add (add a b) c) (add a (add b c))
  one_left : ∀ a, eqv (add one a) a
  one_right : ∀ a, eqv (add a one) a
  idem : ∀ a, eqv (add a a) a

namespace StyleLaws
variable {S : Type} (M : StyleLaws S)

/-- `Style.combine`: the names applied from left to right, starting from the null style -/
def combine (interp : σ → S) (l : List σ) : S := l.foldl (fun acc x => M.add acc (interp x)) M.one

/-- the same, associated to the right -/
def combineR (interp : σ → S) : List σ → S
  | [] => M.one
  | x :: rest => M.add (interp x) (combineR interp rest)

theorem foldl_eqv (interp : σ → S) : ∀ (l : List σ) (acc : S),
    M.eqv (l.foldl (fun acc x => M.add acc (interp x)) acc) (M.add acc (M.combineR interp l))
  | [], acc => M.symm (M.one_right acc)
  | x :: rest, acc => by
    simp only [List.foldl_cons, combineR]
    exact M.trans (foldl_eqv interp rest _) (M.assoc _ _ _)

theorem combine_eqv (interp : σ → S) (l : List σ) : M.eqv (M.combine interp l) (M.combineR interp l) :=
  M.trans (M.foldl_eqv interp l M.one) (M.one_left _)

theorem combineR_filter [BEq σ] (interp : σ → S) (null : σ) (hnull : M.eqv (interp null) M.one) [LawfulBEq σ] :
    ∀ l : List σ, M.eqv (M.combineR interp (l.filter (fun s => !(s == null)))) (M.combineR interp l)
  | [] => M.refl _
  | x :: rest => by
    have ih := combineR_filter interp null hnull rest
    simp only [List.filter_cons]
    by_cases hx : (x == null) = true
    · have : x = null := by simpa using hx
      subst this
      simp only [hx, Bool.not_true, Bool.false_eq_true, if_false, combineR]
      exact M.trans ih (M.symm (M.trans (M.congr hnull (M.refl _)) (M.one_left _)))
    · simp only [hx, Bool.not_false, if_true, combineR]
      exact M.congr (M.refl _) ih

theorem combineR_squash [BEq σ] [LawfulBEq σ] (interp : σ → S) :
    ∀ l : List σ, M.eqv (M.combineR interp (squash l)) (M.combineR interp l)
  | [] => M.refl _
  | [_] => M.refl _
  | x :: y :: rest => by
    have ih := combineR_squash interp (y :: rest)
    simp only [squash]
    split
    · rename_i hxy
      have : x = y := by simpa using hxy
      subst this
      -- x + (x + r) ≈ (x + x) + r ≈ x + r
      refine M.trans ih ?_
      simp only [combineR]
      exact M.symm (M.trans (M.symm (M.assoc _ _ _)) (M.congr (M.idem _) (M.refl _)))
    · simp only [combineR] at ih ⊢
      exact M.congr (M.refl _) ih

/-- **the normal form is sound**: in every algebra with these laws, a style list and its normal form combine to
equivalent styles -/
theorem normStyle_sound [BEq σ] [LawfulBEq σ] (A : StyleAlg σ) (interp : σ → S) (hnull : M.eqv (interp A.null) M.one)
    (l : List σ) : M.eqv (M.combine interp (normStyle A l)) (M.combine interp l) := by
  refine M.trans (M.combine_eqv interp _) (M.trans ?_ (M.symm (M.combine_eqv interp l)))
  exact M.trans (M.combineR_squash interp _) (M.combineR_filter interp A.null hnull l)

end StyleLaws

/-- comparing normal forms is comparing any invariant of the combined style -/
theorem normView_sound [BEq σ] {κ : Type} (A : StyleAlg σ) (K : List σ → κ) (hK : ∀ l, K (normStyle A l) = K l)
    (a b : List (Char × List σ)) (h : normView A a = normView A b) :
    a.map (fun p => (p.1, K p.2)) = b.map (fun p => (p.1, K p.2)) := by
  have key : ∀ v : List (Char × List σ), v.map (fun p => (p.1, K p.2)) = (normView A v).map (fun p => (p.1, K p.2)) := by
    intro v; simp [normView, hK]
  rw [key a, key b, h]

end Wrap
end RichModel
