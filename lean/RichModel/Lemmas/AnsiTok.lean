import RichModel.Model.Ansi
/-!
Lemmas about `_ansi_tokenize` (property C19): how the tokenizer reads text without escapes and the
two kinds of sequences the encoder writes.  Core Lean only.
-/
namespace RichModel
namespace Ansi

theorem ESC_ne_bracket : ESC ≠ '[' := by decide
theorem bracket_ne_close : ('[' : Char) ≠ ']' := by decide

/-! ### `remove_csi` -/

theorem removeCsiAux_noEsc (s : List Char) (h : ∀ c ∈ s, c ≠ ESC) : removeCsiAux s 0 = s := by
  induction s with
  | nil => rfl
  | cons c r ih =>
    have hc : c ≠ ESC := h c (by simp)
    simp only [removeCsiAux, hc, if_false]
    rw [ih (fun x hx => h x (by simp [hx]))]

theorem removeCsi_noEsc (s : List Char) (h : ∀ c ∈ s, c ≠ ESC) : removeCsi s = s :=
  removeCsiAux_noEsc s h

/-! ### skipping and plain text -/

theorem tokAux_skip (lazy bel : Bool) (p rest acc : List Char) : tokAux lazy bel (p ++ rest) p.length acc = tokAux lazy bel rest 0 acc := by
  induction p with
  | nil => rfl
  | cons c r ih => simpa [tokAux] using ih

theorem tokAux_plain (lazy bel : Bool) (p rest acc : List Char) (h : ∀ c ∈ p, c ≠ ESC) :
    tokAux lazy bel (p ++ rest) 0 acc = tokAux lazy bel rest 0 (acc ++ p) := by
  induction p generalizing acc with
  | nil => simp
  | cons c r ih =>
    have hc : c ≠ ESC := h c (by simp)
    simp only [List.cons_append, tokAux, hc, if_false]
    rw [ih _ (fun x hx => h x (by simp [hx]))]
    simp

/-! ### the two lazy scans -/

theorem isSgrParam_ne {c : Char} (h : isSgrParam c = true) : c ≠ 'm' ∧ c ≠ '\n' := by
  constructor <;> (intro hc; subst hc; revert h; decide)

theorem findLazyM_body (body rest : List Char) (h : ∀ c ∈ body, c ≠ 'm' ∧ c ≠ '\n') :
    findLazyM (body ++ 'm' :: rest) = some body := by
  induction body with
  | nil => simp [findLazyM]
  | cons c r ih =>
    obtain ⟨h1, h2⟩ := h c (by simp)
    simp only [List.cons_append, findLazyM, h1, h2, if_false]
    rw [ih (fun x hx => h x (by simp [hx]))]
    rfl

theorem findSgrM_body (body rest : List Char) (h : ∀ c ∈ body, isSgrParam c = true) :
    findSgrM (body ++ 'm' :: rest) = some body := by
  induction body with
  | nil => simp [findSgrM]
  | cons c r ih =>
    have hc := h c (by simp)
    have h1 := (isSgrParam_ne hc).1
    simp only [List.cons_append, findSgrM, h1, hc, if_false, if_true]
    rw [ih (fun x hx => h x (by simp [hx]))]
    rfl

/-- an SGR parameter string is found by both forms of the pattern -/
theorem findM_body (lazy : Bool) (body rest : List Char) (h : ∀ c ∈ body, isSgrParam c = true) :
    findM lazy (body ++ 'm' :: rest) = some body := by
  cases lazy
  · exact findSgrM_body body rest h
  · exact findLazyM_body body rest (fun c hc => isSgrParam_ne (h c hc))

theorem findST_body (bel : Bool) (body rest : List Char) (h : ∀ c ∈ body, c ≠ ESC ∧ c ≠ '\n' ∧ c ≠ BEL) :
    findST bel (body ++ ESC :: '\\' :: rest) = some (body, 2) := by
  induction body with
  | nil => simp [findST]
  | cons c r ih =>
    obtain ⟨h1, h2, h3⟩ := h c (by simp)
    simp only [List.cons_append, findST, h1, h2, h3, false_and, and_false, if_false]
    rw [ih (fun x hx => h x (by simp [hx]))]
    rfl

/-- repaired (F33): an OSC string ended by BEL -/
theorem findST_body_bel (body rest : List Char) (h : ∀ c ∈ body, c ≠ ESC ∧ c ≠ '\n' ∧ c ≠ BEL) :
    findST true (body ++ BEL :: rest) = some (body, 1) := by
  induction body with
  | nil =>
    have : ¬ (BEL = ESC ∧ rest.head? = some '\\') := by intro ⟨h, _⟩; revert h; decide
    simp [findST, this]
  | cons c r ih =>
    obtain ⟨h1, h2, h3⟩ := h c (by simp)
    simp only [List.cons_append, findST, h1, h2, h3, false_and, and_false, if_false]
    rw [ih (fun x hx => h x (by simp [hx]))]
    rfl

/-! ### the sequences the encoder writes -/

theorem tokAux_sgr (lazy bel : Bool) (body rest acc : List Char) (h : ∀ c ∈ body, isSgrParam c = true) :
    tokAux lazy bel (ESC :: '[' :: (body ++ 'm' :: rest)) 0 acc = flushPlain acc ++ .sgr body :: tokAux lazy bel rest 0 [] := by
  have hs := tokAux_skip lazy bel (body ++ ['m']) rest []
  simp only [List.append_assoc, List.singleton_append, List.length_append, List.length_cons,
    List.length_nil, Nat.zero_add] at hs
  simp only [tokAux, if_true, findM_body lazy body rest h]
  rw [hs]

theorem tokAux_osc (lazy bel : Bool) (body rest acc : List Char) (h : ∀ c ∈ body, c ≠ ESC ∧ c ≠ '\n' ∧ c ≠ BEL) :
    tokAux lazy bel (ESC :: ']' :: (body ++ ESC :: '\\' :: rest)) 0 acc =
      flushPlain acc ++ .osc body :: tokAux lazy bel rest 0 [] := by
  have hs := tokAux_skip lazy bel (body ++ [ESC, '\\']) rest []
  simp only [List.append_assoc, List.cons_append, List.nil_append, List.length_append, List.length_cons,
    List.length_nil, Nat.zero_add] at hs
  have hne : (']' : Char) ≠ '[' := by decide
  simp only [tokAux, if_true, hne, if_false, findST_body bel body rest h]
  rw [hs]

/-- repaired (F33): `ESC ] body BEL` is an OSC token too -/
theorem tokAux_osc_bel (lazy : Bool) (body rest acc : List Char) (h : ∀ c ∈ body, c ≠ ESC ∧ c ≠ '\n' ∧ c ≠ BEL) :
    tokAux lazy true (ESC :: ']' :: (body ++ BEL :: rest)) 0 acc =
      flushPlain acc ++ .osc body :: tokAux lazy true rest 0 [] := by
  have hs := tokAux_skip lazy true (body ++ [BEL]) rest []
  simp only [List.append_assoc, List.cons_append, List.nil_append, List.length_append, List.length_cons,
    List.length_nil, Nat.zero_add] at hs
  have hne : (']' : Char) ≠ '[' := by decide
  simp only [tokAux, if_true, hne, if_false, findST_body_bel body rest h]
  rw [hs]

/-! ### `rsplit("\r", 1)[-1]` -/

theorem afterLastCR_foldl (s acc : List Char) (h : ∀ c ∈ s, c ≠ '\r') :
    s.foldl (fun acc c => if c = '\r' then [] else acc ++ [c]) acc = acc ++ s := by
  induction s generalizing acc with
  | nil => simp
  | cons c r ih =>
    have hc : c ≠ '\r' := h c (by simp)
    simp only [List.foldl_cons, hc, if_false]
    rw [ih _ (fun x hx => h x (by simp [hx]))]
    simp

theorem afterLastCRAsFound_noCR (s : List Char) (h : ∀ c ∈ s, c ≠ '\r') : afterLastCRAsFound s = s := by
  simpa [afterLastCRAsFound] using afterLastCR_foldl s [] h

theorem rstripCR_noCR (s : List Char) (h : ∀ c ∈ s, c ≠ '\r') : rstripCR s = s := by
  unfold rstripCR
  have : s.reverse.dropWhile (· = '\r') = s.reverse := by
    cases hr : s.reverse with
    | nil => rfl
    | cons c r =>
      have hc : c ≠ '\r' := h c (by rw [← List.mem_reverse, hr]; simp)
      simp [List.dropWhile, hc]
  rw [this, List.reverse_reverse]

/-- a line without carriage returns is taken as it is, in both variants -/
theorem afterLastCR_noCR (b : Bool) (s : List Char) (h : ∀ c ∈ s, c ≠ '\r') : afterLastCR b s = s := by
  unfold afterLastCR
  split
  · exact afterLastCRAsFound_noCR s h
  · rw [rstripCR_noCR s h]; exact afterLastCRAsFound_noCR s h

/-- repaired (F31): trailing carriage returns (CR LF line ends) erase nothing -/
theorem afterLastCR_trailing (s : List Char) (h : ∀ c ∈ s, c ≠ '\r') (k : Nat) :
    afterLastCR false (s ++ List.replicate k '\r') = s := by
  have hstrip : rstripCR (s ++ List.replicate k '\r') = s := by
    unfold rstripCR
    rw [List.reverse_append, List.reverse_replicate]
    have h1 : ∀ (k : Nat) (t : List Char), (List.replicate k '\r' ++ t).dropWhile (· = '\r') = t.dropWhile (· = '\r') := by
      intro k t
      induction k with
      | zero => rfl
      | succ n ih => simp [List.replicate_succ, ih]
    rw [h1]
    have := rstripCR_noCR s h
    unfold rstripCR at this
    exact this
  simp only [afterLastCR, Bool.false_eq_true, if_false, hstrip]
  exact afterLastCRAsFound_noCR s h

theorem rstripCR_append_CRs (x : List Char) (k : Nat) : rstripCR (x ++ List.replicate k '\r') = rstripCR x := by
  unfold rstripCR
  rw [List.reverse_append, List.reverse_replicate]
  have h1 : ∀ (k : Nat) (t : List Char), (List.replicate k '\r' ++ t).dropWhile (· = '\r') = t.dropWhile (· = '\r') := by
    intro k t
    induction k with
    | zero => rfl
    | succ n ih => simp [List.replicate_succ, ih]
  rw [h1]

theorem rstripCR_last (y : List Char) (c : Char) (hc : c ≠ '\r') : rstripCR (y ++ [c]) = y ++ [c] := by
  unfold rstripCR
  simp [List.reverse_append, hc]

/-- repaired (F31): of a line with carriage returns inside, exactly the text after the last carriage return that
is followed by text is kept — `pre ⏎ seg ⏎…⏎` (seg non-empty, without CR) goes on as `seg`, whatever `pre` is. -/
theorem afterLastCR_last_segment (pre seg : List Char) (hs : ∀ c ∈ seg, c ≠ '\r') (hne : seg ≠ []) (k : Nat) :
    afterLastCR false (pre ++ '\r' :: (seg ++ List.replicate k '\r')) = seg := by
  have hstrip : rstripCR (pre ++ '\r' :: (seg ++ List.replicate k '\r')) = pre ++ '\r' :: seg := by
    have e : pre ++ '\r' :: (seg ++ List.replicate k '\r') = (pre ++ '\r' :: seg) ++ List.replicate k '\r' := by simp
    rw [e, rstripCR_append_CRs]
    obtain ⟨y, c, hyc⟩ : ∃ y c, seg = y ++ [c] := by
      cases hl : seg.reverse with
      | nil => simp at hl; exact absurd hl hne
      | cons c r => exact ⟨r.reverse, c, by rw [← List.reverse_reverse seg, hl]; simp⟩
    have hc : c ≠ '\r' := hs c (by rw [hyc]; simp)
    have e2 : pre ++ '\r' :: seg = (pre ++ '\r' :: y) ++ [c] := by rw [hyc]; simp
    rw [e2, rstripCR_last _ c hc]
  simp only [afterLastCR, Bool.false_eq_true, if_false, hstrip, afterLastCRAsFound, List.foldl_append, List.foldl_cons,
    if_true]
  simpa using afterLastCR_foldl seg [] hs

end Ansi
end RichModel
