import RichModel.Model.Ansi
/-!
Lemmas about `_ansi_tokenize` (property C19): how the tokenizer reads text without escapes and the
two kinds of sequences the encoder writes.  Core Lean only.
-/
namespace RichModel
namespace Ansi

theorem ESC_ne_bracket : ESC ≠ '[' := by decide
theorem bracket_ne_close : ('[' : Char) ≠ ']' := by decide

/-! ### `remove_csi` -/

theorem removeCsiAux_noEsc (s : List Char) (h : ∀ c ∈ s, c ≠ ESC) : removeCsiAux s 0 = s := by
  induction s with
  | nil => rfl
  | cons c r ih =>
    have hc : c ≠ ESC := h c (by simp)
    simp only [removeCsiAux, hc, if_false]
    rw [ih (fun x hx => h x (by simp [hx]))]

theorem removeCsi_noEsc (s : List Char) (h : ∀ c ∈ s, c ≠ ESC) : removeCsi s = s :=
  removeCsiAux_noEsc s h

/-! ### skipping and plain text -/

theorem tokAux_skip (p rest acc : List Char) : tokAux (p ++ rest) p.length acc = tokAux rest 0 acc := by
  induction p with
  | nil => rfl
  | cons c r ih => simpa [tokAux] using ih

theorem tokAux_plain (p rest acc : List Char) (h : ∀ c ∈ p, c ≠ ESC) :
    tokAux (p ++ rest) 0 acc = tokAux rest 0 (acc ++ p) := by
  induction p generalizing acc with
  | nil => simp
  | cons c r ih =>
    have hc : c ≠ ESC := h c (by simp)
    simp only [List.cons_append, tokAux, hc, if_false]
    rw [ih _ (fun x hx => h x (by simp [hx]))]
    simp

/-! ### the two lazy scans -/

theorem findM_body (body rest : List Char) (h : ∀ c ∈ body, c ≠ 'm' ∧ c ≠ '\n') :
    findM (body ++ 'm' :: rest) = some body := by
  induction body with
  | nil => simp [findM]
  | cons c r ih =>
    obtain ⟨h1, h2⟩ := h c (by simp)
    simp only [List.cons_append, findM, h1, h2, if_false]
    rw [ih (fun x hx => h x (by simp [hx]))]
    rfl

theorem findST_body (body rest : List Char) (h : ∀ c ∈ body, c ≠ ESC ∧ c ≠ '\n') :
    findST (body ++ ESC :: '\\' :: rest) = some body := by
  induction body with
  | nil => simp [findST]
  | cons c r ih =>
    obtain ⟨h1, h2⟩ := h c (by simp)
    simp only [List.cons_append, findST, h1, h2, false_and, if_false]
    rw [ih (fun x hx => h x (by simp [hx]))]
    rfl

/-! ### the sequences the encoder writes -/

theorem tokAux_sgr (body rest acc : List Char) (h : ∀ c ∈ body, c ≠ 'm' ∧ c ≠ '\n') :
    tokAux (ESC :: '[' :: (body ++ 'm' :: rest)) 0 acc = flushPlain acc ++ .sgr body :: tokAux rest 0 [] := by
  have hs := tokAux_skip (body ++ ['m']) rest []
  simp only [List.append_assoc, List.singleton_append, List.length_append, List.length_cons,
    List.length_nil, Nat.zero_add] at hs
  simp only [tokAux, if_true, findM_body body rest h]
  rw [hs]

theorem tokAux_osc (body rest acc : List Char) (h : ∀ c ∈ body, c ≠ ESC ∧ c ≠ '\n') :
    tokAux (ESC :: ']' :: (body ++ ESC :: '\\' :: rest)) 0 acc =
      flushPlain acc ++ .osc body :: tokAux rest 0 [] := by
  have hs := tokAux_skip (body ++ [ESC, '\\']) rest []
  simp only [List.append_assoc, List.cons_append, List.nil_append, List.length_append, List.length_cons,
    List.length_nil, Nat.zero_add] at hs
  have hne : (']' : Char) ≠ '[' := by decide
  simp only [tokAux, if_true, hne, if_false, findST_body body rest h]
  rw [hs]

/-! ### `rsplit("\r", 1)[-1]` -/

theorem afterLastCR_foldl (s acc : List Char) (h : ∀ c ∈ s, c ≠ '\r') :
    s.foldl (fun acc c => if c = '\r' then [] else acc ++ [c]) acc = acc ++ s := by
  induction s generalizing acc with
  | nil => simp
  | cons c r ih =>
    have hc : c ≠ '\r' := h c (by simp)
    simp only [List.foldl_cons, hc, if_false]
    rw [ih _ (fun x hx => h x (by simp [hx]))]
    simp

theorem afterLastCR_noCR (s : List Char) (h : ∀ c ∈ s, c ≠ '\r') : afterLastCR s = s := by
  simpa [afterLastCR] using afterLastCR_foldl s [] h

end Ansi
end RichModel
