import RichModel.Lemmas.Progress
/-!
Sequential histories of the progress model: the specification-level reading of a history
(`lastSet`, `advSince`), and the invariants behind `speed` / `time_remaining`.
-/
namespace RichModel.Progress

/-! ## sequentially the place of the clock read does not matter -/

theorem step_eq_body_none (cfg : Cfg) (clock : Clock) (op : Op) (st : State) :
    step cfg clock op st = body cfg clock op none st := by
  unfold step preRead
  cases hco : cfg.clockOutside
  · cases op <;> simp [Op.readsOutside, hco]
  · cases op with
    | advance i a =>
      simp only [Op.readsOutside, hco, if_true]
      simp only [body, Op.target, nowOf, clkOnError, taskEffect]
    | reset i r =>
      simp only [Op.readsOutside, hco, if_true]
      simp only [body, Op.target, nowOf, clkOnError, taskEffect]
    | addTask => simp [Op.readsOutside]
    | startTask => simp [Op.readsOutside]
    | stopTask => simp [Op.readsOutside]
    | update => simp [Op.readsOutside]
    | removeTask => simp [Op.readsOutside]
    | refresh => simp [Op.readsOutside]
    | start => simp [Op.readsOutside]
    | stop => simp [Op.readsOutside]

/-- one sequential operation gives the same result in both code variants -/
theorem step_variant_irrelevant (cfg : Cfg) (b : Bool) (clock : Clock) (op : Op) (st : State) :
    step { cfg with clockOutside := b } clock op st = step cfg clock op st := by
  rw [step_eq_body_none, step_eq_body_none]
  cases op <;> rfl

theorem body_clk_ge (cfg : Cfg) (clock : Clock) (op : Op) (st : State) :
    st.clk ≤ (body cfg clock op none st).st.clk := by
  by_cases hrm : ∃ i, op = .removeTask i
  · obtain ⟨i, rfl⟩ := hrm
    simp only [body]; cases lookup st.tasks i <;> exact Nat.le_refl _
  · have hr : ∀ i, op ≠ .removeTask i := fun i hi => hrm ⟨i, hi⟩
    cases htg : op.target with
    | none =>
      cases op with
      | addTask a => simp only [body]; split <;> omega
      | refresh => simp [body]
      | start => simp only [body]; split <;> simp
      | stop => simp only [body]; split <;> simp
      | removeTask i => exact absurd rfl (hr i)
      | startTask i => simp [Op.target] at htg
      | stopTask i => simp [Op.target] at htg
      | update i u => simp [Op.target] at htg
      | reset i => simp [Op.target] at htg
      | advance i a => simp [Op.target] at htg
    | some j =>
      rw [body_target cfg clock op none st j htg hr]
      cases hl : lookup st.tasks j with
      | none =>
        simp only [clkOnError]
        cases op <;> simp [nowOf]
      | some x => exact taskEffect_clk_ge _ _ _ _ _ _ _

/-! ## the statement-level reading of a history -/

/-- the value an operation explicitly sets `completed` of task `id` to, if it does -/
def setValue (id : Nat) : Op → Option Int
  | .update i u => if i = id then u.completed else none
  | .reset i r => if i = id then some r.completed else none
  | _ => none

/-- the amount an operation advances task `id` by -/
def advValue (id : Nat) : Op → Int
  | .advance i a => if i = id then a else 0
  | .update i u => if i = id then u.advance.getD 0 else 0
  | _ => 0

/-- last explicitly set value (starting from `init`) -/
def lastSet (id : Nat) (init : Int) (ops : List Op) : Int :=
  ops.foldl (fun v op => (setValue id op).getD v) init

/-- sum of the advances since the last explicit set (starting from `acc`) -/
def advSince (id : Nat) (acc : Int) (ops : List Op) : Int :=
  ops.foldl (fun a op => if (setValue id op).isSome then 0 else a + advValue id op) acc

theorem setValue_untouched {id : Nat} {op : Op} (h : op.target ≠ some id) :
    setValue id op = none ∧ advValue id op = 0 := by
  cases op <;> simp_all [Op.target, setValue, advValue]

theorem taskEffect_completed (cfg : Cfg) (clock : Clock) (op : Op) (pre : Option Int) (o : Nat) (t : Task) (k : Nat)
    (id : Nat) (h : op.target = some id) :
    (taskEffect cfg clock op pre o t k).1.completed =
      match setValue id op with
      | some v => v
      | none => t.completed + advValue id op := by
  cases op with
  | addTask => simp [Op.target] at h
  | removeTask i => simp [taskEffect, setValue, advValue]
  | startTask i => simp only [taskEffect, setValue, advValue]; split <;> simp
  | stopTask i => simp [taskEffect, setValue, advValue]
  | update i u =>
    simp only [Op.target, Option.some.injEq] at h; subst h
    simp only [taskEffect, Task.updateBody, finishCheck_completed, applyUpd_completed, setValue, advValue, if_true]
    cases u.completed <;> simp
  | reset i r =>
    simp only [Op.target, Option.some.injEq] at h; subst h
    simp [taskEffect, Task.resetBody, setValue]
  | refresh => simp [Op.target] at h
  | start => simp [Op.target] at h
  | stop => simp [Op.target] at h
  | advance i a =>
    simp only [Op.target, Option.some.injEq] at h; subst h
    simp [taskEffect, Task.advanceBody, setValue, advValue]

theorem completed_exact_aux (cfg : Cfg) (clock : Clock) (ops : List Op) :
    ∀ (st : State), WF st → ∀ (id : Nat) (t : Task) (v a : Int),
      lookup st.tasks id = some t → t.completed = v + a →
      ∀ t', lookup (run cfg clock ops st).tasks id = some t' →
        t'.completed = lastSet id v ops + advSince id a ops := by
  induction ops with
  | nil =>
    intro st _ id t v a h hc t' h'
    simp only [run] at h'
    rw [h] at h'; cases h'
    simpa [lastSet, advSince] using hc
  | cons op ops ih =>
    intro st hwf id t v a h hc t' h'
    simp only [run] at h'
    have hs := step_WF cfg clock op st hwf
    have hid : id < st.nextId := (lookup_some h).2 ▸ hwf t (lookup_some h).1
    simp only [lastSet, advSince, List.foldl_cons]
    rcases step_lookup cfg clock op st hwf id t h with ⟨_, hn⟩ | ⟨htg, _, hl, _⟩ | ⟨htg, hl⟩
    · have := run_lookup_none cfg clock ops _ hs.1 id (Nat.lt_of_lt_of_le hid hs.2) hn
      rw [this] at h'; cases h'
    · have hcomp := taskEffect_completed cfg clock op (preRead cfg clock op st).1
        (visCount (st.tasks.filter (fun x => x.id != id))) t
        (preRead cfg clock op st).2.clk id htg
      cases hsv : setValue id op with
      | none =>
        simp only [hsv] at hcomp
        have := ih _ hs.1 id _ v (a + advValue id op) hl (by unfold taskAfter; rw [hcomp, hc]; simp only [Int.add_assoc]) t' h'
        simpa [lastSet, advSince] using this
      | some x =>
        simp only [hsv] at hcomp
        have := ih _ hs.1 id _ x 0 hl (by unfold taskAfter; rw [hcomp]; simp) t' h'
        simpa [lastSet, advSince] using this
    · have hu := setValue_untouched htg
      have := ih _ hs.1 id t v a hl hc t' h'
      simpa [lastSet, advSince, hu.1, hu.2] using this

/-- a task that no operation removes stays in the table -/
theorem run_lookup_some (cfg : Cfg) (clock : Clock) (ops : List Op) :
    ∀ (st : State), WF st → ∀ (id : Nat) (t : Task), lookup st.tasks id = some t →
      (∀ op ∈ ops, op ≠ .removeTask id) → ∃ t', lookup (run cfg clock ops st).tasks id = some t' := by
  induction ops with
  | nil => intro st _ id t h _; exact ⟨t, h⟩
  | cons op ops ih =>
    intro st hwf id t h hno
    have hs := step_WF cfg clock op st hwf
    simp only [run]
    rcases step_lookup cfg clock op st hwf id t h with ⟨hrm, _⟩ | ⟨_, _, hl, _⟩ | ⟨_, hl⟩
    · exact absurd hrm (hno op (List.mem_cons_self))
    · exact ih _ hs.1 id _ hl (fun o ho => hno o (List.mem_cons_of_mem _ ho))
    · exact ih _ hs.1 id _ hl (fun o ho => hno o (List.mem_cons_of_mem _ ho))

/-! ## finish time -/

/-- operations after which a recorded finish time may change: reset, or an update giving a total -/
def clearsFinish (id : Nat) : Op → Bool
  | .reset i .. => i == id
  | .update i u => i == id && u.total.isSome
  | _ => false

theorem taskEffect_keeps_finish (cfg : Cfg) (clock : Clock) (op : Op) (pre : Option Int) (o : Nat) (t : Task) (k : Nat)
    (id : Nat) (v : Int) (htg : op.target = some id) (hc : clearsFinish id op = false)
    (hf : t.finishedTime = some v) : (taskEffect cfg clock op pre o t k).1.finishedTime = some v := by
  cases op with
  | addTask => simp [Op.target] at htg
  | removeTask i => simpa [taskEffect] using hf
  | startTask i => simp only [taskEffect]; split <;> simpa using hf
  | stopTask i => simpa [taskEffect] using hf
  | update i u =>
    simp only [Op.target, Option.some.injEq] at htg; subst htg
    simp only [clearsFinish, beq_self_eq_true, Bool.true_and] at hc
    simp only [taskEffect, Task.updateBody]
    apply finishCheck_keeps
    simp only [applyUpd_finishedTime, hc]
    simpa using hf
  | reset i r =>
    simp only [Op.target, Option.some.injEq] at htg; subst htg
    simp [clearsFinish] at hc
  | refresh => simp [Op.target] at htg
  | start => simp [Op.target] at htg
  | stop => simp [Op.target] at htg
  | advance i a =>
    simp only [taskEffect, Task.advanceBody]
    apply finishCheck_keeps
    simpa using hf

theorem finish_time_stable_aux (cfg : Cfg) (clock : Clock) (ops : List Op) :
    ∀ (st : State), WF st → ∀ (id : Nat) (t : Task) (v : Int),
      lookup st.tasks id = some t → t.finishedTime = some v →
      (∀ op ∈ ops, clearsFinish id op = false) →
      ∀ t', lookup (run cfg clock ops st).tasks id = some t' → t'.finishedTime = some v := by
  induction ops with
  | nil => intro st _ id t v h hf _ t' h'; simp only [run] at h'; rw [h] at h'; cases h'; exact hf
  | cons op ops ih =>
    intro st hwf id t v h hf hno t' h'
    simp only [run] at h'
    have hs := step_WF cfg clock op st hwf
    have hid : id < st.nextId := (lookup_some h).2 ▸ hwf t (lookup_some h).1
    have hno' : ∀ o ∈ ops, clearsFinish id o = false := fun o ho => hno o (List.mem_cons_of_mem _ ho)
    rcases step_lookup cfg clock op st hwf id t h with ⟨_, hn⟩ | ⟨htg, _, hl, _⟩ | ⟨_, hl⟩
    · have := run_lookup_none cfg clock ops _ hs.1 id (Nat.lt_of_lt_of_le hid hs.2) hn
      rw [this] at h'; cases h'
    · exact ih _ hs.1 id _ v hl
        (taskEffect_keeps_finish cfg clock op _ _ t _ id v htg (hno op List.mem_cons_self) hf) hno' t' h'
    · exact ih _ hs.1 id t v hl hf hno' t' h'

end RichModel.Progress
