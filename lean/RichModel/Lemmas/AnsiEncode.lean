import RichModel.Lemmas.AnsiColor
/-!
`_make_ansi_codes` as a whole (property C19): the parameter list written for a style, and the style the
decoder reaches by reading it.
-/
namespace RichModel
namespace Ansi
open AsciiStr Style

/-- The colours of the style are in the form the public constructors build. -/
def canonStyle (s : Style) : Bool :=
  (match s.color with | some c => canon c | none => true) &&
  (match s.bgcolor with | some c => canon c | none => true)

theorem colorPart_spec (cfg : Cfg) (oc : Option Color) (hc : (match oc with | some c => canon c | none => true) = true)
    (fg : Bool) :
    ∃ nums : List Nat,
      optColorCodes oc fg = .ok (nums.map natStr) ∧
      (∀ n ∈ nums, n < 256) ∧ (nums = [] ↔ oc = none) ∧
      ∀ (st : Style) (r : List Nat), Inv st →
        ∃ st', applyCodes cfg st (nums ++ r) 0 = applyCodes cfg st' r 0 ∧ Inv st' ∧ (∀ j, st'.attr j = st.attr j) ∧
          st'.color = (if fg then (oc.map decColor).or st.color else st.color) ∧
          st'.bgcolor = (if fg then st.bgcolor else (oc.map decColor).or st.bgcolor) ∧
          linkVal st'.link = linkVal st.link ∧ (st.isNull = false → st'.isNull = false) ∧
          (oc ≠ none → st'.isNull = false) ∧ (oc = none → st' = st) := by
  cases oc with
  | none =>
    refine ⟨[], rfl, by simp, by simp, ?_⟩
    intro st r hinv
    exact ⟨st, rfl, hinv, fun _ => rfl, by cases fg <;> simp, by cases fg <;> simp, rfl, id, by simp, fun _ => rfl⟩
  | some c =>
    obtain ⟨nums, h1, h2, h3, h4⟩ := colorCodes_spec cfg c hc fg
    refine ⟨nums, h1, h2, by simp [h3], ?_⟩
    intro st r hinv
    obtain ⟨st', e, hi, ha, hcc, hg, hl, hn⟩ := h4 st r hinv
    refine ⟨st', e, hi, ha, ?_, ?_, hl, fun _ => hn, fun _ => hn, by simp⟩
    · rw [hcc]; cases fg <;> simp
    · rw [hg]; cases fg <;> simp

/-- The numbers the decoder reads from the parameter list of `s`, and where they take it. -/
theorem makeAnsiCodes_spec (cfg : Cfg) (s : Style) (hs : Inv s) (hcan : canonStyle s = true) :
    ∃ ps : List (List Char × Nat), makeAnsiCodes s = .ok (joinWith ';' (ps.map (·.1))) ∧ PList ps ∧
      (ps = [] → (s.attributes &&& s.setAttributes = 0 ∧ s.color = none ∧ s.bgcolor = none)) ∧
      ∀ st : Style, Inv st → st.color = none → st.bgcolor = none → (∀ j, st.attr j = none) →
        ∃ st', applyCodes cfg st (ps.map (·.2)) 0 = (st', none) ∧ Inv st' ∧
          (∀ j, st'.attr j = if (s.attributes &&& s.setAttributes).testBit j then some true else none) ∧
          st'.color = s.color.map decColor ∧ st'.bgcolor = s.bgcolor.map decColor ∧
          linkVal st'.link = linkVal st.link ∧ (st.isNull = false → st'.isNull = false) ∧
          (ps ≠ [] → st'.isNull = false) ∧ (ps = [] → st' = st) := by
  simp only [canonStyle, Bool.and_eq_true] at hcan
  obtain ⟨bs, hb1, hb2, hb3⟩ := attrCodes_spec cfg.sv (s.attributes &&& s.setAttributes)
  obtain ⟨f, hf1, hf2, hf3, hf4⟩ := colorPart_spec cfg s.color hcan.1 true
  obtain ⟨g, hg1, hg2, hg3, hg4⟩ := colorPart_spec cfg s.bgcolor hcan.2 false
  have hA : s.attributes &&& s.setAttributes < 8192 := Nat.lt_of_le_of_lt Nat.and_le_right hs.set_lt
  have hmem : ∀ j, j ∈ bs.map (·.1) ↔ (s.attributes &&& s.setAttributes).testBit j = true := by
    intro j
    rw [hb3, List.mem_filter, List.mem_range]
    constructor
    · exact fun h => h.2
    · intro h
      refine ⟨?_, h⟩
      by_cases hj : j < 13
      · exact hj
      · have := testBit_false_of_lt_8192 hA (Nat.le_of_not_lt hj)
        rw [this] at h; cases h
  refine ⟨bs.map (fun x => (x.2.1, x.2.2)) ++ f.map (fun n => (natStr n, n)) ++ g.map (fun n => (natStr n, n)), ?_, ?_, ?_, ?_⟩
  · unfold makeAnsiCodes
    rw [hb1]
    simp only
    rw [hf1]
    simp only
    rw [hg1]
    simp [List.map_map, Function.comp_def]
  · intro p hp
    simp only [List.mem_append] at hp
    rcases hp with (hp | hp) | hp
    · simp only [List.mem_map] at hp
      obtain ⟨x, hx, rfl⟩ := hp
      exact (hb2 x hx).2.2.1
    · exact plist_of_lt f hf2 p hp
    · exact plist_of_lt g hg2 p hp
  · intro hnil
    simp only [List.append_eq_nil_iff, List.map_eq_nil_iff] at hnil
    obtain ⟨⟨hbs, hfn⟩, hgn⟩ := hnil
    refine ⟨?_, hf3.mp hfn, hg3.mp hgn⟩
    apply Nat.eq_of_testBit_eq
    intro j
    rw [Nat.zero_testBit]
    by_cases h : (s.attributes &&& s.setAttributes).testBit j = true
    · have := (hmem j).mpr h
      rw [hbs] at this; simp at this
    · simpa using h
  · intro st hinv hc0 hg0 ha0
    obtain ⟨s1, e1, i1, a1, c1, g1, l1, n1, nn1, eq1⟩ :=
      applyCodes_attrs cfg bs hb2 st hinv (f ++ (g ++ []))
    obtain ⟨s2, e2, i2, a2, c2, g2, l2, n2, nn2, eq2⟩ := hf4 s1 (g ++ []) i1
    obtain ⟨s3, e3, i3, a3, c3, g3, l3, n3, nn3, eq3⟩ := hg4 s2 [] i2
    refine ⟨s3, ?_, i3, ?_, ?_, ?_, ?_, ?_, ?_, ?_⟩
    · have : (bs.map (fun x => (x.2.1, x.2.2)) ++ f.map (fun n => (natStr n, n)) ++ g.map (fun n => (natStr n, n))).map (·.2)
          = bs.map (·.2.2) ++ (f ++ (g ++ [])) := by
        simp [List.map_map, Function.comp_def]
      rw [this, e1, e2, e3]
      simp [applyCodes]
    · intro j
      rw [a3, a2, a1, ha0 j]
      by_cases h : (s.attributes &&& s.setAttributes).testBit j = true
      · simp [(hmem j).mpr h, h]
      · have : ¬ j ∈ bs.map (·.1) := fun hj => h ((hmem j).mp hj)
        simp [this, h]
    · rw [c3, c2, c1, hc0]; simp
    · rw [g3, g2, g1, hg0]; simp
    · rw [l3, l2, l1]
    · exact fun h => n3 (n2 (n1 h))
    · intro hne
      by_cases hbs : bs = []
      · by_cases hfn : f = []
        · have hgn : g ≠ [] := by
            intro hgn; apply hne; simp [hbs, hfn, hgn]
          exact nn3 (fun h => hgn (hg3.mpr h))
        · exact n3 (nn2 (fun h => hfn (hf3.mpr h)))
      · exact n3 (n2 (nn1 hbs))
    · intro hnil
      simp only [List.append_eq_nil_iff, List.map_eq_nil_iff] at hnil
      obtain ⟨⟨hbs, hfn⟩, hgn⟩ := hnil
      rw [eq3 (hg3.mp hgn), eq2 (hf3.mp hfn), eq1 hbs]

end Ansi
end RichModel
