import RichModel.Model.Table
import RichModel.Lemmas.Cells
/-!
Helper lemmas for the table renderer (`Model/Table.lean`): widths of joined parts, rule lines, shaped
cells; the structure of `renderRow` / `renderBody`.
-/
namespace RichModel

/-! ### joinSep -/

theorem cellLen_nil (cw : Char → Nat) : cellLen cw [] = 0 := rfl

theorem cellLen_joinSep (cw : Char → Nat) (sep : List Char) : ∀ (parts : List (List Char)),
    cellLen cw (joinSep sep parts) = (parts.map (cellLen cw)).sum + (parts.length - 1) * cellLen cw sep
  | [] => by simp [joinSep, cellLen]
  | [x] => by simp [joinSep]
  | x :: y :: rest => by
    have ih := cellLen_joinSep cw sep (y :: rest)
    simp only [joinSep, cellLen_append, ih, List.map_cons, List.sum_cons, List.length_cons]
    have : (rest.length + 1 + 1 - 1) * cellLen cw sep = cellLen cw sep + (rest.length + 1 - 1) * cellLen cw sep := by
      simp only [Nat.add_sub_cancel]; rw [Nat.add_mul]; omega
    omega

/-- Column `j` of a joined line sits at a known cell offset: everything before it is the earlier parts and
one separator per earlier part. -/
theorem joinSep_split (cw : Char → Nat) (sep : List Char) : ∀ (parts : List (List Char)) (j : Nat) (hj : j < parts.length),
    ∃ pre post, joinSep sep parts = pre ++ parts[j] ++ post ∧
      cellLen cw pre = ((parts.take j).map (cellLen cw)).sum + j * cellLen cw sep
  | [], j, hj => by simp at hj
  | [x], j, hj => by
    have : j = 0 := by simp at hj; omega
    subst this
    exact ⟨[], [], by simp [joinSep], by simp [cellLen]⟩
  | x :: y :: rest, 0, _ => ⟨[], sep ++ joinSep sep (y :: rest), by simp [joinSep], by simp [cellLen]⟩
  | x :: y :: rest, j + 1, hj => by
    have hj' : j < (y :: rest).length := by simp at hj ⊢; omega
    obtain ⟨pre, post, h1, h2⟩ := joinSep_split cw sep (y :: rest) j hj'
    refine ⟨x ++ sep ++ pre, post, ?_, ?_⟩
    · simp only [joinSep, h1, List.getElem_cons_succ, List.append_assoc]
    · simp only [cellLen_append, h2, List.take_succ_cons, List.map_cons, List.sum_cons]
      rw [Nat.add_mul]; omega

/-! ### box rows -/

/-- The characters of a box row all occupy one cell. -/
def BoxRow.wf (cw : Char → Nat) (r : BoxRow) : Prop := cw r.l = 1 ∧ cw r.h = 1 ∧ cw r.d = 1 ∧ cw r.r = 1

instance (cw : Char → Nat) (r : BoxRow) : Decidable (r.wf cw) := by unfold BoxRow.wf; exact inferInstance

/-- Every character of the box occupies one cell (the side condition proved for the generated boxes). -/
def Box.wf (cw : Char → Nat) (b : Box) : Prop :=
  b.top.wf cw ∧ b.head.wf cw ∧ b.headRow.wf cw ∧ b.mid.wf cw ∧ b.row.wf cw ∧ b.footRow.wf cw ∧ b.foot.wf cw ∧ b.bottom.wf cw

instance (cw : Char → Nat) (b : Box) : Decidable (b.wf cw) := by unfold Box.wf; exact inferInstance

theorem Box.levelChars_wf (cw : Char → Nat) (hsp : cw ' ' = 1) (b : Box) (h : b.wf cw) (lv : RowLevel) : (b.levelChars lv).wf cw := by
  obtain ⟨_, _, h3, h4, h5, h6, _, _⟩ := h
  cases lv
  · exact h3
  · exact h5
  · exact ⟨h4.1, hsp, h4.2.2.1, h4.2.2.2⟩
  · exact h6

theorem Box.rowChars_wf (cw : Char → Nat) (b : Box) (h : b.wf cw) (first last : Bool) : (b.rowChars first last).wf cw := by
  obtain ⟨_, h2, _, h4, _, _, h7, _⟩ := h
  unfold Box.rowChars
  split
  · exact h2
  · split
    · exact h4
    · exact h7

theorem sum_map_replicate (cw : Char → Nat) (c : Char) (hc : cw c = 1) : ∀ (widths : List Nat),
    ((widths.map (fun w => List.replicate w c)).map (cellLen cw)).sum = widths.sum
  | [] => rfl
  | w :: ws => by
    simp only [List.map_cons, List.sum_cons, cellLen_replicate, hc, Nat.mul_one, sum_map_replicate cw c hc ws]

/-- The cell width every body line of a table with `n ≥ 1` columns has: the edge characters, the
column widths and one divider between neighbours. -/
def lineWidth (edge : Bool) (sepLen : Nat) (widths : List Nat) : Nat :=
  (if edge then 2 else 0) + widths.sum + (widths.length - 1) * sepLen

theorem ruleLine_width (cw : Char → Nat) (tag : LineTag) (chars : BoxRow) (h : chars.wf cw) (edge : Bool) (widths : List Nat) :
    cellLen cw (ruleLine tag chars edge widths).once = lineWidth edge 1 widths := by
  obtain ⟨hl, hh, hd, hr⟩ := h
  unfold ruleLine BodyLine.once lineWidth
  simp only [cellLen_append, cellLen_joinSep, sum_map_replicate cw _ hh, List.length_map]
  cases edge <;> simp [cellLen, hl, hd, hr] <;> omega

theorem text_of_rep_one (l : BodyLine) (h : l.rep = 1) : l.text = l.once := by
  unfold BodyLine.text; rw [h]; simp

theorem ruleLine_rep (tag : LineTag) (chars : BoxRow) (edge : Bool) (widths : List Nat) : (ruleLine tag chars edge widths).rep = 1 := rfl

/-! ### shaped cells -/

theorem shapeCell_length (cw : Char → Nat) (w h : Nat) (lines : List (List Char)) :
    (shapeCell cw w h lines).length = max h lines.length := by
  unfold shapeCell; simp; omega

/-- Every line of a shaped cell is exactly `w` cells wide. -/
theorem shapeCell_width (cw : Char → Nat) (hsp : cw ' ' = 1) (h2 : ∀ c, cw c ≤ 2) (w h : Nat) (lines : List (List Char)) :
    ∀ l ∈ shapeCell cw w h lines, cellLen cw l = w := by
  intro l hl
  unfold shapeCell at hl
  rcases List.mem_append.1 hl with hl | hl
  · obtain ⟨x, _, rfl⟩ := List.mem_map.1 hl
    exact (setCellSize_exact cw hsp h2 x w).1
  · have := List.eq_of_mem_replicate hl
    rw [this, cellLen_replicate, hsp, Nat.mul_one]

/-- `set_cell_size` leaves a text of exactly the requested width alone. -/
theorem setCellSize_id (cw : Char → Nat) (s : List Char) (w : Nat) (h : cellLen cw s = w) : setCellSize cw s w = s := by
  unfold setCellSize; simp [h]

/-- Line `k` of a shaped cell: the cell's own `k`-th rendered line, verbatim, when it has one of the right
width (what real `render_lines` guarantees); blank otherwise. -/
theorem shapeCell_getD (cw : Char → Nat) (w h : Nat) (lines : List (List Char)) (hw : ∀ l ∈ lines, cellLen cw l = w) (k : Nat) (hk : k < h) :
    (shapeCell cw w h lines).getD k [] = if hl : k < lines.length then lines[k] else List.replicate w ' ' := by
  unfold shapeCell
  have hmap : lines.map (fun l => setCellSize cw l w) = lines := by
    have : lines.map (fun l => setCellSize cw l w) = lines.map id :=
      List.map_congr_left (fun l hl => setCellSize_id cw l w (hw l hl))
    rw [this, List.map_id]
  rw [hmap]
  split
  · rename_i hl
    simp [List.getD_eq_getElem?_getD, List.getElem?_append_left hl, hl]
  · rename_i hl
    have hl' : lines.length ≤ k := by omega
    simp only [List.getD_eq_getElem?_getD, List.getElem?_append_right hl']
    have : k - lines.length < h - lines.length := by omega
    simp [this]

theorem rowHeight_ge (rendered : List (List (List Char))) : 1 ≤ rowHeight rendered ∧ ∀ l ∈ rendered, l.length ≤ rowHeight rendered := by
  unfold rowHeight
  suffices h : ∀ (xs : List (List (List Char))) (a : Nat), a ≤ xs.foldl (fun m l => max m l.length) a ∧
      ∀ l ∈ xs, l.length ≤ xs.foldl (fun m l => max m l.length) a from h rendered 1
  intro xs
  induction xs with
  | nil => intro a; simp
  | cons x xs ih =>
    intro a
    simp only [List.foldl_cons]
    obtain ⟨h1, h2⟩ := ih (max a x.length)
    refine ⟨by omega, ?_⟩
    intro l hl
    rcases List.mem_cons.1 hl with rfl | hl
    · omega
    · exact h2 l hl

/-- The parts of cell line `k < h` of a row: one per column, each exactly its column's width. -/
theorem shapeRow_parts (cw : Char → Nat) (hsp : cw ' ' = 1) (h2 : ∀ c, cw c ≤ 2) (widths : List Nat) (row : List Cell)
    (hlen : row.length = widths.length) (k : Nat) (hk : k < (shapeRow cw widths row).1) :
    (((shapeRow cw widths row).2.map (fun c => c.getD k [])).map (cellLen cw)) = widths := by
  unfold shapeRow at hk ⊢
  simp only at hk ⊢
  generalize hR : (widths.zip row).map (fun wc => wc.2.renderLines wc.1) = rendered at hk ⊢
  have hRl : rendered.length = widths.length := by rw [← hR]; simp [hlen]
  generalize rowHeight rendered = h at hk ⊢
  clear hR
  induction widths generalizing rendered row with
  | nil => simp
  | cons w ws ih =>
    cases rendered with
    | nil => simp at hRl
    | cons r rs =>
      simp only [List.zip_cons_cons, List.map_cons, List.cons.injEq]
      refine ⟨?_, ?_⟩
      · apply shapeCell_width cw hsp h2 w h r
        rw [List.getD_eq_getElem?_getD]
        have : k < (shapeCell cw w h r).length := by rw [shapeCell_length]; omega
        rw [List.getElem?_eq_getElem this]
        simp
      · cases row with
        | nil => simp at hlen
        | cons c cs =>
          exact ih cs (by simpa using hlen) rs (by simpa using hRl)

end RichModel
