import RichModel.Lemmas.Color
import RichModel.Lemmas.ColorExtra
import RichModel.Model.ColorMore
/-!
Lemmas for `Model/ColorMore.lean` (property C18, fourth deepening): the saturation decision against
exact arithmetic, `blend_rgb` in doubles / over rationals, `parse_rgb_hex` on arbitrary strings,
`is_default` / `is_system_defined`.  Core Lean only.
-/
namespace RichModel

/-! ## the saturation decision -/

theorem satExc_facts : ∀ p ∈ satExcDouble, p.1 ≠ p.2 ∧ satLowExact p.1 p.2 = false := by decide

/-- **For every triplet (no bound on the components)** the model's saturation decision is the exact
rational one, except exactly at the nine tabulated (max, min) pairs. -/
theorem satLow_eq_rat_iff (t : Triplet) :
    satLow satExcDouble t = satLowRat t ↔ (t.maxc, t.minc) ∉ satExcDouble := by
  unfold satLow satLowRat
  by_cases hm : t.maxc = t.minc
  · simp only [hm, if_true, decide_true, Bool.true_or, true_iff]
    intro hmem
    exact (satExc_facts _ hmem).1 rfl
  · simp only [hm, if_false, decide_false, Bool.false_or]
    rw [← List.contains_iff_mem]
    cases satLowExact t.maxc t.minc <;> cases List.contains satExcDouble (t.maxc, t.minc) <;> simp

/-- …and at those pairs the double computation says "grey" where the exact one says "not grey". -/
theorem satLow_at_exception (t : Triplet) (h : (t.maxc, t.minc) ∈ satExcDouble) :
    satLow satExcDouble t = true ∧ satLowRat t = false := by
  obtain ⟨hne, hex⟩ := satExc_facts _ h
  simp only at hne hex
  have hc : satExcDouble.contains (t.maxc, t.minc) = true := List.contains_iff_mem.2 h
  unfold satLow satLowRat
  simp [hne, hex, h]

/-! ## `is_default`, `is_system_defined` -/

theorem isSystemDefined_iff (c : Color) :
    c.isSystemDefined = true ↔ c.type = .default ∨ c.type = .standard ∨ c.type = .windows := by
  obtain ⟨name, type, number, triplet⟩ := c
  cases type <;> simp [Color.isSystemDefined, Color.system] <;> decide

theorem isDefault_iff (c : Color) : c.isDefault = true ↔ c.type = .default := by
  obtain ⟨name, type, number, triplet⟩ := c
  cases type <;> simp [Color.isDefault] <;> decide

theorem inGamut16_systemDefined (r : Color) (sys : ColorSystem) (hsys : sys = .standard ∨ sys = .windows)
    (h : r.InGamut sys) : r.isSystemDefined = true := by
  rw [isSystemDefined_iff]
  rcases hsys with rfl | rfl <;> simp only [Color.InGamut] at h <;> rcases h.2 with h | h <;> simp [h]

/-! ## `parse_rgb_hex` on arbitrary strings -/

theorem intTranslate_ascii (runs : List (Nat × Nat × Nat)) (spaces : List Nat) (c : Char) (h : c.toNat < 128) :
    intTranslate runs spaces c = some c := by
  simp [intTranslate, h]

theorem pyIntHex2U_ascii (a b : Char) (ha : a.toNat < 128) (hb : b.toNat < 128) : pyIntHex2U a b = pyIntHex2 a b := by
  simp [pyIntHex2U, intTranslate_ascii, ha, hb]

theorem parseRgbHexU_len (s : List Char) (h : s.length ≠ 6) : parseRgbHexU s = .error .assertionError := by
  unfold parseRgbHexU
  split
  · simp at h
  · rfl

theorem parseRgbHexU_ascii (s : List Char) (h : ∀ c ∈ s, c.toNat < 128) : parseRgbHexU s = parseRgbHex s := by
  by_cases hl : s.length = 6
  · match s, hl with
    | [a, b, c, d, e, f], _ =>
      simp only [parseRgbHexU, parseRgbHex]
      rw [pyIntHex2U_ascii a b (h a (by simp)) (h b (by simp)),
          pyIntHex2U_ascii c d (h c (by simp)) (h d (by simp)),
          pyIntHex2U_ascii e f (h e (by simp)) (h f (by simp))]
  · rw [parseRgbHexU_len s hl, parseRgbHex_len s hl]

/-! ## `blend_rgb` over rationals -/

theorem blendChannel_eq_Q (c1 c2 : Nat) (k : Int) (n : Nat) :
    blendChannel c1 c2 k n = blendChannelQ c1 c2 k (2 ^ n) := rfl

theorem blendChannelQ_range (c1 c2 : Nat) (num : Int) (den : Nat) (hden : 0 < den) (h0 : 0 ≤ num) (h1 : num ≤ (den : Int)) :
    ((min c1 c2 : Nat) : Int) ≤ blendChannelQ c1 c2 num den ∧ blendChannelQ c1 c2 num den ≤ ((max c1 c2 : Nat) : Int) := by
  unfold blendChannelQ
  have hD : (0 : Int) < (den : Int) := by exact_mod_cast hden
  generalize (den : Int) = D at *
  rcases Nat.le_total c1 c2 with hle | hle
  · have hd : (0 : Int) ≤ (c2 : Int) - c1 := by omega
    have hlo : (c1 : Int) * D ≤ c1 * D + ((c2 : Int) - c1) * num := by
      have := Int.mul_nonneg hd h0; omega
    have hhi : (c1 : Int) * D + ((c2 : Int) - c1) * num ≤ c2 * D := by
      have := Int.mul_le_mul_of_nonneg_left h1 hd
      have e : (c2 : Int) * D = c1 * D + (c2 - c1) * D := by rw [Int.sub_mul]; omega
      omega
    have hnn : (0 : Int) ≤ c1 * D + ((c2 : Int) - c1) * num := by
      have := Int.mul_nonneg (Int.natCast_nonneg c1) (Int.le_of_lt hD); omega
    rw [Int.tdiv_eq_ediv_of_nonneg hnn]
    rw [Nat.min_eq_left hle, Nat.max_eq_right hle]
    constructor
    · exact (Int.le_ediv_iff_mul_le hD).2 hlo
    · exact Int.ediv_le_of_le_mul hD hhi
  · have hd : (0 : Int) ≤ (c1 : Int) - c2 := by omega
    have hhi : (c1 : Int) * D + ((c2 : Int) - c1) * num ≤ c1 * D := by
      have := Int.mul_nonneg hd h0
      have e1 : ((c2 : Int) - c1) * num = -(((c1 : Int) - c2) * num) := by rw [← Int.neg_mul]; congr 1; omega
      omega
    have hlo : (c2 : Int) * D ≤ c1 * D + ((c2 : Int) - c1) * num := by
      have := Int.mul_le_mul_of_nonneg_left h1 hd
      have e1 : ((c2 : Int) - c1) * num = -(((c1 : Int) - c2) * num) := by rw [← Int.neg_mul]; congr 1; omega
      have e : (c1 : Int) * D = c2 * D + (c1 - c2) * D := by rw [Int.sub_mul]; omega
      omega
    have hnn : (0 : Int) ≤ c1 * D + ((c2 : Int) - c1) * num := by
      have := Int.mul_nonneg (Int.natCast_nonneg c2) (Int.le_of_lt hD); omega
    rw [Int.tdiv_eq_ediv_of_nonneg hnn]
    rw [Nat.min_eq_right hle, Nat.max_eq_left hle]
    constructor
    · exact (Int.le_ediv_iff_mul_le hD).2 hlo
    · exact Int.ediv_le_of_le_mul hD hhi

/-! ## `blend_rgb` in doubles -/

theorem rnd53_of_lt (n : Nat) (h : n < 2 ^ 53) : rnd53 n = n := by
  simp [rnd53, h]

theorem rndI_of_small (x : Int) (h : x.natAbs < 2 ^ 53) : rndI x = x := by
  unfold rndI
  rw [rnd53_of_lt _ h]
  split <;> omega

/-- When neither float operation rounds (both exact intermediate values have fewer than 54 bits in units
of `2^-cs`), the double computation **is** the exact rational one. -/
theorem blendChannelF_eq_Q (c1 c2 : Nat) (cn : Int) (cs : Nat)
    (hp : ((((c2 : Int) - (c1 : Int)) * cn).natAbs) < 2 ^ 53)
    (hs : (((c1 : Int) * ((2 ^ cs : Nat) : Int) + ((c2 : Int) - (c1 : Int)) * cn).natAbs) < 2 ^ 53) :
    blendChannelF c1 c2 cn cs = blendChannelQ c1 c2 cn (2 ^ cs) := by
  unfold blendChannelF blendChannelQ
  simp only [rndI_of_small _ hp, rndI_of_small _ hs]

theorem blendChannelF_zero (c1 c2 cs : Nat) (h : c1 ≤ 255) (hcs : cs ≤ 44) : blendChannelF c1 c2 0 cs = c1 := by
  have h2 : (2 : Nat) ^ cs ≤ 2 ^ 44 := Nat.pow_le_pow_right (by omega) hcs
  have hb : c1 * 2 ^ cs < 2 ^ 53 := by
    calc c1 * 2 ^ cs ≤ 255 * 2 ^ 44 := Nat.mul_le_mul h h2
      _ < 2 ^ 53 := by decide
  rw [blendChannelF_eq_Q c1 c2 0 cs (by simp) (by
    simp only [Int.mul_zero, Int.add_zero]
    have : ((c1 : Int) * ((2 ^ cs : Nat) : Int)).natAbs = c1 * 2 ^ cs := by
      rw [← Int.natCast_mul]; exact Int.natAbs_natCast _
    omega)]
  rw [← blendChannel_eq_Q]
  exact blendChannel_zero c1 c2 cs

end RichModel
