import RichModel.Lemmas.LayoutBase
import RichModel.Lemmas.Ratio
/-!
C09, first part: whatever a renderable tree is, `Measurement.get` reports `0 ≤ minimum ≤ maximum ≤ available`.
-/
namespace RichModel.Layout
open RichModel RichModel.Frames

/-- `0 ≤ minimum ≤ maximum ≤ w` -/
def Normal (m : Measurement) (w : Nat) : Prop := 0 ≤ m.minimum ∧ m.minimum ≤ m.maximum ∧ m.maximum ≤ (w : Int)

theorem normal_getPost (w : Nat) (m : Option Measurement) : Normal (Measurement.getPost (w : Int) m) w := by
  have h := Measurement.getPost_ok (w : Int) m
  refine ⟨h.1, h.2.1, ?_⟩
  have := h.2.2
  omega

theorem normal_poison (cfg : Cfg) (w : Nat) : Normal (poisonMeasure cfg w) w := normal_getPost w _

/-- **measure_normal** for every renderable tree and every available width `w ≥ 1` (the guard for `w < 1` is `measureGet`). -/
theorem measure_normal (cfg : Cfg) : ∀ (r : R) (w : Nat), Normal (measure cfg r w) w
  | .text t, w => by rw [measure]; exact normal_getPost w _
  | .str t, w => by rw [measure]; exact normal_getPost w _
  | .padding p e c, w => by rw [measure]; exact normal_getPost w _
  | .panel o c, w => by
    rw [measure]
    split
    · exact normal_getPost w _
    · exact normal_poison cfg w
  | .align o c, w => by rw [measure]; exact normal_getPost w _
  | .constrain k c, w => by rw [measure]; exact normal_getPost w _
  | .styled c, w => by rw [measure]; exact normal_getPost w _
  | .cast c, w => by
    by_cases h : ∃ t, c = .str t
    · obtain ⟨t, rfl⟩ := h
      rw [measure]; exact normal_getPost w _
    · rw [measure]
      · exact measure_normal cfg c w
      · intro t ht; exact h ⟨t, ht⟩
  | .opaque c, w => by rw [measure]; exact normal_getPost w _
  | .group fit items, w => by rw [measure]; exact normal_getPost w _
  | .rule o, w => by rw [measure]; exact normal_getPost w _
  | .bar o, w => by rw [measure]; exact normal_getPost w _
  | .progressBar o, w => by rw [measure]; exact normal_getPost w _
  | .table o cols, w => by
    rw [measure, tableMeasure]
    split
    · exact normal_poison cfg w
    · exact normal_getPost w _
  | .columns o items, w => by rw [measure]; exact normal_getPost w _
  | .tree root, w => by rw [measure]; exact normal_getPost w _

theorem measureGet_normal (cfg : Cfg) (r : R) (w : Int) :
    0 ≤ (measureGet cfg r w).minimum ∧ (measureGet cfg r w).minimum ≤ (measureGet cfg r w).maximum ∧
      (measureGet cfg r w).maximum ≤ max w 0 := by
  unfold measureGet
  split
  · simp; omega
  · have h := measure_normal cfg r w.toNat
    obtain ⟨h1, h2, h3⟩ := h
    refine ⟨h1, h2, ?_⟩
    omega

/-- the child oracle of a subtree has a sound measurement at every Python int -/
theorem chOf_measureAt (cfg : Cfg) (r : R) (o : Opts) (k : Int) :
    0 ≤ ((chOf cfg r o).measureAt k).maximum ∧ ((chOf cfg r o).measureAt k).maximum ≤ max k 0 := by
  unfold Child.measureAt chOf
  split
  · simp; omega
  · have h := measure_normal cfg r k.toNat
    obtain ⟨h1, h2, h3⟩ := h
    simp only
    constructor <;> omega

/-! ### a fitted group reports the largest minimum and the largest maximum among its members -/

theorem getPost_of_normal (w : Nat) (m : Measurement) (h : Normal m w) : Measurement.getPost (w : Int) (some m) = m := by
  obtain ⟨h1, h2, h3⟩ := h
  cases m with
  | mk a b =>
    simp only at h1 h2 h3
    unfold Measurement.getPost Measurement.normalize Measurement.withMaximum
    simp only
    split
    · have : a = 0 := by omega
      have : b = 0 := by omega
      subst_vars; rfl
    · split
      · rename_i hlt
        have hb : b = 0 := by omega
        have ha : a = 0 := by omega
        subst_vars; rfl
      · congr 1 <;> omega

theorem measureL_normal (cfg : Cfg) : ∀ (items : List R) (w : Nat), ∀ m ∈ measureL cfg items w, Normal m w
  | [], _, m, h => by simp [measureL] at h
  | r :: rs, w, m, h => by
    rw [measureL] at h
    rcases List.mem_cons.mp h with rfl | h
    · exact measure_normal cfg r w
    · exact measureL_normal cfg rs w m h

theorem measureL_ne_nil (cfg : Cfg) (items : List R) (w : Nat) (h : items ≠ []) : measureL cfg items w ≠ [] := by
  cases items with
  | nil => exact absurd rfl h
  | cons r rs => rw [measureL]; simp

theorem group_measure_is_max (cfg : Cfg) (items : List R) (w : Nat) (hne : items ≠ []) :
    measure cfg (.group true items) w =
      ⟨listMax ((measureL cfg items w).map (·.minimum)), listMax ((measureL cfg items w).map (·.maximum))⟩ := by
  rw [measure]
  have hn := measureL_ne_nil cfg items w hne
  have hN := measureL_normal cfg items w
  generalize measureL cfg items w = ms at hn hN
  have hemp : ms.isEmpty = false := by cases ms with | nil => exact absurd rfl hn | cons _ _ => rfl
  simp only [if_true, measureRenderables, hemp, Bool.false_eq_true, if_false]
  apply getPost_of_normal
  have hmin := listMax_mem (ms.map (·.minimum)) (by simpa using hn)
  have hmax := listMax_mem (ms.map (·.maximum)) (by simpa using hn)
  obtain ⟨m1, hm1, e1⟩ := List.mem_map.mp hmin
  obtain ⟨m2, hm2, e2⟩ := List.mem_map.mp hmax
  obtain ⟨a1, a2, a3⟩ := hN m1 hm1
  obtain ⟨b1, b2, b3⟩ := hN m2 hm2
  have hle : m1.maximum ≤ listMax (ms.map (·.maximum)) := listMax_ge _ _ (List.mem_map.mpr ⟨m1, hm1, rfl⟩)
  refine ⟨?_, ?_, ?_⟩ <;> simp only <;> omega
end RichModel.Layout
