import RichModel.Lemmas.LayoutBase
import RichModel.Lemmas.Ratio
/-!
C09, first part: whatever a renderable tree is, `Measurement.get` reports `0 ≤ minimum ≤ maximum ≤ available`.
-/
namespace RichModel.Layout
open RichModel RichModel.Frames

/-- `0 ≤ minimum ≤ maximum ≤ w` -/
def Normal (m : Measurement) (w : Nat) : Prop := 0 ≤ m.minimum ∧ m.minimum ≤ m.maximum ∧ m.maximum ≤ (w : Int)

theorem normal_getPost (w : Nat) (m : Option Measurement) : Normal (Measurement.getPost (w : Int) m) w := by
  have h := Measurement.getPost_ok (w : Int) m
  refine ⟨h.1, h.2.1, ?_⟩
  have := h.2.2
  omega

theorem normal_poison (cfg : Cfg) (w : Nat) : Normal (poisonMeasure cfg w) w := normal_getPost w _

/-- **measure_normal** for every renderable tree and every available width `w ≥ 1` (the guard for `w < 1` is `measureGet`). -/
theorem measure_normal (cfg : Cfg) : ∀ (r : R) (w : Nat), Normal (measure cfg r w) w
  | .text t, w => by rw [measure]; exact normal_getPost w _
  | .padding p e c, w => by rw [measure]; exact normal_getPost w _
  | .panel o c, w => by
    rw [measure]
    split
    · exact normal_getPost w _
    · exact normal_poison cfg w
  | .align o c, w => by rw [measure]; exact normal_getPost w _
  | .constrain k c, w => by rw [measure]; exact normal_getPost w _
  | .styled c, w => by rw [measure]; exact normal_getPost w _
  | .cast c, w => by rw [measure]; exact measure_normal cfg c w
  | .opaque c, w => by rw [measure]; exact normal_getPost w _
  | .group fit items, w => by rw [measure]; exact normal_getPost w _
  | .rule o, w => by rw [measure]; exact normal_getPost w _
  | .bar o, w => by rw [measure]; exact normal_getPost w _
  | .progressBar o, w => by rw [measure]; exact normal_getPost w _
  | .table o cols, w => by
    rw [measure, tableMeasure]
    split
    · exact normal_poison cfg w
    · exact normal_getPost w _
  | .columns o items, w => by rw [measure]; exact normal_getPost w _
  | .tree root, w => by rw [measure]; exact normal_getPost w _

theorem measureGet_normal (cfg : Cfg) (r : R) (w : Int) :
    0 ≤ (measureGet cfg r w).minimum ∧ (measureGet cfg r w).minimum ≤ (measureGet cfg r w).maximum ∧
      (measureGet cfg r w).maximum ≤ max w 0 := by
  unfold measureGet
  split
  · simp; omega
  · have h := measure_normal cfg r w.toNat
    obtain ⟨h1, h2, h3⟩ := h
    refine ⟨h1, h2, ?_⟩
    omega

/-- the child oracle of a subtree has a sound measurement at every Python int -/
theorem chOf_measureAt (cfg : Cfg) (r : R) (o : Opts) (k : Int) :
    0 ≤ ((chOf cfg r o).measureAt k).maximum ∧ ((chOf cfg r o).measureAt k).maximum ≤ max k 0 := by
  unfold Child.measureAt chOf
  split
  · simp; omega
  · have h := measure_normal cfg r k.toNat
    obtain ⟨h1, h2, h3⟩ := h
    simp only
    constructor <;> omega

end RichModel.Layout
