import RichModel.Lemmas.TextRenderLoop
/-!
`Text.render` = the reference semantics: under `Inv` the render succeeds and its (character, style
list) stream is `view t`.
-/
namespace RichModel
namespace Text
variable {σ : Type}

/-- the items of a text: id 0 is the base style over the whole text, id `k+1` is span `k` -/
def itemsOf (t : Text σ) : List Item :=
  ⟨0, 0, (t.plain.length : Int)⟩ :: t.spans.zipIdx.map (fun p => ⟨p.2 + 1, p.1.start, p.1.stop⟩)

theorem zipIdx_facts {α : Type} (l : List α) (k : Nat) :
    (l.zipIdx k).Pairwise (fun p q => p.2 < q.2) ∧ ∀ p ∈ l.zipIdx k, k ≤ p.2 ∧ l[p.2 - k]? = some p.1 := by
  induction l generalizing k with
  | nil => simp
  | cons a as ih =>
    rw [List.zipIdx_cons]
    obtain ⟨h1, h2⟩ := ih (k + 1)
    constructor
    · refine List.pairwise_cons.2 ⟨?_, h1⟩
      intro p hp; have := (h2 p hp).1; simp only []; omega
    · intro p hp
      rcases List.mem_cons.1 hp with rfl | hp
      · simp
      · obtain ⟨hk, hg⟩ := h2 p hp
        refine ⟨by omega, ?_⟩
        have : p.2 - k = (p.2 - (k + 1)) + 1 := by omega
        rw [this, List.getElem?_cons_succ]; exact hg

theorem inj_of_pairwise_lt {α : Type} (f : α → Nat) (l : List α) (h : l.Pairwise (fun a b => f a < f b)) :
    ∀ a ∈ l, ∀ b ∈ l, f a = f b → a = b := by
  induction l with
  | nil => intro a ha; simp at ha
  | cons x xs ih =>
    rw [List.pairwise_cons] at h
    intro a ha b hb hab
    rcases List.mem_cons.1 ha with hax | ha <;> rcases List.mem_cons.1 hb with hbx | hb
    · rw [hax, hbx]
    · have := h.1 b hb; rw [hax] at hab; omega
    · have := h.1 a ha; rw [hbx] at hab; omega
    · exact ih h.2 a ha b hb hab

theorem itemsOf_sorted (t : Text σ) : (itemsOf t).Pairwise (fun a b => a.id < b.id) := by
  unfold itemsOf
  refine List.pairwise_cons.2 ⟨?_, ?_⟩
  · intro b hb
    obtain ⟨p, _, rfl⟩ := List.mem_map.1 hb
    simp
  · rw [List.pairwise_map]
    exact (zipIdx_facts t.spans 0).1.imp (by intro a b h; simp only []; omega)

theorem itemsOf_ok (t : Text σ) (h : Inv t) : ItemsOk (itemsOf t) t.plain.length := by
  have hs := itemsOf_sorted t
  refine ⟨inj_of_pairwise_lt (fun it : Item => it.id) _ hs, ?_, ?_, ⟨_, List.mem_cons_self, rfl, rfl⟩⟩
  · show ((itemsOf t).map (·.id)).Pairwise (· ≠ ·)
    rw [List.pairwise_map]
    exact hs.imp (by intro a b h; omega)
  · intro it hit
    rcases List.mem_cons.1 hit with rfl | hit
    · simp
    · obtain ⟨p, hp, rfl⟩ := List.mem_map.1 hit
      have hm : p.1 ∈ t.spans := by
        have := ((zipIdx_facts t.spans 0).2 p hp).2
        exact List.mem_of_getElem? this
      have := h.2.2 p.1 hm
      have hl := h.1
      simp only []; omega

theorem events_perm (t : Text σ) : (events t).Perm (evsOf (itemsOf t)) := by
  have e1 : events t = (⟨0, false, 0⟩ : Ev) ::
      (t.spans.zipIdx.map (fun p => (⟨p.1.start, false, p.2 + 1⟩ : Ev)) ++
        (t.spans.zipIdx.map (fun p => (⟨p.1.stop, true, p.2 + 1⟩ : Ev)) ++ [(⟨(t.plain.length : Int), true, 0⟩ : Ev)])) := by
    simp [events]
  have e2 : evsOf (itemsOf t) = (⟨0, false, 0⟩ : Ev) ::
      (t.spans.zipIdx.map (fun p => (⟨p.1.start, false, p.2 + 1⟩ : Ev)) ++
        ((⟨(t.plain.length : Int), true, 0⟩ : Ev) :: t.spans.zipIdx.map (fun p => (⟨p.1.stop, true, p.2 + 1⟩ : Ev)))) := by
    simp [evsOf, itemsOf, Item.enter, Item.leave, List.map_map, Function.comp_def]
  rw [e1, e2]
  exact List.Perm.cons _ (List.Perm.append_left _ List.perm_append_comm)

theorem filter_map_zipIdx {α β : Type} (l : List α) (k : Nat) (g : α → Bool) (f : α → β) :
    ((l.zipIdx k).filter (fun p => g p.1)).map (fun p => f p.1) = (l.filter g).map f := by
  induction l generalizing k with
  | nil => rfl
  | cons a as ih =>
    rw [List.zipIdx_cons]
    simp only [List.filter_cons]
    split <;> simp [ih]

/-- the sorted ids active at `i`, read through `style_map`, are the effective style -/
theorem active_styles (t : Text σ) (i : Nat) (hi : i < t.plain.length) :
    (sortNat (activeIds (itemsOf t) i)).map t.styleOf = t.effStyle i := by
  have hact : activeIds (itemsOf t) i =
      0 :: ((t.spans.zipIdx.filter (fun p => p.1.covers i)).map (fun p => p.2 + 1)) := by
    unfold activeIds itemsOf
    have hb : (Item.covers ⟨0, 0, (t.plain.length : Int)⟩ i) = true := by
      simp [Item.covers]; omega
    rw [List.filter_cons, if_pos hb]
    simp only [List.map_cons, List.filter_map, List.map_map]
    congr 1
  have hsorted : (0 :: ((t.spans.zipIdx.filter (fun p => p.1.covers i)).map (fun p => p.2 + 1))).Pairwise (· ≤ ·) := by
    refine List.pairwise_cons.2 ⟨by intro b _; omega, ?_⟩
    rw [List.pairwise_map]
    exact ((zipIdx_facts t.spans 0).1.filter _).imp (by intro a b h; omega)
  rw [hact, sortNat_of_sorted _ hsorted]
  simp only [List.map_cons, List.map_map, effStyle, spanIds]
  congr 1
  · rw [← filter_map_zipIdx t.spans 0 (fun sp => sp.covers i) (·.style)]
    apply List.map_congr_left
    intro p hp
    have := ((zipIdx_facts t.spans 0).2 p (List.mem_filter.1 hp).1).2
    simp only [Function.comp, styleOf, Nat.add_sub_cancel, Nat.sub_zero] at this ⊢
    simp [this]

/-- **`render()` shows the reference semantics.**  For every consistent text (any length, any number
of spans — nested, overlapping, duplicated, empty) `render` raises nothing and the characters it
emits, each with the styles combined for it in combination order, are exactly `view t`. -/
theorem render_view_aux (t : Text σ) (h : Inv t) :
    ∃ segs, t.render [] = .ok segs ∧ segStream segs = t.view := by
  have hperm : ([] ++ sortEvs t.events).Perm (evsOf (itemsOf t)) := by
    simpa using (sortEvs_perm t.events).trans (events_perm t)
  cases hL : sortEvs t.events with
  | nil =>
    have := (sortEvs_perm t.events).length_eq
    rw [hL] at this
    simp [events] at this
  | cons e L' =>
    have c : Ctx (itemsOf t) t.plain.length [] (e :: L') :=
      ⟨itemsOf_ok t h, by rw [← hL]; exact hperm, by rw [← hL]; simpa using sortEvs_sorted t.events⟩
    have hst : StackOk (itemsOf t) [] [] := ⟨List.nodup_nil, by intro id; simp⟩
    obtain ⟨segs, hr, hs⟩ := renderLoop_spec t.plain t.styleOf (itemsOf t) L' e [] [] c hst
    have he0 : e.off = 0 := by
      have hr0 := c.off_range (e := e) (by simp)
      have hm : (⟨0, 0, (t.plain.length : Int)⟩ : Item).enter ∈ [] ++ e :: L' :=
        (c.mem _).2 ⟨_, List.mem_cons_self, Or.inl rfl⟩
      simp only [List.nil_append] at hm
      rcases List.mem_cons.1 hm with h' | h'
      · rw [← h']; rfl
      · have hso := c.sorted
        simp only [List.nil_append] at hso
        rw [List.pairwise_cons] at hso
        have := hso.1 _ h'
        rw [Ev.le_iff] at this
        simp only [Item.enter] at this; omega
    refine ⟨segs ++ [], ?_, ?_⟩
    · unfold render
      rw [hL, hr]
      rfl
    · rw [List.append_nil, hs, he0, view_eq_annot]
      simp only [Int.toNat_zero, List.drop_zero]
      apply annot_congr
      intro i _ hi
      exact active_styles t i (by omega)

end Text
end RichModel
