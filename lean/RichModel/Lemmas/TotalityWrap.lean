import RichModel.Lemmas.WrapLine
import RichModel.Lemmas.WrapFull
import RichModel.Lemmas.WrapKept
import RichModel.Lemmas.WrapTabs
import RichModel.Lemmas.WrapWhole
import RichModel.Lemmas.TextRender
import RichModel.Lemmas.TextMore
/-!
Property C14, the text pipeline: `Text.wrap` never raises and hands back consistent lines (`Text.Inv`) — for EVERY
width (also 0 and 1, where a double-width character does not fit and `chop_cells` yields an empty first chunk), every
cell-width function, every justify / overflow / no_wrap combination and every positive tab size; and `Text.render`
of a consistent text never raises whatever the `end` string.  Read-only over `Model/Wrap.lean` (C02) and
`Model/Text.lean` (C05); built from their lemmas.
-/
namespace RichModel
namespace Wrap
open Text
variable {σ : Type}

/-! ### the offsets of `divide_line` at ANY width: ascending (not strictly) and inside the text -/

theorem ascFrom_mono {a b : Nat} (hab : a ≤ b) : ∀ l : List Nat, AscFrom b l → AscFrom a l
  | [], _ => trivial
  | _ :: _, h => ⟨Nat.le_trans hab h.1, h.2⟩

theorem ascFrom_append : ∀ (l1 l2 : List Nat) (s b : Nat), s ≤ b → AscFrom s l1 → (∀ o ∈ l1, o ≤ b) → AscFrom b l2 →
    AscFrom s (l1 ++ l2)
  | [], l2, s, b, hsb, _, _, h2 => by simpa using ascFrom_mono hsb l2 h2
  | o :: os, l2, s, b, _, h1, hb, h2 => by
    refine ⟨h1.1, ?_⟩
    exact ascFrom_append os l2 o b (hb o (by simp)) h1.2 (fun x hx => hb x (List.mem_cons_of_mem _ hx)) h2

/-- `chunkOffsets` with possibly empty chunks: ascending from the start, never beyond the end of the chunks -/
theorem chunkOffsets_weak : ∀ (cs : List (List Char)) (s : Nat),
    AscFrom s (chunkOffsets s cs) ∧ ∀ o ∈ chunkOffsets s cs, o ≤ s + cs.flatten.length
  | [], _ => by simp [chunkOffsets, AscFrom]
  | [_], _ => by simp [chunkOffsets, AscFrom]
  | c :: c' :: rest, s => by
    obtain ⟨ih1, ih2⟩ := chunkOffsets_weak (c' :: rest) (s + c.length)
    rw [chunkOffsets_cons_ne s c (c' :: rest) (by simp)]
    have hl : (c :: c' :: rest).flatten.length = c.length + (c' :: rest).flatten.length := by simp
    refine ⟨⟨by omega, ih1⟩, ?_⟩
    intro o ho
    rcases List.mem_cons.mp ho with rfl | ho
    · omega
    · have := ih2 o ho; omega

/-- one word: its offsets ascend from the word's start and stay inside the word -/
theorem divideStep_weak (cw : Char → Nat) (w : Nat) (fold : Bool) (lp a b : Nat) (word : List Char) :
    AscFrom a (divideStep cw w fold lp (a, b, word)).2 ∧
    ∀ o ∈ (divideStep cw w fold lp (a, b, word)).2, o ≤ a + word.length := by
  unfold divideStep
  simp only
  split
  · split
    · cases fold with
      | true =>
        simp only [if_true]
        obtain ⟨h1, h2⟩ := chunkOffsets_weak (chopCells cw word w lp) a
        have hf : (chopCells cw word w lp).flatten.length = word.length := by
          rw [chopCells_eq_chopS]
          have := congrArg List.length (chopS_flatten cw w word lp)
          simpa using this
        rw [hf] at h2
        exact ⟨h1, h2⟩
      | false =>
        simp only [Bool.false_eq_true, if_false]
        split <;> simp [AscFrom]
    · split <;> simp [AscFrom]
  · simp [AscFrom]

theorem divideGo_weak (cw : Char → Nat) (w : Nat) (fold : Bool) (text : List Char) :
    ∀ (ws : List (Nat × Nat × List Char)) (pos lp : Nat), WordsAt text pos ws →
    AscFrom pos (divideGo cw w fold lp ws) ∧ ∀ o ∈ divideGo cw w fold lp ws, o ≤ text.length
  | [], _, _, _ => by simp [divideGo, AscFrom]
  | (a, b, word) :: ws, pos, lp, h => by
    simp only [WordsAt] at h
    obtain ⟨h1, h2, h3, ⟨lead, body, trail, h4, _⟩, _, h6⟩ := h
    subst h1
    have hne : word ≠ [] := h4.ne_nil
    have hl : 0 < word.length := List.length_pos_iff.mpr hne
    have hlen : text.length - a = word.length + (text.length - b) := by
      have := congrArg List.length h3; simpa using this
    have hb : b ≤ text.length := by omega
    obtain ⟨s1, s2⟩ := divideStep_weak cw w fold lp a b word
    obtain ⟨i1, i2⟩ := divideGo_weak cw w fold text ws b (divideStep cw w fold lp (a, b, word)).1 h6
    simp only [divideGo]
    refine ⟨ascFrom_append _ _ a b (by omega) s1 (fun o ho => by have := s2 o ho; omega) i1, ?_⟩
    intro o ho
    rcases List.mem_append.mp ho with ho | ho
    · have := s2 o ho; omega
    · exact i2 o ho

/-- **The offsets `divide_line` hands to `Text.divide` are ascending and inside the text, at every width** — also
below the width of a single character, where they may repeat (an empty line) instead of increasing strictly. -/
theorem divideLine_weak (cw : Char → Nat) (text : List Char) (w : Nat) (fold : Bool) :
    AscFrom 0 (divideLine cw text w fold) ∧ ∀ o ∈ divideLine cw text w fold, o ≤ text.length :=
  divideGo_weak cw w fold text (words text) 0 0 (words_at text)

/-! ### `Lines.justify` and `Text.wrap` keep lines consistent and never raise -/

section
variable [BEq σ] {chars : Bool}

theorem space_noCtl : isStripCode ' ' = false := by decide

omit [BEq σ] in
theorem inv_justifyOne (cw : Char → Nat) (w : Nat) (j : Justify) (o : Overflow) (l : Text σ) (h : Inv l) :
    Inv (justifyOne (WVariant.fixed chars) cw w j o l) := by
  cases j with
  | default => exact h
  | full => exact h
  | left => exact (truncate_spec cw l w (some o) true h).1
  | center =>
    simp only [justifyOne, padCount_repaired]
    have h1 := (truncate_spec cw l.rstrip w (some o) false (inv_rstrip l h)).1
    exact inv_padRight _ _ ' ' (inv_padLeft _ _ ' ' h1 space_noCtl) space_noCtl
  | right =>
    simp only [justifyOne, padCount_repaired]
    have h1 := (truncate_spec cw l.rstrip w (some o) false (inv_rstrip l h)).1
    exact inv_padLeft _ _ ' ' h1 space_noCtl

/-- `Lines.justify(…, "full")` never raises on consistent lines and returns consistent lines (no assumption on the
width function) -/
theorem justifyFull_inv (cw : Char → Nat) (A : StyleAlg σ) (w : Nat) :
    ∀ lines : List (Text σ), (∀ l ∈ lines, Inv l) →
    ∃ outs, justifyFull Variant.repaired cw A w lines = .ok outs ∧ ∀ l ∈ outs, Inv l
  | [], _ => ⟨[], rfl, by simp⟩
  | [last], h => ⟨[last], rfl, by simpa using h⟩
  | line :: next :: rest, h => by
    obtain ⟨out, ho, hi, _⟩ := justifyFullLine_ink cw A line (h line (by simp)) w
    obtain ⟨outs', ho', hi'⟩ := justifyFull_inv cw A w (next :: rest) (fun l hl => h l (List.mem_cons_of_mem _ hl))
    refine ⟨out :: outs', ?_, ?_⟩
    · simp only [justifyFull, ho, ho', bind, Except.bind]
    · intro l hl
      rcases List.mem_cons.mp hl with rfl | hl
      · exact hi
      · exact hi' l hl

theorem justifyLines_inv (cw : Char → Nat) (A : StyleAlg σ) (lines : List (Text σ)) (h : ∀ l ∈ lines, Inv l) (w : Nat)
    (j : Justify) (o : Overflow) :
    ∃ outs, justifyLines (WVariant.fixed chars) cw A lines w j o = .ok outs ∧ ∀ l ∈ outs, Inv l := by
  by_cases hj : j = Justify.full
  · subst hj
    exact justifyFull_inv cw A w lines h
  · refine ⟨_, justifyLines_map (WVariant.fixed chars) cw A lines w j o hj, ?_⟩
    intro l hl
    obtain ⟨l0, hl0, rfl⟩ := List.mem_map.mp hl
    exact inv_justifyOne cw w j o l0 (h l0 hl0)

/-- one paragraph: `divide` at the offsets of `divide_line`, `rstrip_end`, `Lines.justify`, `truncate` -/
theorem wrapLine_inv (cw : Char → Nat) (A : StyleAlg σ) (line : Text σ) (h : Inv line) (w : Nat)
    (j : Justify) (o : Overflow) (nw : Bool) :
    ∃ out, wrapLine (WVariant.fixed chars) cw A line w j o nw = .ok out ∧ ∀ l ∈ out, Inv l := by
  have hnew : ∃ nl, (if nw then (Except.ok [line] : Except PyErr (List (Text σ)))
      else line.divide (WVariant.fixed chars).text (divideLine cw line.plain w (o == Overflow.fold))) = .ok nl ∧
      ∀ l ∈ nl, Inv l := by
    cases nw with
    | true => exact ⟨[line], rfl, by simpa using h⟩
    | false =>
      obtain ⟨ha, hb⟩ := divideLine_weak cw line.plain w (o == Overflow.fold)
      obtain ⟨lines, hd, _, _, hall⟩ := divide_view line _ h ha hb
      exact ⟨lines, by simpa [WVariant.fixed] using hd, fun l hl => (hall l hl).1⟩
  obtain ⟨nl, hnl, hinv⟩ := hnew
  have hstrip : ∀ l ∈ nl.map (fun l => Text.rstripEndW (WVariant.fixed chars).rstripChars cw (WVariant.fixed chars).text l w), Inv l := by
    intro l hl
    obtain ⟨l0, hl0, rfl⟩ := List.mem_map.mp hl
    obtain ⟨_, _, _, _, hi, _⟩ := rstripEnd_spec (chars := chars) cw l0 (hinv l0 hl0) w
    exact hi
  obtain ⟨outs, hj, hji⟩ := justifyLines_inv (chars := chars) cw A _ hstrip w j o
  refine ⟨outs.map (fun l => l.truncate cw w (some o)), ?_, ?_⟩
  · unfold wrapLine
    simp only [hnl, hj, bind, Except.bind]
  · intro l hl
    obtain ⟨l0, hl0, rfl⟩ := List.mem_map.mp hl
    exact (truncate_spec cw l0 w (some o) false (hji l0 hl0)).1

theorem wrapParagraphs_inv (cw : Char → Nat) (A : StyleAlg σ) (w : Nat) (j : Justify) (o : Overflow) (nw : Bool)
    (ts : Nat) (hts : 0 < ts) :
    ∀ ps : List (Text σ), (∀ p ∈ ps, Inv p) →
    ∃ out, wrapParagraphs (WVariant.fixed chars) cw A w j o nw (some ts) ps = .ok out ∧ ∀ l ∈ out, Inv l
  | [], _ => ⟨[], rfl, by simp⟩
  | p :: ps, h => by
    have hp := h p (by simp)
    have htab : ∃ p', (if p.plain.contains '\t' then p.expandTabs (WVariant.fixed chars).text (some ts) else .ok p) = .ok p' ∧ Inv p' := by
      split
      · obtain ⟨Q, hQ, hi, _⟩ := expandTabs_ink' p hp ts hts
        exact ⟨Q, hQ, hi⟩
      · exact ⟨p, rfl, hp⟩
    obtain ⟨p', hp', hi'⟩ := htab
    obtain ⟨ls, hls, hli⟩ := wrapLine_inv (chars := chars) cw A p' hi' w j o nw
    obtain ⟨more, hm, hmi⟩ := wrapParagraphs_inv cw A w j o nw ts hts ps (fun q hq => h q (List.mem_cons_of_mem _ hq))
    refine ⟨ls ++ more, ?_, ?_⟩
    · simp only [wrapParagraphs, hp', hls, hm, bind, Except.bind]
    · intro l hl
      rcases List.mem_append.mp hl with hl | hl
      · exact hli l hl
      · exact hmi l hl

/-- **wrap_total.**  `Text.wrap` of a consistent text never raises and returns consistent lines: every width
(0 included), every width function, every `justify` / `overflow` / `no_wrap` (argument or attribute), every positive
tab size. -/
theorem wrap_total (cw : Char → Nat) (A : StyleAlg σ) (t : Text σ) (h : Inv t) (w : Nat)
    (justify : Option Justify) (overflow : Option Overflow) (ts : Nat) (hts : 0 < ts) (noWrap : Option Bool) :
    ∃ out, wrap (WVariant.fixed chars) cw A t w justify overflow (some ts) noWrap = .ok out ∧ ∀ l ∈ out, Inv l := by
  obtain ⟨ps, hsplit, _, hps⟩ := split_newline_ink t h
  obtain ⟨out, ho, hi⟩ := wrapParagraphs_inv (chars := chars) cw A w (wrapJustifyOf t justify) (wrapOverflowOf t overflow)
    (noWrapOf t overflow noWrap) ts hts ps (fun p hp => (hps p hp).1)
  refine ⟨out, ?_, hi⟩
  unfold wrap
  rw [show (WVariant.fixed chars).text = Variant.repaired from rfl, hsplit]
  simpa [bind, Except.bind] using ho

end

end Wrap

namespace Text
variable {σ : Type}

/-- `Text.render(console, end=e)` of a consistent text never raises (neither the `ValueError` of `stack.remove` nor
the `RuntimeError` of `Style.combine(())`), whatever the `end` string. -/
theorem render_total (t : Text σ) (h : Inv t) (e : List Char) : ∃ segs, t.render e = .ok segs := by
  obtain ⟨segs, hr, _⟩ := render_view_aux t h
  unfold render at hr ⊢
  cases hl : renderLoop t.plain t.styleOf (sortEvs t.events) [] with
  | error x => rw [hl] at hr; simp [bind, Except.bind] at hr
  | ok s => exact ⟨_, rfl⟩

end Text

namespace Wrap
end Wrap
end RichModel
