import RichModel.Lemmas.ColorMore
/-!
Round-to-nearest-even to 53 bits never crosses a representable number: the two sandwich lemmas
`rnd53_lower` / `rnd53_upper`, and from them `blend_rgb` in doubles stays between its arguments for
every finite double `cross_fade` in [0, 1] (property C18).  Core Lean only.
-/
namespace RichModel

theorem rnd53_cases (n : Nat) (hn : ¬ n < 2 ^ 53) :
    rnd53 n = n / 2 ^ (Nat.log2 n - 52) * 2 ^ (Nat.log2 n - 52) ∨
    (rnd53 n = (n / 2 ^ (Nat.log2 n - 52) + 1) * 2 ^ (Nat.log2 n - 52) ∧ 0 < n % 2 ^ (Nat.log2 n - 52)) := by
  have hpos : 0 < 2 ^ (Nat.log2 n - 52) := Nat.two_pow_pos _
  unfold rnd53
  simp only [hn, if_false]
  split
  · exact Or.inl rfl
  · split
    · exact Or.inr ⟨rfl, by omega⟩
    · split
      · exact Or.inl rfl
      · exact Or.inr ⟨rfl, by omega⟩

theorem log2_facts (n : Nat) (hn : ¬ n < 2 ^ 53) :
    53 ≤ Nat.log2 n ∧ 2 ^ (52 + (Nat.log2 n - 52)) ≤ n ∧ n < 2 ^ (53 + (Nat.log2 n - 52)) := by
  have hne : n ≠ 0 := by
    intro h; subst h; exact hn (Nat.two_pow_pos 53)
  have h53 : 53 ≤ Nat.log2 n := (Nat.le_log2 hne).2 (by omega)
  refine ⟨h53, ?_, ?_⟩
  · have : 52 + (Nat.log2 n - 52) = Nat.log2 n := by omega
    rw [this]; exact Nat.log2_self_le hne
  · have : 53 + (Nat.log2 n - 52) = Nat.log2 n + 1 := by omega
    rw [this]; exact Nat.lt_log2_self

/-- rounding never goes below a representable number `A * 2^s` (`A < 2^53`) that is below the argument. -/
theorem rnd53_lower (A s n : Nat) (hA : A < 2 ^ 53) (h : A * 2 ^ s ≤ n) : A * 2 ^ s ≤ rnd53 n := by
  by_cases hn : n < 2 ^ 53
  · rw [rnd53_of_lt n hn]; exact h
  · obtain ⟨_, hlo, _⟩ := log2_facts n hn
    generalize hk : Nat.log2 n - 52 = k at hlo
    have hpos : 0 < 2 ^ k := Nat.two_pow_pos _
    have hfloor : A * 2 ^ s ≤ n / 2 ^ k * 2 ^ k := by
      by_cases hks : k ≤ s
      · obtain ⟨j, rfl⟩ := Nat.exists_eq_add_of_le hks
        have e : A * 2 ^ (k + j) = A * 2 ^ j * 2 ^ k := by rw [Nat.pow_add, Nat.mul_comm (2 ^ k), Nat.mul_assoc]
        rw [e] at h ⊢
        exact Nat.mul_le_mul_right _ ((Nat.le_div_iff_mul_le hpos).2 h)
      · have h52 : 2 ^ 52 ≤ n / 2 ^ k := (Nat.le_div_iff_mul_le hpos).2 (by rw [← Nat.pow_add]; exact hlo)
        have h1 : A * 2 ^ s ≤ 2 ^ 53 * 2 ^ s := Nat.mul_le_mul_right _ (Nat.le_of_lt hA)
        have h2 : 2 ^ 53 * 2 ^ s ≤ 2 ^ 52 * 2 ^ k := by
          rw [← Nat.pow_add, ← Nat.pow_add]; exact Nat.pow_le_pow_right (by omega) (by omega)
        exact Nat.le_trans h1 (Nat.le_trans h2 (Nat.mul_le_mul_right _ h52))
    have hc := rnd53_cases n hn
    rw [hk] at hc
    rcases hc with hc | ⟨hc, _⟩ <;> rw [hc]
    · exact hfloor
    · exact Nat.le_trans hfloor (Nat.mul_le_mul_right _ (Nat.le_succ _))

/-- …and never above a representable number that is above the argument. -/
theorem rnd53_upper (B s n : Nat) (hB : B < 2 ^ 53) (h : n ≤ B * 2 ^ s) : rnd53 n ≤ B * 2 ^ s := by
  by_cases hn : n < 2 ^ 53
  · rw [rnd53_of_lt n hn]; exact h
  · obtain ⟨_, hlo, _⟩ := log2_facts n hn
    generalize hk : Nat.log2 n - 52 = k at hlo
    have hpos : 0 < 2 ^ k := Nat.two_pow_pos _
    have hks : k ≤ s := by
      have h1 : 2 ^ (52 + k) < 2 ^ (53 + s) := by
        calc 2 ^ (52 + k) ≤ n := hlo
          _ ≤ B * 2 ^ s := h
          _ < 2 ^ 53 * 2 ^ s := Nat.mul_lt_mul_of_pos_right hB (Nat.two_pow_pos _)
          _ = 2 ^ (53 + s) := (Nat.pow_add ..).symm
      have := (Nat.pow_lt_pow_iff_right (by omega : 1 < 2)).1 h1
      omega
    obtain ⟨j, rfl⟩ := Nat.exists_eq_add_of_le hks
    have e : B * 2 ^ (k + j) = B * 2 ^ j * 2 ^ k := by rw [Nat.pow_add, Nat.mul_comm (2 ^ k), Nat.mul_assoc]
    rw [e] at h ⊢
    have hdm : n = 2 ^ k * (n / 2 ^ k) + n % 2 ^ k := (Nat.div_add_mod n (2 ^ k)).symm
    have hc := rnd53_cases n hn
    rw [hk] at hc
    rcases hc with hc | ⟨hc, hr⟩ <;> rw [hc]
    · exact Nat.le_trans (Nat.div_mul_le_self n (2 ^ k)) h
    · apply Nat.mul_le_mul_right
      -- q * 2^k < n ≤ C * 2^k, hence q < C
      have hlt : n / 2 ^ k * 2 ^ k < B * 2 ^ j * 2 ^ k := by
        have : n / 2 ^ k * 2 ^ k < n := by rw [Nat.mul_comm]; omega
        omega
      exact Nat.lt_of_mul_lt_mul_right hlt

theorem rndI_natCast (n : Nat) : rndI (n : Int) = ((rnd53 n : Nat) : Int) := by
  unfold rndI
  have : ¬ ((n : Int) < 0) := by omega
  simp only [this, if_false, Int.natAbs_natCast]

theorem rndI_neg_natCast (n : Nat) : rndI (-(n : Int)) = -((rnd53 n : Nat) : Int) := by
  unfold rndI
  by_cases h : n = 0
  · subst h; simp [rnd53]
  · have : (-(n : Int) < 0) := by omega
    simp only [this, if_true, Int.natAbs_neg, Int.natAbs_natCast]

/-- **`blend_rgb` in doubles stays between its arguments** for every finite double `cross_fade = k / 2^cs`
in [0, 1]: neither of the two roundings can cross the representable end points. -/
theorem blendChannelF_range (c1 c2 : Nat) (cn : Int) (cs : Nat) (hc1 : c1 ≤ 255) (hc2 : c2 ≤ 255)
    (h0 : 0 ≤ cn) (h1 : cn ≤ ((2 ^ cs : Nat) : Int)) :
    ((min c1 c2 : Nat) : Int) ≤ blendChannelF c1 c2 cn cs ∧ blendChannelF c1 c2 cn cs ≤ ((max c1 c2 : Nat) : Int) := by
  obtain ⟨k, rfl⟩ := Int.eq_ofNat_of_zero_le h0
  have hk : k ≤ 2 ^ cs := by exact_mod_cast h1
  have hpos : 0 < 2 ^ cs := Nat.two_pow_pos cs
  unfold blendChannelF
  rcases Nat.le_total c1 c2 with hle | hle
  · obtain ⟨d, rfl⟩ := Nat.exists_eq_add_of_le hle
    have hx : (((c1 + d : Nat) : Int) - (c1 : Int)) * (k : Int) = ((d * k : Nat) : Int) := by
      push_cast
      have : (c1 : Int) + (d : Int) - (c1 : Int) = (d : Int) := by omega
      rw [this]
    have hP : rnd53 (d * k) ≤ d * 2 ^ cs :=
      rnd53_upper d cs (d * k) (by omega) (Nat.mul_le_mul_left d hk)
    simp only [hx, rndI_natCast]
    have hy : (c1 : Int) * ((2 ^ cs : Nat) : Int) + ((rnd53 (d * k) : Nat) : Int)
        = ((c1 * 2 ^ cs + rnd53 (d * k) : Nat) : Int) := by push_cast; rfl
    rw [hy, rndI_natCast]
    have hlo : c1 * 2 ^ cs ≤ rnd53 (c1 * 2 ^ cs + rnd53 (d * k)) :=
      rnd53_lower c1 cs _ (by omega) (Nat.le_add_right _ _)
    have hhi : rnd53 (c1 * 2 ^ cs + rnd53 (d * k)) ≤ (c1 + d) * 2 ^ cs :=
      rnd53_upper (c1 + d) cs _ (by omega) (by rw [Nat.add_mul]; omega)
    rw [Nat.min_eq_left hle, Nat.max_eq_right hle, ← Int.ofNat_tdiv]
    constructor
    · exact_mod_cast (Nat.le_div_iff_mul_le hpos).2 hlo
    · exact_mod_cast Nat.div_le_of_le_mul (by rw [Nat.mul_comm (c1 + d)] at hhi; exact hhi)
  · obtain ⟨e, rfl⟩ := Nat.exists_eq_add_of_le hle
    have hx : ((c2 : Int) - ((c2 + e : Nat) : Int)) * (k : Int) = -((e * k : Nat) : Int) := by
      push_cast
      have : (c2 : Int) - ((c2 : Int) + (e : Int)) = -(e : Int) := by omega
      rw [this, Int.neg_mul]
    have hP : rnd53 (e * k) ≤ e * 2 ^ cs :=
      rnd53_upper e cs (e * k) (by omega) (Nat.mul_le_mul_left e hk)
    simp only [hx, rndI_neg_natCast]
    have hy : ((c2 + e : Nat) : Int) * ((2 ^ cs : Nat) : Int) + -((rnd53 (e * k) : Nat) : Int)
        = ((c2 * 2 ^ cs + (e * 2 ^ cs - rnd53 (e * k)) : Nat) : Int) := by
      rw [← Int.natCast_mul, Nat.add_mul]
      omega
    rw [hy, rndI_natCast]
    have hlo : c2 * 2 ^ cs ≤ rnd53 (c2 * 2 ^ cs + (e * 2 ^ cs - rnd53 (e * k))) :=
      rnd53_lower c2 cs _ (by omega) (Nat.le_add_right _ _)
    have hhi : rnd53 (c2 * 2 ^ cs + (e * 2 ^ cs - rnd53 (e * k))) ≤ (c2 + e) * 2 ^ cs :=
      rnd53_upper (c2 + e) cs _ (by omega) (by rw [Nat.add_mul]; omega)
    rw [Nat.min_eq_right hle, Nat.max_eq_left hle, ← Int.ofNat_tdiv]
    constructor
    · exact_mod_cast (Nat.le_div_iff_mul_le hpos).2 hlo
    · exact_mod_cast Nat.div_le_of_le_mul (by rw [Nat.mul_comm (c2 + e)] at hhi; exact hhi)

/-- numbers with at most 53 significant bits are fixed points of the rounding. -/
theorem rnd53_repr (A s : Nat) (hA : A < 2 ^ 53) : rnd53 (A * 2 ^ s) = A * 2 ^ s :=
  Nat.le_antisymm (rnd53_upper A s _ hA (Nat.le_refl _)) (rnd53_lower A s _ hA (Nat.le_refl _))

/-- `cross_fade = 0.0` (written with any scale) returns `color1`, `cross_fade = 1.0` returns `color2`. -/
theorem blendChannelF_endpoints (c1 c2 cs : Nat) (hc1 : c1 ≤ 255) (hc2 : c2 ≤ 255) :
    blendChannelF c1 c2 0 cs = c1 ∧ blendChannelF c1 c2 ((2 ^ cs : Nat) : Int) cs = c2 := by
  have hpos : 0 < 2 ^ cs := Nat.two_pow_pos cs
  constructor
  · unfold blendChannelF
    have h0 : rndI 0 = 0 := by simp [rndI, rnd53]
    simp only [Int.mul_zero, h0, Int.add_zero, ← Int.natCast_mul, rndI_natCast, rnd53_repr c1 cs (by omega), ← Int.ofNat_tdiv]
    exact_mod_cast Nat.mul_div_cancel c1 hpos
  · unfold blendChannelF
    rcases Nat.le_total c1 c2 with hle | hle
    · obtain ⟨d, rfl⟩ := Nat.exists_eq_add_of_le hle
      have hx : (((c1 + d : Nat) : Int) - (c1 : Int)) * ((2 ^ cs : Nat) : Int) = ((d * 2 ^ cs : Nat) : Int) := by
        push_cast
        have : (c1 : Int) + (d : Int) - (c1 : Int) = (d : Int) := by omega
        rw [this]
      simp only [hx, rndI_natCast, rnd53_repr d cs (by omega)]
      have hy : (c1 : Int) * ((2 ^ cs : Nat) : Int) + ((d * 2 ^ cs : Nat) : Int) = (((c1 + d) * 2 ^ cs : Nat) : Int) := by
        rw [Nat.add_mul]; push_cast; rfl
      rw [hy, rndI_natCast, rnd53_repr (c1 + d) cs (by omega), ← Int.ofNat_tdiv]
      exact_mod_cast Nat.mul_div_cancel (c1 + d) hpos
    · obtain ⟨e, rfl⟩ := Nat.exists_eq_add_of_le hle
      have hx : ((c2 : Int) - ((c2 + e : Nat) : Int)) * ((2 ^ cs : Nat) : Int) = -((e * 2 ^ cs : Nat) : Int) := by
        push_cast
        have : (c2 : Int) - ((c2 : Int) + (e : Int)) = -(e : Int) := by omega
        rw [this, Int.neg_mul]
      simp only [hx, rndI_neg_natCast, rnd53_repr e cs (by omega)]
      have hy : ((c2 + e : Nat) : Int) * ((2 ^ cs : Nat) : Int) + -((e * 2 ^ cs : Nat) : Int) = ((c2 * 2 ^ cs : Nat) : Int) := by
        rw [← Int.natCast_mul, Nat.add_mul]; omega
      rw [hy, rndI_natCast, rnd53_repr c2 cs (by omega), ← Int.ofNat_tdiv]
      exact_mod_cast Nat.mul_div_cancel c2 hpos

end RichModel
