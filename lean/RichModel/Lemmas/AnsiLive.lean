import RichModel.Lemmas.AnsiProxy
import RichModel.Lemmas.LiveText
/-!
The FileProxy of property C19 inside the live display of property C10 (read-only import of C10's model
and lemmas): the `Op.write` of `Model/Live.lean` is the `FileProxy.write` of `Model/Ansi.lean` — the same
function on the same inputs — so the two models cannot drift apart.
-/
namespace RichModel
namespace Ansi
open RichModel.Live

/-- C10's `cutNL` and C19's `completeLines` are one function (arguments swapped). -/
theorem cutNL_eq_completeLines (cur : List Char) (cs : List Char) : Live.cutNL cur cs = completeLines cs cur := by
  induction cs generalizing cur with
  | nil => rfl
  | cons c r ih =>
    by_cases hc : c = '\n'
    · simp [Live.cutNL, completeLines, hc, ih]
    · simp [Live.cutNL, completeLines, hc, ih]

/-- One write as C10 describes it — already cut into complete lines and an unterminated tail — is, as a
character string, `flatW`.  C19's `FileProxy.write` on that string, from a buffer holding C10's pending
text, hands the console exactly C10's lines and keeps exactly C10's pending text. -/
theorem writeLoop_eq_pw (buf : List (List Char)) (w : List Live.Line × Live.Line)
    (h : (∀ l ∈ w.1, '\n' ∉ l) ∧ '\n' ∉ w.2) :
    (writeLoop (Live.flatW w) [] buf []).1 = (Live.pw buf.flatten w).1 ∧
    (writeLoop (Live.flatW w) [] buf []).2.flatten = (Live.pw buf.flatten w).2 := by
  obtain ⟨h1, h2, _⟩ := writeLoop_spec (Live.flatW w) [] buf []
  simp only [List.nil_append, List.append_nil] at h1 h2
  rw [unitsAux_map_ch] at h1 h2
  have hp := Live.pws_eq_cut buf.flatten [w] (by intro x hx; simp at hx; subst hx; exact h)
  simp only [Live.pws, List.map_cons, List.map_nil, List.flatten_cons, List.flatten_nil, List.append_nil] at hp
  rw [cutNL_eq_completeLines] at hp
  constructor
  · rw [h1, ← hp]
  · rw [h2, ← hp]

/-- **C10's `Op.write` is C19's `FileProxy.write`.**  On a redirected stream, the display model's write —
given the text cut into complete lines and a tail without newlines — does exactly what the proxy model computes
from the character string `flatW (lines, tail)` and a buffer holding the pending text: it prints the proxy's
completed lines through the display (`doPrint`) and keeps the proxy's new buffer pending. -/
theorem doWrite_eq_proxy (cfg : Live.Cfg) (fails : Nat → Bool) (st : Live.St) (e : Bool) (lines : List Live.Line)
    (tail : Live.Line) (hp : Live.proxied st e = true) (hnl : (∀ l ∈ lines, '\n' ∉ l) ∧ '\n' ∉ tail)
    (buf : List (List Char)) (hb : buf.flatten = Live.getBuf st e) :
    Live.doWrite cfg fails st e lines tail =
      (match (writeLoop (Live.flatW (lines, tail)) [] buf []).1 with
       | [] => { st := Live.setBuf st e (writeLoop (Live.flatW (lines, tail)) [] buf []).2.flatten }
       | ls => Live.doPrint cfg fails (Live.setBuf st e (writeLoop (Live.flatW (lines, tail)) [] buf []).2.flatten) ls) := by
  obtain ⟨h1, h2⟩ := writeLoop_eq_pw buf (lines, tail) hnl
  rw [Live.doWrite_pw cfg fails st e lines tail hp, h1, h2, hb]
  cases (Live.pw (Live.getBuf st e) (lines, tail)).1 <;> rfl

/-! ### the display's view with the proxy model plugged in -/

/-- no newline inside the pieces of a write (C10 gives a write as complete lines + tail) -/
def writeOk : Live.Op → Prop
  | .write _ lines tail => (∀ l ∈ lines, '\n' ∉ l) ∧ '\n' ∉ tail
  | _ => True

/-- what the console is asked to print on behalf of one operation: for a write to a redirected stream, the
lines C19's `FileProxy.write` completes from the pending text and the written string -/
def printedByJ (st : Live.St) : Live.Op → List Live.Line
  | .print ls => ls
  | .printBare => [[]]
  | .write e lines tail =>
    if Live.proxied st e then (writeLoop (Live.flatW (lines, tail)) [] [Live.getBuf st e] []).1 else []
  | _ => []

theorem viewStep_printed (cfg : Live.Cfg) (st : Live.St) (v : Live.View) (op : Live.Op) (hok : writeOk op) :
    (Live.viewStep cfg st v op).printed = v.printed ++ printedByJ st op := by
  cases op with
  | write e lines tail =>
    have h := (writeLoop_eq_pw [Live.getBuf st e] (lines, tail) hok).1
    simp only [List.flatten_cons, List.flatten_nil, List.append_nil] at h
    cases lines with
    | nil => simp [Live.viewStep, printedByJ, h, Live.pw]
    | cons l rest =>
      by_cases hp : Live.proxied st e = true
      · simp [Live.viewStep, printedByJ, h, Live.pw, hp]
      · simp [Live.viewStep, printedByJ, hp]
  | print ls => simp [Live.viewStep, printedByJ]
  | printBare => simp [Live.viewStep, printedByJ]
  | _ => simp [Live.viewStep, printedByJ]

/-- C10's specification run with the lines of every operation computed through `printedByJ`. -/
def printedRunJ (cfg : Live.Cfg) : Live.St → List Live.Op → List Live.Line
  | _, [] => []
  | st, op :: rest =>
    if op = .stop then (if st.started then Live.pendLines cfg st else [])
    else printedByJ st op ++ printedRunJ cfg (Live.step cfg Live.noFault st op).st rest

theorem specRun_printed (cfg : Live.Cfg) (h : List Live.Op) (hok : ∀ op ∈ h, writeOk op) (st : Live.St) (v : Live.View) :
    (Live.specRun cfg st v h).2.printed = v.printed ++ printedRunJ cfg st h := by
  induction h generalizing st v with
  | nil => simp [Live.specRun, printedRunJ]
  | cons op rest ih =>
    by_cases hs : op = .stop
    · subst hs
      simp only [Live.specRun, printedRunJ, if_true, Live.viewStop]
      split <;> simp
    · simp only [Live.specRun, printedRunJ, hs, if_false]
      rw [ih (fun o ho => hok o (by simp [ho])), viewStep_printed cfg st v op (hok op (by simp)), List.append_assoc]

end Ansi
end RichModel
