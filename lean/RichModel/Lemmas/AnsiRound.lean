import RichModel.Lemmas.AnsiEncode
import RichModel.Lemmas.AnsiTok
/-!
The round trip, piece by piece (property C19): how the decoder's loop reads plain text, an SGR
sequence and an OSC 8 sequence that are followed by arbitrary further input.
-/
namespace RichModel
namespace Ansi
open AsciiStr Style

/-! ### what is observed of a style -/

/-- The 13 attributes that are on, the colours without their names, the link (`""` counts as none). -/
structure Obs where
  on : List Bool
  fg : Option (ColorType × Option Nat × Option Triplet)
  bg : Option (ColorType × Option Nat × Option Triplet)
  link : Option (List Char)
deriving DecidableEq, Repr

def obsOf (s : Style) : Obs :=
  ⟨(List.range 13).map (fun i => s.attr i == some true), s.color.map colorKey, s.bgcolor.map colorKey, linkVal s.link⟩

def obs0 : Obs := ⟨List.replicate 13 false, none, none, none⟩

def obsOpt : Option Style → Obs
  | none => obs0
  | some s => obsOf s

/-- Per character: the character and what is observed of its style. -/
def charsOf (runs : List Run) : List (Char × Obs) := runs.flatMap fun r => r.text.map (·, obsOpt r.style)

theorem charsOf_append (a b : List Run) : charsOf (a ++ b) = charsOf a ++ charsOf b := by
  simp [charsOf]

/-- Nothing is set (the state of the decoder between the segments the encoder writes). -/
structure Blank (s : Style) : Prop where
  inv : Inv s
  color : s.color = none
  bgcolor : s.bgcolor = none
  set0 : s.setAttributes = 0
  link : strTruthy s.link = false

theorem Blank.attr {s : Style} (h : Blank s) (j : Nat) : s.attr j = none := by
  simp [Style.attr, h.set0]

theorem Blank.obs {s : Style} (h : Blank s) : obsOf s = obs0 := by
  simp only [obsOf, obs0, h.color, h.bgcolor, Option.map_none, linkVal, h.link, Bool.false_eq_true, if_false,
    Obs.mk.injEq, and_true]
  simp only [h.attr]
  decide

theorem blank_null : Blank Style.null := ⟨inv_null, rfl, rfl, rfl, rfl⟩

/-! ### the loop of `decode_line` over a configuration (state, pending text, input) -/

/-- `self.style or None` -/
def orNone (st : Style) : Option Style := if st.toBool then some st else none

/-- the run (if any) the pending text `acc` becomes when the next match is reached -/
def flushRuns (st : Style) (acc : List Char) : List Run :=
  if acc.isEmpty || (removeCsi acc).isEmpty then [] else [⟨stripCtl (removeCsi acc), orNone st⟩]

def push (pre : List Run) (x : Style × Except DecErr (List Run)) : Style × Except DecErr (List Run) :=
  (x.1, x.2.map (pre ++ ·))

theorem push_nil (x : Style × Except DecErr (List Run)) : push [] x = x := by
  obtain ⟨s, r⟩ := x
  cases r <;> simp [push, Except.map]

theorem push_push (a b : List Run) (x : Style × Except DecErr (List Run)) : push a (push b x) = push (a ++ b) x := by
  obtain ⟨s, r⟩ := x
  cases r <;> simp [push, Except.map]

/-- the decoder's loop from state `st` on input `s` with pending text `acc` -/
def R (cfg : Cfg) (st : Style) (s acc : List Char) : Style × Except DecErr (List Run) :=
  decodeToks cfg st (tokAux cfg.sgrLazy (!cfg.oscStOnly) s 0 acc)

theorem decodeToks_flush (cfg : Cfg) (st : Style) (acc : List Char) (toks : List Token) :
    decodeToks cfg st (flushPlain acc ++ toks) = push (flushRuns st acc) (decodeToks cfg st toks) := by
  by_cases ha : acc.isEmpty
  · simp [flushPlain, flushRuns, ha, push_nil]
  · by_cases hp : (removeCsi acc).isEmpty
    · simp only [flushPlain, ha, Bool.false_eq_true, if_false, List.singleton_append, decodeToks, decodeTok, hp,
        if_true, flushRuns, Bool.or_true]
      rw [← push_nil (decodeToks cfg st toks)]
      simp [push]
    · simp only [flushPlain, ha, Bool.false_eq_true, if_false, List.singleton_append, decodeToks, decodeTok, hp,
        flushRuns, Bool.or_false, orNone, push]
      simp

theorem R_text (cfg : Cfg) (st : Style) (t rest acc : List Char) (ht : ∀ c ∈ t, c ≠ ESC) :
    R cfg st (t ++ rest) acc = R cfg st rest (acc ++ t) := by
  simp [R, tokAux_plain cfg.sgrLazy (!cfg.oscStOnly) t rest acc ht]

theorem R_nil (cfg : Cfg) (st : Style) (acc : List Char) :
    R cfg st [] acc = push (flushRuns st acc) (st, .ok []) := by
  have := decodeToks_flush cfg st acc []
  simpa [R, tokAux, decodeToks] using this

/-- an SGR sequence whose parameters read as `codes` and take the style from `st` to `st'` -/
theorem R_sgr (cfg : Cfg) (st st' : Style) (body rest acc : List Char) (codes : List Nat)
    (hb : ∀ c ∈ body, isSgrParam c = true) (hne : body ≠ [])
    (hc : sgrCodes cfg body = .ok codes) (ha : applyCodes cfg st codes 0 = (st', none)) :
    R cfg st (sgrOpen body ++ rest) acc = push (flushRuns st acc) (R cfg st' rest []) := by
  have hemp : body.isEmpty = false := by cases body <;> simp at hne ⊢
  have ht : tokAux cfg.sgrLazy (!cfg.oscStOnly) (sgrOpen body ++ rest) 0 acc = flushPlain acc ++ .sgr body :: tokAux cfg.sgrLazy (!cfg.oscStOnly) rest 0 [] := by
    have := tokAux_sgr cfg.sgrLazy (!cfg.oscStOnly) body rest acc hb
    simpa [sgrOpen] using this
  unfold R
  rw [ht, decodeToks_flush]
  congr 1
  simp only [decodeToks, decodeTok, hemp, Bool.false_eq_true, if_false, hc, ha]
  exact push_nil _

/-- an OSC 8 sequence `ESC ] 8 ; params ; link ESC \` -/
theorem R_osc8 (cfg : Cfg) (st : Style) (params link rest acc : List Char)
    (hp : ∀ c ∈ params, c ≠ ESC ∧ c ≠ '\n' ∧ c ≠ ';' ∧ c ≠ BEL) (hl : ∀ c ∈ link, c ≠ ESC ∧ c ≠ '\n' ∧ c ≠ BEL) :
    R cfg st ([ESC, ']', '8', ';'] ++ params ++ ';' :: link ++ [ESC, '\\'] ++ rest) acc =
      push (flushRuns st acc) (R cfg (Style.updateLink cfg.sv st (linkOrNone link)) rest []) := by
  have hbody : ∀ c ∈ '8' :: ';' :: (params ++ ';' :: link), c ≠ ESC ∧ c ≠ '\n' ∧ c ≠ BEL := by
    intro c hc
    simp only [List.mem_cons, List.mem_append] at hc
    rcases hc with rfl | rfl | hc | rfl | hc
    · decide
    · decide
    · exact ⟨(hp c hc).1, (hp c hc).2.1, (hp c hc).2.2.2⟩
    · decide
    · exact hl c hc
  have ht : tokAux cfg.sgrLazy (!cfg.oscStOnly) ([ESC, ']', '8', ';'] ++ params ++ ';' :: link ++ [ESC, '\\'] ++ rest) 0 acc =
      flushPlain acc ++ .osc ('8' :: ';' :: (params ++ ';' :: link)) :: tokAux cfg.sgrLazy (!cfg.oscStOnly) rest 0 [] := by
    have := tokAux_osc cfg.sgrLazy (!cfg.oscStOnly) ('8' :: ';' :: (params ++ ';' :: link)) rest acc hbody
    simpa using this
  have hpart : partitionAt ';' (params ++ ';' :: link) = (params, true, link) := by
    clear ht hbody
    induction params with
    | nil => simp [partitionAt]
    | cons c r ih =>
      have hc := (hp c (by simp)).2.2.1
      simp only [List.cons_append, partitionAt, hc, if_false]
      rw [ih (fun x hx => hp x (by simp [hx]))]
  unfold R
  rw [ht, decodeToks_flush]
  congr 1
  simp only [decodeToks, decodeTok, List.isEmpty_cons, Bool.false_eq_true, if_false, dropPrefix?, beq_self_eq_true,
    if_true, hpart]
  exact push_nil _

/-- repaired (F33): an OSC 8 sequence ended by BEL, `ESC ] 8 ; params ; link BEL` -/
theorem R_osc8_bel (cfg : Cfg) (hb : cfg.oscStOnly = false) (st : Style) (params link rest acc : List Char)
    (hp : ∀ c ∈ params, c ≠ ESC ∧ c ≠ '\n' ∧ c ≠ ';' ∧ c ≠ BEL) (hl : ∀ c ∈ link, c ≠ ESC ∧ c ≠ '\n' ∧ c ≠ BEL) :
    R cfg st ([ESC, ']', '8', ';'] ++ params ++ ';' :: link ++ [BEL] ++ rest) acc =
      push (flushRuns st acc) (R cfg (Style.updateLink cfg.sv st (linkOrNone link)) rest []) := by
  have hbody : ∀ c ∈ '8' :: ';' :: (params ++ ';' :: link), c ≠ ESC ∧ c ≠ '\n' ∧ c ≠ BEL := by
    intro c hc
    simp only [List.mem_cons, List.mem_append] at hc
    rcases hc with rfl | rfl | hc | rfl | hc
    · decide
    · decide
    · exact ⟨(hp c hc).1, (hp c hc).2.1, (hp c hc).2.2.2⟩
    · decide
    · exact hl c hc
  have ht : tokAux cfg.sgrLazy (!cfg.oscStOnly) ([ESC, ']', '8', ';'] ++ params ++ ';' :: link ++ [BEL] ++ rest) 0 acc =
      flushPlain acc ++ .osc ('8' :: ';' :: (params ++ ';' :: link)) :: tokAux cfg.sgrLazy (!cfg.oscStOnly) rest 0 [] := by
    have := tokAux_osc_bel cfg.sgrLazy ('8' :: ';' :: (params ++ ';' :: link)) rest acc hbody
    rw [hb]
    simpa using this
  have hpart : partitionAt ';' (params ++ ';' :: link) = (params, true, link) := by
    clear ht hbody
    induction params with
    | nil => simp [partitionAt]
    | cons c r ih =>
      have hc := (hp c (by simp)).2.2.1
      simp only [List.cons_append, partitionAt, hc, if_false]
      rw [ih (fun x hx => hp x (by simp [hx]))]
  unfold R
  rw [ht, decodeToks_flush]
  congr 1
  simp only [decodeToks, decodeTok, List.isEmpty_cons, Bool.false_eq_true, if_false, dropPrefix?, beq_self_eq_true,
    if_true, hpart]
  exact push_nil _

/-! ### pending text that is plain -/

/-- characters that reach the decoded text unchanged -/
def textOk (t : List Char) : Bool :=
  t.all fun c => c != ESC && c != '\r' && !Gen.stripControlCodes.contains c.toNat

theorem textOk_append {a b : List Char} (ha : textOk a = true) (hb : textOk b = true) : textOk (a ++ b) = true := by
  simp only [textOk, List.all_append, Bool.and_eq_true] at *
  exact ⟨ha, hb⟩

theorem textOk_noEsc {t : List Char} (h : textOk t = true) : ∀ c ∈ t, c ≠ ESC := by
  intro c hc
  simp only [textOk, List.all_eq_true, Bool.and_eq_true, bne_iff_ne, ne_eq] at h
  exact (h c hc).1.1

theorem textOk_noCR {t : List Char} (h : textOk t = true) : ∀ c ∈ t, c ≠ '\r' := by
  intro c hc
  simp only [textOk, List.all_eq_true, Bool.and_eq_true, bne_iff_ne, ne_eq] at h
  exact (h c hc).1.2

theorem stripCtl_textOk {t : List Char} (h : textOk t = true) : stripCtl t = t := by
  simp only [textOk, List.all_eq_true, Bool.and_eq_true] at h
  simp only [stripCtl, List.filter_eq_self]
  intro c hc
  exact (h c hc).2

theorem charsOf_flushRuns (st : Style) (acc : List Char) (h : textOk acc = true) :
    charsOf (flushRuns st acc) = acc.map (·, obsOpt (orNone st)) := by
  have h1 : removeCsi acc = acc := removeCsi_noEsc acc (textOk_noEsc h)
  cases acc with
  | nil => simp [flushRuns, charsOf]
  | cons c r => simp [flushRuns, h1, charsOf, stripCtl_textOk h]

theorem obsOpt_orNone_blank {st : Style} (h : Blank st) : obsOpt (orNone st) = obs0 := by
  unfold orNone
  split
  · exact h.obs
  · rfl

end Ansi
end RichModel
