import RichModel.Lemmas.AnsiRoundTrip
import RichModel.Lemmas.AnsiProxy
/-!
Whole lines (property C19): the round trip for a line of segments, the decoder never raising in the
repaired variant, and escape-free lines coming out complete.
-/
namespace RichModel
namespace Ansi
open AsciiStr Style

/-- what the segments say, per character -/
def expectedChars (segs : List Seg) : List (Char × Obs) :=
  segs.flatMap fun g => g.text.map (·, obsOpt g.style)

/-- A line of segments through `_render_buffer` and back through the decoder's loop. -/
theorem segs_roundtrip (cfg : Cfg) (segs : List Seg) (hok : ∀ g ∈ segs, SegOk g) (st : Style) (hst : Blank st)
    (acc : List Char) (hacc : textOk acc = true) :
    ∃ x st2 runs, encodeSegs false segs = .ok x ∧ (∀ c ∈ x, c ≠ '\r') ∧ R cfg st x acc = (st2, .ok runs) ∧ Blank st2 ∧
      charsOf runs = acc.map (·, obs0) ++ expectedChars segs := by
  induction segs generalizing st acc with
  | nil =>
    refine ⟨[], st, flushRuns st acc, rfl, by simp, ?_, hst, ?_⟩
    · rw [R_nil]; simp [push, Except.map]
    · rw [charsOf_flushRuns st acc hacc, obsOpt_orNone_blank hst]; simp [expectedChars]
  | cons g gs ih =>
    obtain ⟨x, hx, hxcr, st1, acc1, pre, hb1, ha1, hch, hR⟩ := seg_roundtrip cfg g (hok g (by simp)) st hst acc hacc
    obtain ⟨xs, st2, runs, hxs, hxscr, hR2, hb2, hch2⟩ := ih (fun y hy => hok y (by simp [hy])) st1 hb1 acc1 ha1
    refine ⟨x ++ xs, st2, pre ++ runs, ?_, noCR_append hxcr hxscr, ?_, hb2, ?_⟩
    · simp [encodeSegs, hx, hxs, Except.map]
    · rw [hR xs, hR2]; simp [push, Except.map]
    · rw [charsOf_append, hch2, ← List.append_assoc, hch]
      simp [expectedChars]

/-! ### the decoder never raises once `int()`'s `ValueError` is suppressed -/

theorem codesLoop_total (cfg : Cfg) (h : cfg.intRaises = false) (l : List (List Char)) :
    ∃ codes, codesLoop cfg l = .ok codes := by
  induction l with
  | nil => exact ⟨[], rfl⟩
  | cons c r ih =>
    obtain ⟨cs, hcs⟩ := ih
    simp only [codesLoop]
    split
    · split
      · exact ⟨cs, hcs⟩
      · exact ⟨0 :: cs, by simp [hcs, Except.map]⟩
    · split
      · split
        · rename_i n _
          exact ⟨min 255 n :: cs, by simp [hcs, Except.map]⟩
        · simp [h, hcs]
      · exact ⟨cs, hcs⟩

theorem sgrLookup_parse_ok (v : StyleVariant) {code : Nat} {d : List Char} (h : sgrLookup code = some d)
    (hv : v = StyleVariant.fixed := by rfl) :
    ∃ s, Style.parse v d = .ok s := by
  have ht := tablesOk_all v hv
  simp only [tablesOk, entriesOk, Bool.and_eq_true, List.all_eq_true] at ht
  have hent := ht.1.1.1.2
  unfold sgrLookup at h
  cases hf : Gen.sgrStyleMap.find? (fun p => p.1 == code) with
  | none => simp [hf] at h
  | some p =>
    simp only [hf, Option.map_some, Option.some.injEq] at h
    have hp := hent p (List.mem_of_find?_eq_some hf)
    rw [h] at hp
    cases hps : Style.parse v d with
    | ok s => exact ⟨s, rfl⟩
    | error e => simp [hps] at hp

theorem sgrLookupV_parse_ok (cfg : Cfg) {code : Nat} {d : List Char} (h : sgrLookupV cfg code = some d) :
    ∃ s, Style.parse cfg.sv d = .ok s := by
  have lit : ∀ x ∈ [cl! "not underline", cl! "not underline not underline2", cl! "not blink",
      cl! "not blink not blink2"], (Style.parse StyleVariant.fixed x).toOption.isSome = true := by decide +kernel
  have lit' : ∀ x ∈ [cl! "not underline", cl! "not underline not underline2", cl! "not blink",
      cl! "not blink not blink2"], ∃ s, Style.parse cfg.sv x = .ok s := by
    intro x hx
    have := lit x hx
    cases hp : Style.parse StyleVariant.fixed x with
    | ok s => exact ⟨s, rfl⟩
    | error e => simp [hp, Except.toOption] at this
  unfold sgrLookupV at h
  split at h
  · simp only [Option.some.injEq] at h
    subst h
    split
    · exact lit' _ (by simp)
    · exact lit' _ (by simp)
  · split at h
    · simp only [Option.some.injEq] at h
      subst h
      split
      · exact lit' _ (by simp)
      · exact lit' _ (by simp)
    · exact sgrLookup_parse_ok cfg.sv h

theorem applyCodes_noerr (cfg : Cfg) (codes : List Nat) (st : Style) (k : Nat) :
    (applyCodes cfg st codes k).2 = none := by
  induction codes generalizing st k with
  | nil => rfl
  | cons c r ih =>
    cases k with
    | succ k => simpa [applyCodes] using ih st k
    | zero =>
      simp only [applyCodes]
      split
      · exact ih _ _
      · split
        · rename_i d hd
          obtain ⟨s, hs⟩ := sgrLookupV_parse_ok cfg hd
          simp only [hs]
          exact ih _ _
        · split
          · split
            · rfl
            · exact ih _ _
            · exact ih _ _
          · split
            · split
              · rfl
              · exact ih _ _
              · exact ih _ _
            · exact ih _ _

theorem decodeTok_noerr (cfg : Cfg) (h : cfg.intRaises = false) (st : Style) (t : Token) :
    (decodeTok cfg st t).2.2 = none := by
  cases t with
  | plain p => simp only [decodeTok]; split <;> rfl
  | osc o =>
    simp only [decodeTok]
    split
    · rfl
    · split
      · split <;> rfl
      · rfl
  | sgr s =>
    simp only [decodeTok]
    split
    · rfl
    · obtain ⟨codes, hc⟩ := codesLoop_total cfg h (splitOn ';' s)
      simp only [sgrCodes, hc]
      exact applyCodes_noerr cfg codes st 0

theorem decodeToks_total (cfg : Cfg) (h : cfg.intRaises = false) (toks : List Token) (st : Style) :
    ∃ st' runs, decodeToks cfg st toks = (st', .ok runs) := by
  induction toks generalizing st with
  | nil => exact ⟨st, [], rfl⟩
  | cons t r ih =>
    have hne := decodeTok_noerr cfg h st t
    rcases hd : decodeTok cfg st t with ⟨s1, run, e⟩
    rw [hd] at hne
    simp only at hne
    subst hne
    obtain ⟨s2, runs, h2⟩ := ih s1
    exact ⟨s2, run.toList ++ runs, by simp [decodeToks, hd, h2, Except.map]⟩

/-- `decode_line` raises nothing in the repaired variant, whatever the line and the decoder's state. -/
theorem decodeLine_total (cfg : Cfg) (h : cfg.intRaises = false) : Total cfg :=
  fun st _ => decodeToks_total cfg h _ st

/-! ### an escape-free line comes out complete -/

theorem decodeLine_plain (cfg : Cfg) (st : Style) (l : List Char) (h : textOk l = true) :
    ∃ runs, decodeLine cfg st l = (st, .ok runs) ∧ plainOf runs = l := by
  have e1 : decodeLine cfg st l = R cfg st l [] := by
    simp [decodeLine, R, tokenize, afterLastCR_noCR cfg.crErases l (textOk_noCR h)]
  have e2 := R_text cfg st l [] [] (textOk_noEsc h)
  simp only [List.append_nil, List.nil_append] at e2
  refine ⟨flushRuns st l, ?_, ?_⟩
  · rw [e1, e2, R_nil]; simp [push, Except.map]
  · cases l with
    | nil => simp [flushRuns, plainOf]
    | cons c r =>
      have h1 : removeCsi (c :: r) = c :: r := removeCsi_noEsc _ (textOk_noEsc h)
      simp [flushRuns, h1, plainOf, stripCtl_textOk h]

end Ansi
end RichModel
