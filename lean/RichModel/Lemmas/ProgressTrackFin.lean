import RichModel.Lemmas.ProgressTrack
/-!
`track()` on a started task: every element advances the task by exactly one, the total never moves,
and the task is finished exactly from the first advance on that leaves `completed ≥ total`.
-/
namespace RichModel.Progress

theorem finishCheck_isSome_iff (clock : Clock) (t : Task) (k : Nat) (hs : t.startTime.isSome) :
    (t.finishCheck clock k).1.finishedTime.isSome ↔ (t.finishedTime.isSome ∨ t.total ≤ t.completed) := by
  constructor
  · intro h
    cases hf : t.finishedTime with
    | some v => left; rfl
    | none =>
      right
      unfold Task.finishCheck at h
      by_cases hc : t.total ≤ t.completed ∧ t.finishedTime = none
      · exact hc.1
      · rw [if_neg hc] at h; rw [hf] at h; cases h
  · intro h
    rcases h with h | h
    · unfold Task.finishCheck
      split
      · next hc => rw [hc.2] at h; cases h
      · exact h
    · exact finishCheck_finished clock t k hs h

/-- one `advance(task_id, 1)` on the task it addresses -/
theorem advance_one_effect (cfg : Cfg) (clock : Clock) (i : Nat) (pre : Option Int) (o : Nat) (t : Task) (k : Nat)
    (hs : t.startTime.isSome) :
    ((taskEffect cfg clock (.advance i 1) pre o t k).1).startTime = t.startTime ∧
    ((taskEffect cfg clock (.advance i 1) pre o t k).1).total = t.total ∧
    ((taskEffect cfg clock (.advance i 1) pre o t k).1).completed = t.completed + 1 ∧
    (((taskEffect cfg clock (.advance i 1) pre o t k).1).finishedTime.isSome ↔
      (t.finishedTime.isSome ∨ t.total ≤ t.completed + 1)) := by
  simp only [taskEffect, Task.advanceBody, finishCheck_startTime, finishCheck_total, finishCheck_completed]
  refine ⟨trivial, trivial, trivial, ?_⟩
  rw [finishCheck_isSome_iff _ _ _ (by simpa using hs)]

/-- `n` advances by one, issued for a started task `id`, in any state -/
theorem run_advances_one {α : Type} (cfg : Cfg) (clock : Clock) (id : Nat) (xs : List α) :
    ∀ (st : State), WF st → ∀ t, lookup st.tasks id = some t → t.startTime.isSome →
    ∃ t', lookup (run cfg clock (xs.map (fun _ => Op.advance id 1)) st).tasks id = some t' ∧
      t'.startTime.isSome ∧ t'.total = t.total ∧ t'.completed = t.completed + xs.length ∧
      (t'.finishedTime.isSome ↔ (t.finishedTime.isSome ∨ (0 < xs.length ∧ t.total ≤ t.completed + xs.length))) := by
  induction xs with
  | nil =>
    intro st _ t hl hs
    refine ⟨t, hl, hs, rfl, by simp, ?_⟩
    simp
  | cons x xs ih =>
    intro st hwf t hl hs
    simp only [List.map_cons, run]
    rcases step_lookup cfg clock (.advance id 1) st hwf id t hl with ⟨hrm, _⟩ | ⟨_, _, hl1, _⟩ | ⟨hne, _⟩
    · cases hrm
    · have he := advance_one_effect cfg clock id (preRead cfg clock (.advance id 1) st).1
        (visCount (st.tasks.filter (fun x => x.id != id))) t (preRead cfg clock (.advance id 1) st).2.clk hs
      have hwf1 := (step_WF cfg clock (.advance id 1) st hwf).1
      obtain ⟨t', hl', hs', ht', hc', hf'⟩ := ih _ hwf1 _ hl1 (by unfold taskAfter; rw [he.1]; exact hs)
      refine ⟨t', hl', hs', ?_, ?_, ?_⟩
      · rw [ht']; exact he.2.1
      · rw [hc']; unfold taskAfter; rw [he.2.2.1]; simp only [List.length_cons]; omega
      · rw [hf']
        unfold taskAfter
        rw [he.2.2.2, he.2.1, he.2.2.1]
        simp only [List.length_cons]
        constructor
        · rintro ((h | h) | ⟨_, h⟩)
          · left; exact h
          · right; constructor <;> omega
          · right; constructor <;> omega
        · rintro (h | ⟨_, h⟩)
          · left; left; exact h
          · by_cases hm : xs.length = 0
            · left; right; omega
            · right; constructor <;> omega
    · exact absurd rfl hne

/-- `add_task(start=True)` puts a started, unfinished task under the id `_task_index` -/
theorem step_addTask_started (cfg : Cfg) (clock : Clock) (st : State) (hwf : WF st) (a : AddArgs) (hst : a.start = true) :
    ∃ t, lookup (step cfg clock (.addTask a) st).st.tasks st.nextId = some t ∧
      t.completed = a.completed ∧ t.total = a.total ∧ t.finishedTime = none ∧ t.startTime.isSome := by
  rw [step_eq_body_none]
  simp only [body]
  rw [lookup_append_new (by intro x hx; exact hwf x hx)]
  simp [hst]

end RichModel.Progress
