import RichModel.Lemmas.LayoutBase
import RichModel.Lemmas.Wrap
import RichModel.Lemmas.WrapLine
import RichModel.Lemmas.WrapDivide
import RichModel.Lemmas.WrapFull
import RichModel.Lemmas.WrapWhole
import RichModel.Lemmas.TextRender
import RichModel.Lemmas.TextJoin
/-!
The TEXT lemmas of the composition layer (C01 / C09): every line of a rendered text fits, a text whose `end` is the
line feed ends its last line, what `Text.__rich_measure__` measures, and "a text given its measured maximum is never
wrapped".  Auxiliary list facts are prefixed `txt_`.
-/
namespace RichModel.Layout
open RichModel RichModel.Frames RichModel.Text RichModel.Wrap

/-! ### `splitOnP` -/

theorem txt_cellLen_reverse (cw : Char → Nat) (s : List Char) : cellLen cw s.reverse = cellLen cw s := by
  unfold cellLen
  rw [List.map_reverse, List.sum_reverse]

theorem txt_cellLen_cons (cw : Char → Nat) (c : Char) (s : List Char) : cellLen cw (c :: s) = cw c + cellLen cw s := by
  simp [cellLen]

/-- splitting at a separator character: the pieces before it, then the pieces after it -/
theorem txt_splitOnP_sep (p : Char → Bool) (c : Char) (hc : p c = true) (y : List Char) :
    ∀ (x cur : List Char), splitOnP p (x ++ c :: y) cur = splitOnP p x cur ++ splitOnP p y []
  | [], cur => by simp [splitOnP, hc]
  | a :: x, cur => by
    simp only [List.cons_append, splitOnP]
    split
    · rw [txt_splitOnP_sep p c hc y x []]; rfl
    · exact txt_splitOnP_sep p c hc y x (a :: cur)

theorem txt_splitOnP_congr (p q : Char → Bool) :
    ∀ (s cur : List Char), (∀ c ∈ s, p c = q c) → splitOnP p s cur = splitOnP q s cur
  | [], _, _ => rfl
  | a :: s, cur, h => by
    have ha : p a = q a := h a (by simp)
    have hs : ∀ c ∈ s, p c = q c := fun c hc => h c (by simp [hc])
    simp only [splitOnP, ha]
    rw [txt_splitOnP_congr p q s [] hs, txt_splitOnP_congr p q s (a :: cur) hs]

/-- a piece is a contiguous part of the string: it is never wider -/
theorem txt_splitOnP_le (cw : Char → Nat) (p : Char → Bool) :
    ∀ (s cur : List Char), ∀ x ∈ splitOnP p s cur, cellLen cw x ≤ cellLen cw cur + cellLen cw s
  | [], cur, x, hx => by
    simp only [splitOnP, List.mem_singleton] at hx
    subst hx
    rw [txt_cellLen_reverse]; omega
  | a :: s, cur, x, hx => by
    simp only [splitOnP] at hx
    rw [txt_cellLen_cons]
    split at hx
    · rcases List.mem_cons.mp hx with rfl | hx
      · rw [txt_cellLen_reverse]; omega
      · have := txt_splitOnP_le cw p s [] x hx
        simp only [cellLen, List.map_nil, List.sum_nil] at this ⊢
        omega
    · have := txt_splitOnP_le cw p s (a :: cur) x hx
      rw [txt_cellLen_cons] at this
      omega

/-- the first piece contains the accumulator -/
theorem txt_splitOnP_head_ge (cw : Char → Nat) (p : Char → Bool) :
    ∀ (s cur : List Char), ∃ x ∈ splitOnP p s cur, cellLen cw cur ≤ cellLen cw x
  | [], cur => ⟨cur.reverse, by simp [splitOnP], by rw [txt_cellLen_reverse]; omega⟩
  | a :: s, cur => by
    simp only [splitOnP]
    split
    · exact ⟨cur.reverse, by simp, by rw [txt_cellLen_reverse]; omega⟩
    · obtain ⟨x, hx, h⟩ := txt_splitOnP_head_ge cw p s (a :: cur)
      rw [txt_cellLen_cons] at h
      exact ⟨x, hx, by omega⟩

theorem txt_splitOnP_ne_nil (p : Char → Bool) : ∀ (s cur : List Char), splitOnP p s cur ≠ []
  | [], _ => by simp [splitOnP]
  | a :: s, cur => by
    simp only [splitOnP]
    split
    · simp
    · exact txt_splitOnP_ne_nil p s (a :: cur)

/-- when every `p`-separator is a `q`-separator, a `q`-piece lies inside a `p`-piece -/
theorem txt_splitOnP_refine (cw : Char → Nat) (p q : Char → Bool) (hpq : ∀ c, p c = true → q c = true) :
    ∀ (s cur1 cur2 : List Char), cellLen cw cur1 ≤ cellLen cw cur2 →
      ∀ x ∈ splitOnP q s cur1, ∃ y ∈ splitOnP p s cur2, cellLen cw x ≤ cellLen cw y
  | [], cur1, cur2, h, x, hx => by
    simp only [splitOnP, List.mem_singleton] at hx
    subst hx
    exact ⟨cur2.reverse, by simp [splitOnP], by rw [txt_cellLen_reverse, txt_cellLen_reverse]; exact h⟩
  | a :: s, cur1, cur2, h, x, hx => by
    by_cases hp : p a = true
    · have hq := hpq a hp
      simp only [splitOnP, hp, hq, if_true] at hx ⊢
      rcases List.mem_cons.mp hx with rfl | hx
      · exact ⟨cur2.reverse, by simp, by rw [txt_cellLen_reverse, txt_cellLen_reverse]; exact h⟩
      · obtain ⟨y, hy, hle⟩ := txt_splitOnP_refine cw p q hpq s [] [] (Nat.le_refl _) x hx
        exact ⟨y, by simp [hy], hle⟩
    · by_cases hq : q a = true
      · simp only [splitOnP, hp, hq, if_true] at hx ⊢
        simp only [Bool.false_eq_true, if_false]
        rcases List.mem_cons.mp hx with rfl | hx
        · obtain ⟨y, hy, hle⟩ := txt_splitOnP_head_ge cw p s (a :: cur2)
          rw [txt_cellLen_cons] at hle
          exact ⟨y, hy, by rw [txt_cellLen_reverse]; omega⟩
        · exact txt_splitOnP_refine cw p q hpq s [] (a :: cur2) (by simp [cellLen]) x hx
      · simp only [splitOnP, hp, hq] at hx ⊢
        simp only [Bool.false_eq_true, if_false] at hx ⊢
        exact txt_splitOnP_refine cw p q hpq s (a :: cur1) (a :: cur2)
          (by rw [txt_cellLen_cons, txt_cellLen_cons]; omega) x hx

/-! ### `invB` -/

/-- executable consistency check is sound -/
theorem invB_sound (t : T) (h : invB t = true) : Text.Inv t := by
  unfold invB at h
  simp only [Bool.and_eq_true, List.all_eq_true, decide_eq_true_eq, beq_iff_eq] at h
  obtain ⟨⟨h1, h2⟩, h3⟩ := h
  refine ⟨h1, ?_, ?_⟩
  · intro c hc
    have := h2 c hc
    simpa using this
  · intro sp hsp
    obtain ⟨⟨a, b⟩, c⟩ := h3 sp hsp
    exact ⟨a, b, c⟩

/-! ### `divide_line` on a paragraph that fits -/

theorem txt_divideGo_nil (cw : Char → Nat) (w : Nat) (fold : Bool) :
    ∀ (ws : List (Nat × Nat × List Char)) (lp : Nat), lp + cellLen cw ((ws.map (·.2.2)).flatten) ≤ w →
      divideGo cw w fold lp ws = []
  | [], _, _ => rfl
  | (a, b, word) :: ws, lp, h => by
    simp only [List.map_cons, List.flatten_cons, cellLen_append] at h
    have hr := cellLen_pyRstrip_le cw word
    simp only [divideGo]
    rw [divideStep_fit cw w fold lp a b word (by omega)]
    simp only [List.nil_append]
    exact txt_divideGo_nil cw w fold ws _ (by omega)

/-- a paragraph that fits the width is not divided -/
theorem divideLine_nil_of_fits (cw : Char → Nat) (text : List Char) (w : Nat) (fold : Bool) (h : cellLen cw text ≤ w) :
    Wrap.divideLine cw text w fold = [] := by
  unfold divideLine
  apply txt_divideGo_nil
  obtain ⟨⟨tl, htl, _⟩, _⟩ := words_cover text
  have := congrArg (cellLen cw) htl
  rw [cellLen_append] at this
  omega

/-! ### `Text.__rich_measure__` -/

theorem txt_foldl_max_ge (cw : Char → Nat) : ∀ (l : List (List Char)) (m : Nat),
    m ≤ l.foldl (fun m x => max m (cellLen cw x)) m ∧
    ∀ x ∈ l, cellLen cw x ≤ l.foldl (fun m x => max m (cellLen cw x)) m
  | [], m => ⟨Nat.le_refl _, by intro x hx; cases hx⟩
  | a :: l, m => by
    obtain ⟨h1, h2⟩ := txt_foldl_max_ge cw l (max m (cellLen cw a))
    simp only [List.foldl_cons]
    refine ⟨by omega, ?_⟩
    intro x hx
    rcases List.mem_cons.mp hx with rfl | hx
    · omega
    · exact h2 x hx

theorem txt_foldl_max_mem (cw : Char → Nat) : ∀ (l : List (List Char)) (m : Nat),
    l.foldl (fun m x => max m (cellLen cw x)) m = m ∨
    ∃ x ∈ l, cellLen cw x = l.foldl (fun m x => max m (cellLen cw x)) m
  | [], m => Or.inl rfl
  | a :: l, m => by
    simp only [List.foldl_cons]
    rcases txt_foldl_max_mem cw l (max m (cellLen cw a)) with h | ⟨x, hx, h⟩
    · rw [h]
      by_cases hm : cellLen cw a ≤ m
      · left; omega
      · right; exact ⟨a, by simp, by omega⟩
    · right; exact ⟨x, by simp [hx], h⟩

theorem txt_maxCellLen_ge (cw : Char → Nat) (l : List (List Char)) : ∀ x ∈ l, cellLen cw x ≤ maxCellLen cw l :=
  (txt_foldl_max_ge cw l 0).2

theorem txt_maxCellLen_mem (cw : Char → Nat) (l : List (List Char)) (hl : l ≠ []) :
    ∃ x ∈ l, cellLen cw x = maxCellLen cw l := by
  rcases txt_foldl_max_mem cw l 0 with h | h
  · cases l with
    | nil => exact absurd rfl hl
    | cons a l =>
      refine ⟨a, by simp, ?_⟩
      have := txt_maxCellLen_ge cw (a :: l) a (by simp)
      unfold maxCellLen at this ⊢
      omega
  · exact h

/-- every `str.splitlines` boundary is whitespace -/
theorem txt_lineBreak_space (c : Char) (h : isLineBreak c = true) : pyIsSpace c = true := by
  unfold isLineBreak at h
  simp only [Bool.or_eq_true, beq_iff_eq] at h
  unfold pyIsSpace
  rcases h with ((((((((h | h) | h) | h) | h) | h) | h) | h) | h) | h <;> rw [h] <;> decide

/-- the measured maximum is the width of the widest line, the minimum the width of the widest word (C09 `text_measure_spec`):
for a text that is not all whitespace, every `\n`/line-break separated piece is at most `maximum` wide and one of them is exactly
that wide; every whitespace-separated piece is at most `minimum` wide and one of them is exactly that wide. -/
theorem text_measure_spec (cw : Char → Nat) (t : T) (hne : t.plain.all pyIsSpace = false) :
    (∀ p ∈ splitOnP isLineBreak t.plain [], (cellLen cw p : Int) ≤ (textRichMeasure cw t).maximum) ∧
    (∃ p ∈ splitOnP isLineBreak t.plain [], (cellLen cw p : Int) = (textRichMeasure cw t).maximum) ∧
    (∀ p ∈ splitOnP pyIsSpace t.plain [], (cellLen cw p : Int) ≤ (textRichMeasure cw t).minimum) ∧
    (∃ p ∈ splitOnP pyIsSpace t.plain [], (cellLen cw p : Int) = (textRichMeasure cw t).minimum) ∧
    (textRichMeasure cw t).minimum ≤ (textRichMeasure cw t).maximum := by
  have hm : textRichMeasure cw t =
      ⟨(maxCellLen cw (splitOnP pyIsSpace t.plain []) : Nat), (maxCellLen cw (splitOnP isLineBreak t.plain []) : Nat)⟩ := by
    unfold textRichMeasure
    rw [hne]; rfl
  rw [hm]
  simp only
  refine ⟨?_, ?_, ?_, ?_, ?_⟩
  · intro p hp
    have := txt_maxCellLen_ge cw _ p hp
    omega
  · obtain ⟨p, hp, h⟩ := txt_maxCellLen_mem cw _ (txt_splitOnP_ne_nil isLineBreak t.plain [])
    exact ⟨p, hp, by omega⟩
  · intro p hp
    have := txt_maxCellLen_ge cw _ p hp
    omega
  · obtain ⟨p, hp, h⟩ := txt_maxCellLen_mem cw _ (txt_splitOnP_ne_nil pyIsSpace t.plain [])
    exact ⟨p, hp, by omega⟩
  · obtain ⟨q, hq, h⟩ := txt_maxCellLen_mem cw _ (txt_splitOnP_ne_nil pyIsSpace t.plain [])
    obtain ⟨y, hy, hle⟩ := txt_splitOnP_refine cw isLineBreak pyIsSpace txt_lineBreak_space t.plain [] []
      (Nat.le_refl _) q hq
    have := txt_maxCellLen_ge cw _ y hy
    omega

/-- **a text given its measured maximum is never wrapped** (C09 `text_at_max_not_wrapped`): when `\n` is the only line
break in the text, every paragraph (piece between line feeds) is left undivided at any width ≥ the measured maximum. -/
theorem text_at_max_not_wrapped (cw : Char → Nat) (t : T) (w : Nat) (fold : Bool)
    (hnb : ∀ c ∈ t.plain, isLineBreak c = true → c = '\n')
    (hw : (textRichMeasure cw t).maximum ≤ (w : Int)) :
    ∀ p ∈ Layout.pieces t.plain, Wrap.divideLine cw p w fold = [] := by
  intro p hp
  apply divideLine_nil_of_fits
  by_cases hall : t.plain.all pyIsSpace = true
  · have hm : (textRichMeasure cw t).maximum = (cellLen cw t.plain : Nat) := by
      unfold textRichMeasure
      rw [hall]; rfl
    have := txt_splitOnP_le cw _ t.plain [] p hp
    rw [show cellLen cw [] = 0 from rfl] at this
    rw [hm] at hw
    omega
  · have hne : t.plain.all pyIsSpace = false := by simpa using hall
    have heq : Layout.pieces t.plain = splitOnP isLineBreak t.plain [] := by
      unfold Layout.pieces
      apply txt_splitOnP_congr
      intro c hc
      by_cases hb : isLineBreak c = true
      · rw [hb, hnb c hc hb]; rfl
      · have hb' : isLineBreak c = false := by simpa using hb
        rw [hb']
        have : c ≠ '\n' := by
          intro h; rw [h] at hb; exact hb (by decide)
        simpa using this
    rw [heq] at hp
    have := (text_measure_spec cw t hne).1 p hp
    omega

/-! ### `Text.__rich_console__` -/

theorem txt_flat_map (segs : List (Text.RSeg S)) : flat (segs.map rsegToSeg) = segs.flatMap (·.text) := by
  induction segs with
  | nil => rfl
  | cons a l ih =>
    simp only [flat, List.map_cons, List.flatMap_cons] at ih ⊢
    rw [ih]; rfl

theorem txt_segStream_fst (segs : List (Text.RSeg S)) : (segStream segs).map (·.1) = segs.flatMap (·.text) := by
  induction segs with
  | nil => rfl
  | cons a l ih =>
    simp only [segStream, List.flatMap_cons, List.map_append] at ih ⊢
    rw [ih]
    simp [Function.comp_def]

/-- the visible text of a rendered consistent text: its characters and then its `end` -/
theorem txt_render_flat (t : T) (h : Text.Inv t) (e : List Char) (segs : List (Text.RSeg S))
    (hr : t.render e = .ok segs) : flat (segs.map rsegToSeg) = t.plain ++ e := by
  obtain ⟨s1, h1, h2⟩ := render_view_aux t h
  unfold Text.render at hr h1
  obtain ⟨a, ha, hr⟩ := bind_ok.mp hr
  obtain ⟨b, hb, h1⟩ := bind_ok.mp h1
  rw [ha] at hb
  cases hb
  cases hr
  cases h1
  have hpl : a.flatMap (·.text) = t.plain := by
    have := congrArg (List.map (·.1)) h2
    rw [view_eq_annot, annot_map_fst, txt_segStream_fst] at this
    simpa using this
  rw [txt_flat_map, List.flatMap_append, hpl]
  cases e with
  | nil => simp
  | cons c e => simp

theorem txt_sep_plain (v : Variant) : (Text.new v ['\n'] ([0] : S)).plain = ['\n'] := by
  simp only [Text.new, stripControl]
  decide

theorem txt_pieces_nil : Layout.pieces [] = [[]] := rfl

theorem txt_pieces_sep (x y : List Char) : Layout.pieces (x ++ '\n' :: y) = Layout.pieces x ++ Layout.pieces y :=
  txt_splitOnP_sep _ '\n' (by decide) y x []

theorem txt_pieces_le (cw : Char → Nat) (x : List Char) : ∀ p ∈ Layout.pieces x, cellLen cw p ≤ cellLen cw x := by
  intro p hp
  have := txt_splitOnP_le cw _ x [] p hp
  rw [show cellLen cw [] = 0 from rfl] at this
  omega

theorem txt_pieces_end (cw : Char → Nat) (w : Nat) (x e : List Char) (he : e = ['\n'] ∨ e = [])
    (h : ∀ p ∈ Layout.pieces x, cellLen cw p ≤ w) : ∀ p ∈ Layout.pieces (x ++ e), cellLen cw p ≤ w := by
  rcases he with rfl | rfl
  · rw [txt_pieces_sep, txt_pieces_nil]
    intro p hp
    rcases List.mem_append.mp hp with hp | hp
    · exact h p hp
    · simp only [List.mem_singleton] at hp
      subst hp
      exact Nat.zero_le _
  · simpa using h

/-- the lines of `"\n".join(lines) + end` are pieces of the lines -/
theorem txt_join_fits (cw : Char → Nat) (w : Nat) (sep : T) (hsep : sep.plain = ['\n']) (e : List Char)
    (he : e = ['\n'] ∨ e = []) : ∀ lines : List T, (∀ l ∈ lines, cellLen cw l.plain ≤ w) →
      ∀ p ∈ Layout.pieces (((joinSeq sep lines).map (·.plain)).flatten ++ e), cellLen cw p ≤ w
  | [], _ => by
    simp only [joinSeq, List.map_nil, List.flatten_nil]
    apply txt_pieces_end cw w [] e he
    intro p hp
    rw [txt_pieces_nil, List.mem_singleton] at hp
    subst hp
    exact Nat.zero_le _
  | [x], h => by
    simp only [joinSeq, List.map_cons, List.map_nil, List.flatten_cons, List.flatten_nil, List.append_nil]
    apply txt_pieces_end cw w x.plain e he
    intro p hp
    exact Nat.le_trans (txt_pieces_le cw _ p hp) (h x (by simp))
  | x :: y :: rest, h => by
    have ih := txt_join_fits cw w sep hsep e he (y :: rest) (fun l hl => h l (by simp [hl]))
    simp only [joinSeq, hsep, List.isEmpty_cons, Bool.false_eq_true, if_false, List.map_cons, List.flatten_cons]
    rw [List.append_assoc, List.append_assoc, List.singleton_append, txt_pieces_sep]
    intro p hp
    rcases List.mem_append.mp hp with hp | hp
    · exact Nat.le_trans (txt_pieces_le cw _ p hp) (h x (by simp))
    · exact ih p hp

/-- every line `Text.__rich_console__` wraps the text into fits (C02 `wrap_lines_fit` at any width ≥ 1) -/
theorem txt_lines_fit (cfg : Cfg) (hsp : cfg.cw ' ' = 1) (h2 : ∀ c, cfg.cw c ≤ 2) (hel : cfg.cw '…' = 1)
    (t : T) (o : Opts) (w : Nat) (hw : 1 ≤ w) (hov : effOverflow t o ≠ RichModel.Overflow.ignore)
    (lines : List T) (h : textLines cfg t o w = .ok lines) : ∀ l ∈ lines, cellLen cfg.cw l.plain ≤ w := by
  unfold textLines Wrap.wrap at h
  obtain ⟨ps, _, h⟩ := bind_ok.mp h
  intro l hl
  obtain ⟨l0, rfl⟩ := wrapParagraphs_all_truncated cfg.wv cfg.cw alg w _ _ _ _ ps lines h l hl
  exact truncate_fits cfg.cw hsp h2 hel l0 w hw _ hov false

/-- what `textConsole` emits when nothing raises -/
theorem txt_console_ok (cfg : Cfg) (t : T) (o : Opts) (w : Nat) (s : List Seg) (h : textConsoleE cfg t o w = .ok s) :
    ∃ lines, textLines cfg t o w = .ok lines ∧
      flat s = (Text.join cfg.wv.text (Text.new cfg.wv.text ['\n'] [0]) lines).plain ++ t.endStr := by
  unfold textConsoleE at h
  obtain ⟨lines, hl, h⟩ := bind_ok.mp h
  refine ⟨lines, hl, ?_⟩
  simp only at h
  split at h
  · rename_i hinv
    obtain ⟨segs, hr, h⟩ := bind_ok.mp h
    cases h
    exact txt_render_flat _ (invB_sound _ hinv) _ _ hr
  · cases h

/-- **every line of a rendered text fits** (C01, text case): width at least one cell, overflow not "ignore". -/
theorem text_fits (cfg : Cfg) (hsp : cfg.cw ' ' = 1) (h2 : ∀ c, cfg.cw c ≤ 2) (hel : cfg.cw '…' = 1) (hp : cfg.poison = [])
    (t : T) (o : Opts) (w : Nat) (hw : 1 ≤ w) (hov : effOverflow t o ≠ RichModel.Overflow.ignore)
    (hend : t.endStr = ['\n'] ∨ t.endStr = []) : Fits cfg.cw w (textConsole cfg t o w) := by
  unfold textConsole
  cases hE : textConsoleE cfg t o w with
  | error e =>
    simp only [hp]
    intro p hq
    rw [show flat ([] : List Seg) = [] from rfl, txt_pieces_nil, List.mem_singleton] at hq
    subst hq
    exact Nat.zero_le _
  | ok s =>
    simp only
    obtain ⟨lines, hl, hflat⟩ := txt_console_ok cfg t o w s hE
    unfold Fits
    rw [hflat, join_plain]
    exact txt_join_fits cfg.cw w _ (txt_sep_plain _) t.endStr hend lines
      (txt_lines_fit cfg hsp h2 hel t o w hw hov lines hl)

/-- a text whose `end` is the line feed ends its last line -/
theorem text_closed (cfg : Cfg) (hp : cfg.poison = []) (t : T) (o : Opts) (w : Nat) (hend : t.endStr = ['\n']) :
    Closed (textConsole cfg t o w) := by
  unfold textConsole
  cases hE : textConsoleE cfg t o w with
  | error e =>
    simp only [hp]
    exact Or.inl rfl
  | ok s =>
    simp only
    obtain ⟨lines, _, hflat⟩ := txt_console_ok cfg t o w s hE
    right
    rw [hflat, hend, List.getLast?_concat]

end RichModel.Layout
