import RichModel.Lemmas.FramesRect
/-!
Lemmas for `Rule`, `Bar` and `ProgressBar`: the parts sum to the width.
-/
namespace RichModel.Frames
open RichModel
variable {σ : Type}

/-! ## Rule -/

/-- the text a rule yields is exactly `w` cells wide: the last statement is `set_cell_size(…, width)` -/
theorem ruleText_cellLen (cw : Char → Nat) (hsp : cw ' ' = 1) (h2 : ∀ c, cw c ≤ 2) (env : Env) (v : Variant) (o : RuleOpts) (w : Int)
    (hw : 0 ≤ w) : cellLen cw (ruleText cw env v o w).1 = w.toNat := by
  unfold ruleText
  simp only
  split
  · exact setCellSizeI_cellLen cw hsp h2 _ w hw
  · exact setCellSizeI_cellLen cw hsp h2 _ w hw

theorem rstripEnd_id (cw : Char → Nat) (v : Variant) (plain : List Char) (w : Int)
    (h : (if v.rstripCountsChars = true then (plain.length : Int) else (cellLen cw plain : Int)) ≤ w ∨ trailingSpaces plain = 0) :
    rstripEnd cw v plain w = plain := by
  unfold rstripEnd
  simp only
  generalize (if v.rstripCountsChars = true then (plain.length : Int) else (cellLen cw plain : Int)) = tl at h
  by_cases h1 : tl > w
  · rcases h with h | h
    · omega
    · simp [h1, h]
  · simp [h1]

theorem setCellSizeI_id (cw : Char → Nat) (t : List Char) (n : Int) (h : (cellLen cw t : Int) = n) : setCellSizeI cw t n = t := by
  unfold setCellSizeI setCellSize
  have h0 : ¬ n < 0 := by omega
  have h1 : (cellLen cw t == n.toNat) = true := by simp; omega
  simp [h0, h1]

/-- Repaired `Rule(align="right")`: when the title fits (`cells(title) + 2 ≤ w`) the rule text is a side of
exactly `w - cells(title) - 1` cells, one blank, and the whole title — for every `characters`. -/
theorem ruleText_right_repaired (cw : Char → Nat) (hsp : cw ' ' = 1) (h2 : ∀ c, cw c ≤ 2) (env : Env) (z : Bool) (o : RuleOpts) (w : Int)
    (ha : o.align = .right) (hne : o.title ≠ [])
    (hfit : (cellLen cw (o.title.map (fun c => if c == '\n' then ' ' else c)) : Int) + 2 ≤ w) :
    ∃ side : List Char,
      (ruleText cw env { zeroWidthChild := z, ruleRightRepeat := false } o w).1
        = side ++ [' '] ++ o.title.map (fun c => if c == '\n' then ' ' else c) ∧
      (cellLen cw side : Int) = w - cellLen cw (o.title.map (fun c => if c == '\n' then ' ' else c)) - 1 := by
  unfold ruleText
  have he : o.title.isEmpty = false := by cases h : o.title <;> simp_all
  simp only [he, Bool.false_eq_true, if_false, ha]
  generalize o.title.map (fun c => if c == '\n' then ' ' else c) = title at hfit ⊢
  have htr : textTruncate cw title (w - 2) .ellipsis = title := by
    unfold textTruncate
    simp only [show (Overflow.ellipsis == Overflow.ignore) = false from rfl, Bool.false_eq_true, if_false]
    rw [if_neg (by omega)]
  simp only [htr]
  generalize hside : setCellSizeI cw (repStr ((w - (cellLen cw title : Int) - 1) /
      (cellLen cw (if (env.asciiOnly && !o.characters.all fun c => decide (c.toNat < 128)) = true then ['-'] else o.characters) : Int) + 1)
      (if (env.asciiOnly && !o.characters.all fun c => decide (c.toNat < 128)) = true then ['-'] else o.characters))
      (w - (cellLen cw title : Int) - 1) = side
  have hsl : (cellLen cw side : Int) = w - cellLen cw title - 1 := by
    rw [← hside, setCellSizeI_cellLen cw hsp h2 _ _ (by omega)]
    omega
  refine ⟨side, ?_, hsl⟩
  apply setCellSizeI_id
  simp only [cellLen_append, cellLen_cons, cellLen_nil, hsp]
  omega

/-! ## Bar -/

theorem ediv_le_ediv_cross (a b c d : Int) (hb : 0 < b) (hd : 0 < d) (h : a * d ≤ c * b) : a / b ≤ c / d := by
  rw [Int.le_ediv_iff_mul_le hd]
  have h1 : a / b * b ≤ a := Int.ediv_mul_le a (by omega)
  have h2 : a / b * b * d ≤ a * d := Int.mul_le_mul_of_nonneg_right h1 (by omega)
  have h3 : a / b * d * b ≤ c * b := by
    have : a / b * d * b = a / b * b * d := by rw [Int.mul_assoc, Int.mul_comm d b, ← Int.mul_assoc]
    rw [this]; omega
  exact Int.le_of_mul_le_mul_right h3 hb

/-- `int(k * a / b)` for non-negative operands is the floor of the exact quotient -/
theorem truncMulDiv_eq (k : Int) (a b : Rat') (hk : 0 ≤ k) (ha : 0 ≤ a.num) (hb : 0 ≤ b.den) :
    truncMulDiv k a b = (k * a.num * b.den) / (a.den * b.num) := by
  unfold truncMulDiv
  apply Int.tdiv_eq_ediv_of_nonneg
  apply Int.mul_nonneg (Int.mul_nonneg hk ha)
  omega

theorem getD_mem_or {α : Type} (l : List α) (i : Nat) (d : α) : l.getD i d ∈ l ∨ l.getD i d = d := by
  rw [List.getD_eq_getElem?_getD]
  cases h : l[i]? with
  | none => right; rfl
  | some x => left; exact List.mem_of_getElem? h

/-- every character a bar can contain -/
def barChars : List Char := [' ', '█', '▐', '▕', '▏', '▎', '▍', '▌', '▋', '▊', '▉']

theorem beginBlocks_sub : ∀ c ∈ beginBlocks, c ∈ barChars := by decide
theorem endBlocks_sub : ∀ c ∈ endBlocks, c ∈ barChars := by decide

/-- `Bar`: one text segment of exactly `width` characters drawn from `barChars`, then a line feed.
Hypotheses = what `Bar.__init__` establishes (`0 ≤ begin`, `end ≤ size`) plus positive denominators. -/
theorem barConsole_exact (o : BarOpts) (w : Int)
    (hsd : 0 < o.size.den) (hbd : 0 < o.beginV.den) (hed : 0 < o.endV.den)
    (hb0 : 0 ≤ o.beginV.num) (hes : o.endV.le o.size = true) (hw : 0 ≤ barWidth o.width w) :
    ∃ text : List Char, barConsole (σ := σ) o w = [seg text, nl] ∧ text.length = (barWidth o.width w).toNat ∧
      ∀ c ∈ text, c ∈ barChars := by
  unfold barConsole
  simp only
  generalize barWidth o.width w = width at hw ⊢
  by_cases hbe : o.endV.le o.beginV = true
  · simp only [hbe, if_true]
    refine ⟨_, rfl, by simp, ?_⟩
    intro c hc
    simp only [rep, List.mem_replicate] at hc
    rw [hc.2]; decide
  · simp only [hbe, Bool.false_eq_true, if_false]
    -- arithmetic facts
    simp only [Rat'.le, decide_eq_true_eq] at hes hbe
    have hbd' : (0 : Int) < o.beginV.den := by omega
    have hed' : (0 : Int) < o.endV.den := by omega
    have hsd' : (0 : Int) < o.size.den := by omega
    have hlt : o.beginV.num * o.endV.den < o.endV.num * o.beginV.den := by omega
    have hen : 0 < o.endV.num := by
      by_cases h : 0 < o.endV.num
      · exact h
      · have h1 : o.endV.num * o.beginV.den ≤ 0 := Int.mul_nonpos_of_nonpos_of_nonneg (by omega) (by omega)
        have h2 : 0 ≤ o.beginV.num * o.endV.den := Int.mul_nonneg hb0 (by omega)
        omega
    have hsn : 0 < o.size.num := by
      by_cases h : 0 < o.size.num
      · exact h
      · have h1 : o.size.num * o.endV.den ≤ 0 := Int.mul_nonpos_of_nonpos_of_nonneg (by omega) (by omega)
        have h2 : 0 < o.endV.num * o.size.den := Int.mul_pos hen hsd'
        omega
    have hk : 0 ≤ width * 8 := by omega
    rw [truncMulDiv_eq _ _ _ hk hb0 (by omega), truncMulDiv_eq _ _ _ hk (by omega) (by omega)]
    generalize hpce : (width * 8 * o.beginV.num * o.size.den) / (o.beginV.den * o.size.num) = pce
    generalize hbce : (width * 8 * o.endV.num * o.size.den) / (o.endV.den * o.size.num) = bce
    have hp0 : 0 ≤ pce := by
      rw [← hpce]
      exact Int.ediv_nonneg (Int.mul_nonneg (Int.mul_nonneg hk hb0) (by omega)) (Int.mul_nonneg (by omega) (by omega))
    have hpb : pce ≤ bce := by
      rw [← hpce, ← hbce]
      apply ediv_le_ediv_cross _ _ _ _ (Int.mul_pos hbd' hsn) (Int.mul_pos hed' hsn)
      -- (k*bn*sd) * (ed*sn) ≤ (k*en*sd) * (bd*sn)
      have e1 : width * 8 * o.beginV.num * o.size.den * (o.endV.den * o.size.num)
          = (width * 8 * o.size.den * o.size.num) * (o.beginV.num * o.endV.den) := by
        simp only [Int.mul_assoc, Int.mul_comm, Int.mul_left_comm]
      have e2 : width * 8 * o.endV.num * o.size.den * (o.beginV.den * o.size.num)
          = (width * 8 * o.size.den * o.size.num) * (o.endV.num * o.beginV.den) := by
        simp only [Int.mul_assoc, Int.mul_comm, Int.mul_left_comm]
      rw [e1, e2]
      apply Int.mul_le_mul_of_nonneg_left (by omega)
      exact Int.mul_nonneg (Int.mul_nonneg hk (by omega)) (by omega)
    have hbw : bce ≤ width * 8 := by
      rw [← hbce]
      apply Int.ediv_le_of_le_mul (Int.mul_pos hed' hsn)
      -- k*en*sd ≤ k * (ed*sn)
      have e1 : width * 8 * o.endV.num * o.size.den = (width * 8) * (o.endV.num * o.size.den) := by
        simp only [Int.mul_assoc]
      have e2 : width * 8 * (o.endV.den * o.size.num) = (width * 8) * (o.size.num * o.endV.den) := by
        simp only [Int.mul_comm]
      rw [e1, e2]
      exact Int.mul_le_mul_of_nonneg_left hes hk
    -- the pieces
    have hpre : ∀ c ∈ rep (pce / 8) ' ' ++ (if (pce % 8 != 0) = true then [beginBlocks.getD (pce % 8).toNat ' '] else []), c ∈ barChars := by
      intro c hc
      rcases List.mem_append.mp hc with h | h
      · simp only [rep, List.mem_replicate] at h; rw [h.2]; decide
      · split at h
        · simp only [List.mem_singleton] at h
          rw [h]
          rcases getD_mem_or beginBlocks (pce % 8).toNat ' ' with h' | h'
          · exact beginBlocks_sub _ h'
          · rw [h']; decide
        · simp at h
    have hbody : ∀ c ∈ rep (bce / 8) '█' ++ (if (bce % 8 != 0) = true then [endBlocks.getD (bce % 8).toNat ' '] else []), c ∈ barChars := by
      intro c hc
      rcases List.mem_append.mp hc with h | h
      · simp only [rep, List.mem_replicate] at h; rw [h.2]; decide
      · split at h
        · simp only [List.mem_singleton] at h
          rw [h]
          rcases getD_mem_or endBlocks (bce % 8).toNat ' ' with h' | h'
          · exact endBlocks_sub _ h'
          · rw [h']; decide
        · simp at h
    refine ⟨_, rfl, ?_, ?_⟩
    · simp only [List.length_append, List.length_drop, rep_length]
      by_cases h1 : pce % 8 = 0 <;> by_cases h2 : bce % 8 = 0 <;> simp [h1, h2] <;> omega
    · intro c hc
      rcases List.mem_append.mp hc with h | h
      · rcases List.mem_append.mp h with h | h
        · exact hpre c h
        · exact hbody c (List.mem_of_mem_drop h)
      · simp only [rep, List.mem_replicate] at h; rw [h.2]; decide

theorem drop_replicate_append {α : Type} (n k : Nat) (a : α) (e : List α) (h : k ≤ n) :
    (List.replicate n a ++ e).drop k = List.replicate (n - k) a ++ e := by
  rw [List.drop_append_of_le_length (by simp; exact h)]
  simp

theorem drop_body (a b : Nat) (px ex : List Char) (hex : ex.length ≤ 1) (h : a + px.length ≤ b + 1) :
    (List.replicate b '█' ++ ex).drop (a + px.length)
      = List.replicate (b - (a + px.length)) '█' ++ (if a + px.length ≤ b then ex else []) := by
  by_cases hle : a + px.length ≤ b
  · rw [drop_replicate_append _ _ _ _ hle, if_pos hle]
  · rw [if_neg hle, List.drop_eq_nil_of_le (by simp; omega)]
    have : b - (a + px.length) = 0 := by omega
    rw [this]; rfl

/-- **Which cells of a `Bar` are blank, partial and full**, as a function of `begin`, `end`, `size`.
With `lo = ⌊8·width·begin/size⌋` and `hi = ⌊8·width·end/size⌋` (eighths of a cell), `0 ≤ lo ≤ hi ≤ 8·width`:
`lo / 8` blank cells, then — if `lo` is not a multiple of 8 — one right-aligned partial block
`BEGIN[lo % 8]`, then full blocks up to cell `hi / 8`, then — if `hi` is not a multiple of 8 and that
cell is not already taken by the begin block — one left-aligned partial block `END[hi % 8]`, then blanks
up to `width`. -/
theorem barConsole_spec (o : BarOpts) (w : Int)
    (hsd : 0 < o.size.den) (hbd : 0 < o.beginV.den) (hed : 0 < o.endV.den)
    (hb0 : 0 ≤ o.beginV.num) (hes : o.endV.le o.size = true) (hlt : o.endV.le o.beginV = false)
    (hw : 0 ≤ barWidth o.width w) :
    let width := barWidth o.width w
    let lo := (width * 8 * o.beginV.num * o.size.den) / (o.beginV.den * o.size.num)
    let hi := (width * 8 * o.endV.num * o.size.den) / (o.endV.den * o.size.num)
    let px : List Char := if lo % 8 != 0 then [beginBlocks.getD (lo % 8).toNat ' '] else []
    let ex : List Char := if hi % 8 != 0 then [endBlocks.getD (hi % 8).toNat ' '] else []
    0 ≤ lo ∧ lo ≤ hi ∧ hi ≤ width * 8 ∧
    barConsole (σ := σ) o w =
      [seg (List.replicate (lo / 8).toNat ' ' ++ px
            ++ (List.replicate ((hi / 8).toNat - ((lo / 8).toNat + px.length)) '█'
                ++ (if (lo / 8).toNat + px.length ≤ (hi / 8).toNat then ex else []))
            ++ List.replicate (width.toNat - ((hi / 8).toNat + ex.length)) ' '), nl] := by
  intro width lo hi px ex
  have hes' := hes
  have hlt0 := hlt
  simp only [Rat'.le, decide_eq_true_eq, decide_eq_false_iff_not] at hes hlt
  have hbd' : (0 : Int) < o.beginV.den := by omega
  have hed' : (0 : Int) < o.endV.den := by omega
  have hsd' : (0 : Int) < o.size.den := by omega
  have hen : 0 < o.endV.num := by
    by_cases h : 0 < o.endV.num
    · exact h
    · have h1 : o.endV.num * o.beginV.den ≤ 0 := Int.mul_nonpos_of_nonpos_of_nonneg (by omega) (by omega)
      have h2 : 0 ≤ o.beginV.num * o.endV.den := Int.mul_nonneg hb0 (by omega)
      omega
  have hsn : 0 < o.size.num := by
    by_cases h : 0 < o.size.num
    · exact h
    · have h1 : o.size.num * o.endV.den ≤ 0 := Int.mul_nonpos_of_nonpos_of_nonneg (by omega) (by omega)
      have h2 : 0 < o.endV.num * o.size.den := Int.mul_pos hen hsd'
      omega
  have hk : 0 ≤ width * 8 := by show 0 ≤ barWidth o.width w * 8; omega
  have hp0 : 0 ≤ lo :=
    Int.ediv_nonneg (Int.mul_nonneg (Int.mul_nonneg hk hb0) (by omega)) (Int.mul_nonneg (by omega) (by omega))
  have hpb : lo ≤ hi := by
    apply ediv_le_ediv_cross _ _ _ _ (Int.mul_pos hbd' hsn) (Int.mul_pos hed' hsn)
    have e1 : width * 8 * o.beginV.num * o.size.den * (o.endV.den * o.size.num)
        = (width * 8 * o.size.den * o.size.num) * (o.beginV.num * o.endV.den) := by
      simp only [Int.mul_assoc, Int.mul_comm, Int.mul_left_comm]
    have e2 : width * 8 * o.endV.num * o.size.den * (o.beginV.den * o.size.num)
        = (width * 8 * o.size.den * o.size.num) * (o.endV.num * o.beginV.den) := by
      simp only [Int.mul_assoc, Int.mul_comm, Int.mul_left_comm]
    rw [e1, e2]
    apply Int.mul_le_mul_of_nonneg_left (by omega)
    exact Int.mul_nonneg (Int.mul_nonneg hk (by omega)) (by omega)
  have hbw : hi ≤ width * 8 := by
    apply Int.ediv_le_of_le_mul (Int.mul_pos hed' hsn)
    have e1 : width * 8 * o.endV.num * o.size.den = (width * 8) * (o.endV.num * o.size.den) := by
      simp only [Int.mul_assoc]
    have e2 : width * 8 * (o.endV.den * o.size.num) = (width * 8) * (o.size.num * o.endV.den) := by
      simp only [Int.mul_comm]
    rw [e1, e2]
    exact Int.mul_le_mul_of_nonneg_left hes hk
  refine ⟨hp0, hpb, hbw, ?_⟩
  have hpx : px.length ≤ 1 := by simp only [px]; split <;> simp
  have hex : ex.length ≤ 1 := by simp only [ex]; split <;> simp
  unfold barConsole
  simp only [hlt0, Bool.false_eq_true, if_false]
  rw [truncMulDiv_eq _ _ _ hk hb0 (by omega), truncMulDiv_eq _ _ _ hk (by omega) (by omega)]
  show [seg ((rep (lo / 8) ' ' ++ px) ++ List.drop (rep (lo / 8) ' ' ++ px).length (rep (hi / 8) '█' ++ ex)
      ++ rep (width - ((rep (hi / 8) '█' ++ ex).length : Nat)) ' '), nl] = _
  simp only [rep, List.length_append, List.length_replicate]
  rw [drop_body _ _ _ _ hex (by omega)]
  congr 4
  omega

/-! ## ProgressBar -/

theorem ite_length {α : Type} {c : Prop} [Decidable c] (a b : List α) (n : Nat) (ha : a.length = n) (hb : b.length = n) :
    (if c then a else b).length = n := by split <;> assumption

theorem ite_mem {α : Type} {c : Prop} [Decidable c] (a b : List α) (x : α) (h : x ∈ (if c then a else b)) : x ∈ a ∨ x ∈ b := by
  split at h
  · exact Or.inl h
  · exact Or.inr h

theorem pulseChars_length (env : Env) (ascii : Bool) : (pulseChars env ascii).length = 20 := by
  unfold pulseChars
  exact ite_length _ _ _ (by simp [pulseSize]) (by simp [pulseSize])

theorem pulseChars_mem (env : Env) (ascii : Bool) : ∀ c ∈ pulseChars env ascii, c = '-' ∨ c = '━' ∨ c = ' ' := by
  intro c hc
  unfold pulseChars at hc
  have hbar : (if ascii = true then '-' else '━') = '-' ∨ (if ascii = true then '-' else '━') = '━' := by
    cases ascii <;> simp
  rcases ite_mem _ _ c hc with h | h
  · rcases List.mem_append.mp h with h | h
    · rw [(List.mem_replicate.mp h).2]
      rcases hbar with hb | hb <;> simp [hb]
    · rw [(List.mem_replicate.mp h).2]
      split
      · simp
      · rcases hbar with hb | hb <;> simp [hb]
  · rw [(List.mem_replicate.mp h).2]
    rcases hbar with hb | hb <;> simp [hb]

theorem lineLength_opt_single (cw : Char → Nat) (b : Bool) (x : Char) (hx : cw x = 1) :
    lineLength cw (if b = true then [(seg [x] : Segment σ)] else []) = if b then 1 else 0 := by
  cases b
  · simp
  · rw [if_pos rfl, lineLength_seg, cellLen_cons, hx]; simp

theorem length_flatten_replicate {α : Type} (n : Nat) (l : List α) : (List.replicate n l).flatten.length = n * l.length := by
  induction n with
  | zero => simp
  | succ n ih => simp [List.replicate_succ, ih, Nat.succ_mul]; omega

theorem mem_flatten_replicate {α : Type} (n : Nat) (l : List α) (x : α) (h : x ∈ (List.replicate n l).flatten) : x ∈ l := by
  simp only [List.mem_flatten, List.mem_replicate] at h
  obtain ⟨l', ⟨_, rfl⟩, hx⟩ := h
  exact hx

theorem lineLength_singles (cw : Char → Nat) (l : List Char) (h : ∀ c ∈ l, cw c = 1) :
    lineLength cw (l.map (fun ch => (seg [ch] : Segment σ))) = l.length := by
  induction l with
  | nil => rfl
  | cons c l ih =>
    simp only [List.map_cons, lineLength_cons, List.length_cons]
    rw [ih (fun d hd => h d (by simp [hd]))]
    simp [seg, Segment.cellLength, cellLen, h c (by simp)]
    omega

theorem lineLength_opt_rep (cw : Char → Nat) (n : Int) (ch : Char) (h : cw ch = 1) :
    lineLength cw (if (n != 0) = true then [(seg (rep n ch) : Segment σ)] else []) = n.toNat := by
  split
  · rw [lineLength_seg, cellLen_rep cw _ _ h]
  · rename_i hn; simp at hn; simp [hn]

/-- pulse: exactly `width` one-character segments -/
theorem progress_pulse_exact (cw : Char → Nat) (hsp : cw ' ' = 1) (hd : cw '-' = 1) (hb : cw '━' = 1)
    (env : Env) (o : ProgressOpts) (w : Int) (hp : o.pulse = true) (hw : 0 ≤ barWidth o.width w) :
    lineLength cw (progressConsole (σ := σ) env o w) = (barWidth o.width w).toNat := by
  unfold progressConsole
  simp only [hp, if_true]
  generalize barWidth o.width w = width at hw ⊢
  generalize (env.legacyWindows || env.asciiOnly) = ascii
  have hlen := pulseChars_length env ascii
  rw [lineLength_singles]
  · unfold pySlice
    simp only [List.length_take, List.length_drop, length_flatten_replicate, hlen]
    have h1 : Int.tdiv width ((20 : Nat) : Int) = width / 20 := Int.tdiv_eq_ediv_of_nonneg hw
    simp only [h1]
    have h2 : 0 ≤ width / 20 := Int.ediv_nonneg hw (by omega)
    have h3 := Int.emod_lt_of_pos (Int.tdiv (-o.time.num * 15) o.time.den) (show (0 : Int) < ((20 : Nat) : Int) by omega)
    have h4 := Int.emod_nonneg (Int.tdiv (-o.time.num * 15) o.time.den) (show ((20 : Nat) : Int) ≠ 0 by omega)
    generalize Int.tdiv (-o.time.num * 15) o.time.den % ((20 : Nat) : Int) = off at h3 h4 ⊢
    rw [if_neg (by omega)]
    omega
  · intro c hc
    have hm := mem_flatten_replicate _ _ c (List.mem_of_mem_take (List.mem_of_mem_drop hc))
    rcases pulseChars_mem env ascii c hm with h | h | h <;> rw [h] <;> assumption

/-- the number of completed half cells lies between 0 and `2 * width` -/
theorem progress_halves_range (o : ProgressOpts) (width : Int) (hw : 0 ≤ width)
    (htd : 0 < o.total.den) (hcd : 0 < o.completed.den) :
    let c0 : Rat' := if o.completed.lt ⟨0, 1⟩ then ⟨0, 1⟩ else o.completed
    let completed : Rat' := if o.total.lt c0 then o.total else c0
    let halves : Int := if o.total.isZero then width * 2 else truncMulDiv (width * 2) completed o.total
    0 ≤ halves ∧ halves ≤ width * 2 := by
  simp only
  by_cases hz : o.total.isZero = true
  · simp only [hz, if_true]; omega
  · simp only [hz, Bool.false_eq_true, if_false]
    have htn : o.total.num ≠ 0 := by simpa [Rat'.isZero] using hz
    have htd' : (0 : Int) < o.total.den := by omega
    have hcd' : (0 : Int) < o.completed.den := by omega
    -- c0 ≥ 0 with positive denominator
    generalize hc0 : (if o.completed.lt ⟨0, 1⟩ then (⟨0, 1⟩ : Rat') else o.completed) = c0
    have hc0p : 0 ≤ c0.num ∧ (0 : Int) < c0.den := by
      rw [← hc0]
      split
      · simp
      · rename_i h
        simp only [Rat'.lt, Bool.not_eq_true, decide_eq_false_iff_not] at h
        refine ⟨?_, hcd'⟩
        by_cases hn : 0 ≤ o.completed.num
        · exact hn
        · have : o.completed.num * ((1 : Nat) : Int) < 0 * (o.completed.den : Int) := by omega
          exact absurd this h
    by_cases hlt : o.total.lt c0 = true
    · -- completed = total: the quotient is exactly width * 2
      simp only [hlt, if_true]
      unfold truncMulDiv
      have : width * 2 * o.total.num * (o.total.den : Int) = (width * 2) * ((o.total.den : Int) * o.total.num) := by
        simp only [Int.mul_assoc, Int.mul_comm, Int.mul_left_comm]
      rw [this, Int.mul_tdiv_cancel _ (Int.mul_ne_zero (by omega) htn)]
      omega
    · simp only [hlt, Bool.false_eq_true, if_false]
      simp only [Rat'.lt, decide_eq_true_eq, Int.not_lt] at hlt
      -- c0 ≤ total, c0 ≥ 0, so total > 0 (total ≠ 0) or c0 = 0
      have htpos : 0 < o.total.num := by
        by_cases h : 0 < o.total.num
        · exact h
        · have h1 : o.total.num * c0.den ≤ 0 := Int.mul_nonpos_of_nonpos_of_nonneg (by omega) (by omega)
          have h2 : 0 ≤ c0.num * o.total.den := Int.mul_nonneg hc0p.1 (by omega)
          have h3 : o.total.num < 0 := by omega
          have h4 : o.total.num * c0.den < 0 := Int.mul_neg_of_neg_of_pos h3 hc0p.2
          omega
      rw [truncMulDiv_eq _ _ _ (by omega) hc0p.1 (by omega)]
      constructor
      · exact Int.ediv_nonneg (Int.mul_nonneg (Int.mul_nonneg (by omega) hc0p.1) (by omega))
          (Int.mul_nonneg (by omega) (by omega))
      · apply Int.ediv_le_of_le_mul (Int.mul_pos hc0p.2 htpos)
        have e1 : width * 2 * c0.num * (o.total.den : Int) = (width * 2) * (c0.num * o.total.den) := by
          simp only [Int.mul_assoc]
        have e2 : width * 2 * ((c0.den : Int) * o.total.num) = (width * 2) * (o.total.num * c0.den) := by
          simp only [Int.mul_comm]
        rw [e1, e2]
        exact Int.mul_le_mul_of_nonneg_left hlt (by omega)

/-- the (non-pulse) bar never exceeds its width, and fills it exactly when colour is available -/
theorem progress_bar_cells (cw : Char → Nat) (hsp : cw ' ' = 1) (hd : cw '-' = 1) (hb : cw '━' = 1)
    (hr : cw '╸' = 1) (hl : cw '╺' = 1)
    (env : Env) (o : ProgressOpts) (w : Int) (hp : o.pulse = false) (hw : 0 ≤ barWidth o.width w)
    (htd : 0 < o.total.den) (hcd : 0 < o.completed.den) :
    lineLength cw (progressConsole (σ := σ) env o w) ≤ (barWidth o.width w).toNat ∧
    (env.noColor = false → env.colorSystem ≠ 0 →
      lineLength cw (progressConsole (σ := σ) env o w) = (barWidth o.width w).toNat) := by
  have hrange := progress_halves_range o (barWidth o.width w) hw htd hcd
  unfold progressConsole
  simp only [hp, Bool.false_eq_true, if_false] at hrange ⊢
  generalize barWidth o.width w = width at hw hrange ⊢
  generalize (env.legacyWindows || env.asciiOnly) = ascii
  generalize (if o.total.isZero = true then width * 2 else
    truncMulDiv (width * 2) (if o.total.lt (if o.completed.lt ⟨0, 1⟩ = true then ⟨0, 1⟩ else o.completed) = true then o.total
      else if o.completed.lt ⟨0, 1⟩ = true then ⟨0, 1⟩ else o.completed) o.total) = halves at hrange ⊢
  obtain ⟨h0, h1⟩ := hrange
  have hbar : cw (if ascii = true then '-' else '━') = 1 := by split <;> assumption
  have hhr : cw (if ascii = true then ' ' else '╸') = 1 := by split <;> assumption
  have hhl : cw (if ascii = true then ' ' else '╺') = 1 := by split <;> assumption
  constructor
  · -- ≤ width in every branch
    by_cases hnc : env.noColor = true
    · simp only [hnc, Bool.not_true, Bool.false_eq_true, if_false]
      rw [lineLength_append, lineLength_opt_rep cw _ _ hbar, lineLength_opt_rep cw _ _ hhr]; omega
    · simp only [hnc, Bool.not_false, if_true]
      split
      · rename_i hrem
        simp only [Bool.and_eq_true, bne_iff_ne, ne_eq] at hrem
        rw [lineLength_append, lineLength_append, lineLength_append, lineLength_opt_rep cw _ _ hbar,
          lineLength_opt_rep cw _ _ hhr, lineLength_opt_single cw _ _ hhl, lineLength_opt_rep cw _ _ hbar]
        cases huse : (halves % 2 == 0 && halves / 2 != 0) <;> simp only [Bool.false_eq_true, if_false, if_true] <;> omega
      · rw [lineLength_append, lineLength_opt_rep cw _ _ hbar, lineLength_opt_rep cw _ _ hhr]; omega
  · intro hnc hcs
    simp only [hnc, Bool.not_false, if_true]
    by_cases hrem : width - halves / 2 - halves % 2 = 0
    · have : ((width - halves / 2 - halves % 2 != 0) && (env.colorSystem != 0)) = false := by simp [hrem]
      simp only [this, Bool.false_eq_true, if_false]
      rw [lineLength_append, lineLength_opt_rep cw _ _ hbar, lineLength_opt_rep cw _ _ hhr]; omega
    · have : ((width - halves / 2 - halves % 2 != 0) && (env.colorSystem != 0)) = true := by simp [hrem, hcs]
      simp only [this, if_true]
      rw [lineLength_append, lineLength_append, lineLength_append, lineLength_opt_rep cw _ _ hbar,
        lineLength_opt_rep cw _ _ hhr, lineLength_opt_single cw _ _ hhl, lineLength_opt_rep cw _ _ hbar]
      cases huse : (halves % 2 == 0 && halves / 2 != 0) <;> simp only [Bool.false_eq_true, if_false, if_true] <;> omega

/-- no segment of a progress bar contains a line feed -/
theorem progressConsole_no_nl (env : Env) (o : ProgressOpts) (w : Int) :
    ∀ s ∈ progressConsole (σ := σ) env o w, '\n' ∉ s.text := by
  have hrep : ∀ (n : Int) (c : Char), c ≠ '\n' → '\n' ∉ rep n c := by
    intro n c hc hm
    simp only [rep, List.mem_replicate] at hm
    exact hc hm.2.symm
  have e1 : ∀ (b : Prop) [Decidable b] (n : Int) (c : Char), c ≠ '\n' →
      ∀ x ∈ (if b then [(seg (rep n c) : Segment σ)] else []), '\n' ∉ x.text := by
    intro b _ n c hc x hx
    split at hx
    · simp only [List.mem_singleton] at hx; subst hx; exact hrep n c hc
    · simp at hx
  have e2 : ∀ (b : Prop) [Decidable b] (c : Char), c ≠ '\n' →
      ∀ x ∈ (if b then [(seg [c] : Segment σ)] else []), '\n' ∉ x.text := by
    intro b _ c hc x hx
    split at hx
    · simp only [List.mem_singleton] at hx; subst hx
      simp only [seg, List.mem_singleton]; exact fun h => hc h.symm
    · simp at hx
  intro s hs
  unfold progressConsole at hs
  simp only at hs
  generalize barWidth o.width w = width at hs
  generalize (env.legacyWindows || env.asciiOnly) = ascii at hs
  have hb : (if ascii = true then '-' else '━') ≠ '\n' := by split <;> decide
  have hr : (if ascii = true then ' ' else '╸') ≠ '\n' := by split <;> decide
  have hl : (if ascii = true then ' ' else '╺') ≠ '\n' := by split <;> decide
  by_cases hp : o.pulse = true
  · simp only [hp, if_true, List.mem_map] at hs
    obtain ⟨ch, hch, rfl⟩ := hs
    have hm := mem_flatten_replicate _ _ ch (List.mem_of_mem_take (List.mem_of_mem_drop hch))
    rcases pulseChars_mem env _ ch hm with h | h | h <;> simp [seg, h]
  · simp only [hp, Bool.false_eq_true, if_false] at hs
    generalize (if o.total.isZero = true then width * 2 else
      truncMulDiv (width * 2) (if o.total.lt (if o.completed.lt ⟨0, 1⟩ = true then ⟨0, 1⟩ else o.completed) = true then o.total
        else if o.completed.lt ⟨0, 1⟩ = true then ⟨0, 1⟩ else o.completed) o.total) = halves at hs
    have hF : ∀ x ∈ ((if (halves / 2 != 0) = true then [(seg (rep (halves / 2) (if ascii = true then '-' else '━')) : Segment σ)] else [])
        ++ (if (halves % 2 != 0) = true then [seg (rep (halves % 2) (if ascii = true then ' ' else '╸'))] else [])),
        '\n' ∉ x.text := by
      intro x hx
      rcases List.mem_append.mp hx with h | h
      · exact e1 _ _ _ hb x h
      · exact e1 _ _ _ hr x h
    rcases ite_mem _ _ s hs with h | h
    · rcases ite_mem _ _ s h with h | h
      · rcases List.mem_append.mp h with h | h
        · rcases List.mem_append.mp h with h | h
          · exact hF s h
          · exact e2 _ _ hl s h
        · exact e1 _ _ _ hb s h
      · exact hF s h
    · exact hF s h

end RichModel.Frames
