import RichModel.Lemmas.TextSort
import RichModel.Lemmas.TextOps
/-!
The event loop of `Text.render`, abstractly: a set of *items* `(id, lo, hi)` — one per style id —
enter at `lo` and leave at `hi`; for **any** sorted arrangement of their events the loop succeeds
and emits, for every position `i`, the ids of the items covering `i`, in increasing order.
-/
namespace RichModel
namespace Text

structure Item where
  id : Nat
  lo : Int
  hi : Int

def Item.enter (it : Item) : Ev := ⟨it.lo, false, it.id⟩
def Item.leave (it : Item) : Ev := ⟨it.hi, true, it.id⟩

def evsOf (items : List Item) : List Ev := items.map Item.enter ++ items.map Item.leave

def Item.covers (it : Item) (i : Nat) : Bool := decide (it.lo ≤ (i : Int)) && decide ((i : Int) < it.hi)

/-- ids of the items covering position `i`, in item order -/
def activeIds (items : List Item) (i : Nat) : List Nat := (items.filter (fun it => it.covers i)).map (·.id)

structure ItemsOk (items : List Item) (n : Nat) : Prop where
  inj : ∀ a ∈ items, ∀ b ∈ items, a.id = b.id → a = b
  nodup : (items.map (·.id)).Nodup
  range : ∀ it ∈ items, 0 ≤ it.lo ∧ it.lo ≤ it.hi ∧ it.hi ≤ (n : Int)
  base : ∃ it ∈ items, it.lo = 0 ∧ it.hi = (n : Int)

def StackOk (items : List Item) (P : List Ev) (st : List Nat) : Prop :=
  st.Nodup ∧ ∀ id, id ∈ st ↔ ∃ it ∈ items, it.id = id ∧ it.enter ∈ P ∧ it.leave ∉ P

theorem removeFirst_of_mem (x : Nat) (l : List Nat) (h : x ∈ l) : removeFirst x l = .ok (l.erase x) := by
  induction l with
  | nil => simp at h
  | cons y ys ih =>
    simp only [removeFirst]
    by_cases hy : y = x
    · subst hy; simp
    · have hx : x ∈ ys := by
        rcases List.mem_cons.1 h with h' | h'
        · exact absurd h'.symm hy
        · exact h'
      have hne : (y == x) = false := by simpa using hy
      rw [hne, ih hx]
      simp only [Bool.false_eq_true, if_false, Except.map]
      rw [List.erase_cons_tail (by simpa using hy)]

theorem mem_evsOf (items : List Item) (e : Ev) :
    e ∈ evsOf items ↔ ∃ it ∈ items, e = it.enter ∨ e = it.leave := by
  simp only [evsOf, List.mem_append, List.mem_map]
  constructor
  · rintro (⟨it, h, rfl⟩ | ⟨it, h, rfl⟩)
    · exact ⟨it, h, Or.inl rfl⟩
    · exact ⟨it, h, Or.inr rfl⟩
  · rintro ⟨it, h, rfl | rfl⟩
    · exact Or.inl ⟨it, h, rfl⟩
    · exact Or.inr ⟨it, h, rfl⟩

theorem evsOf_nodup (items : List Item) (h : (items.map (·.id)).Nodup) : (evsOf items).Nodup := by
  unfold evsOf
  have h' : items.Pairwise (fun a b => a.id ≠ b.id) := by
    simpa [List.Nodup, List.pairwise_map] using h
  rw [List.nodup_append]
  refine ⟨?_, ?_, ?_⟩
  · show (items.map Item.enter).Pairwise (· ≠ ·)
    rw [List.pairwise_map]
    exact h'.imp (fun hab he => hab (congrArg Ev.id he))
  · show (items.map Item.leave).Pairwise (· ≠ ·)
    rw [List.pairwise_map]
    exact h'.imp (fun hab he => hab (congrArg Ev.id he))
  · intro a ha b hb hab
    simp only [List.mem_map] at ha hb
    obtain ⟨x, _, rfl⟩ := ha
    obtain ⟨y, _, rfl⟩ := hb
    simp [Item.enter, Item.leave] at hab

theorem le_leave_enter (it : Item) (h : it.lo ≤ it.hi) : it.leave.le it.enter = false := by
  have : ¬ (it.leave.le it.enter = true) := by
    rw [Ev.le_iff]; simp [Item.leave, Item.enter]; omega
  simpa using this

theorem activeIds_nodup (items : List Item) (h : (items.map (·.id)).Nodup) (i : Nat) : (activeIds items i).Nodup := by
  unfold activeIds
  exact List.Nodup.sublist (List.Sublist.map _ List.filter_sublist) h

theorem mem_activeIds (items : List Item) (i id : Nat) :
    id ∈ activeIds items i ↔ ∃ it ∈ items, it.id = id ∧ it.lo ≤ (i : Int) ∧ (i : Int) < it.hi := by
  simp only [activeIds, List.mem_map, List.mem_filter, Item.covers, Bool.and_eq_true, decide_eq_true_eq]
  constructor
  · rintro ⟨it, ⟨h, hc⟩, rfl⟩; exact ⟨it, h, rfl, hc⟩
  · rintro ⟨it, h, rfl, hc⟩; exact ⟨it, ⟨h, hc⟩, rfl⟩

variable {σ : Type}

theorem renderLoop_cons (text : List Char) (styleOf : Nat → σ) (e e' : Ev) (rest : List Ev) (st st' : List Nat)
    (tail : List (RSeg σ))
    (h1 : (if e.leaving then removeFirst e.id st else pure (st ++ [e.id])) = Except.ok st')
    (h2 : e'.off > e.off → st'.isEmpty = false)
    (h3 : renderLoop text styleOf (e' :: rest) st' = .ok tail) :
    renderLoop text styleOf (e :: e' :: rest) st =
      .ok ((if e'.off > e.off then [RSeg.mk (Py.slice text e.off e'.off) (some ((sortNat st').map styleOf))] else []) ++ tail) := by
  rw [renderLoop]
  cases hl : e.leaving
  · simp only [hl, Bool.false_eq_true, if_false, pure, Except.pure] at h1
    cases h1
    by_cases hgt : e'.off > e.off
    · simp [hl, hgt, h2 hgt, h3, bind, Except.bind, pure, Except.pure]
    · simp [hl, hgt, h3, bind, Except.bind, pure, Except.pure]
  · simp only [hl, if_true] at h1
    by_cases hgt : e'.off > e.off
    · simp [hl, hgt, h1, h2 hgt, h3, bind, Except.bind, pure, Except.pure]
    · simp [hl, hgt, h1, h3, bind, Except.bind, pure, Except.pure]

/-- a sorted arrangement `P ++ L` of the events of `items`, `P` processed, `L` still to come -/
structure Ctx (items : List Item) (n : Nat) (P L : List Ev) : Prop where
  ok : ItemsOk items n
  perm : (P ++ L).Perm (evsOf items)
  sorted : (P ++ L).Pairwise (fun a b => a.le b = true)

namespace Ctx
variable {items : List Item} {n : Nat} {P L : List Ev}

theorem nodup (c : Ctx items n P L) : (P ++ L).Nodup :=
  (c.perm.nodup_iff).2 (evsOf_nodup items c.ok.nodup)

theorem mem (c : Ctx items n P L) (e : Ev) : e ∈ P ++ L ↔ ∃ it ∈ items, e = it.enter ∨ e = it.leave := by
  rw [c.perm.mem_iff, mem_evsOf]

theorem shift {e : Ev} {L' : List Ev} (c : Ctx items n P (e :: L')) : Ctx items n (P ++ [e]) L' :=
  ⟨c.ok, by simpa using c.perm, by simpa using c.sorted⟩

theorem le_of (c : Ctx items n P L) {a b : Ev} (ha : a ∈ P) (hb : b ∈ L) : a.le b = true :=
  (List.pairwise_append.1 c.sorted).2.2 a ha b hb

/-- an item's enter event is processed before its leave event -/
theorem enter_before (c : Ctx items n P L) {it : Item} (hit : it ∈ items) (h : it.leave ∈ P) : it.enter ∈ P := by
  have hm : it.enter ∈ P ++ L := (c.mem _).2 ⟨it, hit, Or.inl rfl⟩
  rcases List.mem_append.1 hm with h' | h'
  · exact h'
  · have := c.le_of h h'
    rw [le_leave_enter it ((c.ok.range it hit).2.1)] at this
    cases this

theorem off_range (c : Ctx items n P L) {e : Ev} (he : e ∈ P ++ L) : 0 ≤ e.off ∧ e.off ≤ (n : Int) := by
  obtain ⟨it, hit, h | h⟩ := (c.mem e).1 he <;> subst h <;> have := c.ok.range it hit <;>
    simp only [Item.enter, Item.leave] <;> omega

end Ctx

/-- processing the next event keeps the stack equal to "entered and not yet left" -/
theorem stack_step {items : List Item} {n : Nat} {P L' : List Ev} {e : Ev} {st : List Nat}
    (c : Ctx items n P (e :: L')) (hst : StackOk items P st) :
    ∃ st', (if e.leaving then removeFirst e.id st else pure (st ++ [e.id])) = Except.ok st' ∧
      StackOk items (P ++ [e]) st' := by
  have c' := c.shift
  have heP : e ∉ P := by
    have := c.nodup
    rw [List.nodup_append] at this
    intro h; exact this.2.2 e h e (by simp) rfl
  obtain ⟨it, hit, he | he⟩ := (c.mem e).1 (by simp)
  · -- an enter event
    subst he
    have hleave : it.leave ∉ P ++ [it.enter] := by
      intro h
      rcases List.mem_append.1 h with h | h
      · exact heP (c.enter_before hit h)
      · simp [Item.leave, Item.enter] at h
    have hnot : it.id ∉ st := by
      intro h
      obtain ⟨it', hit', hid, hen, _⟩ := (hst.2 it.id).1 h
      have := c.ok.inj it' hit' it hit hid
      subst this; exact heP hen
    refine ⟨st ++ [it.id], by simp [Item.enter, pure, Except.pure], ?_, ?_⟩
    · rw [List.nodup_append]
      exact ⟨hst.1, by simp, by intro a ha b hb; simp at hb; subst hb; intro hab; subst hab; exact hnot ha⟩
    · intro id
      constructor
      · intro h
        rcases List.mem_append.1 h with h | h
        · obtain ⟨it', hit', hid, hen, hle⟩ := (hst.2 id).1 h
          refine ⟨it', hit', hid, List.mem_append_left _ hen, ?_⟩
          intro hc
          rcases List.mem_append.1 hc with hc | hc
          · exact hle hc
          · simp [Item.leave, Item.enter] at hc
        · simp at h; subst h
          exact ⟨it, hit, rfl, by simp, hleave⟩
      · rintro ⟨it', hit', hid, hen, hle⟩
        rcases List.mem_append.1 hen with hen | hen
        · exact List.mem_append_left _ ((hst.2 id).2 ⟨it', hit', hid, hen, fun hc => hle (List.mem_append_left _ hc)⟩)
        · simp only [List.mem_singleton] at hen
          have : it'.id = it.id := congrArg Ev.id hen
          rw [← hid, this]; simp
  · -- a leave event
    subst he
    have hen : it.enter ∈ P := by
      have := c'.enter_before hit (by simp)
      rcases List.mem_append.1 this with h | h
      · exact h
      · simp [Item.leave, Item.enter] at h
    have hmem : it.id ∈ st := (hst.2 it.id).2 ⟨it, hit, rfl, hen, heP⟩
    refine ⟨st.erase it.id, by simp [Item.leave, removeFirst_of_mem _ _ hmem], hst.1.erase _, ?_⟩
    intro id
    rw [hst.1.mem_erase_iff]
    constructor
    · rintro ⟨hne, h⟩
      obtain ⟨it', hit', hid, hen', hle⟩ := (hst.2 id).1 h
      refine ⟨it', hit', hid, List.mem_append_left _ hen', ?_⟩
      intro hc
      rcases List.mem_append.1 hc with hc | hc
      · exact hle hc
      · simp only [List.mem_singleton] at hc
        have : it'.id = it.id := congrArg Ev.id hc
        exact hne (by rw [← hid, this])
    · rintro ⟨it', hit', hid, hen', hle⟩
      have hne : it' ≠ it := by
        intro h; subst h; exact hle (by simp)
      constructor
      · intro h
        exact hne (c.ok.inj it' hit' it hit (by rw [hid, h]))
      · refine (hst.2 id).2 ⟨it', hit', hid, ?_, fun hc => hle (List.mem_append_left _ hc)⟩
        rcases List.mem_append.1 hen' with h | h
        · exact h
        · simp [Item.leave, Item.enter] at h

/-- between two consecutive event offsets the stack holds exactly the items covering the position -/
theorem stack_covers {items : List Item} {n : Nat} {P' L'' : List Ev} {st' : List Nat}
    (c : Ctx items n P' L'') (hst : StackOk items P' st') (a b : Int) (i : Nat)
    (hP : ∀ x ∈ P', x.off ≤ a) (hL : ∀ y ∈ L'', b ≤ y.off) (hai : a ≤ (i : Int)) (hib : (i : Int) < b) :
    st'.Perm (activeIds items i) := by
  rw [List.perm_ext_iff_of_nodup hst.1 (activeIds_nodup items c.ok.nodup i)]
  intro id
  rw [hst.2 id, mem_activeIds]
  constructor
  · rintro ⟨it, hit, hid, hen, hle⟩
    refine ⟨it, hit, hid, ?_, ?_⟩
    · have := hP _ hen; simp only [Item.enter] at this; omega
    · have hm : it.leave ∈ P' ++ L'' := (c.mem _).2 ⟨it, hit, Or.inr rfl⟩
      rcases List.mem_append.1 hm with h | h
      · exact absurd h hle
      · have := hL _ h; simp only [Item.leave] at this; omega
  · rintro ⟨it, hit, hid, hlo, hhi⟩
    refine ⟨it, hit, hid, ?_, ?_⟩
    · have hm : it.enter ∈ P' ++ L'' := (c.mem _).2 ⟨it, hit, Or.inl rfl⟩
      rcases List.mem_append.1 hm with h | h
      · exact h
      · have := hL _ h; simp only [Item.enter] at this; omega
    · intro h
      have := hP _ h; simp only [Item.leave] at this; omega

theorem segStream_append (a b : List (RSeg σ)) : segStream (a ++ b) = segStream a ++ segStream b := by
  simp [segStream]

/-- **The loop of `render`**: for any sorted arrangement of the events, started with the stack that
matches the processed prefix, the loop succeeds and the emitted stream is the rest of the text, every
position carrying the (sorted) ids of the items that cover it. -/
theorem renderLoop_spec (text : List Char) (styleOf : Nat → σ) (items : List Item) :
    ∀ (L' : List Ev) (e : Ev) (P : List Ev) (st : List Nat),
      Ctx items text.length P (e :: L') → StackOk items P st →
      ∃ segs, renderLoop text styleOf (e :: L') st = .ok segs ∧
        segStream segs =
          annot (text.drop e.off.toNat) (fun i => (sortNat (activeIds items i)).map styleOf) e.off.toNat := by
  intro L'
  induction L' with
  | nil =>
    intro e P st c _
    refine ⟨[], by simp [renderLoop, pure, Except.pure], ?_⟩
    obtain ⟨b, hb, _, hhi⟩ := c.ok.base
    have hm : b.leave ∈ P ++ [e] := (c.mem _).2 ⟨b, hb, Or.inr rfl⟩
    have hge : (text.length : Int) ≤ e.off := by
      rcases List.mem_append.1 hm with h | h
      · have := c.le_of h (List.mem_singleton.2 rfl)
        rw [Ev.le_iff] at this
        simp only [Item.leave] at this; omega
      · simp only [List.mem_singleton] at h
        rw [← h]; simp only [Item.leave]; omega
    have : text.drop e.off.toNat = [] := List.drop_eq_nil_of_le (by omega)
    rw [this]; rfl
  | cons e' rest ih =>
    intro e P st c hst
    obtain ⟨st', hstep, hst'⟩ := stack_step c hst
    have c' := c.shift
    obtain ⟨tail, htail, hstream⟩ := ih e' (P ++ [e]) st' c' hst'
    -- offsets
    have hr := c.off_range (e := e) (by simp)
    have hr' := c.off_range (e := e') (by simp)
    have hle : e.off ≤ e'.off := by
      have h := (List.pairwise_append.1 c.sorted).2.1
      rw [List.pairwise_cons] at h
      have := h.1 e' (by simp)
      rw [Ev.le_iff] at this; omega
    have hP : ∀ x ∈ P ++ [e], x.off ≤ e.off := by
      intro x hx
      rcases List.mem_append.1 hx with h | h
      · have := c.le_of h (by simp : e ∈ e :: e' :: rest)
        rw [Ev.le_iff] at this; omega
      · simp only [List.mem_singleton] at h; subst h; omega
    have hL : ∀ y ∈ e' :: rest, e'.off ≤ y.off := by
      intro y hy
      rcases List.mem_cons.1 hy with h | h
      · subst h; omega
      · have h2 := (List.pairwise_append.1 c'.sorted).2.1
        rw [List.pairwise_cons] at h2
        have := h2.1 y h
        rw [Ev.le_iff] at this; omega
    have hcov : ∀ i : Nat, e.off ≤ (i : Int) → (i : Int) < e'.off → st'.Perm (activeIds items i) :=
      fun i h1 h2 => stack_covers c' hst' e.off e'.off i hP hL h1 h2
    have hne : e'.off > e.off → st'.isEmpty = false := by
      intro hgt
      have := hcov e.off.toNat (by omega) (by omega)
      obtain ⟨b, hb, hlo, hhi⟩ := c.ok.base
      have hb' : b.id ∈ activeIds items e.off.toNat :=
        (mem_activeIds _ _ _).2 ⟨b, hb, rfl, by omega, by omega⟩
      have := this.mem_iff.2 hb'
      cases st' with
      | nil => simp at this
      | cons _ _ => rfl
    refine ⟨_, renderLoop_cons text styleOf e e' rest st st' tail hstep hne htail, ?_⟩
    rw [segStream_append, hstream]
    -- naturals
    have hc : e.off = ((e.off.toNat : Nat) : Int) := by omega
    have hc' : e'.off = ((e'.off.toNat : Nat) : Int) := by omega
    generalize e.off.toNat = a at hc ⊢
    generalize e'.off.toNat = b at hc' ⊢
    have hab : a ≤ b := by omega
    have hbn : b ≤ text.length := by omega
    have hsplit : text.drop a = (text.drop a).take (b - a) ++ text.drop b := by
      have : text.drop b = (text.drop a).drop (b - a) := by
        rw [List.drop_drop]; congr 1; omega
      rw [this, List.take_append_drop]
    have hlen : ((text.drop a).take (b - a)).length = b - a := by
      simp only [List.length_take, List.length_drop]; omega
    conv => rhs; rw [hsplit, annot_append, hlen]
    have hab' : a + (b - a) = b := by omega
    rw [hab']
    congr 1
    by_cases hgt : e'.off > e.off
    · simp only [hgt, if_true, segStream, List.flatMap_cons, List.flatMap_nil, List.append_nil, Option.getD_some]
      rw [hc, hc', slice_nat]
      symm
      apply annot_const
      intro i h1 h2
      rw [hlen] at h2
      rw [sortNat_congr _ _ (hcov i (by omega) (by omega))]
    · have : b = a := by omega
      subst this
      simp [hgt, segStream, annot]

end Text
end RichModel
