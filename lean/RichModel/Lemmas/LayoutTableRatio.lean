import RichModel.Lemmas.LayoutDeps
import RichModel.Lemmas.TableTotal
/-!
`Layout.Dep.width_fits` for tables WITH ratio columns: the first pass of `_calculate_column_widths` hands every flexible
(ratio) column of an expanding table at least its flex minimum (`1 + padding`), provided every ratio that is set
is at least 1 — so the rest of `width_fits` (collapse, re-measure, pad) goes through unchanged.
-/
namespace RichModel

/-- every ratio that is set is at least 1 (a `ratio=0` column is excluded: it really breaks the bound) -/
def Table.RatiosPos (t : Table) : Prop := ∀ c ∈ t.columns, ∀ r, c.ratio = some r → 1 ≤ r

/-! ### `ratio_distribute` with minimums that are all at least 1 -/

/-- positive ratios, minimums `≥ 1`: every share is at least its minimum, hence `≥ 1` (the remaining total ratio is the
sum of the remaining ratios, so it stays positive until the list is used up) -/
theorem rdLoop_ge_one : ∀ (items : List (Int × Int)) (rem tr : Int),
    (∀ it ∈ items, 1 ≤ it.1 ∧ 1 ≤ it.2) → tr = (items.map (·.1)).sum →
    ∀ d ∈ ratioDistributeLoop items rem tr, 1 ≤ d
  | [], _, _, _, _ => by simp [ratioDistributeLoop]
  | (ratio, minimum) :: rest, rem, tr, hpos, htr => by
    have h0 := hpos (ratio, minimum) (by simp)
    simp only at h0
    have hrest : ∀ it ∈ rest, 0 ≤ it.1 := fun it hit => by
      have := (hpos it (List.mem_cons_of_mem _ hit)).1; omega
    have hsn := sum_fst_nonneg rest hrest
    simp only [List.map_cons, List.sum_cons] at htr
    have htr0 : 0 < tr := by omega
    unfold ratioDistributeLoop
    simp only [htr0, if_true]
    intro d hd
    rcases List.mem_cons.mp hd with hd | hd
    · rw [hd]; omega
    · exact rdLoop_ge_one rest _ (tr - ratio) (fun it hit => hpos it (List.mem_cons_of_mem _ hit)) (by omega) d hd

/-- no minimum is 0: `ratio_distribute` does not zero any ratio -/
theorem mask_of_mins_pos : ∀ (ratios mins : List Int), ratios.length = mins.length → (∀ m ∈ mins, 1 ≤ m) →
    (ratios.zip mins).map (fun (p : Int × Int) => if p.2 != 0 then p.1 else 0) = ratios
  | [], _, _, _ => by simp
  | _ :: _, [], h, _ => by simp at h
  | r :: rs, m :: ms, h, hm => by
    have h1 := hm m (by simp)
    have ih := mask_of_mins_pos rs ms (by simpa using h) (fun x hx => hm x (List.mem_cons_of_mem _ hx))
    have hne : (m != 0) = true := by simp; omega
    simp only [List.zip_cons_cons, List.map_cons, hne, if_true, ih]

theorem ratioDistribute_mins_eq (ratios mins : List Int) (total : Int) (hlen : ratios.length = mins.length)
    (hne : ratios ≠ []) (hr : ∀ r ∈ ratios, 1 ≤ r) (hm : ∀ m ∈ mins, 1 ≤ m) :
    ratioDistribute total ratios (some mins) = some (ratioDistributeLoop (ratios.zip mins) total ratios.sum) := by
  have hmask := mask_of_mins_pos ratios mins hlen hm
  have hme : mins.isEmpty = false := by
    cases mins with
    | nil =>
      cases ratios with
      | nil => exact absurd rfl hne
      | cons _ _ => simp at hlen
    | cons _ _ => rfl
  have hsum := sum_pos_of_all_pos ratios hne hr
  unfold ratioDistribute
  simp only [hme, Bool.false_eq_true, if_false, hmask, hsum, if_true]

theorem ratioDistribute_mins_ne_none (ratios mins : List Int) (total : Int) (hlen : ratios.length = mins.length)
    (hne : ratios ≠ []) (hr : ∀ r ∈ ratios, 1 ≤ r) (hm : ∀ m ∈ mins, 1 ≤ m) :
    ratioDistribute total ratios (some mins) ≠ none := by
  rw [ratioDistribute_mins_eq ratios mins total hlen hne hr hm]
  intro h; cases h

theorem ratioDistribute_mins_pos (ratios mins : List Int) (total : Int) (hlen : ratios.length = mins.length)
    (hne : ratios ≠ []) (hr : ∀ r ∈ ratios, 1 ≤ r) (hm : ∀ m ∈ mins, 1 ≤ m) (l : List Int)
    (h : ratioDistribute total ratios (some mins) = some l) : l.length = ratios.length ∧ ∀ d ∈ l, 1 ≤ d := by
  rw [ratioDistribute_mins_eq ratios mins total hlen hne hr hm] at h
  simp only [Option.some.injEq] at h
  subst h
  refine ⟨by rw [rdLoop_length]; simp [hlen], ?_⟩
  apply rdLoop_ge_one
  · intro it hit
    have := List.of_mem_zip hit
    exact ⟨hr _ this.1, hm _ this.2⟩
  · rw [map_fst_zip ratios mins hlen]

/-! ### `mergeFlex` over the enumerated columns -/

/-- One flex width (`≥ 1`) per flexible column, a plain width `≥ 1` for every column, nothing reserved (`fixed = 0`) for the
flexible ones: the merge succeeds, one width `≥ 1` per column. -/
theorem mergeFlex_indexed (m : Column × Nat → Measurement) (g : Measurement → Int) (h : Measurement × Column × Nat → Int) :
    ∀ (l : List (Column × Nat)) (flex : List Int),
      flex.length = (l.filter (fun ci => ci.1.flexible)).length → (∀ f ∈ flex, 1 ≤ f) →
      (∀ ci ∈ l, 1 ≤ g (m ci)) → (∀ ci ∈ l, ci.1.flexible = true → h (m ci, ci) = 0) →
      ∃ r, mergeFlex ((l.map (fun ci => ci.1)).zip (((l.map m).map g).zip (((l.map m).zip l).map h))) flex = some r ∧
        r.length = l.length ∧ ∀ w ∈ r, 1 ≤ w
  | [], _, _, _, _, _ => ⟨[], by simp [mergeFlex], rfl, by simp⟩
  | ci :: l, flex, hlen, hpos, hg, hh => by
    simp only [List.map_cons, List.zip_cons_cons]
    unfold mergeFlex
    have hg' : ∀ x ∈ l, 1 ≤ g (m x) := fun x hx => hg x (List.mem_cons_of_mem _ hx)
    have hh' : ∀ x ∈ l, x.1.flexible = true → h (m x, x) = 0 := fun x hx => hh x (List.mem_cons_of_mem _ hx)
    by_cases hf : ci.1.flexible = true
    · simp only [hf, if_true]
      simp only [List.filter_cons, hf, if_true, List.length_cons] at hlen
      cases flex with
      | nil => simp at hlen
      | cons f flex' =>
        simp only [List.length_cons, Nat.add_right_cancel_iff] at hlen
        obtain ⟨r, h1, h2, h3⟩ := mergeFlex_indexed m g h l flex' hlen
          (fun x hx => hpos x (List.mem_cons_of_mem _ hx)) hg' hh'
        simp only [h1, Option.map_some]
        refine ⟨_, rfl, by simp [h2], ?_⟩
        intro w hw
        rcases List.mem_cons.mp hw with rfl | hw
        · have := hh ci (by simp) hf
          have := hpos f (by simp)
          omega
        · exact h3 w hw
    · simp only [hf, Bool.false_eq_true, if_false]
      simp only [List.filter_cons, hf, Bool.false_eq_true, if_false] at hlen
      obtain ⟨r, h1, h2, h3⟩ := mergeFlex_indexed m g h l flex hlen hpos hg' hh'
      simp only [h1, Option.map_some]
      refine ⟨_, rfl, by simp [h2], ?_⟩
      intro w hw
      rcases List.mem_cons.mp hw with rfl | hw
      · exact hg ci (by simp)
      · exact h3 w hw

theorem columns_eq_indexed_map (t : Table) : t.columns = t.indexed.map (fun ci => ci.1) := by
  unfold Table.indexed
  exact (List.zipIdx_map_fst 0 t.columns).symm

/-! ### the first pass -/

/-- the first pass of `_calculate_column_widths` succeeds and gives every column at least one cell — with or without
ratio columns -/
theorem firstWidths_pos (fl : Flags) (t : Table) (hr : t.expand = false ∨ t.RatiosPos) (hfree : t.AllFree)
    (hpad : ∀ i, 0 ≤ t.paddingWidth i) (maxWidth : Int) :
    ∃ ws, t.firstWidths fl maxWidth = some ws ∧ ws.length = t.columns.length ∧ ∀ w ∈ ws, 1 ≤ w := by
  have hg : ∀ ci ∈ t.indexed, 1 ≤ orOne (t.measureColumn ci.2 ci.1 maxWidth).maximum := fun ci hci =>
    (orOne_bounds _ 0 (measureColumn_free t ci.2 ci.1 maxWidth (hfree ci hci)).1).1
  have hplain : ((t.indexed.map (fun ci => t.measureColumn ci.2 ci.1 maxWidth)).map (fun r => orOne r.maximum)).length
        = t.columns.length ∧
      ∀ w ∈ (t.indexed.map (fun ci => t.measureColumn ci.2 ci.1 maxWidth)).map (fun r => orOne r.maximum), 1 ≤ w := by
    refine ⟨by simp [indexed_length], ?_⟩
    intro w hw
    simp only [List.map_map, List.mem_map, Function.comp] at hw
    obtain ⟨ci, hci, rfl⟩ := hw
    exact hg ci hci
  unfold Table.firstWidths
  simp only
  split
  · rename_i hexp
    split
    · rename_i hany
      have hrp : t.RatiosPos := by
        rcases hr with h | h
        · rw [h] at hexp; cases hexp
        · exact h
      have hflex : ∀ ci ∈ t.indexed.filter (fun ci => ci.1.flexible),
          1 ≤ ci.1.ratio.getD 0 ∧ 1 ≤ orOne (ci.1.width.getD 0) + t.paddingWidth ci.2 := by
        intro ci hci
        rw [List.mem_filter] at hci
        obtain ⟨hmem, hfl⟩ := hci
        have hw := (hfree ci hmem).1
        constructor
        · unfold Column.flexible at hfl
          cases hrr : ci.1.ratio with
          | none => rw [hrr] at hfl; cases hfl
          | some r => exact hrp ci.1 (mem_indexed t ci hmem) r hrr
        · rw [hw]
          have := hpad ci.2
          simp only [Option.getD_none, orOne]
          simp only [show ((0 : Int) == 0) = true from rfl, if_true]
          omega
      have hlen : ((t.indexed.filter (fun ci => ci.1.flexible)).map (fun ci => ci.1.ratio.getD 0)).length
          = ((t.indexed.filter (fun ci => ci.1.flexible)).map
              (fun ci => orOne (ci.1.width.getD 0) + t.paddingWidth ci.2)).length := by simp
      have hne : (t.indexed.filter (fun ci => ci.1.flexible)).map (fun ci => ci.1.ratio.getD 0) ≠ [] := by
        intro h; rw [h] at hany; simp at hany
      have hrat : ∀ r ∈ (t.indexed.filter (fun ci => ci.1.flexible)).map (fun ci => ci.1.ratio.getD 0), 1 ≤ r := by
        intro r hr'
        obtain ⟨ci, hci, rfl⟩ := List.mem_map.mp hr'
        exact (hflex ci hci).1
      have hmin : ∀ m ∈ (t.indexed.filter (fun ci => ci.1.flexible)).map
          (fun ci => orOne (ci.1.width.getD 0) + t.paddingWidth ci.2), 1 ≤ m := by
        intro m hm'
        obtain ⟨ci, hci, rfl⟩ := List.mem_map.mp hm'
        exact (hflex ci hci).2
      split
      · rename_i heq
        exact absurd heq (ratioDistribute_mins_ne_none _ _ _ hlen hne hrat hmin)
      · rename_i flexWidths heq
        obtain ⟨hfl1, hfl2⟩ := ratioDistribute_mins_pos _ _ _ hlen hne hrat hmin _ heq
        have hfw : (if fl.flexNegative then flexWidths
              else if fl.flexClampZero then flexWidths.map (fun w => max 0 w)
              else (((t.indexed.filter (fun ci => ci.1.flexible)).map
                (fun ci => orOne (ci.1.width.getD 0) + t.paddingWidth ci.2)).zip flexWidths).map (fun mw => max mw.1 mw.2)).length
              = (t.indexed.filter (fun ci => ci.1.flexible)).length ∧
            ∀ f ∈ (if fl.flexNegative then flexWidths
              else if fl.flexClampZero then flexWidths.map (fun w => max 0 w)
              else (((t.indexed.filter (fun ci => ci.1.flexible)).map
                (fun ci => orOne (ci.1.width.getD 0) + t.paddingWidth ci.2)).zip flexWidths).map (fun mw => max mw.1 mw.2)), 1 ≤ f := by
          split
          · exact ⟨by simpa using hfl1, hfl2⟩
          · split
            · refine ⟨by simpa using hfl1, ?_⟩
              intro f hf
              obtain ⟨d, hd, rfl⟩ := List.mem_map.mp hf
              have := hfl2 d hd
              omega
            · refine ⟨?_, ?_⟩
              · have h1' : flexWidths.length = (t.indexed.filter (fun ci => ci.1.flexible)).length := by simpa using hfl1
                simp only [List.length_map, List.length_zip]
                omega
              · intro f hf
                obtain ⟨mw, hmw, rfl⟩ := List.mem_map.mp hf
                have := hfl2 mw.2 (List.of_mem_zip hmw).2
                omega
        rw [columns_eq_indexed_map t]
        obtain ⟨r, h1, h2, h3⟩ := mergeFlex_indexed (fun ci => t.measureColumn ci.2 ci.1 maxWidth) (fun r => orOne r.maximum)
          (fun rc => if rc.2.1.flexible then 0 else if fl.fixedRawMaximum then rc.1.maximum else orOne rc.1.maximum)
          t.indexed _ hfw.1 hfw.2 hg (fun ci _ hf => by simp only [hf, if_true])
        exact ⟨r, h1, by rw [h2, List.length_map], h3⟩
    · exact ⟨_, rfl, hplain⟩
  · exact ⟨_, rfl, hplain⟩

/-! ### `width_fits` -/

/-- the part of `width_fits` that does not look at ratios: a first pass that gives every column at least one cell is enough -/
theorem width_fits_core' (fl : Flags) (t : Table) (maxWidth : Int)
    (hfirst : ∃ ws0, t.firstWidths fl maxWidth = some ws0 ∧ ws0.length = t.columns.length ∧ ∀ w ∈ ws0, 1 ≤ w) (hfree : t.AllFree)
    (hne : t.columns ≠ []) (hnw : ∀ c ∈ t.columns, c.noWrap = false) (hmw : (t.columns.length : Int) ≤ maxWidth) :
    ∃ ws, t.calcWidths fl maxWidth = some ws ∧ ws.sum ≤ maxWidth ∧ ws.length = t.columns.length ∧ ∀ w ∈ ws, 1 ≤ w := by
  obtain ⟨ws0, h0, hl, hp⟩ := hfirst
  have hwrap : ∀ c ∈ t.columns, c.width = none ∧ c.noWrap = false := by
    intro c hc
    obtain ⟨i, hi, rfl⟩ := List.getElem_of_mem hc
    have : (t.columns[i], i) ∈ t.indexed := by
      unfold Table.indexed; exact List.mem_zipIdx_iff_getElem?.2 (by simp [hi])
    exact ⟨(hfree _ this).1, hnw _ (List.getElem_mem _)⟩
  have hkeep : ∀ w ∈ collapseWidths ws0 t.wrapable maxWidth, 1 ≤ w :=
    collapseWidths_keep ws0 t.wrapable maxWidth (by simp [Table.wrapable, hl]) (wrapable_all t hwrap) hp (by omega)
  have hne0 : ws0 ≠ [] := by
    intro h; rw [h] at hl; simp at hl
    exact hne (List.eq_nil_of_length_eq_zero hl.symm)
  have hge1 : ∀ (a b : List Int), (∀ p ∈ a.zip b, p.1 ≤ p.2) → a.length = b.length → (∀ w ∈ a, 1 ≤ w) → ∀ w ∈ b, 1 ≤ w := by
    intro a b hz hlen ha w hw
    obtain ⟨i, hi, rfl⟩ := List.getElem_of_mem hw
    have hia : i < a.length := by omega
    have := hz (a[i], b[i]) (by rw [List.mem_iff_getElem]; exact ⟨i, by simp; omega, by simp⟩)
    have := ha a[i] (List.getElem_mem _)
    simp only at *; omega
  rw [calcWidths_ne fl t maxWidth hne, h0]
  by_cases hover : ws0.sum > maxWidth
  · simp only [hover, if_true]
    obtain ⟨hsw, hsum, hrl, _⟩ := shrinkWidths_all_wrappable t maxWidth ws0 hl (fun w hw => by have := hp w hw; omega)
      (by omega) (by omega) hwrap
    simp only [hsw]
    obtain ⟨hml, hm1, hmle⟩ := remeasure_free t hfree _ hrl hkeep
    have hmne : t.remeasure (collapseWidths ws0 t.wrapable maxWidth) ≠ [] := by
      intro h; rw [h] at hml; simp at hml
      rw [← hml] at hrl
      exact hne (List.eq_nil_of_length_eq_zero hrl.symm)
    have hs := sum_le_of_zip_le _ _ hml hmle
    have htw : (t.remeasure (collapseWidths ws0 t.wrapable maxWidth)).sum ≤
        (if fl.staleTableWidth then maxWidth else (t.remeasure (collapseWidths ws0 t.wrapable maxWidth)).sum) := by
      split <;> omega
    generalize (if fl.staleTableWidth then maxWidth else (t.remeasure (collapseWidths ws0 t.wrapable maxWidth)).sum) = tw at htw ⊢
    obtain ⟨r, h1, h2, h3, h4⟩ := padWidths_spec fl t _ tw maxWidth hmne hm1
    refine ⟨r, h1, ?_, by omega, hge1 _ _ h4 h2.symm hm1⟩
    rw [h3]
    have := padTarget_le fl t maxWidth
    split <;> omega
  · simp only [hover, if_false]
    obtain ⟨r, h1, h2, h3, h4⟩ := padWidths_spec fl t ws0 ws0.sum maxWidth hne0 hp
    refine ⟨r, h1, ?_, by omega, hge1 _ _ h4 h2.symm hp⟩
    rw [h3]
    have := padTarget_le fl t maxWidth
    split <;> omega

/-- **width_fits with ratio columns.**  Same statement as `Layout.Dep.width_fits` with `t.NoRatio` replaced by
"the table does not expand, or every ratio that is set is at least 1" (and the table's padding not negative, which is what
makes the flex minimum `1 + padding` at least one cell). -/
theorem width_fits_ratio (fl : Flags) (t : Table) (maxWidth : Int) (hr : t.expand = false ∨ t.RatiosPos) (hfree : t.AllFree)
    (hpad : ∀ i, 0 ≤ t.paddingWidth i)
    (hne : t.columns ≠ []) (hnw : ∀ c ∈ t.columns, c.noWrap = false) (hmw : (t.columns.length : Int) ≤ maxWidth) :
    ∃ ws, t.calcWidths fl maxWidth = some ws ∧ ws.sum ≤ maxWidth ∧ ws.length = t.columns.length ∧ ∀ w ∈ ws, 1 ≤ w :=
  width_fits_core' fl t maxWidth (firstWidths_pos fl t hr hfree hpad maxWidth) hfree hne hnw hmw


/-- **width_fits for every ratio (zero included)** on the code with the repaired flexible-width clamp (`max(minimum, width)`):
the first pass is `firstWidths_ge_one` (Lemmas/TableTotal.lean, C07). -/
theorem width_fits_any_ratio' (fl : Flags) (h2 : fl.flexNegative = false) (h3 : fl.flexClampZero = false) (t : Table)
    (maxWidth : Int) (hfree : t.AllFree) (hpad : ∀ i, 0 ≤ t.paddingWidth i) (hrat : ∀ c ∈ t.columns, 0 ≤ c.ratio.getD 0)
    (hne : t.columns ≠ []) (hnw : ∀ c ∈ t.columns, c.noWrap = false) (hmw : (t.columns.length : Int) ≤ maxWidth) :
    ∃ ws, t.calcWidths fl maxWidth = some ws ∧ ws.sum ≤ maxWidth ∧ ws.length = t.columns.length ∧ ∀ w ∈ ws, 1 ≤ w := by
  apply width_fits_core' fl t maxWidth _ hfree hne hnw hmw
  apply firstWidths_ge_one fl h2 h3 t maxWidth _ hpad _ hrat
  · intro ci hci; exact (measureColumn_free t ci.2 ci.1 maxWidth (hfree ci hci)).1
  · intro c hc
    obtain ⟨i, hi, rfl⟩ := List.getElem_of_mem hc
    have : (t.columns[i], i) ∈ t.indexed := by
      unfold Table.indexed; exact List.mem_zipIdx_iff_getElem?.2 (by simp [hi])
    rw [(hfree _ this).1]; simp

/-- Both domains at once: no active ratio column (`Layout.Dep.width_fits`; this allows `ratio=0` columns as long as NO ratio is
active) or every ratio that is set at least 1 (`width_fits_ratio`). -/
theorem width_fits_noRatio_or_ratiosPos (fl : Flags) (t : Table) (maxWidth : Int) (hr : t.NoRatio ∨ t.RatiosPos)
    (hfree : t.AllFree) (hpad : ∀ i, 0 ≤ t.paddingWidth i)
    (hne : t.columns ≠ []) (hnw : ∀ c ∈ t.columns, c.noWrap = false) (hmw : (t.columns.length : Int) ≤ maxWidth) :
    ∃ ws, t.calcWidths fl maxWidth = some ws ∧ ws.sum ≤ maxWidth ∧ ws.length = t.columns.length ∧ ∀ w ∈ ws, 1 ≤ w := by
  rcases hr with h | h
  · exact Layout.Dep.width_fits fl t maxWidth h hfree hne hnw hmw
  · exact width_fits_ratio fl t maxWidth (Or.inr h) hfree hpad hne hnw hmw

/-- Non-vacuity: an expanding table with an active ratio column satisfies `RatiosPos` (and takes the ratio branch of the
first pass: the ratio column is handed everything the other column leaves). -/
example : Layout.Dep.wTableRatio.expand = true ∧ Layout.Dep.wTableRatio.RatiosPos ∧
    Layout.Dep.wTableRatio.firstWidths Flags.allRepaired 30 = some [29, 1] := by
  refine ⟨rfl, ?_, by decide⟩
  intro c hc r hr
  simp only [Layout.Dep.wTableRatio, List.mem_cons, List.not_mem_nil, or_false] at hc
  rcases hc with rfl | rfl
  · simp only [Option.some.injEq] at hr; omega
  · cases hr

/-- Why `ratio=0` next to an active ratio is excluded: the zero-ratio column is handed what is left — nothing. -/
example : ({ columns := [{ header := Layout.Dep.wCell ['a'], footer := Layout.Dep.wCell [], cells := [], ratio := some 1 },
                          { header := Layout.Dep.wCell ['b'], footer := Layout.Dep.wCell [], cells := [], ratio := some 0 }],
             expandFlag := true, padding := (0, 0, 0, 0) } : Table).firstWidths { Flags.allRepaired with flexClampZero := true } 1 = some [1, 0] := by decide

end RichModel
