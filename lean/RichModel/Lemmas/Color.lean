import RichModel.Model.Color
/-!
Helper lemmas and specification-level predicates for the colour model (property C18).
Core Lean only.
-/
namespace RichModel

/-! ## `min(range(n), key=…)`: first index of a minimum -/

theorem minIndexAux_spec (ks : List Nat) : ∀ (pre : List Nat) (best bk : Nat),
    pre[best]? = some bk →
    (∀ j k, pre[j]? = some k → bk ≤ k ∧ (j < best → bk < k)) →
    ∃ kr, (pre ++ ks)[minIndexAux ks pre.length best bk]? = some kr ∧
      ∀ j k, (pre ++ ks)[j]? = some k → kr ≤ k ∧ (j < minIndexAux ks pre.length best bk → kr < k) := by
  induction ks with
  | nil =>
    intro pre best bk h1 h2
    simp only [minIndexAux, List.append_nil]
    exact ⟨bk, h1, h2⟩
  | cons k ks ih =>
    intro pre best bk h1 h2
    have hb : best < pre.length := by
      rcases Nat.lt_or_ge best pre.length with h | h
      · exact h
      · rw [List.getElem?_eq_none h] at h1; cases h1
    unfold minIndexAux
    have happ : pre ++ k :: ks = (pre ++ [k]) ++ ks := by simp
    have hlen : (pre ++ [k]).length = pre.length + 1 := by simp
    split
    · next hk =>
      have := ih (pre ++ [k]) pre.length k (by simp) (by
        intro j k' hj
        rw [List.getElem?_append] at hj
        split at hj
        · next hjl =>
          have := h2 j k' hj
          omega
        · next hjl =>
          have : j - pre.length = 0 := by
            rcases Nat.eq_zero_or_pos (j - pre.length) with h | h
            · exact h
            · rw [List.getElem?_eq_none (by simp; omega)] at hj; cases hj
          rw [this] at hj
          simp at hj
          omega)
      rw [hlen] at this
      rw [happ]
      exact this
    · next hk =>
      have := ih (pre ++ [k]) best bk (by rw [List.getElem?_append_left hb]; exact h1) (by
        intro j k' hj
        rw [List.getElem?_append] at hj
        split at hj
        · next hjl => exact h2 j k' hj
        · next hjl =>
          have : j - pre.length = 0 := by
            rcases Nat.eq_zero_or_pos (j - pre.length) with h | h
            · exact h
            · rw [List.getElem?_eq_none (by simp; omega)] at hj; cases hj
          rw [this] at hj
          simp at hj
          omega)
      rw [hlen] at this
      rw [happ]
      exact this

/-- `r` is the first index of a minimum of `ks`. -/
def IsFirstMin (ks : List Nat) (r : Nat) : Prop :=
  ∃ kr, ks[r]? = some kr ∧ ∀ j k, ks[j]? = some k → kr ≤ k ∧ (j < r → kr < k)

theorem minIndex_spec (ks : List Nat) (r : Nat) (h : minIndex ks = some r) : IsFirstMin ks r := by
  cases ks with
  | nil => simp [minIndex] at h
  | cons k ks =>
    simp only [minIndex, Option.some.injEq] at h
    have := minIndexAux_spec ks [k] 0 k (by simp) (by
      intro j k' hj
      cases j with
      | zero => simp at hj; omega
      | succ j => simp at hj)
    simp only [List.length_singleton, List.singleton_append] at this
    rw [h] at this
    exact this

theorem minIndex_isSome (ks : List Nat) (h : ks ≠ []) : ∃ r, minIndex ks = some r := by
  cases ks with
  | nil => exact absurd rfl h
  | cons k ks => exact ⟨_, rfl⟩

theorem IsFirstMin.lt {ks : List Nat} {r : Nat} (h : IsFirstMin ks r) : r < ks.length := by
  obtain ⟨kr, h1, _⟩ := h
  rcases Nat.lt_or_ge r ks.length with h | h
  · exact h
  · rw [List.getElem?_eq_none h] at h1; cases h1

/-- `k` is the first palette entry of minimum distance from `c`. -/
def IsNearest (pal : List Triplet) (c : Triplet) (k : Nat) : Prop :=
  ∃ p, pal[k]? = some p ∧ ∀ j q, pal[j]? = some q →
    colorDist2 c p ≤ colorDist2 c q ∧ (j < k → colorDist2 c p < colorDist2 c q)

theorem paletteMatch_spec (pal : List Triplet) (c : Triplet) (k : Nat)
    (h : paletteMatch pal c = .ok k) : IsNearest pal c k := by
  unfold paletteMatch at h
  split at h
  · cases h
  · next i hi =>
    cases h
    obtain ⟨kr, h1, h2⟩ := minIndex_spec _ _ hi
    rw [List.getElem?_map] at h1
    cases hp : pal[k]? with
    | none => rw [hp] at h1; cases h1
    | some p =>
      rw [hp] at h1
      simp only [Option.map_some, Option.some.injEq] at h1
      refine ⟨p, hp, ?_⟩
      intro j q hq
      have := h2 j (colorDist2 c q) (by rw [List.getElem?_map, hq]; rfl)
      rw [h1]; exact this

theorem paletteMatch_ok (pal : List Triplet) (c : Triplet) (h : pal ≠ []) :
    ∃ k, paletteMatch pal c = .ok k := by
  unfold paletteMatch
  obtain ⟨r, hr⟩ := minIndex_isSome (pal.map (colorDist2 c)) (by simpa using h)
  rw [hr]; exact ⟨r, rfl⟩

theorem IsNearest.lt {pal : List Triplet} {c : Triplet} {k : Nat} (h : IsNearest pal c k) : k < pal.length := by
  obtain ⟨p, h1, _⟩ := h
  rcases Nat.lt_or_ge k pal.length with h | h
  · exact h
  · rw [List.getElem?_eq_none h] at h1; cases h1

/-- the nearest entry is unique: the specification determines the answer. -/
theorem IsNearest.unique {pal : List Triplet} {c : Triplet} {k k' : Nat}
    (h : IsNearest pal c k) (h' : IsNearest pal c k') : k = k' := by
  obtain ⟨p, hp, hmin⟩ := h
  obtain ⟨p', hp', hmin'⟩ := h'
  have a := hmin k' p' hp'
  have b := hmin' k p hp
  omega

/-! ## arithmetic -/

theorem cubeCoord_eq (c : Nat) : cubeCoord c = (c + 25) / 51 := by
  unfold cubeCoord pyRound
  simp only
  split
  · omega
  · split
    · omega
    · omega

theorem pyRound_gray_le (s : Nat) (h : s ≤ 510) : pyRound (25 * s) 510 ≤ 25 := by
  unfold pyRound
  simp only
  split
  · omega
  · split
    · omega
    · split <;> omega

theorem pyRound_gray_diag (v : Nat) : pyRound (25 * (v + v)) 510 = (10 * v + 51) / 102 := by
  unfold pyRound
  simp only
  split
  · omega
  · split
    · omega
    · split <;> omega

theorem cubeCoord_le (c : Nat) (h : c ≤ 255) : cubeCoord c ≤ 5 := by
  rw [cubeCoord_eq]; omega


theorem cubeCoord_diag_examples : cubeCoord 25 = 0 ∧ cubeCoord 26 = 1 ∧ cubeCoord 255 = 5 := by decide

/-! ## well-formed colours, gamut -/

def Triplet.WF (t : Triplet) : Prop := t.red ≤ 255 ∧ t.green ≤ 255 ∧ t.blue ≤ 255

def Color.WF (c : Color) : Prop :=
  match c.type with
  | .default => c.number = none ∧ c.triplet = none
  | .standard => (∃ n, c.number = some n ∧ n < 16) ∧ c.triplet = none
  | .windows => (∃ n, c.number = some n ∧ n < 16) ∧ c.triplet = none
  | .eightBit => (∃ n, c.number = some n ∧ n < 256) ∧ c.triplet = none
  | .truecolor => c.number = none ∧ ∃ t, c.triplet = some t ∧ t.WF

def Color.InGamut (r : Color) : ColorSystem → Prop
  | .standard => r.WF ∧ (r.type = .default ∨ r.type = .standard)
  | .windows => r.WF ∧ (r.type = .default ∨ r.type = .windows)
  | .eightBit => r.WF ∧ r.type ≠ .truecolor
  | .truecolor => r.WF

def tripletOk (t : Triplet) : Bool := t.red ≤ 255 && t.green ≤ 255 && t.blue ≤ 255

def Palettes.ok (P : Palettes) : Bool :=
  P.standard.length == 16 && P.windows.length == 16 && P.eightBit.length == 256 &&
  P.standard.all tripletOk && P.windows.all tripletOk && P.eightBit.all tripletOk

def onGreyRamp (n : Nat) : Prop := n = 16 ∨ n = 231 ∨ (232 ≤ n ∧ n ≤ 255)

theorem toEightBitNumber_grey (exc : List (Nat × Nat)) (t : Triplet) (h : t.WF) (hs : satLow exc t = true) :
    onGreyRamp (toEightBitNumber exc t) := by
  unfold toEightBitNumber onGreyRamp
  obtain ⟨h1, h2, h3⟩ := h
  have hg : grayLevel t ≤ 25 := by
    unfold grayLevel
    apply pyRound_gray_le
    unfold Triplet.maxc Triplet.minc
    omega
  simp only [hs, if_true]
  split
  · omega
  · split <;> omega

theorem toEightBitNumber_cube (exc : List (Nat × Nat)) (t : Triplet) (h : t.WF) (hs : satLow exc t = false) :
    toEightBitNumber exc t = 16 + 36 * ((t.red + 25) / 51) + 6 * ((t.green + 25) / 51) + (t.blue + 25) / 51 ∧
    16 ≤ toEightBitNumber exc t ∧ toEightBitNumber exc t ≤ 231 := by
  obtain ⟨h1, h2, h3⟩ := h
  unfold toEightBitNumber
  simp only [hs, Bool.false_eq_true, if_false, cubeCoord_eq]
  refine ⟨trivial, ?_, ?_⟩ <;> omega

theorem toEightBitNumber_range (exc : List (Nat × Nat)) (t : Triplet) (h : t.WF) :
    16 ≤ toEightBitNumber exc t ∧ toEightBitNumber exc t ≤ 255 := by
  cases hs : satLow exc t with
  | true => have := toEightBitNumber_grey exc t h hs; unfold onGreyRamp at this; omega
  | false => have := toEightBitNumber_cube exc t h hs; omega

theorem paletteGet_ok (pal : List Triplet) (n : Nat) (h : n < pal.length) :
    ∃ t, paletteGet pal n = .ok t ∧ pal[n]? = some t := by
  unfold paletteGet
  rw [List.getElem?_eq_getElem h]
  exact ⟨_, rfl, rfl⟩

theorem paletteMatch_ok16 (pal : List Triplet) (c : Triplet) (h : pal.length = 16) :
    ∃ k, paletteMatch pal c = .ok k ∧ k < 16 ∧ IsNearest pal c k := by
  obtain ⟨k, hk⟩ := paletteMatch_ok pal c (by intro h'; rw [h'] at h; cases h)
  have := paletteMatch_spec pal c k hk
  exact ⟨k, hk, h ▸ this.lt, this⟩

theorem downgrade_wf (cfg : Cfg) (P : Palettes) (hP : P.ok = true) (c : Color) (sys : ColorSystem) (h : c.WF) :
    ∃ r, downgrade cfg P c sys = .ok r ∧ r.InGamut sys ∧ r.name = c.name := by
  obtain ⟨name, type, number, triplet⟩ := c
  simp only [Palettes.ok, Bool.and_eq_true, beq_iff_eq] at hP
  obtain ⟨⟨⟨⟨⟨h16, hw16⟩, h256⟩, hsa⟩, hwa⟩, hea⟩ := hP
  cases type <;> cases sys <;> simp only [Color.WF] at h
  all_goals simp [downgrade, Color.system, ColorType.toNat, ColorSystem.toNat, Color.InGamut, Color.WF, h]
  case truecolor.standard =>
    obtain ⟨hn, t, rfl, ht⟩ := h
    obtain ⟨k, hk, hk16, _⟩ := paletteMatch_ok16 P.standard t h16
    simp [assertSome, bind, Except.bind, hk, hk16]
  case truecolor.windows =>
    obtain ⟨hn, t, rfl, ht⟩ := h
    obtain ⟨k, hk, hk16, _⟩ := paletteMatch_ok16 P.windows t hw16
    simp [assertSome, bind, Except.bind, hk, hk16]
  case truecolor.eightBit =>
    obtain ⟨hn, t, rfl, ht⟩ := h
    have := toEightBitNumber_range cfg.satExc t ht
    simp [assertSome, bind, Except.bind]
    omega
  case standard.windows =>
    obtain ⟨⟨n, rfl, hn⟩, rfl⟩ := h
    simp [assertSome, bind, Except.bind, hn]
  case eightBit.windows =>
    obtain ⟨⟨n, rfl, hn⟩, rfl⟩ := h
    obtain ⟨t, ht, _⟩ := paletteGet_ok P.eightBit n (by omega)
    obtain ⟨k, hk, hk16, _⟩ := paletteMatch_ok16 P.windows t hw16
    simp only [assertSome, bind, Except.bind]
    split
    · next hc => simp [hc]
    · simp [ht, hk, hk16]
  case eightBit.standard =>
    obtain ⟨⟨n, rfl, hn⟩, rfl⟩ := h
    obtain ⟨t, ht, _⟩ := paletteGet_ok P.eightBit n (by omega)
    obtain ⟨k, hk, hk16, _⟩ := paletteMatch_ok16 P.standard t h16
    simp only [assertSome, bind, Except.bind]
    split
    · next hc => simp [hc.2]
    · simp [ht, hk, hk16]
  case windows.standard =>
    obtain ⟨⟨n, rfl, hn⟩, rfl⟩ := h
    obtain ⟨t, ht, _⟩ := paletteGet_ok P.eightBit n (by omega)
    obtain ⟨k, hk, hk16, _⟩ := paletteMatch_ok16 P.standard t h16
    simp only [assertSome, bind, Except.bind]
    split
    · next hc => simp [hc.2]
    · simp [ht, hk, hk16]

theorem downgrade_type (cfg : Cfg) (P : Palettes) (c r : Color) (sys : ColorSystem)
    (h : downgrade cfg P c sys = .ok r) : r = c ∨ r.type.toNat = sys.toNat := by
  obtain ⟨name, type, number, triplet⟩ := c
  cases type <;> cases sys <;> cases number <;> cases triplet <;>
    simp [downgrade, Color.system, ColorType.toNat, ColorSystem.toNat, assertSome, bind, Except.bind] at h
  all_goals first
    | (left; exact h.symm)
    | (right; (repeat' split at h) <;> first | (cases h; rfl) | cases h)

/-! ## idempotence, fixed points, nearest entry, SGR parameters, metric bound -/

theorem downgrade_idem (cfg : Cfg) (P : Palettes) (c r : Color) (sys : ColorSystem)
    (h : downgrade cfg P c sys = .ok r) : downgrade cfg P r sys = .ok r := by
  rcases downgrade_type cfg P c r sys h with rfl | ht
  · exact h
  · unfold downgrade
    simp [ht]

theorem downgrade_native (cfg : Cfg) (P : Palettes) (c : Color) (sys : ColorSystem)
    (h : c.type = .default ∨ c.type.toNat = sys.toNat ∨ sys = .truecolor ∨ (sys = .eightBit ∧ c.type ≠ .truecolor)) :
    downgrade cfg P c sys = .ok c := by
  obtain ⟨name, type, number, triplet⟩ := c
  cases type <;> cases sys <;>
    simp [downgrade, Color.system, ColorType.toNat, ColorSystem.toNat] at h ⊢

/-- the 16-colour type that belongs to a 16-colour system -/
def ColorSystem.type16 : ColorSystem → ColorType
  | .windows => .windows
  | _ => .standard

theorem downgrade_keeps_index (cfg : Cfg) (hcfg : cfg.stdViaPalette = false) (P : Palettes) (c : Color)
    (sys : ColorSystem) (n : Nat)
    (hsys : sys = .standard ∨ sys = .windows)
    (ht : c.type = .standard ∨ c.type = .eightBit ∨ c.type = .windows)
    (hn : c.number = some n) (h16 : n < 16) :
    ∃ r, downgrade cfg P c sys = .ok r ∧ r.number = some n ∧ r.type = sys.type16 ∧ r.name = c.name := by
  obtain ⟨name, type, number, triplet⟩ := c
  simp only at hn ht
  subst hn
  rcases hsys with rfl | rfl <;> rcases ht with rfl | rfl | rfl <;>
    simp [downgrade, Color.system, ColorType.toNat, ColorSystem.toNat, assertSome, bind, Except.bind, hcfg, h16,
      ColorSystem.type16]

/-- The RGB value a palette search is specified over: the triplet of a truecolor colour, the
8-bit palette entry of an 8-bit colour. -/
def sourceTriplet (P : Palettes) (c : Color) : Option Triplet :=
  match c.type with
  | .truecolor => c.triplet
  | .eightBit => match c.number with
    | some n => P.eightBit[n]?
    | none => none
  | _ => none

theorem downgrade_nearest (cfg : Cfg) (P : Palettes) (c r : Color) (sys : ColorSystem) (t : Triplet)
    (hsys : sys = .standard ∨ sys = .windows)
    (hsrc : sourceTriplet P c = some t)
    (hbig : c.type = .eightBit → ∀ n, c.number = some n → 16 ≤ n)
    (h : downgrade cfg P c sys = .ok r) :
    ∃ k, r.number = some k ∧ r.type = sys.type16 ∧
      IsNearest (if sys = .windows then P.windows else P.standard) t k := by
  obtain ⟨name, type, number, triplet⟩ := c
  rcases hsys with rfl | rfl <;> cases type <;> simp [sourceTriplet] at hsrc
  case inl.truecolor =>
    subst hsrc
    simp [downgrade, Color.system, ColorType.toNat, ColorSystem.toNat, assertSome, bind, Except.bind] at h
    split at h
    · cases h
    · next k hk => cases h; exact ⟨k, rfl, rfl, by simpa using paletteMatch_spec _ _ _ hk⟩
  case inr.truecolor =>
    subst hsrc
    simp [downgrade, Color.system, ColorType.toNat, ColorSystem.toNat, assertSome, bind, Except.bind] at h
    split at h
    · cases h
    · next k hk => cases h; exact ⟨k, rfl, rfl, by simpa using paletteMatch_spec _ _ _ hk⟩
  case inl.eightBit =>
    cases number with
    | none => simp at hsrc
    | some n =>
      simp only at hsrc
      have hn : 16 ≤ n := hbig rfl n rfl
      have hn' : ¬ n < 16 := by omega
      simp [downgrade, Color.system, ColorType.toNat, ColorSystem.toNat, assertSome, bind, Except.bind,
        paletteGet, hsrc, hn'] at h
      split at h
      · cases h
      · next k hk => cases h; exact ⟨k, rfl, rfl, by simpa using paletteMatch_spec _ _ _ hk⟩
  case inr.eightBit =>
    cases number with
    | none => simp at hsrc
    | some n =>
      simp only at hsrc
      have hn : 16 ≤ n := hbig rfl n rfl
      have hn' : ¬ n < 16 := by omega
      simp [downgrade, Color.system, ColorType.toNat, ColorSystem.toNat, assertSome, bind, Except.bind,
        paletteGet, hsrc, hn'] at h
      split at h
      · cases h
      · next k hk => cases h; exact ⟨k, rfl, rfl, by simpa using paletteMatch_spec _ _ _ hk⟩


/-- The standard SGR parameters for a colour of each kind (ECMA-48 / xterm):
39/49 default; 30-37, 90-97 (fg) and 40-47, 100-107 (bg) for the 16 colours;
38;5;n / 48;5;n; 38;2;r;g;b / 48;2;r;g;b. -/
def sgrSpec (c : Color) (fg : Bool) : List Nat :=
  match c.type with
  | .default => [if fg then 39 else 49]
  | .standard | .windows =>
    let n := c.number.getD 0
    [if n < 8 then (if fg then 30 else 40) + n else (if fg then 90 else 100) + (n - 8)]
  | .eightBit => [if fg then 38 else 48, 5, c.number.getD 0]
  | .truecolor =>
    match c.triplet with
    | some t => [if fg then 38 else 48, 2, t.red, t.green, t.blue]
    | none => []

theorem getAnsiCodes_spec (c : Color) (fg : Bool) (h : c.WF) : getAnsiCodes c fg = .ok (sgrSpec c fg) := by
  obtain ⟨name, type, number, triplet⟩ := c
  cases type <;> simp only [Color.WF] at h
  · simp [getAnsiCodes, sgrSpec]
  · obtain ⟨⟨n, rfl, hn⟩, rfl⟩ := h
    simp only [getAnsiCodes, sgrSpec, assertSome, bind, Except.bind, Option.getD_some]
    by_cases h8 : n < 8 <;> cases fg <;> simp [h8] <;> omega
  · obtain ⟨⟨n, rfl, hn⟩, rfl⟩ := h
    simp [getAnsiCodes, sgrSpec, assertSome, bind, Except.bind]
  · obtain ⟨rfl, t, rfl, ht⟩ := h
    simp [getAnsiCodes, sgrSpec, assertSome, bind, Except.bind]
  · obtain ⟨⟨n, rfl, hn⟩, rfl⟩ := h
    simp only [getAnsiCodes, sgrSpec, assertSome, bind, Except.bind, Option.getD_some]
    by_cases h8 : n < 8 <;> cases fg <;> simp [h8] <;> omega

theorem absDiff_le (a b : Nat) (ha : a ≤ 255) (hb : b ≤ 255) : absDiff a b ≤ 255 := by
  unfold absDiff; split <;> omega

theorem colorDist2_le (c p : Triplet) (hc : c.WF) (hp : p.WF) : colorDist2 c p ≤ 649740 := by
  obtain ⟨c1, c2, c3⟩ := hc
  obtain ⟨p1, p2, p3⟩ := hp
  unfold colorDist2
  simp only
  have hr := absDiff_le c.red p.red c1 p1
  have hg := absDiff_le c.green p.green c2 p2
  have hb := absDiff_le c.blue p.blue c3 p3
  have hrr : absDiff c.red p.red * absDiff c.red p.red ≤ 255 * 255 := Nat.mul_le_mul hr hr
  have hgg : absDiff c.green p.green * absDiff c.green p.green ≤ 255 * 255 := Nat.mul_le_mul hg hg
  have hbb : absDiff c.blue p.blue * absDiff c.blue p.blue ≤ 255 * 255 := Nat.mul_le_mul hb hb
  have hm : (c.red + p.red) / 2 ≤ 255 := by omega
  have h1 : (512 + (c.red + p.red) / 2) * absDiff c.red p.red * absDiff c.red p.red ≤ 767 * (255 * 255) := by
    rw [Nat.mul_assoc]; exact Nat.mul_le_mul (by omega) hrr
  have h3 : (767 - (c.red + p.red) / 2) * absDiff c.blue p.blue * absDiff c.blue p.blue ≤ 767 * (255 * 255) := by
    rw [Nat.mul_assoc]; exact Nat.mul_le_mul (by omega) hbb
  have h1' := Nat.div_le_div_right (c := 256) h1
  have h3' := Nat.div_le_div_right (c := 256) h3
  have h2 : 4 * absDiff c.green p.green * absDiff c.green p.green ≤ 4 * (255 * 255) := by
    rw [Nat.mul_assoc]; exact Nat.mul_le_mul (Nat.le_refl 4) hgg
  omega

end RichModel
