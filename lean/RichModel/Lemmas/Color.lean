import RichModel.Model.Color
/-!
Helper lemmas and specification-level predicates for the colour model (property C18).
Core Lean only.
-/
namespace RichModel

/-! ## `min(range(n), key=…)`: first index of a minimum -/

theorem minIndexAux_spec (ks : List Nat) : ∀ (pre : List Nat) (best bk : Nat),
    pre[best]? = some bk →
    (∀ j k, pre[j]? = some k → bk ≤ k ∧ (j < best → bk < k)) →
    ∃ kr, (pre ++ ks)[minIndexAux ks pre.length best bk]? = some kr ∧
      ∀ j k, (pre ++ ks)[j]? = some k → kr ≤ k ∧ (j < minIndexAux ks pre.length best bk → kr < k) := by
  induction ks with
  | nil =>
    intro pre best bk h1 h2
    simp only [minIndexAux, List.append_nil]
    exact ⟨bk, h1, h2⟩
  | cons k ks ih =>
    intro pre best bk h1 h2
    have hb : best < pre.length := by
      rcases Nat.lt_or_ge best pre.length with h | h
      · exact h
      · rw [List.getElem?_eq_none h] at h1; cases h1
    unfold minIndexAux
    have happ : pre ++ k :: ks = (pre ++ [k]) ++ ks := by simp
    have hlen : (pre ++ [k]).length = pre.length + 1 := by simp
    split
    · next hk =>
      have := ih (pre ++ [k]) pre.length k (by simp) (by
        intro j k' hj
        rw [List.getElem?_append] at hj
        split at hj
        · next hjl =>
          have := h2 j k' hj
          omega
        · next hjl =>
          have : j - pre.length = 0 := by
            rcases Nat.eq_zero_or_pos (j - pre.length) with h | h
            · exact h
            · rw [List.getElem?_eq_none (by simp; omega)] at hj; cases hj
          rw [this] at hj
          simp at hj
          omega)
      rw [hlen] at this
      rw [happ]
      exact this
    · next hk =>
      have := ih (pre ++ [k]) best bk (by rw [List.getElem?_append_left hb]; exact h1) (by
        intro j k' hj
        rw [List.getElem?_append] at hj
        split at hj
        · next hjl => exact h2 j k' hj
        · next hjl =>
          have : j - pre.length = 0 := by
            rcases Nat.eq_zero_or_pos (j - pre.length) with h | h
            · exact h
            · rw [List.getElem?_eq_none (by simp; omega)] at hj; cases hj
          rw [this] at hj
          simp at hj
          omega)
      rw [hlen] at this
      rw [happ]
      exact this

/-- `r` is the first index of a minimum of `ks`. -/
def IsFirstMin (ks : List Nat) (r : Nat) : Prop :=
  ∃ kr, ks[r]? = some kr ∧ ∀ j k, ks[j]? = some k → kr ≤ k ∧ (j < r → kr < k)

theorem minIndex_spec (ks : List Nat) (r : Nat) (h : minIndex ks = some r) : IsFirstMin ks r := by
  cases ks with
  | nil => simp [minIndex] at h
  | cons k ks =>
    simp only [minIndex, Option.some.injEq] at h
    have := minIndexAux_spec ks [k] 0 k (by simp) (by
      intro j k' hj
      cases j with
      | zero => simp at hj; omega
      | succ j => simp at hj)
    simp only [List.length_singleton, List.singleton_append] at this
    rw [h] at this
    exact this

theorem minIndex_isSome (ks : List Nat) (h : ks ≠ []) : ∃ r, minIndex ks = some r := by
  cases ks with
  | nil => exact absurd rfl h
  | cons k ks => exact ⟨_, rfl⟩

theorem IsFirstMin.lt {ks : List Nat} {r : Nat} (h : IsFirstMin ks r) : r < ks.length := by
  obtain ⟨kr, h1, _⟩ := h
  rcases Nat.lt_or_ge r ks.length with h | h
  · exact h
  · rw [List.getElem?_eq_none h] at h1; cases h1

/-- `k` is the first palette entry of minimum distance from `c`. -/
def IsNearest (pal : List Triplet) (c : Triplet) (k : Nat) : Prop :=
  ∃ p, pal[k]? = some p ∧ ∀ j q, pal[j]? = some q →
    colorDist2 c p ≤ colorDist2 c q ∧ (j < k → colorDist2 c p < colorDist2 c q)

theorem paletteMatch_spec (pal : List Triplet) (c : Triplet) (k : Nat)
    (h : paletteMatch pal c = .ok k) : IsNearest pal c k := by
  unfold paletteMatch at h
  split at h
  · cases h
  · next i hi =>
    cases h
    obtain ⟨kr, h1, h2⟩ := minIndex_spec _ _ hi
    rw [List.getElem?_map] at h1
    cases hp : pal[k]? with
    | none => rw [hp] at h1; cases h1
    | some p =>
      rw [hp] at h1
      simp only [Option.map_some, Option.some.injEq] at h1
      refine ⟨p, hp, ?_⟩
      intro j q hq
      have := h2 j (colorDist2 c q) (by rw [List.getElem?_map, hq]; rfl)
      rw [h1]; exact this

theorem paletteMatch_ok (pal : List Triplet) (c : Triplet) (h : pal ≠ []) :
    ∃ k, paletteMatch pal c = .ok k := by
  unfold paletteMatch
  obtain ⟨r, hr⟩ := minIndex_isSome (pal.map (colorDist2 c)) (by simpa using h)
  rw [hr]; exact ⟨r, rfl⟩

theorem IsNearest.lt {pal : List Triplet} {c : Triplet} {k : Nat} (h : IsNearest pal c k) : k < pal.length := by
  obtain ⟨p, h1, _⟩ := h
  rcases Nat.lt_or_ge k pal.length with h | h
  · exact h
  · rw [List.getElem?_eq_none h] at h1; cases h1

/-- the nearest entry is unique: the specification determines the answer. -/
theorem IsNearest.unique {pal : List Triplet} {c : Triplet} {k k' : Nat}
    (h : IsNearest pal c k) (h' : IsNearest pal c k') : k = k' := by
  obtain ⟨p, hp, hmin⟩ := h
  obtain ⟨p', hp', hmin'⟩ := h'
  have a := hmin k' p' hp'
  have b := hmin' k p hp
  omega

/-! ## arithmetic -/

theorem cubeCoord_eq (c : Nat) : cubeCoord c = (c + 25) / 51 := by
  unfold cubeCoord pyRound
  simp only
  split
  · omega
  · split
    · omega
    · omega

theorem pyRound_gray_le (s : Nat) (h : s ≤ 510) : pyRound (25 * s) 510 ≤ 25 := by
  unfold pyRound
  simp only
  split
  · omega
  · split
    · omega
    · split <;> omega

theorem pyRound_gray_diag (v : Nat) : pyRound (25 * (v + v)) 510 = (10 * v + 51) / 102 := by
  unfold pyRound
  simp only
  split
  · omega
  · split
    · omega
    · split <;> omega

theorem cubeCoord_le (c : Nat) (h : c ≤ 255) : cubeCoord c ≤ 5 := by
  rw [cubeCoord_eq]; omega


theorem cubeCoord_diag_examples : cubeCoord 25 = 0 ∧ cubeCoord 26 = 1 ∧ cubeCoord 255 = 5 := by decide

/-! ## well-formed colours, gamut -/

def Triplet.WF (t : Triplet) : Prop := t.red ≤ 255 ∧ t.green ≤ 255 ∧ t.blue ≤ 255

def Color.WF (c : Color) : Prop :=
  match c.type with
  | .default => c.number = none ∧ c.triplet = none
  | .standard => (∃ n, c.number = some n ∧ n < 16) ∧ c.triplet = none
  | .windows => (∃ n, c.number = some n ∧ n < 16) ∧ c.triplet = none
  | .eightBit => (∃ n, c.number = some n ∧ n < 256) ∧ c.triplet = none
  | .truecolor => c.number = none ∧ ∃ t, c.triplet = some t ∧ t.WF

def Color.InGamut (r : Color) : ColorSystem → Prop
  | .standard => r.WF ∧ (r.type = .default ∨ r.type = .standard)
  | .windows => r.WF ∧ (r.type = .default ∨ r.type = .windows)
  | .eightBit => r.WF ∧ r.type ≠ .truecolor
  | .truecolor => r.WF

def tripletOk (t : Triplet) : Bool := t.red ≤ 255 && t.green ≤ 255 && t.blue ≤ 255

def Palettes.ok (P : Palettes) : Bool :=
  P.standard.length == 16 && P.windows.length == 16 && P.eightBit.length == 256 &&
  P.standard.all tripletOk && P.windows.all tripletOk && P.eightBit.all tripletOk

def onGreyRamp (n : Nat) : Prop := n = 16 ∨ n = 231 ∨ (232 ≤ n ∧ n ≤ 255)

theorem toEightBitNumber_grey (exc : List (Nat × Nat)) (t : Triplet) (h : t.WF) (hs : satLow exc t = true) :
    onGreyRamp (toEightBitNumber exc t) := by
  unfold toEightBitNumber onGreyRamp
  obtain ⟨h1, h2, h3⟩ := h
  have hg : grayLevel t ≤ 25 := by
    unfold grayLevel
    apply pyRound_gray_le
    unfold Triplet.maxc Triplet.minc
    omega
  simp only [hs, if_true]
  split
  · omega
  · split <;> omega

theorem toEightBitNumber_cube (exc : List (Nat × Nat)) (t : Triplet) (h : t.WF) (hs : satLow exc t = false) :
    toEightBitNumber exc t = 16 + 36 * ((t.red + 25) / 51) + 6 * ((t.green + 25) / 51) + (t.blue + 25) / 51 ∧
    16 ≤ toEightBitNumber exc t ∧ toEightBitNumber exc t ≤ 231 := by
  obtain ⟨h1, h2, h3⟩ := h
  unfold toEightBitNumber
  simp only [hs, Bool.false_eq_true, if_false, cubeCoord_eq]
  refine ⟨trivial, ?_, ?_⟩ <;> omega

theorem toEightBitNumber_range (exc : List (Nat × Nat)) (t : Triplet) (h : t.WF) :
    16 ≤ toEightBitNumber exc t ∧ toEightBitNumber exc t ≤ 255 := by
  cases hs : satLow exc t with
  | true => have := toEightBitNumber_grey exc t h hs; unfold onGreyRamp at this; omega
  | false => have := toEightBitNumber_cube exc t h hs; omega

theorem paletteGet_ok (pal : List Triplet) (n : Nat) (h : n < pal.length) :
    ∃ t, paletteGet pal n = .ok t ∧ pal[n]? = some t := by
  unfold paletteGet
  rw [List.getElem?_eq_getElem h]
  exact ⟨_, rfl, rfl⟩

theorem paletteMatch_ok16 (pal : List Triplet) (c : Triplet) (h : pal.length = 16) :
    ∃ k, paletteMatch pal c = .ok k ∧ k < 16 ∧ IsNearest pal c k := by
  obtain ⟨k, hk⟩ := paletteMatch_ok pal c (by intro h'; rw [h'] at h; cases h)
  have := paletteMatch_spec pal c k hk
  exact ⟨k, hk, h ▸ this.lt, this⟩

theorem downgrade_wf (cfg : Cfg) (P : Palettes) (hP : P.ok = true) (c : Color) (sys : ColorSystem) (h : c.WF) :
    ∃ r, downgrade cfg P c sys = .ok r ∧ r.InGamut sys ∧ r.name = c.name := by
  obtain ⟨name, type, number, triplet⟩ := c
  simp only [Palettes.ok, Bool.and_eq_true, beq_iff_eq] at hP
  obtain ⟨⟨⟨⟨⟨h16, hw16⟩, h256⟩, hsa⟩, hwa⟩, hea⟩ := hP
  cases type <;> cases sys <;> simp only [Color.WF] at h
  all_goals simp [downgrade, Color.system, ColorType.toNat, ColorSystem.toNat, Color.InGamut, Color.WF, h]
  case truecolor.standard =>
    obtain ⟨hn, t, rfl, ht⟩ := h
    obtain ⟨k, hk, hk16, _⟩ := paletteMatch_ok16 P.standard t h16
    simp [assertSome, bind, Except.bind, hk, hk16]
  case truecolor.windows =>
    obtain ⟨hn, t, rfl, ht⟩ := h
    obtain ⟨k, hk, hk16, _⟩ := paletteMatch_ok16 P.windows t hw16
    simp [assertSome, bind, Except.bind, hk, hk16]
  case truecolor.eightBit =>
    obtain ⟨hn, t, rfl, ht⟩ := h
    have := toEightBitNumber_range cfg.satExc t ht
    simp [assertSome, bind, Except.bind]
    omega
  case standard.windows =>
    obtain ⟨⟨n, rfl, hn⟩, rfl⟩ := h
    simp [assertSome, bind, Except.bind, hn]
  case eightBit.windows =>
    obtain ⟨⟨n, rfl, hn⟩, rfl⟩ := h
    obtain ⟨t, ht, _⟩ := paletteGet_ok P.eightBit n (by omega)
    obtain ⟨k, hk, hk16, _⟩ := paletteMatch_ok16 P.windows t hw16
    simp only [assertSome, bind, Except.bind]
    split <;> simp [ht, hk, hk16, *]
  case eightBit.standard =>
    obtain ⟨⟨n, rfl, hn⟩, rfl⟩ := h
    obtain ⟨t, ht, _⟩ := paletteGet_ok P.eightBit n (by omega)
    obtain ⟨k, hk, hk16, _⟩ := paletteMatch_ok16 P.standard t h16
    simp only [assertSome, bind, Except.bind]
    split
    · next hc => simp [hc.2]
    · simp [ht, hk, hk16]
  case windows.standard =>
    obtain ⟨⟨n, rfl, hn⟩, rfl⟩ := h
    obtain ⟨t, ht, _⟩ := paletteGet_ok P.eightBit n (by omega)
    obtain ⟨k, hk, hk16, _⟩ := paletteMatch_ok16 P.standard t h16
    simp only [assertSome, bind, Except.bind]
    split
    · next hc => simp [hc.2]
    · simp [ht, hk, hk16]

theorem downgrade_type (cfg : Cfg) (P : Palettes) (c r : Color) (sys : ColorSystem)
    (h : downgrade cfg P c sys = .ok r) : r = c ∨ r.type.toNat = sys.toNat := by
  obtain ⟨name, type, number, triplet⟩ := c
  cases type <;> cases sys <;> cases number <;> cases triplet <;>
    simp [downgrade, Color.system, ColorType.toNat, ColorSystem.toNat, assertSome, bind, Except.bind] at h
  all_goals first
    | (left; exact h.symm)
    | (right; (repeat' split at h) <;> first | (cases h; rfl) | cases h)

end RichModel
