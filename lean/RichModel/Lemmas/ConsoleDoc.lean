import RichModel.Lemmas.ConsoleHtml
import RichModel.Gen.ConsoleHtmlFormat
/-!
The whole HTML document of `export_html`:
* the template substitution keeps `{code}` intact (`formatTemplate_code_once`), and removing tags from the document
  gives the template's text around the code's text (`stripTags_document`);
* the class numbering of `inline_styles=False`: one stylesheet rule per distinct CSS rule, numbered `r1..rn` in
  first-use order, and every `class="rN"` in the code is looked up in that final table (`classLoop_numbering`,
  `classLoop_lookup`).
-/
namespace RichModel.Console
open RichModel

variable {σ : Type}

/-! ## template -/

theorem formatTemplate_append (o : HtmlOpts) (a b : List TItem) (code ss : List Char) :
    formatTemplate { o with template := a ++ b } code ss =
      formatTemplate { o with template := a } code ss ++ formatTemplate { o with template := b } code ss := by
  simp [formatTemplate]

/-- A part of the template without `{code}` renders the same whatever the code is. -/
theorem formatTemplate_indep (o : HtmlOpts) (t : List TItem) (h : TItem.code ∉ t) (c1 c2 ss : List Char) :
    formatTemplate { o with template := t } c1 ss = formatTemplate { o with template := t } c2 ss := by
  induction t with
  | nil => rfl
  | cons x t ih =>
    have hx : x ≠ TItem.code := fun e => h (e ▸ List.mem_cons_self ..)
    have ht : TItem.code ∉ t := fun hm => h (List.mem_cons_of_mem _ hm)
    have := ih ht
    simp only [formatTemplate, List.flatMap_cons] at this ⊢
    rw [this]
    cases x <;> simp_all

/-- **Template substitution keeps the code intact.**  For any format string that contains the `{code}` placeholder
once, the document is `pre ++ code ++ post` where `pre` and `post` do not depend on the code (they are the rest of
the template with `{stylesheet}`, `{foreground}`, `{background}` filled in). -/
theorem formatTemplate_code_once (o : HtmlOpts) (a b : List TItem) (ht : o.template = a ++ [TItem.code] ++ b)
    (ha : TItem.code ∉ a) (hb : TItem.code ∉ b) (ss : List Char) :
    ∀ code, formatTemplate o code ss =
      formatTemplate { o with template := a } [] ss ++ code ++ formatTemplate { o with template := b } [] ss := by
  intro code
  have e : o = { o with template := a ++ [TItem.code] ++ b } := by cases o; simp_all
  rw [e, formatTemplate_append, formatTemplate_append]
  simp only
  rw [formatTemplate_indep o a ha code [] ss, formatTemplate_indep o b hb code [] ss]
  simp [formatTemplate]

/-! ## removing tags from a concatenation -/

/-- Scanner state (inside a tag?) after reading `s`. -/
def tagState : Bool → List Char → Bool
  | b, [] => b
  | false, c :: r => tagState (c == '<') r
  | true, c :: r => tagState (!(c == '>')) r

theorem stripTagsAux_append (b : Bool) (x y : List Char) :
    stripTagsAux b (x ++ y) = stripTagsAux b x ++ stripTagsAux (tagState b x) y := by
  induction x generalizing b with
  | nil => cases b <;> simp [stripTagsAux, tagState]
  | cons c x ih =>
    cases b
    · by_cases h : (c == '<') = true
      · simp only [List.cons_append, stripTagsAux, h, if_true, tagState, ih]
      · have h' : (c == '<') = false := by simpa using h
        simp only [List.cons_append, stripTagsAux, h', Bool.false_eq_true, if_false, tagState, ih]
    · by_cases h : (c == '>') = true
      · simp only [List.cons_append, stripTagsAux, h, if_true, tagState, ih, Bool.not_true]
      · have h' : (c == '>') = false := by simpa using h
        simp only [List.cons_append, stripTagsAux, h', Bool.false_eq_true, if_false, tagState, ih, Bool.not_false]

theorem tagState_append (b : Bool) (x y : List Char) : tagState b (x ++ y) = tagState (tagState b x) y := by
  induction x generalizing b with
  | nil => cases b <;> rfl
  | cons c x ih => cases b <;> simp [tagState, ih]

theorem tagState_text (t : List Char) (h : '<' ∉ t) : tagState false t = false := by
  induction t with
  | nil => rfl
  | cons c t ih =>
    have hc : (c == '<') = false := by
      simp only [List.mem_cons, not_or] at h
      simp only [beq_eq_false_iff_ne, ne_eq]
      exact fun e => h.1 e.symm
    simp only [tagState, hc]
    exact ih (fun hm => h (List.mem_cons_of_mem _ hm))

theorem tagState_tagBody (b : List Char) (h : '>' ∉ b) : tagState true (b ++ ['>']) = false := by
  induction b with
  | nil => rfl
  | cons c b ih =>
    have hc : (c == '>') = false := by
      simp only [List.mem_cons, not_or] at h
      simp only [beq_eq_false_iff_ne, ne_eq]
      exact fun e => h.1 e.symm
    simp only [List.cons_append, tagState, hc, Bool.not_false]
    exact ih (fun hm => h (List.mem_cons_of_mem _ hm))

/-- Well-formed fragments leave the scanner outside a tag. -/
theorem tagState_flatFrags (fs : List Frag) (h : FragsOk fs) : tagState false (flatFrags fs) = false := by
  induction fs with
  | nil => rfl
  | cons f fs ih =>
    have hfs : FragsOk fs := fun g hg => h g (List.mem_cons_of_mem _ hg)
    have hf := h f (List.mem_cons_self ..)
    simp only [flatFrags, List.flatMap_cons]
    rw [tagState_append]
    cases f with
    | tag b =>
      simp only at hf
      have : tagState false (Frag.tag b).chars = false := by
        simp only [Frag.chars, tagState]
        exact tagState_tagBody b hf
      rw [this]; exact ih hfs
    | text t =>
      simp only at hf
      rw [show (Frag.text t).chars = t from rfl, tagState_text t hf]; exact ih hfs

/-- **The document with its tags removed** is the template's text before `{code}`, the code's text fragments, and
the template's text after — provided the part of the document before the code ends outside a tag (true of the
default template: `Props/C15.lean`). -/
theorem stripTags_document (pre post : List Char) (fs : List Frag) (hfs : FragsOk fs)
    (hpre : tagState false pre = false) :
    stripTags (pre ++ flatFrags fs ++ post) = stripTags pre ++ fragsText fs ++ stripTags post := by
  unfold stripTags
  rw [List.append_assoc, stripTagsAux_append, hpre, stripTagsAux_append, tagState_flatFrags fs hfs,
    stripTags_flatFrags_aux fs hfs, List.append_assoc]

/-! ## class numbering -/

/-- `(rule, n), (rule', n+1), …` -/
def numberFrom : Nat → List (List Char) → List (List Char × Nat)
  | _, [] => []
  | n, r :: rest => (r, n) :: numberFrom (n + 1) rest

/-- Keep the first occurrence of every element, in order. -/
def firstOcc (l : List (List Char)) : List (List Char) :=
  l.foldl (fun acc x => if acc.contains x then acc else acc ++ [x]) []

/-- The CSS rules of the segments that get a `<span class=…>`, in order of appearance. -/
def classRules (env : StyleEnv σ) (segs : List (Segment σ)) : List (List Char) :=
  segs.filterMap (fun seg =>
    match seg.style with
    | some s => if env.truthy s && !(env.htmlRule s).isEmpty then some (env.htmlRule s) else none
    | none => none)

theorem numberFrom_append (n : Nat) (a b : List (List Char)) :
    numberFrom n (a ++ b) = numberFrom n a ++ numberFrom (n + a.length) b := by
  induction a generalizing n with
  | nil => simp [numberFrom]
  | cons x a ih => simp only [List.cons_append, numberFrom, ih, List.length_cons]; congr 3; omega

theorem numberFrom_length (n : Nat) (a : List (List Char)) : (numberFrom n a).length = a.length := by
  induction a generalizing n with
  | nil => rfl
  | cons x a ih => simp [numberFrom, ih]

theorem find_numberFrom_none (n : Nat) (keys : List (List Char)) (r : List Char) (h : keys.contains r = false) :
    (numberFrom n keys).find? (fun p => p.1 == r) = none := by
  induction keys generalizing n with
  | nil => rfl
  | cons k keys ih =>
    simp only [List.contains_cons, Bool.or_eq_false_iff] at h
    have hk : (k == r) = false := by
      have := h.1
      simp only [beq_eq_false_iff_ne, ne_eq] at this ⊢
      exact fun e => this e.symm
    simp only [numberFrom, List.find?_cons, hk]
    exact ih (n + 1) h.2

theorem find_numberFrom_some (n : Nat) (keys : List (List Char)) (r : List Char) (h : keys.contains r = true) :
    ∃ p, (numberFrom n keys).find? (fun p => p.1 == r) = some p := by
  induction keys generalizing n with
  | nil => simp at h
  | cons k keys ih =>
    simp only [numberFrom, List.find?_cons]
    by_cases hk : (k == r) = true
    · exact ⟨(k, n), by simp [hk]⟩
    · have hk' : (k == r) = false := by simpa using hk
      simp only [hk']
      apply ih
      simp only [List.contains_cons, Bool.or_eq_true] at h
      rcases h with h | h
      · have : (k == r) = true := by
          simp only [beq_iff_eq] at h ⊢; exact h.symm
        exact absurd this hk
      · exact h

/-- `setdefault` on a table that numbers `keys` from 1. -/
theorem setDefault_numberFrom (keys : List (List Char)) (r : List Char) :
    (setDefault (numberFrom 1 keys) r).1 = numberFrom 1 (if keys.contains r then keys else keys ++ [r]) := by
  unfold setDefault
  by_cases h : keys.contains r = true
  · obtain ⟨p, hp⟩ := find_numberFrom_some 1 keys r h
    have hm : r ∈ keys := by simpa using h
    simp [hp, hm]
  · have h' : keys.contains r = false := by simpa using h
    rw [find_numberFrom_none 1 keys r h']
    simp only [h', Bool.false_eq_true, if_false, numberFrom_append, numberFrom, numberFrom_length]
    congr 3; omega

/-- The `styles` dict after the loop, started from a table numbering `keys`: it numbers the keys extended by the
first occurrences of the new rules. -/
theorem classLoop_styles_from (v : Variant) (env : StyleEnv σ) :
    ∀ (segs : List (Segment σ)) (keys : List (List Char)),
      (htmlClassLoop v env segs (numberFrom 1 keys)).2 =
        numberFrom 1 ((classRules env segs).foldl (fun acc x => if acc.contains x then acc else acc ++ [x]) keys)
  | [], keys => rfl
  | seg :: rest, keys => by
    unfold htmlClassLoop
    simp only [classRules, List.filterMap_cons]
    cases hs : seg.style with
    | none => simp only; exact classLoop_styles_from v env rest keys
    | some s =>
      simp only
      by_cases htr : env.truthy s = true
      · by_cases hrule : (env.htmlRule s).isEmpty = true
        · simp only [htr, hrule, if_true, Bool.not_true, Bool.false_eq_true, if_false, Bool.and_false]
          exact classLoop_styles_from v env rest keys
        · have hrule' : (env.htmlRule s).isEmpty = false := by simpa using hrule
          simp only [htr, hrule', if_true, Bool.not_false, Bool.and_self, List.foldl_cons]
          rw [setDefault_numberFrom]
          exact classLoop_styles_from v env rest _
      · have htr' : env.truthy s = false := by simpa using htr
        simp only [htr', Bool.false_eq_true, if_false, Bool.false_and]
        exact classLoop_styles_from v env rest keys

/-- **One rule per distinct style, numbered `r1..rn` in first-use order.** -/
theorem classLoop_numbering (v : Variant) (env : StyleEnv σ) (segs : List (Segment σ)) :
    (htmlClassLoop v env segs []).2 = numberFrom 1 (firstOcc (classRules env segs)) :=
  classLoop_styles_from v env segs []

theorem firstOcc_step_nodup (acc : List (List Char)) (l : List (List Char)) (h : acc.Nodup) :
    (l.foldl (fun acc x => if acc.contains x then acc else acc ++ [x]) acc).Nodup := by
  induction l generalizing acc with
  | nil => exact h
  | cons x l ih =>
    simp only [List.foldl_cons]
    apply ih
    by_cases hx : acc.contains x = true
    · have hm : x ∈ acc := by simpa using hx
      simp [hm, h]
    · have hx' : acc.contains x = false := by simpa using hx
      simp only [hx', Bool.false_eq_true, if_false]
      rw [List.nodup_append]
      refine ⟨h, by simp, ?_⟩
      intro a ha b hb
      simp only [List.mem_singleton] at hb
      subst hb
      intro e; subst e
      simp only [List.contains_eq_mem, decide_eq_false_iff_not] at hx'
      exact hx' ha

/-- The rules of the stylesheet are pairwise distinct… -/
theorem firstOcc_nodup (l : List (List Char)) : (firstOcc l).Nodup :=
  firstOcc_step_nodup [] l List.nodup_nil

/-- …and so are the class numbers: the k-th entry carries number `n + k`. -/
theorem numberFrom_getElem (n : Nat) (keys : List (List Char)) (k : Nat) (hk : k < keys.length) :
    (numberFrom n keys)[k]'(by rw [numberFrom_length]; exact hk) = (keys[k], n + k) := by
  induction keys generalizing n k with
  | nil => simp at hk
  | cons x keys ih =>
    cases k with
    | zero => simp [numberFrom]
    | succ k =>
      simp only [numberFrom, List.getElem_cons_succ]
      rw [ih (n + 1) k (by simpa using hk)]
      congr 1; omega

/-! ## every class in the code is looked up in the final table -/

/-- The fragments of one segment given the *final* `styles` table. -/
def htmlClassSeg (v : Variant) (env : StyleEnv σ) (styles : List (List Char × Nat)) (seg : Segment σ) : List Frag :=
  let t := [Frag.text (escape seg.text)]
  match seg.style with
  | some s =>
    if env.truthy s then
      let rule := env.htmlRule s
      let t1 : List Frag :=
        if !rule.isEmpty then
          match styles.find? (fun p => p.1 == rule) with
          | some p => [Frag.tag ("span class=\"r".toList ++ (toString p.2).toList ++ ['"'])] ++ t ++ [Frag.tag "/span".toList]
          | none => t
        else t
      wrapLink v env s t1
    else t
  | none => t

theorem find_append_of_some {α : Type} (p : α → Bool) (a b : List α) (x : α) (h : a.find? p = some x) :
    (a ++ b).find? p = some x := by
  rw [List.find?_append, h]; rfl

theorem classLoop_prefix (v : Variant) (env : StyleEnv σ) :
    ∀ (segs : List (Segment σ)) (styles : List (List Char × Nat)),
      ∃ more, (htmlClassLoop v env segs styles).2 = styles ++ more
  | [], styles => ⟨[], by simp [htmlClassLoop]⟩
  | seg :: rest, styles => by
    unfold htmlClassLoop
    cases hs : seg.style with
    | none => simp only; exact classLoop_prefix v env rest styles
    | some s =>
      simp only
      by_cases htr : env.truthy s = true
      · by_cases hrule : (env.htmlRule s).isEmpty = true
        · simp only [htr, hrule, if_true, Bool.not_true, Bool.false_eq_true, if_false]
          exact classLoop_prefix v env rest styles
        · have hrule' : (env.htmlRule s).isEmpty = false := by simpa using hrule
          simp only [htr, hrule', if_true, Bool.not_false]
          obtain ⟨m2, h2⟩ := classLoop_prefix v env rest (setDefault styles (env.htmlRule s)).1
          have : ∃ m1, (setDefault styles (env.htmlRule s)).1 = styles ++ m1 := by
            unfold setDefault; split
            · exact ⟨[], by simp⟩
            · exact ⟨_, rfl⟩
          obtain ⟨m1, h1⟩ := this
          exact ⟨m1 ++ m2, by rw [h2, h1, List.append_assoc]⟩
      · have htr' : env.truthy s = false := by simpa using htr
        simp only [htr', Bool.false_eq_true, if_false]
        exact classLoop_prefix v env rest styles

/-- **Every `class="rN"` refers to an existing rule**: the code produced by the loop (which numbers on the fly) is
what one gets by looking every segment's rule up in the *final* table — so each span's class is the number of a
stylesheet entry whose rule is that segment's own CSS rule. -/
theorem classLoop_lookup (v : Variant) (env : StyleEnv σ) :
    ∀ (segs : List (Segment σ)) (styles : List (List Char × Nat)),
      (htmlClassLoop v env segs styles).1 =
        segs.flatMap (htmlClassSeg v env (htmlClassLoop v env segs styles).2)
  | [], styles => rfl
  | seg :: rest, styles => by
    unfold htmlClassLoop
    simp only [List.flatMap_cons]
    cases hs : seg.style with
    | none =>
      simp only
      rw [classLoop_lookup v env rest styles]
      simp [htmlClassSeg, hs]
    | some s =>
      simp only
      by_cases htr : env.truthy s = true
      · by_cases hrule : (env.htmlRule s).isEmpty = true
        · simp only [htr, hrule, if_true, Bool.not_true, Bool.false_eq_true, if_false]
          rw [classLoop_lookup v env rest styles]
          simp [htmlClassSeg, hs, htr, hrule]
        · have hrule' : (env.htmlRule s).isEmpty = false := by simpa using hrule
          simp only [htr, hrule', if_true, Bool.not_false]
          rw [classLoop_lookup v env rest (setDefault styles (env.htmlRule s)).1]
          congr 1
          obtain ⟨m2, h2⟩ := classLoop_prefix v env rest (setDefault styles (env.htmlRule s)).1
          have hfind : (setDefault styles (env.htmlRule s)).1.find? (fun p => p.1 == env.htmlRule s) =
              some (env.htmlRule s, (setDefault styles (env.htmlRule s)).2) ∨
              ∃ p, (setDefault styles (env.htmlRule s)).1.find? (fun p => p.1 == env.htmlRule s) = some p ∧
                p.2 = (setDefault styles (env.htmlRule s)).2 := by
            unfold setDefault
            cases h : styles.find? (fun p => p.1 == env.htmlRule s) with
            | some p => exact Or.inr ⟨p, by simp [h], rfl⟩
            | none => exact Or.inl (by simp [List.find?_append, h])
          rcases hfind with hf | ⟨p, hf, hp⟩
          · simp only [htmlClassSeg, hs, htr, if_true, hrule', Bool.not_false, h2, find_append_of_some _ _ _ _ hf]
          · simp only [htmlClassSeg, hs, htr, if_true, hrule', Bool.not_false, h2, find_append_of_some _ _ _ _ hf, hp]
      · have htr' : env.truthy s = false := by simpa using htr
        simp only [htr', Bool.false_eq_true, if_false]
        rw [classLoop_lookup v env rest styles]
        simp [htmlClassSeg, hs, htr']

/-- The stylesheet is one `.rN {rule}` line per table entry, in table order (no entry has an empty rule). -/
theorem stylesheet_lines (keys : List (List Char)) (h : ∀ k ∈ keys, k ≠ []) (n : Nat) :
    stylesheetOf (numberFrom n keys) =
      joinWith ['\n'] ((numberFrom n keys).map (fun p => ".r".toList ++ (toString p.2).toList ++ " {".toList ++ p.1 ++ ['}'])) := by
  unfold stylesheetOf
  congr 2
  rw [List.filter_eq_self]
  intro p hp
  have : p.1 ∈ keys := by
    clear h
    induction keys generalizing n with
    | nil => simp [numberFrom] at hp
    | cons k keys ih =>
      simp only [numberFrom, List.mem_cons] at hp
      rcases hp with rfl | hp
      · simp
      · exact List.mem_cons_of_mem _ (ih (n + 1) hp)
  have := h p.1 this
  simpa using this

theorem classRules_nonempty (env : StyleEnv σ) (segs : List (Segment σ)) : ∀ k ∈ classRules env segs, k ≠ [] := by
  intro k hk
  simp only [classRules, List.mem_filterMap] at hk
  obtain ⟨seg, _, h⟩ := hk
  cases hs : seg.style with
  | none => simp [hs] at h
  | some s =>
    simp only [hs] at h
    split at h
    · rename_i hc
      simp only [Option.some.injEq] at h
      subst h
      simp only [Bool.and_eq_true, Bool.not_eq_true'] at hc
      intro e; simp [e] at hc
    · simp at h

theorem mem_firstOcc (l : List (List Char)) : ∀ k ∈ firstOcc l, k ∈ l := by
  have key : ∀ (l acc : List (List Char)) k,
      k ∈ l.foldl (fun acc x => if acc.contains x then acc else acc ++ [x]) acc → k ∈ acc ∨ k ∈ l := by
    intro l
    induction l with
    | nil => intro acc k h; exact Or.inl h
    | cons x l ih =>
      intro acc k h
      simp only [List.foldl_cons] at h
      rcases ih _ k h with h1 | h1
      · split at h1
        · exact Or.inl h1
        · rcases List.mem_append.mp h1 with h2 | h2
          · exact Or.inl h2
          · simp only [List.mem_singleton] at h2; subst h2; exact Or.inr (List.mem_cons_self ..)
      · exact Or.inr (List.mem_cons_of_mem _ h1)
  intro k hk
  rcases key l [] k hk with h | h
  · cases h
  · exact h

/-! ## the generated default template -/

/-- Raw generated item -> template item. -/
def toTItem (x : Nat × List Nat) : TItem :=
  match x.1 with
  | 0 => .lit (x.2.map Char.ofNat)
  | 1 => .code
  | 2 => .stylesheet
  | 3 => .foreground
  | _ => .background

/-- `CONSOLE_HTML_FORMAT` as translated from rich/console.py on this run. -/
def defaultTemplate : List TItem := Gen.consoleHtmlFormat.map toTItem

/-- Scan a template part: the state after it, or `none` if a placeholder sits inside a tag.  Placeholders are
assumed to expand to text without `<`. -/
def templateScan : Bool → List TItem → Option Bool
  | b, [] => some b
  | b, .lit s :: r => templateScan (tagState b s) r
  | false, _ :: r => templateScan false r
  | true, _ :: _ => none

theorem templateScan_sound (o : HtmlOpts) (code ss : List Char)
    (hc : '<' ∉ code) (hs : '<' ∉ ss) (hf : '<' ∉ o.foreground) (hb : '<' ∉ o.background) :
    ∀ (t : List TItem) (b r : Bool), templateScan b t = some r →
      tagState b (formatTemplate { o with template := t } code ss) = r
  | [], b, r, h => by simp only [templateScan, Option.some.injEq] at h; subst h; cases b <;> rfl
  | x :: t, b, r, h => by
    have hcons : formatTemplate { o with template := x :: t } code ss =
        formatTemplate { o with template := [x] } code ss ++ formatTemplate { o with template := t } code ss := by
      simp [formatTemplate]
    rw [hcons, tagState_append]
    cases x with
    | lit s =>
      simp only [templateScan] at h
      have : formatTemplate { o with template := [TItem.lit s] } code ss = s := by simp [formatTemplate]
      rw [this]
      exact templateScan_sound o code ss hc hs hf hb t _ r h
    | code =>
      cases b
      · simp only [templateScan] at h
        have : formatTemplate { o with template := [TItem.code] } code ss = code := by simp [formatTemplate]
        rw [this, tagState_text code hc]
        exact templateScan_sound o code ss hc hs hf hb t _ r h
      · simp [templateScan] at h
    | stylesheet =>
      cases b
      · simp only [templateScan] at h
        have : formatTemplate { o with template := [TItem.stylesheet] } code ss = ss := by simp [formatTemplate]
        rw [this, tagState_text ss hs]
        exact templateScan_sound o code ss hc hs hf hb t _ r h
      · simp [templateScan] at h
    | foreground =>
      cases b
      · simp only [templateScan] at h
        have : formatTemplate { o with template := [TItem.foreground] } code ss = o.foreground := by simp [formatTemplate]
        rw [this, tagState_text _ hf]
        exact templateScan_sound o code ss hc hs hf hb t _ r h
      · simp [templateScan] at h
    | background =>
      cases b
      · simp only [templateScan] at h
        have : formatTemplate { o with template := [TItem.background] } code ss = o.background := by simp [formatTemplate]
        rw [this, tagState_text _ hb]
        exact templateScan_sound o code ss hc hs hf hb t _ r h
      · simp [templateScan] at h

/-! ### the stylesheet contains no `<` when the rules contain none -/

theorem not_lt_mem_toString (n : Nat) : '<' ∉ (toString n).toList := by
  intro hm
  have e : (toString n).toList = Nat.toDigits 10 n := Nat.toList_repr
  rw [e] at hm
  have := Nat.isDigit_of_mem_toDigits (by decide) (by decide) hm
  revert this
  decide

theorem not_lt_mem_joinWith (sep : List Char) (hsep : '<' ∉ sep) :
    ∀ (l : List (List Char)), (∀ x ∈ l, '<' ∉ x) → '<' ∉ joinWith sep l
  | [], _ => by simp [joinWith]
  | [x], h => by simpa [joinWith] using h x (List.mem_singleton.mpr rfl)
  | x :: y :: rest, h => by
    simp only [joinWith, List.mem_append, not_or]
    exact ⟨⟨h x (List.mem_cons_self ..), hsep⟩,
      not_lt_mem_joinWith sep hsep (y :: rest) (fun z hz => h z (List.mem_cons_of_mem _ hz))⟩

theorem not_lt_mem_stylesheetOf (styles : List (List Char × Nat)) (h : ∀ p ∈ styles, '<' ∉ p.1) :
    '<' ∉ stylesheetOf styles := by
  unfold stylesheetOf
  apply not_lt_mem_joinWith _ (by decide)
  intro x hx
  simp only [List.mem_map, List.mem_filter] at hx
  obtain ⟨p, ⟨hp, _⟩, rfl⟩ := hx
  simp only [List.mem_append, List.mem_singleton, not_or]
  exact ⟨⟨⟨⟨by decide, not_lt_mem_toString _⟩, by decide⟩, h p hp⟩, by decide⟩

theorem mem_numberFrom (n : Nat) (keys : List (List Char)) : ∀ p ∈ numberFrom n keys, p.1 ∈ keys := by
  induction keys generalizing n with
  | nil => intro p hp; simp [numberFrom] at hp
  | cons k keys ih =>
    intro p hp
    simp only [numberFrom, List.mem_cons] at hp
    rcases hp with rfl | hp
    · simp
    · exact List.mem_cons_of_mem _ (ih (n + 1) p hp)

theorem mem_classRules (env : StyleEnv σ) (segs : List (Segment σ)) : ∀ k ∈ classRules env segs, ∃ s, k = env.htmlRule s := by
  intro k hk
  simp only [classRules, List.mem_filterMap] at hk
  obtain ⟨seg, _, h⟩ := hk
  cases hs : seg.style with
  | none => simp [hs] at h
  | some s =>
    simp only [hs] at h
    split at h
    · simp only [Option.some.injEq] at h; exact ⟨s, h.symm⟩
    · simp at h

/-! ### decoding entities in the whole document -/

theorem foldr_unesc_escape (s rest : List Char) : (escape s).foldr unescStep rest = s ++ rest := by
  induction s with
  | nil => rfl
  | cons x s ih => rw [escape_cons, List.foldr_append, ih, unescape_esc1]; rfl

theorem foldr_unesc_noamp (a rest : List Char) (h : '&' ∉ a) : a.foldr unescStep rest = a ++ rest := by
  induction a with
  | nil => rfl
  | cons c a ih =>
    have hc : (c == '&') = false := by
      simp only [List.mem_cons, not_or] at h
      simp only [beq_eq_false_iff_ne, ne_eq]
      exact fun e => h.1 e.symm
    simp only [List.foldr_cons, ih (fun hm => h (List.mem_cons_of_mem _ hm)), unescStep, hc, Bool.false_eq_true,
      if_false, List.cons_append]

/-- Decoding `a ++ escape s ++ p` when the surrounding text contains no `&`: only the escaped middle changes. -/
theorem unescape_around (a s p : List Char) (ha : '&' ∉ a) (hp : '&' ∉ p) :
    unescape (a ++ escape s ++ p) = a ++ s ++ p := by
  unfold unescape
  rw [List.append_assoc, List.foldr_append, List.foldr_append, foldr_unesc_noamp p [] hp, foldr_unesc_escape,
    foldr_unesc_noamp a _ ha]
  simp

theorem mem_stripTagsAux (c : Char) : ∀ (b : Bool) (s : List Char), c ∈ stripTagsAux b s → c ∈ s
  | _, [], h => by cases ‹Bool› <;> simp [stripTagsAux] at h
  | false, x :: r, h => by
    simp only [stripTagsAux] at h
    split at h
    · exact List.mem_cons_of_mem _ (mem_stripTagsAux c true r h)
    · rcases List.mem_cons.mp h with rfl | h
      · exact List.mem_cons_self ..
      · exact List.mem_cons_of_mem _ (mem_stripTagsAux c false r h)
  | true, x :: r, h => by
    simp only [stripTagsAux] at h
    split at h
    · exact List.mem_cons_of_mem _ (mem_stripTagsAux c false r h)
    · exact List.mem_cons_of_mem _ (mem_stripTagsAux c true r h)

/-- every literal of a template part is free of `&` -/
def litsNoAmp (t : List TItem) : Bool :=
  t.all (fun | .lit s => !s.contains '&' | _ => true)

theorem not_amp_mem_formatTemplate (o : HtmlOpts) (code ss : List Char) (t : List TItem) (ht : litsNoAmp t = true)
    (hc : '&' ∉ code) (hs : '&' ∉ ss) (hf : '&' ∉ o.foreground) (hb : '&' ∉ o.background) :
    '&' ∉ formatTemplate { o with template := t } code ss := by
  simp only [formatTemplate, List.mem_flatMap, not_exists, not_and]
  intro x hx
  have hx' := List.all_eq_true.mp ht x hx
  cases x with
  | lit s => simpa using hx'
  | code => exact hc
  | stylesheet => exact hs
  | foreground => exact hf
  | background => exact hb

theorem not_amp_mem_toString (n : Nat) : '&' ∉ (toString n).toList := by
  intro hm
  have e : (toString n).toList = Nat.toDigits 10 n := Nat.toList_repr
  rw [e] at hm
  have := Nat.isDigit_of_mem_toDigits (by decide) (by decide) hm
  revert this
  decide

theorem not_amp_mem_joinWith (sep : List Char) (hsep : '&' ∉ sep) :
    ∀ (l : List (List Char)), (∀ x ∈ l, '&' ∉ x) → '&' ∉ joinWith sep l
  | [], _ => by simp [joinWith]
  | [x], h => by simpa [joinWith] using h x (List.mem_singleton.mpr rfl)
  | x :: y :: rest, h => by
    simp only [joinWith, List.mem_append, not_or]
    exact ⟨⟨h x (List.mem_cons_self ..), hsep⟩,
      not_amp_mem_joinWith sep hsep (y :: rest) (fun z hz => h z (List.mem_cons_of_mem _ hz))⟩

theorem not_amp_mem_stylesheetOf (styles : List (List Char × Nat)) (h : ∀ p ∈ styles, '&' ∉ p.1) :
    '&' ∉ stylesheetOf styles := by
  unfold stylesheetOf
  apply not_amp_mem_joinWith _ (by decide)
  intro x hx
  simp only [List.mem_map, List.mem_filter] at hx
  obtain ⟨p, ⟨hp, _⟩, rfl⟩ := hx
  simp only [List.mem_append, List.mem_singleton, not_or]
  exact ⟨⟨⟨⟨by decide, not_amp_mem_toString _⟩, by decide⟩, h p hp⟩, by decide⟩

/-- The stylesheet of either mode contains no `&` when no CSS rule does. -/
theorem exportHtmlParts_stylesheet_no_amp [BEq σ] (v : Variant) (env : StyleEnv σ) (inline : Bool)
    (record : List (Segment σ)) (hrule : ∀ s, '&' ∉ env.htmlRule s) :
    '&' ∉ (exportHtmlParts v env inline record).2 := by
  unfold exportHtmlParts
  cases inline with
  | true => simp
  | false =>
    simp only [Bool.false_eq_true, if_false]
    rw [classLoop_numbering]
    apply not_amp_mem_stylesheetOf
    intro p hp
    have h1 := mem_numberFrom 1 _ p hp
    have h2 := mem_firstOcc _ _ h1
    obtain ⟨s, hs⟩ := mem_classRules env _ _ h2
    rw [hs]; exact hrule s

/-- The `{code}` fragments of either mode are well formed and their text is the escaped plain export. -/
theorem exportHtmlParts_ok [BEq σ] [LawfulBEq σ] (v : Variant) (env : StyleEnv σ) (inline : Bool)
    (record : List (Segment σ)) (hm : v.mergeCtl = false) (hsafe : TagSafe v env) :
    FragsOk (exportHtmlParts v env inline record).1 ∧
    fragsText (exportHtmlParts v env inline record).1 = escape (exportPlain record) := by
  unfold exportHtmlParts
  cases inline with
  | true =>
    simp only [if_true]
    exact ⟨fragsOk_inline v env hsafe _, by rw [fragsText_inline, htmlSegments_text v hm]⟩
  | false =>
    simp only [Bool.false_eq_true, if_false]
    obtain ⟨h1, h2⟩ := classLoop_text_ok v env hsafe (htmlSegments v record) []
    exact ⟨h2, by rw [h1, htmlSegments_text v hm]⟩

/-- The stylesheet of either mode contains no `<` when no CSS rule does. -/
theorem exportHtmlParts_stylesheet_no_lt [BEq σ] (v : Variant) (env : StyleEnv σ) (inline : Bool)
    (record : List (Segment σ)) (hrule : ∀ s, '<' ∉ env.htmlRule s) :
    '<' ∉ (exportHtmlParts v env inline record).2 := by
  unfold exportHtmlParts
  cases inline with
  | true => simp
  | false =>
    simp only [Bool.false_eq_true, if_false]
    rw [classLoop_numbering]
    apply not_lt_mem_stylesheetOf
    intro p hp
    have h1 := mem_numberFrom 1 _ p hp
    have h2 := mem_firstOcc _ _ h1
    obtain ⟨s, hs⟩ := mem_classRules env _ _ h2
    rw [hs]; exact hrule s

end RichModel.Console
