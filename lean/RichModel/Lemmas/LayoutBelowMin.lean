import RichModel.Lemmas.LayoutFrames
import RichModel.Lemmas.LayoutSplit
import RichModel.Lemmas.LayoutTableNil
/-!
Below the structural minimum: Padding, Align and a table without columns at ANY width.  Generalisations of
`padding_lines_le`, `align_lines_le` and `tableConsole_nil_decomp` without their width hypotheses.
-/
namespace RichModel.Layout
open RichModel RichModel.Frames

/-- Padding fits WHATEVER the width: when the padding leaves the child less than one cell (`w < left + right + 1`) the child renders
nothing and only the blank top / bottom lines, `width ≤ w` cells wide, remain. -/
theorem padding_lines_le_any (v : Frames.Variant) (p : PadDims) (expand : Bool) (c : Ch) (w : Int) (hw : 0 ≤ w)
    (hm0 : ∀ k : Int, 0 ≤ (c.measureAt k).maximum) :
    ∀ l ∈ splitLines (paddingConsole cwR v p expand c w), lineLength cwR l ≤ w.toNat := by
  by_cases hfit : (p.left : Int) + p.right + 1 ≤ w
  · exact padding_lines_le v p expand c w hfit hm0
  · intro l hl
    rw [paddingConsole_lines cwR cwD_space cwD_le_two] at hl
    have hle : paddingWidth v p expand c w ≤ w := by unfold paddingWidth; split <;> omega
    have hlt : paddingChildWidth v p expand c w < 1 := by unfold paddingChildWidth; omega
    simp only [paddingLines, linesAt_of_lt_one cwR c _ false hlt, List.map_nil, List.append_nil, List.mem_append,
      List.mem_replicate] at hl
    rcases hl with ⟨_, rfl⟩ | ⟨_, rfl⟩
    · rw [lineLength_blankLine cwR cwD_space]; omega
    · rw [lineLength_blankLine cwR cwD_space]; omega

/-- Align passes the child's lines through: if they are at most `B ≥ w` cells wide, so are Align's. -/
theorem align_lines_le_bound (env : Env) (v : Frames.Variant) (o : AlignOpts) (c : Ch) (w : Int) (B : Nat) (hw : 0 ≤ w)
    (hB : w.toNat ≤ B)
    (hchild : ∀ l ∈ splitLines (c.renderAt (alignInnerWidth env v o c w)), lineLength cwR l ≤ B) :
    ∀ l ∈ splitLines (alignConsole cwR env v o c w), lineLength cwR l ≤ B := by
  have hr := Dep.align_rect env v o c w
  dsimp only at hr
  obtain ⟨h1, _, h3, _, _⟩ := hr
  intro l hl
  rw [h1] at hl
  have hlen : (lineLength cwR l : Int) = shapeWidth cwR (alignChildLines env v o c w)
      + alignPadCells o (w - shapeWidth cwR (alignChildLines env v o c w)) := h3 l hl
  have hsw : shapeWidth cwR (alignChildLines env v o c w) ≤ B := shapeWidth_le cwR _ _ hchild
  have hpc := fr_alignPadCells_le o (w - (shapeWidth cwR (alignChildLines env v o c w) : Int))
  omega

/-- A table without columns at ANY width: poison, or title ++ body ++ caption with the body at most the two corner characters wide. -/
theorem tableConsole_nil_any (cfg : Cfg) (hcw : cfg.cw = cwD) (o : TableOpts) (opts : Opts) (w : Nat) :
    tableConsole cfg o opts [] w = cfg.poison ∨
    ∃ (tw : Int) (body : List Seg), tw ≤ (tableExtra o 0 : Int) ∧
      tableConsole cfg o opts [] w =
        annotation cfg o.title o.titleJustify opts tw ++ body ++ annotation cfg o.caption o.captionJustify opts tw ∧
      (∀ l ∈ splitLines body, lineLength cfg.cw l ≤ tableExtra o 0) ∧ Closed body := by
  have hT : toTable cfg o [] = o.skel := rfl
  unfold tableConsole
  simp only [hT]
  cases hc : o.skel.calcWidths cfg.fl (o.skel.width.getD (w : Int) - o.skel.extraWidth) with
  | none => left; rfl
  | some ws =>
    right
    have hws : ws = [] := nil_calcWidths cfg.fl o.skel rfl _ ws hc
    subst hws
    have h1 : o.skel.box.isSome = true → o.box.isSome = true := by
      show (o.box.bind boxOf).isSome = true → _
      cases o.box <;> simp
    have hex : o.skel.extraWidth ≤ (tableExtra o 0 : Int) := by
      simp only [Table.extraWidth, tableExtra]
      have h0 : (o.skel.columns.length : Int) = 0 := rfl
      rw [h0]
      cases hb : o.skel.box.isSome <;> cases he : o.showEdge
      all_goals (have he' : o.skel.showEdge = o.showEdge := rfl)
      all_goals (simp only [he', he]; simp)
      all_goals (try (simp [h1 hb]))
    refine ⟨([] : List Int).sum + o.skel.extraWidth, (o.skel.renderBody cfg.fl cfg.cw []).flatMap (bodyLineSegs []), ?_, rfl, ?_⟩
    · simpa using hex
    · rw [nil_renderBody cfg.fl cfg.cw o.skel rfl]
      cases hb : o.skel.box with
      | none => simp [splitLines, Closed, flat]
      | some b =>
        cases he : o.skel.showEdge with
        | false => simp [splitLines, Closed, flat]
        | true =>
          have hwf : b.wf cfg.cw := by rw [hcw]; exact nil_boxOf_wf o b hb
          have hnl : cfg.cw '\n' = 0 := by rw [hcw]; exact nil_cw_nl
          obtain ⟨⟨tl, _, _, tr⟩, _, _, _, _, _, _, ⟨bl, _, _, br⟩⟩ := hwf
          obtain ⟨t1, t2⟩ := nil_two cfg.cw hnl _ _ tl tr
          obtain ⟨b1, b2⟩ := nil_two cfg.cw hnl _ _ bl br
          have hbody : List.flatMap (bodyLineSegs []) ([b.getTop []] ++ [b.getBottom []]) =
              [seg [b.top.l, b.top.r], nl, seg [b.bottom.l, b.bottom.r], nl] := by
            simp [bodyLineSegs, Box.getTop, Box.getBottom, ruleLine, BodyLine.text, BodyLine.once, joinSep]
          have hw2 : 2 ≤ tableExtra o 0 := by
            have h1' : o.box.isSome = true := h1 (by rw [hb]; rfl)
            have he' : o.showEdge = true := he
            simp [tableExtra, h1', he']
          simp only [if_true]
          rw [hbody]
          obtain ⟨s1, s2⟩ := nil_lines2 _ _ t1 b1
          refine ⟨?_, s2⟩
          rw [s1]
          intro l hl
          simp only [List.mem_cons, List.not_mem_nil, or_false] at hl
          rcases hl with rfl | rfl
          · rw [lineLength_seg, t2]; exact hw2
          · rw [lineLength_seg, b2]; exact hw2

end RichModel.Layout
