import RichModel.Lemmas.TotalityWrap
import RichModel.Model.TotalityPrint
/-!
Property C14, text through the console: `Text.__rich_console__` (the glue of `Model/Layout.lean` around `Text.wrap`,
`Text.join`, `Text.render`) never raises on a consistent text, and `Console.print(str, markup=False)`
(`Model/TotalityPrint.lean`) never raises for any string.
-/
namespace RichModel.Layout
open RichModel RichModel.Frames RichModel.Text

/-- the code variants in which the defects found by C14 / C07 / C08 are repaired (what /repo contains) -/
structure CfgRepaired (cfg : Cfg) : Prop where
  wv : ∃ chars, cfg.wv = Wrap.WVariant.fixed chars
  noCols : cfg.fl.noColumnsAsserts = false
  flexNeg : cfg.fl.flexNegative = false
  colsZero : cfg.v.columnsZeroCount = false

/-! ## Text -/

theorem invB_complete (t : T) (h : Text.Inv t) : invB t = true := by
  obtain ⟨h1, h2, h3⟩ := h
  unfold invB
  simp only [Bool.and_eq_true, beq_iff_eq, List.all_eq_true, decide_eq_true_eq, Bool.not_eq_true']
  exact ⟨⟨h1, h2⟩, fun sp hsp => ⟨⟨(h3 sp hsp).1, (h3 sp hsp).2.1⟩, (h3 sp hsp).2.2⟩⟩

theorem effTabSize_pos (cfg : Cfg) (t : T) : 0 < effTabSize cfg t := by
  unfold effTabSize
  generalize (if (cfg.tabSize != 0) = true then cfg.tabSize
    else match t.tabSize with | some n => if (n != 0) = true then n else 8 | none => 8) = a
  by_cases h : a = 0
  · simp [h]
  · simp [h]; omega

/-- `Text.__rich_console__` of a consistent text never raises: every options in force, every width. -/
theorem textConsoleE_total (cfg : Cfg) (hc : CfgRepaired cfg) (t : T) (h : Text.Inv t) (o : Opts) (w : Nat) :
    ∃ s, textConsoleE cfg t o w = .ok s := by
  obtain ⟨chars, hwv⟩ := hc.wv
  obtain ⟨lines, hl, hinv⟩ := Wrap.wrap_total (chars := chars) cfg.cw alg t h w (some (effJustify t o)) (some (effOverflow t o))
    (effTabSize cfg t) (effTabSize_pos cfg t) (some (effNoWrap t o))
  have hj : Text.Inv (Text.join Variant.repaired (Text.new Variant.repaired ['\n'] ([0] : S)) lines) :=
    inv_join _ lines (inv_new _ _ _ _ _ _ _ _ (by intro sp hsp; simp at hsp)) hinv
  obtain ⟨segs, hs⟩ := Text.render_total _ hj t.endStr
  refine ⟨segs.map rsegToSeg, ?_⟩
  unfold textConsoleE textLines
  rw [hwv, hl]
  simp only [bind, Except.bind]
  rw [show (Wrap.WVariant.fixed chars).text = Variant.repaired from rfl, invB_complete _ hj]
  simp only [if_true, hs]

end RichModel.Layout

namespace RichModel.Totality
open RichModel RichModel.Layout RichModel.Text

/-- the contract of a highlighter: every span it adds lies inside the text it was given -/
def HighlighterOk (hl : List Char → List (Span S)) : Prop := ∀ x, SpansIn (hl x) (x.length : Int)

theorem highlightStep_inv (txt : List Char) (hlo : Option (List Char → List (Span S)))
    (hhl : ∀ hl, hlo = some hl → HighlighterOk hl) :
    Text.Inv (match hlo with
      | none => (Text.new Variant.repaired txt ([0] : S) : T)
      | some hl => ((Text.new Variant.repaired (Text.new Variant.repaired txt ([0] : S)).plain ([0] : S)).addSpans
          (hl (Text.new Variant.repaired txt ([0] : S)).plain)).copyStyles (Text.new Variant.repaired txt ([0] : S))) := by
  have hrich : Text.Inv (Text.new Variant.repaired txt ([0] : S)) :=
    inv_new _ _ _ _ _ _ _ _ (by intro sp hsp; simp at hsp)
  cases hlo with
  | none => exact hrich
  | some hl =>
    simp only
    have hplain : stripControl (Text.new Variant.repaired txt ([0] : S)).plain = (Text.new Variant.repaired txt ([0] : S)).plain :=
      stripControl_id _ hrich.2.1
    have h2 : Text.Inv (Text.new Variant.repaired (Text.new Variant.repaired txt ([0] : S)).plain ([0] : S)) :=
      inv_new _ _ _ _ _ _ _ _ (by intro sp hsp; simp at hsp)
    have h3 := inv_addSpans _ (hl (Text.new Variant.repaired txt ([0] : S)).plain) h2 (by
      have := hhl hl rfl (Text.new Variant.repaired txt ([0] : S)).plain
      have hlen : (Text.new Variant.repaired (Text.new Variant.repaired txt ([0] : S)).plain ([0] : S)).length
          = (((Text.new Variant.repaired txt ([0] : S)).plain).length : Int) := by
        simp only [Text.new, Variant.repaired, Bool.false_eq_true, if_false]
        rw [show stripControl (stripControl txt) = stripControl txt from by
          simpa [Text.new] using hplain]
      rw [hlen]; exact this)
    exact inv_addSpans _ _ h3 (by intro sp hsp; simp [Text.new] at hsp)

/-- `Console.render_str(s, markup=False)` yields a consistent text for every string: with or without emoji replacement,
with any highlighter that keeps its contract. -/
theorem renderStrPlain_inv (po : PrintOpts) (hhl : ∀ hl, po.highlighter = some hl → HighlighterOk hl) (s : List Char) :
    Text.Inv (renderStrPlain po s) := by
  unfold renderStrPlain
  exact highlightStep_inv _ po.highlighter hhl

/-- **print_plain_total.**  `Console.print(s, markup=False)` never raises: every string (control characters, tabs, any
code point), every console width (0 and 1 included), every width function, `overflow` / `no_wrap` / `sep` / `end` / `crop`
as given, emoji replacement on or off, highlighting off or any highlighter that keeps its contract. -/
theorem printPlainE_total (cfg : Cfg) (hc : CfgRepaired cfg) (po : PrintOpts)
    (hhl : ∀ hl, po.highlighter = some hl → HighlighterOk hl) (s : List Char) (w : Nat) :
    ∃ lines, printPlainE cfg po s w = .ok lines := by
  have hsep : Text.Inv (Text.new Variant.repaired po.sep ([0] : S) [] none none none po.endStr) :=
    inv_new _ _ _ _ _ _ _ _ (by intro sp hsp; simp at hsp)
  have hj := inv_join _ [renderStrPlain po s] hsep (by
    intro x hx; simp only [List.mem_singleton] at hx; subst hx; exact renderStrPlain_inv po hhl s)
  obtain ⟨segs, hs⟩ := textConsoleE_total cfg hc _ hj
    { justify := some Justify.default, overflow := po.overflow, noWrap := po.noWrap } w
  unfold printPlainE
  simp only [hs, bind, Except.bind]
  exact ⟨_, rfl⟩

/-! ## `Text.__rich_measure__` never reaches `max()` of an empty sequence -/

theorem splitLinesPy_ne_nil : ∀ (s cur : List Char), s ≠ [] ∨ cur ≠ [] → splitLinesPy s cur ≠ []
  | [], cur, h => by
    rcases h with h | h
    · exact absurd rfl h
    · simp [splitLinesPy, h]
  | c :: r, cur, _ => by
    unfold splitLinesPy
    split
    · simp
    · exact splitLinesPy_ne_nil r (c :: cur) (Or.inr (by simp))

theorem splitWords_ne_nil (p : Char → Bool) : ∀ (s cur : List Char), (cur ≠ [] ∨ ∃ c ∈ s, p c = false) →
    splitWords p s cur ≠ []
  | [], cur, h => by
    rcases h with h | ⟨c, hc, _⟩
    · simp [splitWords, h]
    · cases hc
  | c :: r, cur, h => by
    unfold splitWords
    by_cases hp : p c = true
    · simp only [hp, if_true]
      rcases h with h | ⟨d, hd, hpd⟩
      · simp [h]
      · rcases List.mem_cons.mp hd with rfl | hd
        · rw [hp] at hpd; cases hpd
        · split
          · exact splitWords_ne_nil p r [] (Or.inr ⟨d, hd, hpd⟩)
          · simp
    · simp only [hp, Bool.false_eq_true, if_false]
      exact splitWords_ne_nil p r (c :: cur) (Or.inl (by simp))

theorem pyMax_ok : ∀ l : List Nat, l ≠ [] → ∃ m, pyMax l = .ok m
  | [], h => absurd rfl h
  | x :: xs, _ => ⟨_, rfl⟩

/-- **text_measure_total.**  `Text.__rich_measure__` never raises — for every text, empty, blank or not — PROVIDED the
blank-text guard strips every character `str.split()` splits on (in rich both are Python's `str.isspace` class). -/
theorem textRichMeasureE_total (guard split : Char → Bool) (h : ∀ c, split c = true → guard c = true) (cw : Char → Nat)
    (plain : List Char) : ∃ m, textRichMeasureE guard split cw plain = .ok m := by
  unfold textRichMeasureE
  by_cases hall : plain.all guard = true
  · simp only [hall, if_true]; exact ⟨_, rfl⟩
  · simp only [hall, Bool.false_eq_true, if_false]
    have hex : ∃ c ∈ plain, split c = false := by
      apply Classical.byContradiction
      intro hno
      apply hall
      rw [List.all_eq_true]
      intro c hc
      cases hs : split c with
      | true => exact h c hs
      | false => exact absurd ⟨c, hc, hs⟩ hno
    have hne : plain ≠ [] := by obtain ⟨c, hc, _⟩ := hex; intro h0; rw [h0] at hc; cases hc
    obtain ⟨a, ha⟩ := pyMax_ok ((splitLinesPy plain []).map (cellLen cw))
      (by simpa using splitLinesPy_ne_nil plain [] (Or.inl hne))
    obtain ⟨b, hb⟩ := pyMax_ok ((splitWords split plain []).map (cellLen cw))
      (by simpa using splitWords_ne_nil split plain [] (Or.inr hex))
    simp only [ha, hb, bind, Except.bind]
    exact ⟨_, rfl⟩

theorem splitNLPy_ne_nil : ∀ (s cur : List Char), splitNLPy s cur ≠ []
  | [], cur => by simp [splitNLPy]
  | c :: r, cur => by
    unfold splitNLPy
    split
    · simp
    · exact splitNLPy_ne_nil r (c :: cur)

/-- `text_measure_total` for the code since fix 542a59e (`text.split("\n")`) -/
theorem textRichMeasureNL_total (guard split : Char → Bool) (h : ∀ c, split c = true → guard c = true) (cw : Char → Nat)
    (plain : List Char) : ∃ m, textRichMeasureNL guard split cw plain = .ok m := by
  unfold textRichMeasureNL
  by_cases hall : plain.all guard = true
  · simp only [hall, if_true]; exact ⟨_, rfl⟩
  · simp only [hall, Bool.false_eq_true, if_false]
    have hex : ∃ c ∈ plain, split c = false := by
      apply Classical.byContradiction
      intro hno
      apply hall
      rw [List.all_eq_true]
      intro c hc
      cases hs : split c with
      | true => exact h c hs
      | false => exact absurd ⟨c, hc, hs⟩ hno
    obtain ⟨a, ha⟩ := pyMax_ok ((splitNLPy plain []).map (cellLen cw))
      (by simpa using splitNLPy_ne_nil plain [])
    obtain ⟨b, hb⟩ := pyMax_ok ((splitWords split plain []).map (cellLen cw))
      (by simpa using splitWords_ne_nil split plain [] (Or.inr hex))
    simp only [ha, hb, bind, Except.bind]
    exact ⟨_, rfl⟩

end RichModel.Totality
