import RichModel.Lemmas.AnsiColor
import RichModel.Model.AnsiParams
/-!
Every SGR parameter the truecolor encoder can emit is read back by the decoder — the statement at the level of
the two FUNCTIONS (`makeAnsiCodes` / `colorCodes` of the encoder, `sgrCodes` + `applyCodes` of the decoder), checked
exhaustively over the finite parts (13 attribute bits, set on and set off; the 256 palette numbers, foreground and
background, in the form the encoder writes and in the explicit `38;5;n` / `48;5;n` form; `default`), on the tables
translated from the working tree on every run.  The truecolor form `38;2;r;g;b` is proved for all `r g b`.
-/
namespace RichModel
namespace Ansi
open AsciiStr

/-- Attribute `i` set to `False` writes nothing; set to `True` it writes one non-empty parameter text that the decoder
reads back as "attribute `i` on" and nothing else. -/
def attrParamOk (cfg : Cfg) (i : Nat) : Bool :=
  (match makeAnsiCodes (attrStyle i false) with
   | .ok [] => true
   | _ => false) &&
  (match makeAnsiCodes (attrStyle i true) with
   | .ok p => !p.isEmpty && (decodeParams cfg p).map fieldsOf == some ⟨none, none, 2 ^ i, 2 ^ i, none, false⟩
   | .error _ => false)

def colorFields (fg : Bool) (c : Color) : Fields :=
  if fg then ⟨some c, none, 0, 0, none, false⟩ else ⟨none, some c, 0, 0, none, false⟩

/-- what the encoder writes for colour `c` is read back as exactly `c` on the same side -/
def colorParamOk (cfg : Cfg) (c : Color) (fg : Bool) : Bool :=
  match colorCodes c fg with
  | .ok ps => !ps.isEmpty && (decodeParams cfg (joinWith ';' ps)).map fieldsOf == some (colorFields fg c)
  | .error _ => false

/-- the explicit palette form `38;5;n` / `48;5;n` (for every `n`, also those the encoder writes as 30-37 / 90-97) -/
def ext5Ok (cfg : Cfg) (n : Nat) (fg : Bool) : Bool :=
  (decodeParams cfg (joinWith ';' ([if fg then 38 else 48, 5, n].map natStr))).map fieldsOf == some (colorFields fg (fromAnsi n))

def paletteOk (cfg : Cfg) : Bool :=
  (List.range 256).all fun n =>
    colorParamOk cfg (fromAnsi n) true && colorParamOk cfg (fromAnsi n) false && ext5Ok cfg n true && ext5Ok cfg n false

def encoderParamsOk (cfg : Cfg) : Bool :=
  (List.range 13).all (attrParamOk cfg) && paletteOk cfg &&
    colorParamOk cfg defaultColor true && colorParamOk cfg defaultColor false

theorem encoderParams_repaired : encoderParamsOk Cfg.repaired = true := by decide +kernel

theorem encoderParams_old : encoderParamsOk Cfg.old = true := by decide +kernel

/-- the numbers the encoder writes for the 13 attributes, in bit order (includes 21 for underline2, 51-53) -/
theorem attr_numbers :
    (List.range 13).map (fun i => (makeAnsiCodes (attrStyle i true)).toOption) =
      [1, 2, 3, 4, 5, 6, 7, 8, 9, 21, 51, 52, 53].map (fun k => some (natStr k)) := by decide +kernel

/-- `38;2;r;g;b` / `48;2;r;g;b`, all `r g b ≤ 255`: what the encoder writes for `from_rgb(r, g, b)`, how the decoder
splits it into numbers, and the style it reaches from the null style. -/
theorem truecolor_params (cfg : Cfg) (fg : Bool) (r g b : Nat) (hr : r < 256) (hg : g < 256) (hb : b < 256) :
    colorCodes (fromRgb r g b) fg = .ok ([if fg then 38 else 48, 2, r, g, b].map natStr) ∧
    sgrCodes cfg (joinWith ';' ([if fg then 38 else 48, 2, r, g, b].map natStr)) = .ok [if fg then 38 else 48, 2, r, g, b] ∧
    ∃ st', applyCodes cfg Style.null [if fg then 38 else 48, 2, r, g, b] 0 = (st', none) ∧
      SetColor fg (fromRgb r g b) Style.null st' := by
  refine ⟨?_, ?_, ?_⟩
  · simp [colorCodes, downgrade_truecolor, getAnsiCodes, assertSome, bind, Except.bind, fromRgb]
  · have hp : PList ([if fg then 38 else 48, 2, r, g, b].map fun n => (natStr n, n)) := by
      apply plist_of_lt
      intro n hn
      simp only [List.mem_cons, List.not_mem_nil, or_false] at hn
      rcases hn with rfl | rfl | rfl | rfl | rfl
      · cases fg <;> decide
      · decide
      · exact hr
      · exact hg
      · exact hb
    have := sgrCodes_plist cfg _ hp (by simp)
    simpa [List.map_map, Function.comp_def] using this
  · obtain ⟨st', h1, h2⟩ := applyCodes_ext2 cfg fg r g b Style.null [] Style.inv_null
    exact ⟨st', by rw [h1]; rfl, h2⟩

/-- SGR 0, written `ESC [ 0 m` or with the parameter omitted (`ESC [ m`), resets exactly: from ANY style the decoder
reaches a style with no attribute set, no colours — and the hyperlink it had (OSC 8 is not part of the rendition);
without a link that style is `Style.null()` itself. -/
theorem reset_exact (cfg : Cfg) (he : cfg.emptyIgnored = false) (hr : cfg.resetDropsLink = false) (st : Style) :
    sgrCodes cfg [] = .ok [0] ∧ sgrCodes cfg ['0'] = .ok [0] ∧
    applyCodes cfg st [0] 0 = (resetOf cfg st, none) ∧
    fieldsOf (resetOf cfg st) =
      (if strTruthy st.link then ⟨none, none, 0, 0, st.link, false⟩ else fieldsOf Style.null) := by
  refine ⟨?_, ?_, ?_, ?_⟩
  · simp [sgrCodes, splitOn, splitOnAux, codesLoop, he, Except.map]
  · have := sgrCodes_plist cfg [(natStr 0, 0)] (plist_of_lt [0] (by simp)) (by simp)
    simpa [natStr, joinWith] using this
  · simp [applyCodes]
  · by_cases h : strTruthy st.link = true
    · simp [resetOf, hr, h, fieldsOf, linkOnly]
    · simp [resetOf, hr, h]

end Ansi
end RichModel
