import RichModel.Lemmas.WrapFullFold
/-!
Comparison of styled strings up to the two laws of rich's style algebra that `Text.wrap` itself relies on:
the null style `""` is neutral and applying the same style twice in a row is applying it once
(`Text.expand_tabs` re-applies the base style, `Text("").join` puts the null style in front).
-/
namespace RichModel
namespace Wrap
open Text
variable {σ : Type}

/-- remove adjacent repetitions -/
def squash [BEq σ] : List σ → List σ
  | [] => []
  | [x] => [x]
  | x :: y :: rest => if x == y then squash (y :: rest) else x :: squash (y :: rest)

/-- a style list without null styles and without adjacent repetitions -/
def normStyle [BEq σ] (A : StyleAlg σ) (l : List σ) : List σ := squash (l.filter (fun s => !(s == A.null)))

/-- a styled string with every effective style in that normal form -/
def normView [BEq σ] (A : StyleAlg σ) (v : List (Char × List σ)) : List (Char × List σ) :=
  v.map (fun p => (p.1, normStyle A p.2))

theorem normView_append [BEq σ] (A : StyleAlg σ) (a b : List (Char × List σ)) :
    normView A (a ++ b) = normView A a ++ normView A b := by simp [normView]

theorem normView_of_dropNull [BEq σ] (A : StyleAlg σ) (a b : List (Char × List σ)) (h : dropNull A a = dropNull A b) :
    normView A a = normView A b := by
  have : ∀ v, normView A v = (dropNull A v).map (fun p => (p.1, squash p.2)) := by
    intro v; simp [normView, dropNull, normStyle]
  rw [this, this, h]

theorem squash_dup [BEq σ] [LawfulBEq σ] (x : σ) (l : List σ) : squash (x :: x :: l) = squash (x :: l) := by
  simp [squash]

/-- applying the base style once more in front changes nothing -/
theorem normView_cons_base [BEq σ] [LawfulBEq σ] (A : StyleAlg σ) (base : σ) (v : List (Char × List σ))
    (hv : ∀ p ∈ v, ∃ l, p.2 = base :: l) :
    normView A (v.map (fun p => (p.1, base :: p.2))) = normView A v := by
  simp only [normView, List.map_map]
  apply List.map_congr_left
  intro p hp
  obtain ⟨l, hl⟩ := hv p hp
  simp only [Function.comp, normStyle, hl, List.filter_cons]
  by_cases hb : (base == A.null) = true
  · simp [hb]
  · simp only [hb, Bool.not_false, if_true]
    simp only [squash_dup]

theorem view_styles_start_with_base (t : Text σ) : ∀ p ∈ t.view, ∃ l, p.2 = t.style :: l := by
  intro p hp
  unfold Text.view at hp
  obtain ⟨q, _, rfl⟩ := List.mem_map.mp hp
  exact ⟨_, rfl⟩

theorem nsv_styles_start_with_base (t : Text σ) : ∀ p ∈ nsv t.view, ∃ l, p.2 = t.style :: l := by
  intro p hp
  exact view_styles_start_with_base t p (List.mem_filter.mp hp).1

end Wrap
end RichModel
