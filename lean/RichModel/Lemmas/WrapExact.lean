import RichModel.Lemmas.WrapFullFold
import RichModel.Lemmas.WrapWhole
import RichModel.Lemmas.WrapTabs
import RichModel.Lemmas.WrapLine
/-!
The *exact* (name-list) form of "every character keeps its style" where `Text.wrap` itself adds style names:
* `Text.expand_tabs` rebuilds a paragraph that contains a tab through `Text.append(part)`: every character gets the
  base style once more **in front** of its effective style (`tabMark`);
* `Lines.justify(…, "full")` rebuilds every line of a paragraph but the last through `Text("").join(tokens)`: every
  character of such a line gets the null style of `Text("")` **in front** of its effective style (`fullMark`).
Nothing else changes a style list: these are equalities of lists of names, no normal form.
-/
namespace RichModel
namespace Wrap
open Text
variable {σ : Type}
variable {chars : Bool}

/-- what tab expansion does to the ink of a paragraph: base style once more in front, when there is a tab -/
def tabMark (P : Text σ) : List (Char × List σ) :=
  if P.plain.contains '\t' then (nsv P.view).map (fun p => (p.1, P.style :: p.2)) else nsv P.view

/-- what full justification does to the inks of the lines of a paragraph: null style in front for every line but the
last -/
def fullMark (null : σ) : List (List (Char × List σ)) → List (Char × List σ)
  | [] => []
  | [last] => last
  | l :: next :: rest => l.map (fun p => (p.1, null :: p.2)) ++ fullMark null (next :: rest)

/-- the ink of one (tab-expanded) paragraph `Q` after `wrapLine` with folding at width `w`, exactly -/
def paraInk (cw : Char → Nat) (A : StyleAlg σ) (w : Nat) (j : Justify) (Q : Text σ) : List (Char × List σ) :=
  if j = Justify.full then fullMark A.null ((pieces (divideLine cw Q.plain w true) Q.view).map nsv) else nsv Q.view

/-- the relation between a character of `fullMark` and the character of the lines at the same place -/
def MarkRel (null : σ) (p : (Char × List σ) × (Char × List σ)) : Prop :=
  p.1.1 = p.2.1 ∧ (p.1.2 = p.2.2 ∨ p.1.2 = null :: p.2.2)

theorem zip_map_append {α : Type} (R : α × α → Prop) (f : α → α) (hf : ∀ x, R (f x, x)) :
    ∀ (l r1 r2 : List α), (∀ p ∈ r1.zip r2, R p) → ∀ p ∈ (l.map f ++ r1).zip (l ++ r2), R p
  | [], _, _, h => by simpa using h
  | x :: l, r1, r2, h => by
    intro p hp
    simp only [List.map_cons, List.cons_append, List.zip_cons_cons, List.mem_cons] at hp
    rcases hp with rfl | hp
    · exact hf x
    · exact zip_map_append R f hf l r1 r2 h p hp

/-- the characters of `fullMark` are those of the lines, in order: only style lists grow, by the null style in front -/
theorem fullMark_spec (null : σ) : ∀ ls : List (List (Char × List σ)),
    (fullMark null ls).length = ls.flatten.length ∧ ∀ p ∈ (fullMark null ls).zip ls.flatten, MarkRel null p
  | [] => ⟨rfl, by simp [fullMark]⟩
  | [last] => by
    simp only [fullMark, List.flatten_cons, List.flatten_nil, List.append_nil, true_and]
    have := zip_map_append (MarkRel null) id (fun x => ⟨rfl, Or.inl rfl⟩) last [] [] (by simp)
    simpa using this
  | l :: next :: rest => by
    obtain ⟨ih1, ih2⟩ := fullMark_spec null (next :: rest)
    simp only [fullMark, List.flatten_cons] at ih1 ih2 ⊢
    refine ⟨by simp only [List.length_append, List.length_map, ih1], ?_⟩
    exact zip_map_append (MarkRel null) (fun p => (p.1, null :: p.2)) (fun x => ⟨rfl, Or.inr rfl⟩) l _ _ ih2

/-- the tail of `wrapLine` for justify "full" on lines already stripped by `rstrip_end`, exactly -/
theorem fullRel_fold_exact [BEq σ] (cw : Char → Nat) (A : StyleAlg σ) (w : Nat) :
    ∀ (ss outs : List (Text σ)), FullRel cw A w ss outs →
    (∀ s ∈ ss, Inv s ∧ cellLen cw (pyRstrip s.plain) ≤ w) →
    nsv ((outs.map (fun l => l.truncate cw (w : Int) (some Overflow.fold))).flatMap Text.view)
      = fullMark A.null (ss.map (fun s => nsv s.view))
  | [], _, h, _ => by cases h; rfl
  | [last], _, h, hs => by
    cases h
    obtain ⟨hi, hf⟩ := hs last (by simp)
    have := truncate_sameInk cw last hi w Overflow.fold (by decide) false hf
    simp only [List.map_cons, List.map_nil, List.flatMap_cons, List.flatMap_nil, List.append_nil, fullMark]
    rw [this.ink]
  | line :: next :: rest, _, h, hs => by
    obtain ⟨out, outs', rfl, hr, hrest⟩ := h
    obtain ⟨hi, hf⟩ := hs line (by simp)
    obtain ⟨hoi, _, hink, hfit⟩ := hr
    have ht := truncate_sameInk cw out hoi w Overflow.fold (by decide) false (hfit hf)
    have ih := fullRel_fold_exact cw A w (next :: rest) outs' hrest
      (fun s hs' => hs s (List.mem_cons_of_mem _ hs'))
    simp only [List.map_cons, List.flatMap_cons, nsv_append, fullMark] at ih ⊢
    rw [ih, ht.ink, hink]

/-- a paragraph wrapped with folding and justify "full": the exact ink -/
theorem wrapLine_fold_full_exact [BEq σ] (cw : Char → Nat) (hsp : cw ' ' = 1) (A : StyleAlg σ) (w : Nat)
    (hwc : ∀ c, cw c ≤ w) (P : Text σ) (hP : Inv P) :
    ∃ out, wrapLine (WVariant.fixed chars) cw A P w Justify.full Overflow.fold false = .ok out ∧
      nsv (out.flatMap Text.view) = paraInk cw A w Justify.full P := by
  obtain ⟨hpw, hin⟩ := Wrap.divideLine_offsets cw P.plain w true hwc
  have hasc : AscFrom 0 (divideLine cw P.plain w true) :=
    ascFrom_of_pairwise _ 0 (hpw.imp (fun h => Nat.le_of_lt h)) (fun o _ => Nat.zero_le o)
  obtain ⟨lines, hdiv, hview, hplain, hall⟩ :=
    Text.divide_view P _ hP hasc (fun o ho => Nat.le_of_lt (hin o ho).2)
  have hfit := Wrap.divideLine_pieces_fit cw P.plain w hwc
  have hstr : ∀ l ∈ lines, SameInk l (Text.rstripEndW chars cw Variant.repaired l (w : Int)) ∧
      cellLen cw (pyRstrip (Text.rstripEndW chars cw Variant.repaired l (w : Int)).plain) ≤ w := by
    intro l hl
    obtain ⟨h0, hr0⟩ := rstripEnd_sameInk (chars := chars) cw l (hall l hl).1 w
    refine ⟨h0, ?_⟩
    rw [hr0]; apply hfit; rw [← hplain]; exact List.mem_map_of_mem hl
  obtain ⟨outs, hjf, _, hrel⟩ := justifyFull_spec cw hsp A w
    (lines.map (fun l => Text.rstripEndW chars cw Variant.repaired l (w : Int)))
    (by intro s hs; obtain ⟨l, hl, rfl⟩ := List.mem_map.mp hs; exact (hstr l hl).1.inv)
  have h1 := fullRel_fold_exact cw A w _ outs hrel
    (by intro s hs; obtain ⟨l, hl, rfl⟩ := List.mem_map.mp hs; exact ⟨(hstr l hl).1.inv, (hstr l hl).2⟩)
  refine ⟨outs.map (fun l => l.truncate cw (w : Int) (some Overflow.fold)), ?_, ?_⟩
  · unfold wrapLine
    simp only [Bool.false_eq_true, if_false, show (Overflow.fold == Overflow.fold) = true from rfl]
    show (P.divide Variant.repaired _ >>= _) = _
    rw [hdiv]
    simp only [bind, Except.bind, justifyLines]
    rw [show (WVariant.fixed chars).text = Variant.repaired from rfl,
      show (WVariant.fixed chars).rstripChars = chars from rfl, hjf]
  · rw [h1]
    simp only [paraInk, if_true, ← hview, List.map_map]
    congr 1
    apply List.map_congr_left
    intro l hl
    exact (hstr l hl).1.ink

/-- the induction over the paragraphs of `Text.wrap` with a per-paragraph description `F` of the ink -/
theorem wrap_over_paragraphs_exact [BEq σ] (cw : Char → Nat) (A : StyleAlg σ) (t : Text σ) (ht : Inv t) (w : Nat)
    (justify : Option Justify) (overflow : Option Overflow) (tabSize : Option Nat) (noWrap : Option Bool)
    (F : Text σ → List (Char × List σ))
    (hpar : ∀ P : Text σ, Inv P → (∀ c ∈ P.plain, c ∈ t.plain) → ∃ P' out,
        (if P.plain.contains '\t' then P.expandTabs Variant.repaired tabSize else .ok P) = .ok P' ∧
        wrapLine (WVariant.fixed chars) cw A P' w (wrapJustifyOf t justify) (wrapOverflowOf t overflow)
          (noWrapOf t overflow noWrap) = .ok out ∧
        nsv (out.flatMap Text.view) = F P) :
    ∃ out ps, wrap (WVariant.fixed chars) cw A t w justify overflow tabSize noWrap = .ok out ∧
      t.split Variant.repaired ['\n'] false true = .ok ps ∧
      nsv (ps.flatMap Text.view) = nsv t.view ∧
      (∀ P ∈ ps, Inv P ∧ P.style = t.style ∧ '\n' ∉ P.plain) ∧
      nsv (out.flatMap Text.view) = ps.flatMap F := by
  obtain ⟨ps, hsplit, hink, hps⟩ := split_newline_ink t ht
  unfold wrap
  rw [show (WVariant.fixed chars).text = Variant.repaired from rfl, hsplit]
  simp only [bind, Except.bind]
  suffices hs : ∃ out, wrapParagraphs (WVariant.fixed chars) cw A w (wrapJustifyOf t justify) (wrapOverflowOf t overflow)
      (noWrapOf t overflow noWrap) tabSize ps = .ok out ∧ nsv (out.flatMap Text.view) = ps.flatMap F by
    obtain ⟨out, h1, h2⟩ := hs
    exact ⟨out, ps, h1, rfl, hink, fun P hP => ⟨(hps P hP).1, (hps P hP).2.1, (hps P hP).2.2.2⟩, h2⟩
  clear hink hsplit
  induction ps with
  | nil => exact ⟨[], rfl, rfl⟩
  | cons P ps ih =>
    obtain ⟨hP, _, hPc, _⟩ := hps P (by simp)
    obtain ⟨more, hmore, hmink⟩ := ih (fun l hl => hps l (List.mem_cons_of_mem _ hl))
    obtain ⟨P', out, hP', hout, hoink⟩ := hpar P hP hPc
    refine ⟨out ++ more, ?_, ?_⟩
    · simp only [wrapParagraphs, show (WVariant.fixed chars).text = Variant.repaired from rfl, hP', bind, Except.bind,
        hout, hmore]
    · simp only [List.flatMap_append, List.flatMap_cons, nsv_append, hoink, hmink]

/-- the exact ink of one paragraph `P` of `Text.wrap` (tab expansion, then folding at width `w`) -/
def wrapInk [BEq σ] (cw : Char → Nat) (A : StyleAlg σ) (w : Nat) (j : Justify) (tabSize : Option Nat) (P : Text σ) :
    List (Char × List σ) :=
  match (if P.plain.contains '\t' then P.expandTabs Variant.repaired tabSize else .ok P) with
  | .ok Q => paraInk cw A w j Q
  | .error _ => []

/-- a blank token of full justification shows `n` blanks, each with the one style it was built with -/
theorem blank_view (n : Nat) (st : σ) :
    (Text.new Variant.repaired (List.replicate n ' ') st).view = List.replicate n (' ', [st]) := by
  rw [view_new, stripControl_replicate_space]
  have key : ∀ (n k : Nat) (f : Nat → List σ), (∀ i, f i = [st]) →
      annot (List.replicate n ' ') f k = List.replicate n (' ', [st]) := by
    intro n
    induction n with
    | zero => intro k f _; rfl
    | succ n ih => intro k f hf; simp [annot, List.replicate_succ, hf, ih (k + 1) f hf]
  exact key n 0 _ (fun i => by simp [spanIds])

/-- **the whole styled string of a line rebuilt by full justification**, blanks included: the tokens (`fullTokens`:
the words of `line.split(" ")` and, between two words, `spaces[i]` blanks built with the style the neighbours share —
`get_style_at_offset` of the last character of the word and of the first of the next, when `Style.__eq__` — or else
with the line's base style) one after the other, every character with the null style of `Text("")` in front -/
theorem justifyFullLine_view [BEq σ] (cw : Char → Nat) (A : StyleAlg σ) (line : Text σ) (h : Inv line) (w : Nat) :
    ∃ (ws : List (Text σ)) (out : Text σ), line.split Variant.repaired [' '] = .ok ws ∧
      justifyFullLine Variant.repaired cw A line w = .ok out ∧
      out.view = (fullTokens Variant.repaired A line.style ws
          (fullSpaces (ws.map (fun x => cellLen cw x.plain)).sum ws.length w)).flatMap
        (fun x => x.view.map (fun p => (p.1, A.null :: p.2))) := by
  obtain ⟨ws, hsplit, _, hall, _⟩ := split_space_words line h
  obtain ⟨t1, _, _⟩ := fullTokens_spec A line.style ws
    (fullSpaces (ws.map (fun w => cellLen cw w.plain)).sum ws.length w) (fun x hx => (hall x hx).1)
  refine ⟨ws, (Text.new Variant.repaired [] A.null).join Variant.repaired (fullTokens Variant.repaired A line.style ws
      (fullSpaces (ws.map (fun x => cellLen cw x.plain)).sum ws.length w)), hsplit, ?_, ?_⟩
  · unfold justifyFullLine
    rw [hsplit]
    rfl
  · rw [view_join _ _ (nullSep_inv A.null) t1, joinSeq_empty _ (nullSep_plain _ A.null)]
    rfl

end Wrap
end RichModel
