import RichModel.Props.C02
import RichModel.Lemmas.TableChars
/-!
A TEXT cell as the table's oracle, built from C02's model of `Text.wrap` (read-only): `Padding(text, (pt, pr, pb, pl))`
rendered by `console.render_lines` at width `w` — the text wrapped at the content width `w - pl - pr` with overflow
"fold", every line brought to the content width, blank cells left and right, blank lines above and below.
Its oracle contract (exact widths, every non-whitespace character kept in order) follows from C02's theorems
`wrap_lines_fit` and `wrap_fold_keeps_nonspace`.
-/
namespace RichModel
open RichModel.Text RichModel.Wrap

variable {σ : Type}

/-- One rendered line of the padded text cell. -/
def padTextLine (cw : Char → Nat) (pl pr cwid : Nat) (s : List Char) : List Char :=
  List.replicate pl ' ' ++ setCellSize cw s cwid ++ List.replicate pr ' '

/-- `render_lines(Padding(text, (pt, pr, pb, pl)), width = w, overflow = "fold", no_wrap = False, justify)` as plain lines. -/
def wrapCellLines [BEq σ] (chars : Bool) (cw : Char → Nat) (A : StyleAlg σ) (t : Text σ) (pt pr pb pl : Nat)
    (justify : Option Justify) (w : Nat) : List (List Char) :=
  match wrap (WVariant.fixed chars) cw A t (w - pl - pr) justify (some Overflow.fold) (some 8) (some false) with
  | .ok out =>
    List.replicate pt (List.replicate w ' ') ++ out.map (fun l => padTextLine cw pl pr (w - pl - pr) l.plain)
      ++ List.replicate pb (List.replicate w ' ')
  | .error _ => []

/-- The text cell as a table oracle (`meas` = what `Measurement.get` says of it; the table theorems used here do not read it). -/
def wrapCell [BEq σ] (chars : Bool) (cw : Char → Nat) (A : StyleAlg σ) (t : Text σ) (pt pr pb pl : Nat)
    (justify : Option Justify) (meas : Nat → Measurement) : Cell :=
  { measure := meas, renderLines := wrapCellLines chars cw A t pt pr pb pl justify }

theorem setCellSize_pad (cw : Char → Nat) (s : List Char) (n : Nat) (h : cellLen cw s ≤ n) :
    setCellSize cw s n = s ++ List.replicate (n - cellLen cw s) ' ' := by
  unfold setCellSize
  simp only
  by_cases heq : cellLen cw s = n
  · simp [heq]
  · have hlt : cellLen cw s < n := by omega
    simp [heq, hlt]

theorem padTextLine_width (cw : Char → Nat) (hsp : cw ' ' = 1) (h2 : ∀ c, cw c ≤ 2) (pl pr cwid : Nat) (s : List Char) :
    cellLen cw (padTextLine cw pl pr cwid s) = pl + cwid + pr := by
  unfold padTextLine
  rw [cellLen_append, cellLen_append, cellLen_replicate, cellLen_replicate, (setCellSize_exact cw hsp h2 s cwid).1, hsp]
  omega

theorem padTextLine_nonspace (cw : Char → Nat) (isSp : Char → Bool) (hsp : isSp ' ' = true) (pl pr cwid : Nat) (s : List Char)
    (h : cellLen cw s ≤ cwid) :
    (padTextLine cw pl pr cwid s).filter (fun c => !isSp c) = s.filter (fun c => !isSp c) := by
  unfold padTextLine
  rw [setCellSize_pad cw s cwid h]
  simp only [List.filter_append, filter_replicate_space isSp hsp, List.nil_append, List.append_nil]

theorem flatten_map_nonspace (cw : Char → Nat) (isSp : Char → Bool) (hsp : isSp ' ' = true) (pl pr cwid : Nat) :
    ∀ (out : List (Text σ)), (∀ l ∈ out, cellLen cw l.plain ≤ cwid) →
      ((out.map (fun l => padTextLine cw pl pr cwid l.plain)).flatten).filter (fun c => !isSp c)
        = (out.flatMap (·.plain)).filter (fun c => !isSp c)
  | [], _ => rfl
  | l :: out, h => by
    simp only [List.map_cons, List.flatten_cons, List.flatMap_cons, List.filter_append,
      padTextLine_nonspace cw isSp hsp pl pr cwid l.plain (h l (by simp)),
      flatten_map_nonspace cw isSp hsp pl pr cwid out (fun x hx => h x (List.mem_cons_of_mem _ hx))]

theorem pyIsSpace_space : pyIsSpace ' ' = true := by decide

/-- **The text cell's oracle contract.**  For a content width of at least 2 cells: every rendered line is exactly `w`
cells wide, and the lines, read in order with whitespace dropped, are the non-whitespace characters of the text. -/
theorem wrapCell_contract [BEq σ] [LawfulBEq σ] (chars : Bool) (cw : Char → Nat) (hsp : cw ' ' = 1) (h2 : ∀ c, cw c ≤ 2) (hel : cw '…' = 1)
    (A : StyleAlg σ) (t : Text σ) (ht : Inv t) (pt pr pb pl : Nat) (justify : Option Justify) (w : Nat)
    (hw : 2 ≤ w - pl - pr) (hfit : pl + pr ≤ w) :
    (∀ x ∈ wrapCellLines chars cw A t pt pr pb pl justify w, cellLen cw x = w) ∧
    ((wrapCellLines chars cw A t pt pr pb pl justify w).flatten).filter (fun c => !pyIsSpace c)
      = t.plain.filter (fun c => !pyIsSpace c) := by
  have hwc : ∀ c, cw c ≤ w - pl - pr := fun c => Nat.le_trans (h2 c) hw
  have hov : wrapOverflowOf t (some Overflow.fold) = Overflow.fold := rfl
  have hnw : noWrapOf t (some Overflow.fold) (some false) = false := rfl
  obtain ⟨out, hout, _, hkeep⟩ := C02.wrap_fold_keeps_nonspace (chars := chars) cw hsp h2 A t ht (w - pl - pr) hwc justify
    (some Overflow.fold) 8 (by omega) (some false) hov hnw
  have hfits := C02.wrap_lines_fit (WVariant.fixed chars) cw hsp h2 hel A t (w - pl - pr) (by omega) justify (some Overflow.fold)
    (some 8) (some false) out hout (by rw [hov]; decide)
  unfold wrapCellLines
  rw [hout]
  simp only
  refine ⟨?_, ?_⟩
  · intro x hx
    simp only [List.mem_append, List.mem_map] at hx
    rcases hx with (hx | ⟨l, _, rfl⟩) | hx
    · rw [List.eq_of_mem_replicate hx, cellLen_replicate, hsp]; omega
    · rw [padTextLine_width cw hsp h2]; omega
    · rw [List.eq_of_mem_replicate hx, cellLen_replicate, hsp]; omega
  · rw [List.flatten_append, List.flatten_append, List.filter_append, List.filter_append,
      filter_flatten_blank pyIsSpace pyIsSpace_space, filter_flatten_blank pyIsSpace pyIsSpace_space,
      flatten_map_nonspace cw pyIsSpace pyIsSpace_space pl pr (w - pl - pr) out hfits, List.nil_append, List.append_nil]
    exact hkeep

end RichModel
