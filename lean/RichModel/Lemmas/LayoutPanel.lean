import RichModel.Lemmas.LayoutFrames
import RichModel.Lemmas.LayoutText
import RichModel.Lemmas.LayoutSplit
/-!
The panel of the composition layer (`panelConsoleL`: C08's panel with the title as a real `Text` rendered by
`textConsole`): no line is wider than the available width, and the panel ends its last line.  Stated on the flat
text (`Fits`), because the rendering of the title is only known through `text_fits`.  Helpers are prefixed `pn_`.
-/
namespace RichModel.Layout
open RichModel RichModel.Frames

/-! ### list facts -/

theorem pn_nlFree_flat (l : Ln) (h : NlFree l) : ∀ c ∈ flat l, c ≠ '\n' := by
  induction l with
  | nil => intro c hc; simp [flat_nil] at hc
  | cons s l ih =>
    intro c hc
    rw [flat_cons, List.mem_append] at hc
    rcases hc with hc | hc
    · have hs := h s (by simp)
      cases hctl : s.control with
      | true => simp [hctl] at hc
      | false =>
        simp only [hctl, Bool.false_eq_true, if_false] at hc
        simp only [hctl, Bool.not_false, Bool.and_true] at hs
        exact (contains_nl_false_iff s.text).mp hs c hc
    · exact ih (fun s hs => h s (by simp [hs])) c hc

theorem pn_cellLen_reverse (cw : Char → Nat) (s : List Char) : cellLen cw s.reverse = cellLen cw s := by
  simp [cellLen, List.sum_reverse]

/-- a separator-free prefix only fills the accumulator -/
theorem pn_splitOnP_prefix (p : Char → Bool) : ∀ (a s cur : List Char), (∀ c ∈ a, p c = false) →
    splitOnP p (a ++ s) cur = splitOnP p s (a.reverse ++ cur)
  | [], s, cur, _ => by simp
  | d :: a, s, cur, h => by
    have hd : p d = false := h d (by simp)
    simp only [List.cons_append, splitOnP, hd, Bool.false_eq_true, if_false]
    rw [pn_splitOnP_prefix p a s (d :: cur) (fun c hc => h c (by simp [hc]))]
    simp

/-- a separator-free suffix only extends the last piece -/
theorem pn_splitOnP_suffix (cw : Char → Nat) (p : Char → Bool) (b : List Char) (hb : ∀ c ∈ b, p c = false) :
    ∀ (s cur : List Char), ∀ x ∈ splitOnP p (s ++ b) cur,
      ∃ y, y ∈ splitOnP p s cur ∧ cellLen cw x ≤ cellLen cw y + cellLen cw b
  | [], cur => by
    intro x hx
    rw [List.nil_append, splitOnP_none p b cur hb, List.mem_singleton] at hx
    subst hx
    refine ⟨cur.reverse, by simp [splitOnP], ?_⟩
    rw [cellLen_append]
    exact Nat.le_refl _
  | c :: s, cur => by
    intro x hx
    by_cases hc : p c = true
    · simp only [List.cons_append, splitOnP, hc, if_true, List.mem_cons] at hx ⊢
      rcases hx with rfl | hx
      · exact ⟨_, Or.inl rfl, Nat.le_add_right _ _⟩
      · obtain ⟨y, hy, hle⟩ := pn_splitOnP_suffix cw p b hb s [] x hx
        exact ⟨y, Or.inr hy, hle⟩
    · simp only [List.cons_append, splitOnP, hc] at hx ⊢
      exact pn_splitOnP_suffix cw p b hb s (c :: cur) x hx

/-- a longer accumulator only extends the first piece -/
theorem pn_splitOnP_cur (cw : Char → Nat) (p : Char → Bool) (m : Nat) : ∀ (s cur0 cur : List Char),
    (∀ q ∈ splitOnP p s cur0, cellLen cw q ≤ m) →
      ∀ y ∈ splitOnP p s (cur0 ++ cur), cellLen cw y ≤ cellLen cw cur + m
  | [], cur0, cur => by
    intro h y hy
    simp only [splitOnP, List.mem_singleton] at h hy
    subst hy
    have := h _ rfl
    rw [pn_cellLen_reverse] at this ⊢
    rw [cellLen_append]; omega
  | c :: s, cur0, cur => by
    intro h y hy
    by_cases hc : p c = true
    · simp only [splitOnP, hc, if_true, List.mem_cons] at h hy
      rcases hy with rfl | hy
      · have := h _ (Or.inl rfl)
        rw [pn_cellLen_reverse] at this ⊢
        rw [cellLen_append]; omega
      · have := h y (Or.inr hy); omega
    · simp only [splitOnP, hc] at h hy
      exact pn_splitOnP_cur cw p m s (c :: cur0) cur h y hy

/-- **sandwich**: a text whose lines fit in `n` cells, between two strings without line feed -/
theorem pn_sandwich_chars (cw : Char → Nat) (n : Nat) (a s b : List Char)
    (hs : ∀ q ∈ pieces s, cellLen cw q ≤ n) (ha : ∀ c ∈ a, c ≠ '\n') (hb : ∀ c ∈ b, c ≠ '\n') :
    ∀ x ∈ pieces (a ++ s ++ b), cellLen cw x ≤ cellLen cw a + n + cellLen cw b := by
  intro x hx
  unfold pieces at hx hs
  rw [List.append_assoc, pn_splitOnP_prefix _ a (s ++ b) [] (fun c hc => by simpa using ha c hc),
    List.append_nil] at hx
  obtain ⟨y, hy, hle⟩ := pn_splitOnP_suffix cw _ b (fun c hc => by simpa using hb c hc) s a.reverse x hx
  have := pn_splitOnP_cur cw _ n s [] a.reverse hs y (by simpa using hy)
  rw [pn_cellLen_reverse] at this
  omega

theorem pn_sandwich (cw : Char → Nat) (n : Nat) (a b : List Char) (t : List Seg) (ht : Fits cw n t)
    (ha : ∀ c ∈ a, c ≠ '\n') (hb : ∀ c ∈ b, c ≠ '\n') :
    Fits cw (cellLen cw a + n + cellLen cw b) ([seg a] ++ t ++ [seg b]) := by
  unfold Fits
  rw [flat_append, flat_append, flat_seg, flat_seg]
  exact pn_sandwich_chars cw n a (flat t) b ht ha hb

theorem pn_fits_mono (cw : Char → Nat) (n m : Nat) (h : n ≤ m) (s : List Seg) (hs : Fits cw n s) : Fits cw m s :=
  fun p hp => Nat.le_trans (hs p hp) h

/-- a line feed after a stream adds an empty line -/
theorem pn_fits_snoc_nl (cw : Char → Nat) (w : Nat) (a : List Seg) (h : Fits cw w a) : Fits cw w (a ++ [nl]) := by
  unfold Fits at *
  rw [flat_append, flat_nl, show flat a ++ ['\n'] = flat a ++ '\n' :: [] from rfl, pieces_append_nl, pieces_nil]
  intro p hp
  rcases List.mem_append.mp hp with hp | hp
  · exact h p hp
  · rw [List.mem_singleton] at hp; subst hp; simp

/-- one line-feed free line -/
theorem pn_fits_line (cw : Char → Nat) (w : Nat) (l : Ln) (hnl : ∀ c ∈ flat l, c ≠ '\n') (h : lineLength cw l ≤ w) :
    Fits cw w l := by
  intro p hp
  rw [pieces_no_nl _ hnl, List.mem_singleton] at hp
  subst hp
  rw [← lineLength_eq_flat]; exact h

/-! ### the panel -/

/-- `child_width` of `Panel.__rich_console__`, as `panelConsoleL` computes it -/
def pnChildW (cfg : Cfg) (o : PanelOpts) (inner : Ch) (title : Option T) (w : Int) : Int :=
  let width0 : Int := match o.width with | none => w | some pw => min w pw
  let childW0 : Int := if o.expand then width0 - 2 else fitWidth cfg.v (inner.measureAt (width0 - 2)).maximum
  match title with
  | none => childW0
  | some t => min (w - 2) (max childW0 ((cellLen cfg.cw t.plain : Int) + 2))

/-- the top border of `panelConsoleL` -/
def pnTop (cfg : Cfg) (o : PanelOpts) (box : Frames.Box) (title : Option T) (childW : Int) : List Seg :=
  match title with
  | none => [seg (boxTop box (childW + 2 - 2))]
  | some t =>
    let aligned := t.align cfg.wv.text cfg.cw (toAlignMethod o.titleAlign) (childW + 2 - 4) box.top
    let aligned : T := { aligned with endStr := [], noWrap := some true, overflow := none }
    let rw : Int := if cfg.titleAtConsoleWidth then (cfg.env.consoleWidth : Int) else childW + 2 - 4
    [seg [box.topLeft, box.top]] ++ (if rw < 1 then [] else textConsole cfg aligned {} rw.toNat)
      ++ [seg [box.top, box.topRight]]

theorem pn_unfold (cfg : Cfg) (o : PanelOpts) (c : Ch) (w : Int) (out : List Seg)
    (h : panelConsoleL cfg o c w = some out) :
    ∃ p box title, unpackPad o.padding = .ok p ∧
      boxAt (substituteBox cfg.env (o.safeBox.getD cfg.env.safeBox) o.box) = some box ∧
      panelTitleL cfg o.title = .ok title ∧
      out = pnTop cfg o box title (pnChildW cfg o (panelInner cfg.cw cfg.v p c) title w) ++ [nl]
        ++ ((panelInner cfg.cw cfg.v p c).linesAt cfg.cw (pnChildW cfg o (panelInner cfg.cw cfg.v p c) title w) true).flatMap
            (fun l => [seg [box.midLeft]] ++ l ++ [seg [box.midRight]] ++ [nl])
        ++ [seg (boxBottom box (pnChildW cfg o (panelInner cfg.cw cfg.v p c) title w + 2 - 2)), nl] := by
  unfold panelConsoleL at h
  cases hpad : unpackPad o.padding with
  | error e => simp [hpad] at h
  | ok p =>
    cases hb : boxAt (substituteBox cfg.env (o.safeBox.getD cfg.env.safeBox) o.box) with
    | none => simp [hpad, hb] at h
    | some box =>
      cases ht : panelTitleL cfg o.title with
      | error e => simp [hpad, hb, ht] at h
      | ok title =>
        simp only [hpad, hb, ht] at h
        refine ⟨p, box, title, rfl, rfl, rfl, ?_⟩
        cases title <;> exact (Option.some.inj h).symm

/-- the panel never exceeds the available width (`Dep.panel_width_le` for `panelConsoleL`) -/
theorem pn_childW_le (cfg : Cfg) (o : PanelOpts) (inner : Ch) (title : Option T) (w : Int) (hw : 3 ≤ w)
    (hm : ∀ k : Int, (inner.measureAt k).maximum ≤ max k 0) : pnChildW cfg o inner title w + 2 ≤ w := by
  unfold pnChildW
  have hfit : ∀ k : Int, fitWidth cfg.v (inner.measureAt k).maximum ≤ max k 1 := by
    intro k
    have := hm k
    unfold fitWidth; split <;> omega
  cases title with
  | some t => simp only; omega
  | none =>
    simp only
    cases ho : o.width with
    | none =>
      simp only
      split
      · omega
      · have := hfit (w - 2); omega
    | some pw =>
      simp only
      split
      · omega
      · have := hfit (min w pw - 2); omega

theorem pn_title_ne (cfg : Cfg) (title : List Char) (t : T) (h : panelTitleL cfg title = .ok (some t)) : title ≠ [] := by
  intro he
  simp [panelTitleL, he] at h

/-- **Panel with a `Text` title** (the code since fix 0e1edf7: the title is rendered at the width it was aligned to): at least 3 cells
(4 with a title) available and a child whose measurement is sound ⇒ no line of the panel is wider than the available width, and the
panel ends its last line. -/
theorem panelL_fits (cfg : Cfg) (hcw : cfg.cw = cwR) (hp : cfg.poison = []) (htc : cfg.titleAtConsoleWidth = false)
    (o : PanelOpts) (c : Ch) (w : Int) (out : List Seg) (h : panelConsoleL cfg o c w = some out)
    (hw : 3 ≤ w) (hwt : o.title ≠ [] → 4 ≤ w) (hm : ∀ k : Int, (c.measureAt k).maximum ≤ max k 0) :
    Fits cfg.cw w.toNat out ∧ Closed out := by
  have hsp : cfg.cw ' ' = 1 := by rw [hcw]; exact cwD_space
  have h2 : ∀ ch, cfg.cw ch ≤ 2 := by rw [hcw]; exact cwD_le_two
  have hel : cfg.cw '…' = 1 := by rw [hcw]; exact cwD_ellipsis
  obtain ⟨p, box, title, hpad, hb, ht, hout⟩ := pn_unfold cfg o c w out h
  obtain ⟨hnn, hnar⟩ := Dep.boxAt_ok _ box hb
  have hnar' : box.Narrow cfg.cw := by rw [hcw]; exact hnar
  obtain ⟨n1, n2, n3, n4, n5, n6, n7, n8⟩ := hnar'
  obtain ⟨m1, m2, m3, m4, m5, m6, m7, m8⟩ := hnn
  have hin : ∀ k : Int, ((panelInner cfg.cw cfg.v p c).measureAt k).maximum ≤ max k 0 := by
    rw [hcw]; exact fr_panelInner_sound cfg.v p c hm
  have hle : pnChildW cfg o (panelInner cfg.cw cfg.v p c) title w + 2 ≤ w :=
    pn_childW_le cfg o _ title w hw hin
  generalize pnChildW cfg o (panelInner cfg.cw cfg.v p c) title w = cwid at hout hle
  subst hout
  constructor
  · -- every line fits
    have hclTop : Closed (pnTop cfg o box title cwid ++ [nl]) := closed_snoc_nl _
    refine fits_append _ _ _ _ (closed_append _ _ hclTop (closed_flatMap _ _ (fun l _ => closed_snoc_nl _)))
      (fits_append _ _ _ _ hclTop (pn_fits_snoc_nl _ _ _ ?_) ?_) ?_
    · -- the top border
      cases title with
      | none =>
        show Fits cfg.cw w.toNat [seg (boxTop box (cwid + 2 - 2))]
        apply pn_fits_line
        · intro ch hch
          rw [flat_seg] at hch
          simp only [boxTop, List.mem_append, List.mem_singleton, rep, List.mem_replicate] at hch
          rcases hch with (rfl | ⟨_, rfl⟩) | rfl <;> assumption
        · rw [show boxTop box (cwid + 2 - 2) = [box.topLeft] ++ rep (cwid + 2 - 2) box.top ++ [box.topRight] from rfl,
            lineLength_boxRow cfg.cw _ _ _ n1 n2 n3]
          omega
      | some t =>
        have h4 := hwt (pn_title_ne cfg o.title t ht)
        simp only [pnTop, htc, Bool.false_eq_true, if_false]
        refine pn_fits_mono _ (cellLen cfg.cw [box.topLeft, box.top] + (cwid + 2 - 4).toNat
          + cellLen cfg.cw [box.top, box.topRight]) _ ?_ _ (pn_sandwich _ _ _ _ _ ?_ ?_ ?_)
        · simp only [cellLen_cons, cellLen_nil, n1, n2, n3]; omega
        · split
          · exact fits_nil _ _
          · exact text_fits cfg hsp h2 hel hp _ _ _ (by omega) (by simp [effOverflow]) (Or.inr rfl)
        · intro ch hch
          simp only [List.mem_cons, List.not_mem_nil, or_false] at hch
          rcases hch with rfl | rfl <;> assumption
        · intro ch hch
          simp only [List.mem_cons, List.not_mem_nil, or_false] at hch
          rcases hch with rfl | rfl <;> assumption
    · -- the body
      rw [show ∀ lines : List Ln, lines.flatMap (fun l : Ln => [seg [box.midLeft]] ++ l ++ [seg [box.midRight]] ++ [nl])
          = (lines.map (fun l : Ln => [seg [box.midLeft]] ++ l ++ [seg [box.midRight]])).flatMap (fun l : Ln => l ++ [nl])
        from fun lines => by rw [List.flatMap_map]]
      apply fits_of_lines
      · intro l hl ch hch
        obtain ⟨l0, hl0, rfl⟩ := List.mem_map.mp hl
        rw [flat_append, flat_append, flat_seg, flat_seg] at hch
        simp only [List.mem_append, List.mem_singleton] at hch
        rcases hch with (rfl | hch) | rfl
        · exact m4
        · exact pn_nlFree_flat l0 (linesAt_nlFree cfg.cw hsp h2 _ _ _ l0 hl0) ch hch
        · exact m5
      · intro l hl
        obtain ⟨l0, hl0, rfl⟩ := List.mem_map.mp hl
        rw [lineLength_append, lineLength_append, renderLines_exact cfg.cw hsp h2 _ _ l0 hl0]
        simp only [lineLength_seg, cellLen_cons, cellLen_nil, n4, n5]
        omega
    · -- the bottom border
      rw [show ([seg (boxBottom box (cwid + 2 - 2)), nl] : List Seg) = [seg (boxBottom box (cwid + 2 - 2))] ++ [nl] from rfl]
      apply pn_fits_snoc_nl
      apply pn_fits_line
      · intro ch hch
        rw [flat_seg] at hch
        simp only [boxBottom, List.mem_append, List.mem_singleton, rep, List.mem_replicate] at hch
        rcases hch with (rfl | ⟨_, rfl⟩) | rfl <;> assumption
      · rw [show boxBottom box (cwid + 2 - 2) = [box.bottomLeft] ++ rep (cwid + 2 - 2) box.bottom ++ [box.bottomRight] from rfl,
          lineLength_boxRow cfg.cw _ _ _ n6 n7 n8]
        omega
  · -- the last line is ended
    rw [show ∀ (X : List Seg) (s : Seg), X ++ [s, nl] = (X ++ [s]) ++ [nl] by intro X s; simp]
    exact closed_snoc_nl _

end RichModel.Layout
