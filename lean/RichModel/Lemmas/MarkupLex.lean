import RichModel.Model.Markup
namespace RichModel.Markup

/-- the scanner with `k` pending backslashes -/
abbrev lexK (k : Nat) (s : List Char) : List Lx := lexGo 0 k s

theorem lexGo_skip (xs r : List Char) (k : Nat) : lexGo xs.length k (xs ++ r) = lexGo 0 k r := by
  induction xs with
  | nil => rfl
  | cons x xs ih => simp [lexGo, ih]

theorem untilClose_cons (c : Char) (cs : List Char) (h1 : c ≠ ']') (h2 : c ≠ '\n') :
    untilClose (c :: cs) = (untilClose cs).map (fun p => (c :: p.1, p.2)) := by
  rw [untilClose]
  simp only [h1, h2, if_false]
  cases untilClose cs with
  | none => rfl
  | some p => rfl

theorem untilClose_spec {cs b r : List Char} (h : untilClose cs = some (b, r)) :
    cs = b ++ ']' :: r ∧ ']' ∉ b ∧ '\n' ∉ b := by
  induction cs generalizing b r with
  | nil => simp [untilClose] at h
  | cons c cs ih =>
    by_cases h1 : c = ']'
    · subst h1; simp [untilClose] at h; obtain ⟨rfl, rfl⟩ := h; simp
    · by_cases h2 : c = '\n'
      · subst h2; simp [untilClose] at h
      · rw [untilClose_cons c cs h1 h2] at h
        cases hu : untilClose cs with
        | none => simp [hu] at h
        | some p =>
          obtain ⟨b', r'⟩ := p
          simp [hu] at h
          obtain ⟨rfl, rfl⟩ := h
          obtain ⟨e, n1, n2⟩ := ih hu
          refine ⟨by rw [e]; simp, ?_, ?_⟩
          · simp; exact ⟨fun h => h1 h.symm, n1⟩
          · simp; exact ⟨fun h => h2 h.symm, n2⟩

/-- conversely: a body without `]` and line feed, then `]` -/
theorem untilClose_of (b r : List Char) (n1 : ']' ∉ b) (n2 : '\n' ∉ b) :
    untilClose (b ++ ']' :: r) = some (b, r) := by
  induction b with
  | nil => simp [untilClose]
  | cons c b ih =>
    simp at n1 n2
    have := ih n1.2 n2.2
    rw [List.cons_append, untilClose_cons c _ (fun h => n1.1 h.symm) (fun h => n2.1 h.symm), this]
    rfl

theorem isTagStart_ne {c : Char} (h : isTagStart c = true) : c ≠ ']' ∧ c ≠ '\n' ∧ c ≠ '\\' ∧ c ≠ '[' := by
  refine ⟨?_, ?_, ?_, ?_⟩ <;> (intro e; subst e; revert h; decide)

theorem tagBody_spec {cs b r : List Char} (h : tagBody cs = some (b, r)) :
    cs = b ++ ']' :: r ∧ ∃ c b', b = c :: b' ∧ isTagStart c = true ∧ ']' ∉ b' ∧ '\n' ∉ b' := by
  cases cs with
  | nil => simp [tagBody] at h
  | cons c cs =>
    simp only [tagBody] at h
    split at h
    · rename_i hc
      cases hu : untilClose cs with
      | none => simp [hu] at h
      | some p =>
        obtain ⟨b', r'⟩ := p
        simp [hu] at h
        obtain ⟨rfl, rfl⟩ := h
        obtain ⟨e, n1, n2⟩ := untilClose_spec hu
        exact ⟨by rw [e]; simp, c, b', rfl, hc, n1, n2⟩
    · cases h

/-- the match only depends on the text up to the closing bracket -/
theorem tagBody_of (c : Char) (b' r : List Char) (hc : isTagStart c = true) (n1 : ']' ∉ b') (n2 : '\n' ∉ b') :
    tagBody (c :: b' ++ ']' :: r) = some (c :: b', r) := by
  simp [tagBody, hc, untilClose_of b' r n1 n2]

theorem tagBody_change_rest {cs b r : List Char} (h : tagBody cs = some (b, r)) (r' : List Char) :
    tagBody (b ++ ']' :: r') = some (b, r') := by
  obtain ⟨_, c, b', rfl, hc, n1, n2⟩ := tagBody_spec h
  exact tagBody_of c b' r' hc n1 n2

/-! ### equations of the scanner -/

theorem lexK_nil (k : Nat) : lexK k [] = List.replicate k (Lx.ch '\\') := by simp [lexK, lexGo]

theorem lexK_bs (k : Nat) (cs : List Char) : lexK k ('\\' :: cs) = lexK (k + 1) cs := by
  simp [lexK, lexGo]

theorem lexK_tag (k : Nat) {cs b r : List Char} (h : tagBody cs = some (b, r)) :
    lexK k ('[' :: cs) = Lx.tag k b :: lexK 0 r := by
  have e := (tagBody_spec h).1
  simp only [lexK, lexGo, h]
  simp
  have : lexGo (b.length + 1) 0 cs = lexGo 0 0 r := by
    have := lexGo_skip (b ++ [']']) r 0
    simp at this
    rw [e]; simpa using this
  exact this

theorem lexK_open (k : Nat) {cs : List Char} (h : tagBody cs = none) :
    lexK k ('[' :: cs) = List.replicate k (Lx.ch '\\') ++ Lx.ch '[' :: lexK 0 cs := by
  simp [lexK, lexGo, h]

theorem lexK_plain (k : Nat) (c : Char) (cs : List Char) (h1 : c ≠ '\\') (h2 : c ≠ '[') :
    lexK k (c :: cs) = List.replicate k (Lx.ch '\\') ++ Lx.ch c :: lexK 0 cs := by
  simp [lexK, lexGo, h1, h2]

theorem lexK_bsl (j k : Nat) (t : List Char) : lexK j (bsl k ++ t) = lexK (j + k) t := by
  induction k generalizing j with
  | zero => simp [bsl]
  | succ k ih =>
    have : bsl (k + 1) ++ t = '\\' :: (bsl k ++ t) := by simp [bsl, List.replicate_succ]
    rw [this, lexK_bs, ih]; congr 1; omega

theorem flatten_replicate (k : Nat) : flatten (List.replicate k (Lx.ch '\\')) = bsl k := by
  induction k with
  | zero => rfl
  | succ k ih => simp [flatten, List.replicate_succ, Lx.flat, bsl] at *; exact ih

theorem flatten_append (a b : List Lx) : flatten (a ++ b) = flatten a ++ flatten b := by
  simp [flatten]

theorem flatten_cons (a : Lx) (b : List Lx) : flatten (a :: b) = a.flat ++ flatten b := by
  simp [flatten]

/-- **scan_partition**: the items re-flatten to the input (with the pending backslashes). -/
theorem flatten_lexK (n : Nat) : ∀ (s : List Char) (k : Nat), s.length ≤ n → flatten (lexK k s) = bsl k ++ s := by
  induction n with
  | zero =>
    intro s k h
    have : s = [] := List.eq_nil_of_length_eq_zero (by omega)
    subst this; rw [lexK_nil, flatten_replicate]; simp
  | succ n ih =>
    intro s k h
    cases s with
    | nil => rw [lexK_nil, flatten_replicate]; simp
    | cons c cs =>
      have hl : cs.length ≤ n := by simp at h; omega
      by_cases h1 : c = '\\'
      · subst h1
        rw [lexK_bs, ih cs (k + 1) hl]
        simp [bsl, List.replicate_succ']
      · by_cases h2 : c = '['
        · subst h2
          cases ht : tagBody cs with
          | none =>
            rw [lexK_open k ht, flatten_append, flatten_replicate, flatten_cons, ih cs 0 hl]
            simp [Lx.flat, bsl]
          | some p =>
            obtain ⟨b, r⟩ := p
            have e := (tagBody_spec ht).1
            have hr : r.length ≤ n := by rw [e] at hl; simp at hl; omega
            rw [lexK_tag k ht, flatten_cons, ih r 0 hr, e]
            simp [Lx.flat, bsl]
        · rw [lexK_plain k c cs h1 h2, flatten_append, flatten_replicate, flatten_cons, ih cs 0 hl]
          simp [Lx.flat, bsl]

end RichModel.Markup
