import RichModel.Model.Theme
/-!
Helper lemmas and specification-level definitions for the theme stack (property C20).
-/
namespace RichModel.Theme

variable {σ : Type}

/-! ## dicts -/

@[simp] theorem dget_nil (n : Name) : dget ([] : Dict σ) n = none := rfl

theorem dget_cons (k : Name) (v : σ) (r : Dict σ) (n : Name) :
    dget ((k, v) :: r) n = if k = n then some v else dget r n := rfl

theorem dget_dset (d : Dict σ) (k : Name) (v : σ) (n : Name) :
    dget (dset d k v) n = if k = n then some v else dget d n := by
  induction d with
  | nil => simp [dset, dget_cons]
  | cons p r ih =>
    obtain ⟨k', v'⟩ := p
    unfold dset
    by_cases h : k' = k
    · subst h
      simp only [if_true, dget_cons]
      by_cases h2 : k' = n <;> simp [h2]
    · simp only [h, if_false, dget_cons, ih]
      by_cases h2 : k' = n
      · subst h2
        have : ¬ k = k' := fun e => h e.symm
        simp [this]
      · simp [h2]

theorem dget_append (a b : Dict σ) (n : Name) :
    dget (a ++ b) n = (dget a n).or (dget b n) := by
  induction a with
  | nil => simp
  | cons p r ih =>
    obtain ⟨k, v⟩ := p
    simp only [List.cons_append, dget_cons, ih]
    by_cases h : k = n <;> simp [h]

theorem dget_eq_none_iff (d : Dict σ) (n : Name) : dget d n = none ↔ n ∉ keys d := by
  induction d with
  | nil => simp [keys]
  | cons p r ih =>
    obtain ⟨k, v⟩ := p
    simp only [dget_cons, keys, List.map_cons, List.mem_cons, not_or]
    by_cases h : k = n
    · subst h; simp
    · simp only [h, if_false]
      have : ¬ n = k := fun e => h e.symm
      simp only [this, not_false_eq_true, true_and]
      exact ih

/-- `dict.update`: the last binding of the argument wins, then the old dict. -/
theorem dget_dupdate_rev (d e : Dict σ) (n : Name) :
    dget (dupdate d e) n = (dget e.reverse n).or (dget d n) := by
  induction e generalizing d with
  | nil => simp [dupdate]
  | cons p r ih =>
    have h1 : dupdate d (p :: r) = dupdate (dset d p.1 p.2) r := rfl
    rw [h1, ih, dget_dset, List.reverse_cons, dget_append]
    obtain ⟨k, v⟩ := p
    simp only [dget_cons, dget_nil]
    cases dget r.reverse n with
    | some x => simp
    | none =>
      by_cases h : k = n <;> simp [h]

theorem dget_reverse (e : Dict σ) (h : WFD e) (n : Name) : dget e.reverse n = dget e n := by
  induction e with
  | nil => rfl
  | cons p r ih =>
    obtain ⟨k, v⟩ := p
    have hw : k ∉ keys r ∧ WFD r := by
      simpa [WFD, keys] using h
    rw [List.reverse_cons, dget_append, ih hw.2, dget_cons]
    by_cases hk : k = n
    · subst hk
      have : dget r k = none := (dget_eq_none_iff r k).2 hw.1
      simp [this, dget_cons]
    · simp only [dget_cons, hk, if_false, dget_nil]
      cases dget r n <;> simp

/-- `{**d, **e}[n]` is `e[n]` when `e` has `n`, else `d[n]`. -/
theorem dget_dupdate (d e : Dict σ) (h : WFD e) (n : Name) :
    dget (dupdate d e) n = (dget e n).or (dget d n) := by
  rw [dget_dupdate_rev, dget_reverse e h]

theorem keys_dset (d : Dict σ) (k : Name) (v : σ) :
    keys (dset d k v) = if k ∈ keys d then keys d else keys d ++ [k] := by
  induction d with
  | nil => simp [dset, keys]
  | cons p r ih =>
    obtain ⟨k', v'⟩ := p
    unfold dset
    by_cases h : k' = k
    · subst h; simp [keys]
    · have h' : ¬ k = k' := fun e => h e.symm
      simp only [h, if_false]
      have ih' : List.map Prod.fst (dset r k v) = if k ∈ List.map Prod.fst r then List.map Prod.fst r else List.map Prod.fst r ++ [k] := ih
      simp only [keys, List.map_cons, List.mem_cons, h', false_or, ih']
      by_cases hm : k ∈ List.map Prod.fst r <;> simp [hm]

theorem wfd_dset (d : Dict σ) (h : WFD d) (k : Name) (v : σ) : WFD (dset d k v) := by
  unfold WFD at *
  rw [keys_dset]
  by_cases hm : k ∈ keys d
  · simpa [hm] using h
  · simp only [hm, if_false]
    rw [List.nodup_append]
    refine ⟨h, by simp, ?_⟩
    intro a ha b hb
    simp only [List.mem_singleton] at hb
    subst hb
    intro e; subst e; exact hm ha

theorem wfd_dupdate (d e : Dict σ) (h : WFD d) : WFD (dupdate d e) := by
  induction e generalizing d with
  | nil => exact h
  | cons p r ih => exact ih _ (wfd_dset d h p.1 p.2)

theorem wfd_nil : WFD ([] : Dict σ) := by simp [WFD, keys]

/-! ## stack well-formedness: `get` is bound to the top entry -/

/-- `self.get` is `self._entries[-1].get` (hence `_entries` is non-empty). -/
def Stack.WF (st : Stack σ) : Prop := st.entries.getLast? = some st.bound

theorem Stack.WF.ne_nil {st : Stack σ} (h : st.WF) : st.entries ≠ [] := by
  intro e; simp [Stack.WF, e] at h

theorem init_wf (t : Theme σ) : (Stack.init t).WF := by simp [Stack.WF, Stack.init]

theorem pushTheme_eq (st : Stack σ) (h : st.WF) (t : Theme σ) (i : Bool) :
    pushTheme st t i =
      .ok ⟨st.entries ++ [if i then dupdate st.bound t.styles else t.styles],
           if i then dupdate st.bound t.styles else t.styles⟩ := by
  unfold pushTheme
  cases i with
  | true => simp [show st.entries.getLast? = some st.bound from h]
  | false => simp

theorem pushTheme_wf (st st' : Stack σ) (t : Theme σ) (i : Bool) (h : st.WF)
    (hp : pushTheme st t i = .ok st') : st'.WF := by
  rw [pushTheme_eq st h] at hp
  injection hp with hp
  subst hp
  simp [Stack.WF]

/-- `pop_push_id` on the stack: popping undoes the push exactly (entries and the bound lookup). -/
theorem popTheme_pushTheme (st st' : Stack σ) (t : Theme σ) (i : Bool) (h : st.WF)
    (hp : pushTheme st t i = .ok st') : popTheme st' = .ok st := by
  rw [pushTheme_eq st h] at hp
  injection hp with hp
  subst hp
  have hne := h.ne_nil
  unfold popTheme
  have hlen : ¬ (st.entries ++ [if i then dupdate st.bound t.styles else t.styles]).length = 1 := by
    have : 0 < st.entries.length := List.length_pos_iff.2 hne
    simp; omega
  have hg : st.entries.getLast? = some st.bound := h
  simp [hg, hne]

theorem popTheme_wf (st st' : Stack σ) (hp : popTheme st = .ok st') : st'.WF := by
  unfold popTheme at hp
  by_cases h1 : st.entries.length = 1
  · simp [h1] at hp
  · simp only [h1, if_false] at hp
    by_cases h2 : st.entries.isEmpty = true
    · simp [h2] at hp
    · simp only [h2] at hp
      cases hg : st.entries.dropLast.getLast? with
      | none => simp [hg] at hp
      | some top =>
        simp only [hg] at hp
        injection hp with hp
        subst hp
        exact hg

theorem popTheme_head (st st' : Stack σ) (hp : popTheme st = .ok st') :
    st'.entries.head? = st.entries.head? := by
  unfold popTheme at hp
  by_cases h1 : st.entries.length = 1
  · simp [h1] at hp
  · simp only [h1, if_false] at hp
    by_cases h2 : st.entries.isEmpty = true
    · simp [h2] at hp
    · simp only [h2] at hp
      cases hg : st.entries.dropLast.getLast? with
      | none => simp [hg] at hp
      | some top =>
        simp only [hg] at hp
        injection hp with hp
        subst hp
        simp only
        match hs : st.entries with
        | [] => simp [hs] at h2
        | [a] => simp [hs] at h1
        | a :: b :: r => simp [List.dropLast]

theorem popTheme_error_state (st : Stack σ) (e : Err) (_ : popTheme st = .error e) : True := trivial

theorem pushTheme_head (st st' : Stack σ) (t : Theme σ) (i : Bool) (h : st.WF)
    (hp : pushTheme st t i = .ok st') : st'.entries.head? = st.entries.head? := by
  rw [pushTheme_eq st h] at hp
  injection hp with hp
  subst hp
  have hne := h.ne_nil
  match hs : st.entries with
  | [] => exact absurd hs hne
  | a :: r => simp

theorem pushTheme_ok (st : Stack σ) (h : st.WF) (t : Theme σ) (i : Bool) :
    ∃ st', pushTheme st t i = .ok st' := ⟨_, pushTheme_eq st h t i⟩

/-! ## the specification: a list of frames (newest first) over a base dict -/

/-- One pushed theme together with the `inherit` flag of the push. -/
structure Frame (σ : Type) where
  styles : Dict σ
  inherit : Bool

/-- The statement of the property: the newest frame defining the name wins; an inheriting frame
that does not define it defers to the older ones; a non-inheriting frame hides them; below all
frames is the base theme. -/
def specLookup (base : Dict σ) : List (Frame σ) → Name → Option σ
  | [], n => dget base n
  | f :: older, n =>
    match dget f.styles n with
    | some s => some s
    | none => if f.inherit then specLookup base older n else none

/-- The dict on top of the concrete stack for a list of frames. -/
def topOf (base : Dict σ) : List (Frame σ) → Dict σ
  | [] => base
  | f :: older => if f.inherit then dupdate (topOf base older) f.styles else f.styles

def entriesOf (base : Dict σ) : List (Frame σ) → List (Dict σ)
  | [] => [base]
  | f :: older => entriesOf base older ++ [topOf base (f :: older)]

/-- The concrete `ThemeStack` that represents a list of frames over `base`. -/
def stackOf (base : Dict σ) (fs : List (Frame σ)) : Stack σ := ⟨entriesOf base fs, topOf base fs⟩

theorem entriesOf_getLast (base : Dict σ) (fs : List (Frame σ)) :
    (entriesOf base fs).getLast? = some (topOf base fs) := by
  cases fs <;> simp [entriesOf, topOf]

theorem entriesOf_length (base : Dict σ) (fs : List (Frame σ)) :
    (entriesOf base fs).length = fs.length + 1 := by
  induction fs with
  | nil => rfl
  | cons f r ih => simp [entriesOf, ih]

theorem entriesOf_head (base : Dict σ) (fs : List (Frame σ)) :
    (entriesOf base fs).head? = some base := by
  induction fs with
  | nil => rfl
  | cons f r ih =>
    simp only [entriesOf]
    match hs : entriesOf base r with
    | [] => simp [hs] at ih
    | a :: l => simpa [hs] using ih

theorem stackOf_wf (base : Dict σ) (fs : List (Frame σ)) : (stackOf base fs).WF :=
  entriesOf_getLast base fs

theorem init_eq_stackOf (t : Theme σ) : Stack.init t = stackOf t.styles [] := rfl

theorem pushTheme_stackOf (base : Dict σ) (fs : List (Frame σ)) (t : Theme σ) (i : Bool) :
    pushTheme (stackOf base fs) t i = .ok (stackOf base (⟨t.styles, i⟩ :: fs)) := by
  rw [pushTheme_eq _ (stackOf_wf base fs)]
  simp [stackOf, entriesOf, topOf]

theorem popTheme_stackOf_cons (base : Dict σ) (f : Frame σ) (fs : List (Frame σ)) :
    popTheme (stackOf base (f :: fs)) = .ok (stackOf base fs) := by
  have h := pushTheme_stackOf base fs ⟨f.styles⟩ f.inherit
  exact popTheme_pushTheme _ _ _ _ (stackOf_wf base fs) h

theorem popTheme_stackOf_nil (base : Dict σ) :
    popTheme (stackOf base []) = .error .themeStackError := by
  simp [popTheme, stackOf, entriesOf]

/-- The lookup bound on the concrete stack is the specification's lookup. -/
theorem dget_topOf (base : Dict σ) (fs : List (Frame σ)) (hwf : ∀ f ∈ fs, WFD f.styles) (n : Name) :
    dget (topOf base fs) n = specLookup base fs n := by
  induction fs with
  | nil => rfl
  | cons f r ih =>
    have hr : ∀ g ∈ r, WFD g.styles := fun g hg => hwf g (List.mem_cons_of_mem _ hg)
    have hf : WFD f.styles := hwf f List.mem_cons_self
    simp only [topOf, specLookup]
    cases hi : f.inherit with
    | true =>
      simp only [if_true]
      rw [dget_dupdate _ _ hf, ih hr]
      cases dget f.styles n <;> simp
    | false =>
      simp only [Bool.false_eq_true, if_false]
      cases dget f.styles n <;> simp

/-! ## histories on the specification -/

mutual
/-- The history semantics the property describes: push adds a frame, pop removes the newest one
(never the base), a `use_theme` block is a push, its body and a pop that always happens. -/
def specOp : Op σ → List (Frame σ) → List (Frame σ) × Outcome
  | .push t i, fs => (⟨t.styles, i⟩ :: fs, .normal)
  | .pop, fs =>
    match fs with
    | [] => ([], .raised .themeStackError)
    | _ :: older => (older, .normal)
  | .raise, fs => (fs, .raised .userError)
  | .use t i body, fs =>
    match specOps body (⟨t.styles, i⟩ :: fs) with
    | (fs2, out) =>
      match fs2 with
      | [] => ([], .raised .themeStackError)
      | _ :: older => (older, out)
def specOps : List (Op σ) → List (Frame σ) → List (Frame σ) × Outcome
  | [], fs => (fs, .normal)
  | op :: rest, fs =>
    match specOp op fs with
    | (fs', .normal) => specOps rest fs'
    | r => r
end

mutual
/-- Refinement: the repaired code (`ignoreInherit = false`) run on the stack representing `fs`
ends in the stack representing what the specification computes, with the same outcome. -/
theorem runOp_refines (base : Dict σ) : ∀ (op : Op σ) (fs : List (Frame σ)),
    runOp false op (stackOf base fs) = (stackOf base (specOp op fs).1, (specOp op fs).2)
  | .push t i, fs => by simp [runOp, specOp, pushTheme_stackOf]
  | .pop, fs => by
    cases fs with
    | nil => simp [runOp, specOp, popTheme_stackOf_nil]
    | cons f r => simp [runOp, specOp, popTheme_stackOf_cons]
  | .raise, fs => by simp [runOp, specOp]
  | .use t i body, fs => by
    have ih := runOps_refines base body (⟨t.styles, i⟩ :: fs)
    simp only [runOp, ctxEnter, Bool.false_eq_true, if_false, pushTheme_stackOf, ih, specOp, ctxExit]
    cases hs : (specOps body (⟨t.styles, i⟩ :: fs)).1 with
    | nil => simp [popTheme_stackOf_nil]
    | cons f r => simp [popTheme_stackOf_cons]
theorem runOps_refines (base : Dict σ) : ∀ (ops : List (Op σ)) (fs : List (Frame σ)),
    runOps false ops (stackOf base fs) = (stackOf base (specOps ops fs).1, (specOps ops fs).2)
  | [], fs => by simp [runOps, specOps]
  | op :: rest, fs => by
    have ih1 := runOp_refines base op fs
    simp only [runOps, specOps, ih1]
    cases ho : (specOp op fs).2 with
    | normal =>
      have : specOp op fs = ((specOp op fs).1, Outcome.normal) := by rw [← ho]
      rw [this]
      simp only
      exact runOps_refines base rest _
    | raised e =>
      have : specOp op fs = ((specOp op fs).1, Outcome.raised e) := by rw [← ho]
      rw [this]
end

end RichModel.Theme
