import RichModel.Model.TermStyle
/-! Replaying a stream and replaying its style-free normal form give the same screen (rows, cursor, visibility). -/
namespace RichModel.Screen
open RichModel

theorem writeAt_writeAt (col : Nat) (a b r : List Char) :
    writeAt (col + a.length) b (writeAt col a r) = writeAt col (a ++ b) r := by
  unfold writeAt
  have hA : ((r ++ List.replicate (col - r.length) ' ').take col).length = col := by
    simp [List.length_take]; omega
  generalize hAe : (r ++ List.replicate (col - r.length) ' ').take col = A at *
  have h1 : (A ++ a ++ List.drop (col + a.length) r).length ≥ col + a.length := by simp [hA]
  have h2 : col + a.length - (A ++ a ++ List.drop (col + a.length) r).length = 0 := by omega
  rw [h2]
  simp only [List.replicate_zero, List.append_nil]
  have h3 : (A ++ a ++ List.drop (col + a.length) r).take (col + a.length) = A ++ a := by
    rw [List.take_append_of_le_length (by simp [hA])]
    rw [List.take_of_length_le (by simp [hA])]
  have h4 : (A ++ a ++ List.drop (col + a.length) r).drop (col + a.length + b.length) = r.drop (col + (a ++ b).length) := by
    simp only [List.length_append, hA, List.drop_drop, List.drop_append, List.drop_of_length_le, Nat.le_add_right]
    rw [List.nil_append]; congr 1; omega
  rw [h3, h4]; simp [List.append_assoc]

/-- Two text runs in a row are one text run. -/
theorem step_text_text (H : Nat) (s : Screen) (a b : List Char) :
    step H (step H s (.text a)) (.text b) = step H s (.text (a ++ b)) := by
  simp only [step]
  by_cases h : s.row < s.rows.length
  · simp [List.getD_eq_getElem?_getD, h, writeAt_writeAt, Nat.add_assoc]
  · have : s.rows.length ≤ s.row := by omega
    simp [List.set_eq_of_length_le this, Nat.add_assoc]

theorem replay_consText (H : Nat) (s : Screen) (a : List Char) (r : List TermOp) :
    replay H s (consText a r) = replay H s (.text a :: r) := by
  cases r with
  | nil => rfl
  | cons o more => cases o <;> simp [consText, replay, step_text_text]

/-- **Styles are zero-width**: a stream and its style-free normal form leave the same screen — rows, cursor
position and cursor visibility — from every starting screen. -/
theorem replay_plainOps (H : Nat) (ops : List TermOp) : ∀ s : Screen,
    replay H s (plainOps ops) = replay H s ops := by
  induction ops with
  | nil => intro s; rfl
  | cons o rest ih =>
    intro s
    cases o with
    | text a => rw [plainOps, replay_consText]; simpa [replay] using ih _
    | sgr ps => simpa [plainOps, replay, step] using ih s
    | osc8 u => simpa [plainOps, replay, step] using ih s
    | lf => simpa [plainOps, replay] using ih _
    | cr => simpa [plainOps, replay] using ih _
    | cuu n => simpa [plainOps, replay] using ih _
    | el2 => simpa [plainOps, replay] using ih _
    | showCursor => simpa [plainOps, replay] using ih _
    | hideCursor => simpa [plainOps, replay] using ih _

/-- Two streams with the same style-free normal form leave the same screen. -/
theorem replay_eq_of_plainOps_eq (H : Nat) (s : Screen) (o1 o2 : List TermOp) (h : plainOps o1 = plainOps o2) :
    replay H s o1 = replay H s o2 := by
  rw [← replay_plainOps, h, replay_plainOps]

end RichModel.Screen
