import RichModel.Lemmas.StyleSpell
/-!
`color(n)` for every n < 256, checked by evaluation (`decide +kernel`) — kept in its own file
because the kernel evaluation takes ~15 s.
-/
namespace RichModel
open AsciiStr
namespace Style
variable {T : StrTables} [hT : T.Lawful]

theorem numbered_colors_wf_tbl :
    (List.range 256).all (fun n => asciiColorName (numberedColor n).name &&
      wfColorT StrTables.ascii StyleVariant.fixed (numberedColor n)) = true := by
  decide +kernel

theorem numbered_color_wf (v : StyleVariant) {n : Nat} (hn : n < 256) : wfColorT T v (numberedColor n) = true :=
  wfColor_of_ascii (List.all_eq_true.mp numbered_colors_wf_tbl n (List.mem_range.mpr hn))

end Style
end RichModel
