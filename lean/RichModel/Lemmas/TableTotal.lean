import RichModel.Lemmas.TableWidths
/-!
Totality of `Table._calculate_column_widths` once the two assertion defects are repaired
(`Flags.noColumnsAsserts = false`, `Flags.flexNegative = false`): for every table whose options are not
negative and whose cells measure `0 ≤ maximum` (what `Measurement.get` guarantees) — ANY number of columns,
zero included, any widths, ratios, caps, any available width — `calcWidths` returns widths; the
`assert total_ratio > 0` of `ratio_distribute` is never reached with a non-positive total.
-/
namespace RichModel

/-- Options no caller gives negative, and cells that measure `0 ≤ maximum`. -/
structure Table.Sane (t : Table) : Prop where
  padRight : 0 ≤ t.padding.2.1
  padLeft : 0 ≤ t.padding.2.2.2
  width : ∀ c ∈ t.columns, ∀ w, c.width = some w → 0 ≤ w
  maxWidth : ∀ c ∈ t.columns, ∀ m, c.maxWidth = some m → 0 ≤ m
  ratio : ∀ c ∈ t.columns, ∀ r, c.ratio = some r → 0 ≤ r
  cells : ∀ c ∈ t.columns, ∀ cell ∈ t.getCells c, ∀ w, 0 ≤ (cell.measure w).maximum

theorem paddingWidth_nonneg (t : Table) (h : t.Sane) (idx : Nat) : 0 ≤ t.paddingWidth idx := by
  have h1 := h.padRight
  have h2 := h.padLeft
  unfold Table.paddingWidth
  simp only
  split <;> omega

/-- A column of a sane table never measures a negative maximum. -/
theorem measureColumn_nonneg (t : Table) (h : t.Sane) (idx : Nat) (c : Column) (hc : c ∈ t.columns) (w : Int) :
    0 ≤ (t.measureColumn idx c w).maximum := by
  have hpw := paddingWidth_nonneg t h idx
  unfold Table.measureColumn
  split
  · simp
  · rename_i hw1
    cases hcw : c.width with
    | some cwid =>
      have := h.width c hc cwid hcw
      simp only [Measurement.withMaximum]
      omega
    | none =>
      simp only
      have hm0 : 0 ≤ (if ((t.getCells c).map (fun cell => cell.measure w.toNat)).isEmpty then w
          else listMax (((t.getCells c).map (fun cell => cell.measure w.toNat)).map (·.maximum))) := by
        split
        · omega
        · rename_i hne
          apply listMax_nonneg
          · intro h0
            simp only [List.map_eq_nil_iff] at h0
            simp [h0] at hne
          · intro x hx
            simp only [List.mem_map] at hx
            obtain ⟨m, ⟨cell, hcell, rfl⟩, rfl⟩ := hx
            exact h.cells c hc cell hcell _
      generalize (if ((t.getCells c).map (fun cell => cell.measure w.toNat)).isEmpty then w
          else listMax (((t.getCells c).map (fun cell => cell.measure w.toNat)).map (·.maximum))) = mx at hm0
      generalize (if ((t.getCells c).map (fun cell => cell.measure w.toNat)).isEmpty then (1 : Int)
          else listMax (((t.getCells c).map (fun cell => cell.measure w.toNat)).map (·.minimum))) = mn
      cases hmn : c.minWidth <;> cases hmx : c.maxWidth
      · simp only [Option.map_none, Measurement.clamp, Measurement.withMaximum]; omega
      · rename_i m
        have := h.maxWidth c hc m hmx
        simp only [Option.map_none, Option.map_some, Measurement.clamp, Measurement.withMaximum]; omega
      · simp only [Option.map_none, Option.map_some, Measurement.clamp, Measurement.withMaximum, Measurement.withMinimum]; omega
      · rename_i k m
        have := h.maxWidth c hc m hmx
        simp only [Option.map_some, Measurement.clamp, Measurement.withMaximum, Measurement.withMinimum]; omega

theorem orOne_pos (x : Int) (h : 0 ≤ x) : 1 ≤ orOne x := (orOne_bounds x 0 h).1

/-- After the re-measure every width is at least 1 (`maximum or 1` of a non-negative maximum). -/
theorem remeasure_ge_one (t : Table) (h : t.Sane) (ws : List Int) : ∀ w ∈ t.remeasure ws, 1 ≤ w := by
  intro w hw
  simp only [Table.remeasure, List.mem_map] at hw
  obtain ⟨wc, hwc, rfl⟩ := hw
  have hm := List.of_mem_zip hwc
  exact orOne_pos _ (measureColumn_nonneg t h wc.2.2 wc.2.1 (mem_indexed t wc.2 hm.2) wc.1)

theorem remeasure_length (t : Table) (ws : List Int) (hl : ws.length = t.columns.length) :
    (t.remeasure ws).length = t.columns.length := by
  simp [Table.remeasure, indexed_length, hl]

/-! ### ratio_distribute with minimums -/

theorem mask_nonzero : ∀ (l m : List Int), l.length = m.length → (∀ x ∈ m, x ≠ 0) →
    ((l.zip m).map (fun p => if p.2 != 0 then p.1 else 0)) = l
  | [], _, _, _ => by simp
  | _ :: _, [], h, _ => by simp at h
  | a :: l, b :: m, h, hm => by
    have hb := hm b (by simp)
    simp only [List.zip_cons_cons, List.map_cons, mask_nonzero l m (by simpa using h) (fun x hx => hm x (List.mem_cons_of_mem _ hx))]
    simp [hb]

theorem sum_pos_of_nonneg_any (l : List Int) (hnn : ∀ r ∈ l, 0 ≤ r) (hany : l.any (· != 0) = true) : 0 < l.sum := by
  have h0 := sum_nonneg_of_all _ hnn
  rcases Int.lt_or_eq_of_le h0 with hlt | heq
  · exact hlt
  · exfalso
    have hz0 := all_zero_of_sum_zero' _ hnn heq.symm
    simp only [List.any_eq_true] at hany
    obtain ⟨x, hx, hxne⟩ := hany
    have := hz0 x hx
    simp [this] at hxne

/-- `ratio_distribute(total, ratios, minimums)` with non-negative ratios, one of them positive, and minimums of
at least 1: never asserts, one share per ratio, and the FIRST share is at least its minimum (≥ 1). -/
theorem ratioDistribute_mins (total : Int) (ratios mins : List Int) (hlen : ratios.length = mins.length)
    (hnn : ∀ r ∈ ratios, 0 ≤ r) (hany : ratios.any (· != 0) = true) (hm : ∀ m ∈ mins, 1 ≤ m) :
    ∃ x rest, ratioDistribute total ratios (some mins) = some (x :: rest) ∧ (x :: rest).length = ratios.length ∧ 1 ≤ x := by
  have hsum := sum_pos_of_nonneg_any ratios hnn hany
  cases hr : ratios with
  | nil => rw [hr] at hany; simp at hany
  | cons r0 rs =>
    cases hmm : mins with
    | nil => rw [hr, hmm] at hlen; simp at hlen
    | cons m0 ms =>
      have hmask : ((ratios.zip mins).map (fun (p : Int × Int) => if p.2 != 0 then p.1 else 0)) = ratios :=
        mask_nonzero ratios mins hlen (fun x hx => by have := hm x hx; omega)
      unfold ratioDistribute
      rw [← hr, ← hmm]
      have hne : mins.isEmpty = false := by rw [hmm]; rfl
      simp only [hne, Bool.false_eq_true, if_false, hmask, hsum, if_true]
      rw [hr, hmm]
      simp only [List.zip_cons_cons]
      unfold ratioDistributeLoop
      rw [← hr]
      simp only [hsum, if_true]
      refine ⟨_, _, rfl, ?_, ?_⟩
      · rw [hr, hmm] at hlen
        rw [hr]
        simp only [List.length_cons, rdLoop_length, List.length_zip] at hlen ⊢
        omega
      · have := hm m0 (by rw [hmm]; simp)
        omega

/-! ### merging the flexible widths back -/

theorem mergeFlex_total : ∀ (l : List (Column × Int × Int)) (flex : List Int),
    (∀ e ∈ l, 0 ≤ e.2.1 ∧ 0 ≤ e.2.2) → (∀ f ∈ flex, 0 ≤ f) → (l.filter (fun e => e.1.flexible)).length ≤ flex.length →
    ∃ r, mergeFlex l flex = some r ∧ r.length = l.length ∧ ∀ x ∈ r, 0 ≤ x
  | [], _, _, _, _ => ⟨[], rfl, rfl, by simp⟩
  | (c, w, fixed) :: rest, flex, hl, hf, hcnt => by
    have hrest : ∀ e ∈ rest, 0 ≤ e.2.1 ∧ 0 ≤ e.2.2 := fun e he => hl e (List.mem_cons_of_mem _ he)
    have h0 := hl (c, w, fixed) (by simp)
    simp only at h0
    unfold mergeFlex
    by_cases hc : c.flexible = true
    · simp only [hc, if_true]
      cases flex with
      | nil => simp [List.filter_cons, hc] at hcnt
      | cons f flex' =>
        simp only [List.filter_cons, hc, if_true, List.length_cons] at hcnt
        obtain ⟨r, h1, h2, h3⟩ := mergeFlex_total rest flex' hrest (fun x hx => hf x (List.mem_cons_of_mem _ hx)) (by omega)
        refine ⟨(fixed + f) :: r, by simp [h1], by simp [h2], ?_⟩
        intro x hx
        rcases List.mem_cons.mp hx with rfl | hx
        · have := hf f (by simp); omega
        · exact h3 x hx
    · simp only [hc, Bool.false_eq_true, if_false]
      simp only [List.filter_cons, hc, Bool.false_eq_true, if_false] at hcnt
      obtain ⟨r, h1, h2, h3⟩ := mergeFlex_total rest flex hrest hf hcnt
      refine ⟨w :: r, by simp [h1], by simp [h2], ?_⟩
      intro x hx
      rcases List.mem_cons.mp hx with rfl | hx
      · omega
      · exact h3 x hx

/-- The first merged width is at least 1: a fixed column's `maximum or 1`, or the first flexible share. -/
theorem mergeFlex_head (c : Column) (w fixed : Int) (rest : List (Column × Int × Int)) (flex r : List Int)
    (hw : 1 ≤ w) (hfx : 0 ≤ fixed) (hflex : ∀ f fs, flex = f :: fs → 1 ≤ f)
    (h : mergeFlex ((c, w, fixed) :: rest) flex = some r) : ∃ x r', r = x :: r' ∧ 1 ≤ x := by
  unfold mergeFlex at h
  by_cases hc : c.flexible = true
  · simp only [hc, if_true] at h
    cases flex with
    | nil => simp at h
    | cons f fs =>
      simp only [Option.map_eq_some_iff] at h
      obtain ⟨r', _, rfl⟩ := h
      have := hflex f fs rfl
      exact ⟨_, r', rfl, by omega⟩
  · simp only [hc, Bool.false_eq_true, if_false, Option.map_eq_some_iff] at h
    obtain ⟨r', _, rfl⟩ := h
    exact ⟨_, r', rfl, hw⟩

theorem filter_zip_fst_length {β : Type} (p : Column → Bool) : ∀ (l : List Column) (X : List β), l.length ≤ X.length →
    ((l.zip X).filter (fun e => p e.1)).length = (l.filter p).length
  | [], _, _ => by simp
  | _ :: _, [], h => by simp at h
  | a :: l, b :: X, h => by
    have ih := filter_zip_fst_length p l X (by simpa using h)
    simp only [List.zip_cons_cons, List.filter_cons]
    split <;> simp [ih]

theorem filter_zipIdx_length (p : Column → Bool) : ∀ (l : List Column) (k : Nat),
    ((l.zipIdx k).filter (fun e => p e.1)).length = (l.filter p).length
  | [], _ => by simp
  | a :: l, k => by
    have ih := filter_zipIdx_length p l (k + 1)
    simp only [List.zipIdx_cons, List.filter_cons]
    split <;> simp [ih]

theorem sum_pos_of_head (x : Int) (r : List Int) (hx : 1 ≤ x) (hr : ∀ y ∈ r, 0 ≤ y) : 0 < (x :: r).sum := by
  have := sum_nonneg_of_all r hr
  simp only [List.sum_cons]; omega

/-! ### the first pass -/

/-- The first pass of a sane table with at least one column (flexible widths clamped): it never asserts, gives
one width per column, none negative, and a positive total. -/
theorem firstWidths_total (fl : Flags) (hfl : fl.flexNegative = false) (t : Table) (h : t.Sane) (hne : t.columns ≠ [])
    (maxWidth : Int) :
    ∃ ws, t.firstWidths fl maxWidth = some ws ∧ ws.length = t.columns.length ∧ (∀ w ∈ ws, 0 ≤ w) ∧ 0 < ws.sum := by
  unfold Table.firstWidths
  simp only
  have hRnn : ∀ r ∈ t.indexed.map (fun ci => t.measureColumn ci.2 ci.1 maxWidth), 0 ≤ r.maximum := by
    intro r hr
    simp only [List.mem_map] at hr
    obtain ⟨ci, hci, rfl⟩ := hr
    exact measureColumn_nonneg t h ci.2 ci.1 (mem_indexed t ci hci) maxWidth
  have hRlen : (t.indexed.map (fun ci => t.measureColumn ci.2 ci.1 maxWidth)).length = t.columns.length := by
    simp [indexed_length]
  generalize t.indexed.map (fun ci => t.measureColumn ci.2 ci.1 maxWidth) = ranges at hRnn hRlen ⊢
  have hW1 : ∀ w ∈ ranges.map (fun r => orOne r.maximum), 1 ≤ w := by
    intro w hw
    simp only [List.mem_map] at hw
    obtain ⟨r, hr, rfl⟩ := hw
    exact orOne_pos _ (hRnn r hr)
  have hplain : ∃ ws, some (ranges.map (fun r => orOne r.maximum)) = some ws ∧
      ws.length = t.columns.length ∧ (∀ w ∈ ws, 0 ≤ w) ∧ 0 < ws.sum := by
    refine ⟨_, rfl, by simp [hRlen], fun w hw => by have := hW1 w hw; omega, ?_⟩
    apply sum_pos_of_all_pos _ _ hW1
    intro h0
    have := congrArg List.length h0
    simp [hRlen] at this
    exact hne this
  split
  · split
    · rename_i hexp hany
      generalize hflexdef : t.indexed.filter (fun ci => ci.1.flexible) = flex at *
      have hratnn : ∀ r ∈ flex.map (fun ci => ci.1.ratio.getD 0), 0 ≤ r := by
        intro r hr
        simp only [List.mem_map] at hr
        obtain ⟨ci, hci, rfl⟩ := hr
        have hci' : ci ∈ t.indexed := by rw [← hflexdef] at hci; exact (List.mem_filter.1 hci).1
        cases hrr : ci.1.ratio with
        | none => simp
        | some r => simpa using h.ratio ci.1 (mem_indexed t ci hci') r hrr
      have hmins : ∀ m ∈ flex.map (fun ci => orOne (ci.1.width.getD 0) + t.paddingWidth ci.2), 1 ≤ m := by
        intro m hm
        simp only [List.mem_map] at hm
        obtain ⟨ci, hci, rfl⟩ := hm
        have hci' : ci ∈ t.indexed := by rw [← hflexdef] at hci; exact (List.mem_filter.1 hci).1
        have hpw := paddingWidth_nonneg t h ci.2
        have : 0 ≤ ci.1.width.getD 0 := by
          cases hww : ci.1.width with
          | none => simp
          | some w => simpa using h.width ci.1 (mem_indexed t ci hci') w hww
        have := orOne_pos _ this
        omega
      have hFnn : ∀ f ∈ (ranges.zip t.indexed).map (fun rc => if rc.2.1.flexible then 0 else
          if fl.fixedRawMaximum then rc.1.maximum else orOne rc.1.maximum), 0 ≤ f := by
        intro f hf
        simp only [List.mem_map] at hf
        obtain ⟨rc, hrc, rfl⟩ := hf
        have hnn := hRnn rc.1 (List.of_mem_zip hrc).1
        split
        · omega
        · split
          · exact hnn
          · have := orOne_pos _ hnn; omega
      have hFlen : ((ranges.zip t.indexed).map (fun rc => if rc.2.1.flexible then (0 : Int) else
          if fl.fixedRawMaximum then rc.1.maximum else orOne rc.1.maximum)).length = t.columns.length := by
        simp [hRlen, indexed_length]
      generalize (ranges.zip t.indexed).map (fun rc => if rc.2.1.flexible then (0 : Int) else
          if fl.fixedRawMaximum then rc.1.maximum else orOne rc.1.maximum) = fixed at hFnn hFlen ⊢
      obtain ⟨x, rest, hrd, hrdl, hx1⟩ := ratioDistribute_mins (maxWidth - fixed.sum)
        (flex.map (fun ci => ci.1.ratio.getD 0)) (flex.map (fun ci => orOne (ci.1.width.getD 0) + t.paddingWidth ci.2))
        (by simp) hratnn hany hmins
      have hLlen : (t.columns.zip ((ranges.map (fun r => orOne r.maximum)).zip fixed)).length = t.columns.length := by
        simp [hRlen, hFlen]
      have hLe : ∀ e ∈ t.columns.zip ((ranges.map (fun r => orOne r.maximum)).zip fixed), 1 ≤ e.2.1 ∧ 0 ≤ e.2.2 := by
        intro e he
        have h2 := (List.of_mem_zip he).2
        exact ⟨hW1 _ (List.of_mem_zip h2).1, hFnn _ (List.of_mem_zip h2).2⟩
      have hcnt : ((t.columns.zip ((ranges.map (fun r => orOne r.maximum)).zip fixed)).filter (fun e => e.1.flexible)).length
          ≤ (x :: rest).length := by
        rw [filter_zip_fst_length (fun c => c.flexible) t.columns _ (by simp [hRlen, hFlen])]
        have : (flex.map (fun ci => ci.1.ratio.getD 0)).length = (t.columns.filter (fun c => c.flexible)).length := by
          rw [List.length_map, ← hflexdef]
          unfold Table.indexed
          exact filter_zipIdx_length (fun c => c.flexible) t.columns 0
        rw [hrdl, this]
        exact Nat.le_refl _
      generalize t.columns.zip ((ranges.map (fun r => orOne r.maximum)).zip fixed) = L at hLlen hLe hcnt ⊢
      -- whatever clamp is applied: same length, nothing negative, the first share still at least 1
      have tail : ∀ (cl : List Int), cl.length = (x :: rest).length → (∀ f ∈ cl, 0 ≤ f) → (∀ f fs, cl = f :: fs → 1 ≤ f) →
          ∃ ws, mergeFlex L cl = some ws ∧ ws.length = t.columns.length ∧ (∀ w ∈ ws, 0 ≤ w) ∧ 0 < ws.sum := by
        intro cl hcll hclnn hclh
        obtain ⟨r, hr1, hr2, hr3⟩ := mergeFlex_total L cl (fun e he => by have := hLe e he; exact ⟨by omega, this.2⟩) hclnn (by omega)
        refine ⟨r, hr1, by omega, hr3, ?_⟩
        cases hL : L with
        | nil => rw [hL] at hLlen; simp at hLlen; exact absurd (List.eq_nil_of_length_eq_zero hLlen.symm) hne
        | cons e L' =>
          obtain ⟨c, w, fixed0⟩ := e
          have he := hLe (c, w, fixed0) (by rw [hL]; simp)
          rw [hL] at hr1
          obtain ⟨y, r', hry, hy1⟩ := mergeFlex_head c w fixed0 L' cl r he.1 he.2 hclh hr1
          rw [hry] at hr3 ⊢
          exact sum_pos_of_head y r' hy1 (fun z hz => hr3 z (List.mem_cons_of_mem _ hz))
      simp only [hrd, hfl, Bool.false_eq_true, if_false]
      by_cases hcz : fl.flexClampZero = true
      · simp only [hcz, if_true]
        apply tail
        · simp
        · intro f hf; simp only [List.mem_map] at hf; obtain ⟨y, _, rfl⟩ := hf; omega
        · intro f fs hf
          simp only [List.map_cons] at hf
          injection hf with hf1 _
          omega
      · simp only [hcz, Bool.false_eq_true, if_false]
        cases hfm : flex.map (fun ci => orOne (ci.1.width.getD 0) + t.paddingWidth ci.2) with
        | nil =>
          have : (flex.map (fun ci => ci.1.ratio.getD 0)).length = 0 := by
            have := congrArg List.length hfm
            simpa using this
          rw [← hrdl] at this
          simp at this
        | cons m0 ms =>
          have hm0 := hmins m0 (by rw [hfm]; simp)
          have hmsl : ms.length = rest.length := by
            have h1 := congrArg List.length hfm
            simp only [List.length_map, List.length_cons] at h1 hrdl
            omega
          apply tail
          · simp [hmsl]
          · intro f hf
            simp only [List.mem_map] at hf
            obtain ⟨p, hp, rfl⟩ := hf
            have := hmins p.1 (by rw [hfm]; exact (List.of_mem_zip hp).1)
            omega
          · intro f fs hf
            simp only [List.zip_cons_cons, List.map_cons] at hf
            injection hf with hf1 _
            omega
    · exact hplain
  · exact hplain

theorem mergeFlex_pos : ∀ (l : List (Column × Int × Int)) (flex : List Int),
    (∀ e ∈ l, 1 ≤ e.2.1 ∧ 0 ≤ e.2.2) → (∀ f ∈ flex, 1 ≤ f) → (l.filter (fun e => e.1.flexible)).length ≤ flex.length →
    ∃ r, mergeFlex l flex = some r ∧ r.length = l.length ∧ ∀ x ∈ r, 1 ≤ x
  | [], _, _, _, _ => ⟨[], rfl, rfl, by simp⟩
  | (c, w, fixed) :: rest, flex, hl, hf, hcnt => by
    have hrest : ∀ e ∈ rest, 1 ≤ e.2.1 ∧ 0 ≤ e.2.2 := fun e he => hl e (List.mem_cons_of_mem _ he)
    have h0 := hl (c, w, fixed) (by simp)
    simp only at h0
    unfold mergeFlex
    by_cases hc : c.flexible = true
    · simp only [hc, if_true]
      cases flex with
      | nil => simp [hc] at hcnt
      | cons f flex' =>
        simp only [List.filter_cons, hc, if_true, List.length_cons] at hcnt
        obtain ⟨r, h1, h2, h3⟩ := mergeFlex_pos rest flex' hrest (fun x hx => hf x (List.mem_cons_of_mem _ hx)) (by omega)
        refine ⟨(fixed + f) :: r, by simp [h1], by simp [h2], ?_⟩
        intro x hx
        rcases List.mem_cons.mp hx with rfl | hx
        · have := hf f (by simp); omega
        · exact h3 x hx
    · simp only [hc, Bool.false_eq_true, if_false]
      simp only [List.filter_cons, hc, Bool.false_eq_true, if_false] at hcnt
      obtain ⟨r, h1, h2, h3⟩ := mergeFlex_pos rest flex hrest hf hcnt
      refine ⟨w :: r, by simp [h1], by simp [h2], ?_⟩
      intro x hx
      rcases List.mem_cons.mp hx with rfl | hx
      · omega
      · exact h3 x hx

/-- With the flexible widths kept at their minimums (`flexNegative`, `flexClampZero` repaired) the first pass gives EVERY
column at least one cell — ratio columns of any non-negative ratio, zero included. -/
theorem firstWidths_ge_one (fl : Flags) (h2 : fl.flexNegative = false) (h3 : fl.flexClampZero = false) (t : Table) (maxWidth : Int)
    (hmeas : ∀ ci ∈ t.indexed, 0 ≤ (t.measureColumn ci.2 ci.1 maxWidth).maximum)
    (hpad : ∀ i, 0 ≤ t.paddingWidth i) (hwid : ∀ c ∈ t.columns, 0 ≤ c.width.getD 0) (hrat : ∀ c ∈ t.columns, 0 ≤ c.ratio.getD 0) :
    ∃ ws, t.firstWidths fl maxWidth = some ws ∧ ws.length = t.columns.length ∧ ∀ w ∈ ws, 1 ≤ w := by
  unfold Table.firstWidths
  simp only
  have hRnn : ∀ r ∈ t.indexed.map (fun ci => t.measureColumn ci.2 ci.1 maxWidth), 0 ≤ r.maximum := by
    intro r hr
    simp only [List.mem_map] at hr
    obtain ⟨ci, hci, rfl⟩ := hr
    exact hmeas ci hci
  have hRlen : (t.indexed.map (fun ci => t.measureColumn ci.2 ci.1 maxWidth)).length = t.columns.length := by
    simp [indexed_length]
  generalize t.indexed.map (fun ci => t.measureColumn ci.2 ci.1 maxWidth) = ranges at hRnn hRlen ⊢
  have hW1 : ∀ w ∈ ranges.map (fun r => orOne r.maximum), 1 ≤ w := by
    intro w hw
    simp only [List.mem_map] at hw
    obtain ⟨r, hr, rfl⟩ := hw
    exact orOne_pos _ (hRnn r hr)
  have hplain : ∃ ws, some (ranges.map (fun r => orOne r.maximum)) = some ws ∧ ws.length = t.columns.length ∧ ∀ w ∈ ws, 1 ≤ w :=
    ⟨_, rfl, by simp [hRlen], hW1⟩
  split
  · split
    · rename_i hexp hany
      generalize hflexdef : t.indexed.filter (fun ci => ci.1.flexible) = flex at *
      have hratnn : ∀ r ∈ flex.map (fun ci => ci.1.ratio.getD 0), 0 ≤ r := by
        intro r hr
        simp only [List.mem_map] at hr
        obtain ⟨ci, hci, rfl⟩ := hr
        have hci' : ci ∈ t.indexed := by rw [← hflexdef] at hci; exact (List.mem_filter.1 hci).1
        exact hrat ci.1 (mem_indexed t ci hci')
      have hmins : ∀ m ∈ flex.map (fun ci => orOne (ci.1.width.getD 0) + t.paddingWidth ci.2), 1 ≤ m := by
        intro m hm
        simp only [List.mem_map] at hm
        obtain ⟨ci, hci, rfl⟩ := hm
        have hci' : ci ∈ t.indexed := by rw [← hflexdef] at hci; exact (List.mem_filter.1 hci).1
        have := hpad ci.2
        have := orOne_pos _ (hwid ci.1 (mem_indexed t ci hci'))
        omega
      have hFnn : ∀ f ∈ (ranges.zip t.indexed).map (fun rc => if rc.2.1.flexible then 0 else
          if fl.fixedRawMaximum then rc.1.maximum else orOne rc.1.maximum), 0 ≤ f := by
        intro f hf
        simp only [List.mem_map] at hf
        obtain ⟨rc, hrc, rfl⟩ := hf
        have hnn := hRnn rc.1 (List.of_mem_zip hrc).1
        split
        · omega
        · split
          · exact hnn
          · have := orOne_pos _ hnn; omega
      have hFlen : ((ranges.zip t.indexed).map (fun rc => if rc.2.1.flexible then (0 : Int) else
          if fl.fixedRawMaximum then rc.1.maximum else orOne rc.1.maximum)).length = t.columns.length := by
        simp [hRlen, indexed_length]
      generalize (ranges.zip t.indexed).map (fun rc => if rc.2.1.flexible then (0 : Int) else
          if fl.fixedRawMaximum then rc.1.maximum else orOne rc.1.maximum) = fixed at hFnn hFlen ⊢
      obtain ⟨x, rest, hrd, hrdl, hx1⟩ := ratioDistribute_mins (maxWidth - fixed.sum)
        (flex.map (fun ci => ci.1.ratio.getD 0)) (flex.map (fun ci => orOne (ci.1.width.getD 0) + t.paddingWidth ci.2))
        (by simp) hratnn hany hmins
      have hLlen : (t.columns.zip ((ranges.map (fun r => orOne r.maximum)).zip fixed)).length = t.columns.length := by
        simp [hRlen, hFlen]
      have hLe : ∀ e ∈ t.columns.zip ((ranges.map (fun r => orOne r.maximum)).zip fixed), 1 ≤ e.2.1 ∧ 0 ≤ e.2.2 := by
        intro e he
        have h2 := (List.of_mem_zip he).2
        exact ⟨hW1 _ (List.of_mem_zip h2).1, hFnn _ (List.of_mem_zip h2).2⟩
      have hcnt : ((t.columns.zip ((ranges.map (fun r => orOne r.maximum)).zip fixed)).filter (fun e => e.1.flexible)).length
          ≤ (x :: rest).length := by
        rw [filter_zip_fst_length (fun c => c.flexible) t.columns _ (by simp [hRlen, hFlen])]
        have : (flex.map (fun ci => ci.1.ratio.getD 0)).length = (t.columns.filter (fun c => c.flexible)).length := by
          rw [List.length_map, ← hflexdef]
          unfold Table.indexed
          exact filter_zipIdx_length (fun c => c.flexible) t.columns 0
        rw [hrdl, this]
        exact Nat.le_refl _
      generalize t.columns.zip ((ranges.map (fun r => orOne r.maximum)).zip fixed) = L at hLlen hLe hcnt ⊢
      simp only [hrd, h2, h3, Bool.false_eq_true, if_false]
      have hzl : ((flex.map (fun ci => orOne (ci.1.width.getD 0) + t.paddingWidth ci.2)).zip (x :: rest)).length = (x :: rest).length := by
        have := hrdl
        simp only [List.length_zip, List.length_map, List.length_cons] at this ⊢
        omega
      obtain ⟨r, hr1, hr2, hr3⟩ := mergeFlex_pos L
        (((flex.map (fun ci => orOne (ci.1.width.getD 0) + t.paddingWidth ci.2)).zip (x :: rest)).map (fun mw => max mw.1 mw.2)) hLe (by
        intro f hf
        simp only [List.mem_map] at hf
        obtain ⟨p, hp, rfl⟩ := hf
        have := hmins p.1 (List.of_mem_zip hp).1
        omega) (by rw [List.length_map, hzl]; exact hcnt)
      exact ⟨r, hr1, by omega, hr3⟩
    · exact hplain
  · exact hplain

/-! ### collapse + last resort keep one width per column -/

theorem rrLoop_length : ∀ (items : List (Int × Int × Int)) (rem tr : Int), (ratioReduceLoop items rem tr).length = items.length
  | [], _, _ => rfl
  | (ratio, maximum, value) :: rest, rem, tr => by
    unfold ratioReduceLoop
    split <;> simp [rrLoop_length rest]

theorem ratioReduce_length (total : Int) (ratios maxs values : List Int) (h1 : ratios.length = values.length)
    (h2 : maxs.length = values.length) : (ratioReduce total ratios maxs values).length = values.length := by
  unfold ratioReduce
  simp only
  split
  · rfl
  · simp [rrLoop_length, h1, h2]

theorem shrinkPre_length (t : Table) (ws0 : List Int) (maxWidth : Int) (hl : ws0.length = t.columns.length)
    (hnn : ∀ w ∈ ws0, 0 ≤ w) : (t.shrinkPre ws0 maxWidth).1.length = t.columns.length := by
  have hwl : ws0.length = t.wrapable.length := by simp [Table.wrapable, hl]
  have hpost := collapseWidths_post ws0 t.wrapable maxWidth hwl hnn
  simp only at hpost
  unfold Table.shrinkPre
  simp only
  split
  · simp only
    rw [ratioReduce_length _ _ _ _ (by simp) rfl]
    omega
  · simp only; omega

/-! ### the whole of `_calculate_column_widths` -/

theorem padWidths_some (fl : Flags) (t : Table) (ws : List Int) (tableWidth maxWidth : Int) (hsum : 0 < ws.sum) :
    ∃ r, t.padWidths fl ws tableWidth maxWidth = some r := by
  unfold Table.padWidths
  split
  · unfold ratioDistribute
    simp only [hsum, if_true]
    exact ⟨_, rfl⟩
  · exact ⟨_, rfl⟩

/-- **Totality.**  With the two assertion defects repaired, `_calculate_column_widths` returns widths for EVERY sane
table — zero columns included — at every `max_width` (negative, zero, tiny, huge), whatever the other flags. -/
theorem calcWidths_total (fl : Flags) (h1 : fl.noColumnsAsserts = false) (h2 : fl.flexNegative = false)
    (t : Table) (h : t.Sane) (maxWidth : Int) : ∃ ws, t.calcWidths fl maxWidth = some ws := by
  by_cases hne : t.columns = []
  · unfold Table.calcWidths
    simp [h1, hne]
  · rw [calcWidths_ne fl t maxWidth hne]
    obtain ⟨ws0, h0, hl, hnn, hsum⟩ := firstWidths_total fl h2 t h hne maxWidth
    rw [h0]
    simp only
    split
    · apply padWidths_some
      unfold Table.shrinkWidths
      simp only
      have hpl := shrinkPre_length t ws0 maxWidth hl hnn
      apply sum_pos_of_all_pos
      · intro h0'
        have := remeasure_length t _ hpl
        rw [h0'] at this
        simp at this
        exact hne (List.eq_nil_of_length_eq_zero this.symm)
      · exact remeasure_ge_one t h _
    · exact padWidths_some fl t ws0 ws0.sum maxWidth hsum

end RichModel
