import RichModel.Model.Segment
import RichModel.Lemmas.Cells
/-! Helper lemmas for `Model/Segment`. -/
namespace RichModel
variable {σ : Type}

@[simp] theorem stream_nil : stream ([] : List (Segment σ)) = [] := rfl
@[simp] theorem stream_cons (s : Segment σ) (l : List (Segment σ)) :
    stream (s :: l) = s.text.map (fun c => (c, s.style, s.control)) ++ stream l := by
  simp [stream]
@[simp] theorem stream_append (a b : List (Segment σ)) : stream (a ++ b) = stream a ++ stream b := by
  simp [stream]

@[simp] theorem lineLength_nil (cw : Char → Nat) : lineLength cw ([] : List (Segment σ)) = 0 := rfl
@[simp] theorem lineLength_cons (cw : Char → Nat) (s : Segment σ) (l : List (Segment σ)) :
    lineLength cw (s :: l) = s.cellLength cw + lineLength cw l := by
  simp [lineLength]
@[simp] theorem lineLength_append (cw : Char → Nat) (a b : List (Segment σ)) :
    lineLength cw (a ++ b) = lineLength cw a + lineLength cw b := by
  simp [lineLength, List.sum_append]

/-! ### adjust_line_length -/

theorem cropLoop_exact (cw : Char → Nat) (hsp : cw ' ' = 1) (h2 : ∀ c, cw c ≤ 2) (length : Nat) :
    ∀ (line : List (Segment σ)) (acc : Nat), acc ≤ length → acc + lineLength cw line > length →
      acc + lineLength cw (cropLoop cw length line acc) = length
  | [], acc, h1, h2' => by simp at h2'; omega
  | seg :: rest, acc, h1, hgt => by
      unfold cropLoop
      simp only
      by_cases hc : (decide (acc + seg.cellLength cw < length) || seg.control) = true
      · simp only [hc, if_true, lineLength_cons]
        have hacc : acc + seg.cellLength cw ≤ length := by
          simp only [Bool.or_eq_true, decide_eq_true_eq] at hc
          rcases hc with hc | hc
          · omega
          · simp [Segment.cellLength, hc]; exact h1
        have := cropLoop_exact cw hsp h2 length rest (acc + seg.cellLength cw) hacc
          (by simp only [lineLength_cons] at hgt; omega)
        omega
      · rw [if_neg hc]
        simp only [lineLength_cons, lineLength_nil, Segment.cellLength, Bool.false_eq_true, if_false]
        rw [(setCellSize_exact cw hsp h2 seg.text (length - acc)).1]
        omega

/-- `adjust_line_length` yields a line of exactly `length` cells whenever it pads, or whenever the
line was at least that long. -/
theorem adjust_exact (cw : Char → Nat) (hsp : cw ' ' = 1) (h2 : ∀ c, cw c ≤ 2)
    (line : List (Segment σ)) (length : Nat) (st : Option σ) (pad : Bool)
    (h : pad = true ∨ length ≤ lineLength cw line) :
    lineLength cw (adjustLineLength cw line length st pad) = length := by
  unfold adjustLineLength
  simp only
  by_cases hlt : lineLength cw line < length
  · simp only [hlt, if_true]
    rcases h with h | h
    · subst h
      simp only [if_true, lineLength_append, lineLength_cons, lineLength_nil, Segment.cellLength,
        Bool.false_eq_true, if_false, cellLen_replicate, hsp]
      omega
    · omega
  · simp only [hlt, if_false]
    by_cases hgt : lineLength cw line > length
    · simp only [hgt, if_true]
      have := cropLoop_exact cw hsp h2 length line 0 (Nat.zero_le _) (by omega)
      omega
    · simp only [hgt, if_false]; omega

/-- Padding: the characters, styles and control flags of the line are unchanged and the padding is
`length - len` spaces carrying exactly the requested style. -/
theorem adjust_pad_stream (cw : Char → Nat) (line : List (Segment σ)) (length : Nat) (st : Option σ)
    (h : lineLength cw line ≤ length) :
    stream (adjustLineLength cw line length st true) =
      stream line ++ List.replicate (length - lineLength cw line) (' ', st, false) := by
  unfold adjustLineLength
  simp only
  by_cases hlt : lineLength cw line < length
  · simp [hlt]
  · have : ¬ lineLength cw line > length := by omega
    have hz : length - lineLength cw line = 0 := by omega
    simp [hlt, this, hz]

theorem adjust_nopad_stream (cw : Char → Nat) (line : List (Segment σ)) (length : Nat) (st : Option σ)
    (h : lineLength cw line ≤ length) :
    adjustLineLength cw line length st false = line := by
  unfold adjustLineLength
  simp only
  by_cases hlt : lineLength cw line < length
  · simp [hlt]
  · have : ¬ lineLength cw line > length := by omega
    simp [hlt, this]

/-- Cropping keeps a prefix of the (character, style, control) stream, followed only by spaces
(the blank half of a cut double-width character) in the style of the cut segment. -/
theorem cropLoop_stream (cw : Char → Nat) (hsp : cw ' ' = 1) (h2 : ∀ c, cw c ≤ 2) (length : Nat) :
    ∀ (line : List (Segment σ)) (acc : Nat),
      ∃ k m sty, stream (cropLoop cw length line acc) = (stream line).take k ++ List.replicate m (' ', sty, false)
  | [], acc => ⟨0, 0, none, by simp [cropLoop]⟩
  | seg :: rest, acc => by
      unfold cropLoop
      simp only
      by_cases hc : (decide (acc + seg.cellLength cw < length) || seg.control) = true
      · simp only [hc, if_true]
        obtain ⟨k, m, sty, hk⟩ := cropLoop_stream cw hsp h2 length rest (acc + seg.cellLength cw)
        refine ⟨seg.text.length + k, m, sty, ?_⟩
        simp only [stream_cons, hk]
        rw [List.take_append]
        simp [List.take_of_length_le]
      · rw [if_neg hc]
        have hctl : seg.control = false := by
          simp only [Bool.or_eq_true, not_or] at hc
          simpa using hc.2
        obtain ⟨k, m, hk⟩ := (setCellSize_exact cw hsp h2 seg.text (length - acc)).2
        refine ⟨min k seg.text.length, m, seg.style, ?_⟩
        simp only [stream_cons, stream_nil, List.append_nil, hk, hctl, List.map_append, List.map_replicate,
          List.map_take]
        rw [List.take_append_of_le_length (by simp; omega)]
        congr 1
        rw [List.take_eq_take_iff]; simp

/-! ### set_shape -/

theorem setShape_length (cw : Char → Nat) (lines : List (List (Segment σ))) (w : Nat) (h : Option Nat)
    (st : Option σ) : (setShape cw lines w h st).length = max lines.length (h.getD lines.length) := by
  simp [setShape]; omega

theorem setShape_rect (cw : Char → Nat) (hsp : cw ' ' = 1) (h2 : ∀ c, cw c ≤ 2)
    (lines : List (List (Segment σ))) (w : Nat) (h : Option Nat) (st : Option σ) :
    ∀ l ∈ setShape cw lines w h st, lineLength cw l = w := by
  intro l hl
  simp only [setShape, List.mem_append, List.mem_map, List.mem_replicate] at hl
  rcases hl with ⟨l0, _, rfl⟩ | ⟨_, rfl⟩
  · exact adjust_exact cw hsp h2 l0 w st true (Or.inl rfl)
  · simp [Segment.cellLength, cellLen_replicate, hsp]

/-! ### simplify -/

theorem simplifyLoop_stream [BEq σ] [LawfulBEq σ] : ∀ (rest : List (Segment σ)) (last : Segment σ),
    stream (simplifyLoop false last rest) = stream (last :: rest)
  | [], last => by simp [simplifyLoop]
  | seg :: rest, last => by
      unfold simplifyLoop
      split
      · rename_i hc
        simp only [Bool.false_or, Bool.and_eq_true, Bool.not_eq_true', beq_iff_eq] at hc
        rw [simplifyLoop_stream rest]
        obtain ⟨⟨h1, h2⟩, h3⟩ := hc
        simp [stream_cons, h1, h2, h3]
      · rw [stream_cons, simplifyLoop_stream rest seg]; simp

/-! ### split_lines / split_and_crop_lines -/

theorem foldl_rel {α β γ : Type} (R : α → β → Prop) (f : α → γ → α) (g : β → γ → β)
    (hstep : ∀ a b x, R a b → R (f a x) (g b x)) : ∀ (l : List γ) (a : α) (b : β), R a b →
    R (l.foldl f a) (l.foldl g b)
  | [], _, _, h => h
  | x :: rest, a, b, h => foldl_rel R f g hstep rest _ _ (hstep a b x h)

/-- Specification-level splitter: the lines, each tagged with "was terminated by a newline". -/
def taggedStep (st : List (Segment σ) × List (List (Segment σ) × Bool)) (seg : Segment σ) :
    List (Segment σ) × List (List (Segment σ) × Bool) :=
  if seg.text.contains '\n' && !seg.control then
    (nlPieces seg.text []).foldl (fun (st : List (Segment σ) × List (List (Segment σ) × Bool)) p =>
      let line := if p.1.isEmpty then st.1 else st.1 ++ [{ text := p.1, style := seg.style, control := false }]
      if p.2 then ([], (line, true) :: st.2) else (line, st.2)) st
  else (st.1 ++ [seg], st.2)

def splitLinesTagged (segs : List (Segment σ)) : List (List (Segment σ) × Bool) :=
  let st := segs.foldl taggedStep ([], [])
  (if st.1.isEmpty then st.2 else (st.1, false) :: st.2).reverse

theorem splitLines_eq_tagged (segs : List (Segment σ)) :
    splitLines segs = (splitLinesTagged segs).map (·.1) := by
  unfold splitLines splitLinesTagged
  have key := foldl_rel
    (fun (a : List (Segment σ) × List (List (Segment σ))) (b : List (Segment σ) × List (List (Segment σ) × Bool)) =>
      a.1 = b.1 ∧ a.2 = b.2.map (·.1))
    splitLinesStep taggedStep (by
      intro a b seg ⟨h1, h2⟩
      unfold splitLinesStep taggedStep
      split
      · apply foldl_rel (fun (a : List (Segment σ) × List (List (Segment σ))) (b : List (Segment σ) × List (List (Segment σ) × Bool)) =>
          a.1 = b.1 ∧ a.2 = b.2.map (·.1))
        · intro a b p ⟨h1, h2⟩
          simp only
          split <;> simp [h1, h2]
        · exact ⟨h1, h2⟩
      · simp [h1, h2]) segs ([], []) ([], []) (by simp)
  obtain ⟨k1, k2⟩ := key
  simp only
  rw [k1, k2]
  split <;> simp

/-- `split_and_crop_lines` (repaired code) is `split_lines` followed by `adjust_line_length` on
every line with the *requested* padding style, plus the newline segment where one was consumed. -/
theorem splitAndCrop_eq_tagged (cw : Char → Nat) (segs : List (Segment σ)) (length : Nat) (style : Option σ)
    (pad inclNL : Bool) :
    splitAndCropLines cw segs length style pad inclNL false =
      (splitLinesTagged segs).map (fun p =>
        adjustLineLength cw p.1 length style pad ++
          (if p.2 && inclNL then [{ text := ['\n'], style := none, control := false }] else [])) := by
  unfold splitAndCropLines splitLinesTagged
  let post : List (Segment σ) × Bool → List (Segment σ) := fun p =>
        adjustLineLength cw p.1 length style pad ++
          (if p.2 && inclNL then [{ text := ['\n'], style := none, control := false }] else [])
  have key := foldl_rel
    (fun (a : CropState σ) (b : List (Segment σ) × List (List (Segment σ) × Bool)) =>
      a.line = b.1 ∧ a.padStyle = style ∧ a.out = b.2.map post)
    (splitAndCropStep cw length pad inclNL false) taggedStep (by
      intro a b seg ⟨h1, h2, h3⟩
      unfold splitAndCropStep taggedStep
      split
      · apply foldl_rel (fun (a : CropState σ) (b : List (Segment σ) × List (List (Segment σ) × Bool)) =>
          a.line = b.1 ∧ a.padStyle = style ∧ a.out = b.2.map post)
        · intro a b p ⟨h1, h2, h3⟩
          simp only
          split
          · rename_i hp
            refine ⟨rfl, h2, ?_⟩
            simp only [List.map_cons, h1, h2, h3, post, hp, Bool.true_and]
            cases inclNL <;> simp
          · exact ⟨by simp [h1], h2, h3⟩
        · simp only [Bool.false_eq_true, if_false]; exact ⟨h1, h2, h3⟩
      · simp [h1, h2, h3]) segs { line := [], padStyle := style, out := [] } ([], []) (by simp)
  obtain ⟨k1, k2, k3⟩ := key
  simp only
  rw [k1, k2, k3]
  split <;> simp [post]

/-! characters survive `split_lines`: only the line feeds of non-control segments disappear -/

theorem nlPieces_flat : ∀ (text cur : List Char),
    (nlPieces text cur).flatMap (·.1) = cur.reverse ++ text.filter (fun c => c != '\n')
  | [], cur => by
      unfold nlPieces
      cases cur <;> simp
  | c :: rest, cur => by
      unfold nlPieces
      by_cases hc : c = '\n'
      · subst hc
        simp [nlPieces_flat rest []]
      · have : (c == '\n') = false := by simpa using hc
        simp only [this, Bool.false_eq_true, if_false]
        rw [nlPieces_flat rest (c :: cur)]
        simp [List.filter_cons, hc]

def splitTotal (st : List (Segment σ) × List (List (Segment σ))) : List (Char × Option σ × Bool) :=
  (st.2.reverse.map stream).flatten ++ stream st.1

theorem splitInner_total (sty : Option σ) : ∀ (ps : List (List Char × Bool))
    (st : List (Segment σ) × List (List (Segment σ))),
    splitTotal (ps.foldl (fun (st : List (Segment σ) × List (List (Segment σ))) p =>
      let line := if p.1.isEmpty then st.1 else st.1 ++ [{ text := p.1, style := sty, control := false }]
      if p.2 then ([], line :: st.2) else (line, st.2)) st) =
    splitTotal st ++ (ps.flatMap (·.1)).map (fun c => (c, sty, false))
  | [], st => by simp
  | p :: ps, st => by
      simp only [List.foldl_cons]
      rw [splitInner_total sty ps]
      have hline : stream (if p.1.isEmpty then st.1 else st.1 ++ [{ text := p.1, style := sty, control := false }]) =
          stream st.1 ++ p.1.map (fun c => (c, sty, false)) := by
        split
        · rename_i h; simp [List.isEmpty_iff.mp h]
        · simp
      simp only [List.flatMap_cons, List.map_append]
      split
      · simp only [splitTotal, hline, List.reverse_cons, List.map_append, List.map_cons, List.map_nil,
          List.flatten_append, List.flatten_cons, List.flatten_nil, List.append_nil, stream_nil,
          List.append_assoc]
      · simp only [splitTotal, hline, List.append_assoc]

def keepChar (x : Char × Option σ × Bool) : Bool := x.2.2 || x.1 != '\n'

theorem splitStep_total (st : List (Segment σ) × List (List (Segment σ))) (seg : Segment σ) :
    splitTotal (splitLinesStep st seg) = splitTotal st ++ (stream [seg]).filter keepChar := by
  unfold splitLinesStep
  split
  · rename_i h
    simp only [Bool.and_eq_true, Bool.not_eq_true'] at h
    rw [splitInner_total, nlPieces_flat]
    simp only [List.reverse_nil, List.nil_append, stream_cons, stream_nil, List.append_nil,
      List.filter_map]
    congr 2
    · simp [h.2]
    · apply List.filter_congr
      intro c _
      simp [keepChar, h.2, Function.comp]
  · rename_i h
    simp only [Bool.and_eq_true, Bool.not_eq_true', not_and, Bool.not_eq_false] at h
    simp only [splitTotal, stream_append, stream_cons, stream_nil, List.append_nil, List.append_assoc]
    congr 2
    symm
    rw [List.filter_eq_self]
    intro x hx
    simp only [List.mem_map] at hx
    obtain ⟨c, hc, rfl⟩ := hx
    simp only [keepChar]
    by_cases hctl : seg.control = true
    · simp [hctl]
    · have hnc : seg.text.contains '\n' = false := by
        by_cases hcon : seg.text.contains '\n' = true
        · exact absurd (h hcon) hctl
        · simpa using hcon
      have : c ≠ '\n' := by
        intro heq; subst heq
        simp at hnc
        exact hnc hc
      simp [this]

theorem splitLines_stream (segs : List (Segment σ)) :
    ((splitLines segs).map stream).flatten = (stream segs).filter keepChar := by
  have key : ∀ (l : List (Segment σ)) (st : List (Segment σ) × List (List (Segment σ))),
      splitTotal (l.foldl splitLinesStep st) = splitTotal st ++ (stream l).filter keepChar := by
    intro l
    induction l with
    | nil => intro st; simp
    | cons seg rest ih =>
      intro st
      simp only [List.foldl_cons]
      rw [ih, splitStep_total]
      simp [List.filter_append, List.append_assoc]
  have := key segs ([], [])
  unfold splitLines
  simp only
  simp only [splitTotal, List.reverse_nil, List.map_nil, List.flatten_nil, stream_nil, List.nil_append] at this
  rw [← this]
  split
  · rename_i h; simp [List.isEmpty_iff.mp h]
  · simp

/-! ### apply_style / filter_control / strip_* / remove_color / get_shape -/

def textCtl (s : Segment σ) : List Char × Bool := (s.text, s.control)

theorem applyStyle_textCtl (add : σ → σ → σ) (truthy : σ → Bool) (segs : List (Segment σ)) (st ps : Option σ) :
    (applyStyle add truthy segs st ps).map textCtl = segs.map textCtl := by
  unfold applyStyle
  cases st <;> cases ps <;> simp [List.map_map, Function.comp_def, textCtl]

theorem applyStyle_control_unstyled (add : σ → σ → σ) (truthy : σ → Bool) (segs : List (Segment σ)) (st ps : Option σ)
    (h : st.isSome ∨ ps.isSome) :
    ∀ s ∈ applyStyle add truthy segs st ps, s.control = true → s.style = none := by
  unfold applyStyle
  intro s hs hc
  cases st with
  | none =>
    cases ps with
    | none => simp at h
    | some p =>
      simp only [List.mem_map] at hs
      obtain ⟨a, _, rfl⟩ := hs
      simp only at hc ⊢
      simp [hc]
  | some t =>
    cases ps with
    | none =>
      simp only [List.mem_map] at hs
      obtain ⟨a, _, rfl⟩ := hs
      simp only at hc ⊢
      simp [hc]
    | some p =>
      simp only [List.mem_map, List.map_map] at hs
      obtain ⟨a, _, rfl⟩ := hs
      simp only [Function.comp] at hc ⊢
      simp [hc]

theorem stream_chars (segs : List (Segment σ)) :
    (stream segs).map (fun x => (x.1, x.2.2)) = segs.flatMap (fun s => s.text.map (fun c => (c, s.control))) := by
  induction segs with
  | nil => rfl
  | cons a r ih => simp [stream_cons, List.map_append, ih, List.map_map, Function.comp_def]

theorem chars_of_textCtl (a b : List (Segment σ)) (h : a.map textCtl = b.map textCtl) :
    a.flatMap (fun s => s.text.map (fun c => (c, s.control))) = b.flatMap (fun s => s.text.map (fun c => (c, s.control))) := by
  have e : ∀ l : List (Segment σ), l.flatMap (fun s => s.text.map (fun c => (c, s.control))) =
      (l.map textCtl).flatMap (fun p => p.1.map (fun c => (c, p.2))) := by
    intro l; induction l with
    | nil => rfl
    | cons x xs ih => simp [textCtl, ih]
  rw [e a, e b, h]

theorem lineLength_of_textCtl (cw : Char → Nat) (a b : List (Segment σ)) (h : a.map textCtl = b.map textCtl) :
    lineLength cw a = lineLength cw b := by
  have e : ∀ l : List (Segment σ), lineLength cw l =
      ((l.map textCtl).map (fun p => if p.2 then 0 else cellLen cw p.1)).sum := by
    intro l
    induction l with
    | nil => rfl
    | cons x xs ih =>
      simp only [lineLength_cons, List.map_cons, List.sum_cons, ih]
      simp only [Segment.cellLength, textCtl, Nat.add_right_cancel_iff]
      rfl
  rw [e a, e b, h]

theorem stripStyles_textCtl (segs : List (Segment σ)) : (stripStyles segs).map textCtl = segs.map textCtl := by
  simp [stripStyles, List.map_map, Function.comp_def, textCtl]

theorem removeColor_textCtl (truthy : σ → Bool) (noColor : σ → σ) (segs : List (Segment σ)) :
    (removeColor truthy noColor segs).map textCtl = segs.map textCtl := by
  simp [removeColor, List.map_map, Function.comp_def, textCtl]

theorem stripLinks_textCtl (truthy : σ → Bool) (noLink : σ → σ) (segs : List (Segment σ)) :
    (stripLinks truthy noLink segs).map textCtl = segs.map textCtl := by
  unfold stripLinks
  rw [List.map_map]
  apply List.map_congr_left
  intro s _
  simp only [Function.comp, textCtl]
  cases hs : s.style with
  | none => rfl
  | some st =>
    simp only
    by_cases hc : s.control = true
    · simp [hc]
    · have : s.control = false := by simpa using hc
      simp [this]

theorem filterControl_flag (segs : List (Segment σ)) (b : Bool) : ∀ s ∈ filterControl segs b, s.control = b := by
  intro s hs
  simp only [filterControl, List.mem_filter, beq_iff_eq] at hs
  exact hs.2

theorem filterControl_count (segs : List (Segment σ)) :
    (filterControl segs true).length + (filterControl segs false).length = segs.length := by
  induction segs with
  | nil => rfl
  | cons a r ih =>
    unfold filterControl at ih ⊢
    simp only [List.filter_cons]
    cases h : a.control
    · simp only [h, show (false == true) = false from rfl, show (false == false) = true from rfl,
        Bool.false_eq_true, if_false, if_true, List.length_cons]
      omega
    · simp only [h, show (true == true) = true from rfl, show (true == false) = false from rfl,
        Bool.false_eq_true, if_false, if_true, List.length_cons]
      omega

theorem filterControl_lineLength (cw : Char → Nat) (segs : List (Segment σ)) :
    lineLength cw (filterControl segs false) = lineLength cw segs := by
  induction segs with
  | nil => rfl
  | cons a r ih =>
    unfold filterControl at ih ⊢
    simp only [List.filter_cons]
    cases h : a.control
    · simp only [h, show (false == false) = true from rfl, if_true, lineLength_cons, ih]
    · simp only [h, show (true == false) = false from rfl, Bool.false_eq_true, if_false, lineLength_cons, ih,
        Segment.cellLength, if_true]
      omega

theorem filterControl_sublist (segs : List (Segment σ)) (b : Bool) : (filterControl segs b).Sublist segs := by
  unfold filterControl; exact List.filter_sublist

theorem foldl_max_ge_nat (xs : List Nat) : ∀ (a : Nat), a ≤ xs.foldl max a ∧ ∀ x ∈ xs, x ≤ xs.foldl max a := by
  induction xs with
  | nil => intro a; simp
  | cons y ys ih =>
    intro a
    simp only [List.foldl_cons]
    have := ih (max a y)
    refine ⟨by omega, ?_⟩
    intro x hx
    rcases List.mem_cons.mp hx with hx | hx
    · subst hx; omega
    · exact this.2 x hx

theorem getShape_spec (cw : Char → Nat) (lines : List (List (Segment σ))) :
    (getShape cw lines).2 = lines.length ∧ ∀ l ∈ lines, lineLength cw l ≤ (getShape cw lines).1 := by
  refine ⟨rfl, ?_⟩
  intro l hl
  exact (foldl_max_ge_nat (lines.map (lineLength cw)) 0).2 _ (List.mem_map_of_mem hl)

end RichModel
