import RichModel.Lemmas.TotalityText
import RichModel.Lemmas.LayoutMeasure
import RichModel.Lemmas.TableTotal
import RichModel.Lemmas.FramesColumns
/-!
Property C14 over the composition layer (`Model/Layout.lean`, C01/C09): for a tree of built-in renderables with valid
options, none of the branches of `render` / `measure` in which Python would raise (the ones the model maps to
`cfg.poison`) is taken — at any node, at any width a parent may hand down, under any options in force.
-/
namespace RichModel.Layout
open RichModel RichModel.Frames RichModel.Text

/-! ## Padding tuples -/

/-- what `Padding.unpack` accepts: an int (one-element list) or a tuple of 1, 2 or 4 ints -/
def PadOk (l : List Nat) : Prop := l.length = 1 ∨ l.length = 2 ∨ l.length = 4

theorem unpackPad_ok (l : List Nat) (hp : PadOk l) : ∃ p, unpackPad l = .ok p := by
  match l, hp with
  | [a], _ => exact ⟨_, rfl⟩
  | [a, b], _ => exact ⟨_, rfl⟩
  | [a, b, c', d], _ => exact ⟨_, rfl⟩
  | [], hp => simp [PadOk] at hp
  | [_, _, _], hp => simp [PadOk] at hp
  | _ :: _ :: _ :: _ :: _ :: _, hp => simp [PadOk] at hp

/-- `Panel`: with a valid `padding` neither `__rich_console__` nor `__rich_measure__` raises, over any child, at any width. -/
theorem panel_ok {σ : Type} (cw : Char → Nat) (env : Env) (v : Frames.Variant) (o : PanelOpts) (c : Child σ) (w mw : Int)
    (hp : PadOk o.padding) :
    (∃ r, panelConsole cw env v o c w = .ok r) ∧ (∃ m, panelRichMeasure cw o c mw = .ok m) := by
  obtain ⟨p, hu⟩ := unpackPad_ok o.padding hp
  constructor
  · simp only [panelConsole, hu]
    repeat' split
    all_goals exact ⟨_, rfl⟩
  · simp only [panelRichMeasure, hu]
    repeat' split
    all_goals exact ⟨_, rfl⟩

/-! ## Tables: the cells handed to C07's solver measure `0 ≤ maximum`, so the solver is total -/

/-- a child oracle whose measurements are never negative (what `Measurement.get` guarantees) -/
def ChNN (c : Ch) : Prop := ∀ w, 0 ≤ (c.measure w).maximum

def ColNN (c : ColS) : Prop := ChNN c.header ∧ ChNN c.footer ∧ ∀ x ∈ c.cells, ChNN x

theorem chNN_asChild (console : Int → List Seg) (rm : Int → Measurement) : ChNN (asChild console rm) :=
  fun w => Int.le_trans (Measurement.getPost_ok (w : Int) _).1 (Measurement.getPost_ok (w : Int) _).2.1

theorem chNN_padCell (cfg : Cfg) (tb : Table) (a b c d : Bool) (ch : Ch) (h : ChNN ch) : ChNN (padCell cfg tb a b c d ch) := by
  unfold padCell
  split
  · exact h
  · exact chNN_asChild _ _

theorem chNN_measure (cfg : Cfg) (r : R) : ChNN (mCh (fun x => measure cfg r x)) :=
  fun w => Int.le_trans (measure_normal cfg r w).1 (measure_normal cfg r w).2.1

theorem chNN_chOf (cfg : Cfg) (r : R) (o : Opts) : ChNN ⟨fun x => measure cfg r x, fun x => render cfg r o x⟩ :=
  fun w => Int.le_trans (measure_normal cfg r w).1 (measure_normal cfg r w).2.1

theorem chNN_text (cfg : Cfg) (t : T) (o : Opts) : ChNN (textChild cfg t o) :=
  fun w => Int.le_trans (Measurement.getPost_ok (w : Int) _).1 (Measurement.getPost_ok (w : Int) _).2.1

theorem chNN_dflt : ChNN dfltCh := fun _ => Int.le_refl 0

theorem mem_rawCells (tb : Table) (c : ColS) (x : Ch) (h : x ∈ rawCells tb c) : x = c.header ∨ x = c.footer ∨ x ∈ c.cells := by
  unfold rawCells at h
  simp only [List.mem_append] at h
  rcases h with (h | h) | h
  · split at h <;> simp at h; exact Or.inl h
  · exact Or.inr (Or.inr h)
  · split at h <;> simp at h; exact Or.inr (Or.inl h)

theorem chNN_paddedCol (cfg : Cfg) (tb : Table) (n j : Nat) (c : ColS) (hc : ColNN c) :
    ∀ ch ∈ paddedCol cfg tb n j c, ChNN ch := by
  intro ch hch
  unfold paddedCol at hch
  simp only [List.mem_map] at hch
  obtain ⟨ci, hci, rfl⟩ := hch
  apply chNN_padCell
  have hmem : ci.1 ∈ rawCells tb c := (List.mem_zipIdx hci).2.2 ▸ List.getElem_mem _
  rcases mem_rawCells tb c ci.1 hmem with h | h | h
  · rw [h]; exact hc.1
  · rw [h]; exact hc.2.1
  · exact hc.2.2 _ h

theorem cellNN_default : ∀ w, 0 ≤ ((default : Cell).measure w).maximum := fun _ => Int.le_refl 0

/-- every cell `toColumnC` picks out of the padded cells is one of them or the default cell -/
theorem toColumnC_getCells (tb tb' : Table) (hh : tb'.showHeader = tb.showHeader) (hf : tb'.showFooter = tb.showFooter)
    (c : ColS) (pc : List Cell) :
    ∀ cell ∈ tb'.getCells (toColumnC tb c pc), cell = default ∨ cell ∈ pc := by
  intro cell hcell
  unfold Table.getCells toColumnC at hcell
  simp only [hh, hf, List.mem_append] at hcell
  rcases hcell with (h | h) | h
  · split at h
    · simp only [List.mem_singleton] at h
      subst h
      cases pc with
      | nil => exact Or.inl rfl
      | cons x xs => exact Or.inr (by simp [List.getD])
    · simp at h
  · exact Or.inr (List.mem_of_mem_take h |> List.mem_of_mem_drop)
  · split at h
    · simp only [List.mem_singleton] at h
      subst h
      cases hl : pc.getLast? with
      | none => exact Or.inl (by simp)
      | some x => exact Or.inr (by simpa using List.mem_of_getLast? hl)
    · simp at h

/-- The table `Model/Layout.lean` hands to C07's solver is `Sane`: options are naturals, and every cell — padded by
`Table._get_cells` or not — measures `0 ≤ maximum` as soon as the raw cells do. -/
theorem toTable_sane (cfg : Cfg) (o : TableOpts) (cols : List ColS) (h : ∀ c ∈ cols, ColNN c) : (toTable cfg o cols).Sane := by
  have hcol : ∀ c ∈ (toTable cfg o cols).columns, ∃ (cs : ColS) (pc : List Ch), c = toColumnC o.skel cs (pc.map (toCell cfg)) ∧ ∀ ch ∈ pc, ChNN ch := by
    intro c hc
    unfold toTable at hc
    simp only [List.mem_map] at hc
    obtain ⟨cp, hcp, rfl⟩ := hc
    refine ⟨cp.1, cp.2, rfl, ?_⟩
    have h2 : cp.2 ∈ paddedCols cfg o.skel cols := (List.of_mem_zip hcp).2
    unfold paddedCols at h2
    simp only [List.mem_map] at h2
    obtain ⟨cj, hcj, hcj2⟩ := h2
    rw [← hcj2]
    have hmem : cj.1 ∈ cols := (List.mem_zipIdx hcj).2.2 ▸ List.getElem_mem _
    exact chNN_paddedCol cfg o.skel cols.length cj.2 cj.1 (h cj.1 hmem)
  refine ⟨?_, ?_, ?_, ?_, ?_, ?_⟩
  · simp [toTable, TableOpts.skel]
  · simp [toTable, TableOpts.skel]
  · intro c hc w hw
    obtain ⟨cs, pc, rfl, _⟩ := hcol c hc
    simp only [toColumnC, Option.map_eq_some_iff] at hw
    obtain ⟨n, _, rfl⟩ := hw
    exact Int.natCast_nonneg n
  · intro c hc w hw
    obtain ⟨cs, pc, rfl, _⟩ := hcol c hc
    simp only [toColumnC, Option.map_eq_some_iff] at hw
    obtain ⟨n, _, rfl⟩ := hw
    exact Int.natCast_nonneg n
  · intro c hc w hw
    obtain ⟨cs, pc, rfl, _⟩ := hcol c hc
    simp only [toColumnC, Option.map_eq_some_iff] at hw
    obtain ⟨n, _, rfl⟩ := hw
    exact Int.natCast_nonneg n
  · intro c hc cell hcell w
    obtain ⟨cs, pc, rfl, hpc⟩ := hcol c hc
    rcases toColumnC_getCells o.skel (toTable cfg o cols) rfl rfl cs _ cell hcell with hd | hm
    · rw [hd]; exact cellNN_default w
    · simp only [List.mem_map] at hm
      obtain ⟨ch, hch, rfl⟩ := hm
      exact hpc ch hch w

/-- `Table._calculate_column_widths` never raises for the table of the composition layer (repaired code). -/
theorem toTable_widths_total (cfg : Cfg) (h1 : cfg.fl.noColumnsAsserts = false) (h2 : cfg.fl.flexNegative = false)
    (o : TableOpts) (cols : List ColS) (h : ∀ c ∈ cols, ColNN c) (maxWidth : Int) :
    ∃ ws, (toTable cfg o cols).calcWidths cfg.fl maxWidth = some ws :=
  calcWidths_total cfg.fl h1 h2 _ (toTable_sane cfg o cols h) maxWidth

/-! ## Columns -/

/-- the repaired `Columns` never raises: valid padding, any `width` option, sound item measurements (what
`Props/C08.lean: columns_repaired_never_raises` states for the explicit variant record) -/
theorem columnsLayout_ok (v : Frames.Variant) (hv : v.columnsZeroCount = false) (o : ColumnsOpts) (measured : List Int)
    (maxWidth : Int) (p : PadDims) (hp : unpackPad o.padding = .ok p) (hmw : 0 ≤ maxWidth)
    (hw : o.width = none → ∀ m ∈ measured, m ≤ maxWidth) :
    ∃ L, columnsLayout v o measured maxWidth = .ok L := by
  by_cases hne : measured = []
  · subst hne; exact ⟨none, by simp [columnsLayout]⟩
  cases hres : columnsLayout v o measured maxWidth with
  | ok L => exact ⟨L, rfl⟩
  | error e =>
    exfalso
    have he := (columnsLayout_error v o measured maxWidth p hne hp e).mp hres
    have hz : columnsLayout v o measured maxWidth = .error .zeroDivision := by rw [hres, he.1]
    cases ho : o.width with
    | none => exact columnsLayout_no_zeroDivision v o measured maxWidth ho hmw (hw ho) hz
    | some cwid =>
      rw [columnsLayout_error_iff v o measured maxWidth p hne hp, ho] at hz
      simp only [hv, Bool.false_eq_true, false_and] at hz

/-- the columns of the inner `Table.grid` of `Columns.__rich_console__` (the local `cols` of `columnsConsole`) -/
def gridCols (cfg : Cfg) (o : ColsOpts) (items : List Ch) (w : Nat) (lay : ColumnsLayout) : List ColS :=
  let measured := items.map (fun c => (c.measureAt (w : Int)).maximum)
  let w0 := listMax measured
  let wrap (c : Ch) : Ch :=
    let c := if o.lay.equal then constrainChild (some w0) c else c
    match o.align with
    | some a => alignChild cfg.cw cfg.env cfg.v { align := a } c
    | none => c
  let blank := textChild cfg (emptyText cfg) ({} : ColOpts).cellOpts
  let cell (x : Option Nat) : Ch := match x with
    | none => blank
    | some i => wrap (items.getD i dfltCh)
  (List.range lay.columnCount).map (fun j =>
    { o := { width := o.lay.width.map Int.toNat }, header := blank, footer := blank,
      cells := lay.rows.map (fun row => cell (row.getD j none)) })

/-- `columnsConsole` is: unpack the padding, lay the items out (C08), render the grid (C07) — `gridCols` is its `cols`. -/
theorem columnsConsole_eq (cfg : Cfg) (o : ColsOpts) (opts : Opts) (items : List Ch) (w : Nat) :
    columnsConsole cfg o opts items w =
      match unpackPad o.lay.padding with
      | .error _ => cfg.poison
      | .ok p =>
        match columnsLayout cfg.v o.lay (items.map (fun c => (c.measureAt (w : Int)).maximum)) (w : Int) with
        | .error _ => cfg.poison
        | .ok none => []
        | .ok (some lay) => tableConsole cfg (o.grid p) opts (gridCols cfg o items w lay) w := by
  unfold columnsConsole gridCols
  cases unpackPad o.lay.padding with
  | error e => rfl
  | ok p =>
    simp only
    cases columnsLayout cfg.v o.lay (items.map (fun c => (c.measureAt (w : Int)).maximum)) (w : Int) with
    | error e => rfl
    | ok L => cases L <;> rfl

theorem gridCols_nn (cfg : Cfg) (o : ColsOpts) (items : List Ch) (w : Nat) (lay : ColumnsLayout) (h : ∀ c ∈ items, ChNN c) :
    ∀ c ∈ gridCols cfg o items w lay, ColNN c := by
  intro c hc
  unfold gridCols at hc
  simp only [List.mem_map] at hc
  obtain ⟨j, _, rfl⟩ := hc
  refine ⟨chNN_text cfg _ _, chNN_text cfg _ _, ?_⟩
  intro x hx
  simp only [List.mem_map] at hx
  obtain ⟨row, _, rfl⟩ := hx
  cases row.getD j none with
  | none => exact chNN_text cfg _ _
  | some i =>
    simp only
    cases o.align with
    | some a => exact chNN_asChild _ _
    | none =>
      simp only
      split
      · exact chNN_asChild _ _
      · rw [List.getD_eq_getElem?_getD]
        cases hg : items[i]? with
        | none => exact chNN_dflt
        | some x => exact h x (List.mem_of_getElem? hg)

theorem chsR_nn (cfg : Cfg) (o : Opts) : ∀ rs : List R, ∀ c ∈ chsR cfg rs o, ChNN c
  | [], c, hc => by simp [chsR] at hc
  | r :: rs, c, hc => by
    rw [chsR] at hc
    rcases List.mem_cons.mp hc with rfl | hc
    · exact chNN_chOf cfg r o
    · exact chsR_nn cfg o rs c hc

theorem chsM_nn (cfg : Cfg) : ∀ rs : List R, ∀ c ∈ chsM cfg rs, ChNN c
  | [], c, hc => by simp [chsM] at hc
  | r :: rs, c, hc => by
    rw [chsM] at hc
    rcases List.mem_cons.mp hc with rfl | hc
    · exact chNN_measure cfg r
    · exact chsM_nn cfg rs c hc

theorem colsR_nn (cfg : Cfg) : ∀ cols : List Col, ∀ c ∈ colsR cfg cols, ColNN c
  | [], c, hc => by simp [colsR] at hc
  | (.mk co h f cells) :: cs, c, hc => by
    rw [colsR] at hc
    rcases List.mem_cons.mp hc with rfl | hc
    · rw [colR]; exact ⟨chNN_chOf cfg h _, chNN_chOf cfg f _, chsR_nn cfg _ cells⟩
    · exact colsR_nn cfg cs c hc

theorem colsM_nn (cfg : Cfg) : ∀ cols : List Col, ∀ c ∈ colsM cfg cols, ColNN c
  | [], c, hc => by simp [colsM] at hc
  | (.mk co h f cells) :: cs, c, hc => by
    rw [colsM] at hc
    rcases List.mem_cons.mp hc with rfl | hc
    · rw [colM]; exact ⟨chNN_measure cfg h, chNN_measure cfg f, chsM_nn cfg cells⟩
    · exact colsM_nn cfg cs c hc

/-- `Table.__rich_measure__` of the composition layer never raises (repaired code). -/
theorem tableRichMeasure_total (cfg : Cfg) (h1 : cfg.fl.noColumnsAsserts = false) (h2 : cfg.fl.flexNegative = false)
    (o : TableOpts) (cols : List ColS) (h : ∀ c ∈ cols, ColNN c) (maxWidth : Int) :
    ∃ m, tableRichMeasure cfg.fl (toTable cfg o cols) maxWidth = some m := by
  unfold tableRichMeasure
  simp only
  split
  · exact ⟨_, rfl⟩
  · obtain ⟨ws, hws⟩ := toTable_widths_total cfg h1 h2 o cols h
      ((toTable cfg o cols).width.getD maxWidth - (toTable cfg o cols).extraWidth)
    simp only [hws]
    exact ⟨_, rfl⟩

/-! ## Valid options, and "no raising branch is taken anywhere in the tree" -/

def OptInv : Option T → Prop
  | none => True
  | some t => Text.Inv t

mutual
/-- **Valid options**: every text in the tree is a consistent `Text` (what the constructor and every public operation
produce, C05), every `padding` option is an int or a tuple of 1, 2 or 4 ints.  Everything else is valid by type: widths,
ratios, paddings are naturals, alignments / boxes / justify / overflow are enumerations. -/
def Valid : R → Prop
  | .text t => Text.Inv t
  | .str t => Text.Inv t
  | .padding _ _ c => Valid c
  | .panel o c => PadOk o.padding ∧ Valid c
  | .align _ c => Valid c
  | .constrain _ c => Valid c
  | .styled c => Valid c
  | .cast c => Valid c
  | .opaque c => Valid c
  | .group _ items => ValidL items
  | .rule _ => True
  | .bar _ => True
  | .progressBar _ => True
  | .table o cols => OptInv o.title ∧ OptInv o.caption ∧ ValidCols cols
  | .columns o items => PadOk o.lay.padding ∧ OptInv o.title ∧ ValidL items
  | .tree root => ValidNode root
def ValidL : List R → Prop
  | [] => True
  | r :: rs => Valid r ∧ ValidL rs
def ValidCol : Col → Prop
  | .mk _ h f cells => Valid h ∧ Valid f ∧ ValidL cells
def ValidCols : List Col → Prop
  | [] => True
  | c :: cs => ValidCol c ∧ ValidCols cs
def ValidNode : TNode → Prop
  | .mk label _ _ ch => Valid label ∧ ValidNodes ch
def ValidNodes : List TNode → Prop
  | [] => True
  | n :: ns => ValidNode n ∧ ValidNodes ns
end

/-- `Text.__rich_console__` does not raise, whatever options are in force and whatever width is handed down -/
def TextOk (cfg : Cfg) (t : T) : Prop := ∀ (o : Opts) (w : Nat), ∃ s, textConsoleE cfg t o w = .ok s

def AnnOk (cfg : Cfg) : Option T → Prop
  | none => True
  | some t => TextOk cfg t

/-- `Panel.__rich_console__` / `__rich_measure__` do not raise (the scrutinees of `render` / `measure` at a panel) -/
def PanelOk (cfg : Cfg) (po : PanelOpts) (c : R) : Prop := ∀ (o : Opts) (w : Nat),
  (∃ r, panelConsole cfg.cw cfg.env cfg.v po ⟨fun x => measure cfg c x, fun x => render cfg c o x⟩ (w : Int) = .ok r) ∧
  (∃ m, panelRichMeasure cfg.cw po (mCh (fun x => measure cfg c x)) (w : Int) = .ok m)

/-- the `Text` a `Rule` yields renders without raising -/
def RuleOk (cfg : Cfg) (ro : RuleOpts) : Prop := ∀ (w : Nat),
  TextOk cfg (Text.new cfg.wv.text (ruleText cfg.cw cfg.env cfg.v ro (w : Int)).1 [0] [] none none none
    (ruleText cfg.cw cfg.env cfg.v ro (w : Int)).2)

/-- `Table.__rich_console__` / `__rich_measure__`: `_calculate_column_widths` returns (no `AssertionError`), the title and
the caption render -/
def TableOk (cfg : Cfg) (to : TableOpts) (colsRender colsMeasure : List ColS) : Prop :=
  (∀ w : Nat, ∃ ws, (toTable cfg to colsRender).calcWidths cfg.fl
      ((toTable cfg to colsRender).width.getD (w : Int) - (toTable cfg to colsRender).extraWidth) = some ws) ∧
  (∀ w : Nat, ∃ m, tableRichMeasure cfg.fl (toTable cfg to colsMeasure) (w : Int) = some m) ∧
  AnnOk cfg to.title ∧ AnnOk cfg to.caption

/-- `Columns.__rich_console__`: the padding unpacks, the column count is at least one (no `ZeroDivisionError`), the inner
grid's widths are computed, the blank filler cells and the title render -/
def ColumnsOk (cfg : Cfg) (co : ColsOpts) (items : List Ch) : Prop := ∀ (w : Nat),
  ∃ p, unpackPad co.lay.padding = .ok p ∧
    ∃ L, columnsLayout cfg.v co.lay (items.map (fun c => (c.measureAt (w : Int)).maximum)) (w : Int) = .ok L ∧
      (∀ lay, L = some lay → ∃ ws, (toTable cfg (co.grid p) (gridCols cfg co items w lay)).calcWidths cfg.fl
        ((toTable cfg (co.grid p) (gridCols cfg co items w lay)).width.getD (w : Int)
          - (toTable cfg (co.grid p) (gridCols cfg co items w lay)).extraWidth) = some ws) ∧
      TextOk cfg (emptyText cfg) ∧ AnnOk cfg co.title

mutual
/-- **No raising branch anywhere**: at every node of the tree, for every options in force and every width (any natural
number: whatever a parent hands down, however far below the structural minimum), the `Except` / `Option` scrutinee that
`render` / `measure` inspect at that node is not an error. -/
def AllOk (cfg : Cfg) : R → Prop
  | .text t => TextOk cfg t
  | .str t => TextOk cfg t
  | .padding _ _ c => AllOk cfg c
  | .panel o c => PanelOk cfg o c ∧ AllOk cfg c
  | .align _ c => AllOk cfg c
  | .constrain _ c => AllOk cfg c
  | .styled c => AllOk cfg c
  | .cast c => AllOk cfg c
  | .opaque c => AllOk cfg c
  | .group _ items => AllOkL cfg items
  | .rule o => RuleOk cfg o
  | .bar _ => True
  | .progressBar _ => True
  | .table o cols => TableOk cfg o (colsR cfg cols) (colsM cfg cols) ∧ AllOkCols cfg cols
  | .columns o items => ColumnsOk cfg o (chsR cfg items ({} : ColOpts).cellOpts) ∧ AllOkL cfg items
  | .tree root => AllOkNode cfg root
def AllOkL (cfg : Cfg) : List R → Prop
  | [] => True
  | r :: rs => AllOk cfg r ∧ AllOkL cfg rs
def AllOkCol (cfg : Cfg) : Col → Prop
  | .mk _ h f cells => AllOk cfg h ∧ AllOk cfg f ∧ AllOkL cfg cells
def AllOkCols (cfg : Cfg) : List Col → Prop
  | [] => True
  | c :: cs => AllOkCol cfg c ∧ AllOkCols cfg cs
def AllOkNode (cfg : Cfg) : TNode → Prop
  | .mk label _ _ ch => AllOk cfg label ∧ AllOkNodes cfg ch
def AllOkNodes (cfg : Cfg) : List TNode → Prop
  | [] => True
  | n :: ns => AllOkNode cfg n ∧ AllOkNodes cfg ns
end

/-! ## layout_total -/

theorem textOk_of_inv (cfg : Cfg) (hc : CfgRepaired cfg) (t : T) (h : Text.Inv t) : TextOk cfg t :=
  fun o w => textConsoleE_total cfg hc t h o w

theorem annOk_of_optInv (cfg : Cfg) (hc : CfgRepaired cfg) : ∀ t : Option T, OptInv t → AnnOk cfg t
  | none, _ => trivial
  | some t, h => textOk_of_inv cfg hc t h

theorem ruleOk (cfg : Cfg) (hc : CfgRepaired cfg) (ro : RuleOpts) : RuleOk cfg ro := by
  intro w
  obtain ⟨chars, hwv⟩ := hc.wv
  rw [hwv]
  exact textOk_of_inv cfg hc _ (inv_new _ _ _ _ _ _ _ _ (by intro sp hsp; simp at hsp))

theorem emptyText_ok (cfg : Cfg) (hc : CfgRepaired cfg) : TextOk cfg (emptyText cfg) := by
  obtain ⟨chars, hwv⟩ := hc.wv
  unfold emptyText
  rw [hwv]
  exact textOk_of_inv cfg hc _ (inv_new _ _ _ _ _ _ _ _ (by intro sp hsp; simp at hsp))

/-- the items of a `Columns` never measure more than the width they were measured at -/
theorem chsR_measureAt_le (cfg : Cfg) (o : Opts) : ∀ rs : List R, ∀ c ∈ chsR cfg rs o, ∀ w : Nat,
    (c.measureAt (w : Int)).maximum ≤ (w : Int)
  | [], c, hc, _ => by simp [chsR] at hc
  | r :: rs, c, hc, w => by
    rw [chsR] at hc
    rcases List.mem_cons.mp hc with rfl | hc
    · unfold Child.measureAt
      split
      · exact Int.natCast_nonneg w
      · simpa using (measure_normal cfg r w).2.2
    · exact chsR_measureAt_le cfg o rs c hc w

theorem columnsOk (cfg : Cfg) (hc : CfgRepaired cfg) (co : ColsOpts) (items : List R) (hp : PadOk co.lay.padding)
    (ht : OptInv co.title) : ColumnsOk cfg co (chsR cfg items ({} : ColOpts).cellOpts) := by
  intro w
  obtain ⟨p, hpp⟩ := unpackPad_ok _ hp
  obtain ⟨L, hL⟩ := columnsLayout_ok cfg.v hc.colsZero co.lay
    ((chsR cfg items ({} : ColOpts).cellOpts).map (fun c => (c.measureAt (w : Int)).maximum)) (w : Int) p hpp
    (Int.natCast_nonneg w) (by
      intro _ m hm
      simp only [List.mem_map] at hm
      obtain ⟨c, hcm, rfl⟩ := hm
      exact chsR_measureAt_le cfg _ items c hcm w)
  refine ⟨p, hpp, L, hL, ?_, emptyText_ok cfg hc, annOk_of_optInv cfg hc _ ht⟩
  intro lay _
  exact toTable_widths_total cfg hc.noCols hc.flexNeg _ _
    (gridCols_nn cfg co _ w lay (chsR_nn cfg _ items)) _

mutual
/-- **layout_total** (see `Props/C14.lean`). -/
theorem allOk (cfg : Cfg) (hc : CfgRepaired cfg) : ∀ r : R, Valid r → AllOk cfg r
  | .text t, h => by rw [Valid] at h; rw [AllOk]; exact textOk_of_inv cfg hc t h
  | .str t, h => by rw [Valid] at h; rw [AllOk]; exact textOk_of_inv cfg hc t h
  | .padding _ _ c, h => by rw [Valid] at h; rw [AllOk]; exact allOk cfg hc c h
  | .panel o c, h => by
    rw [Valid] at h; rw [AllOk]
    exact ⟨fun opts w => panel_ok cfg.cw cfg.env cfg.v o _ (w : Int) (w : Int) h.1 |>.imp id (fun _ =>
      (panel_ok cfg.cw cfg.env cfg.v o (mCh (fun x => measure cfg c x)) (w : Int) (w : Int) h.1).2), allOk cfg hc c h.2⟩
  | .align _ c, h => by rw [Valid] at h; rw [AllOk]; exact allOk cfg hc c h
  | .constrain _ c, h => by rw [Valid] at h; rw [AllOk]; exact allOk cfg hc c h
  | .styled c, h => by rw [Valid] at h; rw [AllOk]; exact allOk cfg hc c h
  | .cast c, h => by rw [Valid] at h; rw [AllOk]; exact allOk cfg hc c h
  | .opaque c, h => by rw [Valid] at h; rw [AllOk]; exact allOk cfg hc c h
  | .group _ items, h => by rw [Valid] at h; rw [AllOk]; exact allOkL cfg hc items h
  | .rule o, _ => by rw [AllOk]; exact ruleOk cfg hc o
  | .bar _, _ => by rw [AllOk]; trivial
  | .progressBar _, _ => by rw [AllOk]; trivial
  | .table o cols, h => by
    rw [Valid] at h; rw [AllOk]
    exact ⟨⟨fun w => toTable_widths_total cfg hc.noCols hc.flexNeg o _ (colsR_nn cfg cols) _,
      fun w => tableRichMeasure_total cfg hc.noCols hc.flexNeg o _ (colsM_nn cfg cols) _,
      annOk_of_optInv cfg hc _ h.1, annOk_of_optInv cfg hc _ h.2.1⟩, allOkCols cfg hc cols h.2.2⟩
  | .columns o items, h => by
    rw [Valid] at h; rw [AllOk]
    exact ⟨columnsOk cfg hc o items h.1 h.2.1, allOkL cfg hc items h.2.2⟩
  | .tree root, h => by rw [Valid] at h; rw [AllOk]; exact allOkNode cfg hc root h
theorem allOkL (cfg : Cfg) (hc : CfgRepaired cfg) : ∀ rs : List R, ValidL rs → AllOkL cfg rs
  | [], _ => by rw [AllOkL]; trivial
  | r :: rs, h => by rw [ValidL] at h; rw [AllOkL]; exact ⟨allOk cfg hc r h.1, allOkL cfg hc rs h.2⟩
theorem allOkCol (cfg : Cfg) (hc : CfgRepaired cfg) : ∀ c : Col, ValidCol c → AllOkCol cfg c
  | .mk _ hd f cells, h => by
    rw [ValidCol] at h; rw [AllOkCol]
    exact ⟨allOk cfg hc hd h.1, allOk cfg hc f h.2.1, allOkL cfg hc cells h.2.2⟩
theorem allOkCols (cfg : Cfg) (hc : CfgRepaired cfg) : ∀ cs : List Col, ValidCols cs → AllOkCols cfg cs
  | [], _ => by rw [AllOkCols]; trivial
  | c :: cs, h => by rw [ValidCols] at h; rw [AllOkCols]; exact ⟨allOkCol cfg hc c h.1, allOkCols cfg hc cs h.2⟩
theorem allOkNode (cfg : Cfg) (hc : CfgRepaired cfg) : ∀ n : TNode, ValidNode n → AllOkNode cfg n
  | .mk label _ _ ch, h => by
    rw [ValidNode] at h; rw [AllOkNode]
    exact ⟨allOk cfg hc label h.1, allOkNodes cfg hc ch h.2⟩
theorem allOkNodes (cfg : Cfg) (hc : CfgRepaired cfg) : ∀ ns : List TNode, ValidNodes ns → AllOkNodes cfg ns
  | [], _ => by rw [AllOkNodes]; trivial
  | n :: ns, h => by rw [ValidNodes] at h; rw [AllOkNodes]; exact ⟨allOkNode cfg hc n h.1, allOkNodes cfg hc ns h.2⟩
end

end RichModel.Layout
