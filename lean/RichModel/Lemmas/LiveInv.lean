import RichModel.Lemmas.Live
/-!
The invariant relating the model state, the specification-level view and the replayed screen, and its
preservation by every operation of a well-formed history (no faults, repaired bare print).
-/
namespace RichModel.Live
open RichModel RichModel.Screen

/-- Invariant: the view is what the screen shows; everything on display is still on screen; the
recorded shape is the height on display; hook depth follows `started`; nothing is displayed before start. -/
structure Good (cfg : Cfg) (st : St) (v : View) (s : Screen) : Prop where
  shown : ∃ k, Shown s v.printed v.frame k ∧ (region v.frame).length + k ≤ cfg.height
  shape : ShapeOk st.shape v.frame
  hooks : st.hooks = if st.started then 1 else 0
  idle : st.started = false → v.frame = [] ∧ st.shape = none

theorem columnCalls_noFault (c : Nat) (ts : List Task) : (columnCalls noFault c ts).2 = true := by
  induction ts generalizing c with
  | nil => rfl
  | cons t rest ih =>
    simp only [columnCalls, noFault]
    split
    · simp; exact ih _
    · exact ih _

theorem setShape_length (f : Frame) (w h : Nat) : (setShape f w h).length = max f.length h := by
  simp [setShape]; omega

/-- What a hooked print does when nothing fails. -/
structure HookedRes (cfg : Cfg) (st : St) (U : List Line) (r : Res) : Prop where
  err : r.err = none
  out : r.out = positionCursor st.shape ++ emitLines U ++ emitFrame (shown cfg r.st)
  shape : ShapeOk r.st.shape (shown cfg r.st)
  hooks : r.st.hooks = st.hooks
  started : r.st.started = st.started

theorem hooked_noFault (cfg : Cfg) (st : St) (U : List Line) : HookedRes cfg st U (hooked cfg noFault st U) := by
  cases hk : cfg.kind
  · -- live
    simp only [hooked, hk, noFault]
    refine ⟨rfl, ?_, ?_, rfl, rfl⟩
    · simp [shown, hk]
    · simp [shown, hk, ShapeOk, getShape]
  · -- progress
    simp only [hooked, hk]
    cases hs : st.shape with
    | none =>
      refine ⟨rfl, ?_, ?_, rfl, rfl⟩
      · simp [shown, hk, progressFrame, hs]
      · simp [shown, hk, progressFrame, ShapeOk, setShape_length, getShape]
    | some wh =>
      refine ⟨rfl, ?_, ?_, rfl, rfl⟩
      · simp [shown, hk, progressFrame, hs]
      · simp [shown, hk, progressFrame, ShapeOk, setShape_length, getShape]; omega
  · -- status
    simp only [hooked, hk, noFault]
    refine ⟨rfl, ?_, ?_, rfl, rfl⟩
    · simp [shown, hk]
    · simp [shown, hk, ShapeOk, getShape]

/-- `refresh()` when nothing fails: a hooked print of nothing while the hook is installed, silent otherwise. -/
theorem doRefresh_noFault (cfg : Cfg) (st : St) :
    let r := doRefresh cfg noFault st
    (st.hooks > 0 → HookedRes cfg st [] r) ∧
    (st.hooks = 0 → r.err = none ∧ r.out = [] ∧ r.st.shape = st.shape ∧ r.st.hooks = st.hooks ∧ r.st.started = st.started) := by
  cases hk : cfg.kind
  · simp only [doRefresh, hk]
    constructor
    · intro h; simp only [h, if_true]; exact hooked_noFault cfg st []
    · intro h; simp [h]
  · simp only [doRefresh, hk]
    have hc := columnCalls_noFault st.calls st.tasks
    generalize columnCalls noFault st.calls st.tasks = cc at hc
    obtain ⟨c, ok⟩ := cc
    simp only at hc
    subst hc
    simp only [Bool.not_true, Bool.false_eq_true, if_false]
    constructor
    · intro h
      simp only [h, if_true]
      have := hooked_noFault cfg { st with calls := c, renderable := tasksTable st.tasks } []
      exact ⟨this.err, this.out, this.shape, this.hooks, this.started⟩
    · intro h; simp [h]
  · simp only [doRefresh, hk]
    constructor
    · intro h; simp only [h, if_true]; exact hooked_noFault cfg st []
    · intro h; simp [h]

/-! ### preservation lemmas -/

theorem atBlank_shown_nil {s : Screen} {P : List Line} {m : Nat} (h : AtBlank s P m) : Shown s P [] (m - 1) := by
  obtain ⟨m', rfl⟩ : ∃ m', m = m' + 1 := ⟨m - 1, by have := h.pos; omega⟩
  refine ⟨?_, ?_, ?_⟩
  · rw [h.rows]; simp [region, List.replicate_succ]
  · rw [h.row]; simp [region]
  · rw [h.col]; simp [region]

/-- Screen part of a hooked print (needs no fit of the new frame). -/
theorem hooked_screen {cfg : Cfg} {st : St} {P : List Line} {F : Frame} {s : Screen} {U : List Line} {r : Res}
    (hsh : ∃ k, Shown s P F k ∧ (region F).length + k ≤ cfg.height) (hshape : ShapeOk st.shape F)
    (hr : HookedRes cfg st U r) :
    ∃ s' k', Run cfg.height P.length s r.out s' ∧ Shown s' (P ++ U) (shown cfg r.st) k' ∧
      (region (shown cfg r.st)).length + k' ≤ max cfg.height (region (shown cfg r.st)).length ∧
      s'.visible = s.visible := by
  obtain ⟨k, hs, hk⟩ := hsh
  obtain ⟨s', k', hrun, hs', hk', hv⟩ := run_hooked (H := cfg.height) hs hshape hk U (shown cfg r.st)
  exact ⟨s', k', by rw [hr.out]; exact hrun, hs', hk', hv⟩

theorem good_hooked {cfg : Cfg} {st : St} {v : View} {s : Screen} {U : List Line} {r : Res}
    (g : Good cfg st v s) (hh : st.hooks > 0) (hr : HookedRes cfg st U r)
    (hfit : (shown cfg r.st).length ≤ cfg.height) (hH : 1 ≤ cfg.height) :
    ∃ s', Run cfg.height v.printed.length s r.out s' ∧
      Good cfg r.st { printed := v.printed ++ U, frame := shown cfg r.st } s' := by
  obtain ⟨s', k', hrun, hs', hk', _⟩ := hooked_screen g.shown g.shape hr
  refine ⟨s', hrun, ⟨⟨k', hs', ?_⟩, hr.shape, ?_, ?_⟩⟩
  · show (region (shown cfg r.st)).length + k' ≤ cfg.height
    have := region_length (shown cfg r.st); omega
  · rw [hr.hooks, hr.started]; exact g.hooks
  · intro h
    rw [hr.started] at h
    have := g.hooks; rw [h] at this; simp at this; omega

theorem good_silent {cfg : Cfg} {st st' : St} {v : View} {s : Screen}
    (g : Good cfg st v s) (h1 : st'.shape = st.shape) (h2 : st'.hooks = st.hooks) (h3 : st'.started = st.started) :
    Good cfg st' v s :=
  ⟨g.shown, by rw [h1]; exact g.shape, by rw [h2, h3]; exact g.hooks, by rw [h3, h1]; exact g.idle⟩

theorem good_idle_print {cfg : Cfg} {st : St} {v : View} {s : Screen} (U : List Line)
    (g : Good cfg st v s) (hh : st.hooks = 0) :
    ∃ s', Run cfg.height v.printed.length s (emitLines U) s' ∧ Good cfg st { v with printed := v.printed ++ U } s' := by
  have hst : st.started = false := by
    have := g.hooks; rw [hh] at this
    cases h : st.started <;> simp [h] at this ⊢
  obtain ⟨hF, hshape⟩ := g.idle hst
  obtain ⟨k, hs, hk⟩ := g.shown
  rw [hF] at hs hk
  obtain ⟨s', hrun, hb, _⟩ := run_lines (H := cfg.height) U s v.printed _ (shown_nil_atBlank hs)
  refine ⟨s', hrun, ⟨⟨_, by rw [hF]; exact atBlank_shown_nil hb, ?_⟩, ?_, g.hooks, ?_⟩⟩
  · show (region v.frame).length + _ ≤ _
    rw [hF]; simp [region] at hk ⊢; omega
  · show ShapeOk st.shape v.frame
    rw [hF, hshape]; exact rfl
  · intro _; exact ⟨hF, hshape⟩

/-- Show / hide do not move anything. -/
theorem good_of_rows {cfg : Cfg} {st : St} {v : View} {s s' : Screen} (g : Good cfg st v s)
    (h1 : s'.rows = s.rows) (h2 : s'.row = s.row) (h3 : s'.col = s.col) : Good cfg st v s' := by
  obtain ⟨k, hs, hk⟩ := g.shown
  exact ⟨⟨k, ⟨by rw [h1]; exact hs.rows, by rw [h2]; exact hs.row, by rw [h3]; exact hs.col⟩, hk⟩, g.shape, g.hooks, g.idle⟩

end RichModel.Live
