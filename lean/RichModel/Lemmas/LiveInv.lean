import RichModel.Lemmas.Live
/-!
The invariant relating the model state, the specification-level view and the replayed screen, and its
preservation by every operation of a well-formed history (no faults, repaired bare print).
-/
namespace RichModel.Live
open RichModel RichModel.Screen

/-- Invariant: the view is what the screen shows; everything on display is still on screen; the
recorded shape is the height on display; hook depth follows `started`; nothing is displayed before start. -/
structure Good (cfg : Cfg) (st : St) (v : View) (s : Screen) : Prop where
  shown : ∃ k, Shown s (v.printed.map (cells cfg.cw)) (v.frame.map (cells cfg.cw)) k ∧ (region v.frame).length + k ≤ cfg.height
  shape : ShapeOk st.shape v.frame
  hooks : st.hooks = if st.started then 1 else 0
  idle : st.started = false → v.frame = [] ∧ st.shape = none

theorem columnCalls_noFault (c : Nat) (ts : List Task) : (columnCalls noFault c ts).2 = true := by
  induction ts generalizing c with
  | nil => rfl
  | cons t rest ih =>
    simp only [columnCalls, noFault]
    split
    · simp; exact ih _
    · exact ih _

theorem setShape_length (cw : Char → Nat) (f : Frame) (w h : Nat) : (setShape cw f w h).length = max f.length h := by
  simp [setShape]; omega

/-- What a hooked print does when nothing fails. -/
structure HookedRes (cfg : Cfg) (st : St) (U : List Line) (r : Res) : Prop where
  err : r.err = none
  out : r.out = positionCursor st.shape ++ emitCells cfg U ++ emitFrame ((shown cfg r.st).map (cells cfg.cw))
  shape : ShapeOk r.st.shape (shown cfg r.st)
  isSome : r.st.shape.isSome = true
  hooks : r.st.hooks = st.hooks
  started : r.st.started = st.started
  bufOut : r.st.bufOut = st.bufOut
  bufErr : r.st.bufErr = st.bufErr

theorem hooked_noFault (cfg : Cfg) (st : St) (U : List Line) : HookedRes cfg st U (hooked cfg noFault st U) := by
  cases hk : cfg.kind
  · -- live
    simp only [hooked, hk, noFault]
    refine ⟨rfl, ?_, ?_, rfl, rfl, rfl, rfl, rfl⟩
    · simp [shown, hk, curWidth, rendered]
    · simp [shown, hk, ShapeOk, getShape, curWidth, rendered]
  · -- progress
    simp only [hooked, hk]
    cases hs : st.shape with
    | none =>
      refine ⟨rfl, ?_, ?_, rfl, rfl, rfl, rfl, rfl⟩
      · simp [shown, hk, progressFrame, hs, curWidth]
      · simp [shown, hk, progressFrame, ShapeOk, setShape_length, getShape, curWidth]
    | some wh =>
      refine ⟨rfl, ?_, ?_, rfl, rfl, rfl, rfl, rfl⟩
      · simp [shown, hk, progressFrame, hs, curWidth]
      · simp [shown, hk, progressFrame, ShapeOk, setShape_length, getShape, curWidth]; omega
  · -- status
    simp only [hooked, hk, noFault]
    refine ⟨rfl, ?_, ?_, rfl, rfl, rfl, rfl, rfl⟩
    · simp [shown, hk, curWidth, rendered]
    · simp [shown, hk, ShapeOk, getShape, curWidth, rendered]

theorem plain_terminal {cfg : Cfg} (hc : cfg.plain = true) : cfg.terminal = true := by
  simp [Cfg.plain] at hc; exact hc.1.1

theorem plain_ansi {cfg : Cfg} (hc : cfg.plain = true) : cfg.ansi = true := by
  simp [Cfg.plain] at hc; simp [Cfg.ansi, hc.1.1, hc.1.2]

theorem plain_disable {cfg : Cfg} (hc : cfg.plain = true) : cfg.disable = false := by
  simp [Cfg.plain] at hc; exact hc.2

/-- On a terminal a print goes through the hook when one is installed. -/
theorem doPrint_plain {cfg : Cfg} (hc : cfg.plain = true) (fails : Nat → Bool) (st : St) (U : List Line) :
    doPrint cfg fails st U = if st.hooks > 0 then hooked cfg fails st U else { st := st, out := emitCells cfg U } := by
  simp [doPrint, plain_terminal hc]

/-- `refresh()` when nothing fails: a hooked print of nothing while the hook is installed, silent otherwise. -/
theorem doRefresh_noFault (cfg : Cfg) (hc : cfg.plain = true) (st : St) :
    let r := doRefresh cfg noFault st
    (st.hooks > 0 → HookedRes cfg st [] r) ∧
    (st.hooks = 0 → r.err = none ∧ r.out = [] ∧ r.st.shape = st.shape ∧ r.st.hooks = st.hooks ∧ r.st.started = st.started) := by
  have ha := plain_ansi hc
  have hd := plain_disable hc
  cases hk : cfg.kind
  · simp only [doRefresh, hk, ha, if_true]
    constructor
    · intro h; simp only [h, if_true]; exact hooked_noFault cfg st []
    · intro h; simp [h]
  · simp only [doRefresh, hk, ha, hd, Bool.not_true, Bool.or_self, Bool.false_eq_true, if_false]
    have hcc := columnCalls_noFault st.calls st.tasks
    generalize columnCalls noFault st.calls st.tasks = cc at hcc
    obtain ⟨c, ok⟩ := cc
    simp only at hcc
    subst hcc
    simp only [Bool.not_true, Bool.false_eq_true, if_false]
    constructor
    · intro h
      simp only [h, if_true]
      have := hooked_noFault cfg { st with calls := c, renderable := taskRows st.tasks } []
      exact ⟨this.err, this.out, this.shape, this.isSome, this.hooks, this.started, this.bufOut, this.bufErr⟩
    · intro h; simp [h]
  · simp only [doRefresh, hk, ha, if_true]
    constructor
    · intro h; simp only [h, if_true]; exact hooked_noFault cfg st []
    · intro h; simp [h]

/-- Printing and refreshing never touch the FileProxy buffers (any faults). -/
theorem hooked_bufs (cfg : Cfg) (fails : Nat → Bool) (st : St) (U : List Line) :
    (hooked cfg fails st U).st.bufOut = st.bufOut ∧ (hooked cfg fails st U).st.bufErr = st.bufErr := by
  cases hk : cfg.kind <;> simp only [hooked, hk]
  · split <;> simp
  · simp
  · split <;> simp

theorem hookedFile_bufs (cfg : Cfg) (fails : Nat → Bool) (st : St) (U : List Line) :
    (hookedFile cfg fails st U).st.bufOut = st.bufOut ∧ (hookedFile cfg fails st U).st.bufErr = st.bufErr := by
  unfold hookedFile; split <;> simp

theorem doPrint_bufs (cfg : Cfg) (fails : Nat → Bool) (st : St) (U : List Line) :
    (doPrint cfg fails st U).st.bufOut = st.bufOut ∧ (doPrint cfg fails st U).st.bufErr = st.bufErr := by
  unfold doPrint
  split
  · split
    · exact hooked_bufs cfg fails st U
    · split
      · exact hookedFile_bufs cfg fails st U
      · exact ⟨rfl, rfl⟩
  · exact ⟨rfl, rfl⟩

theorem doRefresh_bufs (cfg : Cfg) (fails : Nat → Bool) (st : St) :
    (doRefresh cfg fails st).st.bufOut = st.bufOut ∧ (doRefresh cfg fails st).st.bufErr = st.bufErr := by
  have other : ((if cfg.ansi then (if st.hooks > 0 then hooked cfg fails st [] else { st := st })
      else if !st.started && !cfg.transient then doPrint cfg fails st [] else { st := st }) : Res).st.bufOut = st.bufOut ∧
      ((if cfg.ansi then (if st.hooks > 0 then hooked cfg fails st [] else { st := st })
      else if !st.started && !cfg.transient then doPrint cfg fails st [] else { st := st }) : Res).st.bufErr = st.bufErr := by
    split
    · split
      · exact hooked_bufs cfg fails st []
      · exact ⟨rfl, rfl⟩
    · split
      · exact doPrint_bufs cfg fails st []
      · exact ⟨rfl, rfl⟩
  cases hk : cfg.kind <;> simp only [doRefresh, hk]
  · exact other
  · split
    · exact ⟨rfl, rfl⟩
    · generalize columnCalls fails st.calls st.tasks = cc
      obtain ⟨c, ok⟩ := cc
      cases ok
      · exact ⟨rfl, rfl⟩
      · simp only [Bool.not_true, Bool.false_eq_true, if_false]
        split
        · exact hooked_bufs cfg fails { st with calls := c, renderable := taskRows st.tasks } []
        · exact ⟨rfl, rfl⟩
  · exact other

/-! ### preservation lemmas -/

theorem atBlank_shown_nil {s : Screen} {P : List Line} {m : Nat} (h : AtBlank s P m) : Shown s P [] (m - 1) := by
  obtain ⟨m', rfl⟩ : ∃ m', m = m' + 1 := ⟨m - 1, by have := h.pos; omega⟩
  refine ⟨?_, ?_, ?_⟩
  · rw [h.rows]; simp [region, List.replicate_succ]
  · rw [h.row]; simp [region]
  · rw [h.col]; simp [region]

theorem region_map_length (c : Line → Line) (F : Frame) : (region (F.map c)).length = (region F).length := by
  cases F <;> simp [region]

theorem shapeOk_map (c : Line → Line) {shape : Option (Nat × Nat)} {F : Frame} (h : ShapeOk shape F) :
    ShapeOk shape (F.map c) := by
  cases shape with
  | none => have : F = [] := h; subst this; exact rfl
  | some wh => obtain ⟨w, hh⟩ := wh; show hh = (F.map c).length; rw [List.length_map]; exact h

/-- Screen part of a hooked print (needs no fit of the new frame).  The screen holds *cells*. -/
theorem hooked_screen {cfg : Cfg} {st : St} {P : List Line} {F : Frame} {s : Screen} {U : List Line} {r : Res}
    (hsh : ∃ k, Shown s (P.map (cells cfg.cw)) (F.map (cells cfg.cw)) k ∧ (region F).length + k ≤ cfg.height)
    (hshape : ShapeOk st.shape F) (hr : HookedRes cfg st U r) :
    ∃ s' k', Run cfg.height P.length s r.out s' ∧
      Shown s' ((P ++ U).map (cells cfg.cw)) ((shown cfg r.st).map (cells cfg.cw)) k' ∧
      (region (shown cfg r.st)).length + k' ≤ max cfg.height (region (shown cfg r.st)).length ∧
      s'.visible = s.visible := by
  obtain ⟨k, hs, hk⟩ := hsh
  obtain ⟨s', k', hrun, hs', hk', hv⟩ := run_hooked (H := cfg.height) hs (shapeOk_map _ hshape)
    (by rw [region_map_length]; exact hk) (U.map (cells cfg.cw)) ((shown cfg r.st).map (cells cfg.cw))
  refine ⟨s', k', ?_, ?_, ?_, hv⟩
  · rw [hr.out]; rw [List.length_map] at hrun; exact hrun
  · rw [List.map_append]; exact hs'
  · rw [region_map_length] at hk'; exact hk'

theorem good_hooked {cfg : Cfg} {st : St} {v : View} {s : Screen} {U : List Line} {r : Res}
    (g : Good cfg st v s) (hh : st.hooks > 0) (hr : HookedRes cfg st U r)
    (hfit : (shown cfg r.st).length ≤ cfg.height) (hH : 1 ≤ cfg.height) :
    ∃ s', Run cfg.height v.printed.length s r.out s' ∧
      Good cfg r.st { printed := v.printed ++ U, frame := shown cfg r.st } s' := by
  obtain ⟨s', k', hrun, hs', hk', _⟩ := hooked_screen g.shown g.shape hr
  refine ⟨s', hrun, ⟨⟨k', hs', ?_⟩, hr.shape, ?_, ?_⟩⟩
  · show (region (shown cfg r.st)).length + k' ≤ cfg.height
    have := region_length (shown cfg r.st); omega
  · rw [hr.hooks, hr.started]; exact g.hooks
  · intro h
    rw [hr.started] at h
    have := g.hooks; rw [h] at this; simp at this; omega

theorem good_silent {cfg : Cfg} {st st' : St} {v : View} {s : Screen}
    (g : Good cfg st v s) (h1 : st'.shape = st.shape) (h2 : st'.hooks = st.hooks) (h3 : st'.started = st.started) :
    Good cfg st' v s :=
  ⟨g.shown, by rw [h1]; exact g.shape, by rw [h2, h3]; exact g.hooks, by rw [h3, h1]; exact g.idle⟩

theorem good_idle_print {cfg : Cfg} {st : St} {v : View} {s : Screen} (U : List Line)
    (g : Good cfg st v s) (hh : st.hooks = 0) :
    ∃ s', Run cfg.height v.printed.length s (emitCells cfg U) s' ∧ Good cfg st { v with printed := v.printed ++ U } s' := by
  have hst : st.started = false := by
    have := g.hooks; rw [hh] at this
    cases h : st.started <;> simp [h] at this ⊢
  obtain ⟨hF, hshape⟩ := g.idle hst
  obtain ⟨k, hs, hk⟩ := g.shown
  rw [hF] at hs hk
  obtain ⟨s', hrun, hb, _⟩ := run_lines (H := cfg.height) (U.map (cells cfg.cw)) s (v.printed.map (cells cfg.cw)) _
    (shown_nil_atBlank (by simpa using hs))
  rw [List.length_map] at hrun
  have hsh := atBlank_shown_nil hb
  refine ⟨s', hrun, ⟨⟨max (1 + k - (U.map (cells cfg.cw)).length) 1 - 1, ?_, ?_⟩, ?_, g.hooks, ?_⟩⟩
  · show Shown s' ((v.printed ++ U).map (cells cfg.cw)) (v.frame.map (cells cfg.cw)) _
    rw [hF, List.map_append]; exact hsh
  · show (region v.frame).length + _ ≤ _
    rw [hF]; simp [region] at hk ⊢; omega
  · show ShapeOk st.shape v.frame
    rw [hF, hshape]; exact rfl
  · intro _; exact ⟨hF, hshape⟩

/-- Show / hide do not move anything. -/
theorem good_of_rows {cfg : Cfg} {st : St} {v : View} {s s' : Screen} (g : Good cfg st v s)
    (h1 : s'.rows = s.rows) (h2 : s'.row = s.row) (h3 : s'.col = s.col) : Good cfg st v s' := by
  obtain ⟨k, hs, hk⟩ := g.shown
  exact ⟨⟨k, ⟨by rw [h1]; exact hs.rows, by rw [h2]; exact hs.row, by rw [h3]; exact hs.col⟩, hk⟩, g.shape, g.hooks, g.idle⟩

end RichModel.Live
