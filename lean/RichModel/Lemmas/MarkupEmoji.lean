import RichModel.Lemmas.MarkupRefineC
namespace RichModel.Markup

/-! ### `_emoji_replace` leaves a text without emoji codes alone -/

theorem emojiGo_skip (isSpace : Char → Bool) (lookup : List Char → Option (List Char)) (xs r : List Char) :
    emojiGo isSpace lookup xs.length (xs ++ r) = emojiGo isSpace lookup 0 r := by
  induction xs with
  | nil => rfl
  | cons x xs ih => simp [emojiGo, ih]

theorem emojiName_spec {isSpace : Char → Bool} {cs n r : List Char} (h : emojiName isSpace cs = some (n, r)) :
    cs = n ++ ':' :: r := by
  induction cs generalizing n r with
  | nil => simp [emojiName] at h
  | cons c cs ih =>
    simp only [emojiName] at h
    by_cases h1 : c = ':'
    · simp [h1] at h; obtain ⟨rfl, rfl⟩ := h; simp [h1]
    · simp only [h1, if_false] at h
      by_cases h2 : isSpace c = true
      · simp [h2] at h
      · simp only [h2] at h
        cases hn : emojiName isSpace cs with
        | none => simp [hn] at h
        | some p =>
          obtain ⟨n', r'⟩ := p
          simp [hn] at h
          obtain ⟨rfl, rfl⟩ := h
          rw [ih hn]; simp

theorem NoEmojiCode.tail {lookup : List Char → Option (List Char)} {c : Char} {cs : List Char}
    (h : NoEmojiCode lookup (c :: cs)) : NoEmojiCode lookup cs := by
  intro pre name post e
  exact h (c :: pre) name post (by rw [e]; rfl)

theorem NoEmojiCode.infix {lookup : List Char → Option (List Char)} {u t v : List Char}
    (h : NoEmojiCode lookup (u ++ t ++ v)) : NoEmojiCode lookup t := by
  intro pre name post e
  exact h (u ++ pre) name (post ++ v) (by rw [e]; simp)

theorem emojiGo_id (isSpace : Char → Bool) (lookup : List Char → Option (List Char)) (n : Nat) :
    ∀ s : List Char, s.length ≤ n → NoEmojiCode lookup s → emojiGo isSpace lookup 0 s = s := by
  induction n with
  | zero =>
    intro s h _
    have : s = [] := List.eq_nil_of_length_eq_zero (by omega)
    subst this; rfl
  | succ n ih =>
    intro s h hn
    cases s with
    | nil => rfl
    | cons c cs =>
      have hl : cs.length ≤ n := by simp at h; omega
      by_cases hc : c = ':'
      · subst hc
        simp only [emojiGo, if_true]
        cases he : emojiName isSpace cs with
        | none => simp only; rw [ih cs hl hn.tail]
        | some p =>
          obtain ⟨nm, r⟩ := p
          have e := emojiName_spec he
          have hlk : lookup nm = none := hn [] nm r (by rw [e]; rfl)
          simp only [hlk]
          have hr : r.length ≤ n := by rw [e] at hl; simp at hl; omega
          have hskip : emojiGo isSpace lookup (nm.length + 1) cs = emojiGo isSpace lookup 0 r := by
            have := emojiGo_skip isSpace lookup (nm ++ [':']) r
            simp at this
            rw [e]; simpa using this
          rw [hskip, ih r hr]
          · rw [e]; simp
          · have : NoEmojiCode lookup ((':' :: nm ++ [':']) ++ r ++ []) := by
              simpa [e] using hn
            exact this.infix
      · simp only [emojiGo, hc, if_false]
        rw [ih cs hl hn.tail]

theorem chunkText_id (cfg : Cfg) (t : List Char)
    (h : ∀ lookup, cfg.emoji = some lookup → NoEmojiCode lookup t) : chunkText cfg t = stripControl t := by
  unfold chunkText
  cases he : cfg.emoji with
  | none => rfl
  | some lookup =>
    simp only
    rw [emojiReplace, emojiGo_id cfg.isSpace lookup t.length t (Nat.le_refl _) (h lookup he)]

/-! ### how the chunker splits concatenations and escaped text -/

theorem chunkSt_append (l1 : List Lx) : ∀ (acc : List Char) (l2 : List Lx),
    chunkSt acc (l1 ++ l2) =
      ((chunkSt acc l1).1 ++ (chunkSt (chunkSt acc l1).2 l2).1, (chunkSt (chunkSt acc l1).2 l2).2) := by
  induction l1 with
  | nil => intro acc l2; simp [chunkSt]
  | cons x xs ih =>
    intro acc l2
    cases x with
    | ch c => simp only [List.cons_append, chunkSt]; exact ih _ _
    | tag k b =>
      simp only [List.cons_append, chunkSt]
      rw [ih [] l2]
      simp

theorem chunkGo_append (l1 l2 : List Lx) (acc : List Char) :
    chunkGo acc (l1 ++ l2) = (chunkSt acc l1).1 ++ chunkGo (chunkSt acc l1).2 l2 := by
  simp [chunkGo, chunkSt_append]

theorem tagChunks_bump (k : Nat) (b : List Char) :
    (∀ c ∈ tagChunks (2 * k + 1) b, c.isTxt = true) ∧
    (tagChunks (2 * k + 1) b).flatMap CEv.text = bsl k ++ '[' :: b ++ [']'] := by
  have h1 : (2 * k + 1) / 2 = k := by omega
  have h2 : (2 * k + 1) % 2 = 1 := by omega
  have h0 : 2 * k + 1 ≠ 0 := by omega
  unfold tagChunks
  simp only [h0, if_false, h1, h2, if_true]
  by_cases hk : k = 0
  · subst hk; simp [CEv.isTxt, CEv.text, bsl]
  · simp [hk, CEv.isTxt, CEv.text]

theorem flushC_txt (acc : List Char) : (∀ c ∈ flushC acc, c.isTxt = true) ∧ (flushC acc).flatMap CEv.text = acc := by
  by_cases ha : acc = [] <;> simp [flushC, ha, CEv.isTxt, CEv.text]

/-- escaped text contributes text chunks only, and they spell the pending text followed by the
original text -/
theorem chunkSt_bump (l : List Lx) : ∀ acc,
    (∀ c ∈ (chunkSt acc (l.map Lx.bump)).1, c.isTxt = true) ∧
    (chunkSt acc (l.map Lx.bump)).1.flatMap CEv.text ++ (chunkSt acc (l.map Lx.bump)).2 = acc ++ flatten l := by
  induction l with
  | nil => intro acc; simp [chunkSt, flatten]
  | cons x xs ih =>
    intro acc
    cases x with
    | ch c =>
      simp only [List.map_cons, Lx.bump, chunkSt]
      obtain ⟨h1, h2⟩ := ih (acc ++ [c])
      exact ⟨h1, by rw [h2, flatten_cons]; simp [Lx.flat]⟩
    | tag k b =>
      simp only [List.map_cons, Lx.bump, chunkSt]
      obtain ⟨h1, h2⟩ := ih []
      obtain ⟨t1, t2⟩ := tagChunks_bump k b
      obtain ⟨f1, f2⟩ := flushC_txt acc
      constructor
      · intro c hc
        simp only [List.mem_append] at hc
        rcases hc with (hc | hc) | hc
        · exact f1 c hc
        · exact t1 c hc
        · exact h1 c hc
      · simp only [List.flatMap_append, List.append_assoc]
        rw [h2, f2, t2, flatten_cons]
        simp [Lx.flat]

theorem runC_txts (cfg : Cfg) (cs : List CEv) (h : ∀ c ∈ cs, c.isTxt = true) : ∀ st,
    runC cfg st cs = some { st with text := st.text ++ cs.flatMap (fun c => chunkText cfg c.text) } := by
  induction cs with
  | nil => intro st; simp [runC]
  | cons c cs ih =>
    intro st
    cases c with
    | tag t => have := h (.tag t) (by simp); simp [CEv.isTxt] at this
    | txt s =>
      simp only [runC, stepC]
      rw [ih (fun c hc => h c (by simp [hc]))]
      simp [CEv.text]

/-- **render_escape, exact, any emoji setting**: the escaped text is rendered chunk by chunk —
every chunk is text — and there is never a span or an error. -/
theorem render_escape_chunks (cfg : Cfg) (s : List Char) :
    (∀ c ∈ chunks (escape s), c.isTxt = true) ∧
    (chunks (escape s)).flatMap CEv.text = s ∧
    render cfg (escape s) = .ok ((chunks (escape s)).flatMap (fun c => chunkText cfg c.text), []) := by
  have hb := chunkSt_bump (lex s) []
  have hl : chunks (escape s) = chunkGo [] ((lex s).map Lx.bump) := by rw [chunks, lex_escape]
  obtain ⟨f1, f2⟩ := flushC_txt (chunkSt [] ((lex s).map Lx.bump)).2
  have hall : ∀ c ∈ chunks (escape s), c.isTxt = true := by
    rw [hl, chunkGo]
    intro c hc
    simp only [List.mem_append] at hc
    rcases hc with hc | hc
    · exact hb.1 c hc
    · exact f1 c hc
  refine ⟨hall, ?_, ?_⟩
  · rw [hl, chunkGo, List.flatMap_append, f2, hb.2, flatten_lex]; rfl
  · have hr := render_eq_runC cfg (escape s)
    rw [runC_txts cfg _ hall] at hr
    simp only [Option.map_some, St.init, List.nil_append] at hr
    rw [finish_plain] at hr
    exact toOption_eq_some hr

theorem flatMap_stripControl (ts : List (List Char)) :
    ts.flatMap stripControl = stripControl ts.flatten := by
  induction ts with
  | nil => rfl
  | cons t ts ih => simp [stripControl_append, ih]

theorem flatMap_congr' {α β : Type} {f g : α → List β} (l : List α) (h : ∀ x ∈ l, f x = g x) :
    l.flatMap f = l.flatMap g := by
  induction l with
  | nil => rfl
  | cons x xs ih =>
    simp only [List.flatMap_cons]
    rw [h x (by simp), ih (fun y hy => h y (by simp [hy]))]

theorem flatMap_strip_text (cs : List CEv) :
    cs.flatMap (fun c => stripControl c.text) = stripControl (cs.flatMap CEv.text) := by
  induction cs with
  | nil => rfl
  | cons c cs ih => simp [stripControl_append, ih]

/-- …hence verbatim whenever no `:name:` of the text is in the emoji table (or emoji is off). -/
theorem render_escape_noEmoji (cfg : Cfg) (s : List Char)
    (h : ∀ lookup, cfg.emoji = some lookup → NoEmojiCode lookup s) :
    render cfg (escape s) = .ok (stripControl s, []) := by
  obtain ⟨_, hcat, hr⟩ := render_escape_chunks cfg s
  rw [hr]
  have : (chunks (escape s)).flatMap (fun c => chunkText cfg c.text) =
      (chunks (escape s)).flatMap (fun c => stripControl c.text) := by
    apply flatMap_congr'
    intro c hc
    apply chunkText_id
    intro lookup hl
    have hin : c.text ∈ (chunks (escape s)).map CEv.text := List.mem_map_of_mem hc
    obtain ⟨u, v, huv⟩ := List.infix_of_mem_flatten hin
    have hs : s = u ++ c.text ++ v := by
      rw [← hcat, huv, List.flatMap_def]
    have := h lookup hl
    rw [hs] at this
    exact this.infix
  rw [this]
  rw [flatMap_strip_text, hcat]

end RichModel.Markup
