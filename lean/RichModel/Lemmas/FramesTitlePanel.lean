import RichModel.Lemmas.FramesTitleRule
import RichModel.Lemmas.TextOps3
import RichModel.Lemmas.FramesStyled
/-!
The title part of a `Panel`'s top border for a title that is a real `Text` (`panelTitleText` = `Panel._title`,
`textTitleO` = `title_text.style = …; title_text.align(…); console.render(title_text, <options of that width>)`,
Model/FramesTitle.lean): exactly the `cwid − 2` cells it was aligned to, on one line — any spans, tabs, line feeds,
wide characters, any alignment, a title longer than the panel (C08, deepening round 4).  One hypothesis beyond
consistency: the title's own `overflow` is not "ignore" (`Text.align` truncates with the text's OWN overflow method; a
title that says "ignore" is not truncated and the border is as long as the title — see the witness in Props/C08).
-/
namespace RichModel.Frames
open RichModel RichModel.Text RichModel.Wrap

variable {σ : Type}

theorem ft_truncate_none (cw : Char → Nat) (t : Text σ) (w : Int) (pad : Bool) :
    t.truncate cw w none pad = t.truncate cw w (some (t.overflow.getD RichModel.Overflow.fold)) pad := by
  unfold truncate
  cases t.overflow <;> rfl

theorem ft_lineLength_chars (cw : Char → Nat) : ∀ (l : List (Segment σ)), (∀ s ∈ l, s.control = false) →
    lineLength cw l = cellLen cw (segChars l)
  | [], _ => rfl
  | s :: l, h => by
    have ih := ft_lineLength_chars cw l (fun x hx => h x (List.mem_cons_of_mem _ hx))
    have hs := h s (by simp)
    simp only [lineLength, segChars, List.map_cons, List.sum_cons, List.flatMap_cons] at ih ⊢
    rw [cellLen_append, ih]
    simp [Segment.cellLength, hs]

/-- `Panel._title` on a consistent `Text` whose tab size is positive: succeeds; the result is consistent, `GoodC`, ends
with `""` and keeps the overflow method -/
theorem ft_panelTitleText [BEq σ] (t : Text σ) (hi : Inv t) (ts : Nat) (hts : 0 < ts) (htab : t.tabSize = some ts) :
    ∃ title, panelTitleText Variant.repaired true t = .ok (some title) ∧ OkT [] title ∧ title.overflow = t.overflow := by
  unfold panelTitleText
  simp only [Bool.not_true, Bool.false_eq_true, if_false]
  have hmapG : NoCtl (t.plain.map (fun c => if c == '\n' then ' ' else c)) := by
    intro c hc
    obtain ⟨d, hd, rfl⟩ := List.mem_map.mp hc
    split
    · exact noCtl_space
    · exact hi.2.1 d hd
  have hi1 : Inv ({ t with endStr := [] } : Text σ) := hi
  have hi2 := inv_setPlain _ (t.plain.map (fun c => if c == '\n' then ' ' else c)) hi1 hmapG
  have hnl : '\n' ∉ (({ t with endStr := [] } : Text σ).setPlain (t.plain.map (fun c => if c == '\n' then ' ' else c))).plain := by
    rw [setPlain_plain]
    intro hc
    obtain ⟨d, _, hd⟩ := List.mem_map.mp hc
    split at hd
    · exact absurd hd (by decide)
    · rename_i hne
      exact hne (by simp [hd])
  have hfields : (({ t with endStr := [] } : Text σ).setPlain (t.plain.map (fun c => if c == '\n' then ' ' else c))).tabSize = some ts
      ∧ (({ t with endStr := [] } : Text σ).setPlain (t.plain.map (fun c => if c == '\n' then ' ' else c))).overflow = t.overflow
      ∧ (({ t with endStr := [] } : Text σ).setPlain (t.plain.map (fun c => if c == '\n' then ' ' else c))).endStr = [] := by
    rw [← htab, setPlain_eq]
    split
    · split <;> exact ⟨rfl, rfl, rfl⟩
    · exact ⟨rfl, rfl, rfl⟩
  generalize (({ t with endStr := [] } : Text σ).setPlain (t.plain.map (fun c => if c == '\n' then ' ' else c))) = t2
    at hi2 hnl hfields ⊢
  have hi3 : Inv ({ t2 with noWrap := some true } : Text σ) := hi2
  obtain ⟨q, hq, hqo⟩ := okT_expandTabs (e := ([] : List Char)) ({ t2 with noWrap := some true } : Text σ) hi3 hnl hfields.2.2 ts hts
    hfields.1
  have hqov : q.overflow = t.overflow := by
    rw [← hfields.2.1]
    unfold expandTabs at hq
    split at hq
    · cases hq; rfl
    · simp only [Option.orElse] at hq
      split at hq
      · cases hq
      · cases hq
      · obtain ⟨a, _, hq⟩ := bind_ok.mp hq
        obtain ⟨r, _, hq⟩ := bind_ok.mp hq
        cases hq
        rfl
  rw [hq]
  simp only [bind, Except.bind]
  refine ⟨_, rfl, ?_, ?_⟩
  · have hpe := pad_eq_left_right q 1 ' ' hqo.inv noCtl_space
    have hpad : (q.pad 1 ' ').plain = [' '] ++ q.plain ++ [' '] := by
      rw [show (1 : Int) = ((1 : Nat) : Int) from rfl, hpe, padRight_plain, padLeft_plain]
      rfl
    refine ⟨inv_pad q 1 ' ' hqo.inv noCtl_space, ?_, ?_⟩
    · rw [hpad]
      exact GoodC.append (GoodC.append (GoodC.single goodC_space) hqo.good) (GoodC.single goodC_space)
    · rw [← hqo.en]
      unfold pad
      simp only [show ((1 : Int) != 0) = true from rfl, if_true]
      exact setPlain_endStr _ _
  · rw [← hqov]
    unfold pad
    simp only [show ((1 : Int) != 0) = true from rfl, if_true]
    rw [setPlain_eq]
    split
    · split <;> rfl
    · rfl

/-- `Text.align(method, n, ch)` (repaired) of a consistent `GoodC` text whose overflow method is not "ignore", `n ≥ 1`,
one-cell fill character: exactly `n` cells -/
theorem ft_align_exact (cw : Char → Nat) (hsp : cw ' ' = 1) (h2 : ∀ c, cw c ≤ 2) (hel : cw '…' = 1) {e : List Char}
    (t : Text σ) (ht : OkT e t) (hov : t.overflow ≠ some RichModel.Overflow.ignore) (m : AlignMethod) (n : Nat) (hn : 1 ≤ n)
    (ch : Char) (hch : cw ch = 1) (hg : GoodC [ch]) :
    OkT e (t.align Variant.repaired cw m (n : Int) ch) ∧ cellLen cw (t.align Variant.repaired cw m (n : Int) ch).plain = n := by
  have hT := okT_truncate cw ht (n : Int) none false
  have hfit : cellLen cw (t.truncate cw (n : Int)).plain ≤ n := by
    rw [ft_truncate_none]
    apply truncate_fits cw hsp h2 hel t n hn
    intro h
    cases hto : t.overflow with
    | none => rw [hto] at h; cases h
    | some ov => rw [hto] at h hov; simp only [Option.getD_some] at h; exact hov (by rw [h])
  have hchS : isStripCode ch = false := (hg ch (by simp)).2.2
  unfold align
  simp only [show Variant.repaired.alignNeg = false from rfl, Bool.false_eq_true, if_false]
  generalize (t.truncate cw (n : Int)) = T at hT hfit ⊢
  generalize hc : cellLen cw T.plain = c at hfit ⊢
  have hrep : ∀ k : Nat, GoodC (List.replicate k ch) := by
    intro k x hx; rw [(List.mem_replicate.mp hx).2]; exact hg ch (by simp)
  have hex : (n : Int) - (c : Int) = ((n - c : Nat) : Int) := by omega
  by_cases hpos : (n : Int) - (c : Int) > 0
  · simp only [hpos, decide_true, if_true]
    rw [hex]
    cases m with
    | left =>
      simp only []
      refine ⟨⟨inv_padRight _ _ _ hT.inv hchS, ?_, ?_⟩, ?_⟩
      · rw [padRight_plain]; exact GoodC.append hT.good (hrep _)
      · rw [padRight_eq]; split
        · rw [setPlain_endStr]; exact hT.en
        · exact hT.en
      · rw [padRight_plain, cellLen_append, cellLen_replicate, hch, hc]; omega
    | right =>
      simp only []
      have hple : (T.padLeft ((n - c : Nat) : Int) ch).endStr = e := by
        rw [padLeft_eq]; split
        · show (Text.setPlain _ _).endStr = e
          rw [setPlain_endStr]; exact hT.en
        · exact hT.en
      refine ⟨⟨inv_padLeft _ _ _ hT.inv hchS, ?_, hple⟩, ?_⟩
      · rw [padLeft_plain]; exact GoodC.append (hrep _) hT.good
      · rw [padLeft_plain, cellLen_append, cellLen_replicate, hch, hc]; omega
    | center =>
      simp only []
      have hl : ((n - c : Nat) : Int) / 2 = (((n - c) / 2 : Nat) : Int) := by omega
      have hr : ((n - c : Nat) : Int) - (((n - c) / 2 : Nat) : Int) = ((n - c - (n - c) / 2 : Nat) : Int) := by omega
      rw [hl, hr]
      have hple : (T.padLeft (((n - c) / 2 : Nat) : Int) ch).endStr = e := by
        rw [padLeft_eq]; split
        · show (Text.setPlain _ _).endStr = e
          rw [setPlain_endStr]; exact hT.en
        · exact hT.en
      refine ⟨⟨inv_padRight _ _ _ (inv_padLeft _ _ _ hT.inv hchS) hchS, ?_, ?_⟩, ?_⟩
      · rw [padRight_plain, padLeft_plain]; exact GoodC.append (GoodC.append (hrep _) hT.good) (hrep _)
      · rw [padRight_eq]; split
        · rw [setPlain_endStr]; exact hple
        · exact hple
      · rw [padRight_plain, padLeft_plain, cellLen_append, cellLen_append, cellLen_replicate, cellLen_replicate, hch, hc]
        omega
  · simp only [hpos, decide_false, Bool.false_eq_true, if_false]
    exact ⟨hT, by omega⟩

/-- **The title part of a panel's top border is exactly the `cwid − 2` cells it was aligned to**, on one line, for
every consistent `Text` title whose overflow method is not "ignore". -/
theorem textTitleO_own_width [BEq σ] (cfg : TCfg σ) (hwv : cfg.wv = WVariant.repaired) (hsp : cfg.cw ' ' = 1)
    (h2 : ∀ c, cfg.cw c ≤ 2) (hel : cfg.cw '…' = 1) (a : AlignM) (t0 : Text σ) (hi : Inv t0) (ts : Nat) (hts : 0 < ts)
    (htab : t0.tabSize = some ts) (hov : t0.overflow ≠ some RichModel.Overflow.ignore) (st : σ) (cwid : Int) (ch : Char)
    (hch : cfg.cw ch = 1) (hg : GoodC [ch]) :
    ∃ title segs, panelTitleText Variant.repaired true t0 = .ok (some title) ∧
      (textTitleO cfg a title).render st (cwid - 2) ch (cwid - 2) = some segs ∧
      lineLength cfg.cw segs = (cwid - 2).toNat ∧ '\n' ∉ segChars segs ∧ ∀ s ∈ segs, s.control = false := by
  obtain ⟨title, htitle, hok, hovt⟩ := ft_panelTitleText t0 hi ts hts htab
  refine ⟨title, ?_⟩
  unfold textTitleO
  simp only []
  by_cases hrw : cwid - 2 < 1
  · refine ⟨[], htitle, by simp [hrw], ?_, by simp [segChars], by simp⟩
    have : (cwid - 2).toNat = 0 := by omega
    rw [this]; rfl
  · simp only [hrw, if_false]
    obtain ⟨n, hn⟩ : ∃ n : Nat, cwid - 2 = (n : Int) := ⟨(cwid - 2).toNat, by omega⟩
    rw [hn]
    have hn1 : 1 ≤ n := by omega
    have hok1 : OkT [] ({ title with style := st } : Text σ) := ⟨hok.inv, hok.good, hok.en⟩
    have hov1 : ({ title with style := st } : Text σ).overflow ≠ some RichModel.Overflow.ignore := by
      show title.overflow ≠ _
      rw [hovt]; exact hov
    have hv : cfg.wv.text = Variant.repaired := by rw [hwv]; rfl
    obtain ⟨hA, hAw⟩ := ft_align_exact cfg.cw hsp h2 hel _ hok1 hov1 (toAlignMethod a) n hn1 ch hch hg
    rw [hv]
    obtain ⟨segs, x, hs, hx, hxw, hxm, hctl⟩ := textConsoleG_one_line cfg hwv hsp _ hA.inv
      (fun h => (hA.good _ h).1 rfl) (fun h => (hA.good _ h).2.1 rfl) n hAw {}
    simp only [Int.toNat_natCast]
    rw [hs]
    rw [hA.en, List.append_nil] at hx
    refine ⟨segs, htitle, rfl, ?_, ?_, hctl⟩
    · rw [ft_lineLength_chars cfg.cw segs hctl, hx, hxw]
    · rw [hx]
      intro hc
      rcases hxm _ hc with h | h
      · exact (hA.good _ h).1 rfl
      · exact absurd h (by decide)

end RichModel.Frames
