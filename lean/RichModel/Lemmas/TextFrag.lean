import RichModel.Lemmas.TextOps3
import RichModel.Model.TextFrag
import RichModel.Lemmas.WrapFull
/-!
The fragment list refines the concatenation model: `abs (step ft op) = absStep (abs ft) op` for every operation, hence
for every history; the `plain` getter's normalisation (join + reset to one fragment) is unobservable.
-/
namespace RichModel
namespace Text
namespace FText
variable {σ : Type}

/-- the same operation on the abstract `Text` of `Model/Text.lean` -/
def absStep (t : Text σ) : FOp σ → Text σ
  | .getPlain => t
  | .setPlain s => t.setPlain s
  | .appendStr s st => t.appendStr s st
  | .appendText u => t.appendText u.abs
  | .appendT u => t.appendT u.abs
  | .appendTokens toks => t.appendTokens toks
  | .rightCrop n => t.rightCrop Variant.repaired n
  | .copy => t.copy Variant.repaired
  | .join lines => t.join Variant.repaired (lines.map abs)

theorem abs_mk_eq (frs : List (List Char)) (c : Text σ) (h : frs.flatten = c.plain) : abs ⟨frs, c⟩ = c := by
  cases c
  simp only [abs] at h ⊢
  simp only [h]

theorem normalise_flatten (ft : FText σ) : ft.normalise.frags.flatten = ft.frags.flatten := by
  unfold normalise
  split
  · simp
  · rfl

theorem normalise_core (ft : FText σ) : ft.normalise.core = ft.core := by
  unfold normalise
  split <;> rfl

/-- reading `plain` changes nothing that can be seen through the abstraction -/
theorem abs_normalise (ft : FText σ) : ft.normalise.abs = ft.abs := by
  simp only [abs, normalise_flatten, normalise_core]

theorem appendTokens_plain (toks : List (List Char × Option σ)) (t : Text σ) :
    (t.appendTokens toks).plain = t.plain ++ (toks.map (·.1)).flatten := by
  rw [appendTokens_fold]
  induction toks generalizing t with
  | nil => simp
  | cons tok rest ih =>
    simp only [List.foldl_cons, List.map_cons, List.flatten_cons]
    rw [ih (appendTok t tok)]
    simp [appendTok, List.append_assoc]

theorem abs_plain (ft : FText σ) : ft.abs.plain = ft.frags.flatten := rfl
theorem abs_length (ft : FText σ) : ft.abs.length = ft.core.length := rfl

theorem joinSeq_map_abs (sep sep' : FText σ) (hs : sep'.abs = sep.abs) :
    ∀ (lines : List (FText σ)), joinSeq sep.abs (lines.map abs) = (jseq sep.abs.plain.isEmpty sep' lines).map abs
  | [] => rfl
  | [_] => rfl
  | x :: y :: rest => by
    have ih := joinSeq_map_abs sep sep' hs (y :: rest)
    simp only [List.map_cons] at ih
    simp only [List.map_cons, joinSeq, jseq]
    split
    · simp only [List.map_cons, ih]
    · simp only [List.map_cons, ih, hs]

theorem flatten_map_flatten {α : Type} (l : List (List (List α))) : (l.map List.flatten).flatten = l.flatten.flatten := by
  induction l with
  | nil => rfl
  | cons x xs ih => simp [ih]

/-- **the fragment list refines the concatenation model**, operation by operation -/
theorem abs_step (ft : FText σ) (op : FOp σ) : (ft.step op).abs = absStep ft.abs op := by
  cases op with
  | getPlain => exact abs_normalise ft
  | setPlain s =>
    apply abs_mk_eq
    simp only [normalise_flatten]
    rw [setPlain_plain]
    split
    · simp
    · rename_i hne
      simp only [bne_iff_ne, ne_eq, Decidable.not_not] at hne
      rw [normalise_flatten]; exact hne.symm
  | appendStr s st =>
    apply abs_mk_eq
    rw [appendStr_eq]
    split
    · simp [abs_plain]
    · rfl
  | appendText u =>
    apply abs_mk_eq
    simp [appendText, abs_plain]
  | appendT u =>
    apply abs_mk_eq
    unfold appendT
    rw [abs_length]
    split
    · simp [appendText, abs_plain]
    · rfl
  | appendTokens toks =>
    apply abs_mk_eq
    rw [appendTokens_plain]
    simp [abs_plain]
  | rightCrop n =>
    apply abs_mk_eq
    show _ = (ft.abs.rightCrop Variant.repaired n).plain
    rw [rightCrop_eq]
    simp [abs_plain]
  | copy =>
    apply abs_mk_eq
    simp [copy, Text.new, abs_plain]
  | join lines =>
    apply abs_mk_eq
    show _ = (ft.abs.join Variant.repaired (lines.map abs)).plain
    rw [Wrap.join_plain, joinSeq_map_abs ft ft.normalise (abs_normalise ft) lines, List.map_map]
    have : (fun x => x.plain) ∘ abs = (fun (x : FText σ) => x.frags.flatten) := rfl
    rw [this, normalise_flatten, abs_plain]
    simp only [List.flatMap_def]
    have e : ∀ (L : List (List (List Char))), ([[]] ++ L.flatten).flatten = L.flatten.flatten := by intro L; simp
    rw [e, ← flatten_map_flatten, List.map_map]
    rfl

/-- …hence history by history: running any sequence of operations on the fragment state and abstracting is running
the same sequence on the abstract text -/
theorem abs_run (ops : List (FOp σ)) (ft : FText σ) : (ft.run ops).abs = ops.foldl absStep ft.abs := by
  unfold run
  induction ops generalizing ft with
  | nil => rfl
  | cons op rest ih => simp only [List.foldl_cons]; rw [ih (ft.step op), abs_step]

/-- **`plain`'s normalisation is unobservable**: reading `plain` at any point of a history — before any operation,
any number of times — changes neither the abstract state reached nor, therefore, anything `plain` / `len()` /
`render()` / any later operation shows -/
theorem normalise_unobservable (ops : List (FOp σ)) (ft : FText σ) :
    (ft.normalise.run ops).abs = (ft.run ops).abs ∧ (ft.run (.getPlain :: ops)).abs = (ft.run ops).abs := by
  refine ⟨by rw [abs_run, abs_run, abs_normalise], ?_⟩
  show ((ft.step .getPlain).run ops).abs = _
  rw [abs_run, abs_run, abs_step]
  rfl

theorem abs_new (text : List Char) (style : σ) : (FText.new Variant.repaired text style).abs = Text.new Variant.repaired text style := by
  apply abs_mk_eq
  simp [Text.new]

end FText
end Text
end RichModel
