import RichModel.Model.Cells
/-! Helper lemmas for `Model/Cells` (binary search, cache, set_cell_size, chop_cells). -/
namespace RichModel

/-- Executable side condition on a width table: every row is `start ≤ end`, and each row ends
before the next one starts.  Checked on the generated table by `decide +kernel`. -/
def adjSorted : List WidthRow → Bool
  | [] => true
  | [r] => decide (r.1 ≤ r.2.1)
  | r :: s :: rest => decide (r.1 ≤ r.2.1) && decide (r.2.1 < s.1) && adjSorted (s :: rest)

def rowContains (r : WidthRow) (cp : Nat) : Prop := r.1 ≤ cp ∧ cp ≤ r.2.1

instance (r : WidthRow) (cp : Nat) : Decidable (rowContains r cp) := by
  unfold rowContains; exact inferInstance

theorem adjSorted_wf : ∀ (l : List WidthRow), adjSorted l = true → ∀ r ∈ l, r.1 ≤ r.2.1
  | [], _, r, hr => by simp at hr
  | [a], h, r, hr => by
      simp at hr; subst hr; simpa [adjSorted] using h
  | a :: b :: rest, h, r, hr => by
      simp [adjSorted] at h
      rcases List.mem_cons.mp hr with h1 | h1
      · subst h1; exact h.1.1
      · exact adjSorted_wf (b :: rest) h.2 r h1

theorem adjSorted_head_lt : ∀ (l : List WidthRow) (a : WidthRow), adjSorted (a :: l) = true →
    ∀ r ∈ l, a.2.1 < r.1
  | [], _, _, r, hr => by simp at hr
  | b :: rest, a, h, r, hr => by
      simp [adjSorted] at h
      rcases List.mem_cons.mp hr with h1 | h1
      · subst h1; exact h.1.2
      · have hb : b.1 ≤ b.2.1 := adjSorted_wf (b :: rest) h.2 b (by simp)
        have := adjSorted_head_lt rest b h.2 r h1
        omega

theorem adjSorted_tail : ∀ (l : List WidthRow) (a : WidthRow), adjSorted (a :: l) = true → adjSorted l = true
  | [], _, _ => by simp [adjSorted]
  | b :: rest, a, h => by simp [adjSorted] at h; exact h.2

theorem adjSorted_pairwise : ∀ (l : List WidthRow), adjSorted l = true →
    List.Pairwise (fun a b => a.2.1 < b.1) l
  | [], _ => List.Pairwise.nil
  | a :: rest, h =>
      List.Pairwise.cons (adjSorted_head_lt rest a h) (adjSorted_pairwise rest (adjSorted_tail rest a h))

/-- In a sorted-disjoint list, the first-match scan returns the width of *any* row containing `cp`. -/
theorem linearScan_of_contains : ∀ (l : List WidthRow), adjSorted l = true →
    ∀ r ∈ l, rowContains r cp → linearScan l cp = normWidth r.2.2
  | [], _, r, hr, _ => by simp at hr
  | a :: rest, h, r, hr, hc => by
      unfold linearScan
      rcases List.mem_cons.mp hr with h1 | h1
      · subst h1; unfold rowContains at hc; simp [hc]
      · have hlt := adjSorted_head_lt rest a h r h1
        have ha : ¬ (a.1 ≤ cp ∧ cp ≤ a.2.1) := by
          unfold rowContains at hc; omega
        simp only [ha, if_false]
        exact linearScan_of_contains rest (adjSorted_tail rest a h) r h1 hc

theorem linearScan_of_none : ∀ (l : List WidthRow), (∀ r ∈ l, ¬ rowContains r cp) → linearScan l cp = 1
  | [], _ => rfl
  | a :: rest, h => by
      unfold linearScan
      have ha : ¬ (a.1 ≤ cp ∧ cp ≤ a.2.1) := h a (by simp)
      simp only [ha, if_false]
      exact linearScan_of_none rest (fun r hr => h r (List.mem_cons_of_mem _ hr))

theorem bsearchLoop_correct (t : WidthTable) (hs : adjSorted t.toList = true) (cp : Nat) :
    ∀ (fuel lo hiX : Nat), hiX ≤ t.size → hiX - lo < fuel →
      (∀ i (hi : i < t.size), rowContains t[i] cp → lo ≤ i ∧ i < hiX) →
      bsearchLoop t cp fuel lo hiX = linearScan t.toList cp := by
  have hpw := adjSorted_pairwise _ hs
  have hwf := adjSorted_wf _ hs
  have hlt : ∀ i j (hi : i < t.size) (hj : j < t.size), i < j → t[i].2.1 < t[j].1 := by
    intro i j hi hj hij
    have := (List.pairwise_iff_getElem.mp hpw) i j (by simpa using hi) (by simpa using hj) hij
    simpa using this
  have hle : ∀ i (hi : i < t.size), t[i].1 ≤ t[i].2.1 := by
    intro i hi
    exact hwf t[i] (by simp)
  intro fuel
  induction fuel with
  | zero => intro lo hiX _ h; omega
  | succ fuel ih =>
    intro lo hiX hsz hfuel hinv
    unfold bsearchLoop
    by_cases hlo : lo < hiX
    · simp only [hlo, if_true]
      have hidx : (lo + (hiX - 1)) / 2 < t.size := by omega
      simp only [hidx, dite_true]
      generalize hI : (lo + (hiX - 1)) / 2 = idx at *
      have hidx1 : lo ≤ idx := by omega
      have hidx2 : idx < hiX := by omega
      by_cases h1 : cp < t[idx].1
      · simp only [h1, if_true]
        apply ih lo idx (by omega) (by omega)
        intro i hi hc
        have := hinv i hi hc
        refine ⟨this.1, ?_⟩
        by_cases hge : idx ≤ i
        · exfalso
          unfold rowContains at hc
          rcases Nat.lt_or_eq_of_le hge with h2 | h2
          · have := hlt idx i hidx hi h2
            have := hle idx hidx
            omega
          · subst h2; omega
        · omega
      · simp only [h1, if_false]
        by_cases h2 : cp > t[idx].2.1
        · simp only [h2, if_true]
          apply ih (idx+1) hiX hsz (by omega)
          intro i hi hc
          have := hinv i hi hc
          refine ⟨?_, this.2⟩
          by_cases hge : i ≤ idx
          · exfalso
            unfold rowContains at hc
            rcases Nat.lt_or_eq_of_le hge with h3 | h3
            · have := hlt i idx hi hidx h3
              have := hle idx hidx
              omega
            · subst h3; omega
          · omega
        · simp only [h2, if_false]
          symm
          apply linearScan_of_contains _ hs t[idx] (by simp)
          unfold rowContains; omega
    · simp only [hlo, if_false]
      symm
      apply linearScan_of_none
      intro r hr hc
      obtain ⟨i, hi, rfl⟩ := List.getElem_of_mem hr
      have hi' : i < t.size := by simpa using hi
      have := hinv i hi' (by simpa using hc)
      omega

theorem codepointWidth_eq_linear (t : WidthTable) (hs : adjSorted t.toList = true) (cp : Nat) :
    codepointWidth t cp = linearScan t.toList cp := by
  unfold codepointWidth
  apply bsearchLoop_correct t hs cp (t.size + 1) 0 t.size (Nat.le_refl _) (by omega)
  intro i hi _; exact ⟨Nat.zero_le _, hi⟩

/-- Every width in the table is in {-1,0,1,2} (executable check). -/
def widthsSmall (l : List WidthRow) : Bool := l.all (fun r => r.2.2 == -1 || r.2.2 == 0 || r.2.2 == 1 || r.2.2 == 2)

theorem normWidth_le_two (w : Int) (h : (w == -1 || w == 0 || w == 1 || w == 2) = true) : normWidth w ≤ 2 := by
  simp at h
  unfold normWidth
  rcases h with ((h | h) | h) | h <;> subst h <;> decide

theorem linearScan_le_two : ∀ (l : List WidthRow), widthsSmall l = true → ∀ cp, linearScan l cp ≤ 2
  | [], _, _ => by simp [linearScan]
  | a :: rest, h, cp => by
      unfold linearScan
      simp only [widthsSmall, List.all_cons, Bool.and_eq_true] at h
      split
      · exact normWidth_le_two _ h.1
      · exact linearScan_le_two rest (by simpa [widthsSmall] using h.2) cp

/-! ### cache transparency -/

def Cache.Inv (cw : Char → Nat) (c : Cache) : Prop := ∀ p ∈ c.items, p.2 = cellLen cw p.1

theorem Cache.get_sound (cw : Char → Nat) (c : Cache) (h : c.Inv cw) (k : List Char) (v : Nat)
    (hg : c.get k = some v) : v = cellLen cw k := by
  unfold Cache.get at hg
  cases hf : c.items.find? (fun p => p.1 == k) with
  | none => simp [hf] at hg
  | some p =>
    simp [hf] at hg
    have hm := List.mem_of_find?_eq_some hf
    have hk := List.find?_some hf
    simp at hk
    have := h p hm
    subst hg; rw [this, hk]

theorem Cache.set_inv (cw : Char → Nat) (c : Cache) (h : c.Inv cw) (k : List Char) :
    (c.set k (cellLen cw k)).Inv cw := by
  unfold Cache.set
  split
  · intro p hp
    simp only [List.mem_map] at hp
    obtain ⟨q, hq, rfl⟩ := hp
    split
    · rfl
    · exact h q hq
  · split
    · intro p hp
      simp only [List.mem_append, List.mem_singleton] at hp
      rcases hp with hp | hp
      · exact h p (List.mem_of_mem_tail hp)
      · subst hp; rfl
    · intro p hp
      simp only [List.mem_append, List.mem_singleton] at hp
      rcases hp with hp | hp
      · exact h p hp
      · subst hp; rfl

theorem cellLenC_sound (cw : Char → Nat) (c : Cache) (h : c.Inv cw) (s : List Char) :
    (cellLenC cw c s).1 = cellLen cw s ∧ (cellLenC cw c s).2.Inv cw := by
  unfold cellLenC
  cases hg : c.get s with
  | some v => exact ⟨Cache.get_sound cw c h s v hg, h⟩
  | none =>
    simp only
    split
    · exact ⟨rfl, Cache.set_inv cw c h s⟩
    · exact ⟨rfl, h⟩

theorem cellLenHistory_eq (cw : Char → Nat) : ∀ (calls : List (List Char)) (c : Cache), c.Inv cw →
    cellLenHistory cw c calls = calls.map (cellLen cw)
  | [], _, _ => rfl
  | s :: rest, c, h => by
      have := cellLenC_sound cw c h s
      simp only [cellLenHistory, List.map_cons]
      rw [this.1, cellLenHistory_eq cw rest _ this.2]

/-! ### set_cell_size -/

theorem cellLen_append (cw : Char → Nat) (a b : List Char) : cellLen cw (a ++ b) = cellLen cw a + cellLen cw b := by
  simp [cellLen, List.map_append, List.sum_append]

theorem cellLen_replicate (cw : Char → Nat) (n : Nat) (c : Char) : cellLen cw (List.replicate n c) = n * cw c := by
  induction n with
  | zero => simp [cellLen]
  | succ n ih =>
    simp only [cellLen, List.replicate_succ, List.map_cons, List.sum_cons] at *
    rw [ih, Nat.succ_mul]; omega

theorem popLoop_nonpos (l : List Nat) (e : Int) (h : e ≤ 0) : popLoop l e = (l, e) := by
  cases l with
  | nil => rfl
  | cons a r => unfold popLoop; have : ¬ e > 0 := by omega
                simp [this]

theorem popLoop_spec : ∀ (rev : List Nat) (e : Int), (∀ x ∈ rev, x ≤ 2) → 0 < e → e ≤ (rev.sum : Int) →
    ∃ j, (popLoop rev e).1 = rev.drop j ∧ ((popLoop rev e).2 = 0 ∨ (popLoop rev e).2 = -1) ∧
      (((popLoop rev e).1.sum : Nat) : Int) - (popLoop rev e).2 = (rev.sum : Int) - e
  | [], e, _, h0, hle => by simp at hle; omega
  | sz :: rest, e, hsm, h0, hle => by
      have hsz : sz ≤ 2 := hsm sz (by simp)
      have hrest : ∀ x ∈ rest, x ≤ 2 := fun x hx => hsm x (List.mem_cons_of_mem _ hx)
      unfold popLoop
      simp only [h0, if_true]
      simp only [List.sum_cons] at hle ⊢
      by_cases hpos : 0 < e - (sz : Int)
      · obtain ⟨j, h1, h2, h3⟩ := popLoop_spec rest (e - sz) hrest hpos (by push_cast at hle ⊢; omega)
        refine ⟨j+1, by simpa using h1, h2, ?_⟩
        push_cast at h3 ⊢; omega
      · rw [popLoop_nonpos rest _ (by omega)]
        refine ⟨1, by simp, ?_, ?_⟩
        · simp only; omega
        · simp only; push_cast; omega

theorem sum_take_eq_sum_reverse_drop (l : List Nat) (j : Nat) :
    (l.take ((l.reverse.drop j).length)).sum = (l.reverse.drop j).sum := by
  have : l.reverse.drop j = (l.take (l.length - j)).reverse := by
    rw [List.drop_reverse]
  rw [this]; simp [List.length_take]

theorem setCellSize_exact (cw : Char → Nat) (hsp : cw ' ' = 1) (h2 : ∀ c, cw c ≤ 2)
    (s : List Char) (n : Nat) :
    cellLen cw (setCellSize cw s n) = n ∧
    ∃ k m, setCellSize cw s n = s.take k ++ List.replicate m ' ' := by
  unfold setCellSize
  simp only
  by_cases heq : cellLen cw s = n
  · have heq' : (cellLen cw s == n) = true := by simpa using heq
    simp only [heq', if_true]
    exact ⟨heq, s.length, 0, by simp⟩
  · have hne : (cellLen cw s == n) = false := by simpa using heq
    simp only [hne, Bool.false_eq_true, if_false]
    by_cases hlt : cellLen cw s < n
    · simp only [hlt, if_true]
      refine ⟨?_, s.length, n - cellLen cw s, by simp⟩
      rw [cellLen_append, cellLen_replicate, hsp]; omega
    · simp only [hlt, if_false]
      have hgt : n < cellLen cw s := by omega
      have hsum : ((s.map cw).reverse.sum : Int) = cellLen cw s := by simp [cellLen, List.sum_reverse]
      obtain ⟨j, h1, h2', h3⟩ := popLoop_spec (s.map cw).reverse ((cellLen cw s : Int) - n)
        (by intro x hx; simp at hx; obtain ⟨c, _, rfl⟩ := hx; exact h2 c) (by omega) (by rw [hsum]; omega)
      generalize hp : popLoop (s.map cw).reverse ((cellLen cw s : Int) - n) = pr at h1 h2' h3
      obtain ⟨rem, e⟩ := pr
      simp only at h1 h2' h3 ⊢
      have htake : cellLen cw (s.take rem.length) = rem.sum := by
        have := sum_take_eq_sum_reverse_drop (s.map cw) j
        rw [← h1] at this
        simpa [cellLen, List.map_take] using this
      rw [hsum] at h3
      rcases h2' with he | he
      · subst he
        simp only [show ((0:Int) == -1) = false from rfl, Bool.false_eq_true, if_false]
        refine ⟨?_, rem.length, 0, by simp⟩
        rw [htake]; omega
      · subst he
        simp only [beq_self_eq_true, if_true]
        refine ⟨?_, rem.length, 1, by simp⟩
        rw [cellLen_append, htake]; simp [cellLen, hsp]; omega

/-! ### chop_cells -/

theorem chopLoop_concat (cw : Char → Nat) (m : Nat) : ∀ (s : List Char) (total : Nat) (cur : List Char)
    (acc : List (List Char)),
    (chopLoop cw m s total cur acc).flatten = acc.reverse.flatten ++ cur.reverse ++ s
  | [], _, cur, acc => by simp [chopLoop]
  | c :: rest, total, cur, acc => by
      unfold chopLoop
      split
      · rw [chopLoop_concat]; simp
      · rw [chopLoop_concat]; simp

theorem chop_concat (cw : Char → Nat) (s : List Char) (m p : Nat) : (chopCells cw s m p).flatten = s := by
  unfold chopCells; rw [chopLoop_concat]; simp

theorem chopLoop_fits (cw : Char → Nat) (m : Nat) (hc : ∀ c, cw c ≤ m) : ∀ (s : List Char) (total : Nat)
    (cur : List Char) (acc : List (List Char)),
    cellLen cw cur.reverse ≤ total → total ≤ m → (∀ q ∈ acc, cellLen cw q ≤ m) →
    ∀ q ∈ chopLoop cw m s total cur acc, cellLen cw q ≤ m
  | [], total, cur, acc, h1, h2, h3 => by
      intro q hq
      simp only [chopLoop, List.reverse_cons, List.reverse_append, List.reverse_reverse,
        List.mem_append, List.mem_reverse] at hq
      simp at hq
      rcases hq with hq | hq
      · exact h3 q hq
      · subst hq; omega
  | c :: rest, total, cur, acc, h1, h2, h3 => by
      unfold chopLoop
      split
      · apply chopLoop_fits cw m hc rest (cw c) [c] (cur.reverse :: acc)
        · simp [cellLen]
        · exact hc c
        · intro q hq
          rcases List.mem_cons.mp hq with hq | hq
          · subst hq; omega
          · exact h3 q hq
      · apply chopLoop_fits cw m hc rest (total + cw c) (c :: cur) acc
        · simp only [List.reverse_cons]; rw [cellLen_append]
          have : cellLen cw [c] = cw c := by simp [cellLen]
          omega
        · omega
        · exact h3

theorem chop_fits (cw : Char → Nat) (s : List Char) (m p : Nat) (hc : ∀ c, cw c ≤ m) (hp : p ≤ m) :
    ∀ q ∈ chopCells cw s m p, cellLen cw q ≤ m := by
  unfold chopCells
  exact chopLoop_fits cw m hc s p [] [] (by simp [cellLen]) hp (by simp)

end RichModel
