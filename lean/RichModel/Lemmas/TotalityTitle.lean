import RichModel.Model.TotalityTitle
import RichModel.Lemmas.TextTabs
import RichModel.Lemmas.TextOps3
/-!
Lemmas for C14, deepening 4: `expand_tabs()` without argument on a user `Text` (Rule / Panel title, `with_indent_guides`)
is total for the repaired variant, for every documented `tab_size` (`None` or an int ≥ 1).
-/
namespace RichModel
namespace Totality
open RichModel.Text

variable {σ : Type}

/-- a documented `tab_size` option: `None`, or a number of spaces ≥ 1 -/
def TabOk (t : Text σ) : Prop := ∀ n, t.tabSize = some n → 0 < n

theorem setPlain_tabSize (t : Text σ) (s : List Char) : (t.setPlain s).tabSize = t.tabSize := by
  rw [setPlain_eq]
  split
  · split <;> rfl
  · rfl

theorem noCtl_nlToSpace (s : List Char) (h : NoCtl s) : NoCtl (nlToSpace s) := by
  intro c hc
  simp only [nlToSpace, List.mem_map] at hc
  obtain ⟨a, ha, rfl⟩ := hc
  split
  · decide
  · exact h a ha

/-- the effective tab size of the repaired `expand_tabs()` is positive whenever the text's own option is documented -/
theorem eff_pos (t : Text σ) (h : TabOk t) : 0 < ((none : Option Nat).orElse (fun _ => t.tabSize)).getD 8 := by
  simp only [Option.orElse_none]
  cases hts : t.tabSize with
  | none => decide
  | some n => exact h n hts

/-- **repaired `expand_tabs()`**: consistent text, documented `tab_size` → succeeds with a consistent text -/
theorem expandTabsV_total [BEq σ] (t : Text σ) (hi : Inv t) (ht : TabOk t) :
    ∃ q, expandTabsV false Variant.repaired t none = .ok q ∧ Inv q := by
  obtain ⟨q, hq, hqi, _⟩ := expandTabs_view t hi (some (((none : Option Nat).orElse (fun _ => t.tabSize)).getD 8)) _
    (eff_pos t ht) rfl
  exact ⟨q, by simpa [expandTabsV] using hq, hqi⟩

/-- the code as found is C05's `expandTabs` (the model C08's titles use) -/
theorem expandTabsV_found [BEq σ] (v : Variant) (t : Text σ) (ts : Option Nat) :
    expandTabsV true v t ts = t.expandTabs v ts := rfl

/-- both variants agree whenever a tab size is in force (argument or attribute): the repair changes nothing else -/
theorem expandTabsV_agree [BEq σ] (v : Variant) (t : Text σ) (ts : Option Nat) (n : Nat)
    (h : ts.orElse (fun _ => t.tabSize) = some n) :
    expandTabsV false v t ts = expandTabsV true v t ts := by
  simp only [expandTabsV, h, Option.getD_some, Bool.false_eq_true, if_false, if_true]
  unfold expandTabs
  simp only [Option.orElse_some, h]

theorem ruleTitlePrep_total [BEq σ] (t : Text σ) (hi : Inv t) (ht : TabOk t) :
    ∃ q, ruleTitlePrep false Variant.repaired t = .ok q ∧ Inv q := by
  have h1 : Inv (t.setPlain (nlToSpace t.plain)) := inv_setPlain t _ hi (noCtl_nlToSpace _ hi.2.1)
  have h2 : TabOk (t.setPlain (nlToSpace t.plain)) := by
    intro n hn; rw [setPlain_tabSize] at hn; exact ht n hn
  exact expandTabsV_total _ h1 h2

theorem panelTitle_total [BEq σ] (t : Text σ) (hi : Inv t) (ht : TabOk t) :
    ∃ q, panelTitle false Variant.repaired t = .ok q ∧ Inv q := by
  unfold panelTitle
  rw [copy_eq_self t hi]
  have h1 : Inv ({ t with endStr := [] } : Text σ) := hi
  have h2 : Inv (({ t with endStr := [] } : Text σ).setPlain (nlToSpace t.plain)) :=
    inv_setPlain _ _ h1 (noCtl_nlToSpace _ hi.2.1)
  have h3 : Inv ({ (({ t with endStr := [] } : Text σ).setPlain (nlToSpace t.plain)) with noWrap := some true } : Text σ) := h2
  have h4 : TabOk ({ (({ t with endStr := [] } : Text σ).setPlain (nlToSpace t.plain)) with noWrap := some true } : Text σ) := by
    intro n hn
    have : (({ t with endStr := [] } : Text σ).setPlain (nlToSpace t.plain)).tabSize = some n := hn
    rw [setPlain_tabSize] at this
    exact ht n this
  obtain ⟨q, hq, hqi⟩ := expandTabsV_total _ h3 h4
  refine ⟨q.pad 1, ?_, inv_pad q 1 ' ' hqi (by decide)⟩
  show (expandTabsV false Variant.repaired _ none >>= fun (t4 : Text σ) => Except.ok (t4.pad 1)) = _
  rw [hq]; rfl

theorem guidesPrep_total [BEq σ] (t : Text σ) (hi : Inv t) (ht : TabOk t) :
    ∃ q, guidesPrep false Variant.repaired t = .ok q ∧ Inv q := by
  unfold guidesPrep
  rw [copy_eq_self t hi]
  exact expandTabsV_total t hi ht

end Totality
end RichModel
