import RichModel.Lemmas.AnsiBuffer
/-!
Lemmas for property C03, part 4: the *shape* of the tokens `_render_buffer` emits — for **both** code
variants — used by `colour_none_no_escape`, `no_color_no_colour_params` and `not_terminal_no_control`.
Core Lean only.
-/
namespace RichModel.AnsiRender
open RichModel RichModel.AnsiTerm

/-- A generic invariant principle for the loop of `_render_buffer`: if plain text tokens satisfy `T`
and every `Style.render` on an object satisfying `I` yields tokens satisfying `T` and an object
satisfying `I`, then so does the whole loop. -/
theorem renderLoop_inv (v : RVariant) (cc : Cfg) (P : Palettes) (cfg : Config) (I : StyleObj → Prop)
    (T : Tok → Prop) (segs : List Seg)
    (hplain : ∀ seg ∈ segs, T (.text seg.text))
    (hstep : ∀ seg ∈ segs, ∀ o ts o', I o →
      styleRender v cc P o seg.text cfg.colorSystem cfg.legacyWindows = .ok (ts, o') → I o' ∧ ∀ t ∈ ts, T t) :
    ∀ heap toks heap', (∀ o ∈ heap, I o) → renderLoop v cc P cfg heap segs = .ok (toks, heap') →
      (∀ o ∈ heap', I o) ∧ ∀ t ∈ toks, T t := by
  induction segs with
  | nil =>
    intro heap toks heap' hI h
    simp only [renderLoop, Except.ok.injEq, Prod.mk.injEq] at h
    obtain ⟨rfl, rfl⟩ := h
    exact ⟨hI, by intro t ht; cases ht⟩
  | cons seg rest ih =>
    have ih' := ih (fun s hs => hplain s (by simp [hs])) (fun s hs => hstep s (by simp [hs]))
    intro heap toks heap' hI h
    have hTplain : ∀ t ∈ (if (!cfg.isTerminal && seg.control) = true then [] else [Tok.text seg.text]), T t := by
      intro t ht
      split at ht
      · cases ht
      · simp only [List.mem_singleton] at ht; subst ht; exact hplain seg (by simp)
    -- the plain continuation
    have plainCase : ∀ (h : (do
          let (toks, heap') ← renderLoop v cc P cfg heap rest
          Except.ok ((if (!cfg.isTerminal && seg.control) = true then [] else [Tok.text seg.text]) ++ toks, heap') :
            Except RenderErr (List Tok × Heap)) = .ok (toks, heap')),
        (∀ o ∈ heap', I o) ∧ ∀ t ∈ toks, T t := by
      intro h
      cases hr : renderLoop v cc P cfg heap rest with
      | error e => simp [hr, bind, Except.bind] at h
      | ok p =>
        obtain ⟨t2, h2⟩ := p
        simp only [hr, bind, Except.bind, Except.ok.injEq, Prod.mk.injEq] at h
        obtain ⟨rfl, rfl⟩ := h
        obtain ⟨g1, g2⟩ := ih' heap t2 h2 hI hr
        refine ⟨g1, ?_⟩
        intro t ht
        rcases List.mem_append.mp ht with ht | ht
        · exact hTplain t ht
        · exact g2 t ht
    unfold renderLoop at h
    simp only at h
    split at h
    · exact ih' heap toks heap' hI h
    · cases hst : seg.style with
      | none => rw [hst] at h; exact plainCase h
      | some i =>
        rw [hst] at h
        simp only at h
        cases ho : heap[i]? with
        | none => rw [ho] at h; cases h
        | some o =>
          rw [ho] at h
          simp only at h
          have hmem : o ∈ heap := List.mem_iff_getElem?.mpr ⟨i, ho⟩
          split at h
          · cases hsr : styleRender v cc P o seg.text cfg.colorSystem cfg.legacyWindows with
            | error e => simp [hsr, liftPy, bind, Except.bind] at h
            | ok p =>
              obtain ⟨t1, o'⟩ := p
              obtain ⟨hIo', hT1⟩ := hstep seg (by simp) o t1 o' (hI o hmem) hsr
              have hI' : ∀ x ∈ heap.set i o', I x := by
                intro x hx
                rcases List.mem_or_eq_of_mem_set hx with hx | rfl
                · exact hI x hx
                · exact hIo'
              cases hr : renderLoop v cc P cfg (heap.set i o') rest with
              | error e => simp [hsr, liftPy, hr, bind, Except.bind] at h
              | ok q =>
                obtain ⟨t2, h2⟩ := q
                simp only [hsr, liftPy, hr, bind, Except.bind, Except.ok.injEq, Prod.mk.injEq] at h
                obtain ⟨rfl, rfl⟩ := h
                obtain ⟨g1, g2⟩ := ih' _ t2 h2 hI' hr
                refine ⟨g1, ?_⟩
                intro t ht
                rcases List.mem_append.mp ht with ht | ht
                · exact hT1 t ht
                · exact g2 t ht
          · exact plainCase h

/-! ## colour disabled -/

/-- With `color_system=None` every token is the text of a segment — for both code variants. -/
theorem renderBuffer_colour_none (v : RVariant) (cc : Cfg) (P : Palettes) (cfg : Config) (hcs : cfg.colorSystem = none)
    (heap : Heap) (segs : List Seg) (toks : List Tok) (heap' : Heap)
    (h : renderBuffer v cc P cfg heap segs = .ok (toks, heap')) :
    ∀ t ∈ toks, ∃ seg ∈ segs, t = .text seg.text := by
  unfold renderBuffer at h
  simp only [hcs, Option.isSome_none, Bool.and_false, Bool.false_eq_true, if_false] at h
  refine (renderLoop_inv v cc P cfg (fun _ => True) (fun t => ∃ seg ∈ segs, t = .text seg.text) segs
    (fun seg hs => ⟨seg, hs, rfl⟩) ?_ heap toks heap' (fun _ _ => trivial) h).2
  intro seg hs o ts o' _ hr
  simp only [hcs, styleRender, Except.ok.injEq, Prod.mk.injEq] at hr
  obtain ⟨rfl, rfl⟩ := hr
  refine ⟨trivial, ?_⟩
  intro t ht
  simp only [List.mem_singleton] at ht
  exact ⟨seg, hs, ht⟩

/-! ## NO_COLOR -/

/-- An SGR token that carries no colour parameter: the reset, or attribute parameters only. -/
def NoColourTok : Tok → Prop
  | .sgr ps => ps = [0] ∨ ∀ p ∈ ps, p ∈ styleMap
  | _ => True

theorem attrCodes_sub (a : Nat) : ∀ p ∈ attrCodes a, p ∈ styleMap := by
  intro p hp
  rw [attrCodes_eq] at hp
  simp only [codesOf, List.mem_map] at hp
  obtain ⟨i, hi, rfl⟩ := hp
  have := bitsOf_lt a i hi
  rcases lt13 this with rfl | rfl | rfl | rfl | rfl | rfl | rfl | rfl | rfl | rfl | rfl | rfl | rfl <;>
    simp [aspectCode, styleMap]

/-- Colourless object whose cache (if any) holds attribute parameters only. -/
def ColourlessObj (o : StyleObj) : Prop :=
  o.style.color = none ∧ o.style.bgcolor = none ∧ ∀ cs codes, o.ansi = some (cs, codes) → ∀ p ∈ codes, p ∈ styleMap

theorem styleRender_colourless (v : RVariant) (cc : Cfg) (P : Palettes) (o : StyleObj) (ho : ColourlessObj o)
    (text : List Char) (cs : Option ColorSystem) (lw : Bool) (ts : List Tok) (o' : StyleObj)
    (h : styleRender v cc P o text cs lw = .ok (ts, o')) : ColourlessObj o' ∧ ∀ t ∈ ts, NoColourTok t := by
  obtain ⟨hc, hb, hcache⟩ := ho
  cases cs with
  | none =>
    simp only [styleRender, Except.ok.injEq, Prod.mk.injEq] at h
    obtain ⟨rfl, rfl⟩ := h
    exact ⟨⟨hc, hb, hcache⟩, by intro t ht; simp only [List.mem_singleton] at ht; subst ht; trivial⟩
  | some cs =>
    by_cases ht : text.isEmpty = true
    · simp only [styleRender, ht, if_true, Except.ok.injEq, Prod.mk.injEq] at h
      obtain ⟨rfl, rfl⟩ := h
      exact ⟨⟨hc, hb, hcache⟩, by intro t ht; simp only [List.mem_singleton] at ht; subst ht; trivial⟩
    · -- the codes, cached or computed, are attribute parameters only
      have hmk : ∀ codes o1, makeAnsiCodes v cc P o cs = .ok (codes, o1) →
          ColourlessObj o1 ∧ o1.style = o.style ∧ ∀ p ∈ codes, p ∈ styleMap := by
        intro codes o1 hm
        unfold makeAnsiCodes at hm
        cases hl : cacheLookup v o cs with
        | some cd =>
          simp only [hl, Except.ok.injEq, Prod.mk.injEq] at hm
          obtain ⟨rfl, rfl⟩ := hm
          refine ⟨⟨hc, hb, hcache⟩, rfl, ?_⟩
          unfold cacheLookup at hl
          cases ha : o.ansi with
          | none => simp [ha] at hl
          | some q =>
            obtain ⟨cs', cd'⟩ := q
            simp only [ha] at hl
            split at hl
            · cases hl; exact hcache cs' _ ha
            · cases hl
        | none =>
          have hcomp : computeCodes cc P o.style cs = .ok (attrCodes (o.style.attributes &&& o.style.setAttributes)) := by
            simp [computeCodes, colorCodes, hc, hb, bind, Except.bind]
          simp only [hl, hcomp, bind, Except.bind, Except.ok.injEq, Prod.mk.injEq] at hm
          obtain ⟨rfl, rfl⟩ := hm
          refine ⟨⟨hc, hb, ?_⟩, rfl, attrCodes_sub _⟩
          intro cs' codes' he
          simp only [Option.some.injEq, Prod.mk.injEq] at he
          obtain ⟨_, rfl⟩ := he
          exact attrCodes_sub _
      cases hm : makeAnsiCodes v cc P o cs with
      | error e => simp [styleRender, ht, hm, bind, Except.bind] at h
      | ok q =>
        obtain ⟨codes, o1⟩ := q
        obtain ⟨g1, _, g3⟩ := hmk codes o1 hm
        simp only [styleRender, ht, hm, bind, Except.bind, Bool.false_eq_true, if_false, Except.ok.injEq, Prod.mk.injEq] at h
        obtain ⟨rfl, rfl⟩ := h
        refine ⟨g1, ?_⟩
        have hcore : ∀ t ∈ (if codes.isEmpty = true then [Tok.text text] else [Tok.sgr codes, Tok.text text, Tok.sgr [0]]), NoColourTok t := by
          intro t ht
          split at ht
          · simp only [List.mem_singleton] at ht; subst ht; trivial
          · simp only [List.mem_cons, List.not_mem_nil, or_false] at ht
            rcases ht with rfl | rfl | rfl
            · exact Or.inr g3
            · trivial
            · exact Or.inl rfl
        intro t ht
        split at ht
        · simp only [List.append_assoc, List.mem_append, List.mem_singleton] at ht
          rcases ht with rfl | ht | rfl
          · trivial
          · exact hcore t ht
          · trivial
        · exact hcore t ht

/-- Under NO_COLOR no SGR sequence carries a colour parameter — for both code variants, whatever the
caches of the shared objects hold. -/
theorem renderBuffer_no_color (v : RVariant) (cc : Cfg) (P : Palettes) (cfg : Config) (hnc : cfg.noColor = true)
    (heap : Heap) (segs : List Seg) (toks : List Tok) (heap' : Heap)
    (h : renderBuffer v cc P cfg heap segs = .ok (toks, heap')) : ∀ t ∈ toks, NoColourTok t := by
  cases hcs : cfg.colorSystem with
  | none =>
    intro t ht
    obtain ⟨seg, _, rfl⟩ := renderBuffer_colour_none v cc P cfg hcs heap segs toks heap' h t ht
    trivial
  | some cs =>
    unfold renderBuffer at h
    simp only [hnc, hcs, Option.isSome_some, Bool.and_self, if_true] at h
    cases hr : removeColorLoop heap segs [] [] with
    | error e => simp [hr, bind, Except.bind] at h
    | ok p =>
      obtain ⟨segs', tmp⟩ := p
      cases hl : renderLoop v cc P cfg tmp segs' with
      | error e => simp [hr, hl, bind, Except.bind] at h
      | ok q =>
        obtain ⟨t2, tmp2⟩ := q
        simp only [hr, hl, bind, Except.bind, Except.ok.injEq, Prod.mk.injEq] at h
        obtain ⟨rfl, rfl⟩ := h
        -- every object `remove_color` made is colourless with an empty cache
        have htmp : ∀ (ss : List Seg) (keys : List Style) (t0 : Heap) (ss' : List Seg) (t1 : Heap),
            (∀ o ∈ t0, ColourlessObj o) → removeColorLoop heap ss keys t0 = .ok (ss', t1) → ∀ o ∈ t1, ColourlessObj o := by
          intro ss
          induction ss with
          | nil =>
            intro keys t0 ss' t1 h0 he
            simp only [removeColorLoop, Except.ok.injEq, Prod.mk.injEq] at he
            obtain ⟨_, rfl⟩ := he
            exact h0
          | cons s rest ih =>
            intro keys t0 ss' t1 h0 he
            unfold removeColorLoop at he
            have cont : ∀ (keys1 : List Style) (t01 : Heap) (st : Option Nat), (∀ o ∈ t01, ColourlessObj o) →
                (do
                  let (segs', tmp') ← removeColorLoop heap rest keys1 t01
                  Except.ok ({ s with style := st } :: segs', tmp') : Except RenderErr (List Seg × Heap)) = .ok (ss', t1) →
                ∀ o ∈ t1, ColourlessObj o := by
              intro keys1 t01 st h01 hh
              cases hrr : removeColorLoop heap rest keys1 t01 with
              | error e => simp [hrr, bind, Except.bind] at hh
              | ok w =>
                obtain ⟨w1, w2⟩ := w
                simp only [hrr, bind, Except.bind, Except.ok.injEq, Prod.mk.injEq] at hh
                obtain ⟨_, rfl⟩ := hh
                exact ih keys1 t01 w1 w2 h01 hrr
            cases hst : s.style with
            | none => rw [hst] at he; exact cont keys t0 none h0 he
            | some i =>
              rw [hst] at he
              simp only at he
              cases ho : heap[i]? with
              | none => rw [ho] at he; cases he
              | some o =>
                rw [ho] at he
                simp only at he
                split at he
                · cases hf : keys.findIdx? (fun k => Style.eq k o.style) with
                  | some k => rw [hf] at he; exact cont keys t0 (some k) h0 he
                  | none =>
                    rw [hf] at he
                    refine cont (keys ++ [o.style]) _ (some keys.length) ?_ he
                    intro x hx
                    rcases List.mem_append.mp hx with hx | hx
                    · exact h0 x hx
                    · simp only [List.mem_singleton] at hx
                      subst hx
                      refine ⟨?_, ?_, by intro cs' codes hc; cases hc⟩ <;>
                        (unfold Style.withoutColor; split <;> rfl)
                · exact cont keys t0 none h0 he
        have hI := htmp segs [] [] segs' tmp (by intro o ho; cases ho) hr
        exact (renderLoop_inv v cc P cfg ColourlessObj NoColourTok segs' (fun _ _ => trivial)
          (fun seg _ o ts o' hIo hsr => styleRender_colourless v cc P o hIo seg.text _ _ ts o' hsr)
          tmp t2 tmp2 hI hl).2

/-! ## not a terminal -/

/-- The repaired loop ignores control segments on a non-terminal altogether: dropping them from the
input changes neither the output nor the caches. -/
theorem renderLoop_not_terminal (v : RVariant) (hv2 : v.styledControlKept = false) (cc : Cfg) (P : Palettes)
    (cfg : Config) (ht : cfg.isTerminal = false) (segs : List Seg) :
    ∀ heap, renderLoop v cc P cfg heap segs = renderLoop v cc P cfg heap (segs.filter fun s => !s.control) := by
  induction segs with
  | nil => intro heap; rfl
  | cons seg rest ih =>
    intro heap
    by_cases hc : seg.control = true
    · rw [List.filter_cons_of_neg (by simp [hc])]
      conv => lhs; unfold renderLoop
      simp only [hv2, ht, hc, Bool.not_false, Bool.and_self, if_true]
      exact ih heap
    · have hc' : seg.control = false := by simpa using hc
      rw [List.filter_cons_of_pos (by simp [hc'])]
      conv => lhs; unfold renderLoop
      conv => rhs; unfold renderLoop
      simp only [ih]

end RichModel.AnsiRender
