import RichModel.Lemmas.WrapStages
/-!
Every overflow mode: what a divided line `L` becomes (`finishLine`) is filler, then a prefix of `L`'s styled string
— every character with exactly the effective style it has in `L` — then filler, where filler is made of blanks
and the ellipsis character only (`Kept L M`).  Modes "default", "left", "center", "right"; repaired variant.
-/
namespace RichModel
namespace Wrap
open Text
variable {σ : Type}
variable {chars : Bool}

/-- made of blanks and ellipsis characters only (whatever their styles) -/
def Filler (v : List (Char × List σ)) : Prop := ∀ p ∈ v, p.1 = ' ' ∨ p.1 = '…'

theorem Filler.nil : Filler ([] : List (Char × List σ)) := by intro p hp; cases hp

theorem Filler.append {a b : List (Char × List σ)} (ha : Filler a) (hb : Filler b) : Filler (a ++ b) := by
  intro p hp
  rcases List.mem_append.mp hp with h | h
  · exact ha p h
  · exact hb p h

theorem Filler.take {a : List (Char × List σ)} (ha : Filler a) (n : Nat) : Filler (a.take n) :=
  fun p hp => ha p (List.mem_of_mem_take hp)

theorem Filler.replicate (n : Nat) (s : List σ) : Filler (List.replicate n (' ', s)) := by
  intro p hp; rw [List.eq_of_mem_replicate hp]; exact Or.inl rfl

theorem Filler.annot (s : List Char) (f : Nat → List σ) (k : Nat) (h : ∀ c ∈ s, c = ' ' ∨ c = '…') :
    Filler (annot s f k) := by
  intro p hp
  have : p.1 ∈ (Text.annot s f k).map (·.1) := List.mem_map_of_mem hp
  rw [annot_map_fst] at this
  exact h _ this

/-- `M` is filler, a prefix of `L`'s styled string, filler -/
structure Kept (L M : Text σ) : Prop where
  inv : Inv M
  style : M.style = L.style
  shape : ∃ (pre : List (Char × List σ)) (k : Nat) (post : List (Char × List σ)),
    M.view = pre ++ (L.view.take k ++ post) ∧ Filler pre ∧ Filler post

theorem Kept.refl (L : Text σ) (h : Inv L) : Kept L L :=
  ⟨h, rfl, [], L.view.length, [], by simp, Filler.nil, Filler.nil⟩

theorem Kept.trans {L M N : Text σ} (h1 : Kept L M) (h2 : Kept M N) : Kept L N := by
  refine ⟨h2.inv, h2.style.trans h1.style, ?_⟩
  obtain ⟨pre, k, post, hM, hpre, hpost⟩ := h1.shape
  obtain ⟨pre', k', post', hN, hpre', hpost'⟩ := h2.shape
  refine ⟨pre' ++ pre.take k', min (k' - pre.length) k, (post.take (k' - pre.length - (L.view.take k).length)) ++ post', ?_,
    hpre'.append (hpre.take _), (hpost.take _).append hpost'⟩
  rw [hN, hM]
  simp only [List.take_append, List.take_take, List.append_assoc]

theorem kept_of_take (L M : Text σ) (hi : Inv M) (hs : M.style = L.style) (k : Nat) (hv : M.view = L.view.take k) :
    Kept L M := ⟨hi, hs, [], k, [], by simp [hv], Filler.nil, Filler.nil⟩

theorem rstripEnd_kept (cw : Char → Nat) (t : Text σ) (h : Inv t) (size : Nat) : Kept t (Text.rstripEndW chars cw Variant.repaired t (size : Int)) := by
  obtain ⟨k, _, _, hv, hi, hs⟩ := rstripEnd_spec (chars := chars) cw t h size
  exact kept_of_take _ _ hi hs k hv

theorem rstrip_kept (t : Text σ) (h : Inv t) : Kept t t.rstrip := by
  have h1 := (rstrip_sameInk t h).1
  refine kept_of_take _ _ h1.inv h1.style (rlen t.plain) ?_
  unfold Text.rstrip
  rw [view_setPlain _ _ h, pyRstrip_eq_take, annot_take, ← view_eq_annot]

theorem padLeft_kept (t : Text σ) (h : Inv t) (n : Nat) : Kept t (t.padLeft (n : Int) ' ') :=
  ⟨inv_padLeft _ _ _ h noCtl_space, padLeft_style _ _ _, List.replicate n (' ', [t.style]), t.view.length, [],
    by rw [view_padLeft _ _ _ h]; simp, Filler.replicate _ _, Filler.nil⟩

theorem padRight_kept (t : Text σ) (h : Inv t) (n : Nat) : Kept t (t.padRight (n : Int) ' ') :=
  ⟨inv_padRight _ _ _ h noCtl_space, padRight_style _ _ _, [], t.view.length, List.replicate n (' ', [t.style]),
    by rw [view_padRight _ _ _ h]; simp, Filler.nil, Filler.replicate _ _⟩

theorem ellipsis_noCtl : isStripCode '…' = false := by decide

/-- `truncate` in every overflow mode, padded or not -/
theorem truncate_kept (cw : Char → Nat) (hsp : cw ' ' = 1) (h2 : ∀ c, cw c ≤ 2) (t : Text σ) (h : Inv t) (w : Nat)
    (hw : 1 ≤ w) (ov : Overflow) (pad : Bool) : Kept t (t.truncate cw (w : Int) (some ov) pad) := by
  rw [truncate_some]
  split
  · by_cases hlong : (cellLen cw t.plain : Int) > (w : Int)
    · have hnp : ¬ ((cellLen cw t.plain : Int) < (w : Int)) := by omega
      simp only [hlong, if_true, hnp, decide_false, Bool.and_false, Bool.false_eq_true, if_false]
      split
      · have : ((w : Int) - 1) = ((w - 1 : Nat) : Int) := by omega
        rw [this, setCellSizeI_nat]
        obtain ⟨_, k, m, hkm⟩ := setCellSize_exact cw hsp h2 t.plain (w - 1)
        rw [hkm]
        refine ⟨?_, setPlain_style _ _, [], k, ?_⟩
        · exact inv_setPlain _ _ h (NoCtl.append (NoCtl.append (NoCtl.take _ h.2.1) (NoCtl.replicate _ _ noCtl_space))
            (by intro c hc; simp only [List.mem_singleton] at hc; subst hc; exact ellipsis_noCtl))
        · refine ⟨annot (List.replicate m ' ' ++ ['…']) t.effStyle (0 + (t.plain.take k).length), ?_, Filler.nil, ?_⟩
          · rw [view_setPlain _ _ h, List.append_assoc, annot_append, annot_take, ← view_eq_annot]; simp
          · apply Filler.annot
            intro c hc
            rcases List.mem_append.mp hc with hc | hc
            · exact Or.inl (List.eq_of_mem_replicate hc)
            · simp only [List.mem_singleton] at hc; exact Or.inr hc
      · rw [setCellSizeI_nat]
        obtain ⟨_, k, m, hkm⟩ := setCellSize_exact cw hsp h2 t.plain w
        rw [hkm]
        refine ⟨?_, setPlain_style _ _, [], k, ?_⟩
        · exact inv_setPlain _ _ h (NoCtl.append (NoCtl.take _ h.2.1) (NoCtl.replicate _ _ noCtl_space))
        · refine ⟨annot (List.replicate m ' ') t.effStyle (0 + (t.plain.take k).length), ?_, Filler.nil, ?_⟩
          · rw [view_setPlain _ _ h, annot_append, annot_take, ← view_eq_annot]; simp
          · apply Filler.annot
            intro c hc
            exact Or.inl (List.eq_of_mem_replicate hc)
    · simp only [hlong, if_false]
      split
      · refine ⟨⟨rfl, NoCtl.append h.2.1 (NoCtl.replicate _ _ noCtl_space), ?_⟩, rfl, [], t.view.length, ?_⟩
        · exact SpansIn.mono h.2.2 (by have := h.1; simp only [List.length_append]; omega)
        · refine ⟨annot (List.replicate ((w : Int) - (cellLen cw t.plain : Int)).toNat ' ') t.effStyle (0 + t.plain.length), ?_,
            Filler.nil, ?_⟩
          · rw [view_eq_annot]
            show annot (t.plain ++ List.replicate _ ' ') t.effStyle 0 = _
            rw [annot_append, ← view_eq_annot]; simp
          · apply Filler.annot
            intro c hc
            exact Or.inl (List.eq_of_mem_replicate hc)
      · exact Kept.refl t h
  · exact Kept.refl t h

theorem setPlain_self (t : Text σ) : t.setPlain t.plain = t := by
  rw [setPlain_eq]; simp

theorem padRight_int_kept (t : Text σ) (h : Inv t) (x : Int) : Kept t (t.padRight x ' ') := by
  by_cases hx : 0 ≤ x
  · have : x = ((x.toNat : Nat) : Int) := by omega
    rw [this]; exact padRight_kept t h _
  · rw [padRight_eq]
    have : x.toNat = 0 := by omega
    rw [this]
    simp only [List.replicate_zero, List.append_nil, setPlain_self]
    split <;> exact Kept.refl t h

theorem padCount_repaired (x : Int) : padCount (WVariant.fixed chars) x = ((x.toNat : Nat) : Int) := by
  show (if false = true then x else max 0 x) = _
  simp only [Bool.false_eq_true, if_false]; omega

/-- `Lines.justify` (left / center / right / default) on one line, every overflow mode -/
theorem justifyOne_kept (cw : Char → Nat) (hsp : cw ' ' = 1) (h2 : ∀ c, cw c ≤ 2) (w : Nat) (hw : 1 ≤ w) (j : Justify)
    (o : Overflow) (l : Text σ) (h : Inv l) : Kept l (justifyOne (WVariant.fixed chars) cw w j o l) := by
  cases j with
  | full => exact Kept.refl l h
  | default => exact Kept.refl l h
  | left => exact truncate_kept cw hsp h2 l h w hw o true
  | center =>
    simp only [justifyOne]
    have h1 := rstrip_kept l h
    have h2' := truncate_kept cw hsp h2 l.rstrip h1.inv w hw o false
    rw [padCount_repaired]
    have h3 := padLeft_kept _ h2'.inv (((w : Int) - (cellLen cw (l.rstrip.truncate cw (w : Int) (some o) false).plain : Int)) / 2).toNat
    exact ((h1.trans h2').trans h3).trans (padRight_int_kept _ h3.inv _)
  | right =>
    simp only [justifyOne]
    have h1 := rstrip_kept l h
    have h2' := truncate_kept cw hsp h2 l.rstrip h1.inv w hw o false
    rw [padCount_repaired]
    exact (h1.trans h2').trans (padLeft_kept _ h2'.inv _)

/-- **every overflow mode**: what `Text.wrap` finally makes of a divided line is filler, a prefix of the line's
styled string (every character with exactly its effective style), filler -/
theorem finishLine_kept (cw : Char → Nat) (hsp : cw ' ' = 1) (h2 : ∀ c, cw c ≤ 2) (w : Nat) (hw : 1 ≤ w) (j : Justify)
    (o : Overflow) (L : Text σ) (h : Inv L) : Kept L (finishLine (WVariant.fixed chars) cw w j o L) := by
  unfold finishLine
  have h0 := rstripEnd_kept (chars := chars) cw L h w
  have h1 := justifyOne_kept (chars := chars) cw hsp h2 w hw j o _ h0.inv
  exact (h0.trans h1).trans (truncate_kept cw hsp h2 _ h1.inv w hw o false)

end Wrap
end RichModel
