import RichModel.Lemmas.TextCut
import RichModel.Lemmas.WrapTabs
import RichModel.Lemmas.TextTabs
/-!
Histories over the full operation set: the operations of `TextHistory.Op` plus `rstrip`, `truncate`,
`align`, `join` (as separator and as element), `assemble`, `divide`, slicing, single-character `split`
and `expand_tabs`.
-/
namespace RichModel
namespace Text
variable {σ : Type}

inductive OpX (σ : Type) where
  | base (op : Op σ)
  | rstrip
  | truncate (w : Int) (ov : Option Overflow) (pad : Bool)
  | align (m : AlignMethod) (w : Int) (ch : Char)
  | joinSep (lines : List (Text σ))                               -- `t.join(lines)`
  | joinIn (sep : Text σ) (before after : List (Text σ))          -- `sep.join(before + [t] + after)`
  | assembleIn (before after : List (Part σ)) (style : σ)         -- `Text.assemble(*before, t, *after, style=…)`
  | divide (offs : List Nat) (pick : Nat)                         -- `t.divide(offs)[pick]`
  | slice (a b : Option Int)                                      -- `t[a:b]`
  | split (d : Char) (pick : Nat)                                 -- `t.split(d, include_separator=True)[pick]`
  | expandTabs (ts : Nat)                                         -- `t.expand_tabs(ts)`
  | removeSuffix (suffix : List Char)                             -- `t.remove_suffix(suffix)`
  | addStr (s : List Char)                                        -- `t + str`
  | addText (u : Text σ)                                          -- `t + Text`

def pickLine (r : Except PyErr (List (Text σ))) (k : Nat) : Except PyErr (Text σ) :=
  match r with
  | .error e => .error e
  | .ok ls => match ls[k]? with
    | some l => .ok l
    | none => .error .indexError

def stepX [BEq σ] (cw : Char → Nat) (null : σ) (t : Text σ) : OpX σ → Except PyErr (Text σ)
  | .base op => step null t op
  | .rstrip => .ok t.rstrip
  | .truncate w ov pad => .ok (t.truncate cw w ov pad)
  | .align m w ch => .ok (t.align Variant.repaired cw m w ch)
  | .joinSep lines => .ok (t.join Variant.repaired lines)
  | .joinIn sep before after => .ok (sep.join Variant.repaired (before ++ [t] ++ after))
  | .assembleIn before after style => .ok (assemble Variant.repaired (before ++ [Part.txt t] ++ after) style)
  | .divide offs k => pickLine (t.divide Variant.repaired offs) k
  | .slice a b => t.getSlice Variant.repaired a b
  | .split d k => pickLine (t.split Variant.repaired [d] true) k
  | .expandTabs ts => t.expandTabs Variant.repaired (some ts)
  | .removeSuffix suffix => .ok (t.removeSuffix Variant.repaired suffix)
  | .addStr s => .ok (t.addStr Variant.repaired s)
  | .addText u => .ok (t.addText Variant.repaired u)

/-- the domain of the property, per operation -/
def OpX.Pre (t : Text σ) : OpX σ → Prop
  | .base op => op.Pre t
  | .align _ _ ch => isStripCode ch = false
  | .joinSep lines => ∀ x ∈ lines, Inv x
  | .joinIn sep before after => Inv sep ∧ (∀ x ∈ before, Inv x) ∧ (∀ x ∈ after, Inv x)
  | .assembleIn before after _ => (∀ p ∈ before, p.Ok) ∧ (∀ p ∈ after, p.Ok)
  | .divide offs _ => AscFrom 0 offs ∧ ∀ o ∈ offs, o ≤ t.plain.length      -- ascending offsets inside the text
  | .addText u => Inv u
  | .expandTabs ts => 0 < ts
  | _ => True

theorem inv_pickLine (r : Except PyErr (List (Text σ))) (k : Nat) (t' : Text σ)
    (h : ∀ ls, r = .ok ls → ∀ l ∈ ls, Inv l) (hs : pickLine r k = .ok t') : Inv t' := by
  unfold pickLine at hs
  cases r with
  | error e => simp at hs
  | ok ls =>
    simp only [] at hs
    cases hk : ls[k]? with
    | none => rw [hk] at hs; simp at hs
    | some l =>
      rw [hk] at hs
      simp only [Except.ok.injEq] at hs
      subst hs
      exact h ls rfl l (List.mem_of_getElem? hk)

theorem inv_stepX [BEq σ] (cw : Char → Nat) (null : σ) (t t' : Text σ) (op : OpX σ) (h : Inv t) (hp : op.Pre t)
    (hs : stepX cw null t op = .ok t') : Inv t' := by
  cases op with
  | base op => exact inv_step null t t' op h hp hs
  | rstrip => cases hs; exact inv_rstrip t h
  | truncate w ov pad => cases hs; exact (truncate_spec cw t w ov pad h).1
  | align m w ch => cases hs; exact (align_spec cw t m w ch h hp).1
  | joinSep lines => cases hs; exact inv_join t lines h hp
  | joinIn sep before after =>
    cases hs
    apply inv_join sep _ hp.1
    intro x hx
    simp only [List.mem_append, List.mem_singleton] at hx
    rcases hx with (hx | hx) | hx
    · exact hp.2.1 x hx
    · rw [hx]; exact h
    · exact hp.2.2 x hx
  | assembleIn before after style =>
    cases hs
    apply inv_assemble
    intro p hpm
    simp only [List.mem_append, List.mem_singleton] at hpm
    rcases hpm with (hpm | hpm) | hpm
    · have := hp.1 p hpm; cases p <;> first | trivial | exact this
    · subst hpm; exact h
    · have := hp.2 p hpm; cases p <;> first | trivial | exact this
  | divide offs k =>
    obtain ⟨lines, hdiv, _, _, hall⟩ := divide_view t offs h hp.1 hp.2
    apply inv_pickLine _ k t' _ hs
    intro ls hls l hl
    rw [hdiv] at hls
    cases hls
    exact (hall l hl).1
  | slice a b =>
    obtain ⟨u, hu, hinv, _⟩ := getSlice_view_all t a b h
    simp only [stepX] at hs
    rw [hu] at hs
    cases hs; exact hinv
  | split d k =>
    obtain ⟨parts, hsp, _, hall⟩ := Wrap.split_char_spec d t h
    apply inv_pickLine _ k t' _ hs
    intro ls hls l hl
    rw [hsp] at hls
    cases hls
    exact (hall l hl).1
  | expandTabs ts =>
    obtain ⟨Q, hQ, hinv, _⟩ := Wrap.expandTabs_ink' t h ts hp
    simp only [stepX] at hs
    rw [hQ] at hs
    cases hs; exact hinv
  | removeSuffix suffix =>
    cases hs
    unfold removeSuffix
    split
    · exact inv_rightCrop t suffix.length h
    · exact h
  | addStr s =>
    cases hs
    unfold addStr
    rw [copy_eq_self t h]
    exact inv_appendStr t s none h
  | addText u =>
    cases hs
    unfold addText
    rw [copy_eq_self t h]
    exact inv_appendT t u h hp

def runX [BEq σ] (cw : Char → Nat) (null : σ) (t : Text σ) : List (OpX σ) → Except PyErr (Text σ)
  | [] => .ok t
  | op :: rest =>
    match stepX cw null t op with
    | .ok t' => runX cw null t' rest
    | .error e => .error e

def HistPreX [BEq σ] (cw : Char → Nat) (null : σ) (t : Text σ) : List (OpX σ) → Prop
  | [] => True
  | op :: rest => op.Pre t ∧ ∀ t', stepX cw null t op = .ok t' → HistPreX cw null t' rest

theorem inv_runX [BEq σ] (cw : Char → Nat) (null : σ) (ops : List (OpX σ)) (t t' : Text σ) (h : Inv t)
    (hp : HistPreX cw null t ops) (hr : runX cw null t ops = .ok t') : Inv t' := by
  induction ops generalizing t with
  | nil => cases hr; exact h
  | cons op rest ih =>
    simp only [runX] at hr
    cases hs : stepX cw null t op with
    | error e => rw [hs] at hr; cases hr
    | ok t1 =>
      rw [hs] at hr
      exact ih t1 (inv_stepX cw null t t1 op h hp.1 hs) (hp.2 t1 hs) hr

end Text
end RichModel
