import RichModel.Lemmas.TableTotal
import RichModel.Lemmas.CollapseKeepMixed
/-!
Column widths of ARBITRARY sane tables — fixed `width`, `min_width`, `max_width`, `no_wrap` columns included.

* the structural minimum: the first-pass widths of the columns that may not shrink (fixed `width`, `no_wrap`) plus one cell
  for every column that may;
* at or above it, `_collapse_widths` reaches `max_width` without starving a column, the last-resort `ratio_reduce` is never
  used, and the re-measure can push a column above its collapsed width only up to its `min_width` floor;
* so the table is at most `max_width + Σ floors` wide — exactly "never wider than offered" when no column has a `min_width`.
-/
namespace RichModel

/-- The floor a column's `min_width` puts under its measured width (`with_minimum`); 0 for fixed-width columns (their
`min_width` is not read) and for columns without one. -/
def Table.colFloor (t : Table) (idx : Nat) (c : Column) : Int :=
  if c.width.isSome then 0 else match c.minWidth with
    | none => 0
    | some m => max 0 (m + t.paddingWidth idx)

theorem colFloor_nonneg (t : Table) (idx : Nat) (c : Column) : 0 ≤ t.colFloor idx c := by
  unfold Table.colFloor
  split
  · omega
  · split <;> omega

/-- Sum of the `min_width` floors. -/
def Table.floorSum (t : Table) : Int := (t.indexed.map (fun ci => t.colFloor ci.2 ci.1)).sum

/-- A sane column offered `w ≥ 1` cells measures at most `w`, or its `min_width` floor if that is larger. -/
theorem measureColumn_le_floor (t : Table) (h : t.Sane) (idx : Nat) (c : Column) (hc : c ∈ t.columns) (w : Int) (hw1 : 1 ≤ w) :
    (t.measureColumn idx c w).maximum ≤ max w (t.colFloor idx c) := by
  have hpw := paddingWidth_nonneg t h idx
  unfold Table.measureColumn Table.colFloor
  simp only [show ¬ (w < 1) by omega, if_false]
  cases hcw : c.width with
  | some cwid =>
    simp only [Measurement.withMaximum, Option.isSome_some, if_true]
    omega
  | none =>
    simp only [Option.isSome_none, Bool.false_eq_true, if_false]
    generalize (if ((t.getCells c).map (fun cell => cell.measure w.toNat)).isEmpty then w
        else listMax (((t.getCells c).map (fun cell => cell.measure w.toNat)).map (·.maximum))) = mx
    generalize (if ((t.getCells c).map (fun cell => cell.measure w.toNat)).isEmpty then (1 : Int)
        else listMax (((t.getCells c).map (fun cell => cell.measure w.toNat)).map (·.minimum))) = mn
    cases hmn : c.minWidth <;> cases hmx : c.maxWidth <;>
      simp only [Option.map_none, Option.map_some, Measurement.clamp, Measurement.withMaximum, Measurement.withMinimum] <;> omega

/-- The re-measure of ANY sane table at widths `≥ 1`: one width per column, each at least 1 and at most the old width
plus the column's `min_width` floor. -/
theorem remeasure_general (t : Table) (h : t.Sane) (ws : List Int) (hlen : ws.length = t.columns.length) (h1 : ∀ w ∈ ws, 1 ≤ w) :
    (t.remeasure ws).length = t.columns.length ∧ (∀ w ∈ t.remeasure ws, 1 ≤ w) ∧ (t.remeasure ws).sum ≤ ws.sum + t.floorSum := by
  refine ⟨remeasure_length t ws hlen, remeasure_ge_one t h ws, ?_⟩
  unfold Table.remeasure Table.floorSum
  have hind : ∀ ci ∈ t.indexed, ci.1 ∈ t.columns := fun ci hci => mem_indexed t ci hci
  have hl : ws.length = t.indexed.length := by rw [indexed_length]; exact hlen
  clear hlen
  generalize t.indexed = ind at hind hl
  induction ws generalizing ind with
  | nil => cases ind with
    | nil => simp
    | cons _ _ => simp at hl
  | cons w ws ih =>
    cases ind with
    | nil => simp at hl
    | cons ci ind =>
      have hw1 := h1 w (by simp)
      have hb := measureColumn_le_floor t h ci.2 ci.1 (hind ci (by simp)) w hw1
      have hnn := measureColumn_nonneg t h ci.2 ci.1 (hind ci (by simp)) w
      have hf := colFloor_nonneg t ci.2 ci.1
      have ho := orOne_bounds (t.measureColumn ci.2 ci.1 w).maximum (max w (t.colFloor ci.2 ci.1)) hnn
      have ho2 := ho.2 (by omega) hb
      have := ih (fun x hx => h1 x (List.mem_cons_of_mem _ hx)) ind (fun c hc => hind c (List.mem_cons_of_mem _ hc)) (by simpa using hl)
      simp only [List.zip_cons_cons, List.map_cons, List.sum_cons] at this ⊢
      omega

/-- `wrapZero` (every shrinkable column at 0) is impossible when every column is at least 1 and one may shrink. -/
theorem not_wrapZero (r : List Int) (wr : List Bool) (hlen : r.length = wr.length) (h1 : ∀ w ∈ r, 1 ≤ w)
    (hany : wr.any id = true) : ¬ wrapZero r wr := by
  intro hz
  simp only [List.any_eq_true, id] at hany
  obtain ⟨b, hb, hbt⟩ := hany
  obtain ⟨i, hi, rfl⟩ := List.getElem_of_mem hb
  have hir : i < r.length := by omega
  have := hz (r[i], wr[i]) (by rw [List.mem_iff_getElem]; exact ⟨i, by simp; omega, by simp⟩) hbt
  have := h1 r[i] (List.getElem_mem _)
  simp only at *
  omega

theorem nonWrapSum_all (ws : List Int) (wr : List Bool) (hlen : ws.length = wr.length) (hnone : wr.any id = false) :
    nonWrapSum (ws.zip wr) = ws.sum := by
  induction ws generalizing wr with
  | nil => simp [nonWrapSum]
  | cons x xs ih =>
    cases wr with
    | nil => simp at hlen
    | cons b bs =>
      simp only [List.any_cons, id, Bool.or_eq_false_iff] at hnone
      have := ih bs (by simpa using hlen) hnone.2
      simp only [nonWrapSum, List.zip_cons_cons, List.map_cons, List.sum_cons, hnone.1, Bool.false_eq_true, if_false] at this ⊢
      omega

theorem wrapCount_nonneg (zs : List (Int × Bool)) : 0 ≤ wrapCount zs := by
  unfold wrapCount
  apply sum_nonneg_of_all
  intro x hx
  simp only [List.mem_map] at hx
  obtain ⟨z, _, rfl⟩ := hx
  split <;> omega

/-- At or above the structural minimum the collapse block reaches `max_width` by collapsing alone: every column keeps at
least one cell and the last-resort `ratio_reduce` is not used. -/
theorem shrinkPre_budget (t : Table) (maxWidth : Int) (ws0 : List Int) (hlen : ws0.length = t.columns.length)
    (h1 : ∀ w ∈ ws0, 1 ≤ w) (hover : maxWidth < ws0.sum)
    (hbudget : nonWrapSum (ws0.zip t.wrapable) + wrapCount (ws0.zip t.wrapable) ≤ maxWidth) :
    let r := collapseWidths ws0 t.wrapable maxWidth
    t.shrinkPre ws0 maxWidth = (r, r.sum) ∧ r.sum ≤ maxWidth ∧ r.length = t.columns.length ∧ ∀ w ∈ r, 1 ≤ w := by
  intro r
  have hwl : ws0.length = t.wrapable.length := by simp [Table.wrapable, hlen]
  have hnn : ∀ w ∈ ws0, 0 ≤ w := fun w hw => by have := h1 w hw; omega
  have hkeep := collapseWidths_keep_mixed ws0 t.wrapable maxWidth hwl h1 hbudget
  have hpost := collapseWidths_post ws0 t.wrapable maxWidth hwl hnn
  simp only at hpost
  obtain ⟨hcl, _, _, hfit, _⟩ := hpost
  have hany : t.wrapable.any id = true := by
    cases hb : t.wrapable.any id with
    | true => rfl
    | false =>
      have := nonWrapSum_all ws0 t.wrapable hwl hb
      have := wrapCount_nonneg (ws0.zip t.wrapable)
      omega
  have hsum : r.sum ≤ maxWidth := by
    rcases hfit hany with h | h
    · exact h
    · exact absurd h (not_wrapZero _ _ (by omega) hkeep hany)
  refine ⟨?_, hsum, by show (collapseWidths ws0 t.wrapable maxWidth).length = _; omega, hkeep⟩
  unfold Table.shrinkPre
  have hsum' : (collapseWidths ws0 t.wrapable maxWidth).sum ≤ maxWidth := hsum
  simp only [show ¬ ((collapseWidths ws0 t.wrapable maxWidth).sum > maxWidth) by omega, if_false]
  rfl

end RichModel
